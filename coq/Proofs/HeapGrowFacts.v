(* C01, growable members: a static container never shares a member list with a grow-only one (invariant over every guarded
   history), hence growing any source never changes a static container, and the implementation model refines value semantics. *)
Require Import SF.Prelude SF.HeapGrow.
Local Open Scope nat_scope.

Definition disj (a b : list nat) : Prop := forall x, In x a -> ~ In x b.
Definition GWF (w : gworld) : Prop := forall c id, In c (gw_conts w) -> In id (g_lists c) -> id < length (gw_lists w).
(* a grow-only container shares its member lists with nobody *)
Definition GPriv (w : gworld) : Prop :=
  forall i j ci cj, nth_error (gw_conts w) i = Some ci -> nth_error (gw_conts w) j = Some cj ->
    g_static ci = false -> i <> j -> disj (g_lists ci) (g_lists cj).
Definition GInv (w : gworld) : Prop := GWF w /\ GPriv w.

Lemma ginv_w0 : GInv gw0.
Proof. split; [intros c id []|intros [|i] j ci cj H; discriminate]. Qed.

Lemma length_grow ids m ls : forall i, length (grow_lists ids m i ls) = length ls.
Proof. induction ls as [|l t IH]; intros i; cbn; auto. Qed.

Lemma nth_grow ids m ls : forall i k, k < length ls ->
  nth k (grow_lists ids m i ls) [] = if existsb (Nat.eqb (i + k)) ids then nth k ls [] ++ [m] else nth k ls [].
Proof.
  induction ls as [|l t IH]; intros i k Hk; cbn in Hk; [lia|].
  destruct k as [|k]; cbn [grow_lists nth].
  - rewrite Nat.add_0_r. reflexivity.
  - rewrite IH by lia. replace (S i + k) with (i + S k) by lia. reflexivity.
Qed.

Lemma existsb_eqb_In x ids : existsb (Nat.eqb x) ids = true <-> In x ids.
Proof.
  rewrite existsb_exists. split.
  - intros [y [Hy E]]. apply Nat.eqb_eq in E. subst. auto.
  - intros H. exists x. split; auto. apply Nat.eqb_refl.
Qed.

Lemma grow_own ids m ls : (forall id, In id ids -> id < length ls) ->
  forall sub, (forall id, In id sub -> In id ids) ->
  map (glist (grow_lists ids m 0 ls)) sub = map (fun l => l ++ [m]) (map (glist ls) sub).
Proof.
  intros Hwf sub Hs. rewrite map_map. apply map_ext_in. intros id Hid. unfold glist.
  rewrite nth_grow by (apply Hwf; auto). cbn.
  destruct (existsb (Nat.eqb id) ids) eqn:E; auto.
  assert (existsb (Nat.eqb id) ids = true) by (apply existsb_eqb_In; auto). congruence.
Qed.

Lemma grow_other ids m ls sub :
  (forall id, In id sub -> id < length ls /\ ~ In id ids) ->
  map (glist (grow_lists ids m 0 ls)) sub = map (glist ls) sub.
Proof.
  intros H. apply map_ext_in. intros id Hid. destruct (H id Hid) as [Hl Hn]. unfold glist.
  rewrite nth_grow by auto. cbn.
  destruct (existsb (Nat.eqb id) ids) eqn:E; auto. apply existsb_eqb_In in E. contradiction.
Qed.

Lemma glist_app ls ext id : id < length ls -> glist (ls ++ ext) id = glist ls id.
Proof. intros H. unfold glist. apply app_nth1; auto. Qed.

Lemma map_glist_app ls ext ids : (forall id, In id ids -> id < length ls) ->
  map (glist (ls ++ ext)) ids = map (glist ls) ids.
Proof. intros H. apply map_ext_in. intros id Hid. apply glist_app; auto. Qed.

Lemma map_glist_fresh ls (ms : list (list Z)) : map (glist (ls ++ ms)) (seq (length ls) (length ms)) = ms.
Proof.
  unfold glist. revert ls. induction ms as [|a t IH]; intros ls; cbn; auto. f_equal.
  - rewrite app_nth2 by lia. rewrite Nat.sub_diag. reflexivity.
  - specialize (IH (ls ++ [a])). rewrite app_length in IH. cbn in IH. rewrite <- app_assoc in IH. cbn in IH.
    replace (length ls + 1) with (S (length ls)) in IH by lia. exact IH.
Qed.

Lemma nth_error_snoc {A} (l : list A) x j c :
  nth_error (l ++ [x]) j = Some c -> (j < length l /\ nth_error l j = Some c) \/ (j = length l /\ c = x).
Proof.
  intros H. destruct (Nat.lt_ge_cases j (length l)) as [L|L].
  - left. rewrite nth_error_app1 in H by auto. auto.
  - right. rewrite nth_error_app2 in H by auto.
    destruct (j - length l) as [|k] eqn:E; cbn in H; [|destruct k; discriminate].
    injection H as <-. split; auto. lia.
Qed.

(* adding a container whose lists are all fresh keeps the invariant *)
Lemma ginv_add_fresh ls conts ext st :
  GInv (mk_gworld ls conts) ->
  GInv (mk_gworld (ls ++ ext) (conts ++ [mk_gcont st (seq (length ls) (length ext))])).
Proof.
  intros [Hwf Hp]. split.
  - intros c id Hc Hid. cbn in *. rewrite app_length. apply in_app_or in Hc as [Hc|[<-|[]]].
    + specialize (Hwf c id Hc Hid). cbn in Hwf. lia.
    + cbn in Hid. apply in_seq in Hid. lia.
  - intros i j ci cj Hi Hj Hs Hne x Hx Hx'. cbn in *.
    apply nth_error_snoc in Hi as [[Li Hi]|[Ei ->]]; apply nth_error_snoc in Hj as [[Lj Hj]|[Ej ->]].
    + exact (Hp i j ci cj Hi Hj Hs Hne x Hx Hx').
    + cbn in Hx'. apply in_seq in Hx'. apply nth_error_In in Hi. specialize (Hwf ci x Hi Hx). cbn in Hwf. lia.
    + cbn in Hx. apply in_seq in Hx. apply nth_error_In in Hj. specialize (Hwf cj x Hj Hx'). cbn in Hwf. lia.
    + lia.
Qed.

(* one successful guarded step: invariant kept, containers only appended, static containers untouched *)
Lemma gstep_inv w s w' :
  GInv w -> gstep_ok w s = true -> gM_step w s = Ok w' ->
  GInv w' /\ (exists extra, gw_conts w' = gw_conts w ++ extra) /\
  (forall j k, nth_error (gw_conts w) j = Some k -> g_static k = true -> gcont_obs w' k = gcont_obs w k).
Proof.
  intros HI Hok Hm. pose proof HI as [Hwf Hp]. destruct w as [ls conts]. cbn [gw_lists gw_conts] in *.
  assert (Hstable : forall ext j k, nth_error conts j = Some k -> gcont_obs (mk_gworld (ls ++ ext) conts) k = gcont_obs (mk_gworld ls conts) k).
  { intros ext j k Hk. unfold gcont_obs. cbn. f_equal. apply map_glist_app.
    intros id Hid. apply (Hwf k id); auto. eapply nth_error_In; eauto. }
  destruct s as [st ms|st c r|c m|]; cbn in Hm.
  - injection Hm as <-. split; [apply ginv_add_fresh; auto|]. split; [eexists; reflexivity|].
    intros j k Hk _. unfold gcont_obs in *. cbn in *. exact (Hstable ms j k Hk).
  - destruct (nth_error conts c) as [src|] eqn:Hc; [|discriminate]. destruct r.
    + injection Hm as <-. split.
      * pose proof (ginv_add_fresh ls conts (map (glist ls) (g_lists src)) st HI) as H. rewrite map_length in H. exact H.
      * split; [eexists; reflexivity|]. intros j k Hk _. exact (Hstable _ j k Hk).
    + injection Hm as <-. cbn in Hok. rewrite Hc in Hok. apply andb_true_iff in Hok as [-> Hsrc].
      split; [split|].
      * intros k id Hk Hid. cbn in *. rewrite app_length. apply in_app_or in Hk as [Hk|[<-|[]]].
        -- pose proof (Hwf k id Hk Hid) as H0. cbn in H0. lia.
        -- cbn in Hid. apply nth_error_In in Hc. pose proof (Hwf src id Hc Hid) as H0. cbn in H0. lia.
      * intros i j ci cj Hi Hj Hs Hne. cbn in *.
        apply nth_error_snoc in Hi as [[Li Hi]|[Ei ->]]; [|cbn in Hs; discriminate].
        apply nth_error_snoc in Hj as [[Lj Hj]|[Ej ->]].
        -- exact (Hp i j ci cj Hi Hj Hs Hne).
        -- cbn. assert (i <> c) by (intros ->; rewrite Hc in Hi; injection Hi as <-; congruence).
           exact (Hp i c ci src Hi Hc Hs H).
      * split; [eexists; reflexivity|]. intros j k Hk _. exact (Hstable _ j k Hk).
  - destruct (nth_error conts c) as [cont|] eqn:Hc; [|discriminate].
    destruct (g_static cont) eqn:Hst; [discriminate|]. injection Hm as <-.
    split; [split|].
    + intros k id Hk Hid. cbn in *. rewrite length_grow. exact (Hwf k id Hk Hid).
    + exact Hp.
    + split; [exists []; cbn; rewrite app_nil_r; reflexivity|].
      intros j k Hk Hks. unfold gcont_obs. cbn. f_equal. apply grow_other.
      intros id Hid. split; [apply (Hwf k id); auto; eapply nth_error_In; eauto|].
      intros Hin. assert (c <> j) by (intros ->; rewrite Hc in Hk; injection Hk as <-; congruence).
      exact (Hp c j cont k Hc Hk Hst H id Hin Hid).
  - discriminate.
Qed.

Definition gextends (w w' : gworld) : Prop :=
  (exists extra, gw_conts w' = gw_conts w ++ extra) /\
  (forall j k, nth_error (gw_conts w) j = Some k -> g_static k = true -> gcont_obs w' k = gcont_obs w k).

Lemma grun_cons f w s t : grun f w (s :: t) = grun f (gnext f w s) t.
Proof. reflexivity. Qed.

Lemma grun_inv hist : forall w, GInv w -> gguarded w hist = true ->
  GInv (grun gM_step w hist) /\ gextends w (grun gM_step w hist).
Proof.
  induction hist as [|s t IH]; intros w HI Hg.
  - cbn. split; auto. split; [exists []; rewrite app_nil_r; auto|auto].
  - cbn [gguarded] in Hg. apply andb_true_iff in Hg as [Hs Ht]. rewrite grun_cons.
    unfold gnext in *.
    destruct (gM_step w s) as [w1|e] eqn:Hm.
    + destruct (gstep_inv w s w1 HI Hs Hm) as (HI1 & [e1 E1] & U1).
      destruct (IH w1 HI1 Ht) as (HI2 & [e2 E2] & U2). split; auto. split.
      * exists (e1 ++ e2). rewrite E2, E1, app_assoc. reflexivity.
      * intros j k Hk Hks.
        assert (Hk1 : nth_error (gw_conts w1) j = Some k).
        { rewrite E1, nth_error_app1; auto. apply nth_error_Some. congruence. }
        rewrite (U2 j k Hk1 Hks). apply (U1 j k Hk Hks).
    + apply IH; auto.
Qed.

Lemma gguarded_app h1 : forall w h2, gguarded w (h1 ++ h2) = true ->
  gguarded w h1 = true /\ gguarded (grun gM_step w h1) h2 = true.
Proof.
  induction h1 as [|s t IH]; intros w h2 H; cbn in *; auto.
  apply andb_true_iff in H as [Hs Ht]. apply IH in Ht as [A B]. rewrite Hs, A. auto.
Qed.

(* ===== growing any source never changes a static container ===== *)
Theorem static_never_changes : forall h1 h2 c k,
  gguarded gw0 (h1 ++ h2) = true ->
  nth_error (gw_conts (grun gM_step gw0 h1)) c = Some k -> g_static k = true ->
  gobs_at (grun gM_step gw0 (h1 ++ h2)) c = gobs_at (grun gM_step gw0 h1) c.
Proof.
  intros h1 h2 c k Hg Hc Hs. apply gguarded_app in Hg as [G1 G2].
  unfold grun in *. rewrite fold_left_app. fold (grun gM_step gw0 h1) in *.
  destruct (grun_inv h1 gw0 ginv_w0 G1) as [HI _].
  destruct (grun_inv h2 _ HI G2) as [_ [[extra E] U]].
  unfold gobs_at. fold (grun gM_step (grun gM_step gw0 h1) h2). rewrite E.
  rewrite nth_error_app1 by (apply nth_error_Some; congruence). rewrite Hc. f_equal. apply U with (j := c); auto.
Qed.

(* ===== refinement: keeping member lists between static containers is indistinguishable from copying ===== *)
Definition gcrel (lm lsp : list (list Z)) (cm cs : gcont) : Prop :=
  g_static cm = g_static cs /\ map (glist lm) (g_lists cm) = map (glist lsp) (g_lists cs).
Definition GR (wm ws : gworld) : Prop :=
  GInv wm /\ GInv ws /\ Forall2 (gcrel (gw_lists wm) (gw_lists ws)) (gw_conts wm) (gw_conts ws).

Lemma Forall2_impl_idx {A B} (P Q : A -> B -> Prop) l1 l2 :
  Forall2 P l1 l2 ->
  (forall i a b, nth_error l1 i = Some a -> nth_error l2 i = Some b -> P a b -> Q a b) -> Forall2 Q l1 l2.
Proof.
  intros F; induction F as [|a b t1 t2 Hab Ft IH]; intros H; constructor.
  - apply (H 0 a b); auto.
  - apply IH. intros i x y Hx Hy. apply (H (S i) x y); auto.
Qed.

Lemma Forall2_nth_error_g {A B} (P : A -> B -> Prop) l1 l2 k :
  Forall2 P l1 l2 ->
  match nth_error l1 k, nth_error l2 k with
  | Some a, Some b => P a b
  | None, None => True
  | _, _ => False
  end.
Proof. intros H; revert k; induction H; intros [|k]; cbn; auto. apply IHForall2. Qed.

Lemma force_copy_ok w s : gstep_ok w (force_copy s) = true.
Proof. destruct s as [| ? ? []| |]; reflexivity. Qed.

Lemma gsim_step wm ws s :
  GR wm ws -> gstep_ok wm s = true ->
  match gM_step wm s, gS_step ws s with
  | Ok wm', Ok ws' => GR wm' ws'
  | Err _, Err _ => True
  | _, _ => False
  end.
Proof.
  intros (Im & Is & F) Hok. unfold gS_step.
  pose proof (gstep_inv wm s) as Sm. pose proof (gstep_inv ws (force_copy s)) as Ss.
  destruct wm as [lm km], ws as [lsp ks]. cbn [gw_lists gw_conts] in *.
  pose proof Im as [Wm Pm]. pose proof Is as [Ws Ps].
  assert (Hlift : forall em es, Forall2 (gcrel (lm ++ em) (lsp ++ es)) km ks).
  { intros em es. eapply Forall2_impl_idx; [exact F|]. intros i a b Ha Hb [E1 E2]. split; auto.
    rewrite !map_glist_app; auto.
    - intros id Hid. apply (Ws b id); auto. eapply nth_error_In; eauto.
    - intros id Hid. apply (Wm a id); auto. eapply nth_error_In; eauto. }
  destruct s as [st ms|st c r|c m|].
  - (* GNew *)
    cbn [force_copy] in *. cbn [gM_step] in *.
    destruct (Sm _ Im Hok eq_refl) as [Im' _]. destruct (Ss _ Is eq_refl eq_refl) as [Is' _].
    split; [exact Im'|]. split; [exact Is'|]. cbn [gw_lists gw_conts].
    apply Forall2_app; [apply Hlift|]. constructor; [|constructor]. split; [reflexivity|]. cbn [g_lists].
    rewrite !map_glist_fresh. reflexivity.
  - (* GFrom *)
    cbn [force_copy].
    pose proof (Forall2_nth_error_g _ _ _ c F) as Hc.
    destruct (nth_error km c) as [sm|] eqn:Hcm, (nth_error ks c) as [ss|] eqn:Hcs; try contradiction.
    2:{ assert (E1 : gM_step (mk_gworld lm km) (GFrom st c r) = Err "IndexError") by (cbn; rewrite Hcm; reflexivity).
        assert (E2 : gM_step (mk_gworld lsp ks) (GFrom st c GCopy) = Err "IndexError") by (cbn; rewrite Hcs; reflexivity).
        rewrite E1, E2. exact I. }
    destruct Hc as [Est Econt].
    assert (Es0 : gM_step (mk_gworld lsp ks) (GFrom st c GCopy) =
                  Ok (mk_gworld (lsp ++ map (glist lsp) (g_lists ss)) (ks ++ [mk_gcont st (seq (length lsp) (length (g_lists ss)))]))).
    { cbn. rewrite Hcs. reflexivity. }
    destruct (Ss _ Is eq_refl Es0) as [Is' _].
    destruct r.
    + assert (Em0 : gM_step (mk_gworld lm km) (GFrom st c GCopy) = Ok (mk_gworld (lm ++ map (glist lm) (g_lists sm)) (km ++ [mk_gcont st (seq (length lm) (length (g_lists sm)))]))).
      { cbn. rewrite Hcm. reflexivity. }
      destruct (Sm _ Im Hok Em0) as [Im' _]. rewrite Em0, Es0.
      split; [exact Im'|]. split; [exact Is'|]. cbn [gw_lists gw_conts].
      apply Forall2_app; [apply Hlift|]. constructor; [|constructor]. split; [reflexivity|]. cbn [g_lists].
      rewrite <- (map_length (glist lm) (g_lists sm)), <- (map_length (glist lsp) (g_lists ss)).
      rewrite !map_glist_fresh. exact Econt.
    + assert (Em0 : gM_step (mk_gworld lm km) (GFrom st c GShare) = Ok (mk_gworld (lm ++ map (fun _ => []) (g_lists sm)) (km ++ [mk_gcont st (g_lists sm)]))).
      { cbn. rewrite Hcm. reflexivity. }
      destruct (Sm _ Im Hok Em0) as [Im' _]. rewrite Em0, Es0.
      split; [exact Im'|]. split; [exact Is'|]. cbn [gw_lists gw_conts].
      apply Forall2_app; [apply Hlift|]. constructor; [|constructor]. split; [reflexivity|]. cbn [g_lists].
      rewrite <- (map_length (glist lsp) (g_lists ss)). rewrite map_glist_fresh.
      rewrite map_glist_app; [exact Econt|].
      intros id Hid. apply (Wm sm id); auto. eapply nth_error_In; eauto.
  - (* GGrow *)
    cbn [force_copy].
    pose proof (Forall2_nth_error_g _ _ _ c F) as Hc.
    destruct (nth_error km c) as [cm|] eqn:Hcm, (nth_error ks c) as [cs|] eqn:Hcs; try contradiction.
    2:{ assert (E1 : gM_step (mk_gworld lm km) (GGrow c m) = Err "IndexError") by (cbn; rewrite Hcm; reflexivity).
        assert (E2 : gM_step (mk_gworld lsp ks) (GGrow c m) = Err "IndexError") by (cbn; rewrite Hcs; reflexivity).
        rewrite E1, E2. exact I. }
    destruct Hc as [Est Econt].
    destruct (g_static cm) eqn:Hst.
    { assert (E1 : gM_step (mk_gworld lm km) (GGrow c m) = Err "TypeError") by (cbn; rewrite Hcm, Hst; reflexivity).
      assert (E2 : gM_step (mk_gworld lsp ks) (GGrow c m) = Err "TypeError") by (cbn; rewrite Hcs, <- Est; reflexivity).
      rewrite E1, E2. exact I. }
    assert (Em0 : gM_step (mk_gworld lm km) (GGrow c m) = Ok (mk_gworld (grow_lists (g_lists cm) m 0 lm) km)).
    { cbn. rewrite Hcm, Hst. reflexivity. }
    assert (Es0 : gM_step (mk_gworld lsp ks) (GGrow c m) = Ok (mk_gworld (grow_lists (g_lists cs) m 0 lsp) ks)).
    { cbn. rewrite Hcs, <- Est. reflexivity. }
    destruct (Sm _ Im Hok Em0) as [Im' _]. destruct (Ss _ Is eq_refl Es0) as [Is' _]. rewrite Em0, Es0.
    split; [exact Im'|]. split; [exact Is'|]. cbn [gw_lists gw_conts].
    eapply Forall2_impl_idx; [exact F|]. intros j a b Ha Hb [E1 E2]. split; auto.
    destruct (Nat.eq_dec j c) as [->|Hne].
    + rewrite Hcm in Ha. rewrite Hcs in Hb. injection Ha as <-. injection Hb as <-.
      rewrite !grow_own; auto.
      * rewrite Econt. reflexivity.
      * intros id Hid. apply (Ws cs id); auto. eapply nth_error_In; eauto.
      * intros id Hid. apply (Wm cm id); auto. eapply nth_error_In; eauto.
    + rewrite !grow_other; auto.
      * intros id Hid. split; [apply (Ws b id); auto; eapply nth_error_In; eauto|].
        intros Hin. assert (Hs' : g_static cs = false) by congruence.
        exact (Ps c j cs b Hcs Hb Hs' (fun e => Hne (eq_sym e)) id Hin Hid).
      * intros id Hid. split; [apply (Wm a id); auto; eapply nth_error_In; eauto|].
        intros Hin. exact (Pm c j cm a Hcm Ha Hst (fun e => Hne (eq_sym e)) id Hin Hid).
  - cbn. auto.
Qed.

Lemma GR_obs wm ws : GR wm ws -> gobs wm = gobs ws.
Proof.
  intros (_ & _ & F). unfold gobs. induction F as [|a b ta tb [E1 E2] Ft IH]; cbn; auto.
  f_equal; auto. unfold gcont_obs. rewrite E1, E2. reflexivity.
Qed.

Lemma gsim_trace hist : forall wm ws, GR wm ws -> gguarded wm hist = true ->
  gtrace gM_step wm hist = gtrace gS_step ws hist.
Proof.
  induction hist as [|s t IH]; intros wm ws HR Hg; cbn in *; auto.
  apply andb_true_iff in Hg as [Hs Ht]. pose proof (gsim_step wm ws s HR Hs) as H. unfold gnext in *.
  destruct (gM_step wm s) as [wm'|e1], (gS_step ws s) as [ws'|e2]; try contradiction.
  - rewrite (GR_obs _ _ H), (IH wm' ws' H Ht). reflexivity.
  - rewrite (GR_obs _ _ HR), (IH wm ws HR Ht). reflexivity.
Qed.

Theorem grow_refinement : forall hist, gguarded gw0 hist = true ->
  gtrace gM_step gw0 hist = gtrace gS_step gw0 hist.
Proof.
  intros hist Hg. apply gsim_trace; auto. split; [apply ginv_w0|]. split; [apply ginv_w0|]. constructor.
Qed.

(* the hypothesis is necessary: a static container that keeps the member lists of a grow-only source changes when the source grows *)
Example share_with_growable_refuted : exists h1 h2 c,
  gguarded gw0 (h1 ++ h2) = false /\
  gobs_at (grun gM_step gw0 (h1 ++ h2)) c <> gobs_at (grun gM_step gw0 h1) c.
Proof.
  exists [GNew false [[1; 2]%Z; [1; 2]%Z]; GFrom true 0 GShare], [GGrow 0 7%Z], 1.
  split; [reflexivity|]. vm_compute. discriminate.
Qed.
