(* C08 -- REFINEMENT: TypeBlocks._mask_blocks yields, for EVERY block layout, Boolean columns that are `on`
   exactly at the addressed column positions and `off` elsewhere. *)
Require Import SF.Prelude SF.PySlice SF.Dtype SF.Blocks SF.UpdateSpec SF.BlocksUpdate.
Require Import Proofs.SliceFacts Proofs.BlocksSelect Proofs.UpdateLists Proofs.BlocksWalk Proofs.BlocksSegments.
Require Import Proofs.BlocksUpdateKey Proofs.BlocksDrop.

Fixpoint zfrom (i : Z) (n : nat) : list Z :=
  match n with O => [] | S n' => i :: zfrom (i + 1) n' end.

Lemma zfrom_length i n : length (zfrom i n) = n.
Proof. revert i. induction n as [|n IH]; intros i; cbn; [reflexivity|]. now rewrite IH. Qed.

Lemma zfrom_In i n x : In x (zfrom i n) <-> i <= x < i + Z.of_nat n.
Proof.
  revert i. induction n as [|n IH]; intros i; cbn [zfrom In]; [lia|]. rewrite IH. lia.
Qed.

Lemma map_const_zfrom {B C} (c : C) (l : list B) : forall i, map (fun _ => c) l = map (fun _ : Z => c) (zfrom i (length l)).
Proof. induction l as [|x l IH]; intros i; cbn; [reflexivity|]. f_equal. apply IH. Qed.

Lemma set_flags_spec qs js n : forall i,
  set_flags (map (fun j => memz j qs) (zfrom i n)) i js = map (fun j => memz j (qs ++ js)) (zfrom i n).
Proof.
  induction n as [|n IH]; intros i; cbn [zfrom map set_flags]; [reflexivity|].
  rewrite IH. f_equal. rewrite memz_app. reflexivity.
Qed.

Section Mask.
Context {A : Type}.
Notation block := (block A).
Notation tb := (tb A).
Notation column := (dtype * list A)%type.
Variables on off : list A.

Definition maskF (qs : list Z) (j : Z) (x : column) : list column := [if memz j qs then (DBool, on) else x].

Definition off_block (b : block) : block := mk_block DBool (b_1d b) (map (fun _ => off) (b_cols b)).

Lemma mask_inner_correct (b : block) (k : Z) rest : wf_block b -> other_block k rest ->
  forall rs lo qs, runs_wf lo rs (width b) -> 0 <= lo ->
  mask_inner b k (targets k rs ++ rest) (map (fun j => memz j qs) (zfrom 0 (length (b_cols b)))) =
  Ok (rest, map (fun j => memz j (qs ++ runs_elems rs)) (zfrom 0 (length (b_cols b)))).
Proof.
  intros [Hw H1d] Hrest. induction rs as [|[a m] rs IH]; intros lo qs Hwf Hlo.
  - cbn [targets map app runs_elems flat_map]. rewrite app_nil_r.
    destruct rest as [|[tbi sl] rest']; [reflexivity|].
    cbn in Hrest. cbn [mask_inner]. replace (k =? tbi) with false by lia. reflexivity.
  - cbn in Hwf. destruct Hwf as (Ha & Hm & Hend & Hwf).
    unfold targets. cbn [map app].
    change (target_of (run_bundle k (a, m))) with (k, cols_to_slice_t (range_list a 1 m)). cbn [mask_inner].
    rewrite Z.eqb_refl. cbn [negb]. fold (targets k rs).
    replace (qs ++ runs_elems ((a, m) :: rs)) with ((qs ++ run_elems (a, m)) ++ runs_elems rs)
      by (unfold runs_elems; cbn [flat_map]; now rewrite app_assoc).
    destruct (b_1d b) eqn:E1d.
    + specialize (H1d eq_refl). unfold width in *. rewrite H1d in *.
      assert (a = 0) by lia. assert (m = 1%nat) by lia. subst.
      replace (map (fun _ : bool => true) (map (fun j : Z => memz j qs) (zfrom 0 1)))
        with (map (fun j => memz j (qs ++ run_elems (0, 1%nat))) (zfrom 0 1)).
      * apply (IH (0 + Z.of_nat 1 + 1)); [assumption|lia].
      * cbn. rewrite memz_app. cbn. rewrite orb_true_r. reflexivity.
    + unfold run_elems. cbn [fst snd].
      rewrite (cols_to_slice_run a 1 m (width b)); [|left; reflexivity|assumption|].
      * rewrite set_flags_spec. apply (IH (a + Z.of_nat m + 1)); [assumption|lia].
      * intros x Hx. apply (run_elems_In a m x) in Hx. lia.
Qed.

(* the columns of a mask block *)
Lemma mask_block_columns (b : block) qs :
  block_columns (mk_block DBool (b_1d b)
     (map (fun f : bool => if f then on else off) (map (fun j => memz j qs) (zfrom 0 (length (b_cols b)))))) =
  upd_from (maskF qs) 0 (block_columns (off_block b)).
Proof.
  unfold block_columns, off_block. cbn [b_dtype b_cols]. rewrite !map_map.
  generalize 0 as i. induction (b_cols b) as [|c cs IH]; intros i; cbn [length zfrom map upd_from]; [reflexivity|].
  unfold maskF at 1. cbn [app]. f_equal; [destruct (memz i qs); reflexivity|]. apply IH.
Qed.

Lemma mask_walk_correct (t : tb) : wf_tb t -> forall k rss,
  Forall2 (fun b rs => runs_wf 0 rs (width b)) t rss ->
  exists bs, mask_walk k t (map target_of (bundles_of k rss)) on off = Ok bs /\ length bs = length t /\
             flat_map block_columns bs = by_runs maskF (map off_block t) rss.
Proof.
  induction 1 as [|b r Hb _ IH]; intros k rss Hrss.
  - exists []. repeat split; reflexivity.
  - inversion Hrss as [|? rs ? rss' Hrs Hrest]; subst.
    destruct (IH (k + 1) rss' Hrest) as (bs & Ebs & Elen & Efl).
    pose proof (mask_inner_correct b k (map target_of (bundles_of (k + 1) rss')) Hb
                  (other_block_bundles k rss') rs 0 [] Hrs ltac:(lia)) as Ein.
    eexists. split; [|split].
    + rewrite targets_bundles. cbn [mask_walk].
      rewrite (map_const_zfrom false (b_cols b) 0).
      replace (map (fun _ : Z => false) (zfrom 0 (length (b_cols b))))
        with (map (fun j => memz j []) (zfrom 0 (length (b_cols b)))) by reflexivity.
      rewrite Ein, Ebs. reflexivity.
    + cbn [length]. rewrite Elen. reflexivity.
    + cbn [flat_map map by_runs app]. rewrite mask_block_columns, Efl. reflexivity.
Qed.

Lemma block_runs_off (t : tb) : forall ps, block_runs (map off_block t) ps = block_runs t ps.
Proof.
  induction t as [|b r IH]; intros ps; [reflexivity|]. cbn [map block_runs].
  assert (E : width (off_block b) = width b) by (unfold width, off_block; cbn; now rewrite map_length).
  rewrite E, IH. reflexivity.
Qed.

Lemma flatten_off (t : tb) : flatten (map off_block t) = map (fun _ => (DBool, off)) (flatten t).
Proof.
  induction t as [|b r IH]; [reflexivity|]. cbn [map flatten flat_map]. fold (flatten r). fold (flatten (map off_block r)).
  rewrite map_app, IH. f_equal. unfold block_columns, off_block. cbn [b_dtype b_cols]. rewrite !map_map. reflexivity.
Qed.

Theorem mask_blocks_refines (t : tb) (k : ckey) : wf_tb t -> t <> [] ->
  walk_dom k (Z.of_nat (length (flatten t))) = true ->
  res_map flatten (M_mask_blocks t k on off) = S_mask_columns (flatten t) k on off.
Proof.
  intros Hwf Hne Hdom. unfold M_mask_blocks, S_mask_columns, block_slices_for, Gen.Gen_c08.retain_key_order_mask_blocks.
  destruct (key_positions k (Z.of_nat (length (flatten t)))) as [ps|e] eqn:Ek.
  - destruct (block_slices_asc_runs t k ps Hwf Hdom Ek) as (ps' & Hinc & Hsame & Hrange & Ets).
    rewrite Ets.
    destruct (mask_walk_correct t Hwf 0 (block_runs t ps') (block_runs_wf t ps' Hinc Hrange)) as (bs & Ebs & Elen & Efl).
    rewrite Ebs. unfold from_blocks_strict.
    destruct bs as [|b0 bs0]; [destruct t; [congruence|discriminate]|]. cbn [is_nil res_map].
    rewrite from_blocks_flatten, Efl. f_equal.
    rewrite (S_set_at_ext _ _ ps ps') by (intros i; symmetry; apply Hsame).
    unfold S_set_at. rewrite <- flatten_off.
    rewrite (upd_flatten_split (fun m x => [if m then (DBool, on) else x]) (map off_block t) ps').
    rewrite block_runs_off. reflexivity.
  - (* invalid key: both sides raise the same class *)
    rewrite (block_slices_asc_err t k e Hdom Ek). reflexivity.
Qed.

End Mask.
