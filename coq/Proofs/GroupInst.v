(* C13 -- the order hypotheses of the path theorems are satisfiable: integer keys; and the
   regenerated code constants agree with the model. *)
Require Import SF.Prelude SF.Group SF.GroupCode Gen.Gen_c13 Proofs.GroupFacts Proofs.GroupPaths.

Lemma Zleb_total a b : (a <=? b) = true \/ (b <=? a) = true.
Proof. lia. Qed.
Lemma Zleb_trans a b c : (a <=? b) = true -> (b <=? c) = true -> (a <=? c) = true.
Proof. lia. Qed.
Lemma Zleb_antisym a b : (a <=? b) = true -> (b <=? a) = true -> a = b.
Proof. lia. Qed.

Theorem paths_agree_int {R} (key : R -> Z) rows :
  M_A key Z.eqb Z.leb rows = M_B key Z.eqb Z.leb rows /\
  Permutation (M_A key Z.eqb Z.leb rows) (S_group key Z.eqb rows).
Proof.
  split.
  - apply (paths_agree key Z.eqb Z.leb Z.eqb_eq Zleb_total Zleb_trans Zleb_antisym).
  - apply (pathA_perm_S key Z.eqb Z.leb Z.eqb_eq Zleb_total Zleb_trans Zleb_antisym).
Qed.

Theorem window_forwarding : window_forwarding_ok = true.
Proof. reflexivity. Qed.

Theorem group_unique_axis : forall axis two_d many_rows many_cols, axis = 0 \/ axis = 1 ->
  tb_group_unique_axis axis two_d many_rows many_cols = model_unique_axis axis two_d.
Proof. intros axis [] [] [] [-> | ->]; reflexivity. Qed.

Theorem code_shape :
  code_shape_ok = true /\
  forall c i m o, gen_sort_path c i m o = path_is_sort (choose_path c i m o).
Proof. split; [reflexivity | intros [] [] [] []; reflexivity]. Qed.
