(* C17 -- facts about the specification S (abstract LRU cache over the eager map). *)
Require Import SF.Prelude SF.PySlice SF.BusSpec.

Lemma filter_len_le {A} (p : A -> bool) (l : list A) : (length (filter p l) <= length l)%nat.
Proof. induction l as [|x r IH]; cbn; [lia|]. destruct (p x); cbn; lia. Qed.

Lemma NoDup_app_in {A} (a b : list A) :
  NoDup a -> NoDup b -> (forall x, In x a -> In x b -> False) -> NoDup (a ++ b).
Proof.
  induction a as [|x r IH]; cbn; intros Na Nb D; [exact Nb|].
  inversion Na; subst. constructor.
  - rewrite in_app_iff. intros [I|I]; [contradiction | apply (D x); auto].
  - apply IH; auto. intros y Iy. apply D. auto.
Qed.

Section Facts.
Variable L : Type.
Variable leqb : L -> L -> bool.
Hypothesis leqb_spec : forall x y, leqb x y = true <-> x = y.

Notation mem := (mem L leqb).
Notation la_remove := (la_remove L leqb).
Notation la_touch := (la_touch L leqb).
Notation s_touch := (s_touch L leqb).
Notation s_trim := (s_trim L).
Notation s_access_all := (s_access_all L leqb).
Notation sbus := (sbus L).

Lemma leqb_refl x : leqb x x = true.
Proof. apply leqb_spec; reflexivity. Qed.

Lemma leqb_false x y : leqb x y = false <-> x <> y.
Proof.
  split; intro H.
  - intro E. apply leqb_spec in E. congruence.
  - destruct (leqb x y) eqn:E; [apply leqb_spec in E; contradiction | reflexivity].
Qed.

Lemma mem_In l c : mem l c = true <-> In l c.
Proof.
  induction c as [|x r IH]; cbn; [split; [discriminate | tauto]|].
  rewrite orb_true_iff, IH, leqb_spec. tauto.
Qed.

Lemma mem_false l c : mem l c = false <-> ~ In l c.
Proof.
  split; intro H.
  - intro I. apply mem_In in I. congruence.
  - destruct (mem l c) eqn:E; [apply mem_In in E; contradiction | reflexivity].
Qed.

Lemma la_remove_In l x c : In x (la_remove l c) <-> In x c /\ x <> l.
Proof.
  unfold BusSpec.la_remove. rewrite filter_In, negb_true_iff, leqb_false. tauto.
Qed.

Lemma la_remove_NoDup l c : NoDup c -> NoDup (la_remove l c).
Proof. apply NoDup_filter. Qed.

Lemma la_remove_length l c : (length (la_remove l c) <= length c)%nat.
Proof. apply filter_len_le. Qed.

Lemma la_remove_notin l c : ~ In l c -> la_remove l c = c.
Proof.
  unfold BusSpec.la_remove.
  induction c as [|x r IH]; cbn; intro H; [reflexivity|].
  destruct (leqb x l) eqn:E; cbn.
  - apply leqb_spec in E. subst. tauto.
  - rewrite IH; tauto.
Qed.

Lemma la_touch_NoDup l c : NoDup c -> NoDup (la_touch l c).
Proof.
  intro H. unfold BusSpec.la_touch.
  apply NoDup_app_in; [apply la_remove_NoDup, H | repeat constructor; cbn; tauto |].
  intros x I [E|[]]. subst. apply la_remove_In in I. tauto.
Qed.

Lemma la_touch_length l c : (length (la_touch l c) <= S (length c))%nat.
Proof.
  unfold BusSpec.la_touch. rewrite app_length; cbn. pose proof (la_remove_length l c). lia.
Qed.

Lemma NoDup_tl {A} (c : list A) : NoDup c -> NoDup (tl c).
Proof. destruct c; cbn; [auto | inversion 1; auto]. Qed.

Definition cache_ok (mp : option Z) (c : list L) : Prop :=
  NoDup c /\ match mp with Some k => 1 <= k /\ Z.of_nat (length c) <= k | None => True end.

Lemma s_touch_ok mp l c : cache_ok mp c -> cache_ok mp (s_touch mp l c).
Proof.
  intros [N B]. unfold BusSpec.s_touch, BusSpec.s_trim.
  pose proof (la_touch_NoDup l c N) as N'. pose proof (la_touch_length l c) as Len.
  destruct mp as [k|]; [|split; auto].
  destruct B as [K B].
  destruct (Z.of_nat (length (la_touch l c)) >? k) eqn:G.
  - split; [apply NoDup_tl, N'|]. split; [lia|].
    destruct (la_touch l c); cbn in *; lia.
  - split; [apply N'|]. split; lia.
Qed.

Lemma s_access_all_ok coh mp ls : forall c,
  cache_ok mp c -> cache_ok mp (snd (s_access_all coh mp c ls)).
Proof.
  induction ls as [|l r IH]; intros c H; cbn; [exact H|].
  destruct (mem l c || coh); [apply IH, s_touch_ok, H | exact H].
Qed.

Lemma filter_cache_ok mp (p : L -> bool) c : NoDup c ->
  (forall k, mp = Some k -> 1 <= k /\ Z.of_nat (length c) <= k) ->
  cache_ok mp (filter p c).
Proof.
  intros N B. split; [apply NoDup_filter, N|].
  destruct mp as [k|]; [|exact I].
  destruct (B k eq_refl) as [K Bk]. split; [exact K|].
  pose proof (filter_len_le p c). lia.
Qed.

End Facts.
