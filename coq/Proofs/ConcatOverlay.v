(* C11 -- overlay: TypeBlocks.fillna_by_values through the blocks (pass a block without missing
   cells through, otherwise split it into columns) is the per-column function S_fillna_col for every
   block layout; per cell that function is the step "keep the value unless it is missing", and the
   left fold of that step over the inputs is the first non-missing value in input order. *)
Require Import SF.Prelude SF.Dtype SF.Blocks SF.Concat.
Require Import Proofs.ConcatVstack Proofs.ConcatReindex.

Lemma combine_app_split {X Y} (l1 l2 : list X) (vs : list Y) :
  combine (l1 ++ l2) vs = combine l1 (firstn (length l1) vs) ++ combine l2 (skipn (length l1) vs).
Proof.
  revert vs. induction l1 as [|x l1 IH]; intro vs; [reflexivity|].
  destruct vs as [|v vs]; cbn.
  - destruct l2; reflexivity.
  - f_equal. apply IH.
Qed.

Lemma combine_map_l {X Y Z} (f : X -> Z) (l : list X) (vs : list Y) :
  combine (map f l) vs = map (fun xv => (f (fst xv), snd xv)) (combine l vs).
Proof.
  revert vs. induction l as [|x l IH]; intro vs; [reflexivity|]. destruct vs; [reflexivity|]. cbn. f_equal. apply IH.
Qed.

Lemma last_default_irrelevant {X} (l : list X) : forall a d1 d2, last (a :: l) d1 = last (a :: l) d2.
Proof. induction l as [|b l IH]; intros a d1 d2; [reflexivity|]. cbn [last]. apply (IH b). Qed.

Section Overlay.
Context {A : Type}.
Variable cast : dtype -> A -> A.
Variable resolve : dtype -> dtype -> dtype.
Variable isna : A -> bool.

Notation S_fillna_col := (S_fillna_col cast resolve isna).
Notation M_fillna_blocks := (M_fillna_blocks cast resolve isna).
Notation overlay_step := (overlay_step isna).

(* THE BLOCK WALK of _assign_from_boolean_blocks_by_blocks = the per-column function *)
Theorem fillna_blocks_refines (t : tb A) : forall (vals : list (@column A)),
  length vals = total_width t ->
  flatten (M_fillna_blocks t vals) = map (fun cv => S_fillna_col (fst cv) (snd cv)) (combine (flatten t) vals).
Proof.
  induction t as [|b r IH]; intros vals Hlen; [reflexivity|].
  unfold total_width in Hlen. rewrite flatten_cons, app_length, block_columns_length in Hlen.
  cbn [Concat.M_fillna_blocks]. rewrite flatten_app, flatten_cons, combine_app_split, map_app, block_columns_length.
  rewrite IH by (rewrite skipn_length; unfold total_width; lia).
  f_equal.
  assert (Hfl : length (firstn (bwidth b) vals) = bwidth b) by (apply firstn_length_le; lia).
  unfold block_columns. rewrite combine_map_l, map_map. cbn [fst snd].
  destruct (existsb (existsb isna) (b_cols b)) eqn:E.
  - rewrite <- (map_map (fun cv : list A * column => S_fillna_col (b_dtype b, fst cv) (snd cv)) (@col_block A)).
    apply flatten_col_blocks.
  - cbn [flatten flat_map]. rewrite app_nil_r. unfold block_columns.
    unfold bwidth in Hfl. unfold bwidth. revert Hfl E. generalize (firstn (length (b_cols b)) vals). generalize (b_cols b).
    intros cols. induction cols as [|c cols IHc]; intros vs Hl E; [reflexivity|].
    destruct vs as [|v vs]; [discriminate|]. cbn in E. apply orb_false_iff in E as [E1 E2].
    cbn [map combine fst snd]. f_equal; [|apply IHc; [cbn in Hl; lia|exact E2]].
    unfold Concat.S_fillna_col. cbn [snd]. rewrite E1. reflexivity.
Qed.

(* one cell of S_fillna_col: the overlay step, stored in the resolved dtype when the column is rebuilt *)
Theorem fillna_col_cell (c v : @column A) i x y :
  nth_error (snd c) i = Some x -> nth_error (snd v) i = Some y ->
  exists z, nth_error (snd (S_fillna_col c v)) i = Some z /\
            (z = overlay_step x y \/ z = cast (resolve (fst v) (fst c)) (overlay_step x y)).
Proof.
  intros Hx Hy. unfold Concat.S_fillna_col, Concat.overlay_step.
  destruct (existsb isna (snd c)) eqn:E1; cbn [negb].
  - destruct (forallb isna (snd c)) eqn:E2.
    + exists y. split; [exact Hy|]. left.
      rewrite forallb_forall in E2. rewrite (E2 x) by (eapply nth_error_In; exact Hx). reflexivity.
    + cbn [snd]. eexists. split.
      * rewrite nth_error_map.
        assert (Hc : nth_error (combine (snd c) (snd v)) i = Some (x, y)).
        { clear E1 E2. revert i Hx Hy. generalize (snd v). induction (snd c) as [|a l IHl]; intros l2 i Hx Hy; [destruct i; discriminate|].
          destruct l2 as [|b l2]; [destruct i; discriminate|]. destruct i as [|i]; cbn in *; [congruence|]. apply IHl; assumption. }
        rewrite Hc. cbn. reflexivity.
      * right. destruct (isna x); reflexivity.
  - exists x. split; [exact Hx|]. left.
    assert (Hn : isna x = false).
    { destruct (isna x) eqn:En; [|reflexivity]. exfalso.
      assert (existsb isna (snd c) = true) by (apply existsb_exists; exists x; split; [eapply nth_error_In; exact Hx|exact En]). congruence. }
    rewrite Hn. reflexivity.
Qed.

(* FIRST NON-MISSING IN INPUT ORDER *)
Lemma overlay_fold_present vs : forall x, isna x = false -> fold_left overlay_step vs x = x.
Proof.
  induction vs as [|v vs IH]; intros x Hx; [reflexivity|]. cbn. unfold Concat.overlay_step at 2. rewrite Hx. apply IH. exact Hx.
Qed.

Theorem overlay_first_nonmissing vs : forall x,
  fold_left overlay_step vs x =
  match find (fun v => negb (isna v)) (x :: vs) with
  | Some y => y
  | None => last (x :: vs) x
  end.
Proof.
  induction vs as [|v vs IH]; intro x.
  - cbn. destruct (isna x); reflexivity.
  - cbn [fold_left find]. destruct (isna x) eqn:Ex; cbn [negb].
    + unfold Concat.overlay_step at 2. rewrite Ex. rewrite IH. cbn [find].
      destruct (negb (isna v)); [reflexivity|].
      destruct (find (fun v0 => negb (isna v0)) vs); [reflexivity|].
      change (last (x :: v :: vs) x) with (last (v :: vs) x). apply last_default_irrelevant.
    + unfold Concat.overlay_step at 2. rewrite Ex. apply overlay_fold_present. exact Ex.
Qed.

End Overlay.
