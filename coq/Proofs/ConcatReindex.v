(* C11 -- Frame.reindex as from_concat uses it: TypeBlocks.resize_blocks through the blocks
   (the no-common block, the unified-subset slice, the per-column walk; the per-block row path)
   equals alignment BY LABEL of the flattened columns -- for every block layout. *)
Require Import SF.Prelude SF.Dtype SF.Blocks SF.Concat.
Require Import Proofs.ConcatVstack Proofs.ConcatAlign.

Lemma nth_error_ext' {X} (a b : list X) : (forall j, nth_error a j = nth_error b j) -> a = b.
Proof.
  revert b. induction a as [|x a IH]; intros [|y b] H; try reflexivity.
  - specialize (H O). discriminate.
  - specialize (H O). discriminate.
  - pose proof (H O) as H0. cbn in H0. injection H0 as ->. f_equal. apply IH. intro j. exact (H (S j)).
Qed.

Lemma map_const_repeat {X Y} (y : Y) (l : list X) (f : X -> Y) :
  (forall x, In x l -> f x = y) -> map f l = repeat y (length l).
Proof.
  induction l as [|x l IH]; intro H; [reflexivity|]. cbn. rewrite H by (left; reflexivity).
  f_equal. apply IH. intros z Hz. apply H. right. exact Hz.
Qed.

Lemma map_repeat' {X Y} (f : X -> Y) x n : map f (repeat x n) = repeat (f x) n.
Proof. induction n; cbn; [reflexivity|]. rewrite IHn. reflexivity. Qed.

Section Reindex.
Context {L A : Type}.
Variable leqb : L -> L -> bool.
Variable cast : dtype -> A -> A.
Variable resolve : dtype -> dtype -> dtype.
Hypothesis leqb_spec : forall a b, leqb a b = true <-> a = b.

Notation find_pos := (find_pos leqb).
Notation lmem := (lmem leqb).

(* a frame as the constructors build it: one label per column, labels unique, no 0-width block,
   a 1-D block is one column *)
Definition wf_frame (f : frame L A) : Prop :=
  length (f_columns f) = total_width (f_blocks f) /\ NoDup (f_columns f) /\
  Forall (fun b => (1 <= bwidth b)%nat /\ (b_1d b = true -> bwidth b = 1%nat)) (f_blocks f).

Lemma flatten_drop_empty (t : tb A) : flatten (drop_empty t) = flatten t.
Proof.
  induction t as [|b t IH]; [reflexivity|]. cbn [drop_empty filter].
  destruct (is_nil (b_cols b)) eqn:E; cbn [negb].
  - rewrite flatten_cons, <- IH. unfold block_columns. destruct (b_cols b); [reflexivity|discriminate].
  - rewrite !flatten_cons. f_equal. exact IH.
Qed.

Lemma drop_empty_wf (t : tb A) : wf_widths (drop_empty t).
Proof.
  unfold wf_widths. induction t as [|b t IH]; [constructor|]. cbn [drop_empty filter].
  destruct (is_nil (b_cols b)) eqn:E; cbn [negb]; [exact IH|]. constructor; [|exact IH].
  unfold bwidth. destruct (b_cols b); [discriminate|cbn; lia].
Qed.

(* looking the frame's own labels up gives back its own columns *)
Lemma lookup_own {X} (l : list L) (cs : list X) : NoDup l -> length l = length cs ->
  map (fun c => match find_pos c l with Some j => nth_error cs j | None => None end) l = map Some cs.
Proof.
  intros Hn Hlen. apply nth_error_ext'. intro j.
  rewrite !nth_error_map. destruct (nth_error l j) as [x|] eqn:E; cbn.
  - rewrite (find_pos_nth leqb leqb_spec l Hn j x E).
    destruct (nth_error cs j) eqn:E2; [reflexivity|].
    apply nth_error_None in E2. assert (j < length l)%nat by (apply nth_error_Some; congruence). lia.
  - apply nth_error_None in E. destruct (nth_error cs j) eqn:E2; [|reflexivity].
    assert (j < length cs)%nat by (apply nth_error_Some; congruence). lia.
Qed.

Lemma reindex_own filldt fill (f : frame L A) : wf_frame f ->
  S_reindex_columns leqb filldt fill f (f_columns f) = f_cols f.
Proof.
  intros (Hlen & Hn & _). unfold S_reindex_columns, S_aligned_col, lookup_col.
  pose proof (lookup_own (f_columns f) (f_cols f) Hn Hlen) as E.
  transitivity (map (fun o : option column => match o with Some col => col | None => fill_column filldt fill (f_rows f) end)
                    (map (fun c => match find_pos c (f_columns f) with Some j => nth_error (f_cols f) j | None => None end) (f_columns f))).
  - rewrite map_map. reflexivity.
  - rewrite E, map_map. apply map_id.
Qed.

Lemma common_nil_notin (src dst : list L) : ic_common leqb src dst = [] -> forall c, In c dst -> ~ In c src.
Proof.
  intros E c Hc Hs. assert (In c (ic_common leqb src dst)).
  { unfold ic_common. apply filter_In. split; [exact Hs|]. apply (lmem_In leqb leqb_spec). exact Hc. }
  rewrite E in H. destruct H.
Qed.

(* is_subset: with duplicate-free labels, every target label is a source label *)
Lemma subset_incl (src dst : list L) : NoDup src -> NoDup dst ->
  length (ic_common leqb src dst) = length dst -> incl dst src.
Proof.
  intros Hs Hd Hlen.
  assert (Hinc : incl (ic_common leqb src dst) dst).
  { intros x Hx. apply filter_In in Hx as [_ Hx]. apply (lmem_In leqb leqb_spec). exact Hx. }
  assert (Hnd : NoDup (ic_common leqb src dst)) by (apply NoDup_filter; exact Hs).
  assert (Hback : incl dst (ic_common leqb src dst)).
  { apply NoDup_length_incl; [exact Hnd|lia|exact Hinc]. }
  intros x Hx. apply Hback in Hx. apply filter_In in Hx. tauto.
Qed.

Lemma flatten_col_blocks (l : list (@column A)) : flatten (map (@col_block A) l) = l.
Proof.
  induction l as [|c l IH]; [reflexivity|]. cbn [map]. rewrite flatten_cons, IH.
  unfold block_columns, col_block. cbn. destruct c; reflexivity.
Qed.

(* THE COLUMN PATHS of resize_blocks *)
Theorem reindex_columns_refines filldt fill (f : frame L A) (cols : list L) :
  wf_frame f -> NoDup cols ->
  f_cols (M_reindex_columns leqb filldt fill f cols) = S_reindex_columns leqb filldt fill f cols /\
  wf_widths (f_blocks (M_reindex_columns leqb filldt fill f cols)).
Proof.
  intros Hwf Hnd. pose proof Hwf as (Hlen & Hn & Hb).
  unfold M_reindex_columns.
  destruct (labels_eqb leqb (f_columns f) cols) eqn:Eeq.
  - apply (labels_eqb_eq leqb leqb_spec) in Eeq. subst cols. split; [symmetry; apply reindex_own; exact Hwf|].
    unfold wf_widths. eapply Forall_impl; [|exact Hb]. cbn. tauto.
  - unfold f_cols. cbn [f_blocks]. rewrite flatten_drop_empty. split; [|apply drop_empty_wf].
    unfold ic_has_common, ic_is_subset, ic_has_common.
    destruct (is_nil (ic_common leqb (f_columns f) cols)) eqn:Ec; cbn [negb andb].
    + (* nothing in common: one block of fill values *)
      apply is_nil_true in Ec. rewrite flatten_cons. cbn [flatten flat_map]. rewrite app_nil_r.
      unfold block_columns. cbn [b_dtype b_cols].
      unfold S_reindex_columns. rewrite map_repeat'.
      rewrite (map_const_repeat (fill_column filldt fill (f_rows f)) cols (S_aligned_col leqb filldt fill f)).
      * reflexivity.
      * intros c Hc. unfold S_aligned_col, lookup_col.
        assert (E : find_pos c (f_columns f) = None).
        { apply (find_pos_None leqb leqb_spec). apply (common_nil_notin _ _ Ec). exact Hc. }
        rewrite E. reflexivity.
    + destruct ((length (f_blocks f) <=? 1)%nat && (length (ic_common leqb (f_columns f) cols) =? length cols)%nat) eqn:Eu.
      * (* unified and a subset: slice the single block *)
        apply andb_true_iff in Eu as [Eu1 Eu2]. apply Nat.leb_le in Eu1. apply Nat.eqb_eq in Eu2.
        pose proof (subset_incl _ _ Hn Hnd Eu2) as Hincl.
        destruct (f_blocks f) as [|b [|b2 r]] eqn:Ebl; [| |cbn in Eu1; lia].
        -- (* no block: then no column label, so nothing is common *)
           unfold total_width in Hlen. cbn in Hlen. destruct (f_columns f); [|discriminate]. discriminate.
        -- inversion Hb as [|? ? [Hw H1d] _]; subst.
           assert (Hcols : length (f_columns f) = bwidth b).
           { rewrite Hlen. unfold total_width. rewrite flatten_cons. cbn. rewrite app_nil_r. apply block_columns_length. }
           assert (Hfc : f_cols f = block_columns b).
           { unfold f_cols. rewrite Ebl, flatten_cons. cbn. apply app_nil_r. }
           assert (Hlook : forall c, In c cols -> exists j x, find_pos c (f_columns f) = Some j /\ nth_error (b_cols b) j = Some x).
           { intros c Hc. destruct (find_pos_In leqb leqb_spec c (f_columns f) (Hincl c Hc)) as [j Hj].
             exists j. pose proof (find_pos_lt leqb leqb_spec _ _ _ Hj) as Hlt.
             destruct (nth_error (b_cols b) j) as [x|] eqn:E; [exists x; tauto|].
             apply nth_error_None in E. unfold bwidth in Hcols. lia. }
           assert (Hspec : S_reindex_columns leqb filldt fill f cols =
                           map (pair (b_dtype b)) (flat_map (fun c => match find_pos c (f_columns f) with
                                                      | Some j => match nth_error (b_cols b) j with Some x => [x] | None => [] end
                                                      | None => [] end) cols)).
           { unfold S_reindex_columns. clear Hnd Eu2 Hincl Eeq Ec.
             induction cols as [|c cols IH]; [reflexivity|].
             cbn [map flat_map]. rewrite map_app, <- IH by (intros c' Hc'; apply Hlook; right; exact Hc').
             destruct (Hlook c (or_introl eq_refl)) as (j & x & Hj & Hx).
             unfold S_aligned_col, lookup_col. rewrite Hj, Hfc, Hx. unfold block_columns.
             rewrite nth_error_map, Hx. reflexivity. }
           destruct (b_1d b) eqn:E1d.
           ++ (* a 1-D block is the only column; a subset of it with something in common is that column *)
              rewrite flatten_cons. cbn [flatten flat_map]. rewrite app_nil_r. rewrite Hspec.
              specialize (H1d eq_refl). unfold bwidth in H1d.
              destruct (b_cols b) as [|col0 [|? ?]] eqn:Ecols; try discriminate.
              destruct (f_columns f) as [|c0 [|? ?]] eqn:Efc; try (unfold bwidth in Hcols; rewrite Ecols in Hcols; discriminate).
              unfold block_columns. rewrite Ecols. cbn [map].
              assert (Hall : forall c, In c cols -> c = c0).
              { intros c Hc. destruct (Hincl c Hc) as [H|[]]. congruence. }
              destruct cols as [|c [|c2 r2]].
              ** exfalso. cbn in Ec. discriminate.
              ** rewrite (Hall c (or_introl eq_refl)). cbn.
                 assert (Er : leqb c0 c0 = true) by (apply leqb_spec; reflexivity). rewrite Er. reflexivity.
              ** exfalso. pose proof (Hall c (or_introl eq_refl)). pose proof (Hall c2 (or_intror (or_introl eq_refl))).
                 subst. inversion Hnd as [|? ? Hx _]. apply Hx. left. reflexivity.
           ++ rewrite flatten_cons. cbn [flatten flat_map]. rewrite app_nil_r.
              unfold block_columns at 1. cbn [b_dtype b_cols]. symmetry. exact Hspec.
      * (* per column *)
        unfold S_reindex_columns.
        rewrite <- (map_map (S_aligned_col leqb filldt fill f) (@col_block A)). apply flatten_col_blocks.
Qed.

(* THE ROW PATH of resize_blocks: block by block = column by column *)
Theorem reindex_rows_refines filldt fill (f : frame L A) (idx : list L) :
  f_cols (M_reindex_rows leqb cast resolve filldt fill f idx) =
  map (S_reindex_rows_col leqb cast resolve filldt fill (f_index f) idx) (f_cols f).
Proof.
  unfold M_reindex_rows, S_reindex_rows_col.
  destruct (labels_eqb leqb (f_index f) idx).
  - symmetry. apply map_id.
  - unfold f_cols. cbn [f_blocks]. generalize (f_blocks f). intro t.
    induction t as [|b t IH]; [reflexivity|].
    cbn [map]. rewrite !flatten_cons, map_app, IH. f_equal.
    destruct (ic_is_subset leqb (f_index f) idx); unfold block_columns; cbn [b_dtype b_cols];
      rewrite !map_map; reflexivity.
Qed.

End Reindex.
