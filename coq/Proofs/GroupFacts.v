(* C13 -- facts about the grouping specification (only == on keys is needed here). *)
Require Import SF.Prelude SF.Group.

(* ---- small list helpers ---- *)
Lemma skipn_length_app {A} (pre x : list A) : skipn (length pre) (pre ++ x) = x.
Proof. induction pre; simpl; auto. Qed.

Lemma firstn_length_app {A} (g x : list A) : firstn (length g) (g ++ x) = g.
Proof. induction g; simpl; [destruct x; reflexivity | f_equal; auto]. Qed.

Lemma nth_length_app {A} (pre : list A) x t d : nth (length pre) (pre ++ x :: t) d = x.
Proof. induction pre; simpl; auto. Qed.

Lemma concat_map_nil {A B} (l : list A) : concat (map (fun _ => @nil B) l) = [].
Proof. induction l; simpl; auto. Qed.

Lemma In_last {A} (l : list A) d : l <> [] -> In (last l d) l.
Proof.
  induction l as [|a t IH]; [congruence|]. intros _. destruct t as [|b t'].
  - left; reflexivity.
  - right. change (last (a :: b :: t') d) with (last (b :: t') d). apply IH. discriminate.
Qed.

Lemma last_default {A} (l : list A) d d' : l <> [] -> last l d = last l d'.
Proof.
  induction l as [|a t IH]; [congruence|]. intros _. destruct t as [|b t']; [reflexivity|].
  change (last (b :: t') d = last (b :: t') d'). apply IH. discriminate.
Qed.

Lemma mask_select_map {A} (p : A -> bool) (l : list A) : mask_select (map p l) l = filter p l.
Proof. induction l as [|a t IH]; simpl; [reflexivity|]. rewrite IH. reflexivity. Qed.

Lemma map_snd_enumerate {A} (l : list A) : forall i, map snd (enumerate_from i l) = l.
Proof. induction l; intro i; simpl; [reflexivity | f_equal; auto]. Qed.

Lemma In_enumerate {A} (l : list A) : forall off i x,
  In (i, x) (enumerate_from off l) -> (off <= i)%nat /\ nth_error l (i - off) = Some x.
Proof.
  induction l as [|a t IH]; intros off i x H; simpl in H; [contradiction|].
  destruct H as [H|H].
  - injection H as <- <-. split; [lia|]. rewrite Nat.sub_diag. reflexivity.
  - apply IH in H as [H1 H2]. split; [lia|].
    replace (i - off)%nat with (S (i - S off))%nat by lia. exact H2.
Qed.

Section EqFacts.
  Context {R K : Type}.
  Variable key : R -> K.
  Variable keqb : K -> K -> bool.
  Hypothesis keqb_spec : forall a b, keqb a b = true <-> a = b.

  Lemma keqb_refl a : keqb a a = true.
  Proof. apply keqb_spec; reflexivity. Qed.

  Lemma keqb_false a b : keqb a b = false <-> a <> b.
  Proof.
    split; intro H.
    - intro E. apply keqb_spec in E. congruence.
    - destruct (keqb a b) eqn:E; [apply keqb_spec in E; contradiction | reflexivity].
  Qed.

  Lemma keqb_sym a b : keqb a b = keqb b a.
  Proof.
    destruct (keqb a b) eqn:E.
    - apply keqb_spec in E. subst. symmetry. apply keqb_refl.
    - symmetry. apply keqb_false. apply keqb_false in E. congruence.
  Qed.

  (* ---- distinct ---- *)
  Lemma In_distinct x l : In x (distinct keqb l) <-> In x l.
  Proof.
    induction l as [|a t IH]; simpl; [tauto|]. split.
    - intros [->|H]; [left; reflexivity|]. apply filter_In in H as [H _]. right. apply IH. exact H.
    - intros [->|H]; [left; reflexivity|].
      destruct (keqb x a) eqn:E.
      + left. symmetry. apply keqb_spec. exact E.
      + right. apply filter_In. split; [apply IH; exact H | rewrite E; reflexivity].
  Qed.

  Lemma NoDup_distinct l : NoDup (distinct keqb l).
  Proof.
    induction l as [|a t IH]; simpl; constructor.
    - intro H. apply filter_In in H as [_ H]. rewrite keqb_refl in H. discriminate.
    - apply NoDup_filter. exact IH.
  Qed.

  (* ---- members / groups_by ---- *)
  Lemma members_cons k r t :
    members key keqb k (r :: t) = if keqb (key r) k then r :: members key keqb k t else members key keqb k t.
  Proof. reflexivity. Qed.

  Lemma map_snd_groups_by ks rows :
    map snd (groups_by key keqb ks rows) = map (fun k => members key keqb k rows) ks.
  Proof. unfold groups_by. rewrite map_map. reflexivity. Qed.

  Lemma map_fst_groups_by ks rows : map fst (groups_by key keqb ks rows) = ks.
  Proof. unfold groups_by. rewrite map_map. simpl. apply map_id. Qed.

  Lemma members_map_notin r t ks : ~ In (key r) ks ->
    map (fun k => members key keqb k (r :: t)) ks = map (fun k => members key keqb k t) ks.
  Proof.
    intro H. apply map_ext_in. intros k Hk. rewrite members_cons.
    replace (keqb (key r) k) with false; [reflexivity|].
    symmetry. apply keqb_false. intro E. subst. contradiction.
  Qed.

  Lemma groups_by_cons_notin r t ks : ~ In (key r) ks ->
    groups_by key keqb ks (r :: t) = groups_by key keqb ks t.
  Proof.
    intro H. unfold groups_by. apply map_ext_in. intros k Hk. rewrite members_cons.
    replace (keqb (key r) k) with false; [reflexivity|].
    symmetry. apply keqb_false. intro E. subst. contradiction.
  Qed.

  (* every row lands in exactly one group: the groups, concatenated, are a permutation of the rows *)
  Theorem groups_by_partition ks rows :
    NoDup ks -> (forall r, In r rows -> In (key r) ks) ->
    Permutation (concat (map snd (groups_by key keqb ks rows))) rows.
  Proof.
    intros ND. rewrite map_snd_groups_by. induction rows as [|r t IH]; intro Cov.
    - simpl. unfold members. simpl. rewrite concat_map_nil. constructor.
    - assert (Hin : In (key r) ks) by (apply Cov; left; reflexivity).
      apply in_split in Hin as (k1 & k2 & E).
      assert (N : ~ In (key r) k1 /\ ~ In (key r) k2).
      { rewrite E in ND. apply NoDup_remove_2 in ND. split; intro H; apply ND; apply in_or_app; auto. }
      destruct N as [N1 N2].
      assert (IH' : Permutation (concat (map (fun k => members key keqb k t) ks)) t)
        by (apply IH; intros; apply Cov; right; assumption).
      subst ks. rewrite map_app, map_cons, concat_app, concat_cons in IH'.
      rewrite map_app, map_cons, concat_app, concat_cons.
      rewrite (members_map_notin r t k1 N1), (members_map_notin r t k2 N2).
      rewrite members_cons, keqb_refl. rewrite <- app_comm_cons.
      apply Permutation_sym. eapply Permutation_trans; [|apply Permutation_middle].
      apply perm_skip. apply Permutation_sym. exact IH'.
  Qed.

  Lemma groups_by_key_constant ks rows k g :
    In (k, g) (groups_by key keqb ks rows) -> Forall (fun r => key r = k) g.
  Proof.
    unfold groups_by. intro H. apply in_map_iff in H as (k' & E & _). injection E as -> <-.
    apply Forall_forall. intros r Hr. apply filter_In in Hr as [_ Hr]. apply keqb_spec. exact Hr.
  Qed.

  Lemma groups_by_members ks rows k g :
    In (k, g) (groups_by key keqb ks rows) -> g = filter (fun r => keqb (key r) k) rows.
  Proof.
    unfold groups_by. intro H. apply in_map_iff in H as (k' & E & _). injection E as -> <-. reflexivity.
  Qed.

  Lemma groups_by_nonempty ks rows k g :
    (forall k, In k ks -> In k (map key rows)) ->
    In (k, g) (groups_by key keqb ks rows) -> g <> [].
  Proof.
    unfold groups_by. intros Occ H. apply in_map_iff in H as (k' & E & Hk). injection E as -> <-.
    apply Occ in Hk. apply in_map_iff in Hk as (r & E & Hr).
    intro Hnil. assert (In r (members key keqb k rows)).
    { apply filter_In. split; [exact Hr | apply keqb_spec; exact E]. }
    rewrite Hnil in H. contradiction.
  Qed.

  (* ---- np.unique positions ---- *)
  Lemma index_of_nth : forall (U : list K) i k, NoDup U -> nth_error U i = Some k ->
    forall x, In x U -> Nat.eqb (index_of keqb x U) i = keqb x k.
  Proof.
    induction U as [|u U' IH]; intros i k ND Hn x Hx; [destruct i; discriminate|].
    inversion ND as [|? ? Hnot ND']; subst. simpl index_of. destruct i as [|i'].
    - simpl in Hn. injection Hn as <-. rewrite (keqb_sym x u).
      destruct (keqb u x); reflexivity.
    - simpl in Hn. assert (Hk : In k U') by (eapply nth_error_In; eauto).
      destruct (keqb u x) eqn:E.
      + apply keqb_spec in E. subst x. simpl. symmetry. apply keqb_false. intro; subst. contradiction.
      + destruct Hx as [Hx|Hx]; [subst; rewrite keqb_refl in E; discriminate|].
        simpl. apply IH; assumption.
  Qed.

  Lemma In_insert_key (kleb : K -> K -> bool) (x k : K) l : In x (insert_key kleb k l) <-> x = k \/ In x l.
  Proof.
    induction l as [|a t IH]; simpl.
    - split; [intros [H|[]]; left; congruence | intros [H|[]]; left; congruence].
    - destruct (kleb k a); simpl; [split; intros [H|H]; auto; left; congruence|].
      rewrite IH. split.
      + intros [H|[H|H]]; auto.
      + intros [H|[H|H]]; auto.
  Qed.

  Lemma In_sort_keys (kleb : K -> K -> bool) (x : K) l : In x (sort_keys kleb l) <-> In x l.
  Proof.
    induction l as [|a t IH]; simpl; [tauto|]. rewrite In_insert_key, IH. split; intros [H|H]; auto.
  Qed.

  (* path B = one group per sorted-distinct key, members by filter: needs no property of the order *)
  Theorem pathB_spec kleb rows :
    M_B key keqb kleb rows = groups_by key keqb (distinct keqb (sort_keys kleb (map key rows))) rows.
  Proof.
    unfold M_B, np_unique. set (U := distinct keqb (sort_keys kleb (map key rows))).
    assert (ND : NoDup U) by apply NoDup_distinct.
    assert (Cov : forall r, In r rows -> In (key r) U).
    { intros r Hr. apply In_distinct, In_sort_keys. apply in_map. exact Hr. }
    unfold groups_by. cbv beta iota zeta.
    transitivity (map (fun ig : nat * K => (snd ig, members key keqb (snd ig) rows)) (enumerate_from 0 U)).
    2:{ rewrite <- (map_map snd (fun k => (k, members key keqb k rows))). rewrite map_snd_enumerate. reflexivity. }
    apply map_ext_in. intros [i k] Hik. simpl. f_equal.
    apply In_enumerate in Hik as [_ Hn]. rewrite Nat.sub_0_r in Hn.
    rewrite !map_map. rewrite mask_select_map. unfold members.
    apply filter_ext_in. intros r Hr. apply index_of_nth; auto.
  Qed.
  (* ---- the specification has the partition properties ---- *)
  Theorem S_group_partition rows : Permutation (concat (map snd (S_group key keqb rows))) rows.
  Proof.
    unfold S_group. apply groups_by_partition; [apply NoDup_distinct|].
    intros r Hr. apply In_distinct. apply in_map. exact Hr.
  Qed.

  Theorem S_group_keys_distinct rows : NoDup (map fst (S_group key keqb rows)).
  Proof. unfold S_group. rewrite map_fst_groups_by. apply NoDup_distinct. Qed.

  Theorem S_group_sound rows k g : In (k, g) (S_group key keqb rows) ->
    g <> [] /\ Forall (fun r => key r = k) g /\ g = filter (fun r => keqb (key r) k) rows.
  Proof.
    intro H. split; [|split].
    - eapply groups_by_nonempty; [|exact H]. intros k' Hk. apply (proj1 (In_distinct k' (map key rows))). exact Hk.
    - eapply groups_by_key_constant; exact H.
    - eapply groups_by_members; exact H.
  Qed.
End EqFacts.
