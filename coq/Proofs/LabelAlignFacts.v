(* C06 -- label alignment facts: re-indexing through IndexCorrespondence is a label lookup; a binary
   operator between labelled vectors pairs values by label. *)
Require Import SF.Prelude SF.SetAlg SF.LabelAlign Proofs.SetAlgFacts.

Section Basic.
Variable A : Type.
Variable eqb : A -> A -> bool.
Hypothesis eqb_spec : forall x y, eqb x y = true <-> x = y.

Notation mem := (mem A eqb).
Notation index_of := (index_of A eqb).
Notation locs := (locs A eqb).
Notation covers := (covers A eqb).

Notation mem_In := (mem_In A eqb eqb_spec).
Notation eqb_refl := (eqb_refl A eqb eqb_spec).
Notation eqb_false := (eqb_false A eqb eqb_spec).

(* position with a default, total *)
Definition pos (l : list A) (k : A) : nat :=
  match index_of k l with Some i => i | None => 0%nat end.

Lemma index_of_In k l : In k l -> exists i, index_of k l = Some i.
Proof.
  induction l as [|y t IH]; cbn; [intros []|].
  intros H. destruct (eqb k y) eqn:E; [eauto|].
  apply eqb_false in E. destruct H as [H|H]; [congruence|].
  destruct (IH H) as [i ->]. cbn. eauto.
Qed.

Lemma index_of_notin k l : ~ In k l -> index_of k l = None.
Proof.
  induction l as [|y t IH]; cbn; [reflexivity|].
  intros H. destruct (eqb k y) eqn:E.
  - apply eqb_spec in E. subst. tauto.
  - rewrite IH by tauto. reflexivity.
Qed.

Lemma locs_incl l keys : incl keys l -> locs l keys = Some (map (pos l) keys).
Proof.
  induction keys as [|k t IH]; cbn; [reflexivity|].
  intros H. assert (Hk : In k l) by (apply H; left; reflexivity).
  destruct (index_of_In k l Hk) as [i Ei].
  assert (Ep : pos l k = i) by (unfold pos; rewrite Ei; reflexivity).
  rewrite IH by (intros x Hx; apply H; right; exact Hx). rewrite Ei.
  cbn [map]. rewrite Ep. reflexivity.
Qed.

Section Values.
Variable W : Type.
Notation getw := (get A W eqb).

Definition getd (ls : list A) (vs : list W) (d : W) (k : A) : W :=
  match getw ls vs k with Some v => v | None => d end.

Lemma get_notin ls (vs : list W) k : ~ In k ls -> getw ls vs k = None.
Proof.
  revert vs. induction ls as [|y t IH]; intros vs H; cbn; [reflexivity|].
  destruct vs as [|v vt]; [reflexivity|].
  destruct (eqb k y) eqn:E.
  - apply eqb_spec in E. subst. cbn in H. tauto.
  - apply IH. cbn in H. tauto.
Qed.

Lemma get_in ls (vs : list W) k : length vs = length ls -> In k ls -> exists v, getw ls vs k = Some v.
Proof.
  revert vs. induction ls as [|y t IH]; intros vs Hl H; [destruct H|].
  destruct vs as [|v vt]; [discriminate|]. cbn.
  destruct (eqb k y) eqn:E; [eauto|].
  apply eqb_false in E. destruct H as [H|H]; [congruence|].
  apply IH; [cbn in Hl; lia | exact H].
Qed.

Lemma get_In_iff ls (vs : list W) k : getw ls vs k <> None -> In k ls.
Proof.
  intros H. destruct (in_dec (fun x y => match Bool.bool_dec (eqb x y) true with
                                            | left e => left (proj1 (eqb_spec x y) e)
                                            | right n => right (fun e => n (proj2 (eqb_spec x y) e)) end) k ls)
    as [Hin|Hn]; [exact Hin|].
  exfalso. apply H. apply get_notin. exact Hn.
Qed.

Lemma nth_pos ls (vs : list W) d k : length vs = length ls -> In k ls ->
  nth (pos ls k) vs d = getd ls vs d k.
Proof.
  revert vs. induction ls as [|y t IH]; intros vs Hl H; [destruct H|].
  destruct vs as [|v vt]; [discriminate|].
  unfold pos, getd. cbn.
  destruct (eqb k y) eqn:E; [reflexivity|].
  apply eqb_false in E. destruct H as [H|H]; [congruence|].
  assert (Hl' : length vt = length t) by (cbn in Hl; lia).
  specialize (IH vt Hl' H). unfold pos, getd in IH.
  destruct (index_of_In k t H) as [i Ei]. rewrite Ei in *. cbn. exact IH.
Qed.

Lemma take_pos ls (vs : list W) d keys : length vs = length ls -> incl keys ls ->
  take W vs (map (pos ls) keys) d = map (getd ls vs d) keys.
Proof.
  intros Hl Hi. unfold take. rewrite map_map. apply map_ext_in.
  intros k Hk. apply nth_pos; [exact Hl | apply Hi, Hk].
Qed.

Lemma map_getd_self ls (vs : list W) d : NoDup ls -> length vs = length ls -> map (getd ls vs d) ls = vs.
Proof.
  revert vs. induction ls as [|y t IH]; intros vs Hn Hl.
  - destruct vs; [reflexivity | discriminate].
  - destruct vs as [|v vt]; [discriminate|]. inversion Hn as [|? ? Hy Ht]; subst.
    cbn. unfold getd at 1. cbn. rewrite eqb_refl. f_equal.
    rewrite <- (IH vt Ht) at 2 by (cbn in Hl; lia).
    apply map_ext_in. intros k Hk. unfold getd. cbn.
    destruct (eqb k y) eqn:E; [|reflexivity].
    apply eqb_spec in E. subst. contradiction.
Qed.

(* set_nth at the position of a label of a repetition-free index rewrites exactly that label *)
Lemma set_nth_map (g : A -> W) dst c w : NoDup dst -> In c dst ->
  set_nth W (pos dst c) w (map g dst) = map (fun l => if eqb l c then w else g l) dst.
Proof.
  induction dst as [|y t IH]; intros Hn Hc; [destruct Hc|].
  inversion Hn as [|? ? Hy Ht]; subst. unfold pos. cbn.
  destruct (eqb c y) eqn:E.
  - apply eqb_spec in E. subst y. cbn. rewrite eqb_refl. f_equal.
    apply map_ext_in. intros l Hl. destruct (eqb l c) eqn:E2; [|reflexivity].
    apply eqb_spec in E2. subst. contradiction.
  - apply eqb_false in E. destruct Hc as [Hc|Hc]; [congruence|].
    destruct (index_of_In c t Hc) as [i Ei]. rewrite Ei. cbn.
    assert (E2 : eqb y c = false) by (apply eqb_false; congruence). rewrite E2. f_equal.
    specialize (IH Ht Hc). unfold pos in IH. rewrite Ei in IH. exact IH.
Qed.

Lemma scatter_map (h g : A -> W) dst cs : NoDup dst -> incl cs dst ->
  scatter W (map (pos dst) cs) (map h cs) (map g dst) =
  map (fun l => if mem l cs then h l else g l) dst.
Proof.
  intros Hn. revert g. induction cs as [|c t IH]; intros g Hi; cbn; [reflexivity|].
  rewrite set_nth_map by (auto; apply Hi; left; reflexivity).
  rewrite IH by (intros x Hx; apply Hi; right; exact Hx).
  apply map_ext. intros l. destruct (eqb l c) eqn:E; cbn.
  - apply eqb_spec in E. subst. destruct (mem c t); reflexivity.
  - reflexivity.
Qed.

Lemma repeat_map (d : W) (l : list A) : repeat d (length l) = map (fun _ => d) l.
Proof. induction l; cbn; congruence. Qed.

End Values.

Lemma covers_spec src dst : covers src dst = true <-> incl dst src.
Proof.
  unfold covers. rewrite forallb_forall. unfold incl. split; intros H x Hx; apply mem_In, H, Hx.
Qed.

Lemma covers_ext src src' dst dst' :
  (forall x, In x src <-> In x src') -> (forall x, In x dst <-> In x dst') ->
  covers src dst = covers src' dst'.
Proof.
  intros Hs Hd. destruct (covers src dst) eqn:E1; destruct (covers src' dst') eqn:E2; try reflexivity.
  - apply covers_spec in E1. assert (covers src' dst' = true); [|congruence].
    apply covers_spec. intros x Hx. apply Hs, E1, Hd, Hx.
  - apply covers_spec in E2. assert (covers src dst = true); [|congruence].
    apply covers_spec. intros x Hx. apply Hs, E2, Hd, Hx.
Qed.

(* ---- permutation invariance ---- *)
Lemma map_fst_combine (W : Type) (l : list A) (w : list W) : length w = length l -> map fst (combine l w) = l.
Proof.
  revert w. induction l as [|x t IH]; intros w H; [reflexivity|].
  destruct w; [discriminate|]. cbn. f_equal. apply IH. cbn in H. lia.
Qed.

Lemma get_In_combine (W : Type) (l : list A) (w : list W) k v :
  NoDup l -> (get A W eqb l w k = Some v <-> In (k, v) (combine l w)).
Proof.
  intros Hn. revert w. induction l as [|y t IH]; intros w; cbn.
  - split; [discriminate | intros []].
  - destruct w as [|x wt]; cbn; [split; [discriminate | intros []]|].
    inversion Hn as [|? ? Hy Ht]; subst.
    destruct (eqb k y) eqn:E.
    + apply eqb_spec in E. subst y. split.
      * intros H. injection H as ->. left. reflexivity.
      * intros [H|H]; [injection H as ->; reflexivity|].
        exfalso. apply Hy. apply in_combine_l in H. exact H.
    + apply eqb_false in E. rewrite (IH Ht). split; [tauto|].
      intros [H|H]; [injection H as -> ->; congruence | exact H].
Qed.

Lemma perm_labels (W : Type) (l l' : list A) (w w' : list W) :
  length w = length l -> length w' = length l' ->
  Permutation (combine l w) (combine l' w') -> Permutation l l'.
Proof.
  intros H H' P. rewrite <- (map_fst_combine W l w H), <- (map_fst_combine W l' w' H').
  apply Permutation_map. exact P.
Qed.

Lemma get_perm (W : Type) (l l' : list A) (w w' : list W) k :
  NoDup l -> length w = length l -> length w' = length l' ->
  Permutation (combine l w) (combine l' w') ->
  get A W eqb l w k = get A W eqb l' w' k.
Proof.
  intros Hn H H' P.
  assert (Hn' : NoDup l') by (apply (Permutation_NoDup (perm_labels W l l' w w' H H' P) Hn)).
  destruct (get A W eqb l w k) eqn:E.
  - apply (get_In_combine W l w k w0 Hn) in E. symmetry. apply (get_In_combine W l' w' k w0 Hn').
    eapply Permutation_in; eassumption.
  - destruct (get A W eqb l' w' k) eqn:E'; [|reflexivity].
    apply (get_In_combine W l' w' k w0 Hn') in E'.
    assert (In (k, w0) (combine l w)) by (eapply Permutation_in; [symmetry|]; eassumption).
    apply (get_In_combine W l w k w0 Hn) in H0. congruence.
Qed.

End Basic.

Section Reindex.
Variable A V : Type.
Variable eqb : A -> A -> bool.
Hypothesis eqb_spec : forall x y, eqb x y = true <-> x = y.
Notation mem := (mem A eqb).
Notation index_of := (index_of A eqb).
Notation locs := (locs A eqb).
Notation covers := (covers A eqb).
Notation mem_In := (mem_In A eqb eqb_spec).
Notation eqb_refl := (eqb_refl A eqb eqb_spec).
Notation eqb_false := (eqb_false A eqb eqb_spec).
Notation pos := (pos A eqb).
Notation getd := (getd A eqb).
Notation index_of_In := (index_of_In A eqb eqb_spec).
Notation locs_incl := (locs_incl A eqb eqb_spec).
Notation get_notin := (get_notin A eqb eqb_spec).
Notation get_in := (get_in A eqb eqb_spec).
Notation get_In_iff := (get_In_iff A eqb eqb_spec).
Notation take_pos := (take_pos A eqb eqb_spec).
Notation map_getd_self := (map_getd_self A eqb eqb_spec).
Notation scatter_map := (scatter_map A eqb eqb_spec).
Notation repeat_map := (repeat_map A).
Notation covers_spec := (covers_spec A eqb eqb_spec).
Notation covers_ext := (covers_ext A eqb eqb_spec).

(* ---- re-indexing ---- *)
Lemma side_covered src (vals : list V) dst fill cast l :
  covers src dst = true -> side A V eqb src vals dst fill cast l = getd V src vals fill l.
Proof. intros H. unfold side, getd. rewrite H. reflexivity. Qed.

(* MAIN LEMMA: whatever list of the common labels intersect1d returned (any order), the
   IndexCorrespondence built from it re-indexes to the label-lookup specification *)
Lemma reindex_with_common common src (vals : list V) dst fill cast :
  NoDup src -> NoDup dst -> length vals = length src ->
  NoDup common -> (forall x, In x common <-> In x src /\ In x dst) ->
  exists c, ic_of_common A eqb common src dst = Some c /\
            M_reindex_values V c vals fill cast = S_reindex A V eqb src vals dst fill cast.
Proof.
  intros Hs Hd Hl Hc Hi. unfold ic_of_common.
  assert (Hcs : incl common src) by (intros x Hx; apply Hi, Hx).
  assert (Hcd : incl common dst) by (intros x Hx; apply Hi, Hx).
  destruct (is_nil A common) eqn:En; cbn.
  - (* nothing in common *)
    apply is_nil_spec in En. subst common. eexists. split; [reflexivity|].
    unfold M_reindex_values; cbn [ic_is_subset ic_src ic_has_common ic_dst ic_size]. unfold S_reindex. rewrite repeat_map. apply map_ext_in.
    intros l Hl'. unfold side. rewrite get_notin; [reflexivity|].
    intros Hls. destruct (proj2 (Hi l) (conj Hls Hl')).
  - destruct (Z.of_nat (length common) =? Z.of_nat (length dst)) eqn:Elen.
    + (* is_subset: every destination label is in the source *)
      assert (Hdc : incl dst common) by (apply NoDup_length_incl; [exact Hc | lia | exact Hcd]).
      assert (Hds : incl dst src) by (intros x Hx; apply Hcs, Hdc, Hx).
      rewrite (locs_incl src dst Hds). eexists. split; [reflexivity|].
      unfold M_reindex_values; cbn [ic_is_subset ic_src ic_has_common ic_dst ic_size]. rewrite take_pos by assumption.
      unfold S_reindex. apply map_ext. intros l. symmetry. apply side_covered.
      apply covers_spec. exact Hds.
    + (* some destination label is missing from the source *)
      rewrite (locs_incl src common Hcs), (locs_incl dst common Hcd).
      eexists. split; [reflexivity|].
      unfold M_reindex_values; cbn [ic_is_subset ic_src ic_has_common ic_dst ic_size].
      assert (Hnc : covers src dst = false).
      { destruct (covers src dst) eqn:Ec; [|reflexivity]. exfalso.
        apply covers_spec in Ec.
        assert (incl dst common) by (intros x Hx; apply Hi; split; [apply Ec, Hx | exact Hx]).
        pose proof (NoDup_incl_length Hd H). pose proof (NoDup_incl_length Hc Hcd). lia. }
      rewrite take_pos by assumption. rewrite map_map, repeat_map.
      rewrite (scatter_map V (fun l => cast (getd V src vals fill l)) (fun _ => fill) dst common Hd Hcd).
      unfold S_reindex. apply map_ext_in. intros l Hl'. unfold side. rewrite Hnc.
      destruct (mem l common) eqn:Em.
      * apply mem_In in Em. apply Hi in Em as [Hls _].
        destruct (get_in V src vals l Hl Hls) as [v Ev]. unfold getd. rewrite Ev. reflexivity.
      * rewrite get_notin; [reflexivity|]. intros Hls.
        assert (mem l common = true) by (apply mem_In, Hi; tauto). congruence.
Qed.

(* the specification read as a label -> value map *)
Theorem S_reindex_get src (vals : list V) dst fill cast l :
  NoDup dst -> In l dst ->
  get A V eqb dst (S_reindex A V eqb src vals dst fill cast) l =
  Some (side A V eqb src vals dst fill cast l).
Proof.
  intros Hd Hl. unfold S_reindex. generalize (side A V eqb src vals dst fill cast). intros g.
  induction dst as [|y t IH]; [destruct Hl|]. inversion Hd as [|? ? Hy Ht]; subst. cbn.
  destruct (eqb l y) eqn:E.
  - apply eqb_spec in E. subst. reflexivity.
  - apply eqb_false in E. destruct Hl as [Hl|Hl]; [congruence|]. apply IH; assumption.
Qed.

End Reindex.

Section Facts.
Variable A V : Type.
Variable eqb : A -> A -> bool.
Variable leb : A -> A -> bool.
Variable sortable : list A -> bool.
Hypothesis eqb_spec : forall x y, eqb x y = true <-> x = y.
Notation mem := (mem A eqb).
Notation index_of := (index_of A eqb).
Notation locs := (locs A eqb).
Notation covers := (covers A eqb).
Notation mem_In := (mem_In A eqb eqb_spec).
Notation eqb_refl := (eqb_refl A eqb eqb_spec).
Notation eqb_false := (eqb_false A eqb eqb_spec).
Notation pos := (pos A eqb).
Notation getd := (getd A eqb).
Notation index_of_In := (index_of_In A eqb eqb_spec).
Notation locs_incl := (locs_incl A eqb eqb_spec).
Notation get_notin := (get_notin A eqb eqb_spec).
Notation get_in := (get_in A eqb eqb_spec).
Notation get_In_iff := (get_In_iff A eqb eqb_spec).
Notation take_pos := (take_pos A eqb eqb_spec).
Notation map_getd_self := (map_getd_self A eqb eqb_spec).
Notation scatter_map := (scatter_map A eqb eqb_spec).
Notation repeat_map := (repeat_map A).
Notation covers_spec := (covers_spec A eqb eqb_spec).
Notation covers_ext := (covers_ext A eqb eqb_spec).
Notation side_covered := (side_covered A V eqb).
Notation reindex_with_common := (reindex_with_common A V eqb eqb_spec).
Notation get_perm := (get_perm A eqb eqb_spec).
Notation perm_labels := (perm_labels A eqb eqb_spec).

Theorem M_series_reindex_refines ce objpath src (vals : list V) dst fill cast :
  NoDup src -> NoDup dst -> length vals = length src ->
  M_series_reindex A V eqb leb sortable ce objpath src vals dst fill cast =
  Some (S_reindex A V eqb src vals dst fill cast).
Proof.
  intros Hs Hd Hl. unfold M_series_reindex.
  destruct (ce && (Z.of_nat (length src) =? Z.of_nat (length dst)) && list_eqb eqb src dst) eqn:E.
  - apply andb_true_iff in E as [_ E]. apply (list_eqb_spec A eqb eqb_spec) in E. subst dst.
    f_equal. unfold S_reindex. symmetry.
    rewrite <- (map_getd_self V src vals fill Hs Hl) at 2.
    apply map_ext. intros l. apply side_covered. apply covers_spec. apply incl_refl.
  - unfold M_from_correspondence.
    pose proof (M_ufunc_set_spec A eqb leb sortable eqb_spec OpInter true objpath src dst
                  (fun _ => conj Hs Hd)) as [Hn Hi]. cbv zeta in Hn, Hi. cbn in Hi.
    destruct (reindex_with_common _ src vals dst fill cast Hs Hd Hl Hn Hi) as [c [Ec Er]].
    rewrite Ec, Er. reflexivity.
Qed.

(* Series.reindex through IndexCorrespondence = label lookup, read off the result *)
Theorem reindex_label_lookup ce objpath src (vals : list V) dst fill cast :
  NoDup src -> NoDup dst -> length vals = length src ->
  exists r, M_series_reindex A V eqb leb sortable ce objpath src vals dst fill cast = Some r /\
            length r = length dst /\
            forall l, In l dst ->
              get A V eqb dst r l =
              Some (match get A V eqb src vals l with
                    | Some v => if covers src dst then v else cast v
                    | None => fill
                    end).
Proof.
  intros Hs Hd Hl. exists (S_reindex A V eqb src vals dst fill cast).
  split; [apply M_series_reindex_refines; assumption|].
  split; [unfold S_reindex; apply map_length|].
  intros l Hin. rewrite (S_reindex_get A V eqb eqb_spec src vals dst fill cast l Hd Hin). reflexivity.
Qed.

(* ---- binary operator ---- *)
Section Binop.
Variable R : Type.
Variable f : V -> V -> R.

Lemma map2_map (g h : A -> V) l : map2 V R f (map g l) (map h l) = map (fun x => f (g x) (h x)) l.
Proof. induction l; cbn; congruence. Qed.

Lemma get_map (W : Type) (g : A -> W) idx l : NoDup idx -> In l idx -> get A W eqb idx (map g idx) l = Some (g l).
Proof.
  intros Hd Hl. induction idx as [|y t IH]; [destruct Hl|]. inversion Hd as [|? ? Hy Ht]; subst. cbn.
  destruct (eqb l y) eqn:E.
  - apply eqb_spec in E. subst. reflexivity.
  - apply eqb_false in E. destruct Hl as [Hl|Hl]; [congruence|]. apply IH; assumption.
Qed.

Lemma S_binop_at_ext na ca cb ia (va : list V) ib vb u u' l :
  (forall x, In x u <-> In x u') ->
  f (side A V eqb ia va u na ca l) (side A V eqb ib vb u na cb l) =
  f (side A V eqb ia va u' na ca l) (side A V eqb ib vb u' na cb l).
Proof.
  intros H. unfold side.
  rewrite (covers_ext ia ia u u') by (tauto || exact H).
  rewrite (covers_ext ib ib u u') by (tauto || exact H). reflexivity.
Qed.

(* MAIN: Series op Series = the label-wise specification on the union of the labels *)
Theorem M_series_binop_aligned same_dtype objpath na ca cb ia (va : list V) ib vb :
  NoDup ia -> NoDup ib -> length va = length ia -> length vb = length ib ->
  exists idx,
    M_series_binop A V eqb leb sortable R f same_dtype objpath na ca cb ia va ib vb =
      Some (idx, map (S_binop_at A V eqb R f na ca cb ia va ib vb) idx) /\
    NoDup idx /\ (forall l, In l idx <-> In l ia \/ In l ib) /\ (ia = ib -> idx = ia).
Proof.
  intros Ha Hb Hla Hlb. unfold M_series_binop.
  destruct (S_set_spec A eqb eqb_spec OpUnion ia ib) as [_ HSu]. cbn in HSu.
  destruct ((Z.of_nat (length ia) =? Z.of_nat (length ib)) && list_eqb eqb ia ib) eqn:E.
  - apply andb_true_iff in E as [_ E]. apply (list_eqb_spec A eqb eqb_spec) in E. subst ib.
    exists ia. split; [|split; [exact Ha | split; [tauto | reflexivity]]].
    f_equal. f_equal.
    rewrite <- (map_getd_self V ia va na Ha Hla) at 1.
    rewrite <- (map_getd_self V ia vb na Ha Hlb) at 1.
    rewrite map2_map. apply map_ext. intros l. unfold S_binop_at.
    rewrite !side_covered; [reflexivity| |]; apply covers_spec; intros x Hx; destruct (proj1 (HSu x) Hx); assumption.
  - set (idx := snd (M_index_set A eqb leb sortable OpUnion OperandIndex same_dtype objpath ia ib)).
    destruct (M_index_set_spec A eqb leb sortable eqb_spec OpUnion OperandIndex same_dtype objpath ia ib Ha
                (fun _ => Hb)) as [Hn Hi]. fold idx in Hn, Hi. cbn in Hi.
    rewrite (M_series_reindex_refines false objpath ia va idx na ca Ha Hn Hla).
    rewrite (M_series_reindex_refines false objpath ib vb idx na cb Hb Hn Hlb).
    exists idx. split; [|split; [exact Hn | split; [exact Hi|]]].
    + f_equal. f_equal. unfold S_reindex. rewrite map2_map. apply map_ext. intros l.
      unfold S_binop_at. apply S_binop_at_ext. intros x. rewrite Hi, HSu. tauto.
    + intros ->. exfalso.
      assert (list_eqb eqb ib ib = true) by (apply (list_eqb_spec A eqb eqb_spec); reflexivity).
      rewrite H, Z.eqb_refl in E. discriminate.
Qed.

(* what the result holds at a label, read off the result itself *)
Corollary M_series_binop_get same_dtype objpath na ca cb ia (va : list V) ib vb idx rs l :
  NoDup ia -> NoDup ib -> length va = length ia -> length vb = length ib ->
  M_series_binop A V eqb leb sortable R f same_dtype objpath na ca cb ia va ib vb = Some (idx, rs) ->
  (In l ia \/ In l ib) ->
  get A R eqb idx rs l = Some (S_binop_at A V eqb R f na ca cb ia va ib vb l).
Proof.
  intros Ha Hb Hla Hlb HM Hl.
  destruct (M_series_binop_aligned same_dtype objpath na ca cb ia va ib vb Ha Hb Hla Hlb)
    as [idx' [E [Hn [Hi _]]]].
  rewrite E in HM. injection HM as <- <-. apply get_map; [exact Hn | apply Hi, Hl].
Qed.

(* where both operands have the label: op(a, b) (after the dtype coercion the fill forces) *)
Theorem S_binop_both na ca cb ia (va : list V) ib vb l x y :
  get A V eqb ia va l = Some x -> get A V eqb ib vb l = Some y ->
  let u := S_set A eqb OpUnion ia ib in
  S_binop_at A V eqb R f na ca cb ia va ib vb l =
  f (if covers ia u then x else ca x) (if covers ib u then y else cb y).
Proof. intros Hx Hy. cbv zeta. unfold S_binop_at, side. rewrite Hx, Hy. reflexivity. Qed.

(* elsewhere: the operator sees the missing marker on the side that lacks the label; for an operator
   that propagates it (the arithmetic operators), the result is the missing marker *)
Theorem S_binop_missing na nar ca cb ia (va : list V) ib vb l :
  (forall y, f na y = nar) -> (forall x, f x na = nar) ->
  ~ (In l ia /\ In l ib) ->
  length va = length ia -> length vb = length ib ->
  S_binop_at A V eqb R f na ca cb ia va ib vb l = nar.
Proof.
  intros Hl Hr Hn Hla Hlb. unfold S_binop_at, side.
  destruct (get A V eqb ia va l) eqn:Ea.
  - destruct (get A V eqb ib vb l) eqn:Eb; [|apply Hr].
    exfalso. apply Hn. split; [apply (get_In_iff V ia va l); rewrite Ea | apply (get_In_iff V ib vb l); rewrite Eb]; discriminate.
  - apply Hl.
Qed.

End Binop.

(* Re-ordering the labels of either operand (values moving with their labels) leaves the label -> value
   map of the result unchanged, and the label set too. *)
Theorem M_series_binop_perm_invariant (R : Type) (f : V -> V -> R) sd sd' op op' na ca cb
  ia (va : list V) ib vb ia' va' ib' vb' idx rs idx' rs' :
  NoDup ia -> NoDup ib ->
  length va = length ia -> length vb = length ib -> length va' = length ia' -> length vb' = length ib' ->
  Permutation (combine ia va) (combine ia' va') ->
  Permutation (combine ib vb) (combine ib' vb') ->
  M_series_binop A V eqb leb sortable R f sd op na ca cb ia va ib vb = Some (idx, rs) ->
  M_series_binop A V eqb leb sortable R f sd' op' na ca cb ia' va' ib' vb' = Some (idx', rs') ->
  (forall l, In l idx <-> In l idx') /\
  (forall l, get A R eqb idx rs l = get A R eqb idx' rs' l).
Proof.
  intros Ha Hb Hla Hlb Hla' Hlb' Pa Pb HM HM'.
  pose proof (perm_labels V ia ia' va va' Hla Hla' Pa) as Pia.
  pose proof (perm_labels V ib ib' vb vb' Hlb Hlb' Pb) as Pib.
  assert (Ha' : NoDup ia') by (eapply Permutation_NoDup; eassumption).
  assert (Hb' : NoDup ib') by (eapply Permutation_NoDup; eassumption).
  destruct (M_series_binop_aligned R f sd op na ca cb ia va ib vb Ha Hb Hla Hlb) as [i1 [E1 [Hn1 [Hi1 _]]]].
  destruct (M_series_binop_aligned R f sd' op' na ca cb ia' va' ib' vb' Ha' Hb' Hla' Hlb') as [i2 [E2 [Hn2 [Hi2 _]]]].
  rewrite E1 in HM. injection HM as <- <-. rewrite E2 in HM'. injection HM' as <- <-.
  assert (Hmem : forall l, In l i1 <-> In l i2).
  { intros l. rewrite Hi1, Hi2. split; intros [H|H];
      ((left; eapply Permutation_in; [|exact H]; (exact Pia || (symmetry; exact Pia))) ||
       (right; eapply Permutation_in; [|exact H]; (exact Pib || (symmetry; exact Pib)))). }
  split; [exact Hmem|].
  intros l.
  assert (Hdec : In l i1 \/ ~ In l i1).
  { destruct (mem l i1) eqn:Em; [left; apply mem_In, Em | right; intros H; apply mem_In in H; congruence]. }
  destruct Hdec as [Hin|Hout].
  - rewrite get_map by assumption. rewrite get_map by (try assumption; apply Hmem, Hin).
    f_equal. unfold S_binop_at, side.
    rewrite (get_perm V ia ia' va va' l Ha Hla Hla' Pa), (get_perm V ib ib' vb vb' l Hb Hlb Hlb' Pb).
    assert (HU : forall x, In x (S_set A eqb OpUnion ia ib) <-> In x (S_set A eqb OpUnion ia' ib')).
    { intros x. destruct (S_set_spec A eqb eqb_spec OpUnion ia ib) as [_ H1].
      destruct (S_set_spec A eqb eqb_spec OpUnion ia' ib') as [_ H2]. rewrite H1, H2. cbn.
      split; intros [H|H];
      ((left; eapply Permutation_in; [|exact H]; (exact Pia || (symmetry; exact Pia))) ||
       (right; eapply Permutation_in; [|exact H]; (exact Pib || (symmetry; exact Pib)))). }
    rewrite (covers_ext ia ia' _ _ (fun x => conj (Permutation_in x Pia) (Permutation_in x (Permutation_sym Pia))) HU).
    rewrite (covers_ext ib ib' _ _ (fun x => conj (Permutation_in x Pib) (Permutation_in x (Permutation_sym Pib))) HU).
    reflexivity.
  - rewrite !get_notin; [reflexivity | | exact Hout]. intros H. apply Hout, Hmem, H.
Qed.

End Facts.
