(* C01: pickle and deepcopy round trips preserve the content and the read-only status, and the copy is private. *)
Require Import SF.Prelude SF.Heap Proofs.HeapFrozen Proofs.HeapRefine.
Local Open Scope nat_scope.

Lemma skipn_nth_error {A} (l : list A) a x : nth_error l a = Some x -> skipn a l = x :: skipn (S a) l.
Proof.
  revert a; induction l as [|y t IH]; intros [|a] H; cbn in *; try discriminate.
  - injection H as ->. reflexivity.
  - rewrite (IH a H). reflexivity.
Qed.

Lemma In_firstn_skipn {A} (l : list A) n a x : In x (firstn n (skipn a l)) -> In x l.
Proof.
  intros H. assert (H' : In x (skipn a l)).
  { revert H. generalize (skipn a l). intros m; revert n; induction m as [|y t IH]; intros n H.
    - destruct n; cbn in H; contradiction.
    - destruct n; cbn in H; [contradiction|]. destruct H as [->|H]; [left; auto|right; eapply IH; eauto]. }
  clear H. revert a H'; induction l as [|y t IH]; intros [|a] H; cbn in *; auto.
  right. eapply IH; eauto.
Qed.

(* a list of slot copies (unpickled-and-refrozen, or array_deepcopy) of the slots a, a+1, ... of the parent *)
Lemma m_dsrcs_copy (mk : nat -> dsrc) :
  (forall j, mk j = DPickle j true \/ mk j = DDeep j) ->
  forall n bs parent a,
  (forall h, In h parent -> h_buf h < length bs /\ h_w h = false) ->
  a + n <= length parent ->
  exists bs2 out, m_dsrcs bs parent (map mk (seq a n)) = Ok (bs2, out) /\
    (exists ext, bs2 = bs ++ ext) /\
    map (fun h => (h_content bs2 h, h_w h)) out = map (fun h => (h_content bs h, h_w h)) (firstn n (skipn a parent)) /\
    Forall (fun h => length bs <= h_buf h) out.
Proof.
  intros Hmk n; induction n as [|n IH]; intros bs parent a Hp Hlen.
  - cbn. exists bs, []. repeat split; auto. exists []. rewrite app_nil_r. reflexivity.
  - cbn [seq map m_dsrcs].
    destruct (nth_error parent a) as [hp|] eqn:Ha.
    2:{ apply nth_error_None in Ha. lia. }
    assert (Hin : In hp parent) by (eapply nth_error_In; eauto).
    destruct (Hp hp Hin) as [Hb Hw].
    set (v := h_content bs hp).
    assert (Hstep : m_dsrc bs parent (mk a) = Ok (bs ++ [v], mk_handle (length bs) (seq 0 (length v)) false)).
    { destruct (Hmk a) as [E|E]; rewrite E; unfold m_dsrc; rewrite Ha; [cbn [negb]|rewrite Hw]; reflexivity. }
    rewrite Hstep.
    assert (Hp' : forall h, In h parent -> h_buf h < length (bs ++ [v]) /\ h_w h = false).
    { intros h Hh. destruct (Hp h Hh). rewrite app_length; cbn. split; [lia|auto]. }
    destruct (IH (bs ++ [v]) parent (S a) Hp' ltac:(lia)) as (bs2 & out & Hm & [ext ->] & Hobs & Hfresh).
    rewrite Hm. eexists; eexists; split; [reflexivity|]. split; [|split].
    + exists ([v] ++ ext). rewrite app_assoc. reflexivity.
    + rewrite (skipn_nth_error _ _ _ Ha). cbn [firstn map]. f_equal.
      * cbn [h_w]. f_equal; [|symmetry; exact Hw]. rewrite <- app_assoc. cbn [app]. apply h_content_fresh.
      * rewrite Hobs. apply map_ext_in. intros h Hh. f_equal.
        apply h_content_app. apply Hp. eapply In_firstn_skipn; eauto.
    + constructor; [cbn; lia|].
      eapply Forall_impl; [|exact Hfresh]. intros h Hh. cbn in Hh. rewrite app_length in Hh. cbn in Hh. lia.
Qed.

Lemma pickle_dsrcs_all_true flags : forall a,
  forallb (fun b => b) flags = true ->
  pickle_dsrcs_from a flags = map (fun j => DPickle j true) (seq a (length flags)).
Proof.
  induction flags as [|f t IH]; intros a H; cbn in *; auto.
  apply andb_true_iff in H as [-> Ht]. rewrite (IH (S a) Ht). reflexivity.
Qed.

Lemma roundtrip_generic (mk : nat -> dsrc) :
  (forall j, mk j = DPickle j true \/ mk j = DDeep j) ->
  forall hist c hs,
  guarded w0 hist = true ->
  nth_error (w_conts (M_run w0 hist)) c = Some hs ->
  exists w', M_step (M_run w0 hist) (SDerive c (map mk (seq 0 (length hs)))) = Ok w' /\
    cont_obs w' (length (w_conts (M_run w0 hist))) = cont_obs (M_run w0 hist) c /\
    (exists hs', nth_error (w_conts w') (length (w_conts (M_run w0 hist))) = Some hs' /\
                 Forall (fun h => length (w_bufs (M_run w0 hist)) <= h_buf h /\ h_w h = false) hs').
Proof.
  intros Hmk hist c hs Hg Hc.
  destruct (frozen_run hist Hg) as [Hwf Hfz].
  set (w := M_run w0 hist) in *.
  assert (Hp : forall h, In h hs -> h_buf h < length (w_bufs w) /\ h_w h = false).
  { intros h Hh. assert (Hin : In h (concat (w_conts w))) by (eapply In_concat_nth; eauto).
    split; [apply Hwf; apply in_or_app; auto|].
    eapply Hfz; eauto. apply in_or_app; auto. }
  destruct (m_dsrcs_copy mk Hmk (length hs) (w_bufs w) hs 0 Hp ltac:(lia)) as (bs2 & out & Hm & [ext Hext] & Hobs & Hfresh).
  cbn [M_step]. rewrite Hc, Hm. eexists; split; [reflexivity|].
  rewrite firstn_all in Hobs. cbn [skipn] in Hobs.
  unfold cont_obs; cbn [w_conts w_bufs].
  rewrite nth_error_app2 by lia. rewrite Nat.sub_diag. cbn [nth_error].
  split.
  - rewrite Hc. f_equal. exact Hobs.
  - exists out. split; [reflexivity|].
    apply Forall_forall. intros h Hh. split.
    + rewrite Forall_forall in Hfresh. auto.
    + (* flags equal those of the parent slots: all false *)
      pose proof (in_map (fun x => (h_content bs2 x, h_w x)) out h Hh) as H. cbn beta in H.
      rewrite Hobs in H. apply in_map_iff in H as [hp [E Hhp]]. injection E as _ E. rewrite <- E. apply Hp; auto.
Qed.

(* PICKLE: when __setstate__ re-freezes every array slot of the container (flags all true), the round trip yields
   a container with the same content, every array read-only, on buffers nothing else refers to. *)
Theorem pickle_roundtrip : forall hist c hs flags,
  guarded w0 hist = true ->
  nth_error (w_conts (M_run w0 hist)) c = Some hs ->
  length flags = length hs -> forallb (fun b => b) flags = true ->
  exists w', M_step (M_run w0 hist) (SDerive c (pickle_dsrcs_from 0 flags)) = Ok w' /\
    step_ok (M_run w0 hist) (SDerive c (pickle_dsrcs_from 0 flags)) = true /\
    cont_obs w' (length (w_conts (M_run w0 hist))) = cont_obs (M_run w0 hist) c /\
    (exists hs', nth_error (w_conts w') (length (w_conts (M_run w0 hist))) = Some hs' /\
                 Forall (fun h => length (w_bufs (M_run w0 hist)) <= h_buf h /\ h_w h = false) hs').
Proof.
  intros hist c hs flags Hg Hc Hl Hf.
  rewrite (pickle_dsrcs_all_true flags 0 Hf), Hl.
  destruct (roundtrip_generic (fun j => DPickle j true) (fun j => or_introl eq_refl) hist c hs Hg Hc) as (w' & A & B & C).
  exists w'. repeat split; auto.
  cbn. apply forallb_forall. intros d Hd. apply in_map_iff in Hd as [j [<- _]]. reflexivity.
Qed.

(* DEEPCOPY (util.array_deepcopy carries the flag of the source, which the invariant makes False) *)
Theorem deepcopy_roundtrip : forall hist c hs,
  guarded w0 hist = true ->
  nth_error (w_conts (M_run w0 hist)) c = Some hs ->
  exists w', M_step (M_run w0 hist) (SDerive c (deep_dsrcs (length hs))) = Ok w' /\
    cont_obs w' (length (w_conts (M_run w0 hist))) = cont_obs (M_run w0 hist) c /\
    (exists hs', nth_error (w_conts w') (length (w_conts (M_run w0 hist))) = Some hs' /\
                 Forall (fun h => length (w_bufs (M_run w0 hist)) <= h_buf h /\ h_w h = false) hs').
Proof.
  intros hist c hs Hg Hc. unfold deep_dsrcs.
  apply (roundtrip_generic DDeep (fun j => or_intror eq_refl) hist c hs Hg Hc).
Qed.

(* ---------- non-vacuity: a guarded history that exercises every step kind ---------- *)
Definition example_history : list step :=
  [ SNew [10; 20; 30]%Z;                                     (* a0 = np.array([10, 20, 30]) *)
    SView 0 [2; 1; 0];                                         (* a1 = a0[::-1] *)
    SConstruct [FromCaller RFilter 1; FromVals [0; 1; 2]%Z];   (* c0 built from the writeable view: copied *)
    SWrite 0 0 (-7)%Z;                                         (* a0[0] = -7: invisible *)
    SDerive 0 [DView 0 [1; 2]; DVals [0; 1]%Z];                (* c1 = c0.iloc[1:] *)
    SExpose 1 0;                                               (* a2 = c1.values *)
    SWrite 2 0 99%Z;                                           (* raises *)
    SConstruct [FromCaller RFilter 2];                         (* c2 built from the read-only exposed array: shared *)
    SDerive 2 (pickle_dsrcs_from 0 [true]);                    (* c3 = pickle round trip *)
    SDerive 0 (deep_dsrcs 2);                                  (* c4 = deepcopy *)
    SNew [1; 2]%Z; SConstruct [FromCaller ROwn 3];             (* c5 = Frame(a3, own_data=True) *)
    SWrite 3 0 5%Z; SFail ].

Example example_guarded :
  guarded w0 example_history = true /\
  conts_obs (M_run w0 example_history) =
    [ [([30; 20; 10]%Z, false); ([0; 1; 2]%Z, false)];
      [([20; 10]%Z, false); ([0; 1]%Z, false)];
      [([20; 10]%Z, false)];
      [([20; 10]%Z, false)];
      [([30; 20; 10]%Z, false); ([0; 1; 2]%Z, false)];
      [([1; 2]%Z, false)] ] /\
  callers_obs (M_run w0 example_history) =
    [ ([-7; 20; 30]%Z, true); ([30; 20; -7]%Z, true); ([20; 10]%Z, false); ([1; 2]%Z, false) ].
Proof. vm_compute. repeat split; reflexivity. Qed.
