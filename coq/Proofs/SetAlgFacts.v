(* C06 -- set algebra facts: every path of util._ufunc_set_1d/_2d and of Index._ufunc_set yields exactly
   the labels set algebra prescribes, each once; identical operands keep their order. *)
Require Import SF.Prelude SF.SetAlg.

Section Basic.
Variable A : Type.
Variable eqb : A -> A -> bool.
Hypothesis eqb_spec : forall x y, eqb x y = true <-> x = y.

Notation mem := (mem A eqb).
Notation dedup := (dedup A eqb).

Lemma eqb_refl x : eqb x x = true.
Proof. apply eqb_spec. reflexivity. Qed.

Lemma eqb_false x y : eqb x y = false <-> x <> y.
Proof.
  split.
  - intros H E. apply eqb_spec in E. congruence.
  - intros H. destruct (eqb x y) eqn:E; [|reflexivity]. apply eqb_spec in E. contradiction.
Qed.

Lemma mem_In x l : mem x l = true <-> In x l.
Proof.
  induction l as [|y t IH]; cbn.
  - split; [discriminate | tauto].
  - rewrite orb_true_iff, IH, eqb_spec. split; intros [H|H]; auto.
Qed.

Lemma mem_false x l : mem x l = false <-> ~ In x l.
Proof.
  rewrite <- mem_In. destruct (mem x l); split.
  - discriminate.
  - intros H. exfalso. apply H. reflexivity.
  - intros _ H. discriminate.
  - reflexivity.
Qed.

Lemma list_eqb_spec (a b : list A) : list_eqb eqb a b = true <-> a = b.
Proof. apply list_eqb_eq. exact eqb_spec. Qed.

(* ---- dedup ---- *)
Lemma In_dedup x l : In x (dedup l) <-> In x l.
Proof.
  induction l as [|y t IH]; cbn; [tauto|].
  rewrite filter_In, IH, negb_true_iff, eqb_false.
  split.
  - intros [H|[H _]]; auto.
  - intros [H|H]; auto. destruct (eqb x y) eqn:E.
    + apply eqb_spec in E. auto.
    + apply eqb_false in E. auto.
Qed.

Lemma NoDup_filter (f : A -> bool) l : NoDup l -> NoDup (filter f l).
Proof.
  induction 1 as [|x l Hx Hl IH]; cbn; [constructor|].
  destruct (f x); [constructor|]; auto. rewrite filter_In. tauto.
Qed.

Lemma NoDup_dedup l : NoDup (dedup l).
Proof.
  induction l as [|y t IH]; cbn; constructor.
  - rewrite filter_In, negb_true_iff, eqb_false. intros [_ H]. congruence.
  - apply NoDup_filter. exact IH.
Qed.

Lemma filter_id (f : A -> bool) l : (forall x, In x l -> f x = true) -> filter f l = l.
Proof.
  induction l as [|y t IH]; cbn; intros H; [reflexivity|].
  rewrite (H y) by auto. f_equal. apply IH. auto.
Qed.

Lemma dedup_NoDup l : NoDup l -> dedup l = l.
Proof.
  induction 1 as [|x l Hx Hl IH]; cbn; [reflexivity|].
  rewrite IH. f_equal. apply filter_id. intros y Hy.
  rewrite negb_true_iff, eqb_false. congruence.
Qed.

(* ---- the specification is set algebra, each label once ---- *)
Lemma S_set_spec op a b :
  NoDup (S_set A eqb op a b) /\ forall x, In x (S_set A eqb op a b) <-> set_sem A op a b x.
Proof.
  destruct op; cbn.
  - split; [apply NoDup_dedup|]. intros x. rewrite In_dedup, in_app_iff. tauto.
  - split; [apply NoDup_filter, NoDup_dedup|]. intros x.
    rewrite filter_In, In_dedup, mem_In. tauto.
  - split; [apply NoDup_filter, NoDup_dedup|]. intros x.
    rewrite filter_In, In_dedup, negb_true_iff, mem_false. tauto.
Qed.

Lemma is_nil_spec (l : list A) : is_nil A l = true <-> l = [].
Proof. destruct l; cbn; split; congruence. Qed.

End Basic.

Section Sort.
Variable A : Type.
Variable leb : A -> A -> bool.
Notation isort := (isort A leb).
Notation insert := (insert A leb).

(* ---- insertion sort is a permutation, whatever [leb] is ---- *)
Lemma insert_perm x l : Permutation (insert x l) (x :: l).
Proof.
  induction l as [|y t IH]; cbn; [reflexivity|].
  destruct (leb x y); [reflexivity|].
  rewrite IH. apply perm_swap.
Qed.

Lemma isort_perm l : Permutation (isort l) l.
Proof.
  induction l as [|x t IH]; cbn; [reflexivity|].
  rewrite insert_perm. constructor. exact IH.
Qed.

Lemma In_isort x l : In x (isort l) <-> In x l.
Proof.
  split; apply Permutation_in; [|symmetry]; apply isort_perm.
Qed.

Lemma NoDup_isort l : NoDup l -> NoDup (isort l).
Proof.
  intros H. eapply Permutation_NoDup; [symmetry; apply isort_perm | exact H].
Qed.

End Sort.

Section Facts.
Variable A : Type.
Variable eqb : A -> A -> bool.
Variable leb : A -> A -> bool.
Variable sortable : list A -> bool.
Hypothesis eqb_spec : forall x y, eqb x y = true <-> x = y.

Notation mem := (mem A eqb).
Notation dedup := (dedup A eqb).
Notation isort := (isort A leb).
Notation mem_In := (mem_In A eqb eqb_spec).
Notation mem_false := (mem_false A eqb eqb_spec).
Notation list_eqb_spec := (list_eqb_spec A eqb eqb_spec).
Notation In_dedup := (In_dedup A eqb eqb_spec).
Notation NoDup_dedup := (NoDup_dedup A eqb eqb_spec).
Notation NoDup_filter := (NoDup_filter A).
Notation S_set_spec := (S_set_spec A eqb eqb_spec).
Notation is_nil_spec := (is_nil_spec A).
Notation In_isort := (In_isort A leb).
Notation NoDup_isort := (NoDup_isort A leb).

(* ---- ORACLE sanity: the NumPy routines as modelled are set algebra (under their own contract:
   assume_unique is a promise that the operands have no repeats) ---- *)
Lemma np_set1d_spec op au a b :
  (au = true -> NoDup a /\ NoDup b) ->
  NoDup (np_set1d A eqb leb op au a b) /\
  forall x, In x (np_set1d A eqb leb op au a b) <-> set_sem A op a b x.
Proof.
  intros Hau. destruct op; cbn.
  - split; [apply NoDup_isort, NoDup_dedup|]. intros x.
    rewrite In_isort, In_dedup, in_app_iff. tauto.
  - split; [apply NoDup_isort, NoDup_filter, NoDup_dedup|]. intros x.
    rewrite In_isort, filter_In, In_dedup, mem_In. tauto.
  - destruct au.
    + destruct (Hau eq_refl) as [Ha _]. split; [apply NoDup_filter, Ha|]. intros x.
      rewrite filter_In, negb_true_iff, mem_false. tauto.
    + split; [apply NoDup_isort, NoDup_filter, NoDup_dedup|]. intros x.
      rewrite In_isort, filter_In, In_dedup, negb_true_iff, mem_false. tauto.
Qed.

Lemma obj_set1d_spec op a b :
  NoDup (snd (obj_set1d A eqb leb sortable op a b)) /\
  forall x, In x (snd (obj_set1d A eqb leb sortable op a b)) <-> set_sem A op a b x.
Proof.
  unfold obj_set1d. destruct (S_set_spec op a b) as [Hn Hi].
  destruct (sortable _); cbn.
  - split; [apply NoDup_isort, Hn|]. intros x. rewrite In_isort. apply Hi.
  - split; assumption.
Qed.

(* ---- MAIN: every path of util._ufunc_set_1d/_2d ---- *)
Theorem M_ufunc_set_spec op au objpath a b :
  (au = true -> NoDup a /\ NoDup b) ->
  let r := snd (M_ufunc_set A eqb leb sortable op au objpath a b) in
  NoDup r /\ forall x, In x r <-> set_sem A op a b x.
Proof.
  intros Hau. cbv zeta. unfold M_ufunc_set.
  destruct (early_exit A op a b) eqn:Eearly.
  { cbn. split; [constructor|]. intros x. split; [intros []|].
    destruct op; cbn in *; try discriminate.
    - apply orb_true_iff in Eearly as [E|E]; apply is_nil_spec in E; subst; cbn; tauto.
    - apply is_nil_spec in Eearly. subst. cbn. tauto. }
  destruct (au && setop_eqb op OpUnion && is_nil A a) eqn:E1.
  { apply andb_true_iff in E1 as [E1 Ea]. apply andb_true_iff in E1 as [Eau Eop].
    apply is_nil_spec in Ea. subst a. destruct op; try discriminate. cbn.
    destruct (Hau Eau) as [_ Hb]. split; [exact Hb|]. tauto. }
  destruct (au && setop_eqb op OpUnion && is_nil A b) eqn:E2.
  { apply andb_true_iff in E2 as [E2 Eb]. apply andb_true_iff in E2 as [Eau Eop].
    apply is_nil_spec in Eb. subst b. destruct op; try discriminate. cbn.
    destruct (Hau Eau) as [Ha _]. split; [exact Ha|]. tauto. }
  destruct (au && setop_eqb op OpDiff && is_nil A b) eqn:E3.
  { apply andb_true_iff in E3 as [E3 Eb]. apply andb_true_iff in E3 as [Eau Eop].
    apply is_nil_spec in Eb. subst b. destruct op; try discriminate. cbn.
    destruct (Hau Eau) as [Ha _]. split; [exact Ha|]. tauto. }
  destruct (au && (Z.of_nat (length a) =? Z.of_nat (length b)) && list_eqb eqb a b) eqn:E4.
  { apply andb_true_iff in E4 as [E4 Eab]. apply andb_true_iff in E4 as [Eau _].
    apply list_eqb_spec in Eab. subst b. destruct (Hau Eau) as [Ha _].
    destruct op; cbn.
    - split; [exact Ha|]. tauto.
    - split; [exact Ha|]. tauto.
    - split; [constructor|]. tauto. }
  destruct objpath.
  - apply obj_set1d_spec.
  - cbn. apply np_set1d_spec. exact Hau.
Qed.

(* identical operands keep their order (this is what the assume_unique shortcut is for) *)
Theorem M_ufunc_set_identical op objpath a :
  M_ufunc_set A eqb leb sortable op true objpath a a =
  (true, match op with OpDiff => [] | _ => a end).
Proof.
  unfold M_ufunc_set.
  destruct a as [|x t].
  - destruct op; reflexivity.
  - assert (E : list_eqb eqb (x :: t) (x :: t) = true) by (apply list_eqb_spec; reflexivity).
    destruct op; cbn -[list_eqb Z.of_nat]; rewrite E, Z.eqb_refl; reflexivity.
Qed.

(* ---- Index._ufunc_set ---- *)
Theorem M_index_set_spec op k same_dtype objpath a b :
  NoDup a -> (operand_unique k = true -> NoDup b) ->
  let r := snd (M_index_set A eqb leb sortable op k same_dtype objpath a b) in
  NoDup r /\ forall x, In x r <-> set_sem A op a b x.
Proof.
  intros Ha Hb. cbv zeta. unfold M_index_set.
  destruct (is_index k && same_dtype && (Z.of_nat (length a) =? Z.of_nat (length b)) && list_eqb eqb a b) eqn:E.
  - apply andb_true_iff in E as [_ Eab]. apply list_eqb_spec in Eab. subst b.
    destruct op; cbn; (split; [first [exact Ha | constructor]|]); tauto.
  - apply M_ufunc_set_spec. intros Hu. split; [exact Ha | apply Hb, Hu].
Qed.

(* identical Index operands: union and intersection ARE the left operand, in its order; the
   difference is empty -- whichever of the two shortcuts (Index.equals with equal dtypes, or the
   element-wise comparison inside util when the dtypes differ) fires *)
Theorem M_index_set_identical op same_dtype objpath a :
  M_index_set A eqb leb sortable op OperandIndex same_dtype objpath a a =
  (true, match op with OpDiff => [] | _ => a end).
Proof.
  unfold M_index_set.
  destruct (is_index OperandIndex && same_dtype && _ && _); [reflexivity|].
  apply M_ufunc_set_identical.
Qed.

(* the implementation model refines the specification: same labels, each once *)
Theorem M_index_set_refines_S op k same_dtype objpath a b :
  NoDup a -> (operand_unique k = true -> NoDup b) ->
  Permutation (snd (M_index_set A eqb leb sortable op k same_dtype objpath a b)) (S_set A eqb op a b).
Proof.
  intros Ha Hb.
  destruct (M_index_set_spec op k same_dtype objpath a b Ha Hb) as [Hn Hi].
  destruct (S_set_spec op a b) as [Hn' Hi'].
  apply NoDup_Permutation; try assumption.
  intros x. rewrite Hi, Hi'. tauto.
Qed.

(* util.ufunc_set_iter: the fold over many unique arrays is the n-ary union / intersection *)
Theorem M_set_iter_spec union objpath rest acc :
  NoDup acc -> Forall (@NoDup A) rest ->
  let r := M_set_iter A eqb leb sortable union true objpath acc rest in
  NoDup r /\ forall x, In x r <->
    if union then In x acc \/ Exists (In x) rest else In x acc /\ Forall (In x) rest.
Proof.
  cbv zeta. revert acc. induction rest as [|y t IH]; intros acc Hacc Hrest; cbn.
  - split; [exact Hacc|]. intros x. destruct union.
    + split; [tauto|]. intros [H|H]; [exact H | inversion H].
    + split; [intros H; split; [exact H | constructor] | tauto].
  - inversion Hrest as [|? ? Hy Ht]; subst.
    pose proof (M_ufunc_set_spec (if union then OpUnion else OpInter) true objpath acc y
                  (fun _ => conj Hacc Hy)) as [Hn Hi]. cbv zeta in Hn, Hi.
    set (r := snd (M_ufunc_set A eqb leb sortable (if union then OpUnion else OpInter) true objpath acc y)) in *.
    destruct (negb union && is_nil A r) eqn:Estop.
    + apply andb_true_iff in Estop as [Eu En]. apply is_nil_spec in En.
      destruct union; [discriminate|]. split; [exact Hn|].
      intros x. rewrite En. split; [intros []|]. intros [Hx Hall].
      inversion Hall; subst. rewrite <- En. apply Hi. cbn. tauto.
    + destruct (IH r Hn Ht) as [Hn2 Hi2]. split; [exact Hn2|].
      intros x. rewrite Hi2. destruct union; cbn in Hi.
      * rewrite Hi. rewrite Exists_cons. tauto.
      * rewrite Hi. rewrite Forall_cons_iff. tauto.
Qed.

End Facts.
