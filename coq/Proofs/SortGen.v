(* C12 -- the refinement theorems instantiated at what the SOURCE says (Gen/Gen_c12.v, regenerated
   on every run): they compile only while the regenerated loop directions, lexsort threshold,
   order[::-1] statements and kind defaults are the ones the theorems need. *)
Require Import SF.Prelude SF.Dtype SF.Value SF.PyDyn SF.SortCore SF.SortModel.
Require Import Proofs.SortStable Proofs.SortLex Proofs.SortRefine Proofs.SortCache Gen.Gen_util Gen.Gen_c12.

Lemma code_params_good : code_params = good_params.
Proof. reflexivity. Qed.

Lemma default_kinds_stable :
  forallb (fun p => kind_is_stable (snd p)) sort_kind_defaults = true /\
  length sort_kind_defaults = 7%nat /\
  kind_is_stable DEFAULT_SORT_KIND = true /\ kind_is_stable DEFAULT_STABLE_SORT_KIND = true.
Proof. repeat split; vm_compute; reflexivity. Qed.

Lemma code_sifo_index_refines : forall depth labels asc,
  M_sifo_top code_params depth labels None asc = Ok (S_order (index_keys depth labels) (length labels) asc).
Proof. rewrite code_params_good. exact sifo_index_refines. Qed.

Lemma code_sifo_key_refines : forall depth labels c asc, sifo_dom (length labels) c = true ->
  M_sifo_top code_params depth labels (Some c) asc = Ok (S_order (cfs_keys c) (length labels) asc).
Proof. rewrite code_params_good. exact sifo_key_refines. Qed.

Lemma code_frame_sort_values_refines : forall axis f sel single keyres asc,
  (axis = 1 \/ axis = 0) ->
  let c := fsv_cfs axis (sf_obs f) sel single keyres in
  let n := fsv_n axis (sf_obs f) in
  fsv_dom n c = true ->
  fsv_zero_ok axis (sf_obs f) keyres = true ->
  fsv_hier_ok axis f (S_order (cfs_keys c) n asc) = true ->
  M_frame_sort_values code_params axis f sel single keyres asc =
  Ok (S_frame_sort axis (sf_obs f) (cfs_keys c) asc).
Proof. rewrite code_params_good. exact frame_sort_values_refines. Qed.

Lemma code_frame_sort_index_refines : forall f asc,
  let keys := index_keys (sf_idepth f) (of_index (sf_obs f)) in
  hier_ok (sf_idepth f) (of_index (sf_obs f)) (S_order keys (length (of_index (sf_obs f))) asc) = true ->
  M_frame_sort_index code_params f None asc = Ok (S_frame_sort 1 (sf_obs f) keys asc).
Proof. rewrite code_params_good. exact frame_sort_index_refines. Qed.

Lemma code_frame_sort_columns_refines : forall f asc,
  let keys := index_keys (sf_cdepth f) (of_columns (sf_obs f)) in
  hier_ok (sf_cdepth f) (of_columns (sf_obs f)) (S_order keys (length (of_columns (sf_obs f))) asc) = true ->
  M_frame_sort_columns code_params f None asc = Ok (S_frame_sort 0 (sf_obs f) keys asc).
Proof. rewrite code_params_good. exact frame_sort_columns_refines. Qed.

Lemma code_series_sort_index_refines : forall s asc,
  let keys := index_keys (ss_idepth s) (os_index (ss_obs s)) in
  hier_ok (ss_idepth s) (os_index (ss_obs s)) (S_order keys (length (os_index (ss_obs s))) asc) = true ->
  M_series_sort_index code_params s None asc = Ok (S_series_sort (ss_obs s) keys asc).
Proof. rewrite code_params_good. exact series_sort_index_refines. Qed.

Lemma code_series_sort_values_refines : forall s keyres asc,
  length (os_values (ss_obs s)) = length (os_index (ss_obs s)) ->
  let v := match keyres with Some c => hd [] (cfs_keys c) | None => os_values (ss_obs s) end in
  hier_ok (ss_idepth s) (os_index (ss_obs s)) (S_order [v] (length (os_index (ss_obs s))) asc) = true ->
  M_series_sort_values code_params s keyres asc =
  if (length v =? length (os_index (ss_obs s)))%nat then Ok (S_series_sort (ss_obs s) [v] asc)
  else Err "RuntimeError".
Proof. rewrite code_params_good. exact series_sort_values_refines. Qed.

Lemma code_index_sort_refines : forall depth labels asc,
  let keys := index_keys depth labels in
  hier_ok depth labels (S_order keys (length labels) asc) = true ->
  M_index_sort code_params depth labels None asc = Ok (S_index_sort labels keys asc).
Proof. rewrite code_params_good. exact index_sort_refines. Qed.

Lemma code_frame_sort_values_rejects_wrong_length : forall axis f sel single c asc, (axis = 1 \/ axis = 0) ->
  cfs_len c <> fsv_n axis (sf_obs f) ->
  M_frame_sort_values code_params axis f sel single (Some c) asc = Err "RuntimeError".
Proof. rewrite code_params_good. exact frame_sort_values_rejects_wrong_length. Qed.

Lemma code_sort_index_family_rejects_wrong_length : forall c asc,
  (forall f, cfs_len c <> length (of_index (sf_obs f)) -> M_frame_sort_index code_params f (Some c) asc = Err "RuntimeError") /\
  (forall f, cfs_len c <> length (of_columns (sf_obs f)) -> M_frame_sort_columns code_params f (Some c) asc = Err "RuntimeError") /\
  (forall s, cfs_len c <> length (os_index (ss_obs s)) -> M_series_sort_index code_params s (Some c) asc = Err "RuntimeError") /\
  (forall depth labels, cfs_len c <> length labels -> M_index_sort code_params depth labels (Some c) asc = Err "RuntimeError").
Proof. rewrite code_params_good. exact sort_index_family_rejects_wrong_length. Qed.

Lemma code_cache_params_good : code_cache_params = good_cache_params.
Proof. reflexivity. Qed.

(* grow-only hierarchical index, any history: the lexsort keys are those of the current labels *)
Lemma code_ih_key_vectors_current : forall ops st depth, ih_coherent st -> (2 <= depth)%nat ->
  ih_key_vectors code_cache_params (ih_run code_cache_params ops st) depth =
  index_keys depth (ih_labels st ++ flat_map ih_op_labels ops).
Proof. rewrite code_cache_params_good. exact ih_key_vectors_current. Qed.

Example ex_stale_cache_drops_labels :
  ih_key_vectors (mk_cache_params RefreshOnMissingTable true true)
    (ih_run (mk_cache_params RefreshOnMissingTable true true) [IhAppend (VTup [VStr "a"; VInt 9])]
            (mk_ih_state [VTup [VStr "b"; VInt 2]] (Some [VTup [VStr "b"; VInt 2]]) false)) 2
  = [[VStr "b"]; [VInt 2]].
Proof. vm_compute. reflexivity. Qed.

(* non-trivial instances (the guards are satisfiable; ties, NaN, negative keys, two key columns) *)
Example ex_order_two_keys :
  S_order [[VInt 1; VInt 0; VInt 1; VInt 1]; [VStr "x"; VStr "x"; VStr "a"; VStr "a"]] 4 true = [1; 2; 3; 0]%nat.
Proof. vm_compute. reflexivity. Qed.

Example ex_order_nan_last_desc :
  S_order [[VFlt 2 1; VNaN; VFlt (-3) 2; VFlt 2 1]] 4 false = [1; 3; 0; 2]%nat.
Proof. vm_compute. reflexivity. Qed.

Example ex_hier_guard_holds :
  hier_ok 2 [VTup [VStr "b"; VInt 2]; VTup [VStr "b"; VInt 1]; VTup [VStr "a"; VInt 5]]
          (S_order (index_keys 2 [VTup [VStr "b"; VInt 2]; VTup [VStr "b"; VInt 1]; VTup [VStr "a"; VInt 5]]) 3 true) = true.
Proof. vm_compute. reflexivity. Qed.
