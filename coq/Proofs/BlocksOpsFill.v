(* C03, part 5: operations whose block-wise decision IS observable -- refinement under the explicit guard that
   makes it unobservable (the witnesses that the guard is needed are in Refuted/C03.v). *)
Require Import SF.Prelude SF.PySlice SF.Dtype SF.Blocks SF.BlocksOps Proofs.BlocksSelect Proofs.BlocksOps.

Section FillProofs.
Context {A : Type}.
Notation block := (block A).
Notation tb := (tb A).
Notation column := (dtype * list A)%type.

Variable resolve : dtype -> dtype -> dtype.
Variable cast : dtype -> dtype -> A -> A.
Variable na : A -> bool.
Variable fill : A.
Variable fill_dt : dtype.

Lemma fill_no_na d (c : list A) : existsb na c = false -> map (fill_cell cast na fill fill_dt d d) c = c.
Proof.
  induction c as [|x c IH]; [reflexivity|]. cbn [existsb]. intros H. apply orb_false_iff in H as [Hx Hc].
  cbn [map]. rewrite (IH Hc). unfold fill_cell. rewrite Hx, dtype_eqb_refl. reflexivity.
Qed.

Lemma fill_column_fits d (c : list A) : resolve fill_dt d = d ->
  fill_column resolve cast na fill fill_dt (d, c) = (d, map (fill_cell cast na fill fill_dt d d) c).
Proof.
  intros Hf. unfold fill_column. cbn [fst snd]. rewrite Hf.
  destruct (existsb na c) eqn:E; [reflexivity|]. now rewrite fill_no_na.
Qed.

(* fillna through the blocks = fillna per column, provided the fill value fits every block's dtype *)
Theorem fillna_refines (t : tb) : fill_fits resolve fill_dt t ->
  flatten (M_fillna resolve cast na fill fill_dt t) = S_fillna resolve cast na fill fill_dt (flatten t).
Proof.
  unfold M_fillna, S_fillna. induction 1 as [|b t Hb _ IH]; [reflexivity|].
  cbn [map]. rewrite !flatten_cons, map_app, IH. f_equal.
  unfold block_columns at 2. rewrite map_map.
  rewrite (map_ext _ (fun c => (b_dtype b, map (fill_cell cast na fill fill_dt (b_dtype b) (b_dtype b)) c)))
    by (intros c; apply fill_column_fits; exact Hb).
  unfold fill_block. destruct (existsb (existsb na) (b_cols b)) eqn:E.
  - rewrite Hb. unfold block_columns. cbn [b_dtype b_cols]. rewrite map_map. reflexivity.
  - unfold block_columns. apply map_ext_in. intros c Hc. f_equal. symmetry. apply fill_no_na.
    destruct (existsb na c) eqn:Ec; [|reflexivity].
    assert (existsb (existsb na) (b_cols b) = true) by (apply existsb_exists; exists c; split; assumption). congruence.
Qed.

Corollary fillna_layout_independent (t1 t2 : tb) : fill_fits resolve fill_dt t1 -> fill_fits resolve fill_dt t2 ->
  flatten t1 = flatten t2 ->
  flatten (M_fillna resolve cast na fill fill_dt t1) = flatten (M_fillna resolve cast na fill fill_dt t2).
Proof. intros H1 H2 E. rewrite !fillna_refines by assumption. now rewrite E. Qed.

(* dropna(axis=1): the columns to keep, for every layout *)
Lemma flat_map_cols_flatten (t : tb) : flat_map b_cols t = map snd (flatten t).
Proof.
  induction t as [|b t IH]; [reflexivity|]. cbn [flat_map]. rewrite flatten_cons, map_app, IH. f_equal.
  unfold block_columns. rewrite map_map. cbn [snd]. now rewrite map_id.
Qed.

Theorem dropna_keep_refines (cond : list bool -> bool) (t : tb) :
  M_dropna_keep_columns na cond t = S_dropna_keep_columns na cond (flatten t).
Proof.
  unfold M_dropna_keep_columns, S_dropna_keep_columns.
  assert (H : map (fun c => negb (cond (map na c))) (flat_map b_cols t) = map (fun c => negb (cond (map na (snd c)))) (flatten t))
    by (rewrite flat_map_cols_flatten, map_map; reflexivity).
  destruct t as [|b [|b2 r]]; try exact H. cbn [flat_map] in H. rewrite app_nil_r in H. exact H.
Qed.

End FillProofs.
