(* C02 -- instantiation of the flat index theorems at SF.Value.val (labels as the harness sees them). *)
Require Import SF.Prelude SF.Dtype SF.Value SF.PySlice SF.IndexBij SF.IndexBijVal
  Proofs.IndexBijFacts Proofs.IndexBijMain.

Lemma tunit_eqb_eq a b : tunit_eqb a b = true -> a = b.
Proof. destruct a, b; cbn; intros H; try reflexivity; discriminate. Qed.

Lemma val_eqb_true : forall a b, val_eqb a b = true -> a = b.
Proof.
  fix IH 1. intros [z|b|s|n d|b| | | |u z|u z|s|l] [z'|b'|s'|n' d'|b'| | | |u' z'|u' z'|s'|l'];
    cbn; intros H; try discriminate; try reflexivity.
  - apply Z.eqb_eq in H. congruence.
  - apply Bool.eqb_prop in H. congruence.
  - apply String.eqb_eq in H. congruence.
  - apply andb_true_iff in H as [H1 H2]. apply Z.eqb_eq in H1, H2. congruence.
  - apply Bool.eqb_prop in H. congruence.
  - apply andb_true_iff in H as [H1 H2]. apply tunit_eqb_eq in H1. apply Z.eqb_eq in H2. congruence.
  - apply andb_true_iff in H as [H1 H2]. apply tunit_eqb_eq in H1. apply Z.eqb_eq in H2. congruence.
  - apply String.eqb_eq in H. congruence.
  - f_equal. revert l' H. induction l as [|x xs IHl]; intros [|y ys] H; try discriminate; [reflexivity|].
    apply andb_true_iff in H as [H1 H2]. apply IH in H1. apply IHl in H2. congruence.
Qed.

Lemma val_eqb_spec a b : val_eqb a b = true <-> a = b.
Proof. split; [apply val_eqb_true | intros ->; apply val_eqb_refl]. Qed.

Lemma vto_of z : vto_Z (VInt z) = Some z.
Proof. reflexivity. Qed.

Lemma vof_to c z : vto_Z c = Some z -> c = VInt z.
Proof. destruct c; cbn; intros H; try discriminate. congruence. Qed.

(* ---- the theorems of IndexBijMain at val ---- *)
Definition v_index_refines := M_index_refines val val_eqb VInt vto_Z val_eqb_spec vto_of vof_to.
Definition v_index_accepts_iff := M_index_accepts_iff val val_eqb VInt vto_Z val_eqb_spec vto_of vof_to.
Definition v_index_bijection := M_index_bijection val val_eqb VInt vto_Z val_eqb_spec vto_of vof_to.
Definition v_list_refines := M_list_refines val val_eqb VInt vto_Z val_eqb_spec vto_of vof_to.
Definition v_slice_refines := M_slice_refines val val_eqb VInt vto_Z val_eqb_spec vto_of vof_to.
Definition v_auto_refines := M_auto_refines val val_eqb VInt vto_Z val_eqb_spec vto_of vof_to.
Definition v_auto_bijection := M_auto_bijection val val_eqb VInt vto_Z val_eqb_spec vto_of vof_to.
