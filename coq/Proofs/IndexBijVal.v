(* C02 -- instantiation of the flat index theorems at SF.Value.val (labels as the harness sees them). *)
Require Import SF.Prelude SF.Dtype SF.Value SF.PySlice SF.IndexBij SF.IndexBijVal
  Proofs.IndexBijFacts Proofs.IndexBijMain.

Lemma tunit_eqb_eq a b : tunit_eqb a b = true -> a = b.
Proof. destruct a, b; cbn; intros H; try reflexivity; discriminate. Qed.

Lemma val_eqb_true : forall a b, val_eqb a b = true -> a = b.
Proof.
  fix IH 1. intros [z|b|s|n d|b| | | |u z|u z|s|l] [z'|b'|s'|n' d'|b'| | | |u' z'|u' z'|s'|l'];
    cbn; intros H; try discriminate; try reflexivity.
  - apply Z.eqb_eq in H. congruence.
  - apply Bool.eqb_prop in H. congruence.
  - apply String.eqb_eq in H. congruence.
  - apply andb_true_iff in H as [H1 H2]. apply Z.eqb_eq in H1, H2. congruence.
  - apply Bool.eqb_prop in H. congruence.
  - apply andb_true_iff in H as [H1 H2]. apply tunit_eqb_eq in H1. apply Z.eqb_eq in H2. congruence.
  - apply andb_true_iff in H as [H1 H2]. apply tunit_eqb_eq in H1. apply Z.eqb_eq in H2. congruence.
  - apply String.eqb_eq in H. congruence.
  - f_equal. revert l' H. induction l as [|x xs IHl]; intros [|y ys] H; try discriminate; [reflexivity|].
    apply andb_true_iff in H as [H1 H2]. apply IH in H1. apply IHl in H2. congruence.
Qed.

Lemma val_eqb_spec a b : val_eqb a b = true <-> a = b.
Proof. split; [apply val_eqb_true | intros ->; apply val_eqb_refl]. Qed.

Lemma vto_of z : vto_Z (VInt z) = Some z.
Proof. reflexivity. Qed.

Lemma vof_to c z : vto_Z c = Some z -> c = VInt z.
Proof. destruct c; cbn; intros H; try discriminate. congruence. Qed.

(* ---- the theorems of IndexBijMain at val ---- *)
Definition v_index_refines := M_index_refines val val_eqb VInt vto_Z val_eqb_spec vto_of vof_to.
Definition v_index_accepts_iff := M_index_accepts_iff val val_eqb VInt vto_Z val_eqb_spec vto_of vof_to.
Definition v_index_bijection := M_index_bijection val val_eqb VInt vto_Z val_eqb_spec vto_of vof_to.
Definition v_list_refines := M_list_refines val val_eqb VInt vto_Z val_eqb_spec vto_of vof_to.
Definition v_slice_refines := M_slice_refines val val_eqb VInt vto_Z val_eqb_spec vto_of vof_to.
Definition v_auto_refines := M_auto_refines val val_eqb VInt vto_Z val_eqb_spec vto_of vof_to.
Definition v_auto_bijection := M_auto_bijection val val_eqb VInt vto_Z val_eqb_spec vto_of vof_to.

(* ---- grow-only ---- *)
Require Import Proofs.IndexBijGO.

Definition vgo_wf := go_wf val VInt.

Lemma v_go_start_wf (g : go val) :
  (exists l, M_go_init val_eqb l = Ok g) \/ (exists n, g = M_go_auto VInt n) -> vgo_wf g.
Proof.
  intros [[l H]|[n ->]].
  - apply (go_wf_init val val_eqb VInt vto_Z val_eqb_spec vto_of vof_to l g H).
  - apply (go_wf_auto val val_eqb VInt vto_Z val_eqb_spec vto_of vof_to n).
Qed.

Lemma v_go_history (g : go val) ops :
  (exists l, M_go_init val_eqb l = Ok g) \/ (exists n, g = M_go_auto VInt n) ->
  go_dom val_eqb vto_Z g ops = true ->
  vgo_wf (fst (M_go_run val_eqb vto_Z g ops)) /\
  (g_mut (fst (M_go_run val_eqb vto_Z g ops)), map is_ok (snd (M_go_run val_eqb vto_Z g ops)))
    = S_go_run val_eqb (g_mut g) ops.
Proof.
  intros S D. apply (go_run_refines val val_eqb VInt vto_Z val_eqb_spec vto_of vof_to ops g); [|exact D].
  apply v_go_start_wf. exact S.
Qed.

Definition v_go_labels_laws := S_go_run_laws val val_eqb VInt vto_Z val_eqb_spec vto_of vof_to.
Definition v_go_observe := go_observe_refines val val_eqb VInt vto_Z val_eqb_spec vto_of vof_to.

(* a history that promotes an auto-integer index to a mapped one, with a rejected float alias (1.0 on
   [0,1]: the regression input of the repaired finding C02-autogo-float-append), an extend rejected as a
   whole because one value is held, and an accepted extend *)
Example go_history_example :
  let ops := [OpAppend (VInt 1, KOther); OpAppend (VInt 2, KInt); OpAppend (VStr "x", KOther);
              OpAppend (VInt 2, KInt); OpTouch; OpExtend [(VInt 7, KInt); (VStr "x", KOther); (VInt 9, KInt)];
              OpExtend [(VInt 7, KInt); (VInt 9, KInt)]; OpExtend [(VInt 5, KInt); (VInt 5, KInt)]] in
  go_dom val_eqb vto_Z (M_go_auto VInt 2) ops = true /\
  S_go_run val_eqb (map VInt (iota 2)) ops
    = ([VInt 0; VInt 1; VInt 2; VStr "x"; VInt 7; VInt 9], [false; true; true; false; true; false; true; false]) /\
  g_mut (fst (M_go_run val_eqb vto_Z (M_go_auto VInt 2) ops)) = [VInt 0; VInt 1; VInt 2; VStr "x"; VInt 7; VInt 9].
Proof. vm_compute. repeat split; reflexivity. Qed.

(* the guard is needed: on a map-less index a float alias inside an extend passes the validation *)
Example go_dom_needed :
  let ops := [OpExtend [(VInt 5, KInt); (VInt 1, KOther)]] in
  go_dom val_eqb vto_Z (M_go_auto VInt 2) ops = false /\
  g_mut (fst (M_go_run val_eqb vto_Z (M_go_auto VInt 2) ops)) = [VInt 0; VInt 1; VInt 5] /\
  fst (S_go_run val_eqb (map VInt (iota 2)) ops) = [VInt 0; VInt 1].
Proof. vm_compute. repeat split; reflexivity. Qed.

Example auto_key_ok_example :
  forallb (auto_key_ok val vto_Z 3) [(VInt 0, KInt); (VInt 2, KInt); (VInt 3, KInt); (VInt (-1), KInt); (VInt (-4), KInt);
                                       (VInt 1, KBool); (VNone, KNone); (VStr "a", KOther); (VFlt 1 2, KOther);
                                       (VInt 3, KOther)] = true /\
  auto_key_ok val vto_Z 3 (VInt 1, KOther) = false.
Proof. split; reflexivity. Qed.

(* ---- derivations ---- *)
Require Import Proofs.IndexBijDerive.

Lemma v_accepts_NoDup (l : list val) : (exists ix, M_index_init val_eqb l = Ok ix) <-> NoDup l.
Proof.
  split.
  - intros [ix H]. apply (v_index_bijection l ix H).
  - apply (v_index_accepts_iff l).
Qed.

Lemma v_derive_select (l : list val) ps l' : NoDup l -> S_select l ps = Some l' ->
  ((exists ix, M_index_init val_eqb l' = Ok ix) <-> NoDup ps).
Proof. intros ND H. rewrite v_accepts_NoDup. apply (select_NoDup val val_eqb val_eqb_spec l ps l' ND H). Qed.

Lemma v_derive_drop (l : list val) ps : NoDup l ->
  (exists ix, M_index_init val_eqb (S_drop l ps) = Ok ix) /\
  forall x, In x (S_drop l ps) <-> exists j, nth_error l j = Some x /\ ~ In (Z.of_nat j) ps.
Proof. intros ND. rewrite v_accepts_NoDup. apply (drop_spec val val_eqb val_eqb_spec l ps ND). Qed.

Lemma v_derive_roll (l : list val) shift : NoDup l ->
  (exists ix, M_index_init val_eqb (S_roll l shift) = Ok ix) /\
  Permutation l (S_roll l shift) /\ length (S_roll l shift) = length l.
Proof. intros ND. rewrite v_accepts_NoDup. split; [apply (roll_NoDup val val_eqb val_eqb_spec); exact ND | apply (roll_perm val val_eqb val_eqb_spec)]. Qed.

(* Index(labels, dtype=d): when the conversion leaves every label equal to itself, this is the plain route *)
Lemma v_index_dtype_refines (l : list val) probes :
  M_index_dtype val_eqb vto_Z l l probes = S_index val_eqb l probes.
Proof. rewrite <- v_index_refines. reflexivity. Qed.
