(* C03, part 4: util.resolve_dtype regenerated from /repo (Gen.Gen_util.resolve_dtype) equals its typed form. *)
Require Import SF.Prelude SF.PySlice SF.Dtype SF.Value SF.PyDyn SF.Blocks SF.BlocksOps SF.BlocksOpsVal Gen.Gen_util.
Require Import Proofs.BlocksOps Proofs.BlocksOpsResolve.

(* ---------- the regenerated kernel equals the typed form ---------- *)
Lemma dtype_kind_str (d : dtype) (k : string) :
  pv_eqb (PStr (dtype_kind d)) (PStr k) = String.eqb (dtype_kind d) k.
Proof. reflexivity. Qed.

Theorem resolve_dtype_refines (a b : dtype) :
  resolve_dtype (PDtype a) (PDtype b) = PDtype (resolve_dtype_t a b).
Proof.
  destruct a, b.
  all: try (destruct u, u0; vm_compute; reflexivity).
  all: try (destruct u; vm_compute; reflexivity).
  all: try (vm_compute; reflexivity).
  all: try (destruct signed); try (destruct signed0).
  all: unfold resolve_dtype, resolve_dtype_t, rt.
  all: lazy -[Z.eqb Z.ltb Z.max Z.mul tunit_rank float_for_int].
  all: try reflexivity.
  all: fin.
Qed.
