(* C16 -- typed columns: genfromtxt's column inference followed by the StoreFilter gives back every column
   whose cell texts are unambiguous for their type (col_ok), whatever the kind. *)
Require Import SF.Prelude SF.Value SF.Dtype Gen.Gen_c16 SF.Codec Proofs.CodecTable.

(* ---- val_eqb decides equality ---- *)
Lemma tunit_eqb_eq : forall a b, tunit_eqb a b = true -> a = b.
Proof. intros a b H. destruct a, b; try reflexivity; vm_compute in H; discriminate. Qed.

Lemma val_eqb_eq : forall a b, val_eqb a b = true -> a = b.
Proof.
  fix IH 1. intros a b; destruct a as [z|x|s|n d|x| | | |u z|u z|s|l];
    destruct b as [z'|x'|s'|n' d'|x'| | | |u' z'|u' z'|s'|l']; cbn [val_eqb]; intro H; try discriminate; try reflexivity.
  - apply Z.eqb_eq in H. congruence.
  - apply Bool.eqb_prop in H. congruence.
  - apply String.eqb_eq in H. congruence.
  - apply andb_true_iff in H as [H1 H2]. apply Z.eqb_eq in H1, H2. congruence.
  - apply Bool.eqb_prop in H. congruence.
  - apply andb_true_iff in H as [H1 H2]. apply tunit_eqb_eq in H1. apply Z.eqb_eq in H2. congruence.
  - apply andb_true_iff in H as [H1 H2]. apply tunit_eqb_eq in H1. apply Z.eqb_eq in H2. congruence.
  - apply String.eqb_eq in H. congruence.
  - f_equal. revert l' H. induction l as [|x xs IHl]; intros [|y ys] H; try discriminate; [reflexivity|].
    apply andb_true_iff in H as [H1 H2]. f_equal; [apply IH; exact H1|apply IHl; exact H2].
Qed.

(* ---- option / res plumbing ---- *)
Lemma all_some_map_some {A B} (f : A -> option B) (g : A -> B) (l : list A) :
  (forall x, In x l -> f x = Some (g x)) -> all_some (map f l) = Some (map g l).
Proof.
  induction l as [|x l IH]; intro H; [reflexivity|].
  cbn [map all_some]. rewrite (H x (or_introl eq_refl)), IH; [reflexivity|].
  intros y Hy. apply H. right. exact Hy.
Qed.

Lemma all_some_none_in {A B} (f : A -> option B) (l : list A) x :
  In x l -> f x = None -> all_some (map f l) = None.
Proof.
  induction l as [|y l IH]; intros Hin Hx; [contradiction|].
  cbn [map all_some]. destruct Hin as [->|Hin].
  - rewrite Hx. reflexivity.
  - destruct (f y); [|reflexivity]. rewrite (IH Hin Hx). reflexivity.
Qed.

Lemma res_list_Ok {A} (l : list A) : res_list (map Ok l) = Ok l.
Proof. induction l as [|x l IH]; [reflexivity|]. cbn [map res_list]. rewrite IH. reflexivity. Qed.

Lemma existsb_map {A B} (p : B -> bool) (f : A -> B) (l : list A) :
  existsb p (map f l) = existsb (fun x => p (f x)) l.
Proof. induction l as [|x l IH]; cbn; [reflexivity|]. rewrite IH. reflexivity. Qed.

Lemma conv_is_eq : forall o v, conv_is o v = true -> o = Some (Ok v).
Proof.
  intros [[w|e]|] v H; cbn in H; try discriminate. apply val_eqb_eq in H. congruence.
Qed.

Lemma is_none_eq {A} (o : option A) : is_none o = true -> o = None.
Proof. destruct o; [discriminate|reflexivity]. Qed.

Lemma conv_bool_none_nonblank : forall s, conv_bool s = None -> blank s = false.
Proof. intros s H. unfold conv_bool in H. destruct (blank s); [discriminate|reflexivity]. Qed.

Lemma not_all_blank : forall (texts : list text) s, In s texts -> blank s = false -> forallb blank texts = false.
Proof.
  intros texts s Hin Hb. destruct (forallb blank texts) eqn:E; [|reflexivity].
  rewrite forallb_forall in E. rewrite (E s Hin) in Hb. discriminate.
Qed.

(* ---- StoreFilter on a str ---- *)
Lemma decode_str_plain : forall flt x, is_sentinel flt x = false -> decode_str flt x = VStr x.
Proof.
  intros flt x H. unfold is_sentinel in H.
  apply orb_false_iff in H as [H H4]. apply orb_false_iff in H as [H H3]. apply orb_false_iff in H as [H1 H2].
  unfold decode_str. rewrite H1, H2, H3, H4. reflexivity.
Qed.

Lemma st_tx : forall x, st (tx x) = x.
Proof. intro x. apply string_of_list_ascii_of_string. Qed.

(* ---- what genfromtxt returns for a good column, before the StoreFilter ---- *)
Definition raw_of (flt : sfilter) (c : kind * list val) : kind * list val :=
  match c with
  | (KStr, vs) | (KObj, vs) => (KStr, map (fun v => VStr (st (render_val flt v))) vs)
  | _ => c
  end.

Lemma col_ok_parts : forall flt k vs, col_ok flt (k, vs) = true ->
  (exists w, In w vs /\ witness k (render_val flt w) = true) /\
  (forall v, In v vs -> cell_ok flt k v = true).
Proof.
  intros flt k vs H. unfold col_ok in H.
  apply andb_true_iff in H as [H _]. apply andb_true_iff in H as [H1 H2].
  apply existsb_exists in H1. rewrite forallb_forall in H2. split; assumption.
Qed.

Lemma cell_ok_parts : forall flt k v, cell_ok flt k v = true ->
  renderable v = true /\
  match k with
  | KBool => blank (render_val flt v) = false /\ conv_bool (render_val flt v) = Some (Ok v)
  | KInt => conv_int (render_val flt v) = Some (Ok v)
  | KFlt => conv_float (render_val flt v) = Some (Ok v)
  | KStr => exists x, v = VStr x /\ is_sentinel flt x = false
  | KObj => decode_str flt (st (render_val flt v)) = v
  end.
Proof.
  intros flt k v H. unfold cell_ok in H. apply andb_true_iff in H as [Hr H]. split; [exact Hr|].
  destruct k.
  - apply andb_true_iff in H as [Hb H]. apply negb_true_iff in Hb. split; [exact Hb|apply conv_is_eq; exact H].
  - apply conv_is_eq. exact H.
  - apply conv_is_eq. exact H.
  - destruct v; try discriminate. eexists. split; [reflexivity|]. now apply negb_true_iff in H.
  - apply val_eqb_eq. exact H.
Qed.

Lemma infer_raw : forall flt k vs, col_ok flt (k, vs) = true ->
  infer_col (map (render_val flt) vs) = Ok (raw_of flt (k, vs)).
Proof.
  intros flt k vs H. pose proof H as H0.
  destruct (col_ok_parts _ _ _ H) as [[w [Hw Hwit]] Hcells].
  assert (Hin : In (render_val flt w) (map (render_val flt) vs)) by (apply in_map; exact Hw).
  unfold infer_col.
  destruct k; cbn [witness] in Hwit.
  - (* bool *)
    rewrite (not_all_blank _ _ Hin) by (now apply negb_true_iff in Hwit).
    assert (Hnb : existsb blank (map (render_val flt) vs) = false).
    { rewrite existsb_map. destruct (existsb _ vs) eqn:E; [|reflexivity].
      apply existsb_exists in E as [v [Hv E]]. destruct (cell_ok_parts _ _ _ (Hcells v Hv)) as [_ [Eb _]]. congruence. }
    rewrite map_map.
    rewrite (all_some_map_some _ (fun v => Ok v)).
    + rewrite Hnb, res_list_Ok. reflexivity.
    + intros v Hv. destruct (cell_ok_parts _ _ _ (Hcells v Hv)) as [_ [_ E]]. exact E.
  - (* int *)
    apply is_none_eq in Hwit.
    rewrite (not_all_blank _ _ Hin) by (apply conv_bool_none_nonblank; exact Hwit).
    rewrite (all_some_none_in conv_bool _ _ Hin Hwit).
    rewrite map_map. rewrite (all_some_map_some _ (fun v => Ok v)).
    + rewrite res_list_Ok. reflexivity.
    + intros v Hv. destruct (cell_ok_parts _ _ _ (Hcells v Hv)) as [_ E]. exact E.
  - (* float *)
    apply andb_true_iff in Hwit as [W1 W2]. apply is_none_eq in W1, W2.
    rewrite (not_all_blank _ _ Hin) by (apply conv_bool_none_nonblank; exact W1).
    rewrite (all_some_none_in conv_bool _ _ Hin W1), (all_some_none_in conv_int _ _ Hin W2).
    rewrite map_map. rewrite (all_some_map_some _ (fun v => Ok v)).
    + rewrite res_list_Ok. reflexivity.
    + intros v Hv. destruct (cell_ok_parts _ _ _ (Hcells v Hv)) as [_ E]. exact E.
  - (* str *)
    apply andb_true_iff in Hwit as [W W3]. apply andb_true_iff in W as [W1 W2]. apply is_none_eq in W1, W2, W3.
    rewrite (not_all_blank _ _ Hin) by (apply conv_bool_none_nonblank; exact W1).
    rewrite (all_some_none_in conv_bool _ _ Hin W1), (all_some_none_in conv_int _ _ Hin W2),
            (all_some_none_in conv_float _ _ Hin W3).
    unfold col_ok in H0. apply andb_true_iff in H0 as [_ H0]. apply negb_true_iff in H0. rewrite H0.
    cbn [raw_of]. rewrite map_map. reflexivity.
  - (* object: a str column for genfromtxt *)
    apply andb_true_iff in Hwit as [W W3]. apply andb_true_iff in W as [W1 W2]. apply is_none_eq in W1, W2, W3.
    rewrite (not_all_blank _ _ Hin) by (apply conv_bool_none_nonblank; exact W1).
    rewrite (all_some_none_in conv_bool _ _ Hin W1), (all_some_none_in conv_int _ _ Hin W2),
            (all_some_none_in conv_float _ _ Hin W3).
    unfold col_ok in H0. apply andb_true_iff in H0 as [_ H0]. apply andb_true_iff in H0 as [_ H0].
    apply negb_true_iff in H0. rewrite H0.
    cbn [raw_of]. rewrite map_map. reflexivity.
Qed.

Lemma filter_raw : forall flt k vs, col_ok flt (k, vs) = true ->
  filter_col flt (raw_of flt (k, vs)) = (k, vs).
Proof.
  intros flt k vs H. pose proof H as H0.
  destruct (col_ok_parts _ _ _ H) as [_ Hcells].
  destruct k; try reflexivity.
  - (* str *)
    cbn [raw_of filter_col]. rewrite existsb_map, map_map.
    assert (E1 : existsb (fun x => match VStr (st (render_val flt x)) with VStr s => is_sentinel flt s | _ => false end) vs = false).
    { destruct (existsb _ vs) eqn:E; [|reflexivity]. apply existsb_exists in E as [v [Hv E]].
      destruct (cell_ok_parts _ _ _ (Hcells v Hv)) as [_ [x [-> Hx]]].
      cbn [render_val] in E. rewrite st_tx in E. congruence. }
    rewrite E1. f_equal.
    apply map_id_in. intros v Hv.
    destruct (cell_ok_parts _ _ _ (Hcells v Hv)) as [_ [x [-> Hx]]].
    cbn [render_val]. rewrite st_tx. apply decode_str_plain. exact Hx.
  - (* object *)
    cbn [raw_of filter_col]. rewrite existsb_map, map_map.
    unfold col_ok in H0. apply andb_true_iff in H0 as [_ H0]. apply andb_true_iff in H0 as [H0 _].
    rewrite H0. f_equal.
    apply map_id_in. intros v Hv.
    destruct (cell_ok_parts _ _ _ (Hcells v Hv)) as [_ E]. exact E.
Qed.

(* THE typed-column lemma: inference + StoreFilter on the rendered cells of a good column is the column *)
Theorem decode_render_column : forall flt k vs, col_ok flt (k, vs) = true ->
  res_map (filter_col flt) (infer_col (map (render_val flt) vs)) = Ok (k, vs).
Proof.
  intros flt k vs H. rewrite (infer_raw flt k vs H). cbn [res_map]. rewrite (filter_raw flt k vs H). reflexivity.
Qed.

(* ---- column label cells ---- *)
Definition raw_label (flt : sfilter) (v : val) : val :=
  match infer_cell (render_val flt v) with Ok w => w | Err _ => VNone end.

Lemma label_cell_parts : forall flt dc v, label_cell_ok flt dc v = true ->
  infer_cell (render_val flt v) = Ok (raw_label flt v) /\
  (if label_filter_on dc then decode_label_cell flt (raw_label flt v) else raw_label flt v) = v.
Proof.
  intros flt dc v H. unfold label_cell_ok in H. apply andb_true_iff in H as [_ H].
  unfold raw_label. destruct (infer_cell (render_val flt v)) as [w|e]; [|discriminate].
  apply val_eqb_eq in H. split; [reflexivity|exact H].
Qed.
