(* C20 -- refinement: the composite (is_many) path of Frame._join, which finds matches by position and
   fetches every row back BY LABEL through the two indices, produces exactly the frame of the
   relational specification S_join -- for every join type, every cardinality, every table size. *)
Require Import SF.Prelude SF.RelJoin Proofs.RelJoinSpec.

(* ------------------------------------------------------------------ generic list facts *)
Lemma map_snd_combine_filter {X Y} (p : Y -> bool) : forall (T : list Y) (ns : list X),
  length ns = length T ->
  map snd (filter (fun jr => p (snd jr)) (combine ns T)) = filter p T.
Proof.
  induction T as [|t T IH]; intros [|n ns] H; cbn in *; try discriminate; try reflexivity.
  injection H as H. destruct (p t); cbn; rewrite IH by assumption; reflexivity.
Qed.

Lemma map_snd_combine {X Y} : forall (T : list Y) (ns : list X), length ns = length T -> map snd (combine ns T) = T.
Proof.
  induction T as [|t T IH]; intros [|n ns] H; cbn in *; try discriminate; try reflexivity.
  injection H as H. rewrite IH by assumption. reflexivity.
Qed.

Lemma map_snd_enumerate {X} (T : list X) : map snd (enumerate T) = T.
Proof. apply map_snd_combine. apply seq_length. Qed.

Lemma flat_map_map' {X Y Z} (f : X -> Y) (g : Y -> list Z) (l : list X) :
  flat_map g (map f l) = flat_map (fun x => g (f x)) l.
Proof. induction l as [|x l IH]; cbn; [reflexivity|rewrite IH; reflexivity]. Qed.

Lemma map_flat_map' {X Y Z} (f : Y -> Z) (g : X -> list Y) (l : list X) :
  map f (flat_map g l) = flat_map (fun x => map f (g x)) l.
Proof. induction l as [|x l IH]; cbn; [reflexivity|rewrite map_app, IH; reflexivity]. Qed.

Lemma flat_map_filter_nil {X Y} (g : X -> list Y) (p : X -> bool) (l : list X) :
  (forall x, p x = false -> g x = []) -> flat_map g (filter p l) = flat_map g l.
Proof.
  intros H. induction l as [|x l IH]; cbn; [reflexivity|].
  destruct (p x) eqn:E; cbn; rewrite IH; [reflexivity|rewrite (H x E); reflexivity].
Qed.

Lemma filter_map_comm {X Y} (f : X -> Y) (p : Y -> bool) (l : list X) :
  filter p (map f l) = map f (filter (fun x => p (f x)) l).
Proof. induction l as [|x l IH]; cbn; [reflexivity|]. destruct (p (f x)); cbn; rewrite IH; reflexivity. Qed.

Lemma existsb_filter_nil {X} (p : X -> bool) (l : list X) : existsb p l = negb (is_nil (filter p l)).
Proof. induction l as [|x l IH]; cbn; [reflexivity|]. destruct (p x); cbn; [reflexivity|assumption]. Qed.

Lemma is_nil_map {X Y} (f : X -> Y) (l : list X) : is_nil (map f l) = is_nil l.
Proof. destruct l; reflexivity. Qed.

Lemma NoDup_map_inj_in {X Y} (f : X -> Y) (l : list X) a b :
  NoDup (map f l) -> In a l -> In b l -> f a = f b -> a = b.
Proof.
  induction l as [|x l IH]; cbn; intros H Ha Hb E; [destruct Ha|].
  inversion H as [|? ? Hx Hl]; subst.
  destruct Ha as [->|Ha], Hb as [->|Hb]; try reflexivity.
  - exfalso. apply Hx. rewrite E. apply in_map. assumption.
  - exfalso. apply Hx. rewrite <- E. apply in_map. assumption.
  - apply IH; assumption.
Qed.

Lemma NoDup_map_filter {X Y} (f : X -> Y) (p : X -> bool) (l : list X) :
  NoDup (map f l) -> NoDup (map f (filter p l)).
Proof.
  induction l as [|y ys IH]; cbn; intros H; [constructor|]. inversion H as [|? ? H1 H2]; subst.
  destruct (p y); cbn; [constructor|]; auto.
  rewrite in_map_iff. intros (z & Ez & Hz). apply filter_In in Hz as [Hz _].
  apply H1. rewrite <- Ez. apply in_map. assumption.
Qed.

Lemma nth_app_l {X} (a b : list X) d j : (j < length a)%nat -> nth j (a ++ b) d = nth j a d.
Proof. intros. apply app_nth1. assumption. Qed.

Section Refine.
Context {L K A : Type}.
Variable leqb : L -> L -> bool.
Variable keqb : K -> K -> bool.
Hypothesis leqb_spec : forall a b, leqb a b = true <-> a = b.

Notation trow := (trow L K A).
Notation jrow := (jrow L K A).
Notation matches := (@matches L K A keqb).
Notation S_join := (@S_join L K A keqb).
Notation S_pairs := (@S_pairs L K A keqb).
Notation S_only_left := (@S_only_left L K A keqb).
Notation S_only_right := (@S_only_right L K A keqb).
Notation map_iloc := (@map_iloc L K A keqb).
Notation matched := (@matched L K A keqb).
Notation mem := (@mem L leqb).

Lemma leqb_refl : forall a, leqb a a = true.
Proof. intros. apply leqb_spec. reflexivity. Qed.

Lemma mem_In : forall x s, mem x s = true <-> In x s.
Proof.
  intros x s. unfold RelJoin.mem. rewrite existsb_exists. split.
  - intros (y & Hy & E). apply leqb_spec in E. subst. assumption.
  - intros H. exists x. split; [assumption|apply leqb_refl].
Qed.

Lemma mem_false : forall x s, mem x s = false <-> ~ In x s.
Proof.
  intros x s. rewrite <- mem_In. destruct (mem x s); intuition congruence.
Qed.

(* ---- match discovery ---- *)
Lemma matched_rows : forall k (Rt : list trow),
  map snd (matched k Rt) = filter (fun r => keqb k (key r)) Rt.
Proof.
  intros. unfold RelJoin.matched, enumerate.
  apply (map_snd_combine_filter (fun r : trow => keqb k (key r))). apply seq_length.
Qed.

Lemma matched_nil : forall (l : trow) Rt, is_nil (matched (key l) Rt) = negb (existsb (matches l) Rt).
Proof.
  intros. rewrite existsb_filter_nil, negb_involutive. unfold RelJoin.matches.
  rewrite <- matched_rows, is_nil_map. reflexivity.
Qed.

(* a fold over map_iloc is a fold over the left rows that have a match *)
Lemma flat_map_map_iloc {Y} (g : trow -> list trow -> list Y) : forall Lt Rt,
  (forall l, g l [] = []) ->
  flat_map (fun e => g (snd (fst e)) (map snd (snd e))) (map_iloc Lt Rt)
  = flat_map (fun l => g l (filter (matches l) Rt)) Lt.
Proof.
  intros Lt Rt Hg. unfold RelJoin.map_iloc.
  rewrite flat_map_filter_nil.
  - rewrite flat_map_map'. cbn.
    rewrite <- (map_snd_enumerate Lt) at 2. rewrite flat_map_map'.
    apply flat_map_ext. intros il. rewrite matched_rows. reflexivity.
  - intros [il ms] E. cbn in *. apply negb_false_iff in E. destruct ms; [apply Hg|discriminate].
Qed.

Lemma map_iloc_left_rows : forall Lt Rt,
  map (fun e => snd (fst e)) (map_iloc Lt Rt) = filter (fun l => existsb (matches l) Rt) Lt.
Proof.
  intros. unfold RelJoin.map_iloc.
  rewrite (filter_map_comm (fun il => (il, matched (key (snd il)) Rt))). rewrite map_map. cbn.
  rewrite <- (map_snd_enumerate Lt) at 2. rewrite (filter_map_comm snd).
  rewrite <- (map_map snd (fun l => l)), map_id. f_equal.
  apply filter_ext. intros il. rewrite matched_nil, negb_involutive. reflexivity.
Qed.

Definition many_loc_of (mi : list ((nat * trow) * list (nat * trow))) : list (clabel L) :=
  flat_map (fun e => map (fun jr => CP (lab (snd (fst e))) (lab (snd jr))) (snd e)) mi.

Lemma many_loc_spec : forall Lt Rt, many_loc_of (map_iloc Lt Rt) = map (@jlabel L K A) (S_pairs Lt Rt).
Proof.
  intros. unfold many_loc_of, RelJoin.S_pairs.
  rewrite map_flat_map'.
  rewrite <- (flat_map_map_iloc (fun l rs => map (@jlabel L K A) (map (JB l) rs))) by reflexivity.
  apply flat_map_ext. intros e. rewrite !map_map. reflexivity.
Qed.

Lemma left_loc_set_spec : forall Lt Rt,
  map (fun e => lab (snd (fst e))) (map_iloc Lt Rt) = map lab (filter (fun l => existsb (matches l) Rt) Lt).
Proof. intros. rewrite <- map_iloc_left_rows, map_map. reflexivity. Qed.

Lemma right_loc_set_spec : forall Lt Rt,
  flat_map (fun e => map (fun jr => lab (snd jr)) (snd e)) (map_iloc Lt Rt)
  = flat_map (fun l => map lab (filter (matches l) Rt)) Lt.
Proof.
  intros. rewrite <- (flat_map_map_iloc (fun _ rs => map lab rs)) by reflexivity.
  apply flat_map_ext. intros e. rewrite map_map. reflexivity.
Qed.

Lemma ext_left_spec : forall Lt Rt, NoDup (map lab Lt) ->
  map (@CL L) (filter (fun x => negb (mem x (map (fun e => lab (snd (fst e))) (map_iloc Lt Rt)))) (map lab Lt))
  = map (@jlabel L K A) (S_only_left Lt Rt).
Proof.
  intros Lt Rt HL. unfold RelJoin.S_only_left. rewrite left_loc_set_spec.
  rewrite filter_map_comm, !map_map. cbn. f_equal.
  apply filter_ext_in. intros l Hl. f_equal.
  destruct (existsb (matches l) Rt) eqn:E.
  - apply mem_In. apply in_map. apply filter_In. auto.
  - apply mem_false. intros H. apply in_map_iff in H as (l' & E' & H'). apply filter_In in H' as [H1 H2].
    assert (l' = l) by (eapply NoDup_map_inj_in; eauto). subst. congruence.
Qed.

Lemma ext_right_spec : forall Lt Rt, NoDup (map lab Rt) ->
  map (@CR L) (filter (fun x => negb (mem x (flat_map (fun e => map (fun jr => lab (snd jr)) (snd e)) (map_iloc Lt Rt)))) (map lab Rt))
  = map (@jlabel L K A) (S_only_right Lt Rt).
Proof.
  intros Lt Rt HR. unfold RelJoin.S_only_right. rewrite right_loc_set_spec.
  rewrite filter_map_comm, !map_map. cbn. f_equal.
  apply filter_ext_in. intros r Hr. f_equal.
  destruct (existsb (fun l => matches l r) Lt) eqn:E.
  - apply mem_In. apply existsb_exists in E as (l & Hl & Hm).
    apply in_flat_map. exists l. split; [assumption|]. apply in_map. apply filter_In. auto.
  - apply mem_false. intros H. apply in_flat_map in H as (l & Hl & H).
    apply in_map_iff in H as (r' & E' & H'). apply filter_In in H' as [H1 H2].
    assert (r' = r) by (eapply NoDup_map_inj_in; eauto). subst.
    rewrite existsb_false_iff in E. rewrite (E l Hl) in H2. discriminate.
Qed.

Lemma final_index_many_spec : forall jt Lt Rt, NoDup (map lab Lt) -> NoDup (map lab Rt) ->
  final_index_many leqb jt (map_iloc Lt Rt) Lt Rt = map (@jlabel L K A) (S_join jt Lt Rt).
Proof.
  intros jt Lt Rt HL HR. unfold final_index_many, RelJoin.S_join.
  fold (many_loc_of (map_iloc Lt Rt)). rewrite many_loc_spec, !map_app.
  f_equal. f_equal.
  - destruct (keeps_left jt); [apply ext_left_spec; assumption|reflexivity].
  - destruct (keeps_right jt); [apply ext_right_spec; assumption|reflexivity].
Qed.


(* ---- fetching rows back by label ---- *)
Lemma lookup_cells_in : forall (T : list trow) l, NoDup (map lab T) -> In l T ->
  lookup_cells leqb T (lab l) = Some (cells l).
Proof.
  induction T as [|a T IH]; cbn; intros l H Hl; [destruct Hl|].
  inversion H as [|? ? Hx HT]; subst.
  destruct Hl as [->|Hl]; [rewrite leqb_refl; reflexivity|].
  destruct (leqb (lab l) (lab a)) eqn:E.
  - apply leqb_spec in E. exfalso. apply Hx. rewrite <- E. apply in_map. assumption.
  - apply IH; assumption.
Qed.

Lemma fetch_in : forall (T : list trow) l, NoDup (map lab T) -> In l T -> fetch leqb T (lab l) = Ok (cells l).
Proof. intros. unfold fetch. rewrite lookup_cells_in by assumption. reflexivity. Qed.

Lemma res_all_map_ok {X Y} (f : X -> res Y) (g : X -> Y) (l : list X) :
  (forall x, In x l -> f x = Ok (g x)) -> res_all (map f l) = Ok (map g l).
Proof.
  induction l as [|x l IH]; cbn; intros H; [reflexivity|].
  rewrite (H x) by (left; reflexivity). rewrite IH by (intros; apply H; right; assumption). reflexivity.
Qed.

(* ---- tuple views of the composite labels are pairwise different ---- *)
Lemma tup_eqb_spec : forall a b : L * L, tup_eqb leqb a b = true <-> a = b.
Proof.
  intros [a1 a2] [b1 b2]. unfold tup_eqb. cbn. rewrite andb_true_iff, !leqb_spec.
  split; [intros [-> ->]; reflexivity|intros E; injection E; auto].
Qed.

Lemma nodupb_true {X} (eqb : X -> X -> bool) (l : list X) :
  (forall a b, eqb a b = true <-> a = b) -> NoDup l -> nodupb eqb l = true.
Proof.
  intros Hs. induction 1 as [|x l Hx Hl IH]; cbn; [reflexivity|].
  rewrite IH, andb_true_r. apply negb_true_iff. apply existsb_false_iff.
  intros y Hy. destruct (eqb x y) eqn:E; [|reflexivity]. apply Hs in E. subst. contradiction.
Qed.

Lemma NoDup_map_in {X Y} (f : X -> Y) (l : list X) :
  (forall a b, In a l -> In b l -> f a = f b -> a = b) -> NoDup l -> NoDup (map f l).
Proof.
  intros Hf H. induction H as [|x l Hx Hl IH]; cbn; constructor.
  - rewrite in_map_iff. intros (y & E & Hy). assert (y = x) by (apply Hf; cbn; auto). subst. contradiction.
  - apply IH. intros a b Ha Hb. apply Hf; right; assumption.
Qed.

Lemma S_join_sources : forall jt Lt Rt (x : jrow), In x (S_join jt Lt Rt) ->
  match x with JB l r => In l Lt /\ In r Rt | JL l => In l Lt | JR r => In r Rt end.
Proof.
  intros jt Lt Rt [l r|l|r] H.
  - apply (join_rows_pairs keqb) in H. tauto.
  - apply (join_rows_left keqb) in H. tauto.
  - apply (join_rows_right keqb) in H. tauto.
Qed.

Lemma tuples_nodup : forall jt cifv Lt Rt,
  NoDup (map lab Lt) -> NoDup (map lab Rt) -> ~ In cifv (map lab Lt) -> ~ In cifv (map lab Rt) ->
  NoDup (map (as_tuple cifv) (map (@jlabel L K A) (S_join jt Lt Rt))).
Proof.
  intros jt cifv Lt Rt HL HR CL' CR'. rewrite map_map. apply NoDup_map_in.
  - intros a b Ha Hb E. apply S_join_sources in Ha, Hb.
    assert (FL : forall l, In l Lt -> lab l <> cifv) by (intros l Hl E'; apply CL'; rewrite <- E'; apply in_map; assumption).
    assert (FR : forall r, In r Rt -> lab r <> cifv) by (intros r Hr E'; apply CR'; rewrite <- E'; apply in_map; assumption).
    destruct a as [l r|l|r], b as [l' r'|l'|r']; cbn in E; injection E; intros.
    + destruct Ha, Hb. f_equal; [apply (NoDup_map_inj_in lab Lt)|apply (NoDup_map_inj_in lab Rt)]; auto.
    + destruct Ha. exfalso. eapply FR; eauto.
    + destruct Ha. exfalso. eapply FL; eauto.
    + destruct Hb. exfalso. eapply FR; eauto.
    + f_equal; apply (NoDup_map_inj_in lab Lt); auto.
    + exfalso. eapply FL; eauto.
    + destruct Hb. exfalso. eapply FL; eauto.
    + exfalso. eapply FL; eauto.
    + f_equal; apply (NoDup_map_inj_in lab Rt); auto.
  - apply join_rows_nodup; eapply NoDup_map_inv; eassumption.
Qed.

(* ---- the reindex that makes room for PairRight rows ---- *)
Lemma reindex_hit {X T Y} (teqb : T -> T -> bool) (f : X -> T) (g : X -> Y) (d : Y) :
  (forall a b, teqb a b = true <-> a = b) ->
  forall (ys : list X) x, NoDup (map f ys) -> In x ys ->
  match find_pos (teqb (f x)) (map f ys) with Some q => nth q (map g ys) d | None => d end = g x.
Proof.
  intros Hs ys. induction ys as [|y ys IH]; cbn; intros x H Hx; [destruct Hx|].
  inversion H as [|? ? Hy Hys]; subst.
  destruct (teqb (f x) (f y)) eqn:E.
  - apply Hs in E. destruct Hx as [->|Hx]; [reflexivity|].
    exfalso. apply Hy. rewrite <- E. apply in_map. assumption.
  - destruct Hx as [->|Hx].
    + assert (teqb (f x) (f x) = true) by (apply Hs; reflexivity). congruence.
    + specialize (IH x Hys Hx). destruct (find_pos (teqb (f x)) (map f ys)); cbn; exact IH.
Qed.

Lemma reindex_miss {X T} (teqb : T -> T -> bool) (f : X -> T) :
  (forall a b, teqb a b = true <-> a = b) ->
  forall (ys : list X) t, ~ In t (map f ys) -> find_pos (teqb t) (map f ys) = None.
Proof.
  intros Hs ys. induction ys as [|y ys IH]; cbn; intros t H; [reflexivity|].
  destruct (teqb t (f y)) eqn:E.
  - apply Hs in E. exfalso. apply H. left. congruence.
  - rewrite IH; [reflexivity|]. intros H'. apply H. right. assumption.
Qed.

Lemma filter_length_le' {X} (p : X -> bool) (l : list X) : (length (filter p l) <= length l)%nat.
Proof. induction l as [|x l IH]; cbn; [lia|]. destruct (p x); cbn; lia. Qed.

Lemma filter_length_all {X} (p : X -> bool) (l : list X) : (length (filter p l) <? length l)%nat = false -> filter p l = l.
Proof.
  induction l as [|x l IH]; cbn [filter]; [reflexivity|]. intros H. apply Nat.ltb_ge in H.
  pose proof (filter_length_le' p l) as Hle.
  destruct (p x); cbn [length] in *.
  - f_equal. apply IH. apply Nat.ltb_ge. lia.
  - lia.
Qed.

(* ---- column-major views ---- *)
Lemma seq_from : forall n s, seq s n = map (fun j => (s + j)%nat) (seq 0 n).
Proof.
  induction n as [|n IH]; intros s; cbn; [reflexivity|].
  rewrite Nat.add_0_r. f_equal. rewrite <- (seq_shift n 0), map_map. rewrite (IH (S s)).
  apply map_ext. intros. lia.
Qed.

Lemma cols_of_split {X} (d : A) (lw rw : nat) (jc lp rp : X -> list A) (rows : list X) :
  (forall x, In x rows -> jc x = lp x ++ rp x /\ length (lp x) = lw) ->
  cols_of (lw + rw) d (map jc rows) = cols_of lw d (map lp rows) ++ cols_of rw d (map rp rows).
Proof.
  intros H. unfold cols_of. rewrite seq_app, map_app. f_equal.
  - apply map_ext_in. intros j Hj. apply in_seq in Hj. rewrite !map_map. apply map_ext_in.
    intros x Hx. destruct (H x Hx) as [-> Hl]. apply app_nth1. lia.
  - cbn. rewrite (seq_from rw lw), map_map. apply map_ext. intros j. rewrite !map_map. apply map_ext_in.
    intros x Hx. destruct (H x Hx) as [-> Hl]. rewrite <- Hl. apply app_nth2_plus.
Qed.

Definition lpart (fill : A) (lw : nat) (x : jrow) : list A :=
  match x with JB l _ | JL l => cells l | JR _ => repeat fill lw end.
Definition rpart (fill : A) (rw : nat) (x : jrow) : list A :=
  match x with JB _ r | JR r => cells r | JL _ => repeat fill rw end.

(* ================================================================== the refinement theorem *)
Theorem join_many_refines : forall jt cifv (fill : A) lt rt lcols rcols (Lt Rt : list trow),
  NoDup (map lab Lt) -> NoDup (map lab Rt) ->
  Forall (fun l => length (cells l) = length lcols) Lt ->
  Forall (fun r => length (cells r) = length rcols) Rt ->
  ~ In cifv (map lab Lt) -> ~ In cifv (map lab Rt) ->
  nodupb String.eqb (out_names lt rt lcols rcols) = true ->
  M_join_many leqb keqb jt cifv fill lt rt lcols rcols Lt Rt
  = Ok (S_frame keqb jt cifv fill lt rt lcols rcols Lt Rt).
Proof.
  intros jt cifv fill lt rt lcols rcols Lt Rt HL HR WL WR CL' CR' Hn.
  unfold M_join_many, S_frame.
  rewrite final_index_many_spec by assumption.
  set (rows := S_join jt Lt Rt).
  set (lw := length lcols). set (rw := length rcols).
  assert (Hsrc : forall x, In x rows -> match x with JB l r => In l Lt /\ In r Rt | JL l => In l Lt | JR r => In r Rt end)
    by (intros x Hx; eapply S_join_sources; exact Hx).
  assert (ND : NoDup (map (as_tuple cifv) (map (@jlabel L K A) rows))) by (apply tuples_nodup; assumption).
  rewrite (nodupb_true (tup_eqb leqb) _ tup_eqb_spec ND). cbn [negb].
  (* left rows fetched by label *)
  rewrite (filter_map_comm (@jlabel L K A)).
  set (rowsL := filter (fun x => leftish (jlabel x)) rows).
  assert (HrowsL : forall x, In x rowsL -> In x rows /\ leftish (jlabel x) = true) by (intros x Hx; apply filter_In in Hx; exact Hx).
  rewrite map_map.
  rewrite (res_all_map_ok _ (lpart fill lw) rowsL).
  2:{ intros x Hx. destruct (HrowsL x Hx) as [Hr Hlf]. specialize (Hsrc x Hr).
      destruct x as [l r|l|r]; cbn in *; try discriminate.
      - apply fetch_in; tauto.
      - apply fetch_in; assumption. }
  cbn [res_bind].
  (* right rows fetched by label *)
  rewrite map_map.
  rewrite (res_all_map_ok _ (rpart fill rw) rows).
  2:{ intros x Hx. specialize (Hsrc x Hx). destruct x as [l r|l|r]; cbn in *.
      - apply fetch_in; tauto.
      - reflexivity.
      - apply fetch_in; assumption. }
  cbn [res_bind]. unfold name_check. rewrite Hn. f_equal. f_equal.
  - rewrite !map_map. reflexivity.
  - assert (Hl : (if (length (map (@jlabel L K A) rowsL) <? length (map (@jlabel L K A) rows))%nat
                  then map (fun p => match find_pos (tup_eqb leqb (as_tuple cifv p)) (map (as_tuple cifv) (map (@jlabel L K A) rowsL)) with
                                     | Some q => nth q (map (lpart fill lw) rowsL) (repeat fill lw)
                                     | None => repeat fill lw end) (map (@jlabel L K A) rows)
                  else map (lpart fill lw) rowsL) = map (lpart fill lw) rows).
    { destruct (length (map (@jlabel L K A) rowsL) <? length (map (@jlabel L K A) rows))%nat eqn:E.
      - rewrite !map_map. apply map_ext_in. intros x Hx.
        assert (NDL : NoDup (map (fun y => as_tuple cifv (jlabel y)) rowsL)).
        { rewrite map_map in ND. apply NoDup_map_filter. exact ND. }
        destruct (leftish (jlabel x)) eqn:Elf.
        + assert (HxL : In x rowsL) by (apply filter_In; auto).
          exact (reindex_hit (tup_eqb leqb) (fun y => as_tuple cifv (jlabel y)) (lpart fill lw) (repeat fill lw) tup_eqb_spec rowsL x NDL HxL).
        + rewrite (reindex_miss (tup_eqb leqb) (fun y => as_tuple cifv (jlabel y)) tup_eqb_spec).
          * destruct x; cbn in *; try discriminate. reflexivity.
          * intros H. apply in_map_iff in H as (z & Ez & Hz). destruct (HrowsL z Hz) as [Hz1 Hz2].
            assert (z = x) by (rewrite map_map in ND; apply (NoDup_map_inj_in (fun y => as_tuple cifv (jlabel y)) rows); assumption).
            subst. congruence.
      - rewrite !map_length in E. apply filter_length_all in E. unfold rowsL. rewrite E. reflexivity. }
    rewrite map_map in Hl. rewrite map_map. rewrite Hl.
    symmetry. apply cols_of_split. intros x Hx. specialize (Hsrc x Hx).
    rewrite Forall_forall in WL, WR.
    destruct x as [l r|l|r]; cbn; split; try reflexivity.
    + apply WL; tauto.
    + apply WL; assumption.
    + apply repeat_length.
Qed.


(* composite_index=True (the default): is_many starts True and never flips back *)
Lemma many_step_true : forall mi seen, fst (fold_left (@many_step L K A) mi (true, seen)) = true.
Proof. induction mi as [|e mi IH]; intros seen; cbn; [reflexivity|apply IH]. Qed.

Theorem join_composite_refines : forall jt cifv (fill : A) lt rt lcols rcols (Lt Rt : list trow),
  NoDup (map lab Lt) -> NoDup (map lab Rt) ->
  Forall (fun l => length (cells l) = length lcols) Lt ->
  Forall (fun r => length (cells r) = length rcols) Rt ->
  ~ In cifv (map lab Lt) -> ~ In cifv (map lab Rt) ->
  nodupb String.eqb (out_names lt rt lcols rcols) = true ->
  M_join leqb keqb jt true cifv fill lt rt lcols rcols Lt Rt
  = Ok (S_frame keqb jt cifv fill lt rt lcols rcols Lt Rt).
Proof.
  intros. unfold M_join, is_many. rewrite many_step_true. cbn [negb andb].
  apply join_many_refines; assumption.
Qed.

End Refine.
