(* C20 -- non-trivial instances of the implications in Properties/C20.v: their hypotheses are satisfiable
   by ordinary inputs (many-to-many keys, ragged column sets, repeated pairs). *)
Require Import SF.Prelude SF.RelJoin SF.RelShift SF.RelStack SF.RelPivot.
Require Import Proofs.RelJoinSpec Proofs.RelJoinRefine Proofs.RelJoinSingle Proofs.RelShiftFacts Proofs.RelStackFacts Proofs.RelStackRefine Proofs.RelPivotFacts.
Local Open Scope string_scope.

Ltac nodup := repeat (constructor; [cbn; intuition congruence|]); constructor.

(* a many-to-many outer join: left keys 1,1,2 / right keys 1,1,3 *)
Definition exL : list (trow Z Z Z) := [mk_trow 10 1 [100]; mk_trow 11 1 [101]; mk_trow 12 2 [102]].
Definition exR : list (trow Z Z Z) := [mk_trow 20 1 [200]; mk_trow 21 1 [201]; mk_trow 22 3 [202]].

Example join_composite_instance :
  M_join Z.eqb Z.eqb JOuter true (-1) 0 ("L", "") ("R", "") ["x"] ["y"] exL exR
  = Ok (S_frame Z.eqb JOuter (-1) 0 ("L", "") ("R", "") ["x"] ["y"] exL exR)
  /\ length (S_join Z.eqb JOuter exL exR) = 6%nat.
Proof.
  split; [|reflexivity].
  apply (join_composite_refines Z.eqb Z.eqb Z.eqb_eq); cbn; try nodup; try reflexivity.
  all: intuition congruence.
Qed.

(* a one-to-one left join with disjoint labels: the guard of the non-composite path holds *)
Definition exR1 : list (trow Z Z Z) := [mk_trow 20 1 [200]; mk_trow 22 3 [202]].
Definition exL1 : list (trow Z Z Z) := [mk_trow 10 1 [100]; mk_trow 12 2 [102]].

Example join_single_left_instance :
  exists fr, M_join_single Z.eqb Z.eqb JLeft 0 ("L", "") ("R", "") ["x"] ["y"] exL1 exR1 = Ok fr /\
             jf_cols fr = [[100; 102]; [200; 0]].
Proof.
  eexists. split.
  - apply (join_single_left Z.eqb Z.eqb Z.eqb_eq); cbn; try nodup; try reflexivity.
    intros l [<-|[<-|[]]]; cbn; intros E; try discriminate. intuition congruence.
  - reflexivity.
Qed.

(* shift two columns into the index of a frame with a one-depth index, and back *)
Definition exT : lframe Z Z := mk_lframe 2 [(0, [7; 8])] [(1, [10; 11]); (2, [20; 21]); (3, [30; 31])].

Example shift_roundtrip_instance :
  exists t1 t2, M_shift_in Z.eqb Z.eqb 0 [3; 1] exT = Ok t1 /\
    M_shift_out Z.eqb Z.eqb (fun n => (0, [])) 0 [1%nat; 2%nat] t1 = Ok t2 /\
    lf_levels t2 = lf_levels exT /\ Permutation (lf_cols t2) (lf_cols exT).
Proof.
  assert (H : M_shift_in Z.eqb Z.eqb 0 [3; 1] exT = Ok (mk_lframe 2 [(0, [7; 8]); (3, [30; 31]); (1, [10; 11])] [(2, [20; 21])])) by reflexivity.
  assert (Hk : NoDup [3; 1]) by nodup.
  assert (Hne : [3; 1] <> []) by discriminate.
  assert (Hc : NoDup (map fst (lf_cols exT))) by (cbn; nodup).
  assert (Hl : lf_levels exT <> []) by discriminate.
  assert (Hok : index_okb Z.eqb (lf_rows exT) 0 (lf_levels exT) = true) by reflexivity.
  destruct (shift_in_out_roundtrip Z.eqb Z.eqb (fun n => (0, [])) Z.eqb_eq 0 [3; 1] exT _ Hk Hne Hc Hl Hok H) as (t2 & H2 & H3 & H4 & _).
  eexists. exists t2. split; [exact H|]. auto.
Qed.

(* a ragged column set: (1,1) (1,2) (2,1) (2,3) -- groups 1,2, targets 1,2,3 *)
Definition exF : sframe Z Z (Z * Z) := mk_sframe [7; 8] [(1, 1); (1, 2); (2, 1); (2, 3)] [[10; 11; 12; 13]; [20; 21; 22; 23]].

Example stack_unstack_instance :
  let h := unstack_stack Z.eqb Z.eqb Z.eqb 0 exF in
  sf_cols h = [(1, 1); (1, 2); (1, 3); (2, 1); (2, 2); (2, 3)] /\
  sf_cells h = [[10; 11; 0; 12; 0; 13]; [20; 21; 0; 22; 0; 23]] /\
  M_stack Z.eqb Z.eqb 0 exF = S_stack Z.eqb Z.eqb Z.eqb 0 exF.
Proof.
  split; [reflexivity|split; [reflexivity|]].
  apply (stack_refines Z.eqb Z.eqb Z.eqb Z.eqb_eq Z.eqb_eq Z.eqb_eq); cbn; try nodup; reflexivity.
Qed.

(* pivot with repeated pairs and the sum: the guard f [v] = v holds *)
Definition sumZ (_ : unit) (vs : list Z) : Z := fold_right Z.add 0 vs.
Example pivot_instance :
  singleton_idem sumZ tt /\
  sf_cells (M_pivot Z.eqb Z.eqb (fun l => l) (fun l => l) sumZ true true (-1) 1 [tt]
              [mk_prow 1 5 [10]; mk_prow 2 6 [20]; mk_prow 1 5 [30]; mk_prow 2 5 [40]]) = [[40; -1]; [40; 20]].
Proof. split; [intros v; cbn; lia|reflexivity]. Qed.
