(* C20 -- refinement: pivot_stack / pivot_unstack as the code computes them (per-group dictionaries
   target -> axis position, cells fetched by position, first-observed orders) are the label-keyed
   specifications, for every frame with unique labels on both axes. *)
Require Import SF.Prelude SF.RelStack Proofs.RelListFacts Proofs.RelStackFacts.

Lemma in_enum_nth {X} : forall (l : list X) s j c,
  In (j, c) (combine (seq s (length l)) l) <-> (s <= j)%nat /\ nth_error l (j - s) = Some c.
Proof.
  induction l as [|x l IH]; intros s j c; cbn.
  - split; [intros []|]. intros [_ H]. destruct (j - s)%nat; discriminate.
  - rewrite IH. split.
    + intros [E|[H1 H2]].
      * injection E as <- <-. rewrite Nat.sub_diag. split; [lia|reflexivity].
      * split; [lia|]. replace (j - s)%nat with (S (j - S s)) by lia. exact H2.
    + intros [H1 H2]. destruct (j - s)%nat as [|k] eqn:E.
      * left. cbn in H2. injection H2 as <-. f_equal. lia.
      * right. split; [lia|]. cbn in H2. replace (j - S s)%nat with k by lia. exact H2.
Qed.

Lemma in_enumerate'_nth {X} (l : list X) j c : In (j, c) (enumerate' l) <-> nth_error l j = Some c.
Proof. unfold enumerate'. rewrite in_enum_nth, Nat.sub_0_r. split; [tauto|]. intros; split; [lia|assumption]. Qed.

Lemma map_snd_enumerate' {X} (l : list X) : map snd (enumerate' l) = l.
Proof.
  unfold enumerate'. generalize 0%nat. induction l as [|x l IH]; intros s; cbn; [reflexivity|]. rewrite IH. reflexivity.
Qed.

Lemma res_all_ok {X Y} (f : X -> res Y) (g : X -> Y) (l : list X) :
  (forall x, In x l -> f x = Ok (g x)) -> res_all (map f l) = Ok (map g l).
Proof.
  induction l as [|x l IH]; cbn; intros H; [reflexivity|].
  rewrite (H x) by (left; reflexivity). rewrite IH by (intros; apply H; right; assumption). reflexivity.
Qed.

Lemma map_seq_nth {X Y} (F' : nat -> Y) (F : X -> Y) : forall (l : list X) s,
  (forall i x, nth_error l i = Some x -> F' (s + i)%nat = F x) ->
  map F' (seq s (length l)) = map F l.
Proof.
  induction l as [|x l IH]; intros s H; cbn; [reflexivity|]. f_equal.
  - rewrite <- (H 0%nat x eq_refl). f_equal. lia.
  - apply IH. intros i y Hi. rewrite <- (H (S i) y Hi). f_equal. lia.
Qed.

Lemma product_map_l {X X' Y} (f : X -> X') (xs : list X) (ys : list Y) :
  map (fun p => (f (fst p), snd p)) (product xs ys) = product (map f xs) ys.
Proof.
  unfold product. induction xs as [|x xs IH]; cbn; [reflexivity|].
  rewrite map_app, IH, map_map. reflexivity.
Qed.

Lemma map_flat_map2 {X Y Z} (f : Y -> Z) (g : X -> list Y) (l : list X) :
  map f (flat_map g l) = flat_map (fun x => map f (g x)) l.
Proof. induction l as [|x l IH]; cbn; [reflexivity|rewrite map_app, IH; reflexivity]. Qed.

Lemma flat_map_map2 {X Y Z} (f : X -> Y) (g : Y -> list Z) (l : list X) :
  flat_map g (map f l) = flat_map (fun x => g (f x)) l.
Proof. induction l as [|x l IH]; cbn; [reflexivity|rewrite IH; reflexivity]. Qed.

Lemma flat_map_ext_in {X Y} (f g : X -> list Y) (l : list X) :
  (forall x, In x l -> f x = g x) -> flat_map f l = flat_map g l.
Proof.
  induction l as [|x l IH]; cbn; intros H; [reflexivity|].
  rewrite (H x) by (left; reflexivity). rewrite IH by (intros; apply H; right; assumption). reflexivity.
Qed.

Section DictLookup.
Context {G T : Type}.
Variable geqb : G -> G -> bool.
Variable teqb : T -> T -> bool.
Hypothesis geqb_spec : forall a b, geqb a b = true <-> a = b.
Hypothesis teqb_spec : forall a b, teqb a b = true <-> a = b.

(* the per-group dictionary answers with THE position of the label (group, target) *)
Lemma lookup_last_spec : forall (cols : list (G * T)) g t, NoDup cols ->
  lookup_last teqb t (target_map geqb cols g) = pos_of (gt_eqb geqb teqb (g, t)) cols.
Proof.
  intros cols g t ND. unfold lookup_last.
  pose proof (gt_eqb_spec geqb teqb geqb_spec teqb_spec) as GT.
  destruct (find (fun e : nat * (G * T) => teqb t (snd (snd e))) (rev (target_map geqb cols g))) as [[j [g' t']]|] eqn:E; cbn.
  - apply find_some in E as [Hin Ht]. cbn in Ht. apply teqb_spec in Ht. subst t'.
    apply in_rev in Hin. unfold target_map in Hin. apply filter_In in Hin as [Hin Hg]. cbn in Hg.
    apply geqb_spec in Hg. subst g'. apply in_enumerate'_nth in Hin.
    symmetry. apply (pos_of_nth_NoDup (gt_eqb geqb teqb) GT); assumption.
  - symmetry. apply (pos_of_notin (gt_eqb geqb teqb) GT). intros Hin.
    apply In_nth_error in Hin as (j & Hj). apply in_enumerate'_nth in Hj.
    assert (Hm : In (j, (g, t)) (rev (target_map geqb cols g))).
    { apply -> in_rev. unfold target_map. apply filter_In. split; [assumption|]. cbn. apply geqb_spec. reflexivity. }
    pose proof (find_none _ _ E _ Hm) as Hf. cbn in Hf.
    assert (teqb t t = true) by (apply teqb_spec; reflexivity). congruence.
Qed.

End DictLookup.

Section StackRefine.
Context {R G T A : Type}.
Variable reqb : R -> R -> bool.
Variable geqb : G -> G -> bool.
Variable teqb : T -> T -> bool.
Hypothesis reqb_spec : forall a b, reqb a b = true <-> a = b.
Hypothesis geqb_spec : forall a b, geqb a b = true <-> a = b.
Hypothesis teqb_spec : forall a b, teqb a b = true <-> a = b.

Definition row_of (rows : list R) (cells : list (list A)) (r : R) : list A :=
  match pos_of (reqb r) rows with Some i => nth i cells [] | None => [] end.

Lemma combine_rows : forall (rows : list R) (cells : list (list A)),
  NoDup rows -> length rows = length cells ->
  combine rows cells = map (fun r => (r, row_of rows cells r)) rows.
Proof.
  induction rows as [|r rows IH]; intros [|c cells] ND HL; cbn in *; try discriminate; [reflexivity|].
  inversion ND as [|? ? Hr Hrows]; subst. injection HL as HL.
  unfold row_of at 1. cbn. rewrite (eqb_refl' reqb reqb_spec). cbn. f_equal.
  rewrite (IH cells Hrows HL). apply map_ext_in. intros x Hx. f_equal. unfold row_of. cbn.
  assert (E : reqb x r = false) by (apply (eqb_false' reqb reqb_spec); intros ->; contradiction).
  rewrite E. destruct (pos_of (reqb x) rows); reflexivity.
Qed.

Theorem stack_refines : forall fill (f : sframe A R (G * T)),
  NoDup (sf_rows f) -> NoDup (sf_cols f) -> length (sf_rows f) = length (sf_cells f) ->
  M_stack geqb teqb fill f = S_stack reqb geqb teqb fill f.
Proof.
  intros fill [rows cols cells] NDr NDc HL. cbn in *. unfold M_stack, S_stack. cbn [sf_rows sf_cols sf_cells].
  f_equal. rewrite (combine_rows rows cells NDr HL). rewrite flat_map_map2.
  unfold tab, product. rewrite map_flat_map2. apply flat_map_ext_in. intros r Hr. cbn [snd].
  rewrite map_map. apply map_ext. intros t. rewrite map_map. apply map_ext_in. intros g Hg. cbn [fst snd].
  rewrite (lookup_last_spec geqb teqb geqb_spec teqb_spec cols g t NDc).
  pose proof (gt_eqb_spec geqb teqb geqb_spec teqb_spec) as GT.
  unfold get_of. cbn [sf_rows sf_cols sf_cells]. unfold row_of.
  destruct (pos_of_In reqb reqb_spec rows r Hr) as (i & Hi & _). rewrite Hi.
  destruct (existsb (gt_eqb geqb teqb (g, t)) cols) eqn:E.
  - destruct (pos_of (gt_eqb geqb teqb (g, t)) cols); reflexivity.
  - rewrite (pos_of_notin (gt_eqb geqb teqb) GT); [reflexivity|].
    intros Hin. apply (existsb_eqb_In (gt_eqb geqb teqb) GT) in Hin. congruence.
Qed.

End StackRefine.

Section UnstackRefine.
Context {G T C A : Type}.
Variable geqb : G -> G -> bool.
Variable teqb : T -> T -> bool.
Variable ceqb : C -> C -> bool.
Hypothesis geqb_spec : forall a b, geqb a b = true <-> a = b.
Hypothesis teqb_spec : forall a b, teqb a b = true <-> a = b.
Hypothesis ceqb_spec : forall a b, ceqb a b = true <-> a = b.

(* the guard: the fill value survives the cast into every source column's dtype *)
Definition fill_castable (fill : A) (castfill : list (res A)) : Prop :=
  forall j, nth j castfill (Ok fill) = Ok fill.

Theorem unstack_refines : forall cast_src fill castfill (f : sframe A (G * T) C),
  NoDup (sf_rows f) -> NoDup (sf_cols f) -> (cast_src = true -> fill_castable fill castfill) ->
  M_unstack geqb teqb cast_src fill castfill f = Ok (S_unstack geqb teqb ceqb fill f).
Proof.
  intros cast_src fill castfill [rows cols cells] NDr NDc HC. unfold M_unstack, S_unstack. cbn [sf_rows sf_cols sf_cells].
  set (targets := uniq teqb (map snd rows)). set (groups := uniq geqb (map fst rows)).
  set (V := fun (jct : (nat * C) * T) (h : option nat) =>
              match h with Some i => nth (fst (fst jct)) (nth i cells []) fill | None => fill end).
  rewrite (res_all_ok _ (fun jct => map (V jct) (map (lookup_last teqb (snd jct)) (map (fun g => row_map geqb rows g) groups)))).
  2:{ intros jct _. cbn zeta. destruct cast_src; cbn [andb]; [|reflexivity].
      rewrite (HC eq_refl). destruct (existsb _ _ && negb _); reflexivity. }
  cbn [res_bind]. f_equal. f_equal.
  - rewrite (product_map_l snd (enumerate' cols) targets), map_snd_enumerate'. reflexivity.
  - unfold tab. apply map_seq_nth. intros i g Hg. cbn [plus]. rewrite map_map.
    rewrite <- (map_snd_enumerate' cols) at 2. rewrite <- product_map_l, map_map.
    apply map_ext_in. intros [[j c] t] Hin. cbn [fst snd].
    apply in_product in Hin as [Hjc _]. apply in_enumerate'_nth in Hjc.
    rewrite !map_map. rewrite (nth_map_some _ groups i g fill Hg). unfold V. cbn [fst snd].
    unfold row_map. fold (target_map geqb rows g).
    rewrite (lookup_last_spec geqb teqb geqb_spec teqb_spec rows g t NDr).
    pose proof (pair_eqb_spec geqb teqb geqb_spec teqb_spec) as GT.
    unfold get_of. cbn [sf_rows sf_cols sf_cells]. unfold gt_eqb', gt_eqb.
    rewrite (pos_of_nth_NoDup ceqb ceqb_spec cols j c NDc Hjc).
    destruct (existsb (fun b : G * T => geqb (fst (g, t)) (fst b) && teqb (snd (g, t)) (snd b)) rows) eqn:E.
    + destruct (pos_of (fun b : G * T => geqb (fst (g, t)) (fst b) && teqb (snd (g, t)) (snd b)) rows); reflexivity.
    + rewrite (pos_of_notin _ GT); [reflexivity|].
      intros Hin. apply (existsb_eqb_In _ GT) in Hin. congruence.
Qed.

End UnstackRefine.
