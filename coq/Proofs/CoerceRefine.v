(* util.resolve_dtype (regenerated from source into Gen.Gen_util on every run) equals the typed function
   SF.Coerce.resolve on every pair of dtypes. *)
Require Import SF.Prelude SF.PySlice SF.Dtype SF.PyDyn Gen.Gen_util SF.Coerce.
Require Import SF.PyDynTac.
Local Opaque py_slice_indices Z.mul Z.div Z.add Z.sub Z.min Z.max Z.abs Z.opp Z.modulo Z.gtb Z.eqb Z.ltb Z.leb Z.geb adj_bound.

Lemma resolve_refines d1 d2 :
  resolve_dtype (PDtype d1) (PDtype d2) = PDtype (resolve d1 d2).
Proof.
  unfold resolve_dtype, resolve.
  destruct d1 as [|s1 b1|b1|b1|n1|n1|u1|u1|], d2 as [|s2 b2|b2|b2|n2|n2|u2|u2|]; dyn_refine.
Qed.
