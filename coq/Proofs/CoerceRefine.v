(* util.resolve_dtype (regenerated from source into Gen.Gen_util on every run) equals the typed function
   SF.Coerce.resolve on every pair of dtypes. *)
Require Import SF.Prelude SF.PySlice SF.Dtype SF.PyDyn Gen.Gen_util SF.Coerce.
Local Open Scope string_scope.
Local Open Scope Z_scope.

Definition is_num (d : dtype) : bool := match d with DInt _ _ | DFlt _ | DCplx _ => true | _ => false end.

Ltac split_ifs :=
  repeat match goal with
         | |- context [if ?c then _ else _] => destruct c
         end.

(* where resolve_dtype calls np.result_type the oracle is defined *)
Lemma rt_num_ok d1 d2 : is_num d1 = true -> is_num d2 = true -> exists d, np_result_type d1 d2 = Ok d.
Proof.
  destruct d1 as [|s1 b1|b1|b1|n1|n1|u1|u1|], d2 as [|s2 b2|b2|b2|n2|n2|u2|u2|]; cbn [is_num]; try discriminate;
    intros _ _; unfold np_result_type; split_ifs; eauto.
Qed.

Lemma rt_str_ok d1 d2 : is_strlike d1 = true -> is_strlike d2 = true -> exists d, np_result_type d1 d2 = Ok d.
Proof.
  destruct d1, d2; cbn [is_strlike]; try discriminate; intros _ _; unfold np_result_type; eauto.
Qed.

Lemma rt_dt_ok u1 u2 : exists d, np_result_type (DDt u1) (DDt u2) = Ok d.
Proof. unfold np_result_type; eauto. Qed.

Lemma rt_td_ok u1 u2 : (exists d, np_result_type (DTd u1) (DTd u2) = Ok d) \/ np_result_type (DTd u1) (DTd u2) = Err "TypeError".
Proof. unfold np_result_type. cbv zeta. split_ifs; eauto. Qed.

Local Opaque np_result_type dtype_eqb.

Lemma resolve_refines d1 d2 :
  resolve_dtype (PDtype d1) (PDtype d2) = PDtype (resolve d1 d2).
Proof.
  destruct d1 as [|s1 b1|b1|b1|n1|n1|u1|u1|], d2 as [|s2 b2|b2|b2|n2|n2|u2|u2|];
    try destruct s1; try destruct s2;
    match goal with |- ?l = ?r => let l' := eval lazy in l in let r' := eval lazy in r in change (l' = r') end;
    match goal with |- context [dtype_eqb ?a ?b] => destruct (dtype_eqb a b) end;
    lazymatch goal with
    | |- context [np_result_type (DTd ?a) (DTd ?b)] => destruct (rt_td_ok a b) as [[d ->] | ->]; reflexivity
    | |- context [np_result_type (DDt ?a) (DDt ?b)] => destruct (rt_dt_ok a b) as [d ->]; reflexivity
    | |- context [np_result_type ?a ?b] =>
        first [ destruct (rt_num_ok a b eq_refl eq_refl) as [d ->]
              | destruct (rt_str_ok a b eq_refl eq_refl) as [d ->] ]; reflexivity
    | |- _ => reflexivity
    end.
Qed.
