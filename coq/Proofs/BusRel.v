(* C17 -- the simulation relation between the implementation model M (SF/Bus.v) and the specification S. *)
Require Import SF.Prelude SF.PySlice SF.BusSpec SF.Bus Gen.Gen_c17.
Require Import Proofs.SliceFacts Proofs.BusSpecFacts Proofs.BusResolve Proofs.BusSpecInv Proofs.BusListFacts.

(* the regenerated Store._mtime_coherent decides exactly what the property demands, for every store that
   recorded a modification time when it was opened; every read entry point still runs it *)
Lemma mtime_coherent_spec (file : option Z) (r : Z) :
  mtime_coherent (is_some file) file (Some r) = match file with Some m => m =? r | None => false end.
Proof. destruct file as [m|]; cbn; [|reflexivity]. unfold f_ne, f_eq. destruct (m =? r); reflexivity. Qed.

Lemma reads_checked_true : reads_checked = true.
Proof. reflexivity. Qed.

Lemma init_records_true : init_records = true.
Proof. reflexivity. Qed.

Lemma mtime_update_spec (m : Z) : mtime_update true (Some m) = Some m.
Proof. reflexivity. Qed.

(* the shape bus.py has NOW (regenerated): the repaired statements.  Reverting one of the repairs in /repo flips the
   constant in Gen/Gen_c17.v and this lemma -- hence every theorem of Properties/C17.v resting on it -- stops compiling. *)
Lemma repairs_in_place :
  reader_cfg_by_label = true /\ lru_update_after_read = true /\ get_loads = true /\
  iter_element_loads = true /\ iter_element_items_loads = true /\ sort_values_from_own_series = true.
Proof. repeat split; reflexivity. Qed.

Lemma lru_after_read : lru_update_after_read = true.
Proof. apply repairs_in_place. Qed.

Section Rel.
Variables L F : Type.
Variable leqb : L -> L -> bool.
Hypothesis leqb_spec : forall x y, leqb x y = true <-> x = y.

Notation store := (store L F).
Notation mbus := (mbus L F).
Notation sbus := (sbus L).
Notation mem := (mem L leqb).
Notation find_idx := (find_idx L leqb).
Notation assoc := (assoc L leqb).
Notation labels_at := (labels_at L).
Notation eager := (eager L F leqb).
Notation m_coherent := (m_coherent L F).
Notation s_coherent := (s_coherent L F).
Notation cache_ok := (cache_ok L).

Lemma coherent_agree (st : store) r : st_recorded L F st = Some r -> m_coherent st = s_coherent st.
Proof.
  intro E. unfold Bus.m_coherent, BusSpec.s_coherent. rewrite reads_checked_true, E, mtime_coherent_spec.
  destruct (st_file L F st); reflexivity.
Qed.

(* is the Frame of label l loaded, read through the positional arrays *)
Definition isld (labels : list L) (loaded : list bool) (l : L) : bool :=
  match find_idx l labels with Some i => nth i loaded false | None => false end.

Lemma isld_In labels loaded l : isld labels loaded l = true -> In l labels.
Proof.
  unfold isld. destruct (find_idx l labels) as [i|] eqn:E; [|discriminate].
  intros _. eapply nth_error_In, (find_idx_Some L leqb leqb_spec), E.
Qed.

Lemma isld_nth labels loaded i l : NoDup labels -> nth_error labels i = Some l ->
  isld labels loaded l = nth i loaded false.
Proof. intros N E. unfold isld. rewrite (find_idx_nth L leqb leqb_spec labels N i l E). reflexivity. Qed.

Lemma isld_set_nth labels loaded p lp v x :
  NoDup labels -> nth_error labels p = Some lp -> (p < length loaded)%nat ->
  isld labels (set_nth p v loaded) x = if leqb lp x then v else isld labels loaded x.
Proof.
  intros N E Hp. unfold isld.
  destruct (leqb lp x) eqn:Q.
  - apply leqb_spec in Q. subst x. rewrite (find_idx_nth L leqb leqb_spec labels N p lp E).
    apply nth_set_nth_eq, Hp.
  - destruct (find_idx x labels) as [i|] eqn:Fi; [|reflexivity].
    apply nth_set_nth_ne. intro; subst i.
    apply (find_idx_Some L leqb leqb_spec) in Fi. rewrite Fi in E. injection E as ->.
    rewrite (proj2 (leqb_spec lp lp) eq_refl) in Q. discriminate.
Qed.

Definition slot_of (labels : list L) (slots : list (option F)) (l : L) : option F :=
  match find_idx l labels with
  | Some i => match nth_error slots i with Some s => s | None => None end
  | None => None
  end.

Lemma isld_slot_of labels slots l : isld labels (map is_some slots) l = is_some (slot_of labels slots l).
Proof.
  unfold isld, slot_of. destruct (find_idx l labels) as [i|]; [|reflexivity].
  revert i. induction slots as [|s r IH]; intros [|i]; cbn; auto.
Qed.

Record Rel (st : store) (m : mbus) (s : sbus) : Prop := mkRel {
  R_labels : mb_labels L F m = sb_labels L s;
  R_mp : mb_mp L F m = sb_mp L s;
  R_nodup : NoDup (mb_labels L F m);
  R_len : length (mb_slots L F m) = length (mb_labels L F m);
  R_loaded : mb_loaded L F m = map is_some (mb_slots L F m);
  R_all : mb_loaded_all L F m = all_true (mb_loaded L F m);
  R_eager : forall l f, slot_of (mb_labels L F m) (mb_slots L F m) l = Some f -> eager st l = Some f;
  R_store : forall l, In l (mb_labels L F m) -> exists f fd, assoc l (st_content L F st) = Some (f, fd);
  R_cache_ok : cache_ok (sb_mp L s) (sb_cache L s);
  R_cache : forall l, In l (sb_cache L s) <-> isld (mb_labels L F m) (mb_loaded L F m) l = true;
  R_la : forall k, mb_mp L F m = Some k ->
           NoDup (mb_la L F m) /\
           filter (isld (mb_labels L F m) (mb_loaded L F m)) (mb_la L F m) = sb_cache L s /\
           (forall l, In l (mb_la L F m) -> isld (mb_labels L F m) (mb_loaded L F m) l = true)
}.

Lemma isld_cons_head x r b lr : isld (x :: r) (b :: lr) x = b.
Proof. unfold isld. cbn. rewrite (proj2 (leqb_spec x x) eq_refl). reflexivity. Qed.

Lemma isld_cons_tail x r b lr y : ~ In x r -> In y r -> isld (x :: r) (b :: lr) y = isld r lr y.
Proof.
  intros Hx Hy. unfold isld. cbn.
  destruct (leqb x y) eqn:Q; [apply leqb_spec in Q; subst; contradiction|].
  destruct (BusSpec.find_idx L leqb y r); reflexivity.
Qed.

Lemma loaded_as_map labels : forall loaded, NoDup labels -> length loaded = length labels ->
  loaded = map (isld labels loaded) labels.
Proof.
  induction labels as [|x r IH]; intros [|b lr] N H; cbn in *; try lia; try discriminate; [reflexivity|].
  inversion N as [|? ? Hx Nr]; subst.
  rewrite isld_cons_head. f_equal.
  rewrite (map_ext_in _ (isld r lr)); [apply IH; [exact Nr | lia]|].
  intros y Hy. apply isld_cons_tail; assumption.
Qed.

(* the flags a caller sees are the same on both sides *)
Lemma rel_flags st m s : Rel st m s -> m_flags L F m = s_flags L leqb s.
Proof.
  intro R. unfold m_flags, BusSpec.s_flags. rewrite <- (R_labels _ _ _ R).
  pose proof (R_nodup _ _ _ R) as N. pose proof (R_cache _ _ _ R) as C.
  assert (Hlen : length (mb_loaded L F m) = length (mb_labels L F m))
    by (rewrite (R_loaded _ _ _ R), map_length; apply (R_len _ _ _ R)).
  rewrite (loaded_as_map _ _ N Hlen) at 1. apply map_ext. intro l.
  destruct (isld _ _ l) eqn:Q.
  - symmetry. apply (mem_In L leqb leqb_spec), C, Q.
  - symmetry. apply (mem_false L leqb leqb_spec). intro H. apply C in H. congruence.
Qed.

(* count of loaded positions = size of the cache *)
Lemma count_filter_isld labels : forall loaded, NoDup labels -> length loaded = length labels ->
  count_true loaded = Z.of_nat (length (filter (isld labels loaded) labels)).
Proof.
  unfold count_true. induction labels as [|x r IH]; intros [|b lr] N H; cbn [filter length] in *; try lia; try discriminate.
  inversion N as [|? ? Hx Nr]; subst.
  rewrite isld_cons_head.
  rewrite (filter_ext_in _ (isld r lr)) by (intros y Hy; apply isld_cons_tail; assumption).
  specialize (IH lr Nr ltac:(lia)).
  destruct b; cbn [length]; lia.
Qed.

Lemma NoDup_same_length {A} (a b : list A) : NoDup a -> NoDup b -> (forall x, In x a <-> In x b) -> length a = length b.
Proof.
  intros Na Nb H. apply Nat.le_antisymm; apply NoDup_incl_length; auto; intros x I; apply H, I.
Qed.

Lemma rel_count st m s : Rel st m s ->
  count_true (mb_loaded L F m) = Z.of_nat (length (sb_cache L s)).
Proof.
  intro R.
  assert (Hlen : length (mb_loaded L F m) = length (mb_labels L F m))
    by (rewrite (R_loaded _ _ _ R), map_length; apply (R_len _ _ _ R)).
  rewrite (count_filter_isld _ _ (R_nodup _ _ _ R) Hlen). f_equal.
  apply NoDup_same_length; [apply NoDup_filter, (R_nodup _ _ _ R) | apply (R_cache_ok _ _ _ R)|].
  intro x. rewrite filter_In, (R_cache _ _ _ R x). split; [tauto|]. intro H. split; [eapply isld_In, H | exact H].
Qed.

End Rel.
