(* C17 -- selections, items() and values of the implementation model against the specification. *)
Require Import SF.Prelude SF.PySlice SF.BusSpec SF.Bus Gen.Gen_c17.
Require Import Proofs.BusSpecFacts Proofs.BusResolve Proofs.BusSpecInv Proofs.BusListFacts Proofs.BusCache Proofs.BusRel
               Proofs.BusLoop Proofs.BusUpdate Proofs.BusDerive.

Section Select.
Variables L F : Type.
Variable leqb : L -> L -> bool.
Hypothesis leqb_spec : forall x y, leqb x y = true <-> x = y.

Notation store := (store L F).
Notation mbus := (mbus L F).
Notation sbus := (sbus L).
Notation mem := (mem L leqb).
Notation find_idx := (find_idx L leqb).
Notation la_touch := (la_touch L leqb).
Notation s_touch := (s_touch L leqb).
Notation s_access_all := (s_access_all L leqb).
Notation eager := (eager L F leqb).
Notation s_coherent := (s_coherent L F).
Notation cache_ok := (cache_ok L).
Notation isld := (isld L leqb).
Notation slot_of := (slot_of L F leqb).
Notation labels_at := (labels_at L).
Notation resolve := (resolve L leqb).
Notation m_update := (m_update L F leqb).
Notation Rel := (Rel L F leqb).
Notation s_derive := (s_derive L leqb).
Notation derived := (derived L F leqb).
Notation mode_ok := (mode_ok L F leqb).

Definition store_ok (st : store) : Prop := exists r, st_recorded L F st = Some r.

Lemma resolve_single labels k ps : resolve labels k = Ok (true, ps) -> exists p, ps = [p].
Proof.
  unfold BusSpec.resolve. destruct k as [i|js|s|m|l|ls|a b].
  - destruct (norm_index i _); [|discriminate]. intro H. injection H as <-. eauto.
  - destruct (norm_all js _); [|discriminate]. destruct (has_dup_nat _); discriminate.
  - destruct (positions s _); discriminate.
  - destruct (Nat.eqb _ _); discriminate.
  - destruct (find_idx l labels); [|discriminate]. intro H. injection H as <-. eauto.
  - destruct (find_all L leqb ls labels); [|discriminate]. destruct (has_dup_nat _); discriminate.
  - destruct (match a with None => _ | Some _ => _ end); [|discriminate].
    destruct (match b with None => _ | Some _ => _ end); discriminate.
Qed.

(* a Bus-valued result: _derive on the implementation side, s_derive on the specification side *)
Lemma bus_result_sim st m s ls slots' into :
  Rel st m s -> NoDup ls -> incl ls (mb_labels L F m) ->
  slots' = map (slot_of (mb_labels L F m) (mb_slots L F m)) ls ->
  fst (m_bus_result L F m ls slots' into) = fst (s_bus_result L F leqb s (s_derive s ls) into) /\
  Rel st (snd (m_bus_result L F m ls slots' into)) (snd (s_bus_result L F leqb s (s_derive s ls) into)) /\
  mb_mp L F (snd (m_bus_result L F m ls slots' into)) = mb_mp L F m.
Proof.
  intros R N Inc ->. destruct (derive_rel L F leqb leqb_spec st m s ls R N Inc) as [Ei Rd].
  unfold m_bus_result, s_bus_result. rewrite Ei. cbn [fst snd].
  split; [|split].
  - f_equal. apply (rel_flags L F leqb leqb_spec st _ _ Rd).
  - destruct into; assumption.
  - destruct into; reflexivity.
Qed.

(* the slot of a label that is held is the Frame the store holds for it *)
Lemma rel_slot_eager st m s l : Rel st m s -> In l (sb_cache L s) ->
  exists f, slot_of (mb_labels L F m) (mb_slots L F m) l = Some f /\ eager st l = Some f.
Proof.
  intros R I. apply (R_cache _ _ _ _ _ _ R) in I. rewrite (rel_isld_slot L F leqb st m s l R) in I.
  destruct (slot_of _ _ l) as [f|] eqn:E; [|discriminate]. exists f. split; [reflexivity|].
  apply (R_eager _ _ _ _ _ _ R), E.
Qed.

Lemma labels_at_single labels p l : nth_error labels p = Some l -> labels_at labels [p] = [l].
Proof. intro E. unfold BusSpec.labels_at. cbn. rewrite E. reflexivity. Qed.

(* _extract_iloc / _extract_loc *)
Theorem select_sim st m s k into :
  Rel st m s -> store_ok st -> mode_ok st (mb_mp L F m) ->
  let '(x, m', _) := m_select L F leqb st m k into in
  let '(y, s') := s_select L F leqb st s k into in
  x = y /\ Rel st m' s' /\ mb_mp L F m' = mb_mp L F m.
Proof.
  intros R Sok Mok. unfold m_select, s_select. rewrite <- (R_labels _ _ _ _ _ _ R).
  destruct (resolve (mb_labels L F m) k) as [[single ps]|e] eqn:Res; [|auto].
  pose proof (resolve_ok L leqb leqb_spec _ _ _ _ Res) as Pok.
  assert (Hs : single = true -> exists p, ps = [p]) by (intros ->; eapply resolve_single, Res).
  destruct (update_sim L F leqb leqb_spec st m s single ps R Sok Pok Hs (or_intror Mok)) as (m1 & log & Eu & R1 & El & Emp).
  unfold m_extract. rewrite Eu.
  set (ls := labels_at (mb_labels L F m) ps) in *.
  destruct (s_access_all (s_coherent st) (sb_mp L s) (sb_cache L s) ls) as [ok c] eqn:Ea. cbn [fst snd] in *.
  destruct ok; cbn [negb]; [|auto].
  destruct single.
  - (* one element *)
    destruct (Hs eq_refl) as [p ->]. destruct Pok as [_ Fp]. pose proof (Forall_inv Fp) as Hp. cbn beta in Hp.
    destruct (nth_error (mb_labels L F m) p) as [l|] eqn:E; [|apply nth_error_None in E; lia].
    assert (Els : ls = [l]) by (apply labels_at_single, E). rewrite Els in *.
    split; [|auto].
    assert (Ic : In l c).
    { cbn in Ea. destruct (mem l (sb_cache L s) || s_coherent st); [|discriminate]. injection Ea as <-.
      apply (s_touch_In_self L leqb leqb_spec). rewrite <- (R_mp _ _ _ _ _ _ R). rewrite (R_mp _ _ _ _ _ _ R).
      apply (R_cache_ok _ _ _ _ _ _ R). }
    destruct (rel_slot_eager st m1 _ l R1 Ic) as (f & E1 & E2).
    rewrite (slots_at_map L F leqb leqb_spec (mb_labels L F m1) (mb_slots L F m1) [p]);
      [| apply (R_nodup _ _ _ _ _ _ R1) | apply (R_len _ _ _ _ _ _ R1) | rewrite El; exact Fp].
    rewrite El, (labels_at_single _ p l E). cbn. rewrite <- El, E1, E2. reflexivity.
  - (* a derived Bus *)
    destruct Pok as [Np Fp].
    assert (Nls : NoDup ls) by (apply labels_at_NoDup; [apply (R_nodup _ _ _ _ _ _ R) | exact Np]).
    assert (Inc : incl ls (mb_labels L F m1)) by (rewrite El; apply labels_at_incl).
    rewrite El.
    destruct (bus_result_sim st m1 (s_with_cache L s c) ls (slots_at F (mb_slots L F m1) ps) into R1 Nls Inc) as (B1 & B2 & B3).
    { rewrite (slots_at_map L F leqb leqb_spec (mb_labels L F m1) (mb_slots L F m1) ps);
        [rewrite El; reflexivity | apply (R_nodup _ _ _ _ _ _ R1) | apply (R_len _ _ _ _ _ _ R1) | rewrite El; exact Fp]. }
    fold ls.
    destruct (m_bus_result L F m1 ls (slots_at F (mb_slots L F m1) ps) into) as [x m2].
    destruct (s_bus_result L F leqb (s_with_cache L s c) (s_derive (s_with_cache L s c) ls) into) as [y s2].
    cbn [fst snd] in *. split; [exact B1|]. split; [exact B2 | congruence].
Qed.

End Select.
