(* C13 -- the TypeError branch of array_to_groups_and_locations (grouping by string representation):
   always a partition; the groups of the specification exactly when the representation separates
   the keys present. *)
Require Import SF.Prelude SF.Group Proofs.GroupFacts.

Lemma NoDup_map_inj_in {X Y} (f : X -> Y) (l : list X) :
  (forall x y, In x l -> In y l -> f x = f y -> x = y) -> NoDup l -> NoDup (map f l).
Proof.
  induction l as [|a t IH]; intros Hinj ND; [constructor|].
  inversion ND as [|? ? Hn ND']; subst. simpl. constructor.
  - intro H. apply in_map_iff in H as (y & E & Hy). apply Hn.
    rewrite (Hinj a y); [exact Hy | left; reflexivity | right; exact Hy | symmetry; exact E].
  - apply IH; [|exact ND']. intros x y Hx Hy. apply Hinj; right; assumption.
Qed.

Section Fallback.
  Context {R K K' : Type}.
  Variable key : R -> K.
  Variable keqb : K -> K -> bool.
  Variable repr : K -> K'.
  Variable eqb' leb' : K' -> K' -> bool.
  Hypothesis keqb_spec : forall a b, keqb a b = true <-> a = b.
  Hypothesis eqb'_spec : forall a b, eqb' a b = true <-> a = b.

  Definition rkey (r : R) : K' := repr (key r).

  (* the representation separates the keys that occur (Boolean guard) *)
  Definition repr_inj_on (rows : list R) : bool :=
    forallb (fun r1 => forallb (fun r2 => implb (eqb' (rkey r1) (rkey r2)) (keqb (key r1) (key r2))) rows) rows.

  Definition first_label (g : list R) : option K :=
    match g with r :: _ => Some (key r) | [] => None end.

  Definition reprs (rows : list R) : list K' := distinct eqb' (sort_keys leb' (map rkey rows)).

  Lemma fallback_unfold rows :
    M_B_fallback key repr eqb' leb' rows =
    map (fun s => (first_label (members rkey eqb' s rows), members rkey eqb' s rows)) (reprs rows).
  Proof.
    unfold M_B_fallback. fold rkey. rewrite (pathB_spec rkey eqb' eqb'_spec leb' rows).
    unfold groups_by. rewrite map_map. reflexivity.
  Qed.

  Lemma reprs_In rows s : In s (reprs rows) <-> In s (map rkey rows).
  Proof. unfold reprs. rewrite (In_distinct eqb' eqb'_spec). apply In_sort_keys. Qed.

  (* with or without the guard: every row is in exactly one group *)
  Theorem fallback_partition rows :
    Permutation (concat (map snd (M_B_fallback key repr eqb' leb' rows))) rows.
  Proof.
    rewrite fallback_unfold. rewrite map_map. simpl.
    rewrite <- (map_snd_groups_by rkey eqb' (reprs rows) rows).
    apply (groups_by_partition rkey eqb' eqb'_spec); [apply (NoDup_distinct eqb' eqb'_spec)|].
    intros r Hr. apply reprs_In. apply in_map. exact Hr.
  Qed.

  Lemma repr_inj_on_spec rows : repr_inj_on rows = true ->
    forall r1 r2, In r1 rows -> In r2 rows -> rkey r1 = rkey r2 -> key r1 = key r2.
  Proof.
    unfold repr_inj_on. intros H r1 r2 H1 H2 E.
    rewrite forallb_forall in H. specialize (H r1 H1). rewrite forallb_forall in H. specialize (H r2 H2).
    replace (eqb' (rkey r1) (rkey r2)) with true in H by (symmetry; apply eqb'_spec; exact E).
    simpl in H. apply keqb_spec. exact H.
  Qed.

  (* under the guard: each group is labelled by a key k, is non-empty, and holds exactly the rows
     whose key is k, in their original order; labels are pairwise distinct *)
  Theorem fallback_exact rows : repr_inj_on rows = true ->
    Forall (fun lg => exists k, fst lg = Some k /\ snd lg <> [] /\
                                snd lg = filter (fun r => keqb (key r) k) rows)
           (M_B_fallback key repr eqb' leb' rows)
    /\ NoDup (map fst (M_B_fallback key repr eqb' leb' rows)).
  Proof.
    intro G. pose proof (repr_inj_on_spec rows G) as Inj. rewrite fallback_unfold.
    assert (Hhead : forall s, In s (reprs rows) ->
              exists r0 g', members rkey eqb' s rows = r0 :: g' /\ In r0 rows /\ rkey r0 = s).
    { intros s Hs. apply reprs_In in Hs. apply in_map_iff in Hs as (r & E & Hr).
      assert (Hin : In r (members rkey eqb' s rows)).
      { apply filter_In. split; [exact Hr | apply eqb'_spec; exact E]. }
      destruct (members rkey eqb' s rows) as [|r0 g'] eqn:Em; [contradiction|].
      exists r0, g'. split; [reflexivity|].
      assert (H0 : In r0 (members rkey eqb' s rows)) by (rewrite Em; left; reflexivity).
      apply filter_In in H0 as [H1 H2]. split; [exact H1 | apply eqb'_spec; exact H2]. }
    split.
    - apply Forall_forall. intros [l g] Hlg. apply in_map_iff in Hlg as (s & E & Hs).
      injection E as <- <-. destruct (Hhead s Hs) as (r0 & g' & Em & Hr0 & Es).
      exists (key r0). simpl. rewrite Em. simpl. split; [reflexivity|]. split; [discriminate|].
      rewrite <- Em. unfold members. apply filter_ext_in. intros r Hr.
      destruct (keqb (key r) (key r0)) eqn:Ek.
      + apply keqb_spec in Ek. apply eqb'_spec. unfold rkey. rewrite Ek. exact Es.
      + destruct (eqb' (rkey r) s) eqn:Er; [|reflexivity].
        apply eqb'_spec in Er. assert (key r = key r0) by (apply Inj; auto; congruence).
        apply (keqb_false keqb keqb_spec) in Ek. contradiction.
    - rewrite map_map. simpl. apply NoDup_map_inj_in; [|apply (NoDup_distinct eqb' eqb'_spec)].
      intros s1 s2 H1 H2 E.
      destruct (Hhead s1 H1) as (r1 & g1 & Em1 & _ & Es1).
      destruct (Hhead s2 H2) as (r2 & g2 & Em2 & _ & Es2).
      rewrite Em1, Em2 in E. simpl in E. injection E as E. unfold rkey in *. congruence.
  Qed.
End Fallback.
