(* C03, part 6: the get_block_match stack hands out, for every request of width w, exactly the next w source
   columns (generic, for clip and the assign-by-blocks walks); TypeBlocks.clip with Frame bounds equals the
   column-by-column clip for EVERY pair (receiver layout, bound layouts). *)
Require Import SF.Prelude SF.PySlice SF.Dtype SF.Blocks SF.BlocksOps Proofs.BlocksSelect Proofs.BlocksOps.

(* ---------- the stack ---------- *)
Lemma take_cols_spec {X : Type} (src : list (list X)) : forall need,
  match take_cols src need with
  | Some (cols, src') => cols = firstn need (concat src) /\ concat src' = skipn need (concat src) /\
                         length cols = need /\ (need <= length (concat src))%nat
  | None => (length (concat src) < need)%nat
  end.
Proof.
  induction src as [|blk rest IH]; intros need.
  - destruct need; cbn; [repeat split; lia|lia].
  - destruct need as [|n]; [cbn; repeat split; lia|].
    cbn [take_cols concat]. destruct (length blk <=? S n)%nat eqn:Ew.
    + apply Nat.leb_le in Ew. specialize (IH (S n - length blk)%nat).
      destruct (take_cols rest (S n - length blk)) as [[cols src']|]; cbv beta iota in *.
      * destruct IH as (Ec & Es & El & Hle). rewrite !app_length. repeat split.
        -- rewrite firstn_app, (firstn_all2 blk) by lia. f_equal. exact Ec.
        -- rewrite skipn_app, (skipn_all2 blk) by lia. exact Es.
        -- lia.
        -- lia.
      * rewrite app_length. lia.
    + apply Nat.leb_gt in Ew. cbv beta iota. rewrite app_length. repeat split.
      * rewrite firstn_app. replace (S n - length blk)%nat with 0%nat by lia. cbn [firstn]. now rewrite app_nil_r.
      * cbn [concat]. rewrite skipn_app. replace (S n - length blk)%nat with 0%nat by lia. reflexivity.
      * rewrite firstn_length. lia.
      * lia.
Qed.

(* a sequence of requests: the pieces handed out, concatenated, are the source columns in order *)
Theorem take_many_spec {X : Type} (ws : list nat) : forall (src : list (list X)),
  match take_many src ws with
  | Some (pieces, rest) => concat pieces ++ concat rest = concat src /\ map (@length X) pieces = ws
  | None => (length (concat src) < fold_right Nat.add 0%nat ws)%nat
  end.
Proof.
  induction ws as [|w r IH]; intros src; cbn [take_many fold_right].
  - split; reflexivity.
  - pose proof (take_cols_spec src w) as H. destruct (take_cols src w) as [[cols src']|].
    + destruct H as (Ec & Es & El & Hle). specialize (IH src').
      destruct (take_many src' r) as [[pieces rest]|].
      * destruct IH as [E1 E2]. split.
        -- cbn [concat]. rewrite <- app_assoc, E1, Es, Ec. apply firstn_skipn.
        -- cbn [map]. now rewrite El, E2.
      * rewrite Es, skipn_length in IH. lia.
    + lia.
Qed.

Section ClipProofs.
Context {A : Type}.
Notation block := (block A).
Notation tb := (tb A).
Notation column := (dtype * list A)%type.
Variable clipc : A -> option A -> option A -> A.

Definition drop_b (n : nat) (s : bound_cols (A := A)) : bound_cols (A := A) := option_map (@skipn (list A) n) s.
Definition trunc_b (n : nat) (s : bound_cols (A := A)) : bound_cols (A := A) := option_map (@firstn (list A) n) s.

Lemma clip_cols_length cs : forall lo hi out, clip_cols clipc cs lo hi = Ok out -> length out = length cs.
Proof.
  induction cs as [|c r IH]; intros lo hi out H; cbn in H.
  - injection H as <-. reflexivity.
  - destruct (pop1 lo) as [[l lo']|]; [|discriminate]. destruct (pop1 hi) as [[h hi']|]; [|discriminate].
    destruct (clip_cols clipc r lo' hi') as [o|e] eqn:E; [|discriminate]. injection H as <-.
    cbn. f_equal. eapply IH. exact E.
Qed.

Lemma pop1_drop (s : bound_cols (A := A)) l s' n : pop1 s = Some (l, s') -> drop_b (S n) s = drop_b n s'.
Proof.
  destruct s as [[|x r]|]; cbn; intros H; try discriminate; injection H as <- <-; reflexivity.
Qed.

(* clipping a run of columns: the first part against the bounds, the rest against the bounds minus what was used *)
Lemma clip_cols_app cs1 : forall cs2 lo hi,
  clip_cols clipc (cs1 ++ cs2) lo hi =
  match clip_cols clipc cs1 lo hi with
  | Err e => Err e
  | Ok o1 => match clip_cols clipc cs2 (drop_b (length cs1) lo) (drop_b (length cs1) hi) with
             | Ok o2 => Ok (o1 ++ o2)
             | Err e => Err e
             end
  end.
Proof.
  induction cs1 as [|c r IH]; intros cs2 lo hi.
  - cbn [app clip_cols length]. unfold drop_b. destruct lo, hi; cbn; destruct (clip_cols clipc cs2 _ _); reflexivity.
  - cbn [app clip_cols length].
    destruct (pop1 lo) as [[l lo']|] eqn:El; [|reflexivity]. destruct (pop1 hi) as [[h hi']|] eqn:Eh; [|reflexivity].
    rewrite IH. rewrite (pop1_drop lo l lo' _ El), (pop1_drop hi h hi' _ Eh).
    destruct (clip_cols clipc r lo' hi') as [o1|e]; [|reflexivity].
    destruct (clip_cols clipc cs2 _ _); reflexivity.
Qed.

(* only the first |cs| bound columns are looked at *)
Lemma clip_cols_trunc cs : forall lo hi,
  clip_cols clipc cs (trunc_b (length cs) lo) (trunc_b (length cs) hi) = clip_cols clipc cs lo hi.
Proof.
  induction cs as [|c r IH]; intros lo hi; [reflexivity|].
  cbn [clip_cols length].
  assert (Hp : forall s : bound_cols (A := A), pop1 (trunc_b (S (length r)) s) =
               match pop1 s with Some (l, s') => Some (l, trunc_b (length r) s') | None => None end).
  { intros [[|x q]|]; reflexivity. }
  rewrite !Hp. destruct (pop1 lo) as [[l lo']|]; [|reflexivity]. destruct (pop1 hi) as [[h hi']|]; [|reflexivity].
  rewrite IH. reflexivity.
Qed.

Lemma clip_cols_short cs : forall (L : list (list A)) hi, (length L < length cs)%nat ->
  clip_cols clipc cs (Some L) hi = Err "IndexError"%string.
Proof.
  induction cs as [|c r IH]; intros L hi H; [cbn in H; lia|].
  cbn [clip_cols]. destruct L as [|x q]; [reflexivity|]. cbn [pop1].
  destruct (pop1 hi) as [[h hi']|]; [|reflexivity]. rewrite IH by (cbn in H; lia). reflexivity.
Qed.

Lemma clip_cols_short_hi cs : forall lo (H' : list (list A)), (length H' < length cs)%nat ->
  clip_cols clipc cs lo (Some H') = Err "IndexError"%string.
Proof.
  induction cs as [|c r IH]; intros lo L H; [cbn in H; lia|].
  cbn [clip_cols]. destruct (pop1 lo) as [[l lo']|]; [|reflexivity].
  destruct L as [|x q]; [reflexivity|]. cbn [pop1]. rewrite IH by (cbn in H; lia). reflexivity.
Qed.

Lemma take_bound_spec (s : bound_stack (A := A)) w :
  match take_bound s w with
  | Some (c, s') => c = trunc_b w (stack_cols s) /\ stack_cols s' = drop_b w (stack_cols s)
  | None => exists L, stack_cols s = Some L /\ (length L < w)%nat
  end.
Proof.
  destruct s as [st|]; [|cbn; split; reflexivity].
  cbn [take_bound stack_cols option_map]. pose proof (take_cols_spec st w) as H.
  destruct (take_cols st w) as [[cols st']|].
  - destruct H as (Ec & Es & _ & _). cbn. rewrite Ec, Es. split; reflexivity.
  - eexists. split; [reflexivity|exact H].
Qed.

Lemma combine_app_eq {B C} (a1 a2 : list B) (b1 b2 : list C) : length a1 = length b1 ->
  combine (a1 ++ a2) (b1 ++ b2) = combine a1 b1 ++ combine a2 b2.
Proof.
  revert b1. induction a1 as [|x a1 IH]; intros [|y b1] H; try discriminate; [reflexivity|].
  cbn. f_equal. apply IH. cbn in H. lia.
Qed.

Lemma clip_block_columns (b : block) (out : list (list A)) : length out = length (b_cols b) ->
  block_columns (mk_block (b_dtype b) (b_1d b) out) = combine (map fst (block_columns b)) out.
Proof.
  unfold block_columns. cbn [b_dtype b_cols]. rewrite map_map. cbn [fst].
  generalize (b_cols b). induction out as [|o out IH]; intros [|c cs] H; try discriminate; [reflexivity|].
  cbn. f_equal. apply IH. cbn in H. lia.
Qed.

Theorem clip_go_refines (t : tb) : forall lo hi,
  res_map (@flatten A) (clip_go clipc t lo hi) = S_clip clipc (flatten t) (stack_cols lo) (stack_cols hi).
Proof.
  induction t as [|b r IH]; intros lo hi; [reflexivity|].
  cbn [clip_go]. unfold S_clip. rewrite flatten_cons, map_app, clip_cols_app.
  assert (Hsnd : map snd (block_columns b) = b_cols b).
  { unfold block_columns. rewrite map_map. cbn [snd]. apply map_id. }
  rewrite Hsnd.
  pose proof (take_bound_spec lo (length (b_cols b))) as Hl.
  pose proof (take_bound_spec hi (length (b_cols b))) as Hh.
  destruct (take_bound lo (length (b_cols b))) as [[lc lo']|].
  2:{ destruct Hl as (L & EL & HL). rewrite EL, clip_cols_short by exact HL. reflexivity. }
  destruct (take_bound hi (length (b_cols b))) as [[hc hi']|].
  2:{ destruct Hh as (L & EL & HL). rewrite EL, clip_cols_short_hi by exact HL. reflexivity. }
  destruct Hl as [-> El]. destruct Hh as [-> Eh]. rewrite clip_cols_trunc.
  destruct (clip_cols clipc (b_cols b) (stack_cols lo) (stack_cols hi)) as [cs'|e] eqn:Ec; [|reflexivity].
  specialize (IH lo' hi'). unfold S_clip in IH. rewrite El, Eh in IH.
  destruct (clip_go clipc r lo' hi') as [r'|e]; cbn [res_map] in *.
  - destruct (clip_cols clipc (map snd (flatten r)) _ _) as [o2|e2]; [|discriminate].
    injection IH as IH. f_equal. rewrite flatten_cons, IH. rewrite ?map_app. rewrite combine_app_eq.
    + f_equal. apply clip_block_columns. eapply clip_cols_length. exact Ec.
    + rewrite map_length, block_columns_length. symmetry. eapply clip_cols_length. exact Ec.
  - destruct (clip_cols clipc (map snd (flatten r)) _ _) as [o2|e2]; [discriminate|]. exact IH.
Qed.

Theorem clip_refines (t : tb) lo hi : wf_tb t -> t <> [] ->
  res_map (@flatten A) (M_clip clipc t lo hi) = S_clip clipc (flatten t) (stack_cols lo) (stack_cols hi).
Proof.
  intros Hwf Hne. rewrite <- clip_go_refines. unfold M_clip.
  destruct (clip_go clipc t lo hi) as [bs|e] eqn:E; [|reflexivity].
  destruct bs as [|b0 bs]; [|reflexivity]. exfalso.
  destruct t as [|b r]; [congruence|]. cbn [clip_go] in E.
  destruct (take_bound lo _) as [[? ?]|]; [|discriminate]. destruct (take_bound hi _) as [[? ?]|]; [|discriminate].
  destruct (clip_cols clipc _ _ _); [|discriminate]. destruct (clip_go clipc r _ _); discriminate.
Qed.

(* every pair (receiver layout, bound layouts): only the columns matter *)
Corollary clip_layout_independent (t1 t2 : tb) lo1 hi1 lo2 hi2 : wf_tb t1 -> wf_tb t2 -> t1 <> [] -> t2 <> [] ->
  flatten t1 = flatten t2 -> stack_cols lo1 = stack_cols lo2 -> stack_cols hi1 = stack_cols hi2 ->
  res_map (@flatten A) (M_clip clipc t1 lo1 hi1) = res_map (@flatten A) (M_clip clipc t2 lo2 hi2).
Proof. intros W1 W2 N1 N2 E El Eh. rewrite !clip_refines by assumption. now rewrite E, El, Eh. Qed.

End ClipProofs.

(* ---------- 1-D operand along the rows: chopped per block = zipped per column ---------- *)
Section BinopRowProofs.
Context {A B : Type}.
Variable opc : A -> B -> A.
Variable fd : dtype -> dtype.

Lemma combine_app_l {X Y} (l1 l2 : list X) (o : list Y) :
  combine (l1 ++ l2) o = combine l1 (firstn (length l1) o) ++ combine l2 (skipn (length l1) o).
Proof.
  revert o. induction l1 as [|x l1 IH]; intros o; [reflexivity|].
  destruct o as [|y o]; cbn; [now destruct l2|]. f_equal. apply IH.
Qed.

Lemma skipn_plus {X} (l : list X) : forall a b, skipn a (skipn b l) = skipn (b + a) l.
Proof.
  induction l as [|x l IH]; intros a b; [now rewrite !skipn_nil|].
  destruct b as [|b]; [reflexivity|]. cbn [skipn Nat.add]. apply IH.
Qed.

Lemma binop_row_go_flatten (t : tb A) : forall start (other : list B),
  flatten (binop_row_go opc fd t start other)
  = map (fun co => (fd (fst (fst co)), map (fun x => opc x (snd co)) (snd (fst co)))) (combine (flatten t) (skipn start other)).
Proof.
  induction t as [|b r IH]; intros start other; [reflexivity|].
  cbn [binop_row_go]. rewrite !flatten_cons, IH, combine_app_l, map_app. f_equal.
  - replace (start + length (b_cols b) - start)%nat with (length (b_cols b)) by lia.
    rewrite block_columns_length. unfold binop_block, block_columns. cbn [b_dtype b_cols].
    set (part := firstn (length (b_cols b)) (skipn start other)). clearbody part.
    generalize (b_cols b). intros cs. revert part. induction cs as [|c cs IHc]; intros [|o part]; try reflexivity.
    cbn. f_equal. apply IHc.
  - rewrite block_columns_length, skipn_plus. reflexivity.
Qed.

Theorem binop_row_refines (t : tb A) (other : list B) : wf_tb t -> t <> [] ->
  res_map (@flatten A) (M_binop_row opc fd t other) = S_binop_row opc fd (flatten t) other.
Proof.
  intros Hwf Hne. unfold M_binop_row, S_binop_row. rewrite tb_column_count_spec.
  replace (Z.of_nat (length other) =? Z.of_nat (length (flatten t))) with (Nat.eqb (length other) (length (flatten t)))
    by (destruct (Nat.eqb_spec (length other) (length (flatten t))); lia).
  destruct (Nat.eqb (length other) (length (flatten t))); cbn [negb]; [|reflexivity].
  destruct t as [|b r]; [congruence|]. cbn [binop_row_go from_blocks_gen res_map].
  change (binop_block opc fd b (firstn (0 + length (b_cols b) - 0) (skipn 0 other)) :: binop_row_go opc fd r (0 + length (b_cols b)) other)
    with (binop_row_go opc fd (b :: r) 0 other).
  rewrite binop_row_go_flatten. reflexivity.
Qed.
End BinopRowProofs.
