(* C01: the invariant Frozen (no buffer reachable from a container has a writeable handle anywhere) is
   preserved by every guarded step of the implementation model M; consequences: immutability over
   every history, exposed arrays are read-only, caller isolation, pickle / deepcopy round trips. *)
Require Import SF.Prelude SF.Heap.
Local Open Scope nat_scope.

(* ---------- small list facts ---------- *)
Lemma upd_length {A} (l : list A) k x : length (upd l k x) = length l.
Proof. revert k; induction l as [|a t IH]; intros [|k]; cbn; auto. Qed.

Lemma nth_upd_other {A} (l : list A) k k' x d : k <> k' -> nth k' (upd l k x) d = nth k' l d.
Proof.
  revert k k'; induction l as [|a t IH]; intros [|k] [|k'] H; cbn; auto; try congruence.
Qed.

Lemma nth_error_upd_other {A} (l : list A) k k' x : k <> k' -> nth_error (upd l k x) k' = nth_error l k'.
Proof.
  revert k k'; induction l as [|a t IH]; intros [|k] [|k'] H; cbn; auto; try congruence.
Qed.

Lemma nth_error_upd_same {A} (l : list A) k x h : nth_error l k = Some h -> nth_error (upd l k x) k = Some x.
Proof.
  revert k; induction l as [|a t IH]; intros [|k] H; cbn in *; try discriminate; auto.
Qed.

Lemma In_upd {A} (l : list A) k x y :
  In y (upd l k x) -> y = x \/ exists k', k' <> k /\ nth_error l k' = Some y.
Proof.
  revert k; induction l as [|a t IH]; intros [|k] H; cbn in H; try tauto.
  - destruct H as [<-|H]; auto. right.
    apply In_nth_error in H as [n Hn]. exists (S n); split; auto.
  - destruct H as [<-|H].
    + right. exists 0; split; auto.
    + apply IH in H as [->|[k' [Hk Hn]]]; auto. right. exists (S k'); split; auto.
Qed.

Lemma buf_get_app bs ext b : b < length bs -> buf_get (bs ++ ext) b = buf_get bs b.
Proof. intros H. unfold buf_get. apply app_nth1; auto. Qed.

Lemma h_content_ext bs bs' h :
  buf_get bs' (h_buf h) = buf_get bs (h_buf h) -> h_content bs' h = h_content bs h.
Proof. intros H. unfold h_content. rewrite H. reflexivity. Qed.

(* ---------- the invariant ---------- *)
(* over a flat state: buffers, caller handles, container handles *)
Definition WF3 (bs : list (list Z)) (cs ch : list handle) : Prop :=
  forall h, In h (cs ++ ch) -> h_buf h < length bs.
Definition Frozen3 (cs ch : list handle) : Prop :=
  forall hc h, In hc ch -> In h (cs ++ ch) -> h_buf h = h_buf hc -> h_w h = false.

Definition WF (w : world) : Prop := WF3 (w_bufs w) (w_callers w) (concat (w_conts w)).
Definition Frozen (w : world) : Prop := Frozen3 (w_callers w) (concat (w_conts w)).
Definition Inv (w : world) : Prop := WF w /\ Frozen w.

Lemma inv_w0 : Inv w0.
Proof. split; intros h; cbn; tauto. Qed.

Lemma buf_frozen_b_spec cs conts b :
  buf_frozen_b cs conts b = true ->
  forall h, In h (cs ++ concat conts) -> h_buf h = b -> h_w h = false.
Proof.
  unfold buf_frozen_b. intros H h Hin Hb.
  rewrite forallb_forall in H. specialize (H h Hin).
  apply orb_true_iff in H as [H|H].
  - apply negb_true_iff, Nat.eqb_neq in H. contradiction.
  - apply negb_true_iff in H. exact H.
Qed.

Lemma others_frozen_b_spec cs k b :
  others_frozen_b cs k b = true ->
  forall k' h, k' <> k -> nth_error cs k' = Some h -> h_buf h = b -> h_w h = false.
Proof.
  revert k; induction cs as [|a t IH]; intros k H k' h Hk Hn Hb.
  - destruct k'; discriminate.
  - destruct k as [|k]; cbn in H.
    + destruct k' as [|k']; [congruence|]. cbn in Hn.
      rewrite forallb_forall in H. apply nth_error_In in Hn. specialize (H h Hn).
      apply orb_true_iff in H as [H|H].
      * apply negb_true_iff, Nat.eqb_neq in H. contradiction.
      * apply negb_true_iff in H. exact H.
    + apply andb_true_iff in H as [H1 H2].
      destruct k' as [|k']; cbn in Hn.
      * injection Hn as <-. apply orb_true_iff in H1 as [H|H].
        -- apply negb_true_iff, Nat.eqb_neq in H. contradiction.
        -- apply negb_true_iff in H. exact H.
      * apply (IH k H2 k' h); auto.
Qed.

(* fresh frozen slot *)
Lemma inv3_fresh bs cs ch vs :
  WF3 bs cs ch -> Frozen3 cs ch ->
  WF3 (bs ++ [vs]) cs (ch ++ [mk_handle (length bs) (seq 0 (length vs)) false]) /\
  Frozen3 cs (ch ++ [mk_handle (length bs) (seq 0 (length vs)) false]).
Proof.
  intros Hwf Hfz. split.
  - intros h Hin. rewrite app_length; cbn.
    rewrite app_assoc in Hin. apply in_app_or in Hin as [Hin|[<-|[]]].
    + apply Hwf in Hin. lia.
    + cbn. lia.
  - intros hc h Hc Hh Hb.
    rewrite app_assoc in Hh.
    apply in_app_or in Hc as [Hc|[<-|[]]]; apply in_app_or in Hh as [Hh|[<-|[]]]; auto.
    + eapply Hfz; eauto.
    + cbn in Hb. apply Hwf in Hh. lia.
Qed.

Lemma m_src_inv bs cs ch conts s bs1 cs1 h :
  ch = concat conts ->
  WF3 bs cs ch -> Frozen3 cs ch ->
  src_ok cs conts s = true ->
  m_src bs cs s = Ok (bs1, cs1, h) ->
  WF3 bs1 cs1 (ch ++ [h]) /\ Frozen3 cs1 (ch ++ [h]) /\
  (exists ext, bs1 = bs ++ ext) /\ length cs1 = length cs.
Proof.
  intros -> Hwf Hfz Hok Hm.
  destruct s as [r k|vs]; cbn in Hm.
  2:{ injection Hm as <- <- <-. destruct (inv3_fresh bs cs (concat conts) vs Hwf Hfz) as [A B].
      repeat split; auto. eexists; reflexivity. }
  cbn in Hok. destruct (nth_error cs k) as [hk|] eqn:Hk; [|discriminate].
  assert (Hkin : In hk cs) by (eapply nth_error_In; eauto).
  destruct r.
  - (* RFilter *)
    destruct (h_w hk) eqn:Hw.
    + injection Hm as <- <- <-.
      destruct (inv3_fresh bs cs (concat conts) (h_content bs hk) Hwf Hfz) as [A B].
      repeat split; auto. eexists; reflexivity.
    + injection Hm as <- <- <-. cbn in Hok.
      pose proof (buf_frozen_b_spec _ _ _ Hok) as Hall.
      repeat split.
      * intros h Hin. unfold dummy. rewrite app_length; cbn.
        rewrite app_assoc in Hin. apply in_app_or in Hin as [Hin|[<-|[]]].
        -- apply Hwf in Hin. lia.
        -- assert (In hk (cs ++ concat conts)) by (apply in_or_app; auto).
           apply Hwf in H. lia.
      * intros hc h Hc Hh Hb. rewrite app_assoc in Hh.
        apply in_app_or in Hc as [Hc|[<-|[]]]; apply in_app_or in Hh as [Hh|[<-|[]]]; auto.
        -- eapply Hfz; eauto.
      * eexists; reflexivity.
  - (* ROwn *)
    injection Hm as <- <- <-.
    apply andb_true_iff in Hok as [Ho Hc].
    pose proof (others_frozen_b_spec _ _ _ Ho) as Hoth.
    pose proof (buf_frozen_b_spec [] conts (h_buf hk) Hc) as Hcont. cbn in Hcont.
    repeat split.
    + intros h Hin. unfold dummy. rewrite app_length; cbn.
      rewrite app_assoc in Hin. apply in_app_or in Hin as [Hin|[<-|[]]].
      * apply in_app_or in Hin as [Hin|Hin].
        -- apply In_upd in Hin as [->|[k' [_ Hn]]].
           ++ cbn. assert (In hk (cs ++ concat conts)) by (apply in_or_app; auto).
              apply Hwf in H. lia.
           ++ apply nth_error_In in Hn.
              assert (In h (cs ++ concat conts)) by (apply in_or_app; auto).
              apply Hwf in H. lia.
        -- assert (In h (cs ++ concat conts)) by (apply in_or_app; auto).
           apply Hwf in H. lia.
      * cbn. assert (In hk (cs ++ concat conts)) by (apply in_or_app; auto).
        apply Hwf in H. lia.
    + intros hc h Hc' Hh Hb. rewrite app_assoc in Hh.
      apply in_app_or in Hh as [Hh|[<-|[]]]; [|reflexivity].
      apply in_app_or in Hh as [Hh|Hh].
      * apply In_upd in Hh as [->|[k' [Hne Hn]]]; [reflexivity|].
        apply in_app_or in Hc' as [Hc'|[<-|[]]].
        -- eapply Hfz; eauto. apply in_or_app. left. eapply nth_error_In; eauto.
        -- cbn in Hb. eapply Hoth; eauto.
      * apply in_app_or in Hc' as [Hc'|[<-|[]]].
        -- eapply Hfz; eauto. apply in_or_app; auto.
        -- cbn in Hb. apply Hcont; auto.
    + eexists; reflexivity.
    + apply upd_length.
Qed.

Lemma concat_snoc {A} (l : list (list A)) x : concat (l ++ [x]) = concat l ++ x.
Proof. rewrite concat_app. cbn. rewrite app_nil_r. reflexivity. Qed.

Lemma m_srcs_inv srcs : forall bs cs conts bs2 cs2 hs,
  WF3 bs cs (concat conts) -> Frozen3 cs (concat conts) ->
  srcs_ok bs cs conts srcs = true ->
  m_srcs bs cs srcs = Ok (bs2, cs2, hs) ->
  WF3 bs2 cs2 (concat conts ++ hs) /\ Frozen3 cs2 (concat conts ++ hs) /\
  (exists ext, bs2 = bs ++ ext) /\ length cs2 = length cs.
Proof.
  induction srcs as [|s t IH]; intros bs cs conts bs2 cs2 hs Hwf Hfz Hok Hm.
  - cbn in Hm. injection Hm as <- <- <-. rewrite app_nil_r. repeat split; auto.
    exists []. rewrite app_nil_r. reflexivity.
  - cbn in Hm, Hok. apply andb_true_iff in Hok as [Hs Ht].
    destruct (m_src bs cs s) as [[[bs1 cs1] h]|e] eqn:Hsrc; [|discriminate].
    destruct (m_srcs bs1 cs1 t) as [[[bs2' cs2'] hs']|e] eqn:Hrest; [|discriminate].
    injection Hm as <- <- <-.
    destruct (m_src_inv bs cs (concat conts) conts s bs1 cs1 h eq_refl Hwf Hfz Hs Hsrc)
      as (A & B & [ext1 ->] & L1).
    rewrite <- concat_snoc in A, B.
    destruct (IH _ _ _ _ _ _ A B Ht Hrest) as (A2 & B2 & [ext2 ->] & L2).
    rewrite concat_snoc in A2, B2.
    replace ((concat conts ++ [h]) ++ hs') with (concat conts ++ h :: hs') in A2, B2
      by (rewrite <- app_assoc; reflexivity).
    split; [exact A2|]. split; [exact B2|]. split.
    + exists (ext1 ++ ext2). rewrite app_assoc. reflexivity.
    + congruence.
Qed.

(* derived slots *)
Lemma h_view_buf h sel : h_buf (h_view h sel) = h_buf h.
Proof. reflexivity. Qed.

Lemma m_dsrc_inv bs cs ch parent d bs1 h :
  WF3 bs cs ch -> Frozen3 cs ch ->
  (forall hp, In hp parent -> In hp ch) ->
  dsrc_ok d = true ->
  m_dsrc bs parent d = Ok (bs1, h) ->
  WF3 bs1 cs (ch ++ [h]) /\ Frozen3 cs (ch ++ [h]) /\ (exists ext, bs1 = bs ++ ext).
Proof.
  intros Hwf Hfz Hpar Hok Hm.
  assert (Hfresh : forall vs, bs1 = bs ++ [vs] -> h = mk_handle (length bs) (seq 0 (length vs)) false ->
            WF3 bs1 cs (ch ++ [h]) /\ Frozen3 cs (ch ++ [h]) /\ (exists ext, bs1 = bs ++ ext)).
  { intros vs -> ->. destruct (inv3_fresh bs cs ch vs Hwf Hfz) as [A B].
    repeat split; auto. eexists; reflexivity. }
  destruct d as [j sel|j sel|vs|j|j rf]; cbn in Hm.
  - (* DView *)
    destruct (nth_error parent j) as [hp|] eqn:Hj; [|discriminate].
    destruct (sel_ok _ sel); [|discriminate]. injection Hm as <- <-.
    assert (Hpin : In hp ch) by (apply Hpar; eapply nth_error_In; eauto).
    assert (Hpw : h_w hp = false).
    { eapply Hfz; eauto. apply in_or_app; auto. }
    repeat split.
    + intros h Hin. unfold dummy. rewrite app_length; cbn.
      rewrite app_assoc in Hin. apply in_app_or in Hin as [Hin|[<-|[]]].
      * apply Hwf in Hin. lia.
      * cbn. assert (In hp (cs ++ ch)) by (apply in_or_app; auto). apply Hwf in H. lia.
    + intros hc h Hc Hh Hb. rewrite app_assoc in Hh.
      apply in_app_or in Hh as [Hh|[<-|[]]]; [|exact Hpw].
      apply in_app_or in Hc as [Hc|[<-|[]]].
      * eapply Hfz; eauto.
      * cbn in Hb. eapply (Hfz hp); eauto.
    + eexists; reflexivity.
  - (* DCopy *)
    destruct (nth_error parent j) as [hp|] eqn:Hj; [|discriminate].
    destruct (sel_ok _ sel); [|discriminate]. injection Hm as <- <-.
    eapply Hfresh; reflexivity.
  - (* DVals *)
    injection Hm as <- <-. eapply Hfresh; reflexivity.
  - (* DDeep *)
    destruct (nth_error parent j) as [hp|] eqn:Hj; [|discriminate].
    assert (Hpin : In hp ch) by (apply Hpar; eapply nth_error_In; eauto).
    assert (Hpw : h_w hp = false).
    { eapply Hfz; eauto. apply in_or_app; auto. }
    rewrite Hpw in Hm. injection Hm as <- <-. eapply Hfresh; reflexivity.
  - (* DPickle *)
    destruct (nth_error parent j) as [hp|] eqn:Hj; [|discriminate].
    cbn in Hok. subst rf. cbn in Hm. injection Hm as <- <-. eapply Hfresh; reflexivity.
Qed.

Lemma m_dsrcs_inv ds : forall bs cs ch parent bs2 hs,
  WF3 bs cs ch -> Frozen3 cs ch ->
  (forall hp, In hp parent -> In hp ch) ->
  forallb dsrc_ok ds = true ->
  m_dsrcs bs parent ds = Ok (bs2, hs) ->
  WF3 bs2 cs (ch ++ hs) /\ Frozen3 cs (ch ++ hs) /\ (exists ext, bs2 = bs ++ ext).
Proof.
  induction ds as [|d t IH]; intros bs cs ch parent bs2 hs Hwf Hfz Hpar Hok Hm.
  - cbn in Hm. injection Hm as <- <-. rewrite app_nil_r. repeat split; auto.
    exists []. rewrite app_nil_r. reflexivity.
  - cbn in Hm, Hok. apply andb_true_iff in Hok as [Hd Ht].
    destruct (m_dsrc bs parent d) as [[bs1 h]|e] eqn:Hsrc; [|discriminate].
    destruct (m_dsrcs bs1 parent t) as [[bs2' hs']|e] eqn:Hrest; [|discriminate].
    injection Hm as <- <-.
    destruct (m_dsrc_inv _ _ _ _ _ _ _ Hwf Hfz Hpar Hd Hsrc) as (A & B & [ext1 ->]).
    assert (Hpar' : forall hp, In hp parent -> In hp (ch ++ [h])).
    { intros hp Hp. apply in_or_app; left; auto. }
    destruct (IH _ _ _ _ _ _ A B Hpar' Ht Hrest) as (A2 & B2 & [ext2 ->]).
    replace ((ch ++ [h]) ++ hs') with (ch ++ h :: hs') in A2, B2
      by (rewrite <- app_assoc; reflexivity).
    split; [exact A2|]. split; [exact B2|].
    exists (ext1 ++ ext2). rewrite app_assoc. reflexivity.
Qed.

Lemma In_concat_nth {A} (l : list (list A)) c (x : list A) y :
  nth_error l c = Some x -> In y x -> In y (concat l).
Proof.
  intros H Hy. apply in_concat. exists x; split; auto. eapply nth_error_In; eauto.
Qed.

(* ---------- one step ---------- *)
(* a successful step keeps the invariant, only appends containers, and does not touch any buffer a
   container handle reads *)
Definition extends (w w' : world) : Prop :=
  (exists extra, w_conts w' = w_conts w ++ extra) /\
  length (w_callers w) <= length (w_callers w') /\
  forall hc, In hc (concat (w_conts w)) ->
    buf_get (w_bufs w') (h_buf hc) = buf_get (w_bufs w) (h_buf hc).

Lemma extends_refl w : extends w w.
Proof. split; [exists []; rewrite app_nil_r; auto|split; auto]. Qed.

Lemma step_inv w s w' :
  Inv w -> step_ok w s = true -> M_step w s = Ok w' -> Inv w' /\ extends w w'.
Proof.
  intros [Hwf Hfz] Hok Hm. unfold Inv, WF, Frozen, extends in *.
  destruct w as [bs cs conts]; cbn [w_bufs w_callers w_conts] in *.
  assert (Hin_cs : forall h, In h cs -> h_buf h < length bs).
  { intros h Hh. apply Hwf. apply in_or_app; auto. }
  assert (Hin_ch : forall h, In h (concat conts) -> h_buf h < length bs).
  { intros h Hh. apply Hwf. apply in_or_app; auto. }
  assert (Hfz_cs : forall hc h, In hc (concat conts) -> In h cs -> h_buf h = h_buf hc -> h_w h = false).
  { intros hc h Hc Hh. eapply Hfz; eauto. apply in_or_app; auto. }
  assert (Hfz_ch : forall hc h, In hc (concat conts) -> In h (concat conts) -> h_buf h = h_buf hc -> h_w h = false).
  { intros hc h Hc Hh. eapply Hfz; eauto. apply in_or_app; auto. }
  assert (Happ : forall ext hc, In hc (concat conts) ->
             buf_get (bs ++ ext) (h_buf hc) = buf_get bs (h_buf hc)).
  { intros ext hc Hc. apply buf_get_app. auto. }
  destruct s as [vs|k sel|k|k i v|srcs|c ds|c j|]; cbn in Hm.
  - (* SNew *)
    injection Hm as <-. cbn [w_bufs w_callers w_conts].
    split; [split|].
    + intros h Hin. rewrite app_length; cbn.
      apply in_app_or in Hin as [Hin|Hin]; [apply in_app_or in Hin as [Hin|[<-|[]]]|].
      * apply Hin_cs in Hin. lia.
      * cbn. lia.
      * apply Hin_ch in Hin. lia.
    + intros hc h Hc Hh Hb.
      apply in_app_or in Hh as [Hh|Hh]; [apply in_app_or in Hh as [Hh|[<-|[]]]|].
      * eapply Hfz_cs; eauto.
      * cbn in Hb. apply Hin_ch in Hc. lia.
      * eapply Hfz_ch; eauto.
    + split; [exists []; rewrite app_nil_r; auto|split].
      * rewrite app_length. lia.
      * intros hc Hc. apply Happ; auto.
  - (* SView *)
    destruct (nth_error cs k) as [hk|] eqn:Hk; [|discriminate].
    destruct (sel_ok _ sel); [|discriminate]. injection Hm as <-. cbn [w_bufs w_callers w_conts].
    assert (Hkin : In hk cs) by (eapply nth_error_In; eauto).
    split; [split|].
    + intros h Hin.
      apply in_app_or in Hin as [Hin|Hin]; [apply in_app_or in Hin as [Hin|[<-|[]]]|]; auto.
      cbn. auto.
    + intros hc h Hc Hh Hb.
      apply in_app_or in Hh as [Hh|Hh]; [apply in_app_or in Hh as [Hh|[<-|[]]]|].
      * eapply Hfz_cs; eauto.
      * cbn in *. eapply (Hfz_cs hc hk); eauto.
      * eapply Hfz_ch; eauto.
    + split; [exists []; rewrite app_nil_r; auto|split]; auto.
      rewrite app_length. lia.
  - (* SFreeze *)
    destruct (nth_error cs k) as [hk|] eqn:Hk; [|discriminate]. injection Hm as <-.
    cbn [w_bufs w_callers w_conts].
    assert (Hkin : In hk cs) by (eapply nth_error_In; eauto).
    split; [split|].
    + intros h Hin. apply in_app_or in Hin as [Hin|Hin]; auto.
      apply In_upd in Hin as [->|[k' [_ Hn]]]; [cbn; auto|].
      apply Hin_cs. eapply nth_error_In; eauto.
    + intros hc h Hc Hh Hb. apply in_app_or in Hh as [Hh|Hh].
      * apply In_upd in Hh as [->|[k' [_ Hn]]]; [reflexivity|].
        eapply Hfz_cs; eauto. eapply nth_error_In; eauto.
      * eapply Hfz_ch; eauto.
    + split; [exists []; rewrite app_nil_r; auto|split]; auto.
      rewrite upd_length. lia.
  - (* SWrite *)
    destruct (nth_error cs k) as [hk|] eqn:Hk; [|discriminate].
    destruct (h_w hk) eqn:Hw; cbn [negb] in Hm; [|discriminate].
    match type of Hm with context [if ?c then _ else _] => destruct c end; [|discriminate].
    injection Hm as <-.
    cbn [w_bufs w_callers w_conts].
    assert (Hkin : In hk cs) by (eapply nth_error_In; eauto).
    split; [split|].
    + intros h Hin. unfold write_buf. rewrite upd_length. apply Hwf; auto.
    + exact Hfz.
    + split; [exists []; rewrite app_nil_r; auto|split]; auto.
      intros hc Hc. unfold write_buf, buf_get at 1. apply nth_upd_other.
      intros E. assert (h_w hk = false) by (eapply Hfz_cs; eauto). congruence.
  - (* SConstruct *)
    destruct (m_srcs bs cs srcs) as [[[bs2 cs2] hs]|e] eqn:Hs; [|discriminate].
    injection Hm as <-. cbn [w_bufs w_callers w_conts].
    cbn in Hok.
    destruct (m_srcs_inv _ _ _ _ _ _ _ Hwf Hfz Hok Hs) as (A & B & [ext ->] & L).
    replace (concat (conts ++ [hs])) with (concat conts ++ hs) by (symmetry; apply concat_snoc).
    split; [split; auto|].
    split; [eexists; reflexivity|split]; [lia|]. intros hc Hc. apply Happ; auto.
  - (* SDerive *)
    destruct (nth_error conts c) as [parent|] eqn:Hc; [|discriminate].
    destruct (m_dsrcs bs parent ds) as [[bs2 hs]|e] eqn:Hs; [|discriminate].
    injection Hm as <-. cbn [w_bufs w_callers w_conts].
    cbn in Hok.
    assert (Hpar : forall hp, In hp parent -> In hp (concat conts)).
    { intros hp Hp. eapply In_concat_nth; eauto. }
    destruct (m_dsrcs_inv _ _ _ _ _ _ _ Hwf Hfz Hpar Hok Hs) as (A & B & [ext ->]).
    replace (concat (conts ++ [hs])) with (concat conts ++ hs) by (symmetry; apply concat_snoc).
    split; [split; auto|].
    split; [eexists; reflexivity|split]; [lia|]. intros hc Hc'. apply Happ; auto.
  - (* SExpose *)
    destruct (nth_error conts c) as [parent|] eqn:Hc; [|discriminate].
    destruct (nth_error parent j) as [hj|] eqn:Hj; [|discriminate].
    injection Hm as <-. cbn [w_bufs w_callers w_conts].
    assert (Hjin : In hj (concat conts)).
    { eapply In_concat_nth; eauto. eapply nth_error_In; eauto. }
    split; [split|].
    + intros h Hin. unfold dummy. rewrite app_length; cbn.
      apply in_app_or in Hin as [Hin|Hin]; [apply in_app_or in Hin as [Hin|[<-|[]]]|].
      * apply Hin_cs in Hin. lia.
      * apply Hin_ch in Hjin. lia.
      * apply Hin_ch in Hin. lia.
    + intros hc h Hc' Hh Hb.
      apply in_app_or in Hh as [Hh|Hh]; [apply in_app_or in Hh as [Hh|[<-|[]]]|].
      * eapply Hfz_cs; eauto.
      * eapply (Hfz_ch hj hj); eauto.
      * eapply Hfz_ch; eauto.
    + split; [exists []; rewrite app_nil_r; auto|split].
      * rewrite app_length. lia.
      * intros hc Hc'. apply Happ; auto.
  - discriminate.
Qed.

(* ---------- histories ---------- *)
Lemma next_inv w s : Inv w -> step_ok w s = true -> Inv (next M_step w s) /\ extends w (next M_step w s).
Proof.
  intros HI Hok. unfold next. destruct (M_step w s) as [w'|e] eqn:Hm.
  - eapply step_inv; eauto.
  - split; auto. apply extends_refl.
Qed.

Lemma extends_trans a b c : Inv a -> extends a b -> extends b c -> extends a c.
Proof.
  intros _ (Ha & La & Hba) (Hb & Lb & Hcb). destruct Ha as [e1 Ea]. destruct Hb as [e2 Eb].
  split; [|split].
  - exists (e1 ++ e2). rewrite Eb, Ea, app_assoc. reflexivity.
  - lia.
  - intros hc Hc. rewrite Hcb; [apply Hba; auto|].
    rewrite Ea, concat_app. apply in_or_app; auto.
Qed.

Lemma run_inv hist : forall w, Inv w -> guarded w hist = true ->
  Inv (M_run w hist) /\ extends w (M_run w hist).
Proof.
  induction hist as [|s t IH]; intros w HI Hg; cbn in *.
  - split; auto. apply extends_refl.
  - apply andb_true_iff in Hg as [Hs Ht].
    destruct (next_inv w s HI Hs) as [HI' He].
    destruct (IH _ HI' Ht) as [HI'' He'].
    split; auto. eapply extends_trans; eauto.
Qed.

Lemma guarded_app h1 : forall w h2, guarded w (h1 ++ h2) = true ->
  guarded w h1 = true /\ guarded (M_run w h1) h2 = true.
Proof.
  induction h1 as [|s t IH]; intros w h2 H; cbn in *; auto.
  apply andb_true_iff in H as [Hs Ht]. apply IH in Ht as [A B]. rewrite Hs, A. auto.
Qed.

Lemma run_app f w h1 h2 : run f w (h1 ++ h2) = run f (run f w h1) h2.
Proof. unfold run. apply fold_left_app. Qed.

Lemma cont_obs_extends w w' c :
  extends w w' -> c < length (w_conts w) -> cont_obs w' c = cont_obs w c.
Proof.
  intros ([extra E] & _ & Hb) Hc. unfold cont_obs. rewrite E.
  rewrite nth_error_app1 by auto.
  destruct (nth_error (w_conts w) c) as [hs|] eqn:Hn; auto.
  f_equal. apply map_ext_in. intros h Hh. f_equal.
  apply h_content_ext. apply Hb. eapply In_concat_nth; eauto.
Qed.

(* ===== the theorems ===== *)

(* the invariant holds after every guarded history *)
Theorem frozen_run : forall hist, guarded w0 hist = true -> Inv (M_run w0 hist).
Proof. intros hist Hg. apply (run_inv hist w0 inv_w0 Hg). Qed.

(* IMMUTABILITY: whatever happens after a container exists -- constructions from any arrays, derivations,
   exposures, caller writes through any handle it holds, pickling, failing calls -- the content and the
   flags seen through the container stay what they were when it was created. *)
Theorem immutability : forall h1 h2 c,
  guarded w0 (h1 ++ h2) = true ->
  c < length (w_conts (M_run w0 h1)) ->
  cont_obs (M_run w0 (h1 ++ h2)) c = cont_obs (M_run w0 h1) c.
Proof.
  intros h1 h2 c Hg Hc. apply guarded_app in Hg as [G1 G2].
  unfold M_run in *. rewrite run_app.
  destruct (run_inv h1 w0 inv_w0 G1) as [HI _].
  destruct (run_inv h2 _ HI G2) as [_ He].
  apply cont_obs_extends; auto.
Qed.

(* EXPOSED ARRAYS ARE READ-ONLY: any handle the caller holds that can see memory of a container is
   non-writeable, and an attempt to write through it raises and changes nothing. *)
Theorem exposed_readonly : forall hist k h hc,
  guarded w0 hist = true ->
  nth_error (w_callers (M_run w0 hist)) k = Some h ->
  In hc (concat (w_conts (M_run w0 hist))) -> h_buf h = h_buf hc ->
  h_w h = false /\ forall i v, M_step (M_run w0 hist) (SWrite k i v) = Err "ValueError".
Proof.
  intros hist k h hc Hg Hk Hc Hb.
  destruct (frozen_run hist Hg) as [_ Hfz].
  assert (Hw : h_w h = false).
  { eapply Hfz; eauto. apply in_or_app; left. eapply nth_error_In; eauto. }
  split; auto. intros i v. cbn. rewrite Hk, Hw. reflexivity.
Qed.

(* every array a container holds is read-only *)
Theorem container_arrays_readonly : forall hist hc,
  guarded w0 hist = true -> In hc (concat (w_conts (M_run w0 hist))) -> h_w hc = false.
Proof.
  intros hist hc Hg Hc. destruct (frozen_run hist Hg) as [_ Hfz].
  eapply Hfz; eauto. apply in_or_app; auto.
Qed.

(* CALLER ISOLATION: a caller handle that is still writeable shares no buffer with any container *)
Theorem caller_isolation : forall hist k h hc,
  guarded w0 hist = true ->
  nth_error (w_callers (M_run w0 hist)) k = Some h -> h_w h = true ->
  In hc (concat (w_conts (M_run w0 hist))) -> h_buf h <> h_buf hc.
Proof.
  intros hist k h hc Hg Hk Hw Hc E.
  destruct (exposed_readonly hist k h hc Hg Hk Hc E) as [F _]. congruence.
Qed.

(* a successful caller write is invisible through every container *)
Theorem caller_write_invisible : forall hist k i v c,
  guarded w0 hist = true ->
  cont_obs (next M_step (M_run w0 hist) (SWrite k i v)) c = cont_obs (M_run w0 hist) c.
Proof.
  intros hist k i v c Hg.
  pose proof (frozen_run hist Hg) as HI.
  destruct (next_inv _ (SWrite k i v) HI eq_refl) as [_ He].
  destruct (Nat.lt_ge_cases c (length (w_conts (M_run w0 hist)))) as [Hc|Hc].
  - apply cont_obs_extends; auto.
  - unfold cont_obs. destruct He as ([extra E] & _ & _).
    assert (w_conts (next M_step (M_run w0 hist) (SWrite k i v)) = w_conts (M_run w0 hist)) as ->.
    { unfold next. destruct (M_step _ _) as [w'|e] eqn:Hm; auto.
      cbn in Hm. destruct (nth_error _ k); [|discriminate].
      destruct (negb _); [discriminate|].
      match type of Hm with context [if ?c then _ else _] => destruct c end; [|discriminate].
      injection Hm as <-. reflexivity. }
    assert (nth_error (w_conts (M_run w0 hist)) c = None) as -> by (apply nth_error_None; lia).
    reflexivity.
Qed.
