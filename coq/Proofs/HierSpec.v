(* What the nested-loop specification S_select selects, said without loops: for selectors that are `:`, a
   label or a list of labels, exactly the positions whose tuple matches every level selector. *)
Require Import SF.Prelude SF.PySlice SF.Hier Proofs.HierBfs Proofs.HierViews Proofs.HierHloc.

Section Spec.
  Variable A : Type.
  Variable eqb : A -> A -> bool.
  Hypothesis eqb_spec : forall x y, eqb x y = true <-> x = y.
  Notation level := (level A).
  Notation sel := (sel A).
  Notation idx := (index_of A eqb).

  (* a label satisfies a level selector *)
  Definition lab_match (s : sel) (l : A) : bool :=
    match s with
    | SAll => true
    | SOne x => eqb l x
    | SList xs => mem A eqb l xs
    | _ => false
    end.
  Definition simple (s : sel) : bool :=
    match s with SAll | SOne _ | SList _ => true | _ => false end.

  (* the tuple `row`, whose first component sits at depth d, satisfies key[d], key[d+1], ... *)
  Fixpoint row_match (key : list sel) (d : nat) (row : list A) : bool :=
    match row with
    | [] => true
    | l :: row' => lab_match (sel_at key d) l && row_match key (S d) row'
    end.

  Lemma idx_unique : forall ls x i, NoDup ls -> nth_error ls i = Some x -> idx x ls = Some i.
  Proof.
    induction ls as [|y ls IH]; intros x i Hnd Hn; [destruct i; discriminate|].
    inversion Hnd; subst. cbn [index_of]. destruct i as [|i].
    - cbn in Hn. injection Hn as ->. rewrite (proj2 (eqb_spec x x) eq_refl). reflexivity.
    - cbn in Hn. destruct (eqb x y) eqn:E.
      + apply eqb_spec in E. subst. exfalso. apply H1. eapply nth_error_In, Hn.
      + rewrite (IH x i H2 Hn). reflexivity.
  Qed.

  Lemma pick_labels_in : forall ls xs i, In i (pick_labels A eqb ls xs) <-> exists x, In x xs /\ idx x ls = Some i.
  Proof.
    induction xs as [|x xs IH]; intro i.
    - cbn. split; [intros []|intros (x & [] & _)].
    - cbn [pick_labels]. destruct (idx x ls) as [j|] eqn:E.
      + cbn [In]. rewrite IH. split.
        * intros [<-|(y & Hy & Ey)]; [exists x; split; [left; reflexivity|exact E]|exists y; split; [right; exact Hy|exact Ey]].
        * intros (y & [<-|Hy] & Ey); [left; congruence|right; exists y; auto].
      + rewrite IH. split.
        * intros (y & Hy & Ey). exists y. split; [right; exact Hy|exact Ey].
        * intros (y & [<-|Hy] & Ey); [congruence|exists y; auto].
  Qed.

  Lemma mem_true_iff : forall xs l, mem A eqb l xs = true <-> In l xs.
  Proof.
    intros xs l. unfold mem. split.
    - destruct (idx l xs) as [i|] eqn:E; [|discriminate]. intros _.
      destruct (idx_some A eqb eqb_spec _ _ _ E) as [Hn _]. eapply nth_error_In, Hn.
    - intro Hin. destruct (idx l xs) eqn:E; [reflexivity|]. exfalso. eapply idx_none; eauto.
  Qed.

  (* one sibling group *)
  Lemma pick_char : forall inner base (ls : list A) (s : sel), NoDup ls -> simple s = true ->
    exists picked, S_pick A eqb inner base ls s = Ok picked /\
      forall i, In i picked <-> exists l, nth_error ls i = Some l /\ lab_match s l = true.
  Proof.
    intros inner base ls s Hnd Hs. destruct s as [|x|xs|a b|bs|a b k]; try discriminate; cbn [S_pick lab_match].
    - exists (seq 0 (length ls)). split; [reflexivity|]. intro i. rewrite in_seq. split.
      + intros [_ Hi]. destruct (nth_error ls i) as [l|] eqn:E; [exists l; auto|].
        apply nth_error_None in E. lia.
      + intros (l & Hn & _). split; [lia|]. apply nth_error_Some. congruence.
    - destruct (idx x ls) as [i0|] eqn:E.
      + exists [i0]. split; [reflexivity|]. intro i. cbn [In]. split.
        * intros [<-|[]]. exists x. destruct (idx_some A eqb eqb_spec _ _ _ E) as [Hn _].
          split; [exact Hn|apply eqb_spec; reflexivity].
        * intros (l & Hn & Hl). apply eqb_spec in Hl. subst l. left.
          pose proof (idx_unique ls x i Hnd Hn). congruence.
      + exists []. split; [reflexivity|]. intro i. split; [intros []|].
        intros (l & Hn & Hl). apply eqb_spec in Hl. subst l. exfalso.
        eapply idx_none; eauto. eapply nth_error_In, Hn.
    - exists (pick_labels A eqb ls xs). split; [reflexivity|]. intro i. rewrite pick_labels_in. split.
      + intros (x & Hx & Ex). destruct (idx_some A eqb eqb_spec _ _ _ Ex) as [Hn _]. exists x.
        split; [exact Hn|apply mem_true_iff; exact Hx].
      + intros (l & Hn & Hl). exists l. split; [apply mem_true_iff; exact Hl|apply idx_unique; assumption].
  Qed.

  (* rows of a node, by position *)
  Fixpoint fz_base (ks : list level) (i : nat) : nat :=
    match i, ks with
    | S i', k :: ks' => (length (flatten k) + fz_base ks' i')%nat
    | _, _ => O
    end.

  Lemma nth_fz : forall (ks : list level) (ls : list A) I row, length ls = length ks ->
    (nth_error (fz A ks ls) I = Some row <->
     exists i l k j row', nth_error ls i = Some l /\ nth_error ks i = Some k /\
                          nth_error (flatten k) j = Some row' /\ row = l :: row' /\ I = (fz_base ks i + j)%nat).
  Proof.
    induction ks as [|k ks IH]; intros ls I row Hlen.
    - destruct ls; [|discriminate]. cbn. split.
      + destruct I; discriminate.
      + intros (i & l & k & j & row' & H & _). destruct i; discriminate.
    - destruct ls as [|l ls]; [discriminate|]. cbn [fz].
      destruct (Nat.lt_ge_cases I (length (flatten k))) as [Hlt|Hge].
      + rewrite nth_error_app1 by (rewrite map_length; exact Hlt). rewrite nth_error_map. split.
        * destruct (nth_error (flatten k) I) as [r|] eqn:E; [|discriminate]. cbn. intro H. injection H as <-.
          exists O, l, k, I, r. cbn. auto.
        * intros (i & l0 & k0 & j & row' & Hl & Hk & Hj & -> & HI). destruct i as [|i].
          -- cbn in Hl, Hk, HI. injection Hl as <-. injection Hk as <-. subst I. rewrite Hj. reflexivity.
          -- exfalso. cbn [fz_base] in HI. lia.
      + rewrite nth_error_app2 by (rewrite map_length; exact Hge). rewrite map_length.
        rewrite (IH ls (I - length (flatten k))%nat row ltac:(cbn in Hlen; lia)). split.
        * intros (i & l0 & k0 & j & row' & Hl & Hk & Hj & -> & HI).
          exists (S i), l0, k0, j, row'. cbn [nth_error fz_base]. repeat split; auto. lia.
        * intros (i & l0 & k0 & j & row' & Hl & Hk & Hj & -> & HI). destruct i as [|i].
          -- exfalso. cbn in Hk, HI. injection Hk as <-.
             assert (j < length (flatten k))%nat by (apply nth_error_Some; congruence). lia.
          -- exists i, l0, k0, j, row'. cbn [nth_error fz_base] in *. repeat split; auto. lia.
  Qed.

  Lemma nth_bases : forall (ks : list level) (ls : list A) base i,
    nth_error (combine (combine ls (map flatten ks)) (group_bases A base (combine ls (map flatten ks)))) i =
    match nth_error ks i, nth_error ls i with
    | Some k, Some l => Some ((l, flatten k), base + Z.of_nat (fz_base ks i))
    | _, _ => None
    end.
  Proof.
    induction ks as [|k ks IH]; intros ls base i.
    - destruct ls; destruct i; reflexivity.
    - destruct ls as [|l ls]; [destruct i; cbn; [reflexivity|destruct (nth_error ks i); reflexivity]|].
      cbn [map combine group_bases snd]. destruct i as [|i].
      + cbn. repeat f_equal. lia.
      + cbn [nth_error fz_base]. rewrite IH. destruct (nth_error ks i); [|reflexivity].
        destruct (nth_error ls i); [|reflexivity]. do 2 f_equal. unfold zlen. lia.
  Qed.

  Lemma concat_char : forall (G : nat -> res (list Z)) (R : nat -> Z -> Prop),
    (forall i, exists ps, G i = Ok ps /\ forall p, In p ps <-> R i p) ->
    forall picked, exists ps, res_concat (map G picked) = Ok ps /\
      forall p, In p ps <-> exists i, In i picked /\ R i p.
  Proof.
    intros G R HG. induction picked as [|i picked IH].
    - exists []. split; [reflexivity|]. intro p. split; [intros []|intros (i & [] & _)].
    - destruct (HG i) as (ps1 & E1 & C1). destruct IH as (ps2 & E2 & C2).
      exists (ps1 ++ ps2). cbn [map res_concat]. rewrite E1, E2. split; [reflexivity|].
      intro p. rewrite in_app_iff, C1, C2. split.
      + intros [H|(j & Hj & H)]; [exists i; split; [left; reflexivity|exact H]|exists j; split; [right; exact Hj|exact H]].
      + intros (j & [<-|Hj] & H); [left; exact H|right; exists j; auto].
  Qed.

  Variable key : list sel.

  Theorem S_select_char : forall (t : level) h,
    uniform h t = true -> labels_ok A eqb t = true ->
    forall base d, (forall d', (d <= d' <= d + h)%nat -> simple (sel_at key d') = true) ->
    exists ps, S_select A eqb (S h) (flatten t) base key d = Ok ps /\
      forall p, In p ps <->
        exists i row, nth_error (flatten t) i = Some row /\ p = base + Z.of_nat i /\ row_match key d row = true.
  Proof.
    induction t as [o ls|o ls ks IH] using level_ind'; intros h Hu Hl base d Hs.
    - apply uniform_leaf in Hu as [-> _]. cbn [labels_ok] in Hl.
      cbn [S_select flatten]. rewrite (heads_singletons A).
      destruct (pick_char true base ls (sel_at key d) (nodupb_NoDup A eqb eqb_spec _ Hl) (Hs d ltac:(lia)))
        as (picked & -> & C).
      eexists. split; [reflexivity|]. intro p. rewrite in_map_iff. split.
      + intros (i & <- & Hi). apply C in Hi as (l & Hn & Hm). exists i, [l].
        rewrite nth_error_map, Hn. cbn. rewrite Hm. auto.
      + intros (i & row & Hn & -> & Hm). rewrite nth_error_map in Hn.
        destruct (nth_error ls i) as [l|] eqn:E; [|discriminate]. cbn in Hn. injection Hn as <-.
        cbn in Hm. rewrite andb_true_r in Hm. exists i. split; [reflexivity|]. apply C. exists l. auto.
    - apply uniform_node in Hu as (h' & -> & Hlen & Hne & Hk).
      cbn [labels_ok] in Hl. apply andb_true_iff in Hl as [Hl1 Hl2].
      pose proof (nodupb_NoDup A eqb eqb_spec _ Hl1) as Hnd.
      rewrite flatten_node.
      change (S_select A eqb (S (S h')) (fz A ks ls) base key d) with
        (let gs := group_runs A eqb (fz A ks ls) in
         match S_pick A eqb false base (map fst gs) (sel_at key d) with
         | Err e => Err e
         | Ok picked =>
             res_concat (map (fun i => match nth_error (combine gs (group_bases A base gs)) i with
                                       | Some (g, b) => S_select A eqb (S h') (snd g) b key (S d)
                                       | None => Ok []
                                       end) picked)
         end).
      cbv zeta. rewrite (gruns_fz A eqb eqb_spec ks ls h' Hlen Hnd Hk).
      rewrite map_fst_combine by (rewrite map_length; exact Hlen).
      destruct (pick_char false base ls (sel_at key d) Hnd (Hs d ltac:(lia))) as (picked & -> & C).
      set (R := fun (i : nat) (p : Z) => exists l k j row', nth_error ls i = Some l /\ nth_error ks i = Some k /\
                  nth_error (flatten k) j = Some row' /\ p = base + Z.of_nat (fz_base ks i + j) /\
                  row_match key (S d) row' = true).
      destruct (concat_char
                  (fun i => match nth_error (combine (combine ls (map flatten ks))
                                               (group_bases A base (combine ls (map flatten ks)))) i with
                            | Some (g, b) => S_select A eqb (S h') (snd g) b key (S d)
                            | None => Ok []
                            end) R) with (picked := picked) as (ps & E & CC).
      { intro i. rewrite nth_bases. destruct (nth_error ks i) as [k|] eqn:Ek.
        - destruct (nth_error ls i) as [l|] eqn:El.
          + cbn [snd]. assert (Hin : In k ks) by (eapply nth_error_In; eauto).
            rewrite Forall_forall in IH, Hk. rewrite forallb_forall in Hl2.
            destruct (IH k Hin h' (Hk k Hin) (Hl2 k Hin) (base + Z.of_nat (fz_base ks i)) (S d)
                        ltac:(intros d' Hd; apply Hs; lia)) as (ps & E & Cp).
            exists ps. split; [exact E|]. intro p. rewrite Cp. unfold R. split.
            * intros (j & row' & Hj & -> & Hm). exists l, k, j, row'. repeat split; auto. lia.
            * intros (l0 & k0 & j & row' & Hl0 & Hk0 & Hj & -> & Hm). assert (k0 = k) by congruence. subst k0.
              exists j, row'. repeat split; auto. lia.
          + exists []. split; [reflexivity|]. intro p. unfold R. split; [intros []|].
            intros (l0 & k0 & j & row' & Hl0 & _). congruence.
        - exists []. split; [reflexivity|]. intro p. unfold R. split; [intros []|].
          intros (l0 & k0 & j & row' & _ & Hk0 & _). congruence. }
      exists ps. split; [exact E|]. intro p. rewrite CC. split.
      + intros (i & Hi & (l & k & j & row' & Hl0 & Hk0 & Hj & -> & Hm)).
        apply C in Hi as (l' & Hl' & Hlm). assert (l' = l) by congruence. subst l'.
        exists (fz_base ks i + j)%nat, (l :: row'). split; [|split; [reflexivity|]].
        * apply (nth_fz ks ls _ _ Hlen). exists i, l, k, j, row'. auto.
        * cbn [row_match]. rewrite Hlm, Hm. reflexivity.
      + intros (I & row & Hn & -> & Hm).
        apply (nth_fz ks ls _ _ Hlen) in Hn as (i & l & k & j & row' & Hl0 & Hk0 & Hj & -> & ->).
        cbn [row_match] in Hm. apply andb_true_iff in Hm as [Hm1 Hm2].
        exists i. split; [apply C; exists l; auto|]. exists l, k, j, row'. auto.
  Qed.
End Spec.
