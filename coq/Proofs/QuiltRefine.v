(* C19 -- refinement: Quilt selection (M) = selection on the concatenated Frame (S) for every
   order-preserving key, every Bus layout, both label modes; selections touch only addressed members. *)
Require Import SF.Prelude SF.PySlice SF.Value SF.Quilt Proofs.QuiltSeg.

Local Open Scope nat_scope.

Lemma val_eqb_true_eq : forall a b, val_eqb a b = true -> a = b.
Proof.
  fix IH 1. intros [z|b|s|n d|b| | | |u z|u z|s|l] [z'|b'|s'|n' d'|b'| | | |u' z'|u' z'|s'|l'];
    cbn; intros H; try discriminate; try reflexivity.
  - apply Z.eqb_eq in H. congruence.
  - apply Bool.eqb_prop in H. congruence.
  - apply String.eqb_eq in H. congruence.
  - apply andb_true_iff in H as [H1 H2]. apply Z.eqb_eq in H1, H2. congruence.
  - apply Bool.eqb_prop in H. congruence.
  - apply andb_true_iff in H as [H1 H2]. unfold Dtype.tunit_eqb in H1. apply Z.eqb_eq in H1, H2.
    destruct u, u'; cbn in H1; try discriminate; congruence.
  - apply andb_true_iff in H as [H1 H2]. unfold Dtype.tunit_eqb in H1. apply Z.eqb_eq in H1, H2.
    destruct u, u'; cbn in H1; try discriminate; congruence.
  - apply String.eqb_eq in H. congruence.
  - f_equal. revert l' H. induction l as [|x xs IHl]; intros [|y ys] H; try discriminate; [reflexivity|].
    apply andb_true_iff in H as [H1 H2]. apply IH in H1. apply IHl in H2. congruence.
Qed.

Lemma val_eqb_iff a b : val_eqb a b = true <-> a = b.
Proof. split; [apply val_eqb_true_eq | intros ->; apply val_eqb_refl]. Qed.

(* ------------------------------------------------------------------ 1-D theorems *)
Section SegTheorems.
  Variables (B X : Type) (beqb : B -> B -> bool).
  Hypothesis beqb_spec : forall x y, beqb x y = true <-> x = y.
  Notation sbus := (sbus B X).

  Lemma nodupb_NoDup (l : list B) : NoDup l -> nodupb beqb l = true.
  Proof.
    induction 1 as [|x l Hn Hnd IH]; [reflexivity|]. cbn [nodupb]. rewrite IH, andb_true_r.
    apply negb_true_iff. destruct (existsb (beqb x) l) eqn:E; [|reflexivity].
    apply existsb_exists in E as [y [Hy E]]. apply beqb_spec in E. subst. contradiction.
  Qed.

  Lemma NoDup_nodupb (l : list B) : nodupb beqb l = true -> NoDup l.
  Proof.
    induction l as [|x l IH]; intros H; [constructor|]. cbn [nodupb] in H. apply andb_true_iff in H as [H1 H2].
    constructor; [|apply IH; exact H2]. intros Hin. apply negb_true_iff in H1.
    assert (existsb (beqb x) l = true) by (apply existsb_exists; exists x; split; [exact Hin | apply beqb_spec; reflexivity]).
    congruence.
  Qed.

  (* the bus keys of an ascending selection: distinct, in bus order *)
  Lemma keys_step b1 xs (q : sbus) ps1 ps2 : ~ In b1 (map fst q) ->
    (forall p, In p ps1 -> p < length xs) -> (forall p, In p ps2 -> length xs <= p) ->
    dup_filter beqb (take_nat (owners ((b1, xs) :: q)) (ps1 ++ ps2)) =
    (match ps1 with [] => [] | _ :: _ => [b1] end) ++
    dup_filter beqb (take_nat (owners q) (map (fun p => p - length xs) ps2)).
  Proof.
    intros Hnot H1 H2.
    assert (Eown : take_nat (owners ((b1, xs) :: q)) (ps1 ++ ps2) =
                   repeat b1 (length ps1) ++ take_nat (owners q) (map (fun p => p - length xs) ps2)).
    { rewrite owners_cons, take_nat_app. f_equal.
      - rewrite take_nat_left by (intros p Hp; rewrite map_length; apply H1; exact Hp). apply take_nat_const. exact H1.
      - rewrite take_nat_right by (intros p Hp; rewrite map_length; apply H2; exact Hp). rewrite map_length. reflexivity. }
    rewrite Eown, (dup_filter_run B beqb beqb_spec).
    - destruct ps1; reflexivity.
    - intros Hin. apply Hnot. apply owners_in_labels. eapply take_nat_in. exact Hin.
  Qed.

  Lemma keys_ascending : forall (q : sbus) ps,
    NoDup (map fst q) -> asc_nat ps = true -> (forall p, In p ps -> p < length (axis_map q)) ->
    NoDup (dup_filter beqb (take_nat (owners q) ps)) /\
    (forall b, In b (dup_filter beqb (take_nat (owners q) ps)) -> In b (map fst q)).
  Proof.
    induction q as [|[b1 xs] q IH]; intros ps Hnd Hasc Hr.
    - destruct ps as [|p ps]; [split; [constructor | intros b []]|]. specialize (Hr p (or_introl eq_refl)). cbn in Hr. lia.
    - inversion Hnd as [|? ? Hnot Hnd']; subst. cbn [map fst] in Hnot.
      destruct (asc_split (length xs) ps Hasc) as (ps1 & ps2 & -> & H1 & H2 & A1 & A2).
      rewrite keys_step by assumption.
      destruct (IH (map (fun p => p - length xs) ps2) Hnd') as [N I].
      + apply asc_nat_map_sub; assumption.
      + intros p Hp. apply in_map_iff in Hp as [p' [<- Hp']].
        specialize (Hr p' (in_or_app _ _ _ (or_intror Hp'))). specialize (H2 p' Hp').
        rewrite axis_map_cons, app_length, map_length in Hr. lia.
      + split.
        * destruct ps1; [exact N|]. cbn [app]. constructor; [|exact N]. intros Hin. apply Hnot. apply I. exact Hin.
        * intros b Hb. apply in_app_or in Hb as [Hb|Hb].
          -- destruct ps1; [destruct Hb|]. destruct Hb as [<-|[]]. left. reflexivity.
          -- right. apply I. exact Hb.
  Qed.

  Lemma dup_filter_nonempty (l : list B) : l <> [] -> dup_filter beqb l <> [].
  Proof. destruct l; [congruence|]. cbn. discriminate. Qed.

  Lemma in_range_spec n ps : in_range n ps = true <-> (forall p, In p ps -> p < n).
  Proof.
    unfold in_range. rewrite forallb_forall. split; intros H p Hp; specialize (H p Hp).
    - apply Nat.ltb_lt. exact H.
    - apply Nat.ltb_lt. exact H.
  Qed.

  Lemma take_nat_nonempty {Y} (l : list Y) ps : ps <> [] -> (forall p, In p ps -> p < length l) -> take_nat l ps <> [].
  Proof.
    destruct ps as [|p ps]; [congruence|]. intros _ H. rewrite take_nat_cons.
    destruct (nth_error l p) eqn:E; [discriminate|]. apply nth_error_None in E. specialize (H p (or_introl eq_refl)). lia.
  Qed.

  (* SEG-1: for every bus layout and every ascending in-range selection the per-member mask
     algorithm succeeds and its parts, concatenated, are exactly the addressed items in key order *)
  Theorem seg_take_faithful : forall (q : sbus) ps,
    NoDup (map fst q) -> asc_nat ps = true -> in_range (length (axis_map q)) ps = true ->
    exists parts, M_parts beqb q ps = Ok parts /\
                  flatten_parts parts = take_nat (axis_map q) ps /\
                  S_take q ps = Ok (take_nat (axis_map q) ps) /\
                  (ps <> [] -> parts <> []).
  Proof.
    intros q ps Hnd Hasc Hr. unfold M_parts, S_take. rewrite Hr. cbn [negb].
    rewrite (asc_nat_nodup ps Hasc). cbn [negb].
    pose proof (proj1 (in_range_spec _ _) Hr) as Hr'.
    destruct (keys_ascending q ps Hnd Hasc Hr') as [N _].
    rewrite (nodupb_NoDup _ N). cbn [negb].
    eexists. split; [reflexivity|]. split; [|split; [reflexivity|]].
    - unfold flatten_parts. rewrite flat_map_concat_map, map_map, <- flat_map_concat_map. cbn [fst snd].
      rewrite <- (parts_ascending B X beqb beqb_spec q 0 (fun i => memb i ps) ps Hnd Hasc Hr') by (intros; reflexivity).
      apply flat_map_ext_In. intros b _. f_equal. apply (component_as_P B X beqb); exact beqb_spec.
    - intros Hne Hmap. apply map_eq_nil in Hmap. revert Hmap. apply dup_filter_nonempty.
      apply take_nat_nonempty; [exact Hne|]. rewrite <- axis_map_length. exact Hr'.
  Qed.

  (* SEG-2 (laziness): whatever the key, the members a selection asks the Bus for are owners of
     addressed positions -- a member no position falls into is never touched *)
  Lemma take_nat_in_pos {Y} (l : list Y) ps y : In y (take_nat l ps) -> exists p, In p ps /\ nth_error l p = Some y.
  Proof.
    induction ps as [|p ps IH]; [intros []|]. rewrite take_nat_cons. intros H. apply in_app_or in H as [H|H].
    - destruct (nth_error l p) eqn:E; [|destruct H]. destruct H as [<-|[]]. exists p. split; [left; reflexivity | exact E].
    - destruct (IH H) as [p' [Hp E]]. exists p'. split; [right; exact Hp | exact E].
  Qed.

  Theorem seg_touched_addressed : forall (q : sbus) ps b,
    In b (M_touched beqb q ps) -> exists p, In p ps /\ nth_error (owners q) p = Some b.
  Proof.
    intros q ps b. unfold M_touched, M_parts.
    destruct (negb (in_range (length (axis_map q)) ps)); [intros []|].
    destruct (negb (nodup_nat ps)); [intros []|].
    destruct (negb (nodupb beqb (dup_filter beqb (take_nat (owners q) ps)))); [intros []|].
    rewrite map_map. cbn [fst]. rewrite map_id. intros H.
    apply (dup_filter_in B beqb) in H. apply take_nat_in_pos. exact H.
  Qed.
End SegTheorems.

(* ------------------------------------------------------------------ Frame-level theorems *)
Section FrameTheorems.
  Variable A : Type.
  Notation quilt := (quilt A).

  Lemma strip_assemble (q : quilt) sel opp items ops name :
    res_map strip_name (assemble A q sel opp items ops name) = assemble A q sel opp items ops VNone.
  Proof.
    unfold assemble. destruct (key_reduces sel), (key_reduces opp); cbn [res_map strip_name].
    - destruct items as [|bx ?]; [reflexivity|]. destruct ops as [|j ?]; [reflexivity|]. destruct (nth_error (snd (snd bx)) j); reflexivity.
    - destruct items; reflexivity.
    - destruct ops as [|j ?]; [reflexivity|]. destruct (nth_error (q_opp A q) j); reflexivity.
    - reflexivity.
  Qed.

  Lemma take_nat_seq_all {Y} (l : list Y) : take_nat l (seq 0 (length l)) = l.
  Proof.
    induction l as [|y l IH]; [reflexivity|]. cbn [length seq]. rewrite take_nat_cons. cbn [nth_error app]. f_equal.
    rewrite <- seq_shift. change (y :: l) with ([y] ++ l). rewrite take_nat_right.
    - rewrite map_map. cbn [length]. rewrite (map_ext _ (fun x => x)) by (intros; lia). rewrite map_id. exact IH.
    - intros p Hp. apply in_map_iff in Hp as [p' [<- _]]. cbn. lia.
  Qed.

  Lemma asc_nat_seq a n : asc_nat (seq a n) = true.
  Proof.
    revert a; induction n as [|n IH]; intros a; [reflexivity|]. destruct n as [|n]; [reflexivity|].
    specialize (IH (S a)). cbn [seq] in *. rewrite asc_nat_cons, IH, andb_true_r. apply Nat.ltb_lt. lia.
  Qed.

  Lemma in_range_seq n : in_range n (seq 0 n) = true.
  Proof. unfold in_range. apply forallb_forall. intros p Hp. apply in_seq in Hp. apply Nat.ltb_lt. lia. Qed.

  (* QUILT-EXTRACT: Quilt._extract = Frame selection on the concatenated Frame *)
  Lemma extract_gen_faithful : forall ee (q : quilt) sel opp,
    NoDup (map fst (q_bus A q)) -> dom_extract q sel = true ->
    res_map strip_name (M_extract_gen ee q sel opp) = S_extract q sel opp.
  Proof.
    intros ee q sel opp Hnd Hdom.
    unfold dom_extract in Hdom. apply andb_true_iff in Hdom as [Hok Hdom].
    assert (Hnd' : NoDup (map fst (seg_of q))).
    { unfold seg_of. rewrite map_map. cbn [fst]. exact Hnd. }
    unfold M_extract_gen, S_extract. set (sq := seg_of q) in *.
    destruct (key_is_all sel && key_is_all opp) eqn:Eall.
    - apply andb_true_iff in Eall as [Es _]. destruct sel; try discriminate. cbn [key_positions res_bind].
      unfold S_take. rewrite in_range_seq. cbn [negb]. rewrite (asc_nat_nodup _ (asc_nat_seq 0 _)). cbn [negb res_bind].
      rewrite take_nat_seq_all. destruct (opp_positions A q opp) as [ops|e]; cbn [res_bind res_map]; [|reflexivity].
      apply strip_assemble.
    - fold sq in Hdom.
      destruct (key_positions sel (length (axis_map sq))) as [ps|e]; cbn [res_bind res_map]; [|reflexivity].
      apply andb_true_iff in Hdom as [Hasc Hne].
      assert (Hne' : ps <> []) by (destruct ps; [discriminate | congruence]).
      destruct (in_range (length (axis_map sq)) ps) eqn:Hr.
      + destruct (seg_take_faithful val (item A) val_eqb val_eqb_iff sq ps Hnd' Hasc Hr) as (parts & EM & Efl & ES & Hp).
        rewrite EM, ES. cbn [res_bind]. specialize (Hp Hne').
        destruct parts as [|[b xs] rest]; [congruence|].
        destruct (opp_positions A q opp) as [ops|e]; cbn [res_bind res_map]; [|reflexivity].
        rewrite Efl. apply strip_assemble.
      + unfold M_parts, S_take. rewrite Hr. reflexivity.
  Qed.

  Theorem quilt_extract_faithful : forall (q : quilt) sel opp,
    NoDup (map fst (q_bus A q)) -> dom_extract q sel = true ->
    res_map strip_name (M_extract_full q sel opp) = S_extract q sel opp.
  Proof.
    intros q sel opp Hnd Hdom. unfold M_extract_full.
    pose proof Hdom as Hd. unfold dom_extract in Hd. apply andb_true_iff in Hd as [Hok _]. rewrite Hok.
    apply extract_gen_faithful; assumption.
  Qed.

  Lemma values_strip (r : res (qres A)) : res_map values_of (res_map strip_name r) = res_map values_of r.
  Proof. destruct r as [[]|]; reflexivity. Qed.

  (* the array twin Quilt._extract_array *)
  Theorem quilt_extract_array_faithful : forall (q : quilt) sel opp,
    NoDup (map fst (q_bus A q)) -> dom_extract q sel = true ->
    M_extract_array q sel opp = S_extract_array q sel opp.
  Proof.
    intros q sel opp Hnd Hdom. unfold M_extract_array, S_extract_array.
    pose proof Hdom as Hd. unfold dom_extract in Hd. apply andb_true_iff in Hd as [Hok _]. rewrite Hok.
    rewrite <- (extract_gen_faithful "RuntimeError" q sel opp Hnd Hdom). symmetry. apply values_strip.
  Qed.

  (* QUILT-LAZY: a selection asks the Bus only for member Frames that own an addressed position *)
  Theorem quilt_no_full_build : forall (q : quilt) ps b,
    In b (M_touched val_eqb (seg_of q) ps) ->
    exists p, In p ps /\ nth_error (owners (seg_of q)) p = Some b.
  Proof. intros q ps b. apply (seg_touched_addressed val (item A) val_eqb). Qed.
End FrameTheorems.
