(* C19 -- label selection, labels/shape, iteration and windows of a Quilt against the concatenated Frame. *)
Require Import SF.Prelude SF.PySlice SF.Value SF.Quilt Proofs.QuiltSeg Proofs.QuiltRefine.

Local Open Scope nat_scope.

Lemma NoDup_app_intro {Y} (l r : list Y) : NoDup l -> NoDup r -> (forall x, In x l -> ~ In x r) -> NoDup (l ++ r).
Proof.
  induction l as [|x l IH]; intros Hl Hr H; [exact Hr|]. inversion Hl as [|? ? Hn Hl']; subst. cbn [app]. constructor.
  - intros Hin. apply in_app_or in Hin as [Hin|Hin]; [contradiction|]. exact (H x (or_introl eq_refl) Hin).
  - apply IH; [exact Hl' | exact Hr |]. intros y Hy. apply H. right. exact Hy.
Qed.

Section Views.
  Variable A : Type.
  Notation quilt := (quilt A).

  Lemma extract_full_ok (q : quilt) sel opp : axis_map_ok q = true -> M_extract_full q sel opp = M_extract q sel opp.
  Proof. intros H. unfold M_extract_full. rewrite H. reflexivity. Qed.

  (* QUILT-LOC: selection by label = selection by label on the concatenated Frame *)
  Theorem quilt_loc_faithful : forall (q : quilt) lsel lopp,
    NoDup (map fst (q_bus A q)) -> dom_extract_loc q lsel = true ->
    res_map strip_name (M_extract_loc q lsel lopp) = S_extract_loc q lsel lopp.
  Proof.
    intros q lsel lopp Hnd Hdom. unfold dom_extract_loc in Hdom. apply andb_true_iff in Hdom as [Hok Hdom].
    unfold M_extract_loc, S_extract_loc. rewrite Hok. cbn [negb].
    destruct (loc_to_key (q_opp A q) lopp) as [opp|e]; cbn [res_bind res_map]; [|reflexivity].
    destruct (loc_to_key (labels_raw q) lsel) as [sel|e]; cbn [res_bind res_map]; [|reflexivity].
    rewrite <- (extract_full_ok q sel opp Hok). apply quilt_extract_faithful; assumption.
  Qed.

  (* ---- labels ---- *)
  Definition wf_member (f : mframe A) : Prop := length (mf_labels A f) = length (mf_lines A f).

  Lemma wf_quilt_spec (q : quilt) : wf_quilt q = true -> forall bf, In bf (q_bus A q) -> wf_member (snd bf).
  Proof. unfold wf_quilt. rewrite forallb_forall. intros H bf Hbf. specialize (H bf Hbf). apply Nat.eqb_eq in H. exact H. Qed.

  Lemma map_fst_combine {Y Z} (l : list Y) (r : list Z) : length l = length r -> map fst (combine l r) = l.
  Proof. revert r; induction l as [|x l IH]; intros [|y r] H; cbn in *; try reflexivity; try discriminate. f_equal. apply IH. lia. Qed.

  Lemma map_snd_combine {Y Z} (l : list Y) (r : list Z) : length l = length r -> map snd (combine l r) = r.
  Proof. revert r; induction l as [|x l IH]; intros [|y r] H; cbn in *; try reflexivity; try discriminate. f_equal. apply IH. lia. Qed.

  Lemma labels_raw_unfold (retain : bool) (bus : list (val * mframe A)) :
    (forall bf, In bf bus -> wf_member (snd bf)) ->
    map (out_label A retain) (@axis_map val (item A) (map (fun bf => (fst bf, combine (mf_labels A (snd bf)) (mf_lines A (snd bf)))) bus))
    = flat_map (fun bf => map (fun l => if retain then VTup [fst bf; l] else l) (mf_labels A (snd bf))) bus.
  Proof.
    induction bus as [|bf bus IH]; intros Hwf; [reflexivity|]. cbn [map]. rewrite axis_map_cons, map_app. cbn [flat_map]. f_equal.
    - rewrite map_map. unfold out_label. cbn [fst snd].
      rewrite <- (map_fst_combine (mf_labels A (snd bf)) (mf_lines A (snd bf))) at 2 by (apply Hwf; left; reflexivity).
      rewrite map_map. apply map_ext. intros [l ln]. destruct retain; reflexivity.
    - apply IH. intros bf' Hbf'. apply Hwf. right. exact Hbf'.
  Qed.

  Lemma tup_labels_nodup (bus : list (val * mframe A)) :
    NoDup (map fst bus) -> (forall bf, In bf bus -> NoDup (mf_labels A (snd bf))) ->
    NoDup (flat_map (fun bf => map (fun l => VTup [fst bf; l]) (mf_labels A (snd bf))) bus).
  Proof.
    induction bus as [|bf bus IH]; intros Hnd Hl; [constructor|]. inversion Hnd as [|? ? Hn Hnd']; subst. cbn [flat_map].
    apply NoDup_app_intro.
    - apply FinFun.Injective_map_NoDup; [|apply Hl; left; reflexivity]. intros x y E. congruence.
    - apply IH; [exact Hnd'|]. intros bf' Hbf'. apply Hl. right. exact Hbf'.
    - intros x Hx Hin. apply in_map_iff in Hx as [l [<- _]]. apply in_flat_map in Hin as [bf' [Hbf' Hin]].
      apply in_map_iff in Hin as [l' [E _]]. apply Hn. apply in_map_iff. exists bf'. split; [congruence | exact Hbf'].
  Qed.

  (* QUILT-LABELS: the Quilt's axis labels (and so its shape) are those of the concatenated Frame; with
     retained labels they are always unique, however the members' own labels overlap *)
  Theorem quilt_shape_labels : forall (q : quilt),
    wf_quilt q = true -> axis_map_ok q = true ->
    NoDup (map fst (q_bus A q)) -> (forall bf, In bf (q_bus A q) -> NoDup (mf_labels A (snd bf))) ->
    M_labels q = S_labels q /\
    (q_retain A q = true -> exists labs, M_labels q = Ok labs /\ NoDup labs /\
       length labs = length (flat_map (fun bf => mf_lines A (snd bf)) (q_bus A q))).
  Proof.
    intros q Hwf Hok Hnd Hl. pose proof (wf_quilt_spec q Hwf) as Hwf'.
    unfold M_labels, S_labels. rewrite Hok. cbn [negb]. cbv zeta. unfold seg_of.
    rewrite (labels_raw_unfold (q_retain A q) (q_bus A q) Hwf').
    destruct (q_retain A q) eqn:Er.
    - pose proof (tup_labels_nodup (q_bus A q) Hnd Hl) as N.
      rewrite (nodupb_NoDup val val_eqb val_eqb_iff _ N). split; [reflexivity|]. intros _. eexists. split; [reflexivity|]. split; [exact N|].
      clear N Hnd Hl Hok Hwf. induction (q_bus A q) as [|bf bus IH]; [reflexivity|]. cbn [flat_map]. rewrite !app_length, map_length, IH.
      + rewrite (Hwf' bf (or_introl eq_refl)). reflexivity.
      + intros bf' Hbf'. apply Hwf'. right. exact Hbf'.
    - split; [reflexivity | discriminate].
  Qed.

  (* QUILT-ITER: iterating the Quilt along its axis (a walk over the Bus, labels zipped on) yields the
     concatenated Frame's (label, line) pairs *)
  Lemma combine_map {X Y Z} (f : X -> Y) (g : X -> Z) (l : list X) : combine (map f l) (map g l) = map (fun x => (f x, g x)) l.
  Proof. induction l as [|x l IH]; [reflexivity|]. cbn. f_equal. exact IH. Qed.

  Lemma lines_of_axis_map (bus : list (val * mframe A)) :
    (forall bf, In bf bus -> wf_member (snd bf)) ->
    map (fun bx : val * item A => snd (snd bx)) (@axis_map val (item A) (map (fun bf => (fst bf, combine (mf_labels A (snd bf)) (mf_lines A (snd bf)))) bus))
    = flat_map (fun bf => mf_lines A (snd bf)) bus.
  Proof.
    induction bus as [|bf bus IH]; intros Hwf; [reflexivity|]. cbn [map]. rewrite axis_map_cons, map_app. cbn [flat_map]. f_equal.
    - rewrite map_map. cbn [snd fst]. apply map_snd_combine. apply Hwf. left. reflexivity.
    - apply IH. intros bf' Hbf'. apply Hwf. right. exact Hbf'.
  Qed.

  Theorem quilt_iter_faithful : forall (q : quilt),
    wf_quilt q = true -> axis_map_ok q = true ->
    NoDup (map fst (q_bus A q)) -> (forall bf, In bf (q_bus A q) -> NoDup (mf_labels A (snd bf))) ->
    M_iter_items q = S_iter_items q.
  Proof.
    intros q Hwf Hok Hnd Hl. unfold M_iter_items, S_iter_items.
    destruct (quilt_shape_labels q Hwf Hok Hnd Hl) as [E _]. rewrite <- E.
    unfold M_labels. rewrite Hok. cbn [negb].
    assert (Hc : combine (map (out_label A (q_retain A q)) (axis_map (seg_of q))) (flat_map (fun bf => mf_lines A (snd bf)) (q_bus A q))
                 = map (fun bx => (out_label A (q_retain A q) bx, snd (snd bx))) (axis_map (seg_of q))).
    { rewrite <- (lines_of_axis_map (q_bus A q) (wf_quilt_spec q Hwf)). apply combine_map. }
    destruct (q_retain A q); cbn [res_bind].
    - rewrite Hc. reflexivity.
    - destruct (nodupb val_eqb _); cbn [res_bind]; [rewrite Hc|]; reflexivity.
  Qed.

  (* QUILT-WINDOWS: every window iterator over the Quilt = the same iterator over the concatenated Frame,
     for all window parameters under which no window key is empty *)
  Lemma windows_with_ext {W} (e1 e2 : key -> key -> res W) wlen (labels : list val) (along : bool) (p : wparams) :
    (forall kls, In kls (window_keys (length labels) p) ->
        (if along then e1 (KSlice (fst (fst kls))) KAll else e1 KAll (KSlice (fst (fst kls)))) =
        (if along then e2 (KSlice (fst (fst kls))) KAll else e2 KAll (KSlice (fst (fst kls))))) ->
    windows_with e1 wlen labels along p = windows_with e2 wlen labels along p.
  Proof.
    intros H. unfold windows_with. destruct (w_size p <=? 0)%Z; [reflexivity|]. destruct (w_step p <? 0)%Z; [reflexivity|].
    f_equal. f_equal. apply map_ext_in. intros [[k il] sz] Hin. specialize (H _ Hin). cbn [fst] in H.
    destruct along; rewrite H; reflexivity.
  Qed.

  Theorem quilt_window_faithful : forall (q : quilt) along p,
    NoDup (map fst (q_bus A q)) -> dom_windows q along p = true ->
    M_windows q along p = S_windows q along p /\ M_windows_array q along p = S_windows_array q along p.
  Proof.
    intros q along p Hnd Hdom. unfold dom_windows in Hdom. apply andb_true_iff in Hdom as [Hok Hdom].
    rewrite forallb_forall in Hdom.
    unfold M_windows, S_windows, M_windows_array, S_windows_array. rewrite Hok. cbn [negb]. split.
    - apply windows_with_ext. intros kls Hin. specialize (Hdom kls Hin).
      destruct along; rewrite <- (extract_full_ok q _ _ Hok); apply quilt_extract_faithful; assumption.
    - apply windows_with_ext. intros kls Hin. specialize (Hdom kls Hin).
      destruct along; apply quilt_extract_array_faithful; assumption.
  Qed.
End Views.
