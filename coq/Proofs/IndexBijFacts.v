(* C02 -- facts about the flat index specification and the AutoMap oracle model. *)
Require Import SF.Prelude SF.PySlice SF.IndexBij.

Lemma iota_length n : length (iota n) = n.
Proof. unfold iota. rewrite map_length, seq_length. reflexivity. Qed.

Lemma iota_S n : iota (S n) = iota n ++ [Z.of_nat n].
Proof. unfold iota. rewrite seq_S, map_app. reflexivity. Qed.

Lemma iota_nth n i : (i < n)%nat -> nth_error (iota n) i = Some (Z.of_nat i).
Proof.
  intros H. unfold iota. rewrite nth_error_map.
  rewrite (nth_error_nth' _ 0%nat) by (rewrite seq_length; assumption).
  rewrite seq_nth by assumption. reflexivity.
Qed.

Section Facts.
  Set Default Proof Using "All".
  Variable C : Type.
  Variable ceqb : C -> C -> bool.
  Hypothesis ceqb_spec : forall x y, ceqb x y = true <-> x = y.

  Lemma ceqb_refl x : ceqb x x = true.
  Proof. apply ceqb_spec. reflexivity. Qed.

  Lemma ceqb_false x y : ceqb x y = false <-> x <> y.
  Proof.
    split.
    - intros H E. apply ceqb_spec in E. congruence.
    - intros H. destruct (ceqb x y) eqn:E; [|reflexivity]. apply ceqb_spec in E. contradiction.
  Qed.

  Lemma memb_In x l : memb ceqb x l = true <-> In x l.
  Proof.
    induction l as [|y ys IH]; cbn.
    - split; [discriminate | tauto].
    - rewrite orb_true_iff, IH, ceqb_spec. split; intros [H|H]; auto.
  Qed.

  Lemma memb_false x l : memb ceqb x l = false <-> ~ In x l.
  Proof.
    rewrite <- memb_In. destruct (memb ceqb x l); split; intros; congruence.
  Qed.

  Lemma memb_app x a b : memb ceqb x (a ++ b) = memb ceqb x a || memb ceqb x b.
  Proof. induction a as [|y ys IH]; cbn; [reflexivity|]. rewrite IH, orb_assoc. reflexivity. Qed.

  Lemma nodupb_NoDup l : nodupb ceqb l = true <-> NoDup l.
  Proof.
    induction l as [|x xs IH]; cbn.
    - split; [constructor | reflexivity].
    - rewrite andb_true_iff, negb_true_iff, memb_false, IH. split.
      + intros [H1 H2]. constructor; assumption.
      + intros H. inversion H; subst. split; assumption.
  Qed.

  Lemma nodupb_false l : nodupb ceqb l = false <-> ~ NoDup l.
  Proof. rewrite <- nodupb_NoDup. destruct (nodupb ceqb l); split; intros; congruence. Qed.

  Lemma ceqb_sym x y : ceqb x y = ceqb y x.
  Proof.
    destruct (ceqb x y) eqn:E, (ceqb y x) eqn:F; try reflexivity.
    - apply ceqb_spec in E. subst. rewrite ceqb_refl in F. discriminate.
    - apply ceqb_spec in F. subst. rewrite ceqb_refl in E. discriminate.
  Qed.

  Lemma nodupb_snoc l x : nodupb ceqb (l ++ [x]) = nodupb ceqb l && negb (memb ceqb x l).
  Proof.
    induction l as [|y ys IH]; cbn; [reflexivity|].
    rewrite IH, memb_app. cbn. rewrite (ceqb_sym y x).
    destruct (memb ceqb y ys), (ceqb x y), (nodupb ceqb ys), (memb ceqb x ys); reflexivity.
  Qed.

  (* ---- index_of ---- *)
  Lemma index_of_range x l i : index_of ceqb x l = Some i -> 0 <= i < zlen l.
  Proof.
    revert i. induction l as [|y ys IH]; cbn; intros i H; [discriminate|].
    unfold zlen in *. cbn [length]. destruct (ceqb x y).
    - injection H as <-. lia.
    - destruct (index_of ceqb x ys) as [j|]; [|discriminate]. injection H as <-.
      specialize (IH j eq_refl). lia.
  Qed.

  Lemma index_of_nth x l i : index_of ceqb x l = Some i -> nth_error l (Z.to_nat i) = Some x.
  Proof.
    revert i. induction l as [|y ys IH]; cbn; intros i H; [discriminate|].
    destruct (ceqb x y) eqn:E.
    - injection H as <-. apply ceqb_spec in E. subst. reflexivity.
    - destruct (index_of ceqb x ys) as [j|] eqn:Ej; [|discriminate]. injection H as <-.
      pose proof (index_of_range _ _ _ Ej) as R.
      replace (Z.to_nat (Z.succ j)) with (S (Z.to_nat j)) by lia. cbn. apply IH. reflexivity.
  Qed.

  Lemma index_of_None x l : index_of ceqb x l = None <-> ~ In x l.
  Proof.
    induction l as [|y ys IH]; cbn; [tauto|].
    destruct (ceqb x y) eqn:E.
    - apply ceqb_spec in E. subst. split; [discriminate | intros H; exfalso; apply H; auto].
    - apply ceqb_false in E. destruct (index_of ceqb x ys); cbn.
      + split; [discriminate|]. intros H. exfalso. apply H. right.
        apply Decidable.not_not; [|intro N; apply IH in N; discriminate].
        destruct (memb ceqb x ys) eqn:M; [left; apply memb_In; assumption | right; apply memb_false; assumption].
      + split; [|reflexivity]. intros _ [H|H]; [congruence|]. apply IH in H; auto.
  Qed.

  Lemma index_of_memb x l : memb ceqb x l = match index_of ceqb x l with Some _ => true | None => false end.
  Proof.
    induction l as [|y ys IH]; cbn; [reflexivity|].
    destruct (ceqb x y); cbn; [reflexivity|]. rewrite IH. destruct (index_of ceqb x ys); reflexivity.
  Qed.

  (* the i-th label of a duplicate-free list is found at i *)
  Lemma index_of_NoDup l i x : NoDup l -> nth_error l i = Some x -> index_of ceqb x l = Some (Z.of_nat i).
  Proof.
    revert i. induction l as [|y ys IH]; intros i ND H.
    - destruct i; discriminate.
    - inversion ND as [|? ? Hnin ND']; subst. destruct i as [|i]; cbn [nth_error index_of] in *.
      + injection H as ->. rewrite ceqb_refl. reflexivity.
      + destruct (ceqb x y) eqn:E.
        * apply ceqb_spec in E. subst. exfalso. apply Hnin. eapply nth_error_In; eassumption.
        * rewrite (IH i ND' H). unfold option_map. f_equal. lia.
  Qed.

  Lemma index_of_app_r x a b : ~ In x a -> index_of ceqb x (a ++ b) = option_map (Z.add (zlen a)) (index_of ceqb x b).
  Proof.
    induction a as [|y ys IH]; intros H; cbn [app index_of].
    - destruct (index_of ceqb x b); reflexivity.
    - destruct (ceqb x y) eqn:E.
      + apply ceqb_spec in E. subst. exfalso. apply H. left. reflexivity.
      + rewrite IH by (intro N; apply H; right; exact N).
        unfold zlen. cbn [length]. destruct (index_of ceqb x b); unfold option_map; [f_equal; lia | reflexivity].
  Qed.

  Lemma index_of_app_l x a b : In x a -> index_of ceqb x (a ++ b) = index_of ceqb x a.
  Proof.
    induction a as [|y ys IH]; intros H; cbn; [contradiction|].
    destruct (ceqb x y) eqn:E; [reflexivity|].
    destruct H as [H|H]; [subst; rewrite ceqb_refl in E; discriminate|].
    rewrite IH by assumption. reflexivity.
  Qed.

  (* ---- AutoMap oracle model ---- *)
  Definition amwf (m : amap C) : Prop := map snd m = iota (length m).

  Lemma am_get_shift m x k :
    map snd m = map (Z.add k) (iota (length m)) ->
    am_get ceqb m x = option_map (Z.add k) (index_of ceqb x (map fst m)).
  Proof.
    revert k. induction m as [|[y i] m IH]; intros k H; cbn; [reflexivity|].
    cbn in H. injection H as Hi Ht.
    destruct (ceqb x y); cbn.
    - f_equal. lia.
    - rewrite (IH (k + 1)).
      + destruct (index_of ceqb x (map fst m)); cbn; [f_equal; lia | reflexivity].
      + rewrite Ht. unfold iota. rewrite <- seq_shift, !map_map. apply map_ext. intros. lia.
  Qed.

  Lemma am_get_index m x : amwf m -> am_get ceqb m x = index_of ceqb x (map fst m).
  Proof.
    intros H. rewrite (am_get_shift m x 0).
    - destruct (index_of ceqb x (map fst m)); reflexivity.
    - rewrite H. symmetry. erewrite map_ext; [apply map_id|]. intros. reflexivity.
  Qed.

  Lemma amwf_snoc m x : amwf m -> amwf (m ++ [(x, zlen m)]).
  Proof.
    unfold amwf. intros H. rewrite map_app, app_length, H. cbn.
    replace (length m + 1)%nat with (S (length m)) by lia. rewrite iota_S. reflexivity.
  Qed.

  (* functional characterisation of AutoMap construction *)
  Lemma am_extend_char l : forall m, amwf m -> nodupb ceqb (map fst m) = true ->
    am_extend ceqb m l =
      if nodupb ceqb (map fst m ++ l) then am_extend ceqb m l else Err "ValueError".
  Proof.
    induction l as [|x xs IH]; intros m W ND; cbn.
    - rewrite app_nil_r, ND. reflexivity.
    - unfold am_add. rewrite (am_get_index m x W).
      destruct (index_of ceqb x (map fst m)) eqn:E.
      + assert (Hin : In x (map fst m)).
        { apply Decidable.not_not; [|intro N; apply index_of_None in N; congruence].
          destruct (memb ceqb x (map fst m)) eqn:M; [left; apply memb_In; assumption | right; apply memb_false; assumption]. }
        destruct (nodupb ceqb (map fst m ++ x :: xs)) eqn:E2; [|reflexivity].
        apply nodupb_NoDup in E2. exfalso. apply NoDup_remove_2 in E2. apply E2.
        apply in_or_app. left. exact Hin.
      + assert (W' := amwf_snoc m x W).
        assert (F : map fst (m ++ [(x, zlen m)]) = map fst m ++ [x]) by (rewrite map_app; reflexivity).
        assert (ND' : nodupb ceqb (map fst (m ++ [(x, zlen m)])) = true).
        { rewrite F, nodupb_snoc, ND. cbn. rewrite index_of_memb, E. reflexivity. }
        pose proof (IH _ W' ND') as R. rewrite F, <- app_assoc in R. cbn [app] in R.
        destruct (nodupb ceqb (map fst m ++ x :: xs)); [reflexivity | exact R].
  Qed.

  Lemma am_extend_ok l : forall m m', am_extend ceqb m l = Ok m' -> amwf m ->
    amwf m' /\ map fst m' = map fst m ++ l.
  Proof.
    induction l as [|x xs IH]; intros m m' H W; cbn in H.
    - injection H as <-. rewrite app_nil_r. auto.
    - unfold am_add in H. destruct (am_get ceqb m x); [discriminate|].
      apply IH in H; [|apply amwf_snoc; exact W]. destruct H as [W' F]. split; [exact W'|].
      rewrite F, map_app, <- app_assoc. reflexivity.
  Qed.

  Lemma am_extend_total l : forall m, amwf m -> NoDup (map fst m ++ l) ->
    exists m', am_extend ceqb m l = Ok m'.
  Proof.
    induction l as [|x xs IH]; intros m W ND; cbn.
    - eexists. reflexivity.
    - unfold am_add. rewrite (am_get_index m x W).
      destruct (index_of ceqb x (map fst m)) eqn:E.
      + exfalso. apply NoDup_remove_2 in ND. apply ND. apply in_or_app. left.
        apply Decidable.not_not; [|intro N; apply index_of_None in N; congruence].
        destruct (memb ceqb x (map fst m)) eqn:M; [left; apply memb_In; assumption | right; apply memb_false; assumption].
      + apply IH; [apply amwf_snoc; exact W|].
        rewrite map_app, <- app_assoc. exact ND.
  Qed.

  Lemma am_extend_err l : forall m e, am_extend ceqb m l = Err e -> e = "ValueError"%string.
  Proof.
    induction l as [|x xs IH]; intros m e H; cbn in H; [discriminate|].
    unfold am_add in H. destruct (am_get ceqb m x).
    - injection H as <-. reflexivity.
    - eapply IH. exact H.
  Qed.

  Lemma amwf_nil : amwf [].
  Proof. reflexivity. Qed.

  (* AutoMap(l) succeeds exactly on duplicate-free l; then it maps each label to its position *)
  Lemma am_build_ok l m : am_build ceqb l = Ok m -> NoDup l /\ amwf m /\ map fst m = l.
  Proof.
    unfold am_build. intros H. pose proof (am_extend_ok l [] m H amwf_nil) as [W F]. cbn in F.
    split; [|auto].
    pose proof (am_extend_char l [] amwf_nil eq_refl) as Ch. cbn in Ch. rewrite H in Ch.
    destruct (nodupb ceqb l) eqn:E; [apply nodupb_NoDup; exact E | discriminate].
  Qed.

  Lemma am_build_NoDup l : NoDup l -> exists m, am_build ceqb l = Ok m.
  Proof. intros H. apply am_extend_total; [apply amwf_nil | exact H]. Qed.

  Lemma am_build_dup l : ~ NoDup l -> am_build ceqb l = Err "ValueError".
  Proof.
    intros H. destruct (am_build ceqb l) as [m|e] eqn:E.
    - apply am_build_ok in E. tauto.
    - f_equal. eapply am_extend_err. exact E.
  Qed.

End Facts.
