(* C04 -- column selection through the block manager with the REPAIRED bundling rule (fix ecbc9f2: a bundle
   keeps its direction) equals selection on the flattened columns for EVERY key -- repeated positions
   included -- and every block layout.  No uniqueness guard is left. *)
Require Import SF.Prelude SF.PySlice SF.Dtype SF.Blocks SF.Select Proofs.SliceFacts Proofs.BlocksSelect.

Section Bundles.
Context {A : Type}.
Notation tb := (tb A).

(* ---------- the bundles put the pairs back together ---------- *)
Lemma contiguous_go_dir_unbundle rest : forall lb lc dir brev,
  unbundle (contiguous_go_dir lb lc dir brev rest) = map (pair lb) (rev brev) ++ rest.
Proof.
  induction rest as [|[bi col] rest IH]; intros lb lc dir brev; cbn [contiguous_go_dir].
  - cbn. now rewrite app_nil_r.
  - destruct ((lb =? bi) && (Z.abs (col - lc) =? 1) && _) eqn:Hc.
    + rewrite IH. cbn [rev]. rewrite map_app, <- app_assoc. cbn.
      apply andb_true_iff in Hc as [Hc _]. apply andb_true_iff in Hc as [Hb _]. apply Z.eqb_eq in Hb. subst. reflexivity.
    + cbn [unbundle flat_map fst snd]. fold (unbundle (contiguous_go_dir bi col None [col] rest)).
      rewrite IH. cbn. reflexivity.
Qed.

Lemma contiguous_bundles_dir_unbundle pairs : unbundle (contiguous_bundles_dir pairs) = pairs.
Proof.
  destruct pairs as [|[bi col] rest]; [reflexivity|].
  unfold contiguous_bundles_dir. rewrite contiguous_go_dir_unbundle. reflexivity.
Qed.

(* ---------- every bundle is a monotone run a, a+d, a+2d, ... with d = 1 or -1 ---------- *)
Definition is_run (l : list Z) : Prop :=
  exists a d k, (d = 1 \/ d = -1) /\ (1 <= k)%nat /\ l = range_list a d k.

(* state invariant: the collected columns are a run ending at lc; its direction is recorded once it has two *)
Definition run_state (lc : Z) (dir : option Z) (brev : list Z) : Prop :=
  exists a d k, (d = 1 \/ d = -1) /\ (1 <= k)%nat /\ rev brev = range_list a d k /\
                lc = a + Z.of_nat (k - 1) * d /\
                match dir with None => k = 1%nat | Some d' => d' = d end.

Lemma range_list_1 a d : range_list a d 1 = [a].
Proof. unfold range_list. cbn [seq map]. f_equal. lia. Qed.

Lemma contiguous_go_dir_runs rest : forall lb lc dir brev, run_state lc dir brev ->
  Forall (fun p => is_run (snd p)) (contiguous_go_dir lb lc dir brev rest).
Proof.
  induction rest as [|[bi col] rest IH]; intros lb lc dir brev (a & d & k & Hd & Hk & Er & Elc & Hdir);
    cbn [contiguous_go_dir].
  - constructor; [|constructor]. cbn [snd]. exists a, d, k. repeat split; assumption.
  - destruct ((lb =? bi) && (Z.abs (col - lc) =? 1) && _) eqn:Hc.
    + apply IH. apply andb_true_iff in Hc as [Hc Hdd]. apply andb_true_iff in Hc as [_ Habs].
      destruct dir as [d'|].
      * (* same direction: the run grows *)
        subst d'. apply Z.eqb_eq in Hdd.
        exists a, d, (S k). split; [assumption|]. split; [lia|]. split.
        -- cbn [rev]. rewrite Er, range_list_snoc. f_equal. f_equal.
           replace (Z.of_nat k) with (Z.of_nat (k - 1) + 1) by lia. destruct Hd as [Hd|Hd]; rewrite Hd in *; lia.
        -- split; [|exact Hdd]. replace (S k - 1)%nat with k by lia.
           replace (Z.of_nat k) with (Z.of_nat (k - 1) + 1) by lia. destruct Hd as [Hd|Hd]; rewrite Hd in *; lia.
      * (* second column: fixes the direction *)
        subst k. cbn in Elc. assert (lc = a) by lia. subst a.
        rewrite range_list_S in Er. cbn in Er.
        exists lc, (col - lc), 2%nat. split; [lia|]. split; [lia|]. split.
        -- cbn [rev]. rewrite Er.
           change (range_list lc (col - lc) 2) with [lc + Z.of_nat 0 * (col - lc); lc + Z.of_nat 1 * (col - lc)].
           cbn [app]. f_equal; [lia|f_equal; lia].
        -- split; [lia|reflexivity].
    + constructor.
      * cbn [snd]. exists a, d, k. repeat split; assumption.
      * apply IH. exists col, 1, 1%nat. split; [left; reflexivity|]. split; [lia|]. split; [symmetry; apply range_list_1|].
        split; [lia|reflexivity].
Qed.

Lemma contiguous_bundles_dir_runs pairs : Forall (fun p => is_run (snd p)) (contiguous_bundles_dir pairs).
Proof.
  destruct pairs as [|[bi col] rest]; [constructor|].
  unfold contiguous_bundles_dir. apply contiguous_go_dir_runs.
  exists col, 1, 1%nat. split; [left; reflexivity|]. split; [lia|]. split; [symmetry; apply range_list_1|]. split; [lia|reflexivity].
Qed.

Lemma chain_range a d k : (d = 1 \/ d = -1) -> chain (range_list a d k).
Proof.
  intros Hd. revert a. induction k as [|k IH]; intros a; [exact I|].
  rewrite range_list_S. destruct k as [|k]; [exact I|].
  rewrite range_list_S. split; [lia|]. rewrite <- range_list_S. apply IH.
Qed.

(* ---------- every bundle is good (in the sense of Proofs.BlocksSelect), whatever the key repeats ---------- *)
Lemma bundles_dir_good (t : tb) pairs :
  (forall q, In q pairs -> exists b, nth_z t (fst q) = Some b /\ 0 <= snd q < width b) ->
  Forall (good_bundle t) (contiguous_bundles_dir pairs).
Proof.
  intros Hv.
  pose proof (contiguous_bundles_dir_unbundle pairs) as Eu.
  pose proof (contiguous_bundles_dir_runs pairs) as Hruns.
  assert (Hsub : forall p, In p (contiguous_bundles_dir pairs) -> forall j, In j (snd p) -> In (fst p, j) pairs).
  { intros p Hp j Hj. rewrite <- Eu. unfold unbundle. apply in_flat_map. exists p. split; [assumption|].
    apply in_map. assumption. }
  rewrite Forall_forall in *. intros p Hp.
  destruct (Hruns p Hp) as (a & d & k & Hd & Hk & Es).
  assert (Hne : snd p <> []) by (rewrite Es; destruct k; [lia|rewrite range_list_S; discriminate]).
  split; [exact Hne|]. split; [rewrite Es; apply chain_range; exact Hd|].
  split; [rewrite Es; apply range_list_NoDup; lia|].
  destruct (snd p) as [|j0 js] eqn:Ej; [congruence|].
  destruct (Hv (fst p, j0)) as (b & Hb & _); [apply Hsub; [assumption|rewrite Ej; left; reflexivity]|].
  exists b. split; [exact Hb|]. intros j Hj.
  destruct (Hv (fst p, j)) as (b2 & Hb2 & Hr); [apply Hsub; [assumption|rewrite Ej; assumption]|].
  cbn [fst snd] in *. congruence.
Qed.

Lemma select_via_positions_dir (t : tb) ps : wf_tb t ->
  (forall p, In p ps -> 0 <= p < Z.of_nat (length (flatten t))) ->
  exists pairs t', opt_all (map (nth_z (index_from 0 t)) ps) = Some pairs /\
                   slice_blocks t (contiguous_pairs_dir pairs) = Some t' /\
                   take_positions (flatten t) ps = Some (flatten t').
Proof.
  intros Hwf Hr.
  destruct (nth_z_total (index_from 0 t) ps) as [pairs Ep]; [rewrite index_from_length; exact Hr|].
  assert (Hcol : map (nth_z (flatten t)) ps = map (fun q => col_at t (fst q) (snd q)) pairs /\
                 forall q, In q pairs -> exists b, nth_z t (fst q) = Some b /\ 0 <= snd q < width b).
  { clear Hr. revert pairs Ep. induction ps as [|p ps IH]; intros pairs Ep.
    - destruct pairs; [|discriminate]. split; [reflexivity|intros q []].
    - destruct pairs as [|[bi j] pairs]; [discriminate|]. cbn in Ep. injection Ep as Ep1 Ep.
      destruct (IH pairs Ep) as [E1 E2].
      destruct (index_from_spec t 0 p bi j ltac:(lia) Ep1) as (_ & Hf & b & Hb & Hj).
      rewrite Z.sub_0_r in *. split.
      + cbn. rewrite Hf, E1. reflexivity.
      + intros q [<-|Hq]; [exists b; split; assumption|apply E2; assumption]. }
  destruct Hcol as [Hmap Hvalid].
  pose proof (bundles_dir_good t pairs Hvalid) as Hg.
  destruct (slice_blocks_bundles t _ Hwf Hg) as (t' & Et & Ef).
  rewrite contiguous_bundles_dir_unbundle in Ef.
  exists pairs, t'. split; [apply opt_all_Some; exact Ep|]. split; [exact Et|].
  apply take_positions_Some. rewrite Hmap. apply opt_all_Some. symmetry. exact Ef.
Qed.

(* positions of a key lie inside the axis (no uniqueness needed) *)
Lemma key_positions_in_range k n ps : 0 <= n -> key_positions k n = Ok ps -> forall p, In p ps -> 0 <= p < n.
Proof.
  intros Hn. destruct k as [|i|s|l|m]; cbn [key_positions].
  - intros E. injection E as <-. intros p Hp. apply in_map_iff in Hp as (q & <- & Hq). apply in_seq in Hq. lia.
  - destruct (norm_index i n) as [j|] eqn:E; [|discriminate]. intros E'. injection E' as <-.
    intros p [<-|[]]. eapply (opt_all_norm_range [i] n [j]); [cbn; rewrite E; reflexivity|left; reflexivity].
  - destruct (positions s n) as [qs|] eqn:E; [|discriminate]. intros E'. injection E' as <-.
    intros p Hp. eapply positions_in_range; eassumption.
  - destruct (opt_all _) as [qs|] eqn:E; [|discriminate]. intros E'. injection E' as <-.
    eapply opt_all_norm_range; eassumption.
  - destruct (_ =? n) eqn:E; [|discriminate]. intros E'. injection E' as <-.
    intros p Hp. apply mask_positions_spec in Hp. lia.
Qed.

(* ==================== selection through blocks = selection on columns, for EVERY key ==================== *)
Theorem select_columns_dir_refines (t : tb) (k : ckey) : wf_tb t ->
  res_map flatten (M_select_columns_dir t k) = S_select_columns (flatten t) k.
Proof.
  intros Hwf. unfold M_select_columns_dir, S_select_columns, key_to_block_slices_dir.
  unfold tb_index. rewrite index_from_length.
  set (n := Z.of_nat (length (flatten t))) in *.
  assert (Hn : 0 <= n) by (unfold n; lia).
  pose proof (key_positions_in_range k n) as Hok.
  destruct k as [|i|s|l|m].
  - destruct (slice_blocks_all_from t Hwf []) as (t' & Et & Ef). cbn [app length] in Et.
    unfold slice_blocks, all_block_slices. rewrite Et. cbn [res_map key_positions]. rewrite Ef.
    unfold n. rewrite Nat2Z.id, take_positions_all. reflexivity.
  - destruct (key_positions (CInt i) n) as [ps|e]; [|reflexivity].
    destruct (select_via_positions_dir t ps Hwf (Hok ps Hn eq_refl)) as (pairs & t' & E1 & E2 & E3).
    rewrite E1, E2, E3. reflexivity.
  - destruct (key_positions (CSlice s) n) as [ps|e]; [|reflexivity].
    destruct (select_via_positions_dir t ps Hwf (Hok ps Hn eq_refl)) as (pairs & t' & E1 & E2 & E3).
    rewrite E1, E2, E3. reflexivity.
  - destruct (key_positions (CList l) n) as [ps|e]; [|reflexivity].
    destruct (select_via_positions_dir t ps Hwf (Hok ps Hn eq_refl)) as (pairs & t' & E1 & E2 & E3).
    rewrite E1, E2, E3. reflexivity.
  - destruct (key_positions (CMask m) n) as [ps|e]; [|reflexivity].
    destruct (select_via_positions_dir t ps Hwf (Hok ps Hn eq_refl)) as (pairs & t' & E1 & E2 & E3).
    rewrite E1, E2, E3. reflexivity.
Qed.

(* layout independence, repeated positions included *)
Corollary select_columns_dir_layout_independent (t1 t2 : tb) (k : ckey) : wf_tb t1 -> wf_tb t2 ->
  flatten t1 = flatten t2 ->
  res_map flatten (M_select_columns_dir t1 k) = res_map flatten (M_select_columns_dir t2 k).
Proof.
  intros H1 H2 E. rewrite (select_columns_dir_refines t1 k H1), (select_columns_dir_refines t2 k H2). now rewrite E.
Qed.

(* on keys that do not repeat a position the repaired rule and the rule before the fix select the same columns *)
Corollary select_columns_dir_agrees_with_old (t : tb) (k : ckey) : wf_tb t ->
  key_nodup k (Z.of_nat (length (flatten t))) ->
  res_map flatten (M_select_columns_dir t k) = res_map flatten (M_select_columns t k).
Proof.
  intros Hwf Hk. rewrite (select_columns_dir_refines t k Hwf), (select_columns_refines t k Hwf Hk). reflexivity.
Qed.

End Bundles.

(* the zig-zag key that the rule before the fix turned into ONE column: three columns now *)
Example select_columns_dir_zigzag :
  res_map flatten (M_select_columns_dir [mk_block (DInt true 8) false [[0; 4; 8]; [1; 5; 9]; [2; 6; 10]; [3; 7; 11]]] (CList [1; 2; 1]))
  = Ok [(DInt true 8, [1; 5; 9]); (DInt true 8, [2; 6; 10]); (DInt true 8, [1; 5; 9])].
Proof. vm_compute. reflexivity. Qed.
