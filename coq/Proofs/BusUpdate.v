(* C17 -- Bus._update_series_cache_iloc as a whole simulates the sequential uses of the abstract cache. *)
Require Import SF.Prelude SF.PySlice SF.BusSpec SF.Bus Gen.Gen_c17.
Require Import Proofs.BusSpecFacts Proofs.BusResolve Proofs.BusSpecInv Proofs.BusListFacts Proofs.BusCache Proofs.BusRel Proofs.BusLoop.

Section Update.
Variables L F : Type.
Variable leqb : L -> L -> bool.
Hypothesis leqb_spec : forall x y, leqb x y = true <-> x = y.

Notation store := (store L F).
Notation mbus := (mbus L F).
Notation sbus := (sbus L).
Notation mem := (mem L leqb).
Notation find_idx := (find_idx L leqb).
Notation assoc := (assoc L leqb).
Notation la_touch := (la_touch L leqb).
Notation s_touch := (s_touch L leqb).
Notation s_access_all := (s_access_all L leqb).
Notation eager := (eager L F leqb).
Notation m_coherent := (m_coherent L F).
Notation s_coherent := (s_coherent L F).
Notation cache_ok := (cache_ok L).
Notation isld := (isld L leqb).
Notation slot_of := (slot_of L F leqb).
Notation labels_at := (labels_at L).
Notation targets_at := (targets_at L F).
Notation deferred_of := (deferred_of L F).
Notation store_read := (store_read L F leqb).
Notation m_update := (m_update L F leqb).
Notation Rel := (Rel L F leqb).

(* the default configuration decodes every Frame like its own configuration does *)
Definition uniform_cfg (st : store) : Prop :=
  forall l f fd, assoc l (st_content L F st) = Some (f, fd) -> fd = f.

Definition mode_ok (st : store) (mp : option Z) : Prop := reader_mode mp = CfgLabel \/ uniform_cfg st.

(* with the repaired max_persist == 1 branch (config[label], commit 71280f9) every read uses the label's own configuration *)
Lemma mode_ok_always (st : store) mp : mode_ok st mp.
Proof.
  left. unfold reader_mode. destruct mp as [k|]; [|reflexivity].
  destruct (k >? 1); [reflexivity|]. destruct repairs_in_place as [-> _]. reflexivity.
Qed.

Lemma targets_at_fst labels slots ps : length slots = length labels ->
  map fst (targets_at labels slots ps) = labels_at labels ps.
Proof.
  intro H. unfold Bus.targets_at, BusSpec.labels_at. induction ps as [|p r IH]; cbn; [reflexivity|].
  rewrite map_app, IH. f_equal.
  destruct (nth_error labels p) as [l|] eqn:E; [|reflexivity].
  destruct (nth_error slots p) as [s|] eqn:E2; [reflexivity|].
  apply nth_error_None in E2. assert (p < length labels)%nat by (apply nth_error_Some; congruence). lia.
Qed.

Lemma targets_at_consistent labels slots ps : NoDup labels ->
  Forall (fun t => In (fst t) labels /\ snd t = slot_of labels slots (fst t)) (targets_at labels slots ps).
Proof.
  intro N. unfold Bus.targets_at. apply Forall_forall. intros [l s] H.
  apply in_flat_map in H as (p & _ & H).
  destruct (nth_error labels p) as [l'|] eqn:E; [|contradiction].
  destruct (nth_error slots p) as [s'|] eqn:E2; [|contradiction].
  destruct H as [H|[]]. injection H as <- <-. cbn. split; [eapply nth_error_In, E|].
  unfold BusRel.slot_of. rewrite (find_idx_nth L leqb leqb_spec labels N p l' E), E2. reflexivity.
Qed.

Lemma reads_ok st labels mode :
  (forall l, In l labels -> exists f fd, assoc l (st_content L F st) = Some (f, fd)) ->
  (mode = CfgLabel \/ uniform_cfg st) ->
  forall l, In l labels -> exists f, store_read st mode l = Ok f /\ eager st l = Some f.
Proof.
  intros Hs Hm l Il. destruct (Hs l Il) as (f & fd & E).
  unfold Bus.store_read, BusSpec.eager. rewrite E. cbn.
  destruct Hm as [->|U]; [eauto|]. rewrite (U l f fd E). destruct mode; eauto.
Qed.

Lemma aligned_multi st labels slots mode ts :
  (forall l f, slot_of labels slots l = Some f -> eager st l = Some f) ->
  (forall l, In l labels -> exists f, store_read st mode l = Ok f /\ eager st l = Some f) ->
  Forall (fun t => In (fst t) labels /\ snd t = slot_of labels slots (fst t)) ts ->
  aligned L F leqb st labels ts (map (fun l => (l, mode)) (deferred_of ts)).
Proof.
  intros He Hr. induction 1 as [|[l snap] r [Il Es] Hts IH]; cbn; [exact I|].
  cbn in Il, Es. destruct snap as [f|]; cbn.
  - split; [exact Il|]. split; [apply He; symmetry; exact Es | exact IH].
  - split; [exact Il|]. destruct (Hr l Il) as (f & E1 & E2). exists mode, (map (fun l0 => (l0, mode)) (deferred_of r)), f. auto.
Qed.

Lemma fold_touch_In ls : forall (c : list L) x, In x (fold_left (fun c l => la_touch l c) ls c) <-> In x ls \/ In x c.
Proof.
  induction ls as [|l r IH]; intros c x; cbn; [tauto|].
  rewrite IH, (la_touch_In L leqb leqb_spec).
  split; [intros [?|[?|?]]; subst; auto | intros [[?|?]|?]; subst; auto].
Qed.

Lemma fold_touch_NoDup ls : forall c : list L, NoDup c -> NoDup (fold_left (fun c l => la_touch l c) ls c).
Proof. induction ls as [|l r IH]; intros c N; cbn; [exact N|]. apply IH, (la_touch_NoDup L leqb leqb_spec), N. Qed.

Lemma fold_touch_filter (p : L -> bool) ls : forall la, (forall l, In l ls -> p l = true) ->
  filter p (fold_left (fun c l => la_touch l c) ls la) = fold_left (fun c l => la_touch l c) ls (filter p la).
Proof.
  induction ls as [|l r IH]; intros la H; cbn; [reflexivity|].
  rewrite IH by (intros x Hx; apply H; right; exact Hx).
  rewrite (filter_la_touch_true L leqb leqb_spec p l la) by (apply H; left; reflexivity). reflexivity.
Qed.

Lemma labels_at_nth labels ps l : In l (labels_at labels ps) -> exists p, In p ps /\ nth_error labels p = Some l.
Proof. apply labels_at_In. Qed.

Theorem update_sim st m s single ps :
  Rel st m s -> (exists r, st_recorded L F st = Some r) ->
  positions_ok (length (mb_labels L F m)) ps ->
  (single = true -> exists p, ps = [p]) ->
  (single = true \/ mode_ok st (mb_mp L F m)) ->
  let ls := labels_at (mb_labels L F m) ps in
  let r := s_access_all (s_coherent st) (sb_mp L s) (sb_cache L s) ls in
  exists m' log,
    m_update st m single ps = ((if fst r then None else Some "StoreFileMutation"%string), m', log) /\
    Rel st m' (s_with_cache L s (snd r)) /\
    mb_labels L F m' = mb_labels L F m /\ mb_mp L F m' = mb_mp L F m.
Proof.
  intros R [rec Erec] [Np Fp] Hsingle Hmode ls r.
  pose proof (coherent_agree L F st rec Erec) as Ecoh.
  pose proof (rel_count L F leqb leqb_spec st m s R) as Ecount0.
  destruct R as [R1 R2 R3 R4 R5 R6 R7 R8 R9 R10 R11].
  destruct m as [labels slots loaded loaded_all la mp]. cbn [mb_labels mb_slots mb_loaded mb_loaded_all mb_la mb_mp] in *.
  assert (Hlenl : length loaded = length labels) by (rewrite R5, map_length; exact R4).
  assert (Ck0 : cache_ok mp (sb_cache L s)) by (rewrite R2; exact R9).
  unfold Bus.m_update. cbn [mb_labels mb_slots mb_loaded mb_loaded_all mb_la mb_mp].
  set (load := if loaded_all then false else negb (forallb (fun p => nth p loaded false) ps)).
  (* when nothing needs loading every label of the key is held *)
  assert (Hload : load = false -> forall l, In l ls -> In l (sb_cache L s)).
  { intros Hl l Il. apply labels_at_nth in Il as (p & Ip & Ep). apply R10.
    rewrite (isld_nth L leqb leqb_spec labels loaded p l R3 Ep).
    unfold load in Hl. destruct loaded_all eqn:La.
    - symmetry in R6. apply all_true_spec with (i := p) in R6; [exact R6|].
      rewrite Hlenl. apply nth_error_Some. congruence.
    - apply negb_false_iff in Hl. rewrite forallb_forall in Hl. apply Hl, Ip. }
  destruct load eqn:Eload; cbn [negb andb].
  2:{ (* no load: only the LRU positions move *)
    specialize (Hload eq_refl).
    unfold r. rewrite <- R2.
    rewrite (s_access_all_hits L leqb leqb_spec (s_coherent st) mp ls (sb_cache L s)) by assumption.
    cbn [fst snd].
    assert (Ck' : cache_ok mp (fold_left (fun c l => la_touch l c) ls (sb_cache L s))).
    { pose proof (s_access_all_ok L leqb leqb_spec (s_coherent st) mp ls (sb_cache L s)) as H.
      rewrite (s_access_all_hits L leqb leqb_spec (s_coherent st) mp ls (sb_cache L s)) in H by assumption.
      apply H. exact Ck0. }
    assert (Hc' : forall l, In l (fold_left (fun c l0 => la_touch l0 c) ls (sb_cache L s)) <-> isld labels loaded l = true).
    { intro l. rewrite fold_touch_In, <- R10. split; [intros [H|H]; [apply Hload, H | exact H] | auto]. }
    destruct mp as [k|] eqn:Emp; cbn [is_some negb].
    - eexists _, _. split; [reflexivity|]. split; [|auto].
      constructor; cbn [mb_labels mb_slots mb_loaded mb_loaded_all mb_la mb_mp sb_labels sb_cache sb_mp s_with_cache]; auto.
      + rewrite <- R2. exact Ck'.
      + intros k' E'. injection E' as <-. destruct (R11 k eq_refl) as (N & Fl & Ph).
        assert (Hld : forall l, In l ls -> isld labels loaded l = true) by (intros l Il; apply R10, Hload, Il).
        split; [apply fold_touch_NoDup, N|]. split.
        * rewrite fold_touch_filter by exact Hld. rewrite Fl. reflexivity.
        * intros l Il. apply fold_touch_In in Il as [Il|Il]; [apply Hld, Il | apply Ph; assumption].
    - eexists _, _. split; [reflexivity|]. split; [|auto].
      constructor; cbn [mb_labels mb_slots mb_loaded mb_loaded_all mb_la mb_mp sb_labels sb_cache sb_mp s_with_cache]; auto.
      + rewrite <- R2. exact Ck'.
      + intros k' E'. discriminate. }
  (* something must be read *)
  clear Hload.
  set (targets := targets_at labels slots ps).
  assert (Tfst : map fst targets = ls) by (apply targets_at_fst, R4).
  assert (Tcons : Forall (fun t => In (fst t) labels /\ snd t = slot_of labels slots (fst t)) targets)
    by (apply targets_at_consistent, R3).
  set (pending := if single then map (fun l => (l, CfgLabel)) (labels_at labels ps)
                  else map (fun l => (l, reader_mode mp)) (deferred_of targets)).
  assert (Hpend_ne : deferred_of targets <> [] -> pending <> []).
  { intro D. unfold pending. destruct single.
    - destruct (Hsingle eq_refl) as [p ->]. pose proof (Forall_inv Fp) as Hp; cbn beta in Hp.
      unfold BusSpec.labels_at. cbn. destruct (nth_error labels p) eqn:E; [discriminate|].
      apply nth_error_None in E. lia.
    - destruct (deferred_of targets); [contradiction | discriminate]. }
  unfold r. rewrite <- R2.
  destruct (m_coherent st) eqn:Coh.
  - (* coherent store: every read succeeds *)
    rewrite <- Ecoh.
    assert (Hal : aligned L F leqb st labels targets pending).
    { unfold pending. destruct single.
      - destruct (Hsingle eq_refl) as [p ->]. pose proof (Forall_inv Fp) as Hp; cbn beta in Hp.
        unfold targets, Bus.targets_at, BusSpec.labels_at. cbn.
        destruct (nth_error labels p) as [l|] eqn:E; [|apply nth_error_None in E; lia].
        destruct (nth_error slots p) as [sl|] eqn:E2; [|apply nth_error_None in E2; lia].
        cbn. assert (Il : In l labels) by (eapply nth_error_In, E).
        destruct sl as [f|]; cbn.
        + split; [exact Il|]. split; [|exact I]. apply R7. unfold BusRel.slot_of.
          rewrite (find_idx_nth L leqb leqb_spec labels R3 p l E), E2. reflexivity.
        + split; [exact Il|].
          destruct (reads_ok st labels CfgLabel R8 (or_introl eq_refl) l Il) as (f & E3 & E4).
          exists CfgLabel, [], f. cbn. auto.
      - apply (aligned_multi st labels slots); [exact R7 | | exact Tcons].
        apply (reads_ok st labels); [exact R8|]. destruct Hmode as [?|[?|?]]; [discriminate | auto | auto]. }
    assert (Hla : forall k, mp = Some k -> la = sb_cache L s).
    { intros k E. destruct (R11 k E) as (N & Fl & Ph). rewrite <- Fl. symmetry. apply filter_all_true. apply Ph. }
    assert (LI0 : LI L F leqb st labels mp (mk_loopst L F slots loaded la (count_true loaded) pending) (sb_cache L s)).
    { constructor; cbn [ls_array ls_loaded ls_la ls_count ls_pending]; auto.
      - intros k E. split; [apply (Hla k E) | exact Ecount0]. }
    destruct (run_loop_coh L F leqb leqb_spec st labels R3 mp Coh targets _ _ LI0 Hal) as (s' & Erun & LI').
    fold targets. fold pending. rewrite Erun.
    rewrite (s_access_all_coh L leqb mp ls (sb_cache L s)). cbn [fst snd].
    rewrite Tfst in LI'. destruct s' as [array' loaded' la' count' pending'].
    destruct LI' as [I1 I2 I3 I4 I5 I6]. cbn [ls_array ls_loaded ls_la ls_count ls_pending] in *.
    eexists _, _. split; [reflexivity|]. split; [|auto].
    constructor; cbn [mb_labels mb_slots mb_loaded mb_loaded_all mb_la mb_mp sb_labels sb_cache sb_mp s_with_cache]; auto.
    + rewrite <- R2. exact I4.
    + intros k E. destruct (I6 k E) as [-> _]. split; [apply I4|]. split.
      * apply filter_all_true. intros l Il. apply I5, Il.
      * intros l Il. apply I5, Il.
  - (* stale store *)
    rewrite <- Ecoh.
    destruct mp as [k|] eqn:Emp.
    + destruct (R11 k eq_refl) as (N & Fl & Ph).
      assert (Ck : cache_ok (Some k) (sb_cache L s)) by exact Ck0.
      assert (Ecount : count_true loaded = Z.of_nat (length (sb_cache L s))) by exact Ecount0.
      destruct (run_loop_stale_some L F leqb leqb_spec st labels k Coh slots loaded (count_true loaded) pending R5
                  targets la (sb_cache L s) Ck R10 Ecount N Fl Ph Tcons Hpend_ne) as (la' & Erun & Ck' & Hc' & N' & Fl' & Ph').
      fold targets. fold pending. rewrite Erun. unfold stale_result. rewrite Tfst in *.
      destruct (fst (s_access_all false (Some k) (sb_cache L s) ls)) eqn:Eok.
      * eexists _, _. split; [reflexivity|]. split; [|auto].
        constructor; cbn [mb_labels mb_slots mb_loaded mb_loaded_all mb_la mb_mp sb_labels sb_cache sb_mp s_with_cache ls_array ls_loaded ls_la].
        -- exact R1. -- exact R2. -- exact R3. -- exact R4. -- exact R5. -- reflexivity. -- exact R7. -- exact R8.
        -- rewrite <- R2. exact Ck'. -- exact Hc'.
        -- intros k' E'. split; [exact N'|]. split; [exact Fl' | exact Ph'].
      * eexists _, _. split; [reflexivity|]. split; [|auto].
        constructor; cbn [mb_labels mb_slots mb_loaded mb_loaded_all mb_la mb_mp sb_labels sb_cache sb_mp s_with_cache ls_array ls_loaded ls_la].
        -- exact R1. -- exact R2. -- exact R3. -- exact R4. -- exact R5. -- exact R6. -- exact R7. -- exact R8.
        -- rewrite <- R2. exact Ck'. -- exact Hc'.
        -- intros k' E'. split; [exact N'|]. split; [exact Fl' | exact Ph'].
    + assert (Ck : cache_ok None (sb_cache L s)) by exact Ck0.
      destruct (run_loop_stale_none L F leqb leqb_spec st labels Coh slots loaded (count_true loaded) pending la R5
                  targets (sb_cache L s) Ck R10 Tcons Hpend_ne) as (Erun & Ck' & Hc').
      fold targets. fold pending. rewrite Erun. unfold stale_result. rewrite Tfst in *.
      destruct (fst (s_access_all false None (sb_cache L s) ls)) eqn:Eok.
      * eexists _, _. split; [reflexivity|]. split; [|auto].
        constructor; cbn [mb_labels mb_slots mb_loaded mb_loaded_all mb_la mb_mp sb_labels sb_cache sb_mp s_with_cache ls_array ls_loaded ls_la].
        -- exact R1. -- exact R2. -- exact R3. -- exact R4. -- exact R5. -- reflexivity. -- exact R7. -- exact R8.
        -- rewrite <- R2. exact Ck'. -- exact Hc'.
        -- intros k' E'. discriminate.
      * eexists _, _. split; [reflexivity|]. split; [|auto].
        constructor; cbn [mb_labels mb_slots mb_loaded mb_loaded_all mb_la mb_mp sb_labels sb_cache sb_mp s_with_cache ls_array ls_loaded ls_la].
        -- exact R1. -- exact R2. -- exact R3. -- exact R4. -- exact R5. -- exact R6. -- exact R7. -- exact R8.
        -- rewrite <- R2. exact Ck'. -- exact Hc'.
        -- intros k' E'. discriminate.
Qed.

End Update.
