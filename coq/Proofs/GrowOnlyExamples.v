(* C09 -- the hypotheses and guards of the theorems are satisfiable: instances at integer labels. *)
Require Import SF.Prelude SF.Dtype SF.GrowOnly SF.GrowOnlyHier SF.GrowOnlyShare SF.GrowOnlyWorld
  Proofs.GrowOnlyIndex Proofs.GrowOnlyBlocks Proofs.GrowOnlyFrame Proofs.GrowOnlyWorld Proofs.GrowOnlyHier.

Definition zpos (z : Z) : option Z := Some z.

Lemma zleq_refl : forall a, Z.eqb a a = true.
Proof. intros. apply Z.eqb_refl. Qed.
Lemma zleq_sym : forall a b, Z.eqb a b = Z.eqb b a.
Proof. intros. apply Z.eqb_sym. Qed.
Lemma zpos_eq : forall a b x y, zpos a = Some x -> zpos b = Some y -> Z.eqb a b = (x =? y).
Proof. unfold zpos. intros a b x y H1 H2. injection H1 as <-. injection H2 as <-. reflexivity. Qed.

(* an IndexGO built from the labels 5, 7 *)
Definition ex_igo : igo Z := mk_igo [5; 7] (Some [5; 7]) 2 false [5; 7] 2.
(* an auto index 0,1,2 *)
Definition ex_auto : igo Z := M_inew_auto Z [0; 1; 2].

Lemma ex_igo_wf : igo_wf Z Z.eqb zpos ex_igo.
Proof. repeat split. Qed.
Lemma ex_auto_wf : igo_wf Z Z.eqb zpos ex_auto.
Proof. repeat split. Qed.

(* a history inside the guard with accepted and rejected calls, on both kinds of index *)
Definition ex_iops : list (iop Z) := [IAppend 9; IAppend 5; IExtend [1; 2]; IExtend [9; 4]; IRead; IExtend []].
Example ex_index_guard : dom_irun Z Z.eqb zpos ex_igo ex_iops = true /\
  map is_ok (snd (M_irun Z Z.eqb zpos ex_igo ex_iops)) = [true; false; true; false; true; true] /\
  dom_irun Z Z.eqb zpos ex_auto [IAppend 3; IAppend 1; IAppend 9; IAppend 4] = true.
Proof. vm_compute. auto. Qed.

(* a FrameGO with rows 1,2 and one integer column labelled 5 *)
Definition zcast (d : dtype) (v : Z) : Z := v.
Definition zresolve (a b : dtype) : dtype := if dtype_eqb a b then a else DObj.
Definition ex_tb : tb Z := tb_of_blocks Z zresolve 2 [mk_blk (DInt true 8) false 2 [[10; 20]]].
Definition ex_fgo : fgo Z Z := mk_fgo [1; 2] (mk_igo [5] (Some [5]) 1 false [5] 1) ex_tb.

Lemma ex_fgo_wf : fgo_wf Z Z Z.eqb zpos ex_fgo.
Proof.
  split; [|split; [|split]]; try reflexivity.
  - repeat split.
  - split; [|repeat split]. repeat constructor.
Qed.

Definition ex_gops : list (gop Z Z) :=
  [ OSet 6 (GArr (DInt true 8) [1; 2]) 0 (DFlt 8);
    OSet 5 (GArr (DInt true 8) [1; 2]) 0 (DFlt 8);
    OSet 7 (GIter (DInt true 8) [1; 2; 3]) 0 (DFlt 8);
    OSet 7 (GSeries [2; 3] (DInt true 8) [30; 40]) 0 (DFlt 8);
    OExtFrame [1; 2] [8; 9] [mk_blk (DFlt 8) true 2 [[1; 2]; [3; 4]]] 0 (DFlt 8);
    OExtFrame [1; 2] [5; 11] [mk_blk (DFlt 8) true 2 [[1; 2]; [3; 4]]] 0 (DFlt 8);
    OItems [(12, GScalar DBool 1); (13, GArr DBool [0; 1])] 0 (DFlt 8);
    OExtSeries 14 [2; 1] DBool [1; 0] 0 (DFlt 8);
    ORead ].
Example ex_frame_guard : dom_run Z Z Z.eqb zpos zcast zresolve ex_fgo ex_gops = true /\
  map is_ok (snd (M_run Z Z Z.eqb zpos zcast zresolve ex_fgo ex_gops))
    = [true; false; false; true; true; false; true; true; true] /\
  g_lm (f_cols (fst (M_run Z Z Z.eqb zpos zcast zresolve ex_fgo ex_gops))) = [5; 6; 7; 8; 9; 12; 13; 14].
Proof. vm_compute. auto. Qed.

(* a world with one FrameGO and one static Frame *)
Definition ex_world : world Z Z :=
  mk_world [(false, f_cols ex_fgo); (true, f_cols ex_fgo)] [ex_tb; ex_tb]
           [mk_frm KFrameGO [1; 2] 0%nat 0%nat; mk_frm KFrame [1; 2] 1%nat 1%nat].

Lemma ex_world_sep : sep Z Z ex_world.
Proof.
  split.
  - intros f [<-|[<-|[]]]; split; cbn; eauto.
  - intros [|[|i]] [|[|j]] fi fj Hij Hi Hj Hgo; cbn in *; try congruence;
      try (injection Hi as <-); try (injection Hj as <-); cbn in *; try discriminate;
      try (destruct i; discriminate); try (destruct j; discriminate); split; congruence.
Qed.

(* a two-level tree ('10',1), ('20',1) *)
Definition ex_tree : lvl Z := Node [10; 20] [Leaf [1]; Leaf [1]].
Lemma ex_tree_guard :
  lvl_wf Z ex_tree /\
  M_lappend Z Z.eqb ex_tree [20; 2] = Ok (Node [10; 20] [Leaf [1]; Leaf [1; 2]]) /\
  M_lappend Z Z.eqb ex_tree [30; 1] = Ok (Node [10; 20; 30] [Leaf [1]; Leaf [1]; Leaf [1]]) /\
  is_ok (M_lappend Z Z.eqb ex_tree [10; 2]) = false /\ is_ok (M_lappend Z Z.eqb ex_tree [20; 1]) = false.
Proof.
  split; [|repeat split; reflexivity].
  constructor; [reflexivity|]. repeat constructor.
Qed.

(* labels that are ints, or floats equal to ints: (value, is_int).  After fix feb832d appending 1.0 to the
   loc_is_iloc index 0,1,2 is rejected and nothing is left behind. *)
Definition fl_eq (a b : Z * bool) : bool := fst a =? fst b.
Definition fl_pos (a : Z * bool) : option Z := if snd a then Some (fst a) else None.
Example ex_auto_nonint_rejected :
  let s := M_inew_auto (Z * bool) [(0, true); (1, true); (2, true)] in
  M_append (Z * bool) fl_eq fl_pos s (1, false) = (s, Err "KeyError"%string) /\
  is_ok (snd (M_append (Z * bool) fl_eq fl_pos s (5, false))) = true.
Proof. vm_compute. auto. Qed.
