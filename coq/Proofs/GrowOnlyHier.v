(* C09 -- IndexLevelGO.append (after fix 5320f59, which rejects a key whose outer label is found but is not
   the last label of its node): an accepted append lists exactly the labels before followed by the key,
   for every tree and every depth; a rejected one leaves the tree as it was. *)
Require Import SF.Prelude SF.Dtype SF.GrowOnly SF.GrowOnlyHier.

Section HierProofs.
Variable L : Type.
Variable leq : L -> L -> bool.
(* label types whose Python equality is identity (str, int without bool/float mixing) *)
Hypothesis leq_eq : forall a b, leq a b = true -> a = b.

Notation lvl := (lvl L).
Notation flatten := (flatten L).
Notation M_lappend := (M_lappend L leq).
Notation is_last := (is_last L leq).
Notation chain := (chain L).
Notation last_opt := (last_opt L).

(* nested induction over the tree *)
Fixpoint lvl_rect' (P : lvl -> Prop)
  (Hleaf : forall ls, P (Leaf ls))
  (Hnode : forall ls kids, Forall P kids -> P (Node ls kids)) (t : lvl) : P t :=
  match t with
  | Leaf ls => Hleaf ls
  | Node ls kids =>
      Hnode ls kids
        ((fix go (ks : list lvl) : Forall P ks :=
            match ks with
            | [] => Forall_nil P
            | c :: r => Forall_cons c (lvl_rect' P Hleaf Hnode c) (go r)
            end) kids)
  end.

Inductive lvl_wf : lvl -> Prop :=
| wf_leaf : forall ls, lvl_wf (Leaf ls)
| wf_node : forall ls kids, length ls = length kids -> Forall lvl_wf kids -> lvl_wf (Node ls kids).

(* the anonymous inner loops, named *)
Fixpoint zip_go (ks : list lvl) (ls : list L) : list (list L) :=
  match ks, ls with
  | c :: cr, l :: lr => map (cons l) (flatten c) ++ zip_go cr lr
  | _, _ => []
  end.

Lemma flatten_node : forall ls kids, flatten (Node ls kids) = zip_go kids ls.
Proof.
  intros ls kids. cbn. revert ls. induction kids as [|c cr IH]; intros [|l lr]; cbn; auto.
Qed.

Fixpoint on_last (r : list L) (ks : list lvl) : res (list lvl) :=
  match ks with
  | [] => Err "IndexError"
  | c :: rest =>
      match rest with
      | [] => match M_lappend c r with Ok c' => Ok [c'] | Err e => Err e end
      | _ => match on_last r rest with Ok rs => Ok (c :: rs) | Err e => Err e end
      end
  end.

Lemma lappend_node : forall ls kids k r,
  M_lappend (Node ls kids) (k :: r) =
  if mem L leq k ls then
    if negb (is_last k ls) then Err "RuntimeError" else
    match on_last r kids with Ok kids' => Ok (Node ls kids') | Err e => Err e end
  else match chain r with Some c => Ok (Node (ls ++ [k]) (kids ++ [c])) | None => Err "RuntimeError" end.
Proof.
  intros ls kids k r. cbn. destruct (mem L leq k ls); [|reflexivity].
  destruct (negb (is_last k ls)); [reflexivity|].
  assert (E : forall ks,
    (fix on_last0 (ks0 : list lvl) : res (list lvl) :=
       match ks0 with
       | [] => Err "IndexError"
       | c :: rest =>
           match rest with
           | [] => match M_lappend c r with Ok c' => Ok [c'] | Err e => Err e end
           | _ :: _ => match on_last0 rest with Ok rs => Ok (c :: rs) | Err e => Err e end
           end
       end) ks = on_last r ks).
  { induction ks as [|c rest IH]; [reflexivity|]. destruct rest as [|c2 rest2]; [reflexivity|].
    rewrite IH. reflexivity. }
  now rewrite E.
Qed.

(* lists split at their last element *)
Lemma on_last_split : forall r ks ks', on_last r ks = Ok ks' ->
  exists pre c c', ks = pre ++ [c] /\ ks' = pre ++ [c'] /\ M_lappend c r = Ok c'.
Proof.
  induction ks as [|c rest IH]; intros ks' H; [discriminate|].
  destruct rest as [|c2 rest2].
  - cbn in H. destruct (M_lappend c r) as [c'|e] eqn:E; [|discriminate]. injection H as <-.
    exists [], c, c'. auto.
  - change (on_last r (c :: c2 :: rest2)) with
      (match on_last r (c2 :: rest2) with Ok rs => Ok (c :: rs) | Err e => Err e end) in H.
    destruct (on_last r (c2 :: rest2)) as [rs|e] eqn:E; [|discriminate]. injection H as <-.
    destruct (IH rs eq_refl) as (pre & c0 & c0' & E1 & E2 & E3).
    exists (c :: pre), c0, c0'. rewrite E1, E2. auto.
Qed.

Lemma last_opt_split : forall ls x, last_opt ls = Some x -> exists lpre, ls = lpre ++ [x].
Proof.
  induction ls as [|l r IH]; intros x H; [discriminate|].
  destruct r as [|l2 r2].
  - injection H as <-. exists []. reflexivity.
  - change (last_opt (l :: l2 :: r2)) with (last_opt (l2 :: r2)) in H.
    destruct (IH x H) as [lpre E]. exists (l :: lpre). now rewrite E.
Qed.

Lemma zip_go_app : forall pre lpre c x, length lpre = length pre ->
  zip_go (pre ++ [c]) (lpre ++ [x]) = zip_go pre lpre ++ map (cons x) (flatten c).
Proof.
  induction pre as [|p rest IH]; intros [|l lr] c x H; cbn in *; try discriminate.
  - now rewrite app_nil_r.
  - rewrite IH by lia. now rewrite app_assoc.
Qed.

Lemma zip_go_app2 : forall ks ls c k, length ls = length ks ->
  zip_go (ks ++ [c]) (ls ++ [k]) = zip_go ks ls ++ map (cons k) (flatten c).
Proof. intros. now apply zip_go_app. Qed.

Lemma chain_spec : forall r c, chain r = Some c -> flatten c = [r] /\ lvl_wf c.
Proof.
  induction r as [|k r IH]; intros c H; [discriminate|].
  destruct r as [|k2 r2].
  - injection H as <-. split; [reflexivity | constructor].
  - change (chain (k :: k2 :: r2)) with
      (match chain (k2 :: r2) with Some c0 => Some (Node [k] [c0]) | None => None end) in H.
    destruct (chain (k2 :: r2)) as [c0|] eqn:E; [|discriminate]. injection H as <-.
    destruct (IH c0 eq_refl) as [Hf Hw]. split.
    + rewrite flatten_node. cbn. now rewrite Hf.
    + constructor; [reflexivity | repeat constructor; exact Hw].
Qed.

Lemma app_inj_len : forall A (a a' : list A) x y, length a = length a' -> a ++ [x] = a' ++ [y] -> a = a' /\ x = y.
Proof.
  intros A a a' x y Hl H. apply app_inj_tail in H. exact H.
Qed.

(* APPEND: an accepted call adds exactly the given label, at the end, and the tree stays well formed *)
Theorem hier_append_correct : forall t key t',
  lvl_wf t -> M_lappend t key = Ok t' ->
  flatten t' = flatten t ++ [key] /\ lvl_wf t'.
Proof.
  induction t as [ls|ls kids IH] using lvl_rect'; intros key t' Hwf Happ.
  - (* leaf *)
    destruct key as [|k [|k2 r]]; cbn in Happ; try discriminate.
    destruct (mem L leq k ls); [discriminate|]. injection Happ as <-. split; [|constructor].
    cbn. now rewrite map_app.
  - destruct key as [|k r]; [discriminate|].
    rewrite lappend_node in Happ.
    inversion Hwf as [|? ? Hlen Hkids]; subst.
    destruct (mem L leq k ls) eqn:Hm.
    + destruct (negb (is_last k ls)) eqn:Hlst; [discriminate|].
      apply negb_false_iff in Hlst. unfold GrowOnlyHier.is_last in Hlst.
      destruct (last_opt ls) as [x|] eqn:Hlast; [|discriminate].
      apply leq_eq in Hlst. subst x.
      destruct (on_last r kids) as [kids'|e] eqn:Eol; [|discriminate]. injection Happ as <-.
      destruct (on_last_split r kids kids' Eol) as (pre & c & c' & -> & -> & Hc).
      destruct (last_opt_split ls k Hlast) as [lpre ->].
      assert (Hl : length lpre = length pre) by (rewrite !app_length in Hlen; cbn in Hlen; lia).
      rewrite Forall_forall in IH.
      apply Forall_app in Hkids as [Hpre Hcw]. inversion Hcw as [|? ? Hcwf _]; subst.
      destruct (IH c ltac:(apply in_or_app; right; now left) r c' Hcwf Hc) as [Hf Hw].
      split.
      * rewrite !flatten_node, !zip_go_app by assumption. rewrite Hf, map_app, app_assoc. reflexivity.
      * constructor; [rewrite !app_length; cbn; lia|]. apply Forall_app. split; [exact Hpre | repeat constructor; exact Hw].
    + destruct (chain r) as [c|] eqn:Ec; [|discriminate]. injection Happ as <-.
      destruct (chain_spec r c Ec) as [Hf Hw]. split.
      * rewrite !flatten_node, zip_go_app2 by assumption. now rewrite Hf.
      * constructor; [rewrite !app_length; cbn; lia|]. apply Forall_app. split; [exact Hkids | repeat constructor; exact Hw].
Qed.

(* a rejected append leaves the tree as it was: the model returns the very same tree *)
Lemma hier_append_rejected : forall (h : hgo L) key e,
  snd (M_happend L leq h key) = Err e -> fst (M_happend L leq h key) = h.
Proof.
  intros h key e. unfold GrowOnlyHier.M_happend.
  destruct (negb (zlen key =? h_depth h)); [reflexivity|].
  destruct (lvl_empty L (h_tree h)).
  - destruct (chain key); [discriminate | reflexivity].
  - destruct (M_lappend (h_tree h) key); [discriminate | reflexivity].
Qed.

(* EXTEND (after fixes 4b2944d / c675c22), no guard: a rejected call returns the very same hierarchy
   (also on a zero-length hierarchy); an accepted one lists the labels before followed by the other
   hierarchy's labels in their order *)
Theorem hier_extend_rejected : forall (h o : hgo L) e,
  snd (M_hextend L leq h o) = Err e -> fst (M_hextend L leq h o) = h.
Proof.
  intros h o e. unfold GrowOnlyHier.M_hextend.
  destruct (h_tree o); [reflexivity|].
  destruct (negb (h_depth h =? h_depth o)); [reflexivity|].
  destruct (h_tree h); [reflexivity|].
  destruct (root_valid L leq labels0 labels []); [discriminate | reflexivity].
Qed.

Lemma zip_go_app_gen : forall ks ls ks2 ls2, length ls = length ks ->
  zip_go (ks ++ ks2) (ls ++ ls2) = zip_go ks ls ++ zip_go ks2 ls2.
Proof.
  induction ks as [|c cr IH]; intros [|l lr] ks2 ls2 H; cbn in *; try discriminate; auto.
  rewrite IH by lia. now rewrite app_assoc.
Qed.

Theorem hier_extend_correct : forall (h o h' : hgo L),
  lvl_wf (h_tree h) -> lvl_wf (h_tree o) -> M_hextend L leq h o = (h', Ok tt) ->
  flatten (h_tree h') = flatten (h_tree h) ++ flatten (h_tree o) /\ lvl_wf (h_tree h') /\ h_depth h' = h_depth h.
Proof.
  intros h o h' Hw Hwo. unfold GrowOnlyHier.M_hextend.
  destruct (h_tree o) as [|ols okids] eqn:Eo; [discriminate|].
  destruct (negb (h_depth h =? h_depth o)); [discriminate|].
  destruct (h_tree h) as [|ls kids] eqn:Eh; [discriminate|].
  destruct (root_valid L leq ls ols []); [|discriminate]. intros E. injection E as <-. cbn [h_tree h_depth].
  inversion Hw as [|? ? Hl Hk]; subst. inversion Hwo as [|? ? Hlo Hko]; subst.
  split; [|split; [|reflexivity]].
  - rewrite !flatten_node. now apply zip_go_app_gen.
  - constructor; [rewrite !app_length; lia | apply Forall_app; auto].
Qed.

End HierProofs.
