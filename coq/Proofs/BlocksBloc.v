(* C08 -- TypeBlocks._assign_from_bloc_by_unit: for EVERY block layout the CELLS of the result are the specification's
   (exactly the addressed cells replaced); the DTYPES are the specification's when every block holds one column, and the
   whole-block cast is exactly where they differ (finding C08-bloc-assign-coerces-whole-block, Refuted/C08.v). *)
Require Import SF.Prelude SF.PySlice SF.Dtype SF.Blocks SF.UpdateSpec SF.BlocksUpdate.

Section Bloc.
Context {A : Type}.
Variable newdt : dtype -> dtype.
Variable cells : Z -> list bool -> list A -> list A.
(* writing at no row changes nothing (NumPy: a[all-False mask] = v) *)
Hypothesis cells_none : forall j m c, existsb (fun b : bool => b) m = false -> cells j m c = c.

Lemma cells_zip_app (ms1 : list (list bool)) : forall j cs1 ms2 cs2, length ms1 = length cs1 ->
  cells_zip cells j (ms1 ++ ms2) (cs1 ++ cs2) =
  cells_zip cells j ms1 cs1 ++ cells_zip cells (j + Z.of_nat (length ms1)) ms2 cs2.
Proof.
  induction ms1 as [|m ms1 IH]; intros j cs1 ms2 cs2 Hlen.
  - destruct cs1; [|discriminate]. cbn. replace (j + 0) with j by lia. reflexivity.
  - destruct cs1 as [|c cs1]; [discriminate|]. cbn [app cells_zip length]. f_equal.
    rewrite IH by (cbn in Hlen; lia). f_equal. f_equal. lia.
Qed.

Lemma cells_zip_none ms : forall j cs, length ms = length cs -> any_true ms = false -> cells_zip cells j ms cs = cs.
Proof.
  induction ms as [|m ms IH]; intros j cs Hlen Hn; destruct cs as [|c cs]; try discriminate; [reflexivity|].
  cbn in Hn. apply orb_false_iff in Hn as [H1 H2]. cbn [cells_zip]. rewrite cells_none by assumption.
  f_equal. apply IH; [cbn in Hlen; lia|exact H2].
Qed.

Lemma cells_zip_length ms : forall j cs, length ms = length cs -> length (cells_zip cells j ms cs) = length cs.
Proof.
  induction ms as [|m ms IH]; intros j cs Hlen; destruct cs as [|c cs]; try discriminate; [reflexivity|].
  cbn. f_equal. apply IH. cbn in Hlen. lia.
Qed.

(* the cells, every layout *)
Theorem bloc_unit_cells (t : tb A) : forall j masks, length masks = length (flatten t) ->
  map snd (flatten (bloc_walk newdt cells j t masks)) = cells_zip cells j masks (map snd (flatten t)).
Proof.
  induction t as [|b r IH]; intros j masks Hlen.
  - destruct masks; [reflexivity|discriminate].
  - cbn [bloc_walk flatten flat_map]. fold (flatten r). fold (flatten (bloc_walk newdt cells (j + Z.of_nat (length (b_cols b))) r (skipn (length (b_cols b)) masks))).
    cbn [flatten flat_map] in Hlen. fold (flatten r) in Hlen. rewrite app_length in Hlen. unfold block_columns at 1 in Hlen. rewrite map_length in Hlen.
    set (w := length (b_cols b)) in *.
    assert (Hf : length (firstn w masks) = w) by (rewrite firstn_length; lia).
    rewrite !map_app. rewrite IH by (rewrite skipn_length; lia).
    assert (E : masks = firstn w masks ++ skipn w masks) by (symmetry; apply firstn_skipn).
    set (m1 := firstn w masks) in *. set (m2 := skipn w masks) in *. clearbody m1 m2. subst masks.
    rewrite cells_zip_app, Hf.
    2: { unfold block_columns. rewrite !map_length. exact Hf. }
    f_equal.
    destruct (any_true m1) eqn:Ea.
    + unfold block_columns. cbn [b_dtype b_cols]. rewrite !map_map. cbn [snd]. rewrite !map_id. reflexivity.
    + unfold block_columns. rewrite map_map. cbn [snd]. rewrite map_id. symmetry. apply cells_zip_none; assumption.
Qed.

(* the dtypes, when every block holds exactly one column *)
Theorem bloc_unit_dtypes_single_columns (t : tb A) : forall j masks, length masks = length (flatten t) ->
  Forall (fun b => length (b_cols b) = 1%nat) t ->
  map fst (flatten (bloc_walk newdt cells j t masks)) = S_bloc_dtypes newdt masks (map fst (flatten t)).
Proof.
  induction t as [|b r IH]; intros j masks Hlen Hone.
  - destruct masks; [reflexivity|discriminate].
  - inversion Hone as [|? ? H1 Hr]; subst. destruct (b_cols b) as [|c [|? ?]] eqn:Ec; cbn in H1; try lia.
    assert (Hlen' : length masks = S (length (flatten r))).
    { cbn [flatten flat_map] in Hlen. fold (flatten r) in Hlen. rewrite app_length in Hlen.
      unfold block_columns at 1 in Hlen. rewrite Ec in Hlen. cbn in Hlen. lia. }
    destruct masks as [|m masks]; [discriminate|].
    cbn [bloc_walk]. rewrite Ec. cbn [length firstn skipn]. cbn [flatten flat_map]. fold (flatten r).
    fold (flatten (bloc_walk newdt cells (j + Z.of_nat 1) r masks)).
    rewrite !map_app. rewrite IH; [|cbn in Hlen'; lia|assumption].
    unfold block_columns at 2. rewrite Ec. cbn [map app fst S_bloc_dtypes]. f_equal.
    unfold any_true. cbn [existsb]. rewrite orb_false_r.
    destruct (existsb (fun b0 : bool => b0) m); unfold block_columns; cbn [b_dtype b_cols]; [cbn; reflexivity|rewrite Ec; reflexivity].
Qed.

End Bloc.
