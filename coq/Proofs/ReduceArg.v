(* C15 -- what the position scan (arg_go) returns: the FIRST position of the extreme present value. *)
Require Import SF.Prelude SF.Value SF.Dtype SF.Reduce Proofs.ReduceFold.
From Coq Require Import QArith.
Local Open Scope Z_scope.

Section Scan.
  Variable le : Q -> Q -> bool.
  Hypothesis le_total : forall a b, le a b = true \/ le b a = true.
  Hypothesis le_trans : forall a b c, le a b = true -> le b c = true -> le a c = true.
  Definition better (q b : Q) : bool := negb (le b q).

  Lemma le_refl : forall a, le a a = true.
  Proof. intros a. destruct (le_total a a); assumption. Qed.

  Definition Inv (pre : list cell) (best : option (Z * Q)) : Prop :=
    match best with
    | None => forall j p, nth_error pre j <> Some (Some p)
    | Some (k, v) =>
        0 <= k /\ nth_error pre (Z.to_nat k) = Some (Some v) /\
        (forall j p, nth_error pre j = Some (Some p) -> le v p = true) /\
        (forall j p, (j < Z.to_nat k)%nat -> nth_error pre j = Some (Some p) -> le p v = false)
    end.

  Lemma nth_error_snoc : forall (pre : list cell) c j x,
    nth_error (pre ++ [c]) j = Some x ->
    ((j < length pre)%nat /\ nth_error pre j = Some x) \/ (j = length pre /\ x = c).
  Proof.
    intros pre c j x H. destruct (Nat.lt_ge_cases j (length pre)) as [Hlt|Hge].
    - left. split; [exact Hlt|]. rewrite nth_error_app1 in H by exact Hlt. exact H.
    - right. rewrite nth_error_app2 in H by exact Hge.
      destruct (j - length pre)%nat as [|n] eqn:E.
      + cbn in H. injection H as <-. split; [lia|reflexivity].
      + cbn in H. destruct n; discriminate.
  Qed.

  Lemma Inv_step : forall pre best c,
    Inv pre best ->
    Inv (pre ++ [c])
        (match c with
         | None => best
         | Some q => match best with
                     | None => Some (Z.of_nat (length pre), q)
                     | Some (_, b) => if better q b then Some (Z.of_nat (length pre), q) else best
                     end
         end).
  Proof.
    intros pre best c HI. destruct c as [q|].
    - destruct best as [[k v]|].
      + destruct HI as (Hk & Hpos & Hmin & Hfirst).
        assert (Hklt : (Z.to_nat k < length pre)%nat) by (apply nth_error_Some; congruence).
        unfold better. destruct (le v q) eqn:Evq; cbn [negb].
        * (* keep *)
          repeat split; try assumption.
          -- rewrite nth_error_app1 by exact Hklt. exact Hpos.
          -- intros j p Hj. apply nth_error_snoc in Hj as [[_ Hj]|[_ Hj]]; [eapply Hmin; exact Hj|].
             injection Hj as ->. exact Evq.
          -- intros j p Hjk Hj. apply nth_error_snoc in Hj as [[_ Hj]|[Hj _]]; [eapply Hfirst; eassumption|lia].
        * (* replace *)
          assert (Hqv : le q v = true) by (destruct (le_total q v); congruence).
          repeat split.
          -- lia.
          -- rewrite Nat2Z.id, nth_error_app2, Nat.sub_diag by lia. reflexivity.
          -- intros j p Hj. apply nth_error_snoc in Hj as [[_ Hj]|[_ Hj]].
             ++ eapply le_trans; [exact Hqv|]. eapply Hmin; exact Hj.
             ++ injection Hj as ->. apply le_refl.
          -- rewrite Nat2Z.id. intros j p Hjk Hj. apply nth_error_snoc in Hj as [[_ Hj]|[Hj _]]; [|lia].
             destruct (le p q) eqn:Epq; [|reflexivity].
             rewrite (le_trans v p q (Hmin j p Hj) Epq) in Evq. discriminate.
      + cbn in HI. repeat split.
        * lia.
        * rewrite Nat2Z.id, nth_error_app2, Nat.sub_diag by lia. reflexivity.
        * intros j p Hj. apply nth_error_snoc in Hj as [[_ Hj]|[_ Hj]]; [exfalso; eapply HI; exact Hj|].
          injection Hj as ->. apply le_refl.
        * rewrite Nat2Z.id. intros j p Hjk Hj. apply nth_error_snoc in Hj as [[_ Hj]|[Hj _]]; [|lia].
          exfalso; eapply HI; exact Hj.
    - destruct best as [[k v]|].
      + destruct HI as (Hk & Hpos & Hmin & Hfirst).
        assert (Hklt : (Z.to_nat k < length pre)%nat) by (apply nth_error_Some; congruence).
        repeat split; try assumption.
        * rewrite nth_error_app1 by exact Hklt. exact Hpos.
        * intros j p Hj. apply nth_error_snoc in Hj as [[_ Hj]|[_ Hj]]; [eapply Hmin; exact Hj|discriminate].
        * intros j p Hjk Hj. apply nth_error_snoc in Hj as [[_ Hj]|[_ Hj]]; [eapply Hfirst; eassumption|discriminate].
      + cbn in *. intros j p Hj. apply nth_error_snoc in Hj as [[_ Hj]|[_ Hj]]; [eapply HI; exact Hj|discriminate].
  Qed.

  Lemma arg_go_inv : forall xs pre best,
    Inv pre best -> Inv (pre ++ xs) (arg_go better (Z.of_nat (length pre)) best xs).
  Proof.
    induction xs as [|c t IH]; intros pre best HI.
    - rewrite app_nil_r. exact HI.
    - replace (pre ++ c :: t) with ((pre ++ [c]) ++ t) by (rewrite <- app_assoc; reflexivity).
      pose proof (Inv_step pre best c HI) as Hs.
      specialize (IH (pre ++ [c]) _ Hs).
      rewrite app_length in IH. cbn [length] in IH.
      replace (Z.of_nat (length pre + 1)) with (Z.of_nat (length pre) + 1) in IH by lia.
      destruct c as [q|]; cbn [arg_go]; exact IH.
  Qed.
End Scan.

(* THE characterisation of iloc_min / iloc_max on one line: the scan returns position k with value v where
   v is present at k, no present value beats v, and every present value before k is strictly worse
   (first position on ties); it returns nothing exactly when no cell is present *)
Theorem arg_go_first_extreme : forall ismin xs,
  match arg_go (arg_better ismin) 0 None xs with
  | Some (k, v) =>
      0 <= k /\ nth_error xs (Z.to_nat k) = Some (Some v) /\
      (forall j p, nth_error xs j = Some (Some p) -> (if ismin then Qle_bool v p else Qle_bool p v) = true) /\
      (forall j p, (j < Z.to_nat k)%nat -> nth_error xs j = Some (Some p) ->
                   (if ismin then Qle_bool p v else Qle_bool v p) = false)
  | None => forall j p, nth_error xs j <> Some (Some p)
  end.
Proof.
  intros ismin xs. destruct ismin.
  - pose proof (arg_go_inv Qle_bool Qle_bool_total Qle_bool_trans xs [] None) as H.
    cbn [app length Z.of_nat] in H.
    assert (H0 : Inv Qle_bool [] None) by (intros [|j] p; discriminate).
    specialize (H H0).
    change (better Qle_bool) with (arg_better true) in H.
    destruct (arg_go (arg_better true) 0 None xs) as [[k v]|]; exact H.
  - pose proof (arg_go_inv (fun a b => Qle_bool b a) (fun a b => Qle_bool_total b a)
                  (fun a b c H1 H2 => Qle_bool_trans c b a H2 H1) xs [] None) as H.
    cbn [app length Z.of_nat] in H.
    assert (H0 : Inv (fun a b => Qle_bool b a) [] None) by (intros [|j] p; discriminate).
    specialize (H H0).
    change (better (fun a b => Qle_bool b a)) with (arg_better false) in H.
    destruct (arg_go (arg_better false) 0 None xs) as [[k v]|]; exact H.
Qed.

(* loc_min / loc_max: the label found is the label at the position found (or RuntimeError when there is none) *)
Theorem S_loc_is_label_at_iloc : forall ismin axis skipna r cols index columns os,
  S_argframe ismin axis skipna r cols = Ok os ->
  S_locframe ismin axis skipna r cols index columns =
  res_all (map (loc_of (if axis =? 0 then index else columns)) os).
Proof. intros. unfold S_locframe. rewrite H. reflexivity. Qed.
