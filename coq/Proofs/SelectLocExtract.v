(* C04 -- end to end: Frame.loc / Frame[] / Series.loc as the code runs them (label translation, then
   Frame._extract over the blocks) equal the specification "positional selection at the positions of the
   labels"; and the label-equality hypothesis of the theorems holds for the observed values (val_eqb). *)
Require Import SF.Prelude SF.PySlice SF.Dtype SF.Value SF.Blocks SF.Select
  Proofs.SliceFacts Proofs.BlocksSelect Proofs.SelectFacts Proofs.SelectExtract Proofs.SelectLoc.

Section LocExtract.
Context {A L : Type}.
Variable leqb : L -> L -> bool.
Variable rdt : list dtype -> dtype.
Variable as_z : L -> option Z.
Hypothesis leqb_spec : forall x y, leqb x y = true <-> x = y.

(* Frames whose axes both carry a dictionary (any labels) *)
Theorem extract_loc_refines (f : mframe A L) (rkey ckey_ : lkey L) :
  wf_mframe leqb f ->
  (* not both keys malformed (the class of the first error is not modelled) *)
  ((exists rk, M_loc_map leqb (mf_index f) rkey = Ok rk) \/
   (forall ck, M_loc_map leqb (mf_columns f) ckey_ = Ok ck ->
      exists cs, ckey_sel ck (Z.of_nat (length (mf_columns f))) = Ok cs)) ->
  M_extract_loc leqb rdt as_z KMap KMap f rkey ckey_ = S_extract_loc leqb rdt (abs_frame f) rkey ckey_.
Proof.
  intros Hwf Hord.
  pose proof (loc_map_refines leqb leqb_spec (mf_index f) rkey) as Hr.
  pose proof (loc_map_refines leqb leqb_spec (mf_columns f) ckey_) as Hc.
  unfold M_extract_loc, S_extract_loc, M_loc. cbn [abs_frame sf_columns sf_index].
  rewrite <- Hr, <- Hc. clear Hr Hc.
  assert (Hcols : length (mf_columns f) = length (flatten (mf_blocks f))) by (destruct Hwf as (_ & _ & _ & _ & H & _); exact H).
  destruct (M_loc_map leqb (mf_columns f) ckey_) as [ck|e] eqn:Eck; cbn [res_bind]; [|reflexivity].
  destruct (M_loc_map leqb (mf_index f) rkey) as [rk|e] eqn:Erk; cbn [res_bind].
  - rewrite (extract_refines leqb rdt f rk ck Hwf).
    unfold S_extract. cbn [abs_frame sf_cols sf_index]. rewrite Hcols. reflexivity.
  - destruct Hord as [[rk Hrk]|Hc]; [discriminate|].
    destruct (Hc ck eq_refl) as [cs Ecs]. rewrite Ecs. reflexivity.
Qed.

(* Series: values[iloc_key] and index.iloc[iloc_key] after the translation *)
Theorem series_loc_refines (s : sseries A L) (k : lkey L) :
  M_series_loc leqb as_z KMap s k = S_series_loc leqb s k.
Proof.
  unfold M_series_loc, S_series_loc, M_loc, S_series_iloc.
  rewrite <- (loc_map_refines leqb leqb_spec (ss_index s) k).
  destruct (M_loc_map leqb (ss_index s) k); reflexivity.
Qed.

End LocExtract.

(* ---------- the observed values: val_eqb decides equality ---------- *)
Lemma tunit_eqb_eq u v : tunit_eqb u v = true -> u = v.
Proof. destruct u, v; cbn; intros H; try reflexivity; discriminate. Qed.

Lemma val_eqb_eq : forall a b, val_eqb a b = true -> a = b.
Proof.
  fix IH 1. intros a b. destruct a as [z|b0|s|n d|b0| | | |u z|u z|s|l], b as [z'|b1|s'|n' d'|b1| | | |u' z'|u' z'|s'|l'];
    cbn; try discriminate; intros H; try reflexivity.
  - apply Z.eqb_eq in H. congruence.
  - apply Bool.eqb_prop in H. congruence.
  - apply String.eqb_eq in H. congruence.
  - apply andb_true_iff in H as [H1 H2]. apply Z.eqb_eq in H1. apply Z.eqb_eq in H2. congruence.
  - apply Bool.eqb_prop in H. congruence.
  - apply andb_true_iff in H as [H1 H2]. apply tunit_eqb_eq in H1. apply Z.eqb_eq in H2. congruence.
  - apply andb_true_iff in H as [H1 H2]. apply tunit_eqb_eq in H1. apply Z.eqb_eq in H2. congruence.
  - apply String.eqb_eq in H. congruence.
  - f_equal. revert l' H. induction l as [|x xs IHl]; intros [|y ys] H; try discriminate; [reflexivity|].
    apply andb_true_iff in H as [H1 H2]. f_equal; [apply IH; exact H1|apply IHl; exact H2].
Qed.

Lemma val_eqb_spec x y : val_eqb x y = true <-> x = y.
Proof. split; [apply val_eqb_eq|intros ->; apply val_eqb_refl]. Qed.

(* the theorems at the instance the correspondence evaluates *)
Corollary loc_map_refines_val (labels : list val) (k : lkey val) :
  (ck <- M_loc_map val_eqb labels k;; ckey_sel ck (Z.of_nat (length labels))) = S_loc val_eqb labels k.
Proof. apply loc_map_refines. exact val_eqb_spec. Qed.

(* non-trivial instances (the hypotheses are satisfiable, the conclusions are not vacuous) *)
Example loc_map_instance :
  (ck <- M_loc_map Z.eqb [10; 20; 30; 40] (LSlice (Some 20) (Some 40) (Some 2));; ckey_sel ck 4) = Ok (SMany [1; 3]) /\
  S_loc Z.eqb [10; 20; 30; 40] (LBoolSeries [(40, true); (99, true); (10, false); (20, true)]) = Ok (SMany [1; 3]) /\
  S_loc Z.eqb [10; 20; 30; 40] (LList [30; 99]) = Err "KeyError" /\
  (ck <- M_loc_map Z.eqb [10; 20; 30; 40] (LSlice (Some 40) (Some 10) (Some (-1)));; ckey_sel ck 4) = Ok (SMany [3; 2; 1; 0]).
Proof. vm_compute. repeat split; reflexivity. Qed.

Example extract_loc_instance :
  let f := mk_mframe [7; 8] [10; 20; 30]
             [mk_block (DInt true 8) false [[1; 2]; [3; 4]]; mk_block (DInt true 8) true [[5; 6]]] 2 0 in
  M_extract_loc Z.eqb (fun _ => DObj) Some KMap KMap f (LLabel 8) (LSlice (Some 10) (Some 30) (Some 2))
  = Ok (XSeries [10; 30] [2; 6] (DObj) 8).
Proof. vm_compute. reflexivity. Qed.
