(* C02 -- IndexHierarchy.from_labels, part 2: the whole label loop, the levels built from the tree
   (offsets), and leaf_loc_to_iloc through the offsets. *)
Require Import SF.Prelude SF.PySlice SF.IndexBij SF.IxTree Proofs.IndexBijFacts Proofs.IxTreeIns.

Lemma NoDup_app_intro {A} (a b : list A) :
  NoDup a -> NoDup b -> (forall x, In x a -> ~ In x b) -> NoDup (a ++ b).
Proof.
  induction a as [|x a IH]; intros Ha Hb H; [exact Hb|]. cbn. inversion Ha; subst. constructor.
  - intros Hin. apply in_app_or in Hin. destruct Hin as [Hin|Hin]; [contradiction|]. apply (H x); [left; reflexivity | exact Hin].
  - apply IH; [assumption | assumption |]. intros y Hy. apply H. right. exact Hy.
Qed.

Lemma NoDup_app_l {A} (a b : list A) : NoDup (a ++ b) -> NoDup a.
Proof.
  induction a as [|x a IH]; intros H; [constructor|]. cbn in H. inversion H; subst. constructor.
  - intros Hin. apply H2. apply in_or_app. left. exact Hin.
  - apply IH. assumption.
Qed.

Lemma NoDup_app_r {A} (a b : list A) : NoDup (a ++ b) -> NoDup b.
Proof. induction a as [|x a IH]; intros H; [exact H|]. cbn in H. inversion H; subst. apply IH. assumption. Qed.

Section Build.
  Set Default Proof Using "All".
  Variable C : Type.
  Variable ceqb : C -> C -> bool.
  Hypothesis ceqb_spec : forall x y, ceqb x y = true <-> x = y.

  Notation tree := (tree C).
  Notation level := (level C).
  Notation label := (label C).
  Notation paths := (paths C).
  Notation twf := (twf C).
  Notation rm_inv := (rm_inv C).
  Notation okc := (okc C).

  Lemma leqb_spec (a b : label) : leqb ceqb a b = true <-> a = b.
  Proof. unfold leqb. apply list_eqb_eq. exact ceqb_spec. Qed.

  Lemma share_spec p (a b : label) : share ceqb p a b = true <-> firstn p a = firstn p b.
  Proof. unfold share. apply leqb_spec. Qed.

  (* ---- the boolean tree-order test is the condition of ins_spec ---- *)
  Lemma okb_okc (x : label) (seen : list label) :
    okb ceqb (length x) seen x = true <-> okc x seen.
  Proof.
    unfold okb, okc. rewrite forallb_forall. split.
    - intros H p Hp (e & He & Hpe).
      assert (Hin : In p (seq 1 (length x - 1))) by (apply in_seq; lia).
      specialize (H p Hin). apply orb_true_iff in H. destruct H as [H|H].
      + apply negb_true_iff in H. exfalso.
        assert (T : existsb (share ceqb p x) seen = true).
        { apply existsb_exists. exists e. split; [exact He|]. apply share_spec. symmetry. exact Hpe. }
        congruence.
      + destruct (lastopt seen) as [q|]; [|discriminate]. exists q. split; [reflexivity|].
        apply share_spec in H. symmetry. exact H.
    - intros H p Hin. apply in_seq in Hin.
      destruct (existsb (share ceqb p x) seen) eqn:E; [|reflexivity]. cbn [negb orb].
      apply existsb_exists in E. destruct E as (e & He & Hs). apply share_spec in Hs.
      destruct (H p) as (q & Hq & Hfq); [lia | exists e; auto |].
      rewrite Hq. apply share_spec. symmetry. exact Hfq.
  Qed.

  (* ---- the loop over all labels ---- *)
  Lemma ins_all_spec d : (2 <= d)%nat -> forall (labs : list label) (t : tree) last (seen : list label),
    twf d t -> rm_inv d t last -> paths t = seen ->
    match ins_all ceqb d labs last t with
    | Ok t' => twf d t' /\ paths t' = seen ++ labs /\
               forallb (depth_ok d) labs = true /\ tree_ordered_from ceqb d seen labs = true
    | Err e => e = "ErrorInitIndex"%string /\
               (forallb (depth_ok d) labs && tree_ordered_from ceqb d seen labs) = false
    end.
  Proof.
    intros Hd. induction labs as [|lab labs IH]; intros t last seen W R P.
    - cbn. rewrite app_nil_r. auto.
    - cbn [ins_all forallb tree_ordered_from].
      destruct (depth_ok d lab) eqn:El.
      + unfold depth_ok in El. apply Nat.eqb_eq in El. subst d.
        assert (Hne : lab <> []) by (destruct lab; [cbn in Hd; lia | discriminate]).
        pose proof (ins_spec C ceqb ceqb_spec lab t last Hne W R) as S.
        destruct (ins ceqb lab last t) as [t'|e].
        * destruct S as (W' & P' & R' & OK). rewrite P in OK, P'.
          rewrite (proj2 (okb_okc lab seen) OK).
          specialize (IH t' (map Some (removelast lab)) (seen ++ [lab]) W' R' P').
          destruct (ins_all ceqb (length lab) labs (map Some (removelast lab)) t') as [t''|e].
          -- destruct IH as (W2 & P2 & F2 & T2). rewrite <- app_assoc in P2. cbn [andb app] in *. auto.
          -- destruct IH as [-> F]. split; [reflexivity|]. cbn [andb]. exact F.
        * destruct S as [-> NOK]. split; [reflexivity|]. rewrite P in NOK.
          destruct (okb ceqb (length lab) seen lab) eqn:Eo; [apply okb_okc in Eo; contradiction|].
          cbn [andb]. apply andb_false_r.
      + cbn. auto.
  Qed.

  (* ---- levels ---- *)
  Fixpoint offsets_ok (off : Z) (tg : list level) : Prop :=
    match tg with
    | [] => True
    | t :: tg' => lv_offset t = off /\ offsets_ok (off + lv_len t) tg'
    end.

  Fixpoint lwf (d : nat) (lv : level) : Prop :=
    match d with
    | O => False
    | S d' => match lv with
              | LLeaf _ ls => d' = O /\ NoDup ls
              | LNode _ ls tg => d' <> O /\ NoDup ls /\ length ls = length tg /\
                                 Forall (lwf d') tg /\ offsets_ok 0 tg
              end
    end.

  Lemma flatten_list_len (tg : list level) : forall ls,
    Forall (fun t => lv_len t = zlen (flatten t)) tg -> length ls = length tg ->
    fold_right (fun t acc => lv_len t + acc) 0 tg = zlen (flatten_list flatten tg ls).
  Proof.
    induction tg as [|t tg IH]; intros ls F L.
    - reflexivity.
    - destruct ls as [|k ls]; [discriminate|]. inversion F as [|? ? Ht Ft]; subst. cbn [fold_right flatten_list].
      rewrite (IH ls Ft) by (cbn in L; lia). rewrite Ht. unfold zlen. rewrite app_length, map_length, Nat2Z.inj_add. reflexivity.
  Qed.

  Lemma lv_len_flatten d : forall lv, lwf d lv -> lv_len lv = zlen (flatten lv).
  Proof.
    induction d as [|d IH]; intros lv W; [contradiction|].
    destruct lv as [o ls|o ls tg]; cbn [lwf] in W.
    - cbn. unfold zlen. rewrite map_length. reflexivity.
    - destruct W as (_ & _ & L & F & _). cbn [lv_len flatten]. apply flatten_list_len; [|exact L].
      eapply Forall_impl; [|exact F]. intros t Ht. apply IH. exact Ht.
  Qed.

  Lemma NoDup_singletons (l : list C) : NoDup (map (fun x => [x]) l) <-> NoDup l.
  Proof.
    split.
    - apply NoDup_map_inv.
    - apply FinFun.Injective_map_NoDup. intros a b H. congruence.
  Qed.

  Lemma NoDup_cons_map (k : C) (P : list label) : NoDup (map (cons k) P) <-> NoDup P.
  Proof.
    split.
    - apply NoDup_map_inv.
    - apply FinFun.Injective_map_NoDup. intros a b H. congruence.
  Qed.

  Lemma NoDup_paths_node ch : NoDup (map fst ch) -> Forall (fun p => NoDup (paths (snd p))) ch ->
    NoDup (paths (TNode ch)).
  Proof.
    induction ch as [|[k sub] ch IH]; intros ND F; [constructor|].
    change (paths (TNode ((k, sub) :: ch))) with (map (cons k) (paths sub) ++ paths (TNode ch)).
    cbn in ND. inversion ND; subst. inversion F; subst. apply NoDup_app_intro.
    - apply NoDup_cons_map. assumption.
    - apply IH; assumption.
    - intros x Hx Hx2. apply in_map_iff in Hx. destruct Hx as (e & <- & _).
      apply (in_paths_node C ceqb ceqb_spec) in Hx2. destruct Hx2 as (k1 & sub1 & e' & Hin & _ & E). injection E as -> _.
      apply H1. apply in_map_iff. exists (k1, sub1). auto.
  Qed.

  Lemma build_list_spec d (IH : forall t off, twf d t ->
      match build ceqb t off with
      | Ok lv => lwf d lv /\ flatten lv = paths t /\ lv_offset lv = off /\ NoDup (paths t)
      | Err e => e = "ErrorInitIndex"%string /\ ~ NoDup (paths t)
      end) :
    forall ch off, Forall (fun p => twf d (snd p) /\ paths (snd p) <> []) ch ->
    match build_list (build ceqb) ch off with
    | Ok tg => length tg = length ch /\ Forall (lwf d) tg /\ offsets_ok off tg /\
               flatten_list flatten tg (map fst ch) = paths (TNode ch) /\
               Forall (fun p => NoDup (paths (snd p))) ch
    | Err e => e = "ErrorInitIndex"%string /\ ~ Forall (fun p => NoDup (paths (snd p))) ch
    end.
  Proof.
    induction ch as [|[k sub] ch IHc]; intros off F.
    - cbn. auto 10.
    - inversion F as [|? ? [Wk _] F']; subst. cbn [snd] in Wk.
      cbn [build_list snd]. specialize (IH sub off Wk).
      destruct (build ceqb sub off) as [lv|e].
      + destruct IH as (Wl & Fl & Ol & Nl). specialize (IHc (off + lv_len lv) F').
        destruct (build_list (build ceqb) ch (off + lv_len lv)) as [tg|e].
        * destruct IHc as (L & Fw & Oo & Ff & Nn). cbn [length]. split; [lia|]. split; [constructor; assumption|].
          split; [cbn; auto|]. split.
          -- cbn [map fst flatten_list]. rewrite Fl, Ff. reflexivity.
          -- constructor; assumption.
        * destruct IHc as [-> N]. split; [reflexivity|]. intros FF. inversion FF; subst. contradiction.
      + destruct IH as [-> N]. split; [reflexivity|]. intros FF. inversion FF; subst. contradiction.
  Qed.

  Lemma build_spec d : forall t off, twf d t ->
    match build ceqb t off with
    | Ok lv => lwf d lv /\ flatten lv = paths t /\ lv_offset lv = off /\ NoDup (paths t)
    | Err e => e = "ErrorInitIndex"%string /\ ~ NoDup (paths t)
    end.
  Proof.
    induction d as [|d IH]; intros t off W; [contradiction|].
    destruct t as [l|ch]; cbn [twf] in W.
    - subst d. cbn [build]. destruct (nodupb ceqb l) eqn:E.
      + apply (nodupb_NoDup C ceqb ceqb_spec) in E. cbn. repeat split; try assumption. apply NoDup_singletons. exact E.
      + split; [reflexivity|]. intros N. apply NoDup_singletons in N.
        apply (nodupb_NoDup C ceqb ceqb_spec) in N. congruence.
    - destruct W as (Hd & ND & F). cbn [build].
      pose proof (build_list_spec d IH ch 0 F) as S.
      destruct (build_list (build ceqb) ch 0) as [tg|e].
      + destruct S as (L & Fw & Oo & Ff & Nn). cbn [lwf flatten lv_offset].
        split; [|split; [exact Ff | split; [reflexivity | apply NoDup_paths_node; assumption]]].
        split; [exact Hd|]. split; [exact ND|]. split; [rewrite map_length; lia|]. auto.
      + destruct S as [-> N]. split; [reflexivity|]. intros NDp. apply N.
        clear - NDp ceqb ceqb_spec. induction ch as [|[k sub] ch IHc]; [constructor|].
        change (paths (TNode ((k, sub) :: ch))) with (map (cons k) (paths sub) ++ paths (TNode ch)) in NDp.
        constructor.
        * cbn [snd]. apply NoDup_app_l in NDp. apply NoDup_cons_map in NDp. exact NDp.
        * apply IHc. apply NoDup_app_r in NDp. exact NDp.
  Qed.

End Build.
