(* C07: statements about the kernels regenerated from the source (Gen.Gen_util, Gen.Gen_c07), obtained from the
   typed models through the refinement lemmas. *)
Require Import SF.Prelude SF.PySlice SF.Dtype SF.PyDyn Gen.Gen_util Gen.Gen_c07 SF.Coerce SF.CoerceDyn.
Require Import Proofs.CoerceRefine Proofs.CoerceHolds Proofs.CoercePlans.
Local Open Scope string_scope.
Local Open Scope Z_scope.

Lemma gen_resolve_no_loss d1 d2 v :
  wf_dtype d1 = true -> wf_dtype d2 = true -> lossy_pair d1 d2 = false ->
  holds d1 v = true \/ holds d2 v = true ->
  exists r, resolve_dtype (PDtype d1) (PDtype d2) = PDtype r /\
            (time_fits r v = true -> holds r v = true).
Proof.
  intros W1 W2 L H. exists (resolve d1 d2). split; [apply resolve_refines|].
  intros T. apply resolve_holds; assumption.
Qed.

Lemma gen_resolve_comm d1 d2 :
  resolve_dtype (PDtype d1) (PDtype d2) = resolve_dtype (PDtype d2) (PDtype d1).
Proof. rewrite !resolve_refines. f_equal. apply resolve_comm. Qed.

(* the n-ary loops, expressed with the regenerated binary kernel *)
Definition gen_resolve (a b : dtype) : dtype :=
  match resolve_dtype (PDtype a) (PDtype b) with PDtype r => r | _ => DObj end.

Lemma gen_resolve_eq a b : gen_resolve a b = resolve a b.
Proof. unfold gen_resolve. rewrite resolve_refines. reflexivity. Qed.

Lemma nary_no_loss ds acc v :
  wf_dtype acc = true -> Forall (fun d => wf_dtype d = true) ds ->
  fold_ok acc ds = true -> fold_fits acc ds v = true ->
  holds acc v = true \/ Exists (fun d => holds d v = true) ds ->
  resolve_iter_loop acc ds = fold_left gen_resolve ds acc /\
  concat_loop acc ds = fold_left gen_resolve ds acc /\
  holds (fold_left gen_resolve ds acc) v = true.
Proof.
  intros Wa Wd Hok Hfit Hh.
  assert (E : fold_left gen_resolve ds acc = resolve_all acc ds).
  { unfold resolve_all. clear. revert acc. induction ds as [|d ds IH]; intros acc; [reflexivity|].
    cbn [fold_left]. rewrite gen_resolve_eq. apply IH. }
  rewrite E. repeat split.
  - apply resolve_iter_loop_spec.
  - apply concat_loop_spec.
  - apply resolve_all_holds; assumption.
Qed.

(* util.dtype_to_fill_value: the dummy fill value is a member of the dtype it is computed for (bytes dtypes get the
   str '' -- the str/bytes mix the property excludes) *)
Lemma gen_fill_value_held d : wf_dtype d = true -> (forall n, d <> DBytes n) ->
  exists e, decode_elem (dtype_to_fill_value (PDtype d)) = Some e /\ holds d (elem_val e) = true.
Proof.
  intros W NB. destruct d as [|s b|b|b|n|n|u|u|]; try destruct s; try (exfalso; eapply NB; reflexivity);
    (eexists; split; [vm_compute; reflexivity|]); try reflexivity;
    cbn [holds elem_val wf_dtype slen String.length Z.of_nat] in *; try lia;
    try (destruct u; reflexivity);
    repeat (apply orb_true_iff in W as [W|W]); apply Z.eqb_eq in W; subst b; reflexivity.
Qed.

(* the decision `resolved = object` of util.prepare_iter_for_array, read from the source, is the model's *)
Lemma gen_iter_object_cond_eq t s n i b :
  gen_iter_object_cond t false s n i b = t || (s && n) || (b && i).
Proof. destruct t, s, n, i, b; reflexivity. Qed.

(* an integer that the loop does not flag as big is exactly representable in float64 *)
Lemma gen_threshold_exact z :
  INT_MAX_COERCIBLE_TO_FLOAT = GEN_INT_MAX_COERCIBLE_TO_FLOAT /\
  (Z.abs z <= GEN_INT_MAX_COERCIBLE_TO_FLOAT -> holds (DFlt 8) (XInt z) = true).
Proof.
  split; [reflexivity|]. intros H. cbn [holds]. unfold fl_fits. cbn [fmt_of_bytes Z.eqb].
  change (fmt_of_bytes 8) with (Some (53, 1024, -1074)).
  apply int_fits with (k := 53); try lia.
  unfold GEN_INT_MAX_COERCIBLE_TO_FLOAT in H. change (2 ^ 53) with 9007199254740992. lia.
Qed.

(* the update of the cached row dtype in TypeBlocks.append, read from the source, is the model's step *)
Lemma gen_grown_step_eq acc d : gen_grown_step acc d = grown_step acc d.
Proof. unfold gen_grown_step, grown_step. destruct (dtype_eqb d acc); reflexivity. Qed.
