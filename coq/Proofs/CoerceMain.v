(* C07: statements about the regenerated util.resolve_dtype, obtained from the typed model through the
   refinement lemma. *)
Require Import SF.Prelude SF.PySlice SF.Dtype SF.PyDyn Gen.Gen_util SF.Coerce.
Require Import Proofs.CoerceRefine Proofs.CoerceHolds.
Local Open Scope string_scope.
Local Open Scope Z_scope.

Lemma gen_resolve_no_loss d1 d2 v :
  wf_dtype d1 = true -> wf_dtype d2 = true -> lossy_pair d1 d2 = false ->
  holds d1 v = true \/ holds d2 v = true ->
  exists r, resolve_dtype (PDtype d1) (PDtype d2) = PDtype r /\
            (time_fits r v = true -> holds r v = true).
Proof.
  intros W1 W2 L H. exists (resolve d1 d2). split; [apply resolve_refines|].
  intros T. apply resolve_holds; assumption.
Qed.
