(* C12 -- stable sorting: the specification sort is a sorted, stable permutation; such an
   arrangement is UNIQUE; merge sort computes it. All statements for every list, every total preorder. *)
Require Import SF.Prelude SF.SortCore.

(* ---------- small list facts ---------- *)
Lemma filter_nil_all {A} (p : A -> bool) (l : list A) :
  (forall y, In y l -> p y = false) -> filter p l = [].
Proof.
  induction l as [|a l IH]; intro H; [reflexivity|]. cbn.
  rewrite (H a (or_introl eq_refl)). apply IH. intros y Hy. apply H. right. exact Hy.
Qed.

Lemma filter_andb {A} (p q : A -> bool) (l : list A) :
  filter (fun y => p y && q y) l = filter q (filter p l).
Proof.
  induction l as [|a l IH]; [reflexivity|]. cbn. destruct (p a); cbn.
  - destruct (q a); rewrite IH; reflexivity.
  - exact IH.
Qed.

Lemma filter_comm {A} (p q : A -> bool) (l : list A) :
  filter p (filter q l) = filter q (filter p l).
Proof.
  rewrite <- !filter_andb. apply filter_ext. intro a. apply andb_comm.
Qed.

Lemma filter_split {A} (p : A -> bool) (l : list A) : forall u a v,
  filter p l = u ++ a :: v ->
  exists l1 l2, l = l1 ++ a :: l2 /\ filter p l1 = u /\ filter p l2 = v.
Proof.
  induction l as [|x l IH]; intros u a v H.
  - destruct u; discriminate H.
  - cbn in H. destruct (p x) eqn:Px.
    + destruct u as [|u0 u].
      * cbn in H. injection H as -> Hv. exists [], l. repeat split; assumption.
      * cbn in H. injection H as -> H. destruct (IH _ _ _ H) as (l1 & l2 & -> & H1 & H2).
        exists (u0 :: l1), l2. repeat split; [|exact H2]. cbn. rewrite Px, H1. reflexivity.
    + destruct (IH _ _ _ H) as (l1 & l2 & -> & H1 & H2).
      exists (x :: l1), l2. repeat split; [|exact H2]. cbn. rewrite Px. exact H1.
Qed.

Lemma StronglySorted_filter {A} (R : A -> A -> Prop) (p : A -> bool) (l : list A) :
  StronglySorted R l -> StronglySorted R (filter p l).
Proof.
  induction 1 as [|a l Hs IH Hf]; cbn; [constructor|].
  destruct (p a); [|exact IH]. constructor; [exact IH|].
  apply Forall_forall. intros y Hy. apply filter_In in Hy as [Hy _].
  rewrite Forall_forall in Hf. apply Hf. exact Hy.
Qed.

Lemma StronglySorted_mid {A} (R : A -> A -> Prop) (l1 : list A) : forall a rest,
  StronglySorted R (l1 ++ a :: rest) -> Forall (R a) rest.
Proof.
  induction l1 as [|x l1 IH]; intros a rest H; cbn in H; inversion H; subst.
  - assumption.
  - apply IH. assumption.
Qed.

Lemma StronglySorted_rev {A} (R : A -> A -> Prop) (l : list A) :
  StronglySorted R l -> StronglySorted (fun x y => R y x) (rev l).
Proof.
  induction 1 as [|a l Hs IH Hf]; cbn; [constructor|].
  assert (G : forall m, StronglySorted (fun x y => R y x) m -> Forall (fun y => R a y) m ->
                        StronglySorted (fun x y => R y x) (m ++ [a])).
  { induction m as [|b m IHm]; intros Hm Hfa; cbn.
    - constructor; constructor.
    - inversion Hm; subst. inversion Hfa; subst. constructor.
      + apply IHm; assumption.
      + apply Forall_app. split; [assumption|]. constructor; [assumption|constructor]. }
  apply G; [exact IH|]. apply Forall_forall. intros y Hy. apply in_rev in Hy.
  rewrite Forall_forall in Hf. apply Hf. exact Hy.
Qed.

(* ---------- the theory, for one total preorder ---------- *)
Section Stable.
  Context {A : Type}.
  Variable leb : A -> A -> bool.
  Hypothesis leb_total : forall x y, leb x y = true \/ leb y x = true.
  Hypothesis leb_trans : forall x y z, leb x y = true -> leb y z = true -> leb x z = true.

  Definition le (x y : A) : Prop := leb x y = true.
  Notation sorted := (StronglySorted le).
  Notation eqv := (eqv leb).

  Lemma leb_refl : forall x, leb x x = true.
  Proof. intro x. destruct (leb_total x x); assumption. Qed.

  Lemma eqv_refl : forall x, eqv x x = true.
  Proof. intro x. unfold SortCore.eqv. rewrite leb_refl. reflexivity. Qed.

  Lemma eqv_true : forall x y, eqv x y = true <-> leb x y = true /\ leb y x = true.
  Proof. intros. unfold SortCore.eqv. apply andb_true_iff. Qed.

  (* ----- insertion sort: permutation, sorted, stable ----- *)
  Lemma insert_perm : forall x l, Permutation (insert_s leb x l) (x :: l).
  Proof.
    intros x l. induction l as [|y t IH]; cbn; [reflexivity|].
    destruct (leb x y); [reflexivity|].
    rewrite IH. apply perm_swap.
  Qed.

  Lemma S_sort_perm : forall l, Permutation (S_sort leb l) l.
  Proof.
    induction l as [|x t IH]; cbn; [reflexivity|].
    rewrite insert_perm. constructor. exact IH.
  Qed.

  Lemma insert_sorted : forall x l, sorted l -> sorted (insert_s leb x l).
  Proof.
    intros x l H. induction H as [|y t Hs IH Hf]; cbn.
    - constructor; constructor.
    - destruct (leb x y) eqn:E.
      + constructor; [constructor; assumption|].
        constructor; [exact E|].
        eapply Forall_impl; [|exact Hf]. intros z Hz. exact (leb_trans _ _ _ E Hz).
      + assert (Eyx : leb y x = true) by (destruct (leb_total x y); congruence).
        constructor; [exact IH|].
        eapply Permutation_Forall; [symmetry; apply insert_perm|].
        constructor; assumption.
  Qed.

  Lemma S_sort_sorted : forall l, sorted (S_sort leb l).
  Proof.
    induction l as [|x t IH]; cbn; [constructor|]. apply insert_sorted. exact IH.
  Qed.

  Lemma insert_stable : forall x a l,
    filter (eqv x) (insert_s leb a l) = filter (eqv x) (a :: l).
  Proof.
    intros x a l. induction l as [|y t IH]; [reflexivity|].
    cbn [insert_s]. destruct (leb a y) eqn:E; [reflexivity|].
    cbn [filter]. rewrite IH. cbn [filter].
    destruct (eqv x a) eqn:Ea; destruct (eqv x y) eqn:Ey; try reflexivity.
    exfalso. apply eqv_true in Ea as [Ea1 Ea2]. apply eqv_true in Ey as [Ey1 Ey2].
    rewrite (leb_trans _ _ _ Ea2 Ey1) in E. discriminate.
  Qed.

  (* stability: inside every class of equal keys the original order is kept *)
  Lemma S_sort_stable : forall x l, filter (eqv x) (S_sort leb l) = filter (eqv x) l.
  Proof.
    intros x l. induction l as [|a t IH]; [reflexivity|].
    cbn [S_sort]. rewrite insert_stable. cbn. rewrite IH. reflexivity.
  Qed.

  (* ----- uniqueness of the sorted stable arrangement ----- *)
  Lemma sorted_head_le : forall a l y, sorted (a :: l) -> In y (a :: l) -> leb a y = true.
  Proof.
    intros a l y H [->|Hy]; [apply leb_refl|].
    inversion H as [|? ? _ Hf]; subst. rewrite Forall_forall in Hf. exact (Hf y Hy).
  Qed.

  Theorem stable_sorted_unique : forall l1 l2,
    sorted l1 -> sorted l2 ->
    (forall x, filter (eqv x) l1 = filter (eqv x) l2) -> l1 = l2.
  Proof.
    induction l1 as [|a l1 IH]; intros [|b l2] S1 S2 H.
    - reflexivity.
    - specialize (H b). cbn in H. rewrite eqv_refl in H. discriminate.
    - specialize (H a). cbn in H. rewrite eqv_refl in H. discriminate.
    - assert (Hab : leb a b = true).
      { apply (sorted_head_le a l1 b S1).
        assert (I : In b (filter (eqv b) (b :: l2))) by (cbn; rewrite eqv_refl; left; reflexivity).
        rewrite <- H in I. apply filter_In in I. tauto. }
      assert (Hba : leb b a = true).
      { apply (sorted_head_le b l2 a S2).
        assert (I : In a (filter (eqv a) (a :: l1))) by (cbn; rewrite eqv_refl; left; reflexivity).
        rewrite H in I. apply filter_In in I. tauto. }
      assert (E : a = b).
      { pose proof (H a) as Ha. cbn in Ha. rewrite eqv_refl in Ha.
        assert (Eab : eqv a b = true) by (apply eqv_true; split; assumption).
        rewrite Eab in Ha. congruence. }
      subst b. f_equal. inversion S1; subst. inversion S2; subst.
      apply IH; try assumption.
      intro x. specialize (H x). cbn in H. destruct (eqv x a); congruence.
  Qed.

  Corollary stable_sort_unique : forall l l',
    sorted l' -> (forall x, filter (eqv x) l' = filter (eqv x) l) -> l' = S_sort leb l.
  Proof.
    intros l l' Hs Hf. apply stable_sorted_unique; [exact Hs|apply S_sort_sorted|].
    intro x. rewrite Hf, S_sort_stable. reflexivity.
  Qed.

  (* positional reading of stability: equal keys appear in the result in their input order *)
  Lemma S_sort_ties_keep_order : forall l l1 a l2 b l3,
    S_sort leb l = l1 ++ a :: l2 ++ b :: l3 -> eqv a b = true ->
    exists m1 m2 m3, l = m1 ++ a :: m2 ++ b :: m3.
  Proof.
    intros l l1 a l2 b l3 E Hab.
    pose proof (S_sort_stable a l) as F. rewrite E in F.
    rewrite filter_app in F. cbn [filter] in F. rewrite eqv_refl in F.
    rewrite filter_app in F. cbn [filter] in F. rewrite Hab in F.
    symmetry in F.
    destruct (filter_split _ _ _ _ _ F) as (m1 & r & -> & _ & Hr).
    destruct (filter_split _ _ _ _ _ Hr) as (m2 & m3 & -> & _ & _).
    exists m1, m2, m3. reflexivity.
  Qed.

  (* ----- merge sort computes the same arrangement ----- *)
  Lemma merge_nil_r : forall l1, merge leb l1 [] = l1.
  Proof. destruct l1; reflexivity. Qed.

  Lemma merge_cons : forall a t1 b t2,
    merge leb (a :: t1) (b :: t2) =
    if leb a b then a :: merge leb t1 (b :: t2) else b :: merge leb (a :: t1) t2.
  Proof. reflexivity. Qed.

  Lemma merge_perm : forall l1 l2, Permutation (merge leb l1 l2) (l1 ++ l2).
  Proof.
    induction l1 as [|a t1 IH1]; intro l2; [destruct l2; reflexivity|].
    induction l2 as [|b t2 IH2]; [rewrite merge_nil_r, app_nil_r; reflexivity|].
    rewrite merge_cons. destruct (leb a b).
    - cbn. constructor. apply IH1.
    - rewrite IH2. apply (Permutation_middle (a :: t1) t2 b).
  Qed.

  Lemma merge_sorted : forall l1 l2, sorted l1 -> sorted l2 -> sorted (merge leb l1 l2).
  Proof.
    induction l1 as [|a t1 IH1]; intros l2 S1 S2; [destruct l2; assumption|].
    induction l2 as [|b t2 IH2]; [rewrite merge_nil_r; assumption|].
    rewrite merge_cons. inversion S1 as [|? ? S1t F1]; subst. inversion S2 as [|? ? S2t F2]; subst.
    destruct (leb a b) eqn:E.
    - constructor; [apply IH1; assumption|].
      eapply Permutation_Forall; [symmetry; apply merge_perm|].
      apply Forall_app. split; [assumption|].
      constructor; [exact E|]. eapply Forall_impl; [|exact F2]. intros z Hz. exact (leb_trans _ _ _ E Hz).
    - assert (Eba : leb b a = true) by (destruct (leb_total a b); congruence).
      constructor; [apply IH2; assumption|].
      eapply Permutation_Forall; [symmetry; apply merge_perm|].
      apply Forall_app. split; [|assumption].
      constructor; [exact Eba|]. eapply Forall_impl; [|exact F1]. intros z Hz. exact (leb_trans _ _ _ Eba Hz).
  Qed.

  Lemma merge_stable : forall x l1 l2, sorted l1 ->
    filter (eqv x) (merge leb l1 l2) = filter (eqv x) l1 ++ filter (eqv x) l2.
  Proof.
    intros x. induction l1 as [|a t1 IH1]; intros l2 S1; [destruct l2; reflexivity|].
    induction l2 as [|b t2 IH2]; [rewrite merge_nil_r, app_nil_r; reflexivity|].
    rewrite merge_cons. destruct (leb a b) eqn:E.
    - inversion S1; subst. cbn [filter]. rewrite IH1 by assumption.
      destruct (eqv x a); reflexivity.
    - cbn [filter] in *. rewrite IH2. destruct (eqv x b) eqn:Eb; [|reflexivity].
      (* b is strictly before a, hence before all of a :: t1: none of them is equivalent to x *)
      assert (N : filter (eqv x) (a :: t1) = []).
      { apply filter_nil_all. intros y Hy. destruct (eqv x y) eqn:Ey; [|reflexivity]. exfalso.
        apply eqv_true in Eb as [Eb1 Eb2]. apply eqv_true in Ey as [Ey1 Ey2].
        pose proof (sorted_head_le a t1 y S1 Hy) as Hay.
        rewrite (leb_trans _ _ _ Hay (leb_trans _ _ _ Ey2 Eb1)) in E. discriminate. }
      cbn [filter] in N. rewrite N. reflexivity.
  Qed.

  Lemma msort_fuel_spec : forall fuel l, (length l <= fuel)%nat ->
    sorted (msort_fuel leb fuel l) /\ forall x, filter (eqv x) (msort_fuel leb fuel l) = filter (eqv x) l.
  Proof.
    induction fuel as [|f IH]; intros l Hl.
    - destruct l; [|cbn in Hl; lia]. split; [constructor|reflexivity].
    - destruct l as [|a [|b t]].
      + split; [constructor|reflexivity].
      + split; [constructor; constructor|reflexivity].
      + set (l := a :: b :: t) in *.
        assert (E : msort_fuel leb (S f) l =
                    merge leb (msort_fuel leb f (firstn (Nat.div2 (length l)) l))
                              (msort_fuel leb f (skipn (Nat.div2 (length l)) l))) by reflexivity.
        rewrite E. clear E.
        assert (H2 : (2 <= length l)%nat) by (cbn; lia).
        set (h := Nat.div2 (length l)).
        assert (Hh1 : (1 <= h)%nat).
        { unfold h. destruct (length l) as [|[|k]] eqn:?; [lia|lia|]. cbn. lia. }
        assert (Hh2 : (h < length l)%nat) by (apply Nat.lt_div2; lia).
        assert (L1 : (length (firstn h l) <= f)%nat) by (rewrite firstn_length; lia).
        assert (L2 : (length (skipn h l) <= f)%nat) by (rewrite skipn_length; lia).
        destruct (IH _ L1) as [S1 F1]. destruct (IH _ L2) as [S2 F2].
        split.
        * apply merge_sorted; assumption.
        * intro x. rewrite merge_stable by assumption. rewrite F1, F2, <- filter_app, firstn_skipn.
          reflexivity.
  Qed.

  (* the merge-sort model and the specification sort are the same function *)
  Theorem M_msort_is_S_sort : forall l, M_msort leb l = S_sort leb l.
  Proof.
    intro l. unfold M_msort. destruct (msort_fuel_spec (length l) l (Nat.le_refl _)) as [Hs Hf].
    apply stable_sort_unique; assumption.
  Qed.

  (* descending = the reverse arrangement: keys non-increasing *)
  Lemma rev_sorted_desc : forall l, StronglySorted (fun x y => leb y x = true) (rev (S_sort leb l)).
  Proof. intro l. apply (StronglySorted_rev le). apply S_sort_sorted. Qed.
End Stable.
