(* Arithmetic correctness of the typed form of util.slice_to_ascending_slice. *)
Require Import SF.Prelude SF.PySlice SF.Dtype SF.PyDyn Gen.Gen_util Proofs.SliceFacts Proofs.AscSliceRefine.

Definition asc_dom (k : slice) : bool :=
  match s_start k with Some a => 0 <=? a | None => true end &&
  match s_stop k with Some b => 0 <=? b | None => true end.

Definition step_negative (k : slice) : bool :=
  match s_step k with Some st => st <? 0 | None => false end.

Definition nonneg_opt (o : option Z) : Prop := match o with Some x => 0 <= x | None => True end.

Lemma adj_start_neg oa n st : st < 0 -> 0 <= n -> nonneg_opt oa ->
  adj_bound oa n st true = match oa with None => n - 1 | Some x => Z.min (n - 1) x end.
Proof.
  intros Hst Hn Ho. unfold adj_bound. destruct oa as [x|]; cbn in Ho.
  - repeat match goal with |- context [if ?c then _ else _] => destruct c eqn:? end; lia.
  - replace (st <? 0) with true by lia. reflexivity.
Qed.

Lemma adj_stop_neg ob n st : st < 0 -> 0 <= n -> nonneg_opt ob ->
  adj_bound ob n st false = match ob with None => -1 | Some y => Z.min (n - 1) y end.
Proof.
  intros Hst Hn Ho. unfold adj_bound. destruct ob as [y|]; cbn in Ho.
  - repeat match goal with |- context [if ?c then _ else _] => destruct c eqn:? end; lia.
  - replace (st <? 0) with true by lia. reflexivity.
Qed.

Lemma adj_start_pos oa n s : 0 < s -> 0 <= n -> nonneg_opt oa ->
  adj_bound oa n s true = match oa with None => 0 | Some x => Z.min n x end.
Proof.
  intros Hst Hn Ho. unfold adj_bound. destruct oa as [x|]; cbn in Ho.
  - repeat match goal with |- context [if ?c then _ else _] => destruct c eqn:? end; lia.
  - replace (s <? 0) with false by lia. reflexivity.
Qed.

Lemma adj_stop_pos ob n s : 0 < s -> 0 <= n -> nonneg_opt ob ->
  adj_bound ob n s false = match ob with None => n | Some y => Z.min n y end.
Proof.
  intros Hst Hn Ho. unfold adj_bound. destruct ob as [y|]; cbn in Ho.
  - repeat match goal with |- context [if ?c then _ else _] => destruct c eqn:? end; lia.
  - replace (s <? 0) with false by lia. reflexivity.
Qed.

(* the arithmetic heart: stepping back from a by multiples of s to just above b *)
Lemma asc_core a b s : 0 < s -> b < a ->
  let q := (a - b - 1) / s in
  let a' := a - s * q in
  b < a' <= a /\ (a + 1 - a' - 1) / s = q /\ 0 <= q.
Proof.
  intros Hs Hba q a'. subst a'.
  pose proof (Z.div_mod (a - b - 1) s ltac:(lia)) as Hdm.
  pose proof (Z.mod_pos_bound (a - b - 1) s Hs) as Hr.
  fold q in Hdm.
  assert (Hq : 0 <= q) by (apply Z.div_pos; lia).
  repeat split; try lia.
  replace (a + 1 - (a - s * q) - 1) with (q * s) by lia.
  apply Z.div_mul. lia.
Qed.

Lemma asc_core_empty a b s : 0 < s -> ~ b < a ->
  a + s <= a - s * ((a - b - 1) / s).
Proof.
  intros Hs Hba.
  assert ((a - b - 1) / s <= -1).
  { assert (H : (a - b - 1) / s < 0) by (apply Z.div_lt_upper_bound; lia). lia. }
  nia.
Qed.

(* the original body: correct for a negative step and start/stop that are positions or None *)
Lemma asc_tail_positions oa ob st n : 0 <= n -> st < 0 -> nonneg_opt oa -> nonneg_opt ob ->
  positions (asc_tail (mk_slice oa ob (Some st)) st n) n =
  Some (rev (range_list (adj_bound oa n st true) st
              (Z.to_nat (range_len (adj_bound oa n st true) (adj_bound ob n st false) st)))).
Proof.
  intros Hn Hneg Hoa Hob.
  unfold positions, slice_indices, asc_tail. cbn [s_step s_start s_stop].
  rewrite rev_range_list.
  rewrite (adj_start_neg oa n st Hneg Hn Hoa), (adj_stop_neg ob n st Hneg Hn Hob).
  destruct (st =? -1) eqn:Hm1.
  - (* step -1: slice(stop+1, start+1, 1) *)
    assert (st = -1) by lia. subst st.
    cbn [s_step s_start s_stop Z.eqb].
    assert (Hoa' : nonneg_opt (match oa with Some a => Some (a + 1) | None => None end)) by (destruct oa; cbn in *; lia).
    assert (Hob' : nonneg_opt (match ob with Some b => Some (b + 1) | None => None end)) by (destruct ob; cbn in *; lia).
    rewrite (adj_start_pos _ n 1 ltac:(lia) Hn Hob'), (adj_stop_pos _ n 1 ltac:(lia) Hn Hoa').
    unfold range_len. cbn [Z.ltb Z.opp]. rewrite !Z.div_1_r.
    destruct oa as [a|], ob as [b|]; cbn in Hoa, Hob;
      repeat match goal with |- context [if ?c then _ else _] => destruct c eqn:? end;
      try reflexivity; try lia;
      try (f_equal; f_equal; rewrite ?Z2Nat.id by lia; lia).
  - (* step < -1 *)
    set (s := Z.abs st). assert (Hs : 1 < s) by lia.
    assert (Est : st = - s) by lia.
    set (a := match oa with Some x => Z.min (n - 1) x | None => n - 1 end).
    set (b := match ob with Some y => Z.min (n - 1) y | None => -1 end).
    assert (Ha_rng : -1 <= a <= n - 1) by (subst a; destruct oa; cbn in Hoa; lia).
    assert (Hb_rng : -1 <= b) by (subst b; destruct ob; cbn in Hob; lia).
    cbn [s_step s_start s_stop].
    replace (s =? 0) with false by lia.
    set (q := match ob with Some b0 => (a - b0 - 1) / s | None => a / s end).
    assert (Hq_eq : b < a -> q = (a - b - 1) / s).
    { subst q b. destruct ob as [y|]; cbn in Hob; intros H; f_equal; lia. }
    assert (Hq_empty : ~ b < a -> a + s <= a - s * q).
    { subst q b. destruct ob as [y|]; cbn in Hob; intros H.
      - apply asc_core_empty; lia.
      - assert (a = -1) by lia. replace a with (-1) by lia.
        assert (-1 / s = -1) by (symmetry; apply Z.div_unique with (r := s - 1); lia). nia. }
    replace (match ob with Some b0 => a - s * ((a - b0 - 1) / s) | None => a - s * (a / s) end)
      with (a - s * q) by (subst q; destruct ob; reflexivity).
    assert (Hstop : adj_bound (match oa with Some a0 => Some (a0 + 1) | None => None end) n s false = a + 1).
    { rewrite adj_stop_pos; [|lia|lia|destruct oa; cbn in *; lia]. subst a. destruct oa; cbn in Hoa; lia. }
    rewrite Hstop.
    assert (Hc : range_len a b st = if b <? a then (a - b - 1) / s + 1 else 0).
    { unfold range_len. replace (st <? 0) with true by lia. replace (- st) with s by lia. reflexivity. }
    rewrite Hc. replace (- st) with s by lia.
    destruct (b <? a) eqn:Hba.
    + pose proof (asc_core a b s ltac:(lia) ltac:(lia)) as (Hrng & Hdiv & Hq0).
      rewrite <- Hq_eq in * by lia.
      assert (Hstart : adj_bound (Some (a - s * q)) n s true = a - s * q).
      { rewrite adj_start_pos; [|lia|lia|cbn; lia]. lia. }
      rewrite Hstart. unfold range_len. replace (s <? 0) with false by lia.
      replace (a - s * q <? a + 1) with true by lia.
      rewrite Hdiv. f_equal. rewrite Z2Nat.id by lia. f_equal. nia.
    + specialize (Hq_empty ltac:(lia)).
      assert (Hge : a + 1 <= adj_bound (Some (a - s * q)) n s true).
      { rewrite adj_start_pos; [|lia|lia|cbn; lia]. lia. }
      unfold range_len. replace (s <? 0) with false by lia.
      destruct (_ <? a + 1) eqn:Hlt; [lia|]. reflexivity.
Qed.

(* slice.indices() bounds are positions (or -1, meaning "before position 0") for a negative step *)
Lemma adj_bound_neg_range o n st is_start : 0 <= n -> st < 0 -> -1 <= adj_bound o n st is_start <= n - 1.
Proof.
  intros Hn Hst. unfold adj_bound. destruct o as [v|], is_start;
    repeat match goal with |- context [if ?c then _ else _] => destruct c eqn:? end; lia.
Qed.

Lemma asc_typed_positions k n ps : 0 <= n ->
  positions k n = Some ps ->
  positions (asc_typed k n) n = Some (if step_negative k then rev ps else ps).
Proof.
  intros Hn. unfold positions at 1, slice_indices, asc_typed, step_negative.
  destruct k as [oa ob [st|]]; cbn [s_step s_start s_stop] in *; [|intros E; rewrite <- E; reflexivity].
  destruct (st =? 0) eqn:Hz; [discriminate|]. apply Z.eqb_neq in Hz.
  destruct (st >? 0) eqn:Hpos.
  { unfold positions, slice_indices. cbn [s_step s_start s_stop].
    replace (st =? 0) with false by lia. replace (st <? 0) with false by lia.
    intros E; exact E. }
  replace (st <? 0) with true by lia.
  assert (Hneg : st < 0) by lia.
  intros E. injection E as <-.
  destruct (neg_bound (mk_slice oa ob (Some st))) eqn:Hnb.
  - (* negative start/stop: normalised through slice.indices first *)
    pose proof (adj_bound_neg_range oa n st true Hn Hneg) as Ha.
    pose proof (adj_bound_neg_range ob n st false Hn Hneg) as Hb.
    set (a := adj_bound oa n st true) in *. set (b := adj_bound ob n st false) in *.
    destruct (a <? 0) eqn:Ha0.
    + assert (a = -1) by lia.
      assert (Hrl : range_len a b st = 0).
      { unfold range_len. replace (st <? 0) with true by lia. replace (b <? a) with false by lia. reflexivity. }
      rewrite Hrl. unfold positions, slice_indices, range_len, adj_bound.
      cbn [s_step s_start s_stop Z.eqb Z.ltb Z.compare].
      destruct (0 >=? n) eqn:?; rewrite Z.ltb_irrefl; reflexivity.
    + rewrite asc_tail_positions; [|assumption|assumption|cbn; lia|destruct (b <? 0) eqn:?; cbn; [trivial|lia]].
      assert (Ea : adj_bound (Some a) n st true = a).
      { rewrite adj_start_neg; [|assumption|assumption|cbn; lia]. lia. }
      assert (Eb : adj_bound (if b <? 0 then None else Some b) n st false = b).
      { destruct (b <? 0) eqn:Hb0.
        - unfold adj_bound. replace (st <? 0) with true by lia. lia.
        - rewrite adj_stop_neg; [|assumption|assumption|cbn; lia]. lia. }
      rewrite Ea, Eb. reflexivity.
  - unfold neg_bound in Hnb. cbn [s_start s_stop] in Hnb. apply orb_false_iff in Hnb as [Hx Hy].
    rewrite asc_tail_positions; [reflexivity|assumption|assumption|destruct oa; cbn; lia|destruct ob; cbn; lia].
Qed.

Lemma asc_typed_step_pos k n : s_step k <> Some 0 ->
  match s_step (asc_typed k n) with Some st => 0 < st | None => True end.
Proof.
  destruct k as [oa ob [st|]]; unfold asc_typed; cbn [s_step]; [|trivial].
  intros Hst. assert (st <> 0) by congruence.
  destruct (st >? 0) eqn:?; [cbn; lia|].
  unfold asc_tail. destruct (neg_bound _); [destruct (_ <? 0); [cbn; trivial|]|]; destruct (st =? -1); cbn; lia.
Qed.

(* Main theorem about the REGENERATED kernel. *)
Theorem asc_slice_correct k n ps : 0 <= n ->
  positions k n = Some ps ->
  exists k', slice_to_ascending_slice (of_slice k) (PInt n) = of_slice k' /\
             positions k' n = Some (if step_negative k then rev ps else ps) /\
             increasing (if step_negative k then rev ps else ps).
Proof.
  intros Hn Hps.
  assert (Hst : s_step k <> Some 0).
  { intros E. unfold positions, slice_indices in Hps. rewrite E in Hps. discriminate. }
  exists (asc_typed k n). split; [apply asc_typed_refines; assumption|].
  pose proof (asc_typed_positions k n ps Hn Hps) as Hp. split; [assumption|].
  pose proof (asc_typed_step_pos k n Hst) as Hpos.
  revert Hp. unfold positions, slice_indices.
  destruct (s_step (asc_typed k n)) as [st|].
  - destruct (st =? 0); [discriminate|]. intros E. injection E as <-.
    apply range_list_increasing. assumption.
  - cbn [Z.eqb]. intros E. injection E as <-. apply range_list_increasing. lia.
Qed.
