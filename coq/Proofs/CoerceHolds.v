(* Value-domain facts: the dtype chosen by resolve holds every value held by either argument, outside the
   explicit lossy pairs. *)
Require Import SF.Prelude SF.Dtype SF.Coerce.
Local Open Scope string_scope.
Local Open Scope Z_scope.

(* ------------------------------------------------------------------ arithmetic of binary formats *)
Lemma mod_pow2_le m a b : 0 <= a <= b -> m mod 2 ^ b = 0 -> m mod 2 ^ a = 0.
Proof.
  intros [Ha Hab] H.
  assert (Hb : 2 ^ b = 2 ^ a * 2 ^ (b - a)) by (rewrite <- Z.pow_add_r by lia; f_equal; lia).
  assert (Hpa : 0 < 2 ^ a) by (apply Z.pow_pos_nonneg; lia).
  assert (Hpb : 0 < 2 ^ (b - a)) by (apply Z.pow_pos_nonneg; lia).
  apply Z.mod_divide in H; [|rewrite Hb; nia].
  apply Z.mod_divide; [lia|].
  destruct H as [k Hk]. exists (k * 2 ^ (b - a)). rewrite Hk, Hb. ring.
Qed.

Lemma fits_mono p1 x1 n1 p2 x2 n2 m e :
  p1 <= p2 -> x1 <= x2 -> n2 <= n1 ->
  fits (p1, x1, n1) m e = true -> fits (p2, x2, n2) m e = true.
Proof.
  unfold fits. intros Hp Hx Hn.
  destruct (m =? 0) eqn:Hm; [reflexivity|].
  set (E := e + Z.log2 (Z.abs m) + 1).
  intros H. apply andb_true_iff in H as [HE Hq].
  apply andb_true_iff; split; [lia|].
  destruct (Z.max (E - p2) n2 <=? e) eqn:H2; [reflexivity|].
  destruct (Z.max (E - p1) n1 <=? e) eqn:H1; [lia|].
  apply Z.eqb_eq in Hq. apply Z.eqb_eq.
  apply mod_pow2_le with (b := Z.max (E - p1) n1 - e); [lia|exact Hq].
Qed.

Lemma int_fits p x n k z :
  Z.abs z < 2 ^ k -> 0 <= k -> k <= p -> k <= x -> n <= 0 -> fits (p, x, n) z 0 = true.
Proof.
  intros Hz Hk Hp Hx Hn. unfold fits.
  destruct (z =? 0) eqn:Hz0; [reflexivity|].
  assert (Hl : Z.log2 (Z.abs z) < k) by (apply Z.log2_lt_pow2; lia).
  apply andb_true_iff; split; [lia|].
  destruct (Z.max (0 + Z.log2 (Z.abs z) + 1 - p) n <=? 0) eqn:H; [reflexivity|lia].
Qed.

(* ------------------------------------------------------------------ a sufficient order on numeric formats *)
Definition fmt_le (f1 f2 : Z * Z * Z) : bool :=
  let '(p1, x1, n1) := f1 in let '(p2, x2, n2) := f2 in (p1 <=? p2) && (x1 <=? x2) && (n2 <=? n1).

Definition ofmt_le (o1 o2 : option (Z * Z * Z)) : bool :=
  match o1, o2 with Some f1, Some f2 => fmt_le f1 f2 | _, _ => false end.

Definition int_in_fmt (b : Z) (o : option (Z * Z * Z)) : bool :=
  match o with
  | Some (p, x, n) => (0 <=? b) && (8 * b <=? p) && (8 * b <=? x) && (n <=? 0)
  | None => false
  end.

Definition dom_leb (d r : dtype) : bool :=
  match d, r with
  | DInt s b, DInt s' b' => (Bool.eqb s s' && (b <=? b')) || (negb s && s' && (0 <=? b) && (b <? b'))
  | DInt _ b, DFlt f => int_in_fmt b (fmt_of_bytes f)
  | DInt _ b, DCplx c => int_in_fmt b (fmt_of_bytes (c / 2))
  | DFlt f, DFlt f' => ofmt_le (fmt_of_bytes f) (fmt_of_bytes f')
  | DFlt f, DCplx c => ofmt_le (fmt_of_bytes f) (fmt_of_bytes (c / 2))
  | DCplx c, DCplx c' => ofmt_le (fmt_of_bytes (c / 2)) (fmt_of_bytes (c' / 2))
  | _, _ => false
  end.

Lemma fl_fits_le b1 b2 f : ofmt_le (fmt_of_bytes b1) (fmt_of_bytes b2) = true -> fl_fits b1 f = true -> fl_fits b2 f = true.
Proof.
  unfold fl_fits, ofmt_le.
  destruct (fmt_of_bytes b1) as [[[p1 x1] n1]|], (fmt_of_bytes b2) as [[[p2 x2] n2]|]; try discriminate.
  destruct f; auto. cbn [fmt_le]. intros H. apply andb_true_iff in H as [H H3]. apply andb_true_iff in H as [H1 H2].
  apply fits_mono; lia.
Qed.

Lemma pow2_le_mono a b : 0 <= a <= b -> 2 ^ a <= 2 ^ b.
Proof. intros. apply Z.pow_le_mono_r; lia. Qed.

Lemma int_in_abs s b z : 0 <= b -> int_in s b z = true -> Z.abs z < 2 ^ (8 * b).
Proof.
  intros Hb. unfold int_in. destruct s; intros H.
  - destruct (Z.eq_dec b 0) as [->|Hnz].
    + cbn in H. lia.
    + assert (2 ^ (8 * b - 1) < 2 ^ (8 * b)) by (apply Z.pow_lt_mono_r; lia).
      assert (0 < 2 ^ (8 * b - 1)) by (apply Z.pow_pos_nonneg; lia). lia.
  - lia.
Qed.

Lemma int_fl_fits s b z f : int_in_fmt b (fmt_of_bytes f) = true -> int_in s b z = true -> fl_fits f (FFin z 0) = true.
Proof.
  unfold fl_fits, int_in_fmt. destruct (fmt_of_bytes f) as [[[p x] n]|]; [|discriminate].
  intros H Hz. apply andb_true_iff in H as [H H4]. apply andb_true_iff in H as [H H3]. apply andb_true_iff in H as [H1 H2].
  apply int_fits with (k := 8 * b); try lia. apply int_in_abs with (s := s); [lia|exact Hz].
Qed.

Lemma int_widen s b s' b' z :
  (Bool.eqb s s' && (b <=? b')) || (negb s && s' && (0 <=? b) && (b <? b')) = true ->
  int_in s b z = true -> int_in s' b' z = true.
Proof.
  unfold int_in. intros H Hz. apply orb_true_iff in H as [H|H].
  - apply andb_true_iff in H as [Hs Hb]. apply Bool.eqb_prop in Hs. subst s'.
    destruct s.
    + assert (2 ^ (8 * b - 1) <= 2 ^ (8 * b' - 1)).
      { destruct (Z_lt_le_dec (8 * b - 1) 0) as [Hneg|Hpos].
        - rewrite (Z.pow_neg_r 2 (8 * b - 1)) in * by lia. apply Z.pow_nonneg; lia.
        - apply pow2_le_mono; lia. }
      lia.
    + assert (2 ^ (8 * b) <= 2 ^ (8 * b')).
      { destruct (Z_lt_le_dec (8 * b) 0) as [Hneg|Hpos].
        - rewrite (Z.pow_neg_r 2 (8 * b)) in * by lia. apply Z.pow_nonneg; lia.
        - apply pow2_le_mono; lia. }
      lia.
  - destruct s; [discriminate|]. destruct s'; [|rewrite !andb_false_r in H; discriminate].
    assert (2 ^ (8 * b) <= 2 ^ (8 * b' - 1)) by (apply pow2_le_mono; lia).
    assert (0 < 2 ^ (8 * b' - 1)) by (apply Z.pow_pos_nonneg; lia). lia.
Qed.

Lemma dom_leb_holds d r v : dom_leb d r = true -> holds d v = true -> holds r v = true.
Proof.
  destruct d as [|s b|f|c|n|n|u|u|], r as [|s' b'|f'|c'|n'|n'|u'|u'|]; cbn [dom_leb]; try discriminate; intros H;
    destruct v as [|x|z|x|re im|x|x|ux z|ux z|t|l]; cbn [holds]; try discriminate; intros Hv.
  all: first [ solve [eapply int_widen; eauto]
             | solve [eapply int_fl_fits; eauto]
             | solve [eapply fl_fits_le; eauto]
             | solve [apply andb_true_iff in Hv as [H1 H2]; apply andb_true_iff; split; eapply fl_fits_le; eauto] ].
Qed.

(* ------------------------------------------------------------------ numeric dtypes: finite table *)
Definition num_dtypes : list dtype :=
  [DInt true 1; DInt true 2; DInt true 4; DInt true 8; DInt false 1; DInt false 2; DInt false 4; DInt false 8;
   DFlt 2; DFlt 4; DFlt 8; DFlt 16; DCplx 8; DCplx 16; DCplx 32].

Definition is_num (d : dtype) : bool := match d with DInt _ _ | DFlt _ | DCplx _ => true | _ => false end.

Lemma wf_num_in d : is_num d = true -> wf_dtype d = true -> In d num_dtypes.
Proof.
  destruct d as [|s b|b|b|n|n|u|u|]; cbn [is_num wf_dtype]; try discriminate; intros _ H;
    repeat (apply orb_true_iff in H as [H|H]); apply Z.eqb_eq in H; subst b; try destruct s; cbn; tauto.
Qed.

Lemma num_table :
  forallb (fun d1 => forallb (fun d2 =>
     lossy_pair d1 d2 || (dom_leb d1 (resolve d1 d2) && dom_leb d2 (resolve d1 d2))) num_dtypes) num_dtypes = true.
Proof. vm_compute. reflexivity. Qed.

Lemma resolve_num_dom d1 d2 :
  is_num d1 = true -> is_num d2 = true -> wf_dtype d1 = true -> wf_dtype d2 = true -> lossy_pair d1 d2 = false ->
  dom_leb d1 (resolve d1 d2) = true /\ dom_leb d2 (resolve d1 d2) = true.
Proof.
  intros N1 N2 W1 W2 L.
  pose proof num_table as T. rewrite forallb_forall in T.
  specialize (T d1 (wf_num_in d1 N1 W1)). rewrite forallb_forall in T.
  specialize (T d2 (wf_num_in d2 N2 W2)). rewrite L in T. cbn [orb] in T.
  apply andb_true_iff in T. exact T.
Qed.

(* ------------------------------------------------------------------ time units *)
Lemma lin_div a b : ucls a = 2 -> ucls b = 2 -> tunit_rank a <= tunit_rank b ->
  exists k, unit_ns a = k * unit_ns b /\ unit_ns b <> 0.
Proof.
  intros Ha Hb Hr. exists (unit_ns a / unit_ns b).
  destruct a; try discriminate Ha; destruct b; try discriminate Hb; cbn in Hr; try lia; split; vm_compute; congruence.
Qed.

Lemma day_div b : ucls b = 2 -> b <> UW -> exists k, DAY_NS = k * unit_ns b /\ unit_ns b <> 0.
Proof.
  intros Hb Hw. exists (DAY_NS / unit_ns b).
  destruct b; try discriminate Hb; try congruence; split; vm_compute; congruence.
Qed.

Lemma exact_div_mul z k b : b <> 0 -> exact_div (z * (k * b)) b = Some (z * k).
Proof.
  intros Hb. unfold exact_div. replace (b =? 0) with false by lia.
  replace (z * (k * b)) with (z * k * b) by ring.
  rewrite Z.mod_mul by exact Hb. cbn. rewrite Z.div_mul by exact Hb. reflexivity.
Qed.

Lemma dt_conv_inv u' u z c : dt_conv u' u z = Some c ->
  tunit_rank u' <= tunit_rank u /\ ucls u' <> 0 /\ ucls u <> 0 /\ (ucls u' = 2 -> ucls u = 2).
Proof.
  unfold dt_conv. destruct (tunit_rank u <? tunit_rank u') eqn:Hr; [discriminate|].
  destruct u', u; cbn; intros H; try discriminate H; cbn in Hr; repeat split; try lia; try discriminate; auto.
Qed.

Lemma dt_conv_up u' u ur z c :
  dt_conv u' u z = Some c -> tunit_rank u <= tunit_rank ur ->
  (ucls u = 1 -> ur <> UW) ->
  exists c', dt_conv u' ur z = Some c'.
Proof.
  intros H Hr Hw. pose proof (dt_conv_inv _ _ _ _ H) as (R1 & C1 & C2 & C3).
  destruct (tunit_eqb ur UW) eqn:EW.
  - (* the result unit is W: the holder's unit is W as well *)
    assert (ur = UW) by (destruct ur; try discriminate EW; reflexivity). subst ur.
    destruct u; cbn in Hr; try lia; cbn in C2; try congruence;
      try (exfalso; apply Hw; reflexivity). eauto.
  - assert (Hnw : ur <> UW) by (intros ->; discriminate EW).
    assert (Cur : ucls ur <> 0) by (destruct ur, u; cbn in *; try lia; congruence).
    unfold dt_conv. replace (tunit_rank ur <? tunit_rank u') with false by lia.
    destruct (Z.eq_dec (ucls u') 1) as [E1|N1].
    + rewrite E1. destruct (Z.eq_dec (ucls ur) 1) as [E2|N2].
      * rewrite E2. eauto.
      * assert (E2 : ucls ur = 2) by (destruct ur; cbn in *; congruence).
        rewrite E2. destruct (day_div ur E2 Hnw) as (k & Hk & Hnz). unfold DAY_NS in *.
        rewrite Hk. rewrite exact_div_mul by exact Hnz. eauto.
    + assert (E1 : ucls u' = 2) by (destruct u'; cbn in *; congruence).
      assert (E2 : ucls ur = 2).
      { specialize (C3 E1). destruct ur, u; cbn in *; try lia; try congruence. }
      rewrite E1, E2. destruct (lin_div u' ur E1 E2 ltac:(lia)) as (k & Hk & Hnz).
      rewrite Hk. rewrite exact_div_mul by exact Hnz. eauto.
Qed.

Lemma ucls_cases u : ucls u = 0 \/ ucls u = 1 \/ ucls u = 2.
Proof. destruct u; cbn; auto. Qed.

Lemma td_conv_up u' u ur z c :
  td_conv u' u z = Some c -> tunit_rank u <= tunit_rank ur -> ucls ur = ucls u ->
  exists c', td_conv u' ur z = Some c'.
Proof.
  intros H Hr Hc. unfold td_conv in *. rewrite Hc.
  destruct (ucls_cases u') as [E1|[E1|E1]]; rewrite E1 in *.
  - destruct (ucls u) as [|[| [| |] | ]|]; eauto.
  - destruct (ucls_cases u) as [E2|[E2|E2]]; rewrite E2 in *; try discriminate H.
    destruct (tunit_rank u <? tunit_rank u') eqn:R; [discriminate|].
    replace (tunit_rank ur <? tunit_rank u') with false by lia. eauto.
  - destruct (ucls_cases u) as [E2|[E2|E2]]; rewrite E2 in *; try discriminate H.
    destruct (tunit_rank u <? tunit_rank u') eqn:R; [discriminate|].
    replace (tunit_rank ur <? tunit_rank u') with false by lia.
    destruct (lin_div u' ur E1 ltac:(congruence) ltac:(lia)) as (k & Hk & Hnz).
    rewrite Hk. rewrite exact_div_mul by exact Hnz. eauto.
Qed.

(* ------------------------------------------------------------------ shapes of resolve *)
Lemma holds_obj v : holds DObj v = true.
Proof. destruct v; reflexivity. Qed.

Lemma resolve_str a b : resolve (DStr a) (DStr b) = DStr (Z.max a b).
Proof. unfold resolve. cbn [dtype_eqb]. destruct (a =? b) eqn:E; [f_equal; lia|reflexivity]. Qed.

Lemma resolve_bytes a b : resolve (DBytes a) (DBytes b) = DBytes (Z.max a b).
Proof. unfold resolve. cbn [dtype_eqb]. destruct (a =? b) eqn:E; [f_equal; lia|reflexivity]. Qed.

Definition finer (u1 u2 : tunit) : tunit := if tunit_rank u1 <? tunit_rank u2 then u2 else u1.

Lemma resolve_dt u1 u2 : resolve (DDt u1) (DDt u2) = DDt (finer u1 u2).
Proof. destruct u1, u2; reflexivity. Qed.

Lemma resolve_td u1 u2 :
  resolve (DTd u1) (DTd u2) = DObj \/
  (resolve (DTd u1) (DTd u2) = DTd (finer u1 u2) /\
   (ucls u1 = 0 \/ ucls u1 = ucls (finer u1 u2)) /\ (ucls u2 = 0 \/ ucls u2 = ucls (finer u1 u2))).
Proof. destruct u1, u2; vm_compute; auto. Qed.

Lemma finer_rank u1 u2 : tunit_rank u1 <= tunit_rank (finer u1 u2) /\ tunit_rank u2 <= tunit_rank (finer u1 u2).
Proof. unfold finer. destruct (tunit_rank u1 <? tunit_rank u2) eqn:E; lia. Qed.

Lemma dt_week_guard u1 u2 : lossy_pair (DDt u1) (DDt u2) = false ->
  (ucls u1 = 1 -> finer u1 u2 <> UW) /\ (ucls u2 = 1 -> finer u1 u2 <> UW).
Proof. destruct u1, u2; vm_compute; intros H; split; intros; congruence. Qed.

Lemma holds_dt_up u ur v :
  holds (DDt u) v = true -> tunit_rank u <= tunit_rank ur -> (ucls u = 1 -> ur <> UW) ->
  time_fits (DDt ur) v = true -> holds (DDt ur) v = true.
Proof.
  destruct v as [|x|z|x|re im|x|x|ux z|ux z|t|l]; cbn [holds time_fits]; try discriminate; auto.
  intros H Hr Hw T. destruct (dt_conv ux u z) as [c|] eqn:E; [|discriminate].
  destruct (dt_conv_up _ _ _ _ _ E Hr Hw) as [c' E']. rewrite E' in *. exact T.
Qed.

Lemma holds_td_up u ur v :
  holds (DTd u) v = true -> tunit_rank u <= tunit_rank ur -> (ucls u = 0 \/ ucls u = ucls ur) ->
  time_fits (DTd ur) v = true -> holds (DTd ur) v = true.
Proof.
  destruct v as [|x|z|x|re im|x|x|ux z|ux z|t|l]; cbn [holds time_fits]; try discriminate; auto.
  intros H Hr Hc T. destruct (td_conv ux u z) as [c|] eqn:E; [|discriminate].
  assert (exists c', td_conv ux ur z = Some c') as [c' E'].
  { destruct Hc as [Hc|Hc].
    - (* the holder has the generic unit: only a generic value converts into it *)
      unfold td_conv in E |- *. rewrite Hc in E.
      destruct (ucls_cases ux) as [E1|[E1|E1]]; rewrite E1 in *; try discriminate E.
      destruct (ucls ur) as [|[| [| |] | ]|]; eauto.
    - eapply td_conv_up; eauto. }
  rewrite E' in *. exact T.
Qed.

(* ------------------------------------------------------------------ the dtype chosen holds both sides *)
Theorem resolve_holds d1 d2 v :
  wf_dtype d1 = true -> wf_dtype d2 = true -> lossy_pair d1 d2 = false ->
  holds d1 v = true \/ holds d2 v = true ->
  time_fits (resolve d1 d2) v = true ->
  holds (resolve d1 d2) v = true.
Proof.
  intros W1 W2 L Hh T.
  destruct d1 as [|s1 b1|b1|b1|n1|n1|u1|u1|], d2 as [|s2 b2|b2|b2|n2|n2|u2|u2|];
    first
      [ solve [ change (holds DObj v = true); apply holds_obj ]
      | solve [ vm_compute in L; discriminate L ]
      | solve [ match goal with |- holds (resolve ?a ?b) _ = true =>
                  destruct (resolve_num_dom a b eq_refl eq_refl W1 W2 L) as [A B] end;
                destruct Hh as [Hh|Hh]; [apply (dom_leb_holds _ _ _ A Hh) | apply (dom_leb_holds _ _ _ B Hh)] ]
      | idtac ].
  - (* bool, bool *) destruct Hh; assumption.
  - (* str, str *)
    rewrite resolve_str. destruct v; cbn [holds] in *; try (destruct Hh; discriminate). lia.
  - (* bytes, bytes *)
    rewrite resolve_bytes. destruct v; cbn [holds] in *; try (destruct Hh; discriminate). lia.
  - (* datetime64, datetime64 *)
    rewrite resolve_dt in *. destruct (finer_rank u1 u2) as [R1 R2]. destruct (dt_week_guard u1 u2 L) as [G1 G2].
    destruct Hh as [Hh|Hh]; eapply holds_dt_up; eauto.
  - (* timedelta64, timedelta64 *)
    destruct (resolve_td u1 u2) as [E|(E & C1 & C2)]; rewrite E in *; [apply holds_obj|].
    destruct (finer_rank u1 u2) as [R1 R2].
    destruct Hh as [Hh|Hh]; eapply holds_td_up; eauto.
Qed.
