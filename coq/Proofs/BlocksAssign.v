(* C08 -- REFINEMENT: TypeBlocks._assign_from_iloc_by_unit, column part: for EVERY block layout exactly the
   addressed columns are replaced -- the r-th addressed column (in position order) by value column r when the value
   is cut along the columns -- and every other column comes out identical, dtype included. *)
Require Import SF.Prelude SF.PySlice SF.Dtype SF.Blocks SF.UpdateSpec SF.BlocksUpdate.
Require Import Proofs.SliceFacts Proofs.BlocksSelect Proofs.UpdateLists Proofs.BlocksWalk Proofs.BlocksSegments.
Require Import Proofs.BlocksUpdateKey Proofs.BlocksDrop.

Lemma count_in_ext ps qs k : forall i, (forall j, i <= j < i + Z.of_nat k -> memz j ps = memz j qs) ->
  count_in ps i k = count_in qs i k.
Proof.
  induction k as [|k IH]; intros i H; cbn [count_in]; [reflexivity|].
  rewrite <- (H i) by lia. f_equal. apply IH. intros j Hj. apply H. lia.
Qed.

Lemma count_in_app ps k1 : forall i k2, count_in ps i (k1 + k2) = (count_in ps i k1 + count_in ps (i + Z.of_nat k1) k2)%nat.
Proof.
  induction k1 as [|k1 IH]; intros i k2; cbn [plus count_in].
  - replace (i + Z.of_nat 0) with i by lia. reflexivity.
  - rewrite IH. replace (i + 1 + Z.of_nat k1) with (i + Z.of_nat (S k1)) by lia. lia.
Qed.

Lemma count_in_none ps k : forall i, (forall j, i <= j < i + Z.of_nat k -> memz j ps = false) -> count_in ps i k = 0%nat.
Proof.
  induction k as [|k IH]; intros i H; cbn [count_in]; [reflexivity|].
  rewrite (H i) by lia. rewrite IH; [reflexivity|]. intros j Hj. apply H. lia.
Qed.

Lemma count_in_all ps k : forall i, (forall j, i <= j < i + Z.of_nat k -> memz j ps = true) -> count_in ps i k = k.
Proof.
  induction k as [|k IH]; intros i H; cbn [count_in]; [reflexivity|].
  rewrite (H i) by lia. rewrite IH; [reflexivity|]. intros j Hj. apply H. lia.
Qed.

Lemma count_in_shift ps off k : forall i, count_in ps (off + i) k = count_in (map (fun p => p - off) ps) i k.
Proof.
  induction k as [|k IH]; intros i; cbn [count_in]; [reflexivity|].
  rewrite memz_shift. f_equal. replace (off + i + 1) with (off + (i + 1)) by lia. apply IH.
Qed.

Section AssignSpec.
Context {A : Type}.
Notation column := (dtype * list A)%type.
Variable step : Z.
Variable new : Z -> column -> column.

Lemma S_assign_from_ext ps qs (cols : list column) : forall v i,
  (forall j, i <= j < i + Z.of_nat (length cols) -> memz j ps = memz j qs) ->
  S_assign_from ps step new v i cols = S_assign_from qs step new v i cols.
Proof.
  induction cols as [|c r IH]; intros v i H; cbn [S_assign_from]; [reflexivity|].
  rewrite <- (H i) by (cbn [length]; lia).
  destruct (memz i ps); f_equal; apply IH; intros j Hj; apply H; cbn [length]; lia.
Qed.

Lemma S_assign_from_app ps (l1 : list column) : forall v i l2,
  S_assign_from ps step new v i (l1 ++ l2) =
  S_assign_from ps step new v i l1 ++
  S_assign_from ps step new (v + step * Z.of_nat (count_in ps i (length l1))) (i + Z.of_nat (length l1)) l2.
Proof.
  induction l1 as [|c l1 IH]; intros v i l2; cbn [app S_assign_from length count_in].
  - f_equal; lia.
  - destruct (memz i ps); cbn [app]; f_equal; rewrite IH; f_equal; f_equal; lia.
Qed.

Lemma S_assign_from_shift ps off (cols : list column) : forall v i,
  S_assign_from ps step new v (off + i) cols = S_assign_from (map (fun p => p - off) ps) step new v i cols.
Proof.
  induction cols as [|c r IH]; intros v i; cbn [S_assign_from]; [reflexivity|].
  rewrite memz_shift. replace (off + i + 1) with (off + (i + 1)) by lia.
  destruct (memz i _); f_equal; apply IH.
Qed.

Lemma S_assign_from_none ps (cols : list column) : forall v i,
  (forall j, i <= j < i + Z.of_nat (length cols) -> memz j ps = false) ->
  S_assign_from ps step new v i cols = cols.
Proof.
  induction cols as [|c r IH]; intros v i H; cbn [S_assign_from]; [reflexivity|].
  rewrite (H i) by (cbn [length]; lia). f_equal. apply IH. intros j Hj. apply H. cbn [length]. lia.
Qed.

(* a run of addressed columns receives consecutive value columns *)
Fixpoint assign_run (v : Z) (cols : list column) : list column :=
  match cols with [] => [] | c :: r => new v c :: assign_run (v + step) r end.

Lemma S_assign_from_all ps (cols : list column) : forall v i,
  (forall j, i <= j < i + Z.of_nat (length cols) -> memz j ps = true) ->
  S_assign_from ps step new v i cols = assign_run v cols.
Proof.
  induction cols as [|c r IH]; intros v i H; cbn [S_assign_from assign_run]; [reflexivity|].
  rewrite (H i) by (cbn [length]; lia). f_equal. apply IH. intros j Hj. apply H. cbn [length]. lia.
Qed.

(* pointwise reading: the column at an addressed position k receives value column (number of addressed positions before k) *)
Theorem S_assign_from_nth ps (cols : list column) : forall v i k,
  nth_error (S_assign_from ps step new v i cols) k =
  match nth_error cols k with
  | Some c => Some (if memz (i + Z.of_nat k) ps then new (v + step * Z.of_nat (count_in ps i k)) c else c)
  | None => None
  end.
Proof.
  induction cols as [|c r IH]; intros v i k; [destruct k; reflexivity|].
  destruct k as [|k]; cbn [S_assign_from nth_error count_in].
  - replace (i + Z.of_nat 0) with i by lia. destruct (memz i ps); cbn; [|reflexivity].
    replace (v + step * 0) with v by lia. reflexivity.
  - replace (i + Z.of_nat (S k)) with (i + 1 + Z.of_nat k) by lia.
    destruct (memz i ps); cbn [nth_error]; rewrite IH; destruct (nth_error r k); try reflexivity;
      destruct (memz (i + 1 + Z.of_nat k) ps); try reflexivity.
    replace (v + step + step * Z.of_nat (count_in ps (i + 1) k))
      with (v + step * Z.of_nat (1 + count_in ps (i + 1) k)) by lia. reflexivity.
Qed.

End AssignSpec.

Section Assign.
Context {A : Type}.
Notation block := (block A).
Notation tb := (tb A).
Notation column := (dtype * list A)%type.
Variables is_slice sliceable : bool.
Variable newdt : dtype -> dtype.
Variable cells : Z -> list A -> list A.

Definition astep : Z := if is_slice && sliceable then 1 else 0.
Definition anew (v : Z) (c : column) : column := (newdt (fst c), cells v (snd c)).

Lemma voff_step v : (if is_slice && sliceable then v + 1 else v) = v + astep.
Proof. unfold astep. destruct (is_slice && sliceable); lia. Qed.

Lemma assign_cols_columns dt f v (old : list (list A)) :
  block_columns (mk_block (newdt dt) f (assign_cols is_slice sliceable cells v old)) =
  assign_run astep anew v (map (pair dt) old).
Proof.
  unfold block_columns. cbn [b_dtype b_cols]. revert v. induction old as [|c r IH]; intros v; [reflexivity|].
  cbn [assign_cols map assign_run]. rewrite voff_step, IH. reflexivity.
Qed.

Definition tail_out (b : block) (astop : Z) : list block :=
  if astop =? 0 then [b]
  else if b_1d b && (astop =? 1) then []
  else if negb (b_1d b) && (astop <? width b)
       then match cols_slice b (mk_slice (Some astop) None None) with Some p => [p] | None => [] end
       else [].

(* the loop on a 2-D block of width >= 2 *)
Lemma assign_inner_steady (b : block) (k : Z) rest : b_1d b = false -> 2 <= width b -> other_block k rest ->
  forall rs astop v, runs_wf astop rs (width b) -> 0 <= astop ->
  (is_slice = true \/ forall r, In r rs -> snd r = 1%nat) ->
  exists parts,
    assign_inner is_slice sliceable newdt cells b k (targets k rs ++ rest) astop v =
      Ok (rest, parts, runs_end astop rs,
          v + astep * Z.of_nat (count_in (runs_elems rs) astop (Z.to_nat (width b - astop)))) /\
    flat_map block_columns parts ++ skipn (Z.to_nat (runs_end astop rs)) (block_columns b) =
      S_assign_from (runs_elems rs) astep anew v astop (skipn (Z.to_nat astop) (block_columns b)) /\
    (rs <> [] -> parts <> []).
Proof.
  intros H1d Hw Hrest.
  assert (Hlen : length (block_columns b) = length (b_cols b)) by (unfold block_columns; apply map_length).
  induction rs as [|[a m] rs IH]; intros astop v Hwf Hp Hsl.
  - exists []. split; [|split; [|congruence]].
    + cbn [targets map app runs_end runs_elems flat_map]. rewrite count_in_none by (intros; reflexivity).
      replace (v + astep * Z.of_nat 0) with v by lia.
      destruct rest as [|[tbi sl] rest']; [reflexivity|].
      cbn in Hrest. cbn [assign_inner]. replace (k =? tbi) with false by lia. reflexivity.
    + cbn [flat_map app runs_end]. symmetry. apply S_assign_from_none. intros; reflexivity.
  - cbn in Hwf. destruct Hwf as (Ha & Hm & Hend & Hwf).
    assert (Hwf' : runs_wf (a + Z.of_nat m) rs (width b)) by (eapply runs_wf_weaken; [|exact Hwf]; lia).
    assert (Hsl' : is_slice = true \/ forall r, In r rs -> snd r = 1%nat).
    { destruct Hsl as [H|H]; [left; assumption|right; intros r Hr; apply H; right; assumption]. }
    destruct (IH (a + Z.of_nat m) (v + astep * Z.of_nat m) Hwf' ltac:(lia) Hsl') as (parts & Ein & Efl & _).
    assert (Hm1 : is_slice = false -> m = 1%nat).
    { intros E. destruct Hsl as [H|H]; [congruence|]. apply (H (a, m)). left. reflexivity. }
    (* membership of the positions of this block in the elements of the runs *)
    assert (Hgap : forall j, astop <= j < a -> memz j (runs_elems ((a, m) :: rs)) = false).
    { intros j Hj. apply memz_false. intros Hin.
      apply (runs_wf_elems_ge ((a, m) :: rs) a (width b) j) in Hin; [lia|]. cbn. repeat split; try assumption; lia. }
    assert (Hrun : forall j, a <= j < a + Z.of_nat m -> memz j (runs_elems ((a, m) :: rs)) = true).
    { intros j Hj. apply memz_In. unfold runs_elems. cbn [flat_map]. apply in_or_app. left. apply run_elems_In. lia. }
    assert (Hrest' : forall j, a + Z.of_nat m <= j -> memz j (runs_elems ((a, m) :: rs)) = memz j (runs_elems rs)).
    { intros j Hj. unfold runs_elems. cbn [flat_map]. rewrite memz_app.
      replace (memz j (run_elems (a, m))) with false; [reflexivity|].
      symmetry. apply memz_false. intros Hin. apply run_elems_In in Hin. lia. }
    eexists. split; [|split].
    + unfold targets. cbn [map app]. rewrite target_of_run by assumption. cbn [assign_inner].
      rewrite Z.eqb_refl, H1d. cbn [negb orb s_start s_stop]. replace (width b =? 1) with false by lia.
      cbn [negb andb]. fold (targets k rs).
      assert (Etw : (if is_slice && true then Ok (a + Z.of_nat m - a) else Ok 1) = @Ok Z (Z.of_nat m)).
      { destruct is_slice eqn:E; cbn [andb]; [f_equal; lia|]. rewrite (Hm1 eq_refl). reflexivity. }
      rewrite Etw. unfold slice_list at 1.
      change (match positions (mk_slice (Some a) (Some (a + Z.of_nat m)) None) (Z.of_nat (length (b_cols b))) with
              | Some ps => take_positions (b_cols b) ps | None => None end)
        with (slice_list (b_cols b) (mk_slice (Some a) (Some (a + Z.of_nat m)) None)).
      rewrite slice_list_range by (unfold width in *; lia).
      rewrite firstn_length, skipn_length.
      replace (Z.of_nat (Nat.min (Z.to_nat (a + Z.of_nat m - a)) (length (b_cols b) - Z.to_nat a))) with (Z.of_nat m)
        by (unfold width in *; lia).
      replace (if is_slice && sliceable then v + Z.of_nat m else v) with (v + astep * Z.of_nat m).
      2: { unfold astep. destruct (is_slice && sliceable) eqn:E; [lia|]. lia. }
      rewrite Ein. cbn [runs_end]. f_equal. f_equal.
      (* the value offset after this block's targets *)
      replace (Z.to_nat (width b - astop)) with (Z.to_nat (a - astop) + (m + Z.to_nat (width b - (a + Z.of_nat m))))%nat by lia.
      rewrite !count_in_app.
      rewrite (count_in_none _ (Z.to_nat (a - astop))) by (intros j Hj; apply Hgap; lia).
      replace (astop + Z.of_nat (Z.to_nat (a - astop))) with a by lia.
      rewrite (count_in_all _ m) by (intros j Hj; apply Hrun; lia).
      rewrite (count_in_ext (runs_elems ((a, m) :: rs)) (runs_elems rs) _ (a + Z.of_nat m)) by (intros j Hj; apply Hrest'; lia). lia.
    + (* the columns *)
      rewrite (skipn_seg (block_columns b) astop a) by lia.
      rewrite (skipn_seg (block_columns b) a (a + Z.of_nat m)) by lia.
      rewrite !S_assign_from_app, !seg_length by (rewrite ?Hlen; unfold width in *; lia).
      replace (astop + Z.of_nat (Z.to_nat (a - astop))) with a by lia.
      replace (a + Z.of_nat (Z.to_nat (a + Z.of_nat m - a))) with (a + Z.of_nat m) by lia.
      rewrite (count_in_none _ (Z.to_nat (a - astop))) by (intros j Hj; apply Hgap; lia).
      rewrite (count_in_all _ (Z.to_nat (a + Z.of_nat m - a))) by (intros j Hj; apply Hrun; lia).
      rewrite S_assign_from_none by (intros j Hj; rewrite seg_length in Hj by (rewrite ?Hlen; unfold width in *; lia); apply Hgap; lia).
      rewrite S_assign_from_all by (intros j Hj; rewrite seg_length in Hj by (rewrite ?Hlen; unfold width in *; lia); apply Hrun; lia).
      rewrite (S_assign_from_ext _ _ _ (runs_elems rs)) by (intros j Hj; apply Hrest'; lia).
      replace (v + astep * Z.of_nat 0 + astep * Z.of_nat (Z.to_nat (a + Z.of_nat m - a))) with (v + astep * Z.of_nat m) by lia.
      rewrite <- Efl. cbn [runs_end]. rewrite flat_map_app. cbn [flat_map]. rewrite <- !app_assoc. f_equal; [|f_equal].
      * destruct (a >? astop) eqn:E.
        -- rewrite cols_slice_gap by lia. cbn [flat_map]. rewrite app_nil_r. apply gap_columns.
        -- assert (a = astop) by lia. subst. unfold seg. rewrite Z.sub_diag. reflexivity.
      * rewrite assign_cols_columns. replace (v + astep * Z.of_nat 0) with v by lia. f_equal.
        unfold seg, block_columns. rewrite skipn_map, firstn_map. reflexivity.
    + intros _. destruct (if a >? astop then _ else _); discriminate.
Qed.

Lemma assign_block_correct (b : block) (k : Z) rest rs v : wf_block b -> other_block k rest ->
  runs_wf 0 rs (width b) -> (is_slice = true \/ forall r, In r rs -> snd r = 1%nat) ->
  exists parts astop,
    assign_inner is_slice sliceable newdt cells b k (targets k rs ++ rest) 0 v =
      Ok (rest, parts, astop, v + astep * Z.of_nat (count_in (runs_elems rs) 0 (length (b_cols b)))) /\
    flat_map block_columns (parts ++ tail_out b astop) =
      S_assign_from (runs_elems rs) astep anew v 0 (block_columns b) /\
    parts ++ tail_out b astop <> [].
Proof.
  intros [Hw H1d] Hrest Hwf Hsl.
  assert (Hlen : length (block_columns b) = length (b_cols b)) by (unfold block_columns; apply map_length).
  destruct rs as [|[a m] rs].
  - exists [], 0. split; [|split].
    + cbn [targets map app runs_elems flat_map]. rewrite count_in_none by (intros; reflexivity).
      replace (v + astep * Z.of_nat 0) with v by lia.
      destruct rest as [|[tbi sl] rest']; [reflexivity|].
      cbn in Hrest. cbn [assign_inner]. replace (k =? tbi) with false by lia. reflexivity.
    + unfold tail_out. cbn [Z.eqb app flat_map]. rewrite app_nil_r. symmetry. apply S_assign_from_none. intros; reflexivity.
    + unfold tail_out. cbn. discriminate.
  - destruct (b_1d b || (width b =? 1)) eqn:Ecol.
    + assert (Hw1 : width b = 1).
      { apply orb_true_iff in Ecol as [E|E]; [specialize (H1d E); unfold width; lia|lia]. }
      rewrite Hw1 in Hwf. destruct (runs_wf_one _ Hwf) as [E|E]; [discriminate|]. injection E as -> -> ->.
      unfold width in Hw1. destruct (b_cols b) as [|c [|? ?]] eqn:Ec; try (cbn in Hw1; lia).
      eexists. exists 1. split; [|split].
      * unfold targets. cbn [map app]. rewrite target_of_run by lia. cbn [assign_inner].
        rewrite Z.eqb_refl. cbn [negb s_start s_stop]. rewrite Ecol. cbn [negb andb]. rewrite andb_false_r.
        rewrite Ec. cbn [assign_cols]. rewrite voff_step.
        replace (if is_slice && sliceable then v + 1 else v) with (v + astep) by (unfold astep; destruct (is_slice && sliceable); lia).
        replace (0 >? 0) with false by lia. cbn [app].
        destruct rest as [|[tbi sl] rest'].
        -- cbn [assign_inner]. do 3 f_equal. cbn [length count_in runs_elems flat_map]. unfold run_elems. cbn. lia.
        -- cbn in Hrest. cbn [assign_inner]. replace (k =? tbi) with false by lia. cbn [negb].
           do 3 f_equal. cbn [length count_in runs_elems flat_map]. unfold run_elems. cbn. lia.
      * unfold tail_out. cbn [Z.eqb]. unfold width. rewrite Ec. cbn [length Z.of_nat Z.ltb Z.compare Pos.compare].
        rewrite andb_false_r. destruct (b_1d b); cbn [andb negb app flat_map]; rewrite app_nil_r;
          unfold block_columns; rewrite Ec; cbn; unfold anew; cbn; reflexivity.
      * discriminate.
    + apply orb_false_iff in Ecol as [E1d Ew1].
      assert (Hw2 : 2 <= width b) by (unfold width in *; lia).
      destruct (assign_inner_steady b k rest E1d Hw2 Hrest ((a, m) :: rs) 0 v Hwf ltac:(lia) Hsl) as (parts & Ein & Efl & Hne).
      exists parts, (runs_end 0 ((a, m) :: rs)). split; [|split].
      * rewrite Ein. do 3 f_equal. rewrite Z.sub_0_r. unfold width. rewrite Nat2Z.id. reflexivity.
      * assert (Hb : 0 < runs_end 0 ((a, m) :: rs) <= width b).
        { cbn in Hwf. destruct Hwf as (Ha & Hm & Hend & Hwf). cbn [runs_end].
          pose proof (runs_end_bounds rs (a + Z.of_nat m) (width b) ltac:(eapply runs_wf_weaken; [|exact Hwf]; lia) Hend). lia. }
        cbn [Z.to_nat skipn] in Efl. rewrite <- Efl, flat_map_app. f_equal.
        unfold tail_out. replace (runs_end 0 ((a, m) :: rs) =? 0) with false by lia. rewrite E1d. cbn [andb negb].
        destruct (runs_end 0 ((a, m) :: rs) <? width b) eqn:Elt.
        -- rewrite cols_slice_tail by lia. cbn [flat_map]. rewrite app_nil_r, gap_columns.
           unfold seg. rewrite firstn_all2; [reflexivity|]. rewrite skipn_length, Hlen. unfold width. lia.
        -- assert (Ee : runs_end 0 ((a, m) :: rs) = width b) by lia. rewrite Ee. unfold width.
           rewrite Nat2Z.id, <- Hlen, skipn_all. reflexivity.
      * intros E. apply app_eq_nil in E as [E _]. apply Hne; [discriminate|assumption].
Qed.

(* ---------- all blocks ---------- *)
Fixpoint assign_by_runs (v : Z) (t : tb) (rss : list (list (Z * nat))) : list column :=
  match t, rss with
  | b :: r, rs :: rss' =>
      S_assign_from (runs_elems rs) astep anew v 0 (block_columns b) ++
      assign_by_runs (v + astep * Z.of_nat (count_in (runs_elems rs) 0 (length (b_cols b)))) r rss'
  | _, _ => []
  end.

Lemma assign_walk_correct (t : tb) : wf_tb t -> forall k rss v,
  Forall2 (fun b rs => runs_wf 0 rs (width b)) t rss ->
  (is_slice = true \/ forall rs r, In rs rss -> In r rs -> snd r = 1%nat) ->
  exists bs, assign_walk is_slice sliceable newdt cells k t (map target_of (bundles_of k rss)) v = Ok bs /\
             (t <> [] -> bs <> []) /\
             flat_map block_columns bs = assign_by_runs v t rss.
Proof.
  induction 1 as [|b r Hb _ IH]; intros k rss v Hrss Hsl.
  - exists []. split; [reflexivity|]. split; [congruence|reflexivity].
  - inversion Hrss as [|? rs ? rss' Hrs Hrest]; subst.
    assert (Hsl1 : is_slice = true \/ forall r, In r rs -> snd r = 1%nat).
    { destruct Hsl as [H|H]; [left; assumption|right; intros x Hx; apply (H rs); [left; reflexivity|assumption]]. }
    assert (Hsl2 : is_slice = true \/ forall rs0 r, In rs0 rss' -> In r rs0 -> snd r = 1%nat).
    { destruct Hsl as [H|H]; [left; assumption|right; intros rs0 x H0 Hx; apply (H rs0); [right; assumption|assumption]]. }
    destruct (assign_block_correct b k (map target_of (bundles_of (k + 1) rss')) rs v Hb
                (other_block_bundles k rss') Hrs Hsl1) as (parts & astop & Ein & Eout & Hne).
    destruct (IH (k + 1) rss' (v + astep * Z.of_nat (count_in (runs_elems rs) 0 (length (b_cols b)))) Hrest Hsl2)
      as (bs & Ebs & _ & Efl).
    exists ((parts ++ tail_out b astop) ++ bs). split; [|split].
    + rewrite targets_bundles. cbn [assign_walk]. rewrite Ein. fold (tail_out b astop). rewrite Ebs. reflexivity.
    + intros _ E. apply app_eq_nil in E as [E _]. contradiction.
    + rewrite flat_map_app, Eout, Efl. reflexivity.
Qed.

(* the specification over the flattened frame splits block by block *)
Lemma assign_flatten_split (t : tb) : forall ps v,
  S_assign_from ps astep anew v 0 (flatten t) = assign_by_runs v t (block_runs t ps).
Proof.
  induction t as [|b r IH]; intros ps v; [reflexivity|].
  cbn [flatten flat_map block_runs assign_by_runs]. fold (flatten r).
  assert (Hlen : length (block_columns b) = length (b_cols b)) by (unfold block_columns; apply map_length).
  assert (Hmem : forall j, 0 <= j < 0 + Z.of_nat (length (b_cols b)) ->
            memz j ps = memz j (runs_elems (runs (filter (fun p => p <? width b) ps)))).
  { intros j Hj. rewrite runs_elems_eq. apply memz_ext. rewrite filter_In. unfold width.
    split; [intros Hin; split; [assumption|lia]|tauto]. }
  rewrite S_assign_from_app, Hlen. f_equal.
  - apply S_assign_from_ext. rewrite Hlen. exact Hmem.
  - rewrite (count_in_ext ps _ _ 0 Hmem). rewrite <- IH.
    replace (0 + Z.of_nat (length (b_cols b))) with (width b + 0) by (unfold width; lia).
    rewrite S_assign_from_shift. apply S_assign_from_ext. intros j Hj.
    apply memz_ext. rewrite !in_map_iff. split.
    + intros (p & E & Hp). exists p. split; [assumption|]. apply filter_In. split; [assumption|lia].
    + intros (p & E & Hp). apply filter_In in Hp as [Hp _]. exists p. split; assumption.
Qed.

(* is_slice = false only for an integer key *)
Definition slice_flag_ok (k : ckey) : Prop := is_slice = true \/ exists i, k = CInt i.

Lemma block_runs_nil (t : tb) : forall rs, In rs (block_runs t []) -> rs = [].
Proof.
  induction t as [|b t IH]; intros rs Hrs; [destruct Hrs|].
  cbn in Hrs. destruct Hrs as [<-|Hrs]; [reflexivity|apply IH; assumption].
Qed.

Lemma single_runs (t : tb) : forall p rs r, In rs (block_runs t [p]) -> In r rs -> snd r = 1%nat.
Proof.
  induction t as [|b t IH]; intros p rs r Hrs Hr; [destruct Hrs|].
  cbn [block_runs filter] in Hrs. destruct Hrs as [<-|Hrs].
  - destruct (p <? width b); cbn in Hr; [destruct Hr as [<-|[]]; reflexivity|destruct Hr].
  - destruct (width b <=? p); cbn [map] in Hrs; [eapply IH; eassumption|].
    apply block_runs_nil in Hrs. subst. destruct Hr.
Qed.

Theorem assign_unit_blocks_refines (t : tb) (k : ckey) (as_array : bool) ps : wf_tb t -> t <> [] ->
  walk_dom k (Z.of_nat (length (flatten t))) = true ->
  slice_flag_ok k ->
  key_positions k (Z.of_nat (length (flatten t))) = Ok ps ->
  res_map flatten (M_assign_unit_blocks is_slice sliceable newdt cells t
                     (ascending_key k (Z.of_nat (length (flatten t))) as_array)) =
  Ok (S_assign_from ps astep anew 0 0 (flatten t)).
Proof.
  intros Hwf Hne Hdom Hflag Ek. rewrite ascending_key_normalises, <- asc_key_normalises. unfold M_assign_unit_blocks, block_slices_for, Gen.Gen_c08.retain_key_order_assign_from_iloc_by_unit.
  destruct (block_slices_asc_runs t k ps Hwf Hdom Ek) as (ps' & Hinc & Hsame & Hrange & Ets).
  unfold block_slices_asc, ncols, tb_index in Ets. rewrite index_from_length in Ets. rewrite Ets.
  assert (Hsl : is_slice = true \/ forall rs r, In rs (block_runs t ps') -> In r rs -> snd r = 1%nat).
  { destruct Hflag as [H|[i ->]]; [left; assumption|right].
    cbn in Ek. destruct (norm_index i _) as [j|]; [|discriminate]. injection Ek as <-.
    assert (ps' = [j]).
    { destruct ps' as [|x [|y l]].
      - exfalso. apply (proj2 (Hsame j)). left. reflexivity.
      - f_equal. destruct (proj1 (Hsame x) (or_introl eq_refl)) as [E|[]]. congruence.
      - exfalso. apply increasing_cons in Hinc as [_ Hlt]. specialize (Hlt y (or_introl eq_refl)).
        destruct (proj1 (Hsame x) (or_introl eq_refl)) as [E|[]].
        destruct (proj1 (Hsame y) (or_intror (or_introl eq_refl))) as [E'|[]]. lia. }
    subst ps'. apply single_runs. }
  destruct (assign_walk_correct t Hwf 0 (block_runs t ps') 0 (block_runs_wf t ps' Hinc Hrange) Hsl) as (bs & Ebs & Hbs & Efl).
  rewrite Ebs. unfold from_blocks_strict.
  destruct bs as [|b0 bs0]; [exfalso; apply (Hbs Hne); reflexivity|]. cbn [is_nil res_map].
  rewrite from_blocks_flatten, Efl. f_equal. rewrite <- assign_flatten_split.
  apply S_assign_from_ext. intros j _. apply memz_ext. apply Hsame.
Qed.

End Assign.
