(* level_drop(-1): the tree the implementation leaves behind denotes the right tuples (every tuple without its last
   component, the rows of one former leaf collapsed) -- what it gets wrong is only the offsets (Refuted/C05.v). *)
Require Import SF.Prelude SF.Hier Proofs.HierBfs Proofs.HierViews Proofs.HierHloc.

Section Drop.
  Variable A : Type.
  Variable eqb : A -> A -> bool.
  Hypothesis eqb_spec : forall x y, eqb x y = true <-> x = y.
  Notation level := (level A).
  Notation dd := (dedup_adj A eqb).
  Notation req := (row_eqb A eqb).

  Lemma req_refl : forall r, req r r = true.
  Proof. induction r as [|x r IH]; [reflexivity|]. unfold row_eqb in *. cbn [list_eqb]. rewrite IH, (proj2 (eqb_spec x x) eq_refl). reflexivity. Qed.

  Lemma req_cons l a b : req (l :: a) (l :: b) = req a b.
  Proof. unfold row_eqb. cbn [list_eqb]. rewrite (proj2 (eqb_spec l l) eq_refl). reflexivity. Qed.

  Lemma req_heads l l' a b : eqb l l' = false -> req (l :: a) (l' :: b) = false.
  Proof. intro H. unfold row_eqb. cbn [list_eqb]. rewrite H. reflexivity. Qed.

  Lemma dd_cons2 r r2 rest : dd (r :: r2 :: rest) = if req r r2 then dd (r2 :: rest) else r :: dd (r2 :: rest).
  Proof. reflexivity. Qed.

  Lemma dd_map_cons : forall l X, dd (map (cons l) X) = map (cons l) (dd X).
  Proof.
    intros l X. induction X as [|r X IH]; [reflexivity|]. destruct X as [|r2 X]; [reflexivity|].
    change (map (cons l) (r :: r2 :: X)) with ((l :: r) :: (l :: r2) :: map (cons l) X).
    rewrite !dd_cons2, req_cons. change ((l :: r2) :: map (cons l) X) with (map (cons l) (r2 :: X)). rewrite IH.
    destruct (req r r2); reflexivity.
  Qed.

  (* two blocks whose junction rows differ are de-duplicated independently *)
  Lemma dd_app : forall X Y,
    (forall x y, last X [] = x -> X <> [] -> hd_error Y = Some y -> req x y = false) ->
    dd (X ++ Y) = dd X ++ dd Y.
  Proof.
    induction X as [|r X IH]; intros Y H; [reflexivity|]. destruct X as [|r2 X].
    - cbn [app]. destruct Y as [|y Y]; [reflexivity|]. rewrite dd_cons2.
      rewrite (H r y eq_refl ltac:(discriminate) eq_refl). reflexivity.
    - change ((r :: r2 :: X) ++ Y) with (r :: r2 :: (X ++ Y)). rewrite !dd_cons2.
      change (r2 :: X ++ Y) with ((r2 :: X) ++ Y). rewrite IH.
      + destruct (req r r2); reflexivity.
      + intros x y Hx _ Hy. apply (H x y); [exact Hx|discriminate|exact Hy].
  Qed.

  Lemma dd_repeat : forall r n, dd (repeat r (S n)) = [r].
  Proof.
    intros r n. induction n as [|n IH]; [reflexivity|]. change (repeat r (S (S n))) with (r :: r :: repeat r n).
    rewrite dd_cons2, req_refl. exact IH.
  Qed.

  Lemma last_map_cons : forall l (X : list (list A)), X <> [] -> exists r, last (map (cons l) X) [] = l :: r.
  Proof.
    intros l X. induction X as [|x X IH]; intro H; [congruence|]. destruct X as [|x2 X]; [exists x; reflexivity|].
    destruct (IH ltac:(discriminate)) as [r Hr]. exists r. exact Hr.
  Qed.

  (* rows of a sub-forest all start with one of its labels *)
  Lemma fz_head : forall (ks : list level) (ls : list A) y, hd_error (fz A ks ls) = Some y ->
    exists l r, y = l :: r /\ In l ls.
  Proof.
    induction ks as [|k ks IH]; intros ls y H; [destruct ls; discriminate|].
    destruct ls as [|l ls]; [discriminate|]. cbn [fz] in H.
    destruct (flatten k) as [|r0 R] eqn:E.
    - cbn [map app] in H. destruct (IH ls y H) as (l' & r & -> & Hin). exists l', r. split; [reflexivity|right; exact Hin].
    - cbn in H. injection H as <-. exists l, r0. split; [reflexivity|left; reflexivity].
  Qed.

  Lemma map_removelast_cons : forall l (X : list (list A)), Forall (fun r => r <> []) X ->
    map (@removelast A) (map (cons l) X) = map (cons l) (map (@removelast A) X).
  Proof.
    intros l X H. induction X as [|r X IH]; [reflexivity|]. inversion H; subst.
    cbn [map]. rewrite IH by assumption. f_equal. destruct r; [congruence|reflexivity].
  Qed.

  (* the generic block step: a forest whose blocks are given by g *)
  Lemma dd_blocks : forall (g : level -> list (list A)) (ks : list level) (ls : list A),
    length ls = length ks -> NoDup ls -> Forall (fun k => g k <> []) ks ->
    dd ((fix go (ks : list level) (ls : list A) : list (list A) :=
           match ks, ls with k :: ks', l :: ls' => map (cons l) (g k) ++ go ks' ls' | _, _ => [] end) ks ls)
    = (fix go (ks : list level) (ls : list A) : list (list A) :=
           match ks, ls with k :: ks', l :: ls' => map (cons l) (dd (g k)) ++ go ks' ls' | _, _ => [] end) ks ls.
  Proof.
    intros g. induction ks as [|k ks IH]; intros ls Hlen Hnd Hne; [destruct ls; reflexivity|].
    destruct ls as [|l ls]; [discriminate|]. inversion Hnd; subst. inversion Hne; subst.
    rewrite dd_app.
    - rewrite dd_map_cons, IH by (auto; cbn in Hlen; lia). reflexivity.
    - intros x y Hx _ Hy. destruct (last_map_cons l (g k) H3) as [r Hr]. rewrite Hr in Hx. subst x.
      assert (HY : exists l' r', y = l' :: r' /\ In l' ls).
      { clear -Hy. revert ls y Hy. induction ks as [|k2 ks IHk]; intros ls y Hy; [destruct ls; discriminate|].
        destruct ls as [|l2 ls]; [discriminate|]. destruct (g k2) as [|r0 R] eqn:E.
        - cbn [map app] in Hy. destruct (IHk ls y Hy) as (l' & r' & -> & Hin). exists l', r'. split; [reflexivity|right; exact Hin].
        - cbn in Hy. injection Hy as <-. exists l2, r0. split; [reflexivity|left; reflexivity]. }
      destruct HY as (l' & r' & -> & Hin). apply req_heads.
      destruct (eqb l l') eqn:E; [|reflexivity]. apply eqb_spec in E. subst. contradiction.
  Qed.

  Lemma fz_as_blocks : forall (ks : list level) (ls : list A),
    fz A ks ls = (fix go (ks : list level) (ls : list A) : list (list A) :=
                    match ks, ls with k :: ks', l :: ls' => map (cons l) (flatten k) ++ go ks' ls' | _, _ => [] end) ks ls.
  Proof. induction ks as [|k ks IH]; intro ls; [destruct ls; reflexivity|]. destruct ls; [reflexivity|]. cbn [fz]. rewrite IH. reflexivity. Qed.

  Theorem drop_inner_tuples : forall (t : level) h,
    uniform (S h) t = true -> labels_ok A eqb t = true ->
    flatten (M_drop_inner A t) = S_drop_inner A eqb (flatten t).
  Proof.
    unfold S_drop_inner.
    induction t as [o ls|o ls ks IH] using level_ind'; intros h Hu Hl; [apply uniform_leaf in Hu as [? _]; discriminate|].
    apply uniform_node in Hu as (h' & E & Hlen & Hne & Hk). injection E as <-.
    cbn [labels_ok] in Hl. apply andb_true_iff in Hl as [Hl1 Hl2].
    pose proof (nodupb_NoDup A eqb eqb_spec _ Hl1) as Hnd.
    rewrite flatten_node. destruct h as [|h].
    - (* the children are leaves: they are dropped *)
      assert (KL : Forall (fun k => exists o' xs, k = Leaf o' xs /\ xs <> []) ks).
      { apply Forall_forall. intros k Hin. rewrite Forall_forall in Hk. specialize (Hk k Hin).
        destruct k as [o' xs|o' xs ks']; [|discriminate]. apply uniform_leaf in Hk as [_ Hx]. eauto. }
      assert (MD : M_drop_inner A (Node o ls ks) = Leaf o ls).
      { destruct ks as [|k ks]; [congruence|]. inversion KL as [|? ? (o' & xs & -> & _) _]; subst. reflexivity. }
      rewrite MD. cbn [flatten]. clear MD IH Hk Hl2 Hne Hl1.
      revert ls Hlen Hnd. induction ks as [|k ks IHks]; intros ls Hlen Hnd; [destruct ls; [reflexivity|discriminate]|].
      destruct ls as [|l ls]; [discriminate|]. inversion KL as [|? ? (o' & xs & -> & Hx) KL']; subst. inversion Hnd; subst.
      cbn [fz flatten map]. rewrite map_app, !map_map. cbn [removelast].
      assert (R : map (fun _ : A => [l]) xs = repeat [l] (length xs)).
      { clear. induction xs as [|x xs IHx]; [reflexivity|]. cbn [map length repeat]. rewrite IHx. reflexivity. }
      rewrite R. rewrite dd_app.
      + destruct xs as [|x xs]; [congruence|]. cbn [length]. rewrite dd_repeat. cbn [app]. f_equal.
        apply IHks; auto; cbn in Hlen; lia.
      + intros x y Hx' _ Hy.
        assert (x = [l]). { subst x. clear -Hx. destruct xs as [|a xs]; [congruence|]. cbn [length]. clear. induction (length xs) as [|n IHn]; [reflexivity|]. exact IHn. }
        rewrite H. clear H Hx'.
        assert (HY : exists l', y = [l'] /\ In l' ls).
        { clear -Hy KL'. revert ls y Hy. induction ks as [|k2 ks IHk]; intros ls y Hy; [destruct ls; discriminate|].
          destruct ls as [|l2 ls]; [discriminate|]. inversion KL' as [|? ? (o2 & xs2 & -> & Hx2) KL2]; subst.
          destruct xs2 as [|a xs2]; [congruence|]. cbn in Hy. injection Hy as <-. exists l2. split; [reflexivity|left; reflexivity]. }
        destruct HY as (l' & -> & Hin). apply req_heads.
        destruct (eqb l l') eqn:E; [|reflexivity]. apply eqb_spec in E. subst. contradiction.
    - (* deeper: recurse into every child *)
      assert (MD : M_drop_inner A (Node o ls ks) = Node o ls (map (M_drop_inner A) ks)).
      { destruct ks as [|k ks]; [congruence|]. inversion Hk; subst. destruct k; [discriminate|reflexivity]. }
      rewrite MD, flatten_node.
      assert (RL : map (@removelast A) (fz A ks ls) =
                   (fix go (ks : list level) (ls : list A) : list (list A) :=
                      match ks, ls with k :: ks', l :: ls' => map (cons l) (map (@removelast A) (flatten k)) ++ go ks' ls' | _, _ => [] end) ks ls).
      { clear -Hk. revert ls. induction ks as [|k ks IHks]; intro ls; [destruct ls; reflexivity|]. destruct ls as [|l ls]; [reflexivity|].
        inversion Hk; subst. cbn [fz]. rewrite map_app, IHks by assumption. f_equal. apply map_removelast_cons.
        pose proof (flatten_row_length A k (S h) H1) as F. eapply Forall_impl; [|exact F]. intros r Hr Hn. subst r. discriminate. }
      rewrite RL.
      rewrite (dd_blocks (fun k => map (@removelast A) (flatten k)) ks ls Hlen Hnd).
      + clear RL MD Hl1 Hnd Hne. revert ls Hlen. induction ks as [|k ks IHks]; intros ls Hlen; [destruct ls; reflexivity|].
        destruct ls as [|l ls]; [discriminate|].
        apply Forall_cons_iff in IH as [IHk IH']. apply Forall_cons_iff in Hk as [Hku Hk'].
        cbn [forallb] in Hl2. apply andb_true_iff in Hl2 as [Hlk Hl2].
        cbn [map fz]. rewrite (IHk h Hku Hlk). f_equal. apply IHks; try assumption; cbn in Hlen; lia.
      + apply Forall_forall. intros k Hin. rewrite Forall_forall in Hk. specialize (Hk k Hin).
        assert (N : flatten k <> []) by (eapply flatten_nonempty; eauto). intro E. apply map_eq_nil in E. contradiction.
  Qed.
End Drop.
