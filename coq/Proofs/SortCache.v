(* C12 -- grow-only hierarchical indices: after ANY history of appends / extends / reads, the per-depth
   arrays that sort_index_for_order sorts by are those of the CURRENT labels (nothing appended is missing),
   provided values_at_depth refreshes on the freshness flag and append/extend set it. *)
Require Import SF.Prelude SF.Dtype SF.Value SF.SortCore SF.SortModel.

(* the cached table may be trusted whenever the flag is down *)
Definition ih_coherent (st : ih_state) : Prop :=
  ih_recache st = false -> ih_table st = Some (ih_labels st).

Lemma ih_refresh_good : forall st, ih_coherent st ->
  ih_table (ih_refresh RefreshOnRecache st) = Some (ih_labels st) /\
  ih_labels (ih_refresh RefreshOnRecache st) = ih_labels st /\
  ih_coherent (ih_refresh RefreshOnRecache st).
Proof.
  intros st H. unfold ih_refresh. destruct (ih_recache st) eqn:E; cbn [ih_table ih_labels].
  - split; [reflexivity|]. split; [reflexivity|]. intros _. reflexivity.
  - split; [apply H; exact E|]. split; [reflexivity|exact H].
Qed.

Lemma ih_step_good : forall st op, ih_coherent st ->
  ih_coherent (ih_step good_cache_params st op) /\
  ih_labels (ih_step good_cache_params st op) = ih_labels st ++ ih_op_labels op.
Proof.
  intros st [l|ls|d] H; cbn.
  - split; [intro C; discriminate C|reflexivity].
  - split; [intro C; discriminate C|reflexivity].
  - destruct (ih_refresh_good st H) as (_ & L & C). rewrite app_nil_r. split; assumption.
Qed.

Lemma ih_run_good : forall ops st, ih_coherent st ->
  ih_coherent (ih_run good_cache_params ops st) /\
  ih_labels (ih_run good_cache_params ops st) = ih_labels st ++ flat_map ih_op_labels ops.
Proof.
  induction ops as [|op ops IH]; intros st H; cbn.
  - rewrite app_nil_r. split; [exact H|reflexivity].
  - destruct (ih_step_good st op H) as [C L]. destruct (IH _ C) as [C' L'].
    split; [exact C'|]. unfold ih_run in L'. rewrite L', L, <- app_assoc. reflexivity.
Qed.

Theorem ih_values_at_depth_current : forall ops st d, ih_coherent st ->
  snd (ih_values_at_depth good_cache_params (ih_run good_cache_params ops st) d) =
  depth_vec (ih_labels st ++ flat_map ih_op_labels ops) d.
Proof.
  intros ops st d H. destruct (ih_run_good ops st H) as [C L].
  unfold ih_values_at_depth. cbn [snd cp_vad_refresh good_cache_params].
  destruct (ih_refresh_good _ C) as (T & _ & _). rewrite T, L. reflexivity.
Qed.

(* the key vectors of the sort are those of the current labels: exactly what M_sifo_top / S_order are given *)
Theorem ih_key_vectors_current : forall ops st depth, ih_coherent st -> (2 <= depth)%nat ->
  ih_key_vectors good_cache_params (ih_run good_cache_params ops st) depth =
  index_keys depth (ih_labels st ++ flat_map ih_op_labels ops).
Proof.
  intros ops st depth H Hd. unfold ih_key_vectors, index_keys.
  assert (E : (depth <=? 1)%nat = false) by (apply Nat.leb_gt; lia). rewrite E.
  apply map_ext. intro d. apply ih_values_at_depth_current. exact H.
Qed.

(* a freshly built index (no table, flag up) and a materialised one are both coherent *)
Lemma ih_fresh_coherent : forall labels, ih_coherent (mk_ih_state labels None true).
Proof. intros labels C. discriminate C. Qed.
Lemma ih_materialised_coherent : forall labels, ih_coherent (mk_ih_state labels (Some labels) false).
Proof. intros labels _. reflexivity. Qed.
