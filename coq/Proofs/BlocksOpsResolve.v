(* C03, part 3: the typed form of util.resolve_dtype (SF/BlocksOpsVal.resolve_dtype_t) has the three algebraic
   facts the row-dtype theorems need, and equals the kernel regenerated from /repo (Gen.Gen_util.resolve_dtype). *)
Require Import SF.Prelude SF.PySlice SF.Dtype SF.Value SF.PyDyn SF.Blocks SF.BlocksOps SF.BlocksOpsVal Gen.Gen_util.
Require Import Proofs.BlocksOps.

Lemma resolve_t_idem d : resolve_dtype_t d d = d.
Proof. unfold resolve_dtype_t. now rewrite dtype_eqb_refl. Qed.

Lemma resolve_t_obj d : resolve_dtype_t DObj d = DObj.
Proof. unfold resolve_dtype_t. destruct (dtype_eqb DObj d); reflexivity. Qed.

Lemma resolve_t_obj_r d : resolve_dtype_t d DObj = DObj.
Proof.
  unfold resolve_dtype_t. destruct (dtype_eqb d DObj) eqn:E; [apply dtype_eqb_eq in E; exact E|].
  destruct d; reflexivity.
Qed.

Ltac split_ifs :=
  repeat match goal with
         | |- context [if ?c then _ else _] => destruct c eqn:?
         end.

Ltac fin :=
  repeat (match goal with
          | |- context [if ?c then _ else _] => let E := fresh "E" in destruct c eqn:E
          end; cbn [dtype_eqb is_obj is_str is_dt is_td is_bool orb andb np_result_type Bool.eqb] in *);
  try reflexivity; try (exfalso; lia); try (f_equal; lia).

Lemma resolve_t_absorb r d : dtype_pos r = true -> dtype_pos d = true ->
  resolve_dtype_t (resolve_dtype_t r d) d = resolve_dtype_t r d.
Proof.
  intros Pr Pd.
  destruct r, d; try (rewrite ?resolve_t_obj, ?resolve_t_obj_r, ?resolve_t_obj; reflexivity).
  all: try (destruct u, u0; vm_compute; reflexivity).
  all: try (destruct u; vm_compute; reflexivity).
  all: unfold resolve_dtype_t, rt; cbn [is_obj is_str is_dt is_td is_bool orb andb dtype_eqb np_result_type].
  all: try reflexivity.
  all: cbn [dtype_pos] in Pr, Pd.
  all: repeat match goal with s : bool |- _ => destruct s end.
  all: unfold float_for_int; cbn [Bool.eqb andb orb].
  all: fin.
  all: unfold float_for_int; fin.
Qed.

Lemma resolve_t_closed r d : dtype_pos r = true -> dtype_pos d = true -> dtype_pos (resolve_dtype_t r d) = true.
Proof.
  intros Pr Pd.
  destruct r, d; try (rewrite ?resolve_t_obj, ?resolve_t_obj_r; reflexivity).
  all: try (destruct u, u0; vm_compute; reflexivity).
  all: try (destruct u; vm_compute; reflexivity).
  all: unfold resolve_dtype_t, rt; cbn [is_obj is_str is_dt is_td is_bool orb andb dtype_eqb np_result_type].
  all: try reflexivity.
  all: cbn [dtype_pos] in Pr, Pd.
  all: repeat match goal with s : bool |- _ => destruct s end.
  all: unfold float_for_int; cbn [Bool.eqb andb orb].
  all: repeat (match goal with
          | |- context [if ?c then _ else _] => let E := fresh "E" in destruct c eqn:E
          end; cbn [dtype_eqb is_obj is_str is_dt is_td is_bool orb andb np_result_type Bool.eqb dtype_pos] in *);
       cbn [dtype_pos]; try reflexivity; try lia.
Qed.

