(* C11 -- the cells of the specified result, found BY LABEL: the cell at (r, c) of the vertical
   concatenation is the cell at (r, c) of the input that holds row label r (stored in the result
   column's dtype), or the fill value when that input has no column c.  With duplicate-free labels
   a pair of labels names one position, so no input cell is lost, duplicated or moved. *)
Require Import SF.Prelude SF.Dtype SF.Blocks SF.Concat.
Require Import Proofs.ConcatVstack Proofs.ConcatAlign.

(* start of the k-th list inside the concatenation *)
Fixpoint off {X} (ls : list (list X)) (k : nat) : nat :=
  match k, ls with
  | S k', l :: r => (length l + off r k')%nat
  | _, _ => O
  end.

Lemma nth_error_concat_off {X} (ls : list (list X)) : forall k l i x,
  nth_error ls k = Some l -> nth_error l i = Some x ->
  nth_error (concat ls) (off ls k + i) = Some x.
Proof.
  induction ls as [|l0 r IH]; intros k l i x Hk Hi; [destruct k; discriminate|].
  destruct k as [|k]; cbn in *.
  - injection Hk as ->. rewrite nth_error_app1; [exact Hi|]. apply nth_error_Some. congruence.
  - rewrite nth_error_app2 by lia.
    replace (length l0 + off r k + i - length l0)%nat with (off r k + i)%nat by lia.
    eapply IH; eassumption.
Qed.

Lemma off_map_eq {F X Y} (g : F -> list X) (h : F -> list Y) (fs : list F) :
  (forall f, In f fs -> length (g f) = length (h f)) -> forall k, off (map g fs) k = off (map h fs) k.
Proof.
  induction fs as [|f fs IH]; intros H k; [destruct k; reflexivity|].
  destruct k as [|k]; [reflexivity|]. cbn. rewrite H by (left; reflexivity).
  f_equal. apply IH. intros f' Hf'. apply H. right. exact Hf'.
Qed.

Lemma c11_nodup_app_l {X} (a b : list X) : NoDup (a ++ b) -> NoDup a.
Proof.
  induction a as [|x a IH]; intro H; [constructor|]. cbn in H. inversion H as [|? ? Hx Hr]; subst.
  constructor; [|apply IH; exact Hr]. intro Hin. apply Hx. apply in_or_app. left. exact Hin.
Qed.

Lemma c11_nodup_app_r {X} (a b : list X) : NoDup (a ++ b) -> NoDup b.
Proof. induction a as [|x a IH]; intro H; [exact H|]. cbn in H. inversion H; subst. apply IH. assumption. Qed.

Lemma c11_nodup_app_intro {X} (a b : list X) : NoDup a -> NoDup b -> (forall x, In x a -> In x b -> False) -> NoDup (a ++ b).
Proof.
  induction a as [|x a IH]; intros Ha Hb Hd; [exact Hb|]. cbn. inversion Ha as [|? ? Hx Ha']; subst.
  constructor.
  - intro Hin. apply in_app_or in Hin as [Hin|Hin]; [apply Hx; exact Hin|]. apply (Hd x); [left; reflexivity|exact Hin].
  - apply IH; [exact Ha'|exact Hb|]. intros y H1 H2. apply (Hd y); [right; exact H1|exact H2].
Qed.

Lemma NoDup_concat_In {X} (ls : list (list X)) l : NoDup (concat ls) -> In l ls -> NoDup l.
Proof.
  induction ls as [|l0 r IH]; intros Hn Hin; [destruct Hin|].
  cbn in Hn. destruct Hin as [->|Hin].
  - eapply c11_nodup_app_l. exact Hn.
  - apply IH; [|exact Hin]. eapply c11_nodup_app_r. exact Hn.
Qed.

Section Cells.
Context {L A : Type}.
Variable leqb : L -> L -> bool.
Variable cast : dtype -> A -> A.
Variable resolve : dtype -> dtype -> dtype.
Hypothesis leqb_spec : forall a b, leqb a b = true <-> a = b.

(* every column has one cell per row label *)
Definition wf_cells (f : frame L A) : Prop :=
  Forall (fun c : column => length (snd c) = f_rows f) (f_cols f).

Definition result_dtype filldt fill (fs : list (frame L A)) (c : L) : dtype :=
  fst (S_stack_col cast resolve (map (fun f => S_aligned_col leqb filldt fill f c) fs)).

Lemma aligned_col_length filldt fill (f : frame L A) c : wf_cells f ->
  length (snd (S_aligned_col leqb filldt fill f c)) = f_rows f.
Proof.
  intro H. unfold S_aligned_col. destruct (lookup_col leqb f c) as [col|] eqn:E.
  - unfold lookup_col in E. destruct (find_pos leqb c (f_columns f)); [|discriminate].
    apply nth_error_In in E. unfold wf_cells in H. rewrite Forall_forall in H. apply H. exact E.
  - cbn. apply repeat_length.
Qed.

Lemma aligned_col_cell filldt fill (f : frame L A) c i r : wf_cells f -> NoDup (f_index f) ->
  nth_error (f_index f) i = Some r ->
  nth_error (snd (S_aligned_col leqb filldt fill f c)) i =
  Some (match t_cell leqb (f_table f) r c with Some v => v | None => fill end).
Proof.
  intros Hwf Hnd Hi.
  assert (Hlt : (i < f_rows f)%nat) by (apply nth_error_Some; unfold f_rows; congruence).
  unfold t_cell, S_aligned_col, lookup_col, f_table. cbn [t_columns t_index t_cols].
  rewrite (find_pos_nth leqb leqb_spec (f_index f) Hnd i r Hi).
  destruct (find_pos leqb c (f_columns f)) as [j|].
  - destruct (nth_error (f_cols f) j) as [col|] eqn:E.
    + assert (Hl : length (snd col) = f_rows f).
      { apply nth_error_In in E. unfold wf_cells in Hwf. rewrite Forall_forall in Hwf. apply Hwf. exact E. }
      destruct (nth_error (snd col) i) eqn:E2; [reflexivity|]. apply nth_error_None in E2. lia.
    + cbn. rewrite nth_error_repeat by exact Hlt. reflexivity.
  - cbn. rewrite nth_error_repeat by exact Hlt. reflexivity.
Qed.

(* EVERY RESULT CELL, BY LABEL *)
Theorem concat0_cell filldt fill (fs : list (frame L A)) (cols : list L) k f i r c :
  Forall wf_cells fs -> NoDup (concat (map (@f_index L A) fs)) ->
  nth_error fs k = Some f -> nth_error (f_index f) i = Some r -> In c cols ->
  t_cell leqb (mk_table (concat (map (@f_index L A) fs)) cols (S_concat0_cols leqb cast resolve filldt fill fs cols)) r c =
  Some (cast (result_dtype filldt fill fs c)
             (match t_cell leqb (f_table f) r c with Some v => v | None => fill end)).
Proof.
  intros Hwf Hnd Hk Hi Hc.
  assert (Hin : In f fs) by (eapply nth_error_In; exact Hk).
  assert (Hwf_f : wf_cells f) by (rewrite Forall_forall in Hwf; apply Hwf; exact Hin).
  assert (Hnd_f : NoDup (f_index f)).
  { apply (NoDup_concat_In (map (@f_index L A) fs)); [exact Hnd|]. apply in_map. exact Hin. }
  unfold t_cell. cbn [t_columns t_index t_cols].
  destruct (find_pos_In leqb leqb_spec c cols Hc) as [j Hj]. rewrite Hj.
  pose proof (find_pos_Some leqb leqb_spec _ _ _ Hj) as Hjc.
  (* the global row of (f, i) *)
  assert (Hrow : nth_error (concat (map (@f_index L A) fs)) (off (map (@f_index L A) fs) k + i) = Some r).
  { eapply nth_error_concat_off; [|exact Hi]. rewrite nth_error_map, Hk. reflexivity. }
  rewrite (find_pos_nth leqb leqb_spec _ Hnd _ _ Hrow).
  unfold Concat.S_concat0_cols. rewrite nth_error_map, Hjc. cbn [option_map].
  unfold result_dtype, Concat.S_stack_col, stack_col_with. cbn [fst snd].
  set (d := resolve_parts (S_resolve_fold resolve) (map fst (map (fun f0 => S_aligned_col leqb filldt fill f0 c) fs))).
  rewrite flat_map_concat_map, map_map.
  rewrite (off_map_eq (@f_index L A) (fun f0 => map (cast d) (snd (S_aligned_col leqb filldt fill f0 c))) fs).
  2:{ intros f' Hf'. rewrite map_length, aligned_col_length; [reflexivity|].
      rewrite Forall_forall in Hwf. apply Hwf. exact Hf'. }
  eapply nth_error_concat_off.
  - rewrite nth_error_map, Hk. reflexivity.
  - rewrite nth_error_map, (aligned_col_cell filldt fill f c i r Hwf_f Hnd_f Hi). reflexivity.
Qed.

(* ---- the items form: pairs (key, inner label) are duplicate-free when the keys are ---- *)
Variable pair_label : L -> L -> L.
Hypothesis pair_inj : forall k1 l1 k2 l2, pair_label k1 l1 = pair_label k2 l2 -> k1 = k2 /\ l1 = l2.

Lemma item_labels_In kls x :
  In x (S_item_labels pair_label kls) <-> exists k ls l, In (k, ls) kls /\ In l ls /\ x = pair_label k l.
Proof.
  unfold S_item_labels. rewrite in_flat_map. split.
  - intros ([k ls] & H1 & H2). cbn in H2. apply in_map_iff in H2 as (l & <- & Hl). exists k, ls, l. tauto.
  - intros (k & ls & l & H1 & H2 & ->). exists (k, ls). split; [exact H1|]. cbn. apply in_map. exact H2.
Qed.

Theorem item_labels_NoDup (kls : list (L * list L)) :
  NoDup (map fst kls) -> Forall (fun kl => NoDup (snd kl)) kls -> NoDup (S_item_labels pair_label kls).
Proof.
  induction kls as [|[k ls] r IH]; intros Hk Hl; [constructor|].
  cbn in Hk. inversion Hk as [|? ? Hnotin Hk']; subst. inversion Hl as [|? ? Hls Hl']; subst.
  unfold S_item_labels. cbn [flat_map fst snd].
  apply c11_nodup_app_intro.
  - apply FinFun.Injective_map_NoDup; [|exact Hls]. intros a b E. apply pair_inj in E. tauto.
  - apply IH; assumption.
  - intros x H1 H2. apply in_map_iff in H1 as (l & <- & _).
    apply item_labels_In in H2 as (k' & ls' & l' & Hin & _ & E). apply pair_inj in E as [-> _].
    apply Hnotin. apply in_map_iff. exists (k', ls'). tauto.
Qed.

Theorem index_items_ok (kls : list (L * list L)) ls :
  M_index_items leqb pair_label kls = Ok ls ->
  ls = S_item_labels pair_label kls /\ NoDup (map fst kls).
Proof.
  unfold M_index_items. destruct (existsb _ kls); [discriminate|].
  destruct (nodupb leqb (map fst kls)) eqn:E; [|discriminate].
  intro H. injection H as <-. split; [reflexivity|]. apply (nodupb_NoDup leqb leqb_spec). exact E.
Qed.

Theorem index_items_labels (kls : list (L * list L)) ls :
  Forall (fun kl => NoDup (snd kl)) kls ->
  M_index_items leqb pair_label kls = Ok ls ->
  ls = S_item_labels pair_label kls /\ NoDup ls.
Proof.
  intros Hin H. destruct (index_items_ok kls ls H) as [E Hk]. split; [exact E|].
  rewrite E. apply item_labels_NoDup; assumption.
Qed.

End Cells.
