(* C14 -- facts about the specifications S_* of SF/Missing.v (independent of any implementation model). *)
Require Import SF.Prelude SF.Value SF.Missing.

(* every list of cells is a run of missing cells followed by groups "a present value and the k missing cells after it" *)
Definition nones {A} (k : nat) : list (option A) := repeat None k.
Definition group {A} (g : A * nat) : list (option A) := Some (fst g) :: nones (snd g).
Definition flat {A} (gs : list (A * nat)) : list (option A) := flat_map group gs.

(* how many of k missing cells a fill with `limit` reaches when `run` missing cells were already passed *)
Definition reach (limit run : Z) (k : nat) : nat :=
  if limit =? 0 then k else Nat.min k (Z.to_nat (limit - run)).

Definition filled {A} (limit : Z) (g : A * nat) : list (option A) :=
  Some (fst g) :: repeat (Some (fst g)) (reach limit 0 (snd g)) ++ nones (snd g - reach limit 0 (snd g)).
Definition S_groups {A} (limit : Z) (gs : list (A * nat)) : list (option A) := flat_map (filled limit) gs.

(* pointwise: r keeps every present cell of l (and has the same length) *)
Definition keeps {A} (l r : list (option A)) : Prop :=
  Forall2 (fun c d => forall x : A, c = Some x -> d = Some x) l r.

Lemma Forall2_rev {X Y} (R : X -> Y -> Prop) l r : Forall2 R l r -> Forall2 R (rev l) (rev r).
Proof.
  induction 1; cbn; [constructor|]. apply Forall2_app; [assumption|]. constructor; [assumption|constructor].
Qed.

Lemma Forall2_nth_error {X Y} (R : X -> Y -> Prop) l r : Forall2 R l r ->
  forall i a, nth_error l i = Some a -> exists b, nth_error r i = Some b /\ R a b.
Proof.
  induction 1; intros [|i] a E; cbn in *; try discriminate.
  - injection E as <-. eauto.
  - eauto.
Qed.

Lemma Forall2_length {X Y} (R : X -> Y -> Prop) l r : Forall2 R l r -> length l = length r.
Proof. induction 1; cbn; congruence. Qed.

Section Spec.
Context {A : Type}.
Implicit Types (l : list (option A)) (x v : A) (gs : list (A * nat)).

Lemma decompose l : exists k gs, l = nones k ++ flat gs.
Proof.
  induction l as [|[x|] t (k & gs & ->)].
  - exists 0%nat, []. reflexivity.
  - exists 0%nat, ((x, k) :: gs). reflexivity.
  - exists (S k), gs. reflexivity.
Qed.

Lemma S_ffill_go_length limit l : forall last run, length (S_ffill_go limit last run l) = length l.
Proof.
  induction l as [|[x|] t IH]; intros last run; cbn; [reflexivity| |]; rewrite IH; reflexivity.
Qed.

Lemma S_ffill_go_app limit l1 : forall l2 last run,
  S_ffill_go limit last run (l1 ++ l2) =
  S_ffill_go limit last run l1 ++ S_ffill_go limit (fst (S_carry last run l1)) (snd (S_carry last run l1)) l2.
Proof.
  induction l1 as [|[x|] t IH]; intros l2 last run; cbn; [reflexivity| |]; rewrite IH; reflexivity.
Qed.

Lemma S_carry_app l1 : forall l2 (last : option A) run,
  S_carry last run (l1 ++ l2) = S_carry (fst (S_carry last run l1)) (snd (S_carry last run l1)) l2.
Proof.
  induction l1 as [|[x|] t IH]; intros l2 last run; cbn; [reflexivity| |]; rewrite IH; reflexivity.
Qed.

(* ---- runs of missing cells ---- *)
Lemma S_carry_nones k : forall (last : option A) run, S_carry last run (nones k) = (last, run + Z.of_nat k).
Proof.
  induction k as [|k IH]; intros last run; cbn.
  - f_equal. lia.
  - unfold nones in IH. rewrite IH. f_equal. lia.
Qed.

Lemma S_ffill_go_nones_dead limit k : forall run, S_ffill_go limit (@None A) run (nones k) = nones k.
Proof. induction k as [|k IH]; intros run; cbn; [reflexivity|]. unfold nones in IH. rewrite IH. reflexivity. Qed.

Lemma S_ffill_go_nones limit v k : forall run, 0 <= limit -> 0 <= run ->
  S_ffill_go limit (Some v) run (nones k) =
  repeat (Some v) (reach limit run k) ++ nones (k - reach limit run k).
Proof.
  induction k as [|k IH]; intros run Hl Hr.
  - unfold reach. destruct (limit =? 0); reflexivity.
  - cbn [nones repeat S_ffill_go]. unfold nones in IH. rewrite IH by lia. unfold within, reach.
    destruct (limit =? 0) eqn:E0; cbn [orb].
    + replace (S k - S k)%nat with 0%nat by lia. replace (k - k)%nat with 0%nat by lia. reflexivity.
    + destruct (run <? limit) eqn:E1.
      * replace (Nat.min (S k) (Z.to_nat (limit - run))) with (S (Nat.min k (Z.to_nat (limit - (run + 1))))) by lia.
        cbn. reflexivity.
      * replace (Nat.min (S k) (Z.to_nat (limit - run))) with 0%nat by lia.
        replace (Nat.min k (Z.to_nat (limit - (run + 1)))) with 0%nat by lia. cbn.
        replace (k - 0)%nat with k by lia. reflexivity.
Qed.

(* ---- the explicit description of forward fill: each present value fills min(k, limit) of the k missing cells after it ---- *)
Lemma S_ffill_go_group limit x k : 0 <= limit -> forall last run,
  S_ffill_go limit last run (group (x, k)) = filled limit (x, k).
Proof.
  intros Hl last run. unfold group, filled. cbn [fst snd S_ffill_go].
  rewrite S_ffill_go_nones by lia. reflexivity.
Qed.

Lemma S_carry_group x k (last : option A) run : S_carry last run (group (x, k)) = (Some x, Z.of_nat k).
Proof. unfold group. cbn [fst snd S_carry]. rewrite S_carry_nones. reflexivity. Qed.

Lemma S_ffill_go_flat limit gs : 0 <= limit -> forall last run,
  S_ffill_go limit last run (flat gs) = S_groups limit gs.
Proof.
  intros Hl. induction gs as [|[x k] gs IH]; intros last run; [reflexivity|].
  cbn [flat flat_map S_groups]. fold (flat gs). fold (S_groups limit gs).
  rewrite S_ffill_go_app, IH, S_ffill_go_group by lia. reflexivity.
Qed.

Theorem S_ffill_explicit limit k gs : 0 <= limit ->
  S_ffill limit (nones k ++ flat gs) = nones k ++ S_groups limit gs.
Proof.
  intros Hl. unfold S_ffill. rewrite S_ffill_go_app, S_ffill_go_nones_dead, S_ffill_go_flat by lia. reflexivity.
Qed.

(* ---- nothing present is ever altered; lengths are kept ---- *)
Lemma keeps_refl l : keeps l l.
Proof. induction l; constructor; auto. Qed.

Lemma S_ffill_go_keeps limit l : forall last run, keeps l (S_ffill_go limit last run l).
Proof.
  induction l as [|[x|] t IH]; intros last run; cbn.
  - constructor.
  - constructor; [auto | apply IH].
  - constructor; [intros; discriminate | apply IH].
Qed.

Lemma S_ffill_keeps limit l : keeps l (S_ffill limit l).
Proof. apply S_ffill_go_keeps. Qed.

Lemma S_bfill_keeps limit l : keeps l (S_bfill limit l).
Proof.
  unfold S_bfill. rewrite <- (rev_involutive l) at 1. apply Forall2_rev, S_ffill_keeps.
Qed.

Lemma S_leading_keeps v l : keeps l (S_leading v l).
Proof.
  induction l as [|[x|] t IH]; cbn; [constructor| apply keeps_refl |]. constructor; [intros; discriminate|assumption].
Qed.

Lemma S_trailing_keeps v l : keeps l (S_trailing v l).
Proof.
  unfold S_trailing. rewrite <- (rev_involutive l) at 1. apply Forall2_rev, S_leading_keeps.
Qed.

Lemma S_fillna_keeps v l : keeps l (S_fillna v l).
Proof.
  induction l as [|[x|] t IH]; cbn.
  - constructor.
  - constructor; [auto | apply IH].
  - constructor; [intros; discriminate | apply IH].
Qed.

Theorem fills_keep_present limit v l :
  keeps l (S_ffill limit l) /\ keeps l (S_bfill limit l) /\
  keeps l (S_leading v l) /\ keeps l (S_trailing v l) /\ keeps l (S_fillna v l).
Proof.
  repeat split; [apply S_ffill_keeps | apply S_bfill_keeps | apply S_leading_keeps | apply S_trailing_keeps | apply S_fillna_keeps].
Qed.

Corollary keeps_nth l r : keeps l r ->
  length l = length r /\ forall i x, nth_error l i = Some (Some x) -> nth_error r i = Some (Some x).
Proof.
  intros H. split; [eapply Forall2_length; exact H|].
  intros i x E. destruct (Forall2_nth_error _ _ _ H i _ E) as (b & Hb & Hr). rewrite Hb, (Hr x eq_refl). reflexivity.
Qed.

(* ---- fillna touches exactly the missing cells ---- *)
Theorem S_fillna_exact v l i :
  nth_error (S_fillna v l) i =
  match nth_error l i with
  | Some None => Some (Some v)
  | other => other
  end.
Proof.
  unfold S_fillna. rewrite nth_error_map. destruct (nth_error l i) as [[x|]|]; reflexivity.
Qed.

(* ---- leading fill touches exactly the missing run at the leading edge ---- *)
Theorem S_leading_explicit v k gs :
  S_leading v (nones k ++ flat gs) = repeat (Some v) k ++ flat gs.
Proof.
  induction k as [|k IH]; cbn.
  - destruct gs as [|[x j] gs]; reflexivity.
  - unfold nones in IH. rewrite IH. reflexivity.
Qed.

(* ---- isna / count / dropna ---- *)
Theorem S_count_spec l :
  S_count l + Z.of_nat (length (filter is_missing l)) = Z.of_nat (length l) /\
  S_count l = Z.of_nat (length (S_dropna (seq 0 (length l)) l)).
Proof.
  unfold S_count, S_dropna. split.
  - induction l as [|[x|] t IH]; cbn [filter length is_missing negb] in *; lia.
  - f_equal. generalize 0%nat. induction l as [|[x|] t IH]; intros s; cbn; [reflexivity| |]; rewrite ?IH; auto.
Qed.

Theorem S_dropna_exact {L} (labels : list L) l lab c : length labels = length l ->
  (In (lab, c) (S_dropna labels l) <-> In (lab, c) (combine labels l) /\ is_missing c = false).
Proof.
  intros _. unfold S_dropna. rewrite filter_In. cbn. destruct (is_missing c); cbn; intuition congruence.
Qed.

Theorem S_dropna_lines_exact {L} use_any (labels : list L) (lines : list (list (option A))) lab line :
  In (lab, line) (S_dropna_lines use_any labels lines) <->
  In (lab, line) (combine labels lines) /\
  (if use_any then forall c, In c line -> is_missing c = false
   else exists c, In c line /\ is_missing c = false).
Proof.
  unfold S_dropna_lines, line_drop. rewrite filter_In. cbn [snd].
  destruct use_any.
  - split; intros [H1 H2]; split; try assumption.
    + intros c Hc. destruct (is_missing c) eqn:E; [|reflexivity].
      exfalso. apply negb_true_iff in H2. rewrite <- not_true_iff_false in H2. apply H2.
      apply existsb_exists. eauto.
    + apply negb_true_iff. apply not_true_iff_false. intros E. apply existsb_exists in E as (c & Hc & Ec).
      rewrite (H2 c Hc) in Ec. discriminate.
  - split; intros [H1 H2]; split; try assumption.
    + apply negb_true_iff in H2. clear H1. induction line as [|c t IH]; cbn in H2; [discriminate|].
      destruct (is_missing c) eqn:E; cbn in H2.
      * destruct (IH H2) as (c' & Hc' & E'). exists c'. split; [right|]; assumption.
      * exists c. split; [left; reflexivity|assumption].
    + destruct H2 as (c & Hc & Ec). apply negb_true_iff. apply not_true_iff_false. intros E.
      rewrite forallb_forall in E. rewrite (E c Hc) in Ec. discriminate.
Qed.

End Spec.
