(* C06 -- the keyword constants regenerated from the source on every run (Gen/Gen_c06.v) are the ones the
   hand-written models assume. *)
Require Import SF.Prelude SF.SetAlg SF.LabelAlign Gen.Gen_c06.
Local Open Scope string_scope.

Definition source_constants_as_modelled : Prop :=
  (* M_series_binop re-indexes both operands with check_equals = false, on the UNION of the indices *)
  src_series_binop_check_equals = [false; false] /\
  src_series_binop_set_ops = ["union"] /\
  (* Frame operators: union on each aligned axis (Frame/Frame both axes, Frame/Series axis 0 and axis 1),
     re-indexing with the default check_equals (= the index.equals shortcut of axis_ic / M_series_reindex true) *)
  src_frame_binop_set_ops = ["union"; "union"; "union"; "union"] /\
  src_frame_binop_overrides_check_equals = false /\
  src_series_reindex_check_equals_default = "True" /\
  src_frame_reindex_check_equals_default = "True" /\
  (* the fill value of alignment is NaN (the models are instantiated with fill VNaN) *)
  src_series_reindex_fill_default = "np.nan" /\
  src_frame_reindex_fill_default = "np.nan" /\
  (* M_index_set: which operands are assumed repetition-free; the equals() shortcut compares dtypes *)
  operand_unique OperandArray = src_index_set_assume_unique_ndarray /\
  operand_unique OperandIndex = src_index_set_assume_unique_index /\
  src_index_set_equals_compares_dtype = true /\
  (* Index.equals: the skipna mask is "missing on BOTH sides" (self & other); M_index_equals reads these *)
  src_index_equals_mask_operands = ["self"; "other"] /\
  (* M_from_correspondence: intersect1d / intersect2d with assume_unique = true *)
  src_correspondence_assume_unique = [true; true].

Lemma source_constants_ok : source_constants_as_modelled.
Proof. unfold source_constants_as_modelled. repeat split; reflexivity. Qed.
