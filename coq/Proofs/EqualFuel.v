(* C10 -- the fuel handed to the model of the IndexLevel.equals tree walk always suffices. *)
Require Import SF.Prelude SF.Dtype SF.Value SF.Equal.

Fixpoint stack_size (l : list lvl) : nat :=
  match l with [] => O | c :: r => (lvl_size c + stack_size r)%nat end.

Lemma lvl_size_unfold ix ts : lvl_size (Lvl ix ts) = S (stack_size ts).
Proof.
  reflexivity.
Qed.

Lemma stack_size_app a b : stack_size (a ++ b) = (stack_size a + stack_size b)%nat.
Proof. induction a as [|c r IH]; cbn; [reflexivity|]. rewrite IH. lia. Qed.

Lemma stack_size_rev a : stack_size (rev a) = stack_size a.
Proof. induction a as [|c r IH]; cbn; [reflexivity|]. rewrite stack_size_app, IH. cbn. lia. Qed.

Lemma walk_fuel_enough c o : forall fuel seen sa sb,
  (stack_size sa < fuel)%nat -> exists r, M_level_walk fuel c o seen sa sb = Ok r.
Proof.
  induction fuel as [|f IH]; intros seen sa sb H; [lia|].
  cbn [M_level_walk]. destruct sa as [|a ra]; [destruct sb; eexists; reflexivity|].
  destruct sb as [|b rb]; [eexists; reflexivity|].
  destruct a as [ixa ta].
  cbn [stack_size] in H. rewrite lvl_size_unfold in H.
  destruct (negb _ && negb _); [eexists; reflexivity|].
  cbn [lvl_targets]. destruct ta as [|t1 tr]; destruct (lvl_targets b) as [|u1 ur]; try (eexists; reflexivity).
  - apply IH. cbn in H. lia.
  - apply IH. rewrite stack_size_app, stack_size_rev. lia.
Qed.

(* M_level_equals never answers Err "OutOfFuel": every answer of the model is a Boolean *)
Theorem level_equals_total c o a b : exists r, M_level_equals c o a b = Ok r.
Proof.
  unfold M_level_equals.
  destruct (negb (lvl_len a =? lvl_len b)); [eexists; reflexivity|].
  destruct (negb (lvl_depth (lvl_size a) a =? lvl_depth (lvl_size b) b)); [eexists; reflexivity|].
  assert (W : exists r, M_level_walk (S (lvl_size a + lvl_size b)) c o [] [a] [b] = Ok r).
  { apply walk_fuel_enough. cbn. lia. }
  destruct (lvl_targets a), (lvl_targets b); try exact W. eexists; reflexivity.
Qed.

Theorem hier_equals_total c o a b : exists r, M_hier_equals c o a b = Ok r.
Proof.
  unfold M_hier_equals.
  destruct (eh_oid a =? eh_oid b); [eexists; reflexivity|].
  destruct (o_class o && _); [eexists; reflexivity|].
  destruct (negb _); [eexists; reflexivity|].
  destruct (o_name o && _); [eexists; reflexivity|].
  apply level_equals_total.
Qed.
