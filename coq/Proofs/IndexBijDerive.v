(* C02 -- label computations of the derivations (selection, drop, roll) keep an index an index. *)
Require Import SF.Prelude SF.PySlice SF.IndexBij Proofs.IndexBijFacts.

Lemma nth_z_Some {A} (l : list A) p x : nth_z l p = Some x -> 0 <= p /\ nth_error l (Z.to_nat p) = Some x.
Proof. unfold nth_z. destruct (p <? 0) eqn:E; [discriminate|]. intros H. split; [lia | exact H]. Qed.

Section Derive.
  Set Default Proof Using "All".
  Variable C : Type.
  Variable ceqb : C -> C -> bool.
  Hypothesis ceqb_spec : forall x y, ceqb x y = true <-> x = y.

  (* ---- selection by positions ---- *)
  Lemma select_length (l : list C) ps l' : take_positions l ps = Some l' -> length l' = length ps.
  Proof.
    revert l'. induction ps as [|p ps IH]; intros l' H; cbn in H.
    - injection H as <-. reflexivity.
    - destruct (nth_z l p); [|discriminate]. destruct (take_positions l ps) as [r|]; [|discriminate].
      injection H as <-. cbn. f_equal. apply IH. reflexivity.
  Qed.

  Lemma select_nth (l : list C) ps l' : take_positions l ps = Some l' ->
    forall i p, nth_error ps i = Some p -> nth_error l' i = nth_z l p /\ 0 <= p < zlen l.
  Proof.
    revert l'. induction ps as [|p0 ps IH]; intros l' H i p Hi; [destruct i; discriminate|].
    cbn in H. destruct (nth_z l p0) as [x|] eqn:E0; [|discriminate].
    destruct (take_positions l ps) as [r|] eqn:Er; [|discriminate]. injection H as <-.
    destruct i as [|i]; cbn in Hi |- *.
    - injection Hi as <-. split; [symmetry; exact E0|]. apply nth_z_Some in E0. destruct E0 as [H0 Hn].
      assert (Z.to_nat p0 < length l)%nat by (apply nth_error_Some; congruence). unfold zlen. lia.
    - apply (IH r eq_refl i p Hi).
  Qed.

  (* selecting from an index gives an index exactly when no position is repeated *)
  Theorem select_NoDup (l : list C) ps l' : NoDup l -> take_positions l ps = Some l' ->
    (NoDup l' <-> NoDup ps).
  Proof.
    intros ND. revert l'. induction ps as [|p ps IH]; intros l' H; cbn in H.
    - injection H as <-. split; constructor.
    - destruct (nth_z l p) as [x|] eqn:Ex; [|discriminate].
      destruct (take_positions l ps) as [r|] eqn:Er; [|discriminate]. injection H as <-.
      specialize (IH r eq_refl). apply nth_z_Some in Ex. destruct Ex as [Hp Hx].
      assert (Key : In x r <-> In p ps).
      { split.
        - intros Hin. apply In_nth_error in Hin. destruct Hin as [i Hi].
          assert (Hlen : (i < length ps)%nat).
          { rewrite <- (select_length l ps r Er). apply nth_error_Some. congruence. }
          destruct (nth_error ps i) as [q|] eqn:Eq; [|apply nth_error_None in Eq; lia].
          destruct (select_nth l ps r Er i q Eq) as [Hq Rq]. rewrite Hi in Hq. symmetry in Hq.
          apply nth_z_Some in Hq. destruct Hq as [Hq0 Hq].
          assert (Z.to_nat p = Z.to_nat q).
          { eapply (proj1 (NoDup_nth_error l) ND); [apply nth_error_Some; congruence | congruence]. }
          assert (p = q) by lia. subst q. eapply nth_error_In. exact Eq.
        - intros Hin. apply In_nth_error in Hin. destruct Hin as [i Hi].
          destruct (select_nth l ps r Er i p Hi) as [Hq _]. unfold nth_z in Hq.
          destruct (p <? 0) eqn:E; [lia|]. rewrite Hx in Hq. eapply nth_error_In. exact Hq. }
      split; intros N; inversion N; subst; constructor; try tauto.
  Qed.

  (* ---- drop ---- *)
  Lemma drop_at_In (l : list C) ps : forall i x,
    In x (drop_at l ps i) <-> exists j, nth_error l j = Some x /\ ~ In (i + Z.of_nat j) ps.
  Proof.
    induction l as [|y l IH]; intros i x; cbn [drop_at].
    - split; [contradiction | intros ([|j] & H & _); discriminate].
    - destruct (existsb (Z.eqb i) ps) eqn:E.
      + rewrite IH. split.
        * intros (j & Hj & Hn). exists (S j). split; [exact Hj|]. intros Hin. apply Hn.
          replace (i + 1 + Z.of_nat j) with (i + Z.of_nat (S j)) by lia. exact Hin.
        * intros (j & Hj & Hn). destruct j as [|j].
          -- exfalso. apply Hn. apply existsb_exists in E. destruct E as (q & Hq & Eq).
             apply Z.eqb_eq in Eq. subst q. replace (i + Z.of_nat 0) with i by lia. exact Hq.
          -- exists j. split; [exact Hj|]. intros Hin. apply Hn.
             replace (i + Z.of_nat (S j)) with (i + 1 + Z.of_nat j) by lia. exact Hin.
      + cbn [In]. rewrite IH. split.
        * intros [<-|(j & Hj & Hn)].
          -- exists 0%nat. split; [reflexivity|]. intros Hin.
             assert (T : existsb (Z.eqb i) ps = true).
             { apply existsb_exists. exists i. split; [|apply Z.eqb_refl].
               replace (i + Z.of_nat 0) with i in Hin by lia. exact Hin. }
             congruence.
          -- exists (S j). split; [exact Hj|]. intros Hin. apply Hn.
             replace (i + 1 + Z.of_nat j) with (i + Z.of_nat (S j)) by lia. exact Hin.
        * intros (j & Hj & Hn). destruct j as [|j].
          -- left. cbn in Hj. congruence.
          -- right. exists j. split; [exact Hj|]. intros Hin. apply Hn.
             replace (i + Z.of_nat (S j)) with (i + 1 + Z.of_nat j) by lia. exact Hin.
  Qed.

  Lemma drop_at_NoDup (l : list C) ps : forall i, NoDup l -> NoDup (drop_at l ps i).
  Proof.
    induction l as [|y l IH]; intros i ND; cbn [drop_at]; [constructor|].
    inversion ND; subst. destruct (existsb (Z.eqb i) ps); [apply IH; assumption|].
    constructor; [|apply IH; assumption]. intros Hin. apply drop_at_In in Hin.
    destruct Hin as (j & Hj & _). apply H1. eapply nth_error_In. exact Hj.
  Qed.

  (* dropping positions from an index gives an index holding exactly the labels at the other positions *)
  Theorem drop_spec (l : list C) ps : NoDup l ->
    NoDup (S_drop l ps) /\
    forall x, In x (S_drop l ps) <-> exists j, nth_error l j = Some x /\ ~ In (Z.of_nat j) ps.
  Proof.
    intros ND. split; [apply drop_at_NoDup; exact ND|]. intros x. unfold S_drop. rewrite drop_at_In.
    split; intros (j & Hj & Hn); exists j; (split; [exact Hj|]); intros Hin; apply Hn;
      [replace (0 + Z.of_nat j) with (Z.of_nat j) by lia | replace (0 + Z.of_nat j) with (Z.of_nat j) in Hin by lia]; exact Hin.
  Qed.

  (* ---- roll ---- *)
  Theorem roll_perm (l : list C) shift : Permutation l (S_roll l shift) /\ length (S_roll l shift) = length l.
  Proof.
    unfold S_roll. destruct l as [|y l']; [split; [constructor | reflexivity]|].
    set (l := y :: l'). set (k := Z.to_nat ((zlen l - shift mod zlen l) mod zlen l)).
    split.
    - rewrite <- (firstn_skipn k l) at 1. apply Permutation_app_comm.
    - rewrite app_length, Nat.add_comm, <- app_length, firstn_skipn. reflexivity.
  Qed.

  Theorem roll_NoDup (l : list C) shift : NoDup l -> NoDup (S_roll l shift).
  Proof. intros ND. eapply Permutation_NoDup; [apply roll_perm | exact ND]. Qed.

End Derive.
