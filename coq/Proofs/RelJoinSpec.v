(* C20 -- the join specification S_join against the relational definition: membership
   characterisations, no duplicates, cardinalities. *)
Require Import SF.Prelude SF.RelJoin.

Section JoinSpec.
Context {L K A : Type}.
Variable keqb : K -> K -> bool.
Notation trow := (trow L K A).
Notation jrow := (jrow L K A).
Notation matches := (@matches L K A keqb).
Notation S_join := (@S_join L K A keqb).
Notation S_pairs := (@S_pairs L K A keqb).
Notation S_only_left := (@S_only_left L K A keqb).
Notation S_only_right := (@S_only_right L K A keqb).

Lemma in_S_pairs : forall Lt Rt (x : jrow),
  In x (S_pairs Lt Rt) <-> exists l r, x = JB l r /\ In l Lt /\ In r Rt /\ matches l r = true.
Proof.
  intros Lt Rt x. unfold RelJoin.S_pairs. rewrite in_flat_map. split.
  - intros (l & Hl & Hx). apply in_map_iff in Hx as (r & <- & Hr). apply filter_In in Hr as [Hr Hm].
    exists l, r. auto.
  - intros (l & r & -> & Hl & Hr & Hm). exists l. split; [assumption|].
    apply in_map. apply filter_In. auto.
Qed.

Lemma existsb_false_iff {X} (p : X -> bool) (l : list X) :
  existsb p l = false <-> forall x, In x l -> p x = false.
Proof.
  induction l as [|y r IH]; cbn.
  - split; [intros _ x []|reflexivity].
  - rewrite orb_false_iff, IH. split.
    + intros [H1 H2] x [<-|Hx]; auto.
    + intros H. split; [apply H; left; reflexivity|intros x Hx; apply H; right; assumption].
Qed.

Lemma in_S_only_left : forall Lt Rt (x : jrow),
  In x (S_only_left Lt Rt) <-> exists l, x = JL l /\ In l Lt /\ forall r, In r Rt -> matches l r = false.
Proof.
  intros Lt Rt x. unfold RelJoin.S_only_left. rewrite in_map_iff. split.
  - intros (l & <- & Hl). apply filter_In in Hl as [Hl Hn]. exists l. repeat split; [assumption|].
    apply negb_true_iff in Hn. apply existsb_false_iff. exact Hn.
  - intros (l & -> & Hl & Hn). exists l. split; [reflexivity|]. apply filter_In. split; [assumption|].
    apply negb_true_iff. apply existsb_false_iff. exact Hn.
Qed.

Lemma in_S_only_right : forall Lt Rt (x : jrow),
  In x (S_only_right Lt Rt) <-> exists r, x = JR r /\ In r Rt /\ forall l, In l Lt -> matches l r = false.
Proof.
  intros Lt Rt x. unfold RelJoin.S_only_right. rewrite in_map_iff. split.
  - intros (r & <- & Hr). apply filter_In in Hr as [Hr Hn]. exists r. repeat split; [assumption|].
    apply negb_true_iff in Hn. rewrite existsb_false_iff in Hn. exact Hn.
  - intros (r & -> & Hr & Hn). exists r. split; [reflexivity|]. apply filter_In. split; [assumption|].
    apply negb_true_iff. apply existsb_false_iff. exact Hn.
Qed.

(* join_rows: the result holds exactly the matching row pairs ... *)
Theorem join_rows_pairs : forall jt Lt Rt (l r : trow),
  In (JB l r) (S_join jt Lt Rt) <-> In l Lt /\ In r Rt /\ matches l r = true.
Proof.
  intros jt Lt Rt l r. unfold RelJoin.S_join. rewrite !in_app_iff. split.
  - intros [H|[H|H]].
    + apply in_S_pairs in H as (l' & r' & E & H). injection E as -> ->. exact H.
    + destruct (keeps_left jt); [|destruct H]. apply in_S_only_left in H as (l' & E & _). discriminate.
    + destruct (keeps_right jt); [|destruct H]. apply in_S_only_right in H as (r' & E & _). discriminate.
  - intros H. left. apply in_S_pairs. exists l, r. split; [reflexivity|exact H].
Qed.

(* ... plus the unmatched rows of the preserved side(s), and nothing else *)
Theorem join_rows_left : forall jt Lt Rt (l : trow),
  In (JL l) (S_join jt Lt Rt) <->
  keeps_left jt = true /\ In l Lt /\ forall r, In r Rt -> matches l r = false.
Proof.
  intros jt Lt Rt l. unfold RelJoin.S_join. rewrite !in_app_iff. split.
  - intros [H|[H|H]].
    + apply in_S_pairs in H as (l' & r' & E & _). discriminate.
    + destruct (keeps_left jt); [|destruct H]. apply in_S_only_left in H as (l' & E & H). injection E as ->. auto.
    + destruct (keeps_right jt); [|destruct H]. apply in_S_only_right in H as (r' & E & _). discriminate.
  - intros (Hk & H). right. left. rewrite Hk. apply in_S_only_left. exists l. auto.
Qed.

Theorem join_rows_right : forall jt Lt Rt (r : trow),
  In (JR r) (S_join jt Lt Rt) <->
  keeps_right jt = true /\ In r Rt /\ forall l, In l Lt -> matches l r = false.
Proof.
  intros jt Lt Rt r. unfold RelJoin.S_join. rewrite !in_app_iff. split.
  - intros [H|[H|H]].
    + apply in_S_pairs in H as (l' & r' & E & _). discriminate.
    + destruct (keeps_left jt); [|destruct H]. apply in_S_only_left in H as (l' & E & _). discriminate.
    + destruct (keeps_right jt); [|destruct H]. apply in_S_only_right in H as (r' & E & H). injection E as ->. auto.
  - intros (Hk & H). right. right. rewrite Hk. apply in_S_only_right. exists r. auto.
Qed.

(* each pair / unmatched row exactly once when the source rows are distinct (unique labels) *)
Lemma NoDup_filter {X} (p : X -> bool) (l : list X) : NoDup l -> NoDup (filter p l).
Proof.
  induction 1 as [|x l Hx Hl IH]; cbn; [constructor|].
  destruct (p x); [constructor; [rewrite filter_In; tauto|assumption]|assumption].
Qed.

Lemma NoDup_map_inj {X Y} (f : X -> Y) (l : list X) :
  (forall a b, f a = f b -> a = b) -> NoDup l -> NoDup (map f l).
Proof.
  intros Hf. induction 1 as [|x l Hx Hl IH]; cbn; constructor; [|assumption].
  rewrite in_map_iff. intros (y & E & Hy). apply Hf in E. subst. contradiction.
Qed.

Lemma NoDup_app {X} (a b : list X) :
  NoDup a -> NoDup b -> (forall x, In x a -> In x b -> False) -> NoDup (a ++ b).
Proof.
  induction 1 as [|x a Hx Ha IH]; cbn; intros Hb Hd; [assumption|].
  constructor.
  - rewrite in_app_iff. intros [H|H]; [contradiction|]. apply (Hd x); [left; reflexivity|assumption].
  - apply IH; [assumption|]. intros y Hy. apply Hd. right. assumption.
Qed.

Lemma NoDup_S_pairs : forall Lt Rt, NoDup Lt -> NoDup Rt -> NoDup (S_pairs Lt Rt).
Proof.
  intros Lt Rt HL HR. unfold RelJoin.S_pairs. induction HL as [|l Lt Hl HL IH]; cbn; [constructor|].
  apply NoDup_app.
  - apply NoDup_map_inj; [intros a b E; injection E; auto|]. apply NoDup_filter. assumption.
  - exact IH.
  - intros x H1 H2. apply in_map_iff in H1 as (r & <- & _).
    apply in_flat_map in H2 as (l' & Hl' & H2). apply in_map_iff in H2 as (r' & E & _).
    injection E as -> _. contradiction.
Qed.

Theorem join_rows_nodup : forall jt Lt Rt, NoDup Lt -> NoDup Rt -> NoDup (S_join jt Lt Rt).
Proof.
  intros jt Lt Rt HL HR. unfold RelJoin.S_join.
  assert (H1 : NoDup (S_only_left Lt Rt)).
  { apply NoDup_map_inj; [intros a b E; injection E; auto|]. apply NoDup_filter. assumption. }
  assert (H2 : NoDup (S_only_right Lt Rt)).
  { apply NoDup_map_inj; [intros a b E; injection E; auto|]. apply NoDup_filter. assumption. }
  apply NoDup_app; [apply NoDup_S_pairs; assumption| |].
  - apply NoDup_app.
    + destruct (keeps_left jt); [assumption|constructor].
    + destruct (keeps_right jt); [assumption|constructor].
    + intros x Ha Hb. destruct (keeps_left jt); [|destruct Ha]. destruct (keeps_right jt); [|destruct Hb].
      apply in_S_only_left in Ha as (l & -> & _). apply in_S_only_right in Hb as (r & E & _). discriminate.
  - intros x Ha Hb. apply in_S_pairs in Ha as (l & r & -> & _). apply in_app_iff in Hb as [Hb|Hb].
    + destruct (keeps_left jt); [|destruct Hb]. apply in_S_only_left in Hb as (l' & E & _). discriminate.
    + destruct (keeps_right jt); [|destruct Hb]. apply in_S_only_right in Hb as (r' & E & _). discriminate.
Qed.

(* cardinality: one output row per matching pair; one-to-one, one-to-many and many-to-many alike *)
Theorem join_pairs_count : forall Lt Rt,
  length (S_pairs Lt Rt) = fold_right (fun l n => (length (filter (matches l) Rt) + n)%nat) 0%nat Lt.
Proof.
  intros Lt Rt. unfold RelJoin.S_pairs. induction Lt as [|l Lt IH]; cbn; [reflexivity|].
  rewrite app_length, map_length, IH. reflexivity.
Qed.

(* every output row carries exactly the cells of its source rows and the fill value elsewhere *)
Theorem join_values_carried : forall (fill : A) lw rw (x : jrow),
  (forall l r, x = JB l r -> jcells fill lw rw x = cells l ++ cells r) /\
  (forall l, x = JL l -> firstn (length (cells l)) (jcells fill lw rw x) = cells l /\
                         Forall (eq fill) (skipn (length (cells l)) (jcells fill lw rw x))) /\
  (forall r, x = JR r -> skipn lw (jcells fill lw rw x) = cells r /\
                         Forall (eq fill) (firstn lw (jcells fill lw rw x))).
Proof.
  intros fill lw rw x. repeat split; intros; subst; cbn.
  - reflexivity.
  - rewrite firstn_app, Nat.sub_diag, firstn_all. cbn. apply app_nil_r.
  - rewrite skipn_app, Nat.sub_diag, skipn_all. cbn.
    clear. induction rw; cbn; constructor; auto.
  - rewrite skipn_app, repeat_length, Nat.sub_diag. rewrite skipn_all2 by (rewrite repeat_length; lia). reflexivity.
  - rewrite firstn_app, repeat_length, Nat.sub_diag. cbn. rewrite app_nil_r.
    rewrite firstn_all2 by (rewrite repeat_length; lia). clear. induction lw; cbn; constructor; auto.
Qed.

End JoinSpec.
