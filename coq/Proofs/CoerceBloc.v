(* Element assignment by Boolean targets: the block-by-block algorithm equals the per-column specification exactly
   when no block mixes targeted and untargeted columns. *)
Require Import SF.Prelude SF.Dtype SF.Coerce Proofs.CoerceHolds Proofs.CoercePlans.
Local Open Scope Z_scope.

Lemma S_bloc_app c1 c2 h vd : 
  S_bloc (c1 ++ c2) h vd = S_bloc c1 (firstn (length c1) h) vd ++ S_bloc c2 (skipn (length c1) h) vd
  \/ (length h < length c1)%nat.
Proof.
  revert h. induction c1 as [|d c1 IH]; intros h; cbn.
  - left. reflexivity.
  - destruct h as [|b h]; cbn; [right; lia|].
    destruct (IH h) as [E|L]; [left; rewrite E; reflexivity|right; lia].
Qed.

Lemma S_bloc_repeat_all d w h vd :
  length h = w -> forallb (fun b => b) h = true -> S_bloc (repeat d w) h vd = repeat (resolve vd d) w.
Proof.
  revert h. induction w as [|w IH]; intros [|b h] L A; cbn in *; try discriminate; try reflexivity.
  apply andb_true_iff in A as [-> A]. rewrite IH; auto.
Qed.

Lemma S_bloc_repeat_none d w h vd :
  length h = w -> existsb (fun b => b) h = false -> S_bloc (repeat d w) h vd = repeat d w.
Proof.
  revert h. induction w as [|w IH]; intros [|b h] L A; cbn in *; try discriminate; try reflexivity.
  apply orb_false_iff in A as [-> A]. rewrite IH; auto.
Qed.

Lemma S_bloc_repeat_fix d w h vd :
  length h = w -> resolve vd d = d -> S_bloc (repeat d w) h vd = repeat d w.
Proof.
  revert h. induction w as [|w IH]; intros [|b h] L A; cbn in *; try discriminate; try reflexivity.
  rewrite IH; auto. destruct b; rewrite ?A; reflexivity.
Qed.

Theorem bloc_refines blocks : forall hits vd,
  length hits = total_width blocks -> bloc_uniform blocks hits vd = true ->
  M_bloc blocks hits vd = S_bloc (expand_blocks blocks) hits vd.
Proof.
  induction blocks as [|[d w] rest IH]; intros hits vd L U; [reflexivity|].
  cbn [M_bloc expand_blocks flat_map fst snd bloc_uniform total_width fold_right] in *.
  apply andb_true_iff in U as [U1 U2].
  fold (expand_blocks rest). fold (total_width rest) in L.
  destruct (S_bloc_app (repeat d w) (expand_blocks rest) hits vd) as [E|Lt];
    [|rewrite repeat_length in Lt; lia].
  rewrite E, repeat_length.
  assert (Lh : length (firstn w hits) = w) by (rewrite firstn_length; lia).
  assert (Ls : length (skipn w hits) = total_width rest) by (rewrite skipn_length; lia).
  rewrite <- (IH (skipn w hits) vd Ls U2). f_equal.
  destruct (existsb (fun b => b) (firstn w hits)) eqn:Ex.
  - apply orb_true_iff in U1 as [U1|U1]; [apply orb_true_iff in U1 as [U1|U1]|].
    + symmetry. apply S_bloc_repeat_all; assumption.
    + discriminate.
    + apply dtype_eqb_eq in U1. rewrite U1. symmetry. apply S_bloc_repeat_fix; assumption.
  - symmetry. apply S_bloc_repeat_none; assumption.
Qed.
