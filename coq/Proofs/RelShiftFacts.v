(* C20 -- set_index / unset_index / relabel_shift_in / relabel_shift_out move whole named columns
   between the index depths and the data: nothing is lost, nothing is invented, and going in and
   back out restores the index and returns every column with its cells in their rows. *)
Require Import SF.Prelude SF.RelStack SF.RelShift Proofs.RelListFacts.

Section ShiftFacts.
Context {N A : Type}.
Variable neqb : N -> N -> bool.
Variable aeqb : A -> A -> bool.
Variable auto_level : nat -> N * list A.
Hypothesis neqb_spec : forall a b, neqb a b = true <-> a = b.

Notation ncol := (N * list A)%type.
Notation lframe := (lframe N A).

Lemma neqb_refl : forall a, neqb a a = true.
Proof. intros. apply neqb_spec. reflexivity. Qed.

(* ---- selection by label ---- *)
Lemma find_col_ok : forall k (cols : list ncol) c, find_col neqb k cols = Ok c -> In c cols /\ fst c = k.
Proof.
  intros k cols c H. unfold find_col in H.
  destruct (find (fun c0 : ncol => neqb k (fst c0)) cols) as [c'|] eqn:E; [|discriminate].
  injection H as <-. apply find_some in E as [Hin Hk]. apply neqb_spec in Hk. auto.
Qed.

Lemma select_ok : forall keys (cols sel : list ncol), select neqb keys cols = Ok sel ->
  map fst sel = keys /\ (forall c, In c sel -> In c cols).
Proof.
  induction keys as [|k keys IH]; intros cols sel H; unfold select in *; cbn in H.
  - injection H as <-. split; [reflexivity|intros c []].
  - destruct (find_col neqb k cols) as [c|e] eqn:Ec; [|discriminate].
    destruct (res_all (map (fun k0 => find_col neqb k0 cols) keys)) as [rest|e] eqn:Er; [|discriminate].
    injection H as <-. destruct (IH cols rest Er) as [H1 H2]. apply find_col_ok in Ec as [Hc1 Hc2].
    split; [cbn; congruence|]. intros c' [<-|Hc']; auto.
Qed.

Lemma in_keys_spec : forall keys (c : ncol), in_keys neqb keys c = true <-> In (fst c) keys.
Proof.
  intros keys c. unfold in_keys. rewrite existsb_exists. split.
  - intros (k & Hk & E). apply neqb_spec in E. subst. assumption.
  - intros H. exists (fst c). split; [assumption|apply neqb_refl].
Qed.

Lemma NoDup_map_fst_inj : forall (cols : list ncol) a b,
  NoDup (map fst cols) -> In a cols -> In b cols -> fst a = fst b -> a = b.
Proof.
  induction cols as [|x cols IH]; cbn; intros a b H Ha Hb E; [destruct Ha|].
  inversion H as [|? ? Hx Hl]; subst.
  destruct Ha as [->|Ha], Hb as [->|Hb]; try reflexivity.
  - exfalso. apply Hx. rewrite E. apply in_map. assumption.
  - exfalso. apply Hx. rewrite <- E. apply in_map. assumption.
  - apply IH; assumption.
Qed.

Lemma NoDup_map_filter' {X Y} (f : X -> Y) (p : X -> bool) (l : list X) :
  NoDup (map f l) -> NoDup (map f (filter p l)).
Proof.
  induction l as [|y ys IH]; cbn; intros H; [constructor|]. inversion H as [|? ? H1 H2]; subst.
  destruct (p y); cbn; [constructor|]; auto.
  rewrite in_map_iff. intros (z & Ez & Hz). apply filter_In in Hz as [Hz _].
  apply H1. rewrite <- Ez. apply in_map. assumption.
Qed.

Lemma filter_all_false {X} (p : X -> bool) (l : list X) : (forall x, In x l -> p x = false) -> filter p l = [].
Proof.
  induction l as [|x l IH]; cbn; intros H; [reflexivity|].
  rewrite (H x) by (left; reflexivity). apply IH. intros y Hy. apply H. right. assumption.
Qed.

(* the selected columns and the remaining ones are, together, exactly the columns *)
Theorem select_remaining_perm : forall keys (cols sel : list ncol),
  NoDup keys -> NoDup (map fst cols) -> select neqb keys cols = Ok sel ->
  Permutation (sel ++ remaining neqb keys cols) cols.
Proof.
  intros keys cols sel Hk Hc Hs. destruct (select_ok keys cols sel Hs) as [Hn Hin].
  assert (NDc : NoDup cols) by (eapply NoDup_map_inv; eassumption).
  apply NoDup_Permutation.
  - (* NoDup (sel ++ remaining) *)
    apply (NoDup_map_inv fst). rewrite map_app, Hn. apply NoDup_app2; [assumption| |].
    + unfold remaining. apply NoDup_map_filter'. assumption.
    + intros x Hx H. apply in_map_iff in H as (c & E & H). apply filter_In in H as [_ H].
      apply negb_true_iff in H. assert (in_keys neqb keys c = true) by (apply in_keys_spec; congruence). congruence.
  - assumption.
  - intros c. rewrite in_app_iff. split.
    + intros [H|H]; [apply Hin; assumption|]. apply filter_In in H. tauto.
    + intros H. destruct (in_keys neqb keys c) eqn:E.
      * left. apply in_keys_spec in E. rewrite <- Hn in E. apply in_map_iff in E as (c' & E' & Hc').
        assert (c' = c) by (apply (NoDup_map_fst_inj cols); auto). subst. assumption.
      * right. apply filter_In. split; [assumption|]. rewrite E. reflexivity.
Qed.

(* ---- selection of depths by position ---- *)
Lemma select_pos_app : forall (b a : list ncol), select_pos (seq (length a) (length b)) (a ++ b) = Ok b.
Proof.
  induction b as [|x b IH]; intros a; cbn; [reflexivity|].
  rewrite nth_error_app2 by lia. rewrite Nat.sub_diag. cbn.
  specialize (IH (a ++ [x])). rewrite app_length in IH. cbn in IH. rewrite Nat.add_1_r in IH.
  rewrite <- app_assoc in IH. cbn in IH. rewrite IH. reflexivity.
Qed.

Lemma in_combine_seq {X} : forall (l : list X) s i x, In (i, x) (combine (seq s (length l)) l) -> (s <= i < s + length l)%nat.
Proof.
  induction l as [|y l IH]; intros s i x H; cbn in *; [destruct H|].
  destruct H as [H|H]; [injection H as <- _; lia|]. apply IH in H. lia.
Qed.

Lemma map_snd_combine_seq {X} : forall (l : list X) s, map snd (combine (seq s (length l)) l) = l.
Proof. induction l as [|y l IH]; intros s; cbn; [reflexivity|]. rewrite IH. reflexivity. Qed.

Lemma combine_seq_app {X} : forall (a b : list X) s,
  combine (seq s (length (a ++ b))) (a ++ b) = combine (seq s (length a)) a ++ combine (seq (s + length a) (length b)) b.
Proof.
  induction a as [|x a IH]; intros b s; cbn.
  - rewrite Nat.add_0_r. reflexivity.
  - rewrite IH. rewrite Nat.add_succ_r. reflexivity.
Qed.

Lemma remaining_pos_app : forall (a b : list ncol), remaining_pos (seq (length a) (length b)) (a ++ b) = a.
Proof.
  intros a b. unfold remaining_pos. rewrite combine_seq_app, filter_app, map_app. cbn [plus].
  rewrite filter_all_true.
  - rewrite filter_all_false; [cbn; rewrite app_nil_r; apply map_snd_combine_seq|].
    intros [i x] Hin. cbn. apply in_combine_seq in Hin. apply negb_false_iff. apply existsb_exists.
    exists i. split; [apply in_seq; lia|apply Nat.eqb_refl].
  - intros [i x] Hin. cbn. apply in_combine_seq in Hin. apply negb_true_iff.
    destruct (existsb (Nat.eqb i) (seq (length a) (length b))) eqn:E; [|reflexivity].
    apply existsb_exists in E as (p & Hp & E). apply Nat.eqb_eq in E. subst. apply in_seq in Hp. lia.
Qed.


Lemma match_nonempty {X Y} (l : list X) (a b : Y) : l <> [] -> match l with [] => a | _ :: _ => b end = b.
Proof. destruct l; [contradiction|reflexivity]. Qed.

Lemma nodupb'_true : forall l : list N, NoDup l -> nodupb' neqb l = true.
Proof.
  induction 1 as [|x l Hx Hl IH]; cbn; [reflexivity|]. rewrite IH, andb_true_r.
  apply negb_true_iff. destruct (existsb (neqb x) l) eqn:E; [|reflexivity].
  apply existsb_exists in E as (y & Hy & E). apply neqb_spec in E. subst. contradiction.
Qed.

Lemma names_after_select : forall keys (cols sel : list ncol),
  NoDup keys -> NoDup (map fst cols) -> select neqb keys cols = Ok sel ->
  NoDup (map fst (sel ++ remaining neqb keys cols)).
Proof.
  intros keys cols sel Hk Hc Hs.
  eapply Permutation_NoDup; [|exact Hc]. apply Permutation_sym. apply Permutation_map.
  apply select_remaining_perm; assumption.
Qed.

(* relabel_shift_in: the index gains exactly the selected columns (in key order), the data keeps the
   others; together they are the columns the frame had *)
Theorem shift_in_preserves : forall d keys (t t' : lframe),
  NoDup keys -> NoDup (map fst (lf_cols t)) ->
  M_shift_in neqb aeqb d keys t = Ok t' ->
  exists sel, lf_levels t' = lf_levels t ++ sel /\ map fst sel = keys /\
              Permutation (sel ++ lf_cols t') (lf_cols t) /\ lf_rows t' = lf_rows t.
Proof.
  intros d keys t t' Hk Hc H. unfold M_shift_in in H.
  destruct (select neqb keys (lf_cols t)) as [sel|e] eqn:Es; cbn in H; [|discriminate].
  destruct (check_index aeqb (lf_rows t) d (lf_levels t ++ sel)) as [u|e]; cbn in H; [|discriminate].
  injection H as <-. exists sel. cbn. repeat split.
  - apply (select_ok keys _ _ Es).
  - apply select_remaining_perm; assumption.
Qed.

(* shift_in_out_roundtrip: shifting the new depths back out restores the index and returns every
   column, with its cells in their rows, to the data (the moved columns now come first) *)
Theorem shift_in_out_roundtrip : forall d keys (t t1 : lframe),
  NoDup keys -> keys <> [] -> NoDup (map fst (lf_cols t)) ->
  lf_levels t <> [] -> index_okb aeqb (lf_rows t) d (lf_levels t) = true ->
  M_shift_in neqb aeqb d keys t = Ok t1 ->
  exists t2, M_shift_out neqb aeqb auto_level d (seq (length (lf_levels t)) (length keys)) t1 = Ok t2 /\
             lf_levels t2 = lf_levels t /\ Permutation (lf_cols t2) (lf_cols t) /\ lf_rows t2 = lf_rows t.
Proof.
  intros d keys t t1 Hk Hne Hc Hl Hok H. unfold M_shift_in in H.
  destruct (select neqb keys (lf_cols t)) as [sel|e] eqn:Es; cbn in H; [|discriminate].
  destruct (check_index aeqb (lf_rows t) d (lf_levels t ++ sel)) as [u|e]; cbn in H; [|discriminate].
  injection H as <-.
  destruct (select_ok keys _ _ Es) as [Hn _].
  assert (Hlen : length sel = length keys) by (rewrite <- Hn, map_length; reflexivity).
  unfold M_shift_out. cbn [lf_levels lf_rows lf_cols].
  assert (Hd1 : (length (lf_levels t ++ sel) =? 1)%nat = false).
  { apply Nat.eqb_neq. rewrite app_length. destruct (lf_levels t); [contradiction|].
    destruct sel; [destruct keys; [contradiction|discriminate]|]. cbn. lia. }
  rewrite Hd1. cbn [andb]. rewrite <- Hlen.
  rewrite select_pos_app. cbn [res_bind]. rewrite remaining_pos_app.
  rewrite (match_nonempty (lf_levels t) (Ok tt) (check_index aeqb (lf_rows t) d (lf_levels t)) Hl).
  assert (Hci : check_index aeqb (lf_rows t) d (lf_levels t) = Ok tt) by (unfold check_index; rewrite Hok; reflexivity).
  rewrite Hci. cbn [res_bind].
  unfold check_names. rewrite nodupb'_true by (apply names_after_select; assumption). cbn [res_bind].
  eexists. split; [reflexivity|]. cbn [lf_levels lf_cols lf_rows]. repeat split.
  - unfold auto_if_empty. apply (match_nonempty (lf_levels t) [auto_level (lf_rows t)] (lf_levels t) Hl).
  - apply select_remaining_perm; assumption.
Qed.

(* set_unset_roundtrip: set_index / set_index_hierarchy with drop, then unset_index *)
Theorem set_unset_roundtrip : forall d keys (t t1 : lframe),
  NoDup keys -> NoDup (map fst (lf_cols t)) ->
  M_set_index neqb aeqb d keys true t = Ok t1 ->
  exists t2, M_unset_index neqb auto_level [] t1 = Ok t2 /\
             lf_levels t2 = [auto_level (lf_rows t)] /\ Permutation (lf_cols t2) (lf_cols t) /\
             map fst (lf_levels t1) = keys.
Proof.
  intros d keys t t1 Hk Hc H. unfold M_set_index in H.
  destruct (select neqb keys (lf_cols t)) as [sel|e] eqn:Es; cbn in H; [|discriminate].
  destruct (check_index aeqb (lf_rows t) d sel) as [u|e]; cbn in H; [|discriminate].
  injection H as <-. unfold M_unset_index. cbn [lf_levels lf_rows lf_cols rename].
  unfold check_names. rewrite nodupb'_true by (apply names_after_select; assumption). cbn [res_bind].
  eexists. split; [reflexivity|]. cbn. repeat split.
  - apply select_remaining_perm; assumption.
  - apply (select_ok keys _ _ Es).
Qed.

(* without drop the data is untouched and every index depth is one of its columns *)
Theorem set_index_keeps_data : forall d keys (t t1 : lframe),
  M_set_index neqb aeqb d keys false t = Ok t1 ->
  lf_cols t1 = lf_cols t /\ (forall lv, In lv (lf_levels t1) -> In lv (lf_cols t)) /\ map fst (lf_levels t1) = keys.
Proof.
  intros d keys t t1 H. unfold M_set_index in H.
  destruct (select neqb keys (lf_cols t)) as [sel|e] eqn:Es; cbn in H; [|discriminate].
  destruct (check_index aeqb (lf_rows t) d sel) as [u|e]; cbn in H; [|discriminate].
  injection H as <-. cbn. destruct (select_ok keys _ _ Es) as [H1 H2]. auto.
Qed.

End ShiftFacts.
