(* C14 -- the 1-D directional fill kernel (util.binary_transition + util.slices_from_targets + slice assignment,
   as run by Series._fillna_directional and per column by TypeBlocks._fillna_directional_axis_0) equals S_ffill / S_bfill. *)
Require Import SF.Prelude SF.Value SF.Missing Proofs.MissingSpec.

(* ------------------------------------------------------------------ lengths *)
Lemma zlen_nil {X} : zlen (@nil X) = 0.
Proof. reflexivity. Qed.
Lemma zlen_cons {X} (a : X) l : zlen (a :: l) = 1 + zlen l.
Proof. unfold zlen. cbn [length]. lia. Qed.
Lemma zlen_app {X} (l1 l2 : list X) : zlen (l1 ++ l2) = zlen l1 + zlen l2.
Proof. unfold zlen. rewrite app_length. lia. Qed.
Lemma zlen_repeat {X} (a : X) k : zlen (repeat a k) = Z.of_nat k.
Proof. unfold zlen. rewrite repeat_length. reflexivity. Qed.
Lemma zlen_nones {A} k : zlen (@nones A k) = Z.of_nat k.
Proof. apply zlen_repeat. Qed.
Lemma zlen_map {X Y} (f : X -> Y) l : zlen (map f l) = zlen l.
Proof. unfold zlen. rewrite map_length. reflexivity. Qed.
Lemma zlen_nonneg {X} (l : list X) : 0 <= zlen l.
Proof. unfold zlen. lia. Qed.
Lemma zlen_group {A} (g : A * nat) : zlen (group g) = 1 + Z.of_nat (snd g).
Proof. unfold group. rewrite zlen_cons, zlen_nones. reflexivity. Qed.

Ltac zl := repeat (progress (rewrite ?zlen_app, ?zlen_cons, ?zlen_nones, ?zlen_repeat, ?zlen_map, ?zlen_group, ?zlen_nil in * )).

(* ------------------------------------------------------------------ znth *)
Lemma znth_app_r {X} (d : X) l1 l2 i : zlen l1 <= i -> znth d (l1 ++ l2) i = znth d l2 (i - zlen l1).
Proof.
  intros H. pose proof (zlen_nonneg l1). unfold znth.
  destruct (i <? 0) eqn:E1; [lia|]. destruct (i - zlen l1 <? 0) eqn:E2; [lia|].
  rewrite app_nth2 by (unfold zlen in *; lia). f_equal. unfold zlen. lia.
Qed.

Lemma znth_0 {X} (d : X) a l : znth d (a :: l) 0 = a.
Proof. reflexivity. Qed.

Lemma znth_succ {X} (d : X) a l i : 0 <= i -> znth d (a :: l) (i + 1) = znth d l i.
Proof.
  intros H. unfold znth. destruct (i + 1 <? 0) eqn:E1; [lia|]. destruct (i <? 0) eqn:E2; [lia|].
  replace (Z.to_nat (i + 1)) with (S (Z.to_nat i)) by lia. reflexivity.
Qed.

(* ------------------------------------------------------------------ slice assignment *)
Lemma assign_go_app {X} (l1 : list X) : forall l2 off a b v,
  assign_go off a b v (l1 ++ l2) = assign_go off a b v l1 ++ assign_go (off + zlen l1) a b v l2.
Proof.
  induction l1 as [|c t IH]; intros l2 off a b v; cbn [app assign_go].
  - rewrite zlen_nil. f_equal. lia.
  - rewrite IH, zlen_cons. do 3 f_equal. lia.
Qed.

Lemma assign_go_length {X} (l : list X) : forall off a b v, length (assign_go off a b v l) = length l.
Proof. induction l as [|c t IH]; intros; cbn; [reflexivity|]. rewrite IH. reflexivity. Qed.

(* cells entirely before the slice, or at/after its stop, are untouched *)
Lemma assign_go_before {X} (l : list X) : forall off a b v, off + zlen l <= a -> assign_go off a b v l = l.
Proof.
  induction l as [|c t IH]; intros off a b v H; cbn [assign_go]; [reflexivity|].
  rewrite zlen_cons in H. pose proof (zlen_nonneg t).
  replace ((a <=? off) && (off <? b)) with false by lia. rewrite IH by lia. reflexivity.
Qed.

Lemma assign_go_after {X} (l : list X) : forall off a b v, b <= off -> assign_go off a b v l = l.
Proof.
  induction l as [|c t IH]; intros off a b v H; cbn [assign_go]; [reflexivity|].
  replace ((a <=? off) && (off <? b)) with false by lia. rewrite IH by lia. reflexivity.
Qed.

(* a slice that starts at (or before) the first cell and covers m cells of k equal cells *)
Lemma assign_go_repeat {X} (c v : X) k : forall off a m, a <= off -> (m <= k)%nat ->
  assign_go off a (off + Z.of_nat m) v (repeat c k) = repeat v m ++ repeat c (k - m).
Proof.
  induction k as [|k IH]; intros off a m Ha Hm.
  - replace m with 0%nat by lia. reflexivity.
  - cbn [repeat assign_go]. destruct m as [|m].
    + replace ((a <=? off) && (off <? off + Z.of_nat 0)) with false by lia.
      rewrite assign_go_after by lia. reflexivity.
    + replace ((a <=? off) && (off <? off + Z.of_nat (S m))) with true by lia.
      replace (off + Z.of_nat (S m)) with ((off + 1) + Z.of_nat m) by lia.
      rewrite IH by lia. reflexivity.
Qed.

Lemma apply_slices_app {X} (s1 s2 : list (Z * Z * X)) l :
  apply_slices (s1 ++ s2) l = apply_slices s2 (apply_slices s1 l).
Proof. unfold apply_slices. apply fold_left_app. Qed.

Lemma apply_slices_length {X} (sl : list (Z * Z * X)) : forall l, length (apply_slices sl l) = length l.
Proof.
  induction sl as [|s t IH]; intros l; [reflexivity|].
  change (apply_slices (s :: t) l) with (apply_slices t (assign_slice (fst (fst s)) (snd (fst s)) (snd s) l)).
  rewrite IH. apply assign_go_length.
Qed.

(* ------------------------------------------------------------------ binary_transition over runs and groups *)
Lemma bt_go_trues k : forall prev off r,
  bt_go prev off (repeat true k ++ r) = bt_go (if (0 <? Z.of_nat k) then true else prev) (off + Z.of_nat k) r.
Proof.
  induction k as [|k IH]; intros prev off r.
  - cbn [repeat app]. replace (0 <? Z.of_nat 0) with false by lia. f_equal. lia.
  - cbn [repeat app bt_go negb andb app]. rewrite IH.
    replace (0 <? Z.of_nat (S k)) with true by lia.
    destruct (0 <? Z.of_nat k); f_equal; lia.
Qed.

Section Kernel.
Context {A : Type}.
Implicit Types (l pre : list (option A)) (gs : list (A * nat)).

Definition sel_of l : list bool := map is_missing l.

Lemma sel_nones k : sel_of (@nones A k) = repeat true k.
Proof. unfold sel_of, nones. induction k; cbn; congruence. Qed.

Lemma sel_app l1 l2 : sel_of (l1 ++ l2) = sel_of l1 ++ sel_of l2.
Proof. apply map_app. Qed.

Lemma hd_sel_flat gs : hd false (sel_of (flat gs)) = false.
Proof. destruct gs as [|[x k] gs]; reflexivity. Qed.

(* the transitions of a list of groups: the present cell of a group is a transition iff a missing cell precedes or follows it *)
Fixpoint Tg (prev : bool) (off : Z) gs : list Z :=
  match gs with
  | [] => []
  | g :: gs' =>
      (if prev || (0 <? Z.of_nat (snd g)) then [off] else [])
      ++ Tg (0 <? Z.of_nat (snd g)) (off + 1 + Z.of_nat (snd g)) gs'
  end.

Lemma bt_flat gs : forall prev off, bt_go prev off (sel_of (flat gs)) = Tg prev off gs.
Proof.
  induction gs as [|[x k] gs IH]; intros prev off; [reflexivity|].
  cbn [flat flat_map Tg snd]. fold (flat gs). unfold group. cbn [fst snd].
  change (sel_of ((Some x :: nones k) ++ flat gs)) with (false :: sel_of (nones k ++ flat gs)).
  rewrite sel_app, sel_nones. cbn [bt_go negb andb].
  rewrite bt_go_trues, IH.
  assert (Hn : match repeat true k ++ sel_of (flat gs) with b' :: _ => b' | [] => false end = (0 <? Z.of_nat k)).
  { destruct k as [|k]; cbn [repeat app].
    - pose proof (hd_sel_flat gs) as H. destruct (sel_of (flat gs)); cbn in *; [reflexivity|assumption].
    - lia. }
  rewrite Hn. destruct (0 <? Z.of_nat k) eqn:E; reflexivity.
Qed.

Lemma zlen_sel l : zlen (sel_of l) = zlen l.
Proof. apply zlen_map. Qed.

Lemma znth_sel_after pre l i : 0 <= i -> znth false (sel_of (pre ++ l)) (zlen pre + i) = znth false (sel_of l) i.
Proof.
  intros Hi. rewrite sel_app, znth_app_r by (rewrite zlen_sel; lia). rewrite zlen_sel. f_equal. lia.
Qed.

Lemma znth_sel_at pre l : znth false (sel_of (pre ++ l)) (zlen pre) = znth false (sel_of l) 0.
Proof. rewrite <- (znth_sel_after pre l 0) by lia. f_equal. lia. Qed.

Lemma znth_after {X} (d : X) (xs ys : list X) i : 0 <= i -> znth d (xs ++ ys) (zlen xs + i) = znth d ys i.
Proof. intros Hi. rewrite znth_app_r by lia. f_equal. lia. Qed.

Lemma znth_at {X} (d : X) (xs : list X) a ys : znth d (xs ++ a :: ys) (zlen xs) = a.
Proof. rewrite znth_app_r by lia. replace (zlen xs - zlen xs) with 0 by lia. reflexivity. Qed.

(* the cell after the present cell of a group that is followed by groups: missing iff k > 0 *)
Lemma sel_group_next x k gs : znth false (sel_of (group (x, k) ++ flat gs)) 1 = (0 <? Z.of_nat k).
Proof.
  unfold group. cbn [fst snd].
  change (sel_of ((Some x :: nones k) ++ flat gs)) with (false :: sel_of (nones k ++ flat gs)).
  change 1 with (0 + 1). rewrite znth_succ by lia. rewrite sel_app, sel_nones.
  destruct k as [|k]; cbn [repeat app].
  - pose proof (hd_sel_flat gs) as H. destruct (sel_of (flat gs)); [reflexivity|]. cbn in H. subst. reflexivity.
  - reflexivity.
Qed.

(* ------------------------------------------------------------------ forward *)
(* the slices slices_from_targets yields, forward: one per group with k > 0 *)
Fixpoint slices_fwd (limit off : Z) gs : list (Z * Z * option A) :=
  match gs with
  | [] => []
  | g :: gs' =>
      (if 0 <? Z.of_nat (snd g)
       then [(off + 1, off + 1 + Z.of_nat (reach limit 0 (snd g)), Some (fst g))] else [])
      ++ slices_fwd limit (off + 1 + Z.of_nat (snd g)) gs'
  end.

Lemma reach_le limit run k : (reach limit run k <= k)%nat.
Proof. unfold reach. destruct (limit =? 0); lia. Qed.

Lemma hd_Tg_after k gs n off : 0 < Z.of_nat k -> n = off + zlen (flat gs) ->
  match Tg true off gs with t' :: _ => t' | [] => n end = off.
Proof.
  intros Hk Hn. destruct gs as [|[x j] gs]; cbn [Tg snd orb app].
  - unfold flat, zlen in Hn. cbn in Hn. lia.
  - reflexivity.
Qed.

Lemma sft_fwd_flat limit gs : 0 <= limit -> forall pre prev l0 n,
  l0 = pre ++ flat gs -> n = zlen l0 ->
  sft_fwd n limit (znth false (sel_of l0)) (Tg prev (zlen pre) gs) (map (znth None l0) (Tg prev (zlen pre) gs))
  = slices_fwd limit (zlen pre) gs.
Proof.
  intros Hl. induction gs as [|[x k] gs IH]; intros pre prev l0 n Hl0 Hn; [reflexivity|].
  cbn [Tg slices_fwd fst snd].
  (* the recursive part, by IH with the group moved into the prefix *)
  assert (Hrec : forall prev',
    sft_fwd n limit (znth false (sel_of l0)) (Tg prev' (zlen pre + 1 + Z.of_nat k) gs)
      (map (znth None l0) (Tg prev' (zlen pre + 1 + Z.of_nat k) gs))
    = slices_fwd limit (zlen pre + 1 + Z.of_nat k) gs).
  { intros prev'. specialize (IH (pre ++ group (x, k)) prev' l0 n).
    rewrite zlen_app, zlen_group in IH. cbn [snd] in IH.
    replace (zlen pre + (1 + Z.of_nat k)) with (zlen pre + 1 + Z.of_nat k) in IH by lia.
    apply IH; [|assumption]. rewrite Hl0. cbn [flat flat_map]. rewrite app_assoc. reflexivity. }
  assert (Hlen : n = zlen pre + 1 + Z.of_nat k + zlen (flat gs)).
  { rewrite Hn, Hl0. cbn [flat flat_map]. fold (flat gs). zl. cbn [snd]. lia. }
  destruct (prev || (0 <? Z.of_nat k)) eqn:Eemit; cbn [app map sft_fwd].
  - (* the group's present cell is a transition *)
    rewrite Hrec. f_equal.
    destruct (0 <? Z.of_nat k) eqn:Ek.
    + (* k > 0: the slice covers the run, trimmed to limit *)
      rewrite (hd_Tg_after k gs n) by lia.
      unfold sft_emit. cbn [andb].
      replace (zlen pre + 1 =? zlen pre + 1 + Z.of_nat k) with false by lia.
      replace (n <=? zlen pre + 1) with false by (pose proof (zlen_nonneg (flat gs)); lia).
      assert (Hc : znth false (sel_of l0) (zlen pre + 1) = true).
      { rewrite Hl0. cbn [flat flat_map]. fold (flat gs). rewrite znth_sel_after, sel_group_next by lia. assumption. }
      rewrite Hc.
      assert (Hv : znth None l0 (zlen pre) = Some x).
      { rewrite Hl0. cbn [flat flat_map]. unfold group at 1. cbn [fst snd app]. apply znth_at. }
      rewrite Hv. unfold range_len, reach.
      destruct (limit =? 0) eqn:E0.
      * replace (0 <? limit) with false by lia. reflexivity.
      * replace (0 <? limit) with true by lia.
        destruct (0 <? Z.max 0 (Z.min (zlen pre + 1 + Z.of_nat k) n - Z.min (zlen pre + 1) n) - limit) eqn:Es.
        -- f_equal. f_equal. f_equal. pose proof (zlen_nonneg (flat gs)). lia.
        -- f_equal. f_equal. f_equal. pose proof (zlen_nonneg (flat gs)). lia.
    + (* k = 0: no slice (empty, or past the end, or the next cell is present) *)
      assert (k = 0%nat) by lia. subst k.
      unfold sft_emit. cbn [andb].
      destruct (zlen pre + 1 =? _) eqn:E1; [reflexivity|].
      destruct (n <=? zlen pre + 1) eqn:E2; [reflexivity|].
      assert (Hc : znth false (sel_of l0) (zlen pre + 1) = false).
      { rewrite Hl0. cbn [flat flat_map]. fold (flat gs). rewrite znth_sel_after, sel_group_next by lia. reflexivity. }
      rewrite Hc. reflexivity.
  - (* not a transition: prev = false and k = 0 *)
    apply orb_false_iff in Eemit as [-> Ek]. rewrite Ek. cbn [app]. apply Hrec.
Qed.

Lemma apply_slices_fwd limit gs : forall pre',
  apply_slices (slices_fwd limit (zlen pre') gs) (pre' ++ flat gs) = pre' ++ S_groups limit gs.
Proof.
  induction gs as [|[x k] gs IH]; intros pre'; [reflexivity|].
  cbn [slices_fwd fst snd flat flat_map S_groups]. fold (flat gs). fold (S_groups limit gs).
  rewrite apply_slices_app.
  set (m := reach limit 0 k).
  assert (Hstep : apply_slices (if 0 <? Z.of_nat k then [(zlen pre' + 1, zlen pre' + 1 + Z.of_nat m, Some x)] else [])
                    (pre' ++ group (x, k) ++ flat gs) = (pre' ++ filled limit (x, k)) ++ flat gs).
  { unfold filled, group. cbn [fst snd]. fold m. destruct (0 <? Z.of_nat k) eqn:Ek.
    - cbn [apply_slices fold_left fst snd]. unfold assign_slice.
      rewrite assign_go_app, assign_go_before by lia.
      cbn [app assign_go]. replace ((zlen pre' + 1 <=? 0 + zlen pre') && _) with false by lia.
      rewrite assign_go_app. unfold nones at 1.
      replace (zlen pre' + 1 + Z.of_nat m) with ((0 + zlen pre' + 1) + Z.of_nat m) by lia.
      rewrite assign_go_repeat by (try lia; apply reach_le).
      rewrite assign_go_after by (zl; pose proof (reach_le limit 0 k); fold m in H; lia).
      rewrite <- !app_assoc. cbn [app]. rewrite <- app_assoc. reflexivity.
    - assert (k = 0%nat) by lia. subst k. cbn [apply_slices fold_left]. unfold m, reach.
      destruct (limit =? 0); cbn [Nat.min repeat nones Nat.sub app]; rewrite <- app_assoc; reflexivity. }
  rewrite Hstep.
  specialize (IH (pre' ++ filled limit (x, k))).
  assert (Hlen : zlen (pre' ++ filled limit (x, k)) = zlen pre' + 1 + Z.of_nat k).
  { unfold filled. cbn [fst snd]. zl. pose proof (reach_le limit 0 k). lia. }
  rewrite Hlen in IH. rewrite IH. rewrite <- app_assoc. reflexivity.
Qed.

(* the whole 1-D forward algorithm on a decomposed list, with the leading run possibly already overwritten (pre') *)
Lemma fwd_kernel limit k gs pre' : 0 <= limit -> length pre' = k ->
  let l0 := nones k ++ flat gs in
  let T := M_binary_transition (sel_of l0) in
  apply_slices (M_slices_from_targets T (map (znth None l0) T) (zlen l0) true limit (znth false (sel_of l0))) (pre' ++ flat gs)
  = pre' ++ S_groups limit gs.
Proof.
  intros Hl Hk l0 T. unfold M_slices_from_targets.
  assert (HT : T = Tg (0 <? Z.of_nat k) (zlen (@nones A k)) gs).
  { unfold T, M_binary_transition, l0. rewrite sel_app, sel_nones, bt_go_trues, bt_flat. zl.
    destruct (0 <? Z.of_nat k); reflexivity. }
  rewrite HT, (sft_fwd_flat limit gs Hl (nones k) _ l0 (zlen l0)) by reflexivity.
  replace (zlen (@nones A k)) with (zlen pre') by (unfold zlen, nones; rewrite repeat_length; lia).
  apply apply_slices_fwd.
Qed.

Lemma existsb_sel_false l : existsb (fun b => b) (sel_of l) = false -> forall k gs, l = nones k ++ flat gs -> k = 0%nat /\ forall g, In g gs -> snd g = 0%nat.
Proof.
  intros H k gs ->. rewrite sel_app, existsb_app, sel_nones in H. apply orb_false_iff in H as [H1 H2].
  split.
  - destruct k; [reflexivity|discriminate].
  - intros g Hg. clear H1. induction gs as [|[x j] gs IH]; [destruct Hg|].
    cbn [flat flat_map] in H2. rewrite sel_app, existsb_app in H2. apply orb_false_iff in H2 as [H2 H3].
    destruct Hg as [<-|Hg]; [|auto]. cbn [snd]. unfold group in H2. cbn [fst snd] in H2.
    destruct j; [reflexivity|discriminate].
Qed.

Lemma S_groups_no_missing limit gs : (forall g, In g gs -> snd g = 0%nat) -> S_groups limit gs = flat gs.
Proof.
  intros H. induction gs as [|[x j] gs IH]; [reflexivity|].
  cbn [S_groups flat flat_map]. fold (S_groups limit gs). fold (flat gs).
  rewrite IH by (intros; apply H; right; assumption).
  specialize (H (x, j) (or_introl eq_refl)). cbn in H. subst j.
  unfold filled, group, reach. cbn [fst snd]. destruct (limit =? 0); reflexivity.
Qed.

Theorem M_dir1d_forward limit l : 0 <= limit -> M_dir1d true limit l = S_ffill limit l.
Proof.
  intros Hl. destruct (decompose l) as (k & gs & Hd).
  unfold M_dir1d. fold (sel_of l).
  destruct (existsb (fun b => b) (sel_of l)) eqn:E; cbn [negb].
  - subst l. rewrite S_ffill_explicit by assumption.
    apply (fwd_kernel limit k gs (nones k) Hl). apply repeat_length.
  - destruct (existsb_sel_false l E k gs Hd) as [-> Hz]. subst l.
    rewrite S_ffill_explicit, S_groups_no_missing by assumption. reflexivity.
Qed.

(* ------------------------------------------------------------------ backward *)
(* mirror decomposition: groups "k missing cells, then a present value", then a trailing run of missing cells *)
Definition groupb (g : A * nat) : list (option A) := nones (snd g) ++ [Some (fst g)].
Definition flatb gs : list (option A) := flat_map groupb gs.
Definition filledb (limit : Z) (g : A * nat) : list (option A) :=
  nones (snd g - reach limit 0 (snd g)) ++ repeat (Some (fst g)) (reach limit 0 (snd g)) ++ [Some (fst g)].
Definition S_groupsb (limit : Z) gs : list (option A) := flat_map (filledb limit) gs.

Lemma rev_repeat {X} (a : X) k : rev (repeat a k) = repeat a k.
Proof.
  induction k as [|k IH]; [reflexivity|]. cbn [repeat rev]. rewrite IH.
  clear IH. induction k as [|k IH]; [reflexivity|]. cbn [repeat app]. rewrite IH. reflexivity.
Qed.

Lemma rev_flat gs : rev (flat gs) = flatb (rev gs).
Proof.
  induction gs as [|[x k] gs IH]; [reflexivity|].
  cbn [flat flat_map rev]. fold (flat gs). rewrite rev_app_distr, IH.
  unfold flatb. rewrite flat_map_app. cbn [flat_map]. rewrite app_nil_r.
  unfold group, groupb. cbn [fst snd rev]. unfold nones. rewrite rev_repeat. reflexivity.
Qed.

Lemma rev_S_groups limit gs : rev (S_groups limit gs) = S_groupsb limit (rev gs).
Proof.
  induction gs as [|[x k] gs IH]; [reflexivity|].
  cbn [S_groups flat_map rev]. fold (S_groups limit gs). rewrite rev_app_distr, IH.
  unfold S_groupsb. rewrite flat_map_app. cbn [flat_map]. rewrite app_nil_r.
  unfold filled, filledb. cbn [fst snd rev]. rewrite rev_app_distr. unfold nones. rewrite !rev_repeat, <- app_assoc. reflexivity.
Qed.

Lemma decompose_b l : exists gs kend, l = flatb gs ++ nones kend.
Proof.
  destruct (decompose (rev l)) as (k & gs & H). exists (rev gs), k.
  rewrite <- (rev_involutive l), H, rev_app_distr, rev_flat. unfold nones. rewrite rev_repeat. reflexivity.
Qed.

Theorem S_bfill_explicit limit gs kend : 0 <= limit ->
  S_bfill limit (flatb gs ++ nones kend) = S_groupsb limit gs ++ nones kend.
Proof.
  intros Hl. unfold S_bfill. rewrite rev_app_distr. unfold nones at 1. rewrite rev_repeat. fold (@nones A kend).
  replace (rev (flatb gs)) with (flat (rev gs)).
  2:{ rewrite <- (rev_involutive (flat (rev gs))), rev_flat, rev_involutive. reflexivity. }
  rewrite S_ffill_explicit, rev_app_distr, rev_S_groups, rev_involutive by assumption.
  unfold nones. rewrite rev_repeat. reflexivity.
Qed.

Definition next_missing gs (kend : nat) : bool :=
  match gs with [] => 0 <? Z.of_nat kend | g :: _ => 0 <? Z.of_nat (snd g) end.

Fixpoint Tb (off : Z) gs (kend : nat) : list Z :=
  match gs with
  | [] => []
  | g :: gs' =>
      (if (0 <? Z.of_nat (snd g)) || next_missing gs' kend then [off + Z.of_nat (snd g)] else [])
      ++ Tb (off + Z.of_nat (snd g) + 1) gs' kend
  end.

Lemma hd_sel_flatb gs kend : hd false (sel_of (flatb gs ++ nones kend)) = next_missing gs kend.
Proof.
  destruct gs as [|[x k] gs]; cbn [flatb flat_map next_missing snd app].
  - rewrite sel_nones. destruct kend; reflexivity.
  - unfold groupb. cbn [fst snd]. rewrite <- !app_assoc, sel_app, sel_nones. destruct k; reflexivity.
Qed.

Lemma bt_flatb gs kend : forall off, bt_go false off (sel_of (flatb gs ++ nones kend)) = Tb off gs kend.
Proof.
  induction gs as [|[x k] gs IH]; intros off.
  - cbn [flatb flat_map app Tb]. rewrite sel_nones, <- (app_nil_r (repeat true kend)), bt_go_trues. reflexivity.
  - cbn [flatb flat_map Tb snd]. fold (flatb gs). unfold groupb. cbn [fst snd].
    rewrite <- !app_assoc, sel_app, sel_nones, bt_go_trues. cbn [app].
    change (sel_of (Some x :: flatb gs ++ nones kend)) with (false :: sel_of (flatb gs ++ nones kend)).
    cbn [bt_go negb andb]. rewrite IH.
    pose proof (hd_sel_flatb gs kend) as Hh.
    replace (match sel_of (flatb gs ++ nones kend) with b' :: _ => b' | [] => false end) with (next_missing gs kend)
      by (destruct (sel_of (flatb gs ++ nones kend)); cbn in Hh; congruence).
    destruct (0 <? Z.of_nat k); reflexivity.
Qed.

Fixpoint slices_bwd (limit off : Z) gs : list (Z * Z * option A) :=
  match gs with
  | [] => []
  | g :: gs' =>
      (if 0 <? Z.of_nat (snd g)
       then [(off + Z.of_nat (snd g - reach limit 0 (snd g)), off + Z.of_nat (snd g), Some (fst g))] else [])
      ++ slices_bwd limit (off + Z.of_nat (snd g) + 1) gs'
  end.

Definition hd_k gs : nat := match gs with [] => 0%nat | g :: _ => snd g end.

Lemma sft_bwd_flat limit kend gs : 0 <= limit -> forall pre start l0 n,
  l0 = pre ++ flatb gs ++ nones kend -> n = zlen l0 ->
  (start = zlen pre \/ (0 <= start < zlen pre /\ znth false (sel_of l0) start = false /\ hd_k gs = 0%nat)) ->
  sft_bwd n limit (znth false (sel_of l0)) start (Tb (zlen pre) gs kend) (map (znth None l0) (Tb (zlen pre) gs kend))
  = slices_bwd limit (zlen pre) gs.
Proof.
  intros Hl. induction gs as [|[x k] gs IH]; intros pre start l0 n Hl0 Hn Inv; [reflexivity|].
  cbn [Tb slices_bwd fst snd].
  assert (Hl0' : l0 = (pre ++ groupb (x, k)) ++ flatb gs ++ nones kend).
  { rewrite Hl0. cbn [flatb flat_map]. rewrite <- !app_assoc. reflexivity. }
  assert (Hz : zlen (pre ++ groupb (x, k)) = zlen pre + Z.of_nat k + 1).
  { unfold groupb. cbn [fst snd]. zl. lia. }
  assert (Hv : znth None l0 (zlen pre + Z.of_nat k) = Some x).
  { rewrite Hl0. cbn [flatb flat_map]. unfold groupb at 1. cbn [fst snd].
    rewrite <- !app_assoc. rewrite (app_assoc pre). cbn [app].
    replace (zlen pre + Z.of_nat k) with (zlen (pre ++ nones k)) by (zl; lia). apply znth_at. }
  assert (Hselx : znth false (sel_of l0) (zlen pre + Z.of_nat k) = false).
  { rewrite Hl0. cbn [flatb flat_map]. unfold groupb at 1. cbn [fst snd].
    rewrite <- !app_assoc. rewrite (app_assoc pre). cbn [app].
    replace (zlen pre + Z.of_nat k) with (zlen (sel_of (pre ++ nones k))) by (rewrite zlen_sel; zl; lia).
    rewrite sel_app. apply znth_at. }
  destruct ((0 <? Z.of_nat k) || next_missing gs kend) eqn:Eemit; cbn [app map sft_bwd].
  - rewrite Hv. specialize (IH (pre ++ groupb (x, k)) (zlen pre + Z.of_nat k + 1) l0 n Hl0' Hn).
    rewrite Hz in IH. rewrite IH by (left; reflexivity). f_equal.
    destruct (0 <? Z.of_nat k) eqn:Ek.
    + (* k > 0: start is the first cell of the run *)
      destruct Inv as [-> | (_ & _ & Hk)]; [|cbn in Hk; lia].
      unfold sft_emit. cbn [andb].
      replace (zlen pre =? zlen pre + Z.of_nat k) with false by lia.
      assert (Hc : znth false (sel_of l0) (zlen pre) = true).
      { rewrite Hl0, znth_sel_at.
        cbn [flatb flat_map]. unfold groupb at 1. cbn [fst snd]. rewrite <- !app_assoc, sel_app, sel_nones.
        destruct k; [lia|reflexivity]. }
      rewrite Hc.
      assert (Hn' : zlen pre + Z.of_nat k < n).
      { rewrite Hn, Hl0'. zl. rewrite Hz. pose proof (zlen_nonneg (flatb gs)). lia. }
      unfold range_len, reach.
      destruct (limit =? 0) eqn:E0.
      * replace (0 <? limit) with false by lia. replace (k - k)%nat with 0%nat by lia.
        do 3 f_equal. lia.
      * replace (0 <? limit) with true by lia.
        destruct (0 <? Z.max 0 (Z.min (zlen pre + Z.of_nat k) n - Z.min (zlen pre) n) - limit) eqn:Es.
        -- do 3 f_equal. lia.
        -- do 3 f_equal. lia.
    + (* k = 0: the slice is empty or starts at a present cell *)
      assert (k = 0%nat) by lia. subst k. unfold sft_emit. cbn [andb].
      destruct Inv as [-> | (Hs & Hc & _)].
      * replace (zlen pre =? zlen pre + Z.of_nat 0) with true by lia. reflexivity.
      * destruct (start =? zlen pre + Z.of_nat 0); [reflexivity|]. rewrite Hc. reflexivity.
  - (* not a transition: k = 0 and the next cell is present *)
    apply orb_false_iff in Eemit as [Ek Enext]. rewrite Ek. cbn [app].
    assert (k = 0%nat) by lia. subst k.
    specialize (IH (pre ++ groupb (x, 0%nat)) start l0 n Hl0' Hn). rewrite Hz in IH.
    replace (zlen pre + Z.of_nat 0 + 1) with (zlen pre + Z.of_nat 0 + 1) in IH by lia.
    apply IH. right.
    assert (Hk' : hd_k gs = 0%nat).
    { destruct gs as [|[x' k'] gs']; [reflexivity|]. cbn in Enext |- *. lia. }
    destruct Inv as [-> | (Hs & Hc & _)].
    + split; [pose proof (zlen_nonneg pre); lia|]. split; [|assumption].
      replace (zlen pre) with (zlen pre + Z.of_nat 0) by lia. assumption.
    + split; [lia|]. split; assumption.
Qed.

Lemma assign_go_repeat_suffix {X} (c v : X) k off m : (m <= k)%nat ->
  assign_go off (off + Z.of_nat (k - m)) (off + Z.of_nat k) v (repeat c k) = repeat c (k - m) ++ repeat v m.
Proof.
  intros Hm. replace k with ((k - m) + m)%nat at 3 by lia. rewrite repeat_app, assign_go_app.
  rewrite assign_go_before by (rewrite zlen_repeat; lia). f_equal. rewrite zlen_repeat.
  replace (off + Z.of_nat k) with ((off + Z.of_nat (k - m)) + Z.of_nat m) by lia.
  rewrite assign_go_repeat by lia. replace (m - m)%nat with 0%nat by lia. apply app_nil_r.
Qed.

Lemma apply_slices_bwd limit gs : forall pre' post,
  apply_slices (slices_bwd limit (zlen pre') gs) (pre' ++ flatb gs ++ post) = pre' ++ S_groupsb limit gs ++ post.
Proof.
  induction gs as [|[x k] gs IH]; intros pre' post; [reflexivity|].
  cbn [slices_bwd fst snd flatb flat_map S_groupsb]. fold (flatb gs). fold (S_groupsb limit gs).
  rewrite apply_slices_app.
  set (m := reach limit 0 k).
  assert (Hm : (m <= k)%nat) by apply reach_le.
  assert (Hstep : apply_slices (if 0 <? Z.of_nat k then [(zlen pre' + Z.of_nat (k - m), zlen pre' + Z.of_nat k, Some x)] else [])
                    (pre' ++ (groupb (x, k) ++ flatb gs) ++ post) = (pre' ++ filledb limit (x, k)) ++ flatb gs ++ post).
  { unfold filledb, groupb. cbn [fst snd]. fold m. destruct (0 <? Z.of_nat k) eqn:Ek.
    - cbn [apply_slices fold_left fst snd]. unfold assign_slice.
      rewrite assign_go_app, assign_go_before by lia.
      rewrite <- !app_assoc. rewrite assign_go_app. unfold nones at 1.
      replace (zlen pre' + Z.of_nat (k - m)) with ((0 + zlen pre') + Z.of_nat (k - m)) by lia.
      replace (zlen pre' + Z.of_nat k) with ((0 + zlen pre') + Z.of_nat k) by lia.
      rewrite assign_go_repeat_suffix by lia.
      rewrite assign_go_after by (zl; lia).
      unfold nones. rewrite <- !app_assoc. reflexivity.
    - assert (k = 0%nat) by lia. subst k. cbn [apply_slices fold_left]. unfold m, reach.
      destruct (limit =? 0); cbn [Nat.min repeat nones Nat.sub app]; rewrite <- !app_assoc; reflexivity. }
  rewrite Hstep.
  specialize (IH (pre' ++ filledb limit (x, k)) post).
  assert (Hlen : zlen (pre' ++ filledb limit (x, k)) = zlen pre' + Z.of_nat k + 1).
  { unfold filledb. cbn [fst snd]. fold m. zl. lia. }
  rewrite Hlen in IH. rewrite IH. rewrite <- !app_assoc. reflexivity.
Qed.

(* the whole 1-D backward algorithm on a decomposed list, with the trailing run possibly already overwritten (post') *)
Lemma bwd_kernel limit gs kend post' : 0 <= limit ->
  let l0 := flatb gs ++ nones kend in
  let T := M_binary_transition (sel_of l0) in
  apply_slices (M_slices_from_targets T (map (znth None l0) T) (zlen l0) false limit (znth false (sel_of l0))) (flatb gs ++ post')
  = S_groupsb limit gs ++ post'.
Proof.
  intros Hl l0 T. unfold M_slices_from_targets.
  assert (HT : T = Tb (zlen (@nil (option A))) gs kend).
  { unfold T, M_binary_transition, l0. rewrite bt_flatb. reflexivity. }
  rewrite HT, (sft_bwd_flat limit kend gs Hl [] 0 l0 (zlen l0)); [|reflexivity|reflexivity|left; reflexivity].
  apply (apply_slices_bwd limit gs [] post').
Qed.

Lemma existsb_sel_false_b l : existsb (fun b => b) (sel_of l) = false ->
  forall gs kend, l = flatb gs ++ nones kend -> kend = 0%nat /\ forall g, In g gs -> snd g = 0%nat.
Proof.
  intros H gs kend ->. rewrite sel_app, existsb_app, sel_nones in H. apply orb_false_iff in H as [H2 H1].
  split.
  - destruct kend; [reflexivity|discriminate].
  - intros g Hg. clear H1. induction gs as [|[x j] gs IH]; [destruct Hg|].
    cbn [flatb flat_map] in H2. rewrite sel_app, existsb_app in H2. apply orb_false_iff in H2 as [H2 H3].
    destruct Hg as [<-|Hg]; [|auto]. cbn [snd]. unfold groupb in H2. cbn [fst snd] in H2.
    rewrite sel_app, sel_nones in H2. destruct j; [reflexivity|discriminate].
Qed.

Lemma S_groupsb_no_missing limit gs : (forall g, In g gs -> snd g = 0%nat) -> S_groupsb limit gs = flatb gs.
Proof.
  intros H. induction gs as [|[x j] gs IH]; [reflexivity|].
  cbn [S_groupsb flatb flat_map]. fold (S_groupsb limit gs). fold (flatb gs).
  rewrite IH by (intros; apply H; right; assumption).
  specialize (H (x, j) (or_introl eq_refl)). cbn in H. subst j.
  unfold filledb, groupb, reach. cbn [fst snd]. destruct (limit =? 0); reflexivity.
Qed.

Theorem M_dir1d_backward limit l : 0 <= limit -> M_dir1d false limit l = S_bfill limit l.
Proof.
  intros Hl. destruct (decompose_b l) as (gs & kend & Hd).
  unfold M_dir1d. fold (sel_of l).
  destruct (existsb (fun b => b) (sel_of l)) eqn:E; cbn [negb].
  - subst l. rewrite S_bfill_explicit by assumption.
    apply (bwd_kernel limit gs kend (nones kend) Hl).
  - destruct (existsb_sel_false_b l E gs kend Hd) as [-> Hz]. subst l.
    rewrite S_bfill_explicit, S_groupsb_no_missing by assumption. reflexivity.
Qed.

End Kernel.
