(* C02 -- static flat index: construction accepted iff labels distinct, exact bijection, and the
   refinement M = S (map-backed: unconditional; map-less auto-integer index: under auto_key_ok). *)
Require Import SF.Prelude SF.PySlice Gen.Gen_c02 SF.IndexBij Proofs.IndexBijFacts.

Section Main.
  Set Default Proof Using "All".
  Variable C : Type.
  Variable ceqb : C -> C -> bool.
  Variable of_Z : Z -> C.
  Variable to_Z : C -> option Z.
  Hypothesis ceqb_spec : forall x y, ceqb x y = true <-> x = y.
  Hypothesis to_of : forall z, to_Z (of_Z z) = Some z.
  Hypothesis of_to : forall c z, to_Z c = Some z -> c = of_Z z.

  Let memb_In := memb_In C ceqb ceqb_spec.
  Let nodupb_NoDup := nodupb_NoDup C ceqb ceqb_spec.

  (* ---------------------------------------------------------------- specification laws *)
  Lemma S_index_accepts l probes :
    NoDup l -> S_index ceqb l probes = Ok (S_observe ceqb l probes).
  Proof. intros H. unfold S_index. rewrite (proj2 (nodupb_NoDup l) H). reflexivity. Qed.

  Lemma S_index_rejects l probes :
    ~ NoDup l -> S_index ceqb l probes = Err "ErrorInitIndex".
  Proof.
    intros H. unfold S_index. destruct (nodupb ceqb l) eqn:E; [|reflexivity].
    apply nodupb_NoDup in E. contradiction.
  Qed.

  Lemma S_lookup_nth l i x t : NoDup l -> nth_error l i = Some x -> S_lookup ceqb l (x, t) = Ok (Z.of_nat i).
  Proof. intros ND H. unfold S_lookup. cbn. rewrite (index_of_NoDup C ceqb ceqb_spec l i x ND H). reflexivity. Qed.

  Lemma S_lookup_only l k z : S_lookup ceqb l k = Ok z ->
    0 <= z < zlen l /\ nth_error l (Z.to_nat z) = Some (fst k).
  Proof.
    unfold S_lookup. destruct (index_of ceqb (fst k) l) as [i|] eqn:E; [|discriminate].
    intros H. injection H as <-. split.
    - eapply index_of_range; eassumption.
    - eapply index_of_nth; eassumption.
  Qed.

  Lemma S_lookup_absent l k : ~ In (fst k) l <-> S_lookup ceqb l k = Err "KeyError".
  Proof.
    unfold S_lookup. rewrite <- (index_of_None C ceqb ceqb_spec).
    destruct (index_of ceqb (fst k) l); split; intros; congruence.
  Qed.

  Lemma S_contains_iff l k : S_contains ceqb l k = true <-> In (fst k) l.
  Proof. unfold S_contains. apply memb_In. Qed.

  (* ---------------------------------------------------------------- map-backed index: M = S *)
  Lemma M_index_init_ok l ix : M_index_init ceqb l = Ok ix ->
    NoDup l /\ ix_labels ix = l /\ exists m, ix_map ix = Some m /\ amwf C m /\ map fst m = l.
  Proof.
    unfold M_index_init. destruct (am_build ceqb l) as [m|e] eqn:E; [|discriminate].
    intros H. injection H as <-. apply (am_build_ok C ceqb ceqb_spec) in E. destruct E as (ND & W & F).
    cbn. split; [exact ND|]. split; [reflexivity|]. exists m. auto.
  Qed.

  Lemma M_lookup_map l m k : amwf C m -> map fst m = l ->
    M_loc_to_iloc ceqb to_Z (mk_index l (Some m)) k = S_lookup ceqb l k.
  Proof.
    intros W F. unfold M_loc_to_iloc, S_lookup. cbn [ix_map].
    rewrite (am_get_index C ceqb ceqb_spec m (fst k) W), F. reflexivity.
  Qed.

  Lemma M_contains_map l m k : amwf C m -> map fst m = l ->
    M_contains ceqb to_Z (mk_index l (Some m)) k = S_contains ceqb l k.
  Proof.
    intros W F. unfold M_contains, S_contains. cbn [ix_map].
    rewrite (am_get_index C ceqb ceqb_spec m (fst k) W), F, (index_of_memb C ceqb ceqb_spec). reflexivity.
  Qed.

  (* whole-object refinement: Index(labels) observed through every reader equals the specification,
     for every label sequence and every probe list; rejection included *)
  Theorem M_index_refines l probes : M_index ceqb to_Z l probes = S_index ceqb l probes.
  Proof.
    unfold M_index. destruct (M_index_init ceqb l) as [ix|e] eqn:E.
    - pose proof (M_index_init_ok l ix E) as (ND & L & m & Hm & W & F).
      rewrite (S_index_accepts l probes ND). f_equal.
      destruct ix as [l' om]. cbn in L, Hm. subst l' om.
      unfold M_observe, S_observe. cbn [ix_labels]. f_equal.
      + apply map_ext. intros k. apply M_lookup_map; assumption.
      + apply map_ext. intros k. apply M_contains_map; assumption.
    - unfold M_index_init in E. destruct (am_build ceqb l) as [m|e'] eqn:E'; [discriminate|].
      injection E as <-. symmetry. apply S_index_rejects. intros ND.
      destruct (am_build_NoDup C ceqb ceqb_spec l ND) as [m Hm]. congruence.
  Qed.

  (* construction is accepted exactly for pairwise distinct labels, otherwise ErrorInitIndex *)
  Theorem M_index_accepts_iff l :
    (NoDup l -> exists ix, M_index_init ceqb l = Ok ix) /\
    (~ NoDup l -> M_index_init ceqb l = Err "ErrorInitIndex").
  Proof.
    unfold M_index_init. split; intros H.
    - destruct (am_build_NoDup C ceqb ceqb_spec l H) as [m ->]. eexists. reflexivity.
    - rewrite (am_build_dup C ceqb ceqb_spec l H). reflexivity.
  Qed.

  (* the exact bijection held by every constructed index *)
  Theorem M_index_bijection l ix : M_index_init ceqb l = Ok ix ->
    NoDup l /\ ix_labels ix = l /\
    (forall i x t, nth_error l i = Some x -> M_loc_to_iloc ceqb to_Z ix (x, t) = Ok (Z.of_nat i)) /\
    (forall k z, M_loc_to_iloc ceqb to_Z ix k = Ok z -> 0 <= z < zlen l /\ nth_error l (Z.to_nat z) = Some (fst k)) /\
    (forall k, M_contains ceqb to_Z ix k = true <-> In (fst k) l) /\
    (forall k, ~ In (fst k) l -> M_loc_to_iloc ceqb to_Z ix k = Err "KeyError").
  Proof.
    intros E. pose proof (M_index_init_ok l ix E) as (ND & L & m & Hm & W & F).
    destruct ix as [l' om]. cbn in L, Hm. subst l' om.
    refine (conj ND (conj eq_refl (conj _ (conj _ (conj _ _))))).
    - intros i x t H. rewrite (M_lookup_map l m _ W F). apply S_lookup_nth; assumption.
    - intros k z H. rewrite (M_lookup_map l m _ W F) in H. apply S_lookup_only in H. exact H.
    - intros k. rewrite (M_contains_map l m _ W F). apply S_contains_iff.
    - intros k H. rewrite (M_lookup_map l m _ W F). apply S_lookup_absent. exact H.
  Qed.

  (* list and slice keys go through the same map *)
  Theorem M_list_refines l ix ks : M_index_init ceqb l = Ok ix ->
    M_loc_to_iloc_list ceqb to_Z ix ks = S_lookup_list ceqb l ks.
  Proof.
    intros E. pose proof (M_index_init_ok l ix E) as (ND & L & m & Hm & W & F).
    destruct ix as [l' om]. cbn in L, Hm. subst l' om.
    unfold M_loc_to_iloc_list, S_lookup_list. f_equal. apply map_ext. intros k.
    apply M_lookup_map; assumption.
  Qed.

  Theorem M_slice_refines l m a b st : M_index_init ceqb l = Ok (mk_index l (Some m)) ->
    M_loc_to_iloc_slice ceqb m a b st = S_lookup_slice ceqb l a b st.
  Proof.
    intros E. pose proof (M_index_init_ok l _ E) as (ND & L & m' & Hm & W & F).
    cbn in Hm. injection Hm as <-.
    assert (Q : forall k, match am_get ceqb m (fst k) with Some i => Ok i | None => Err "KeyError"%string end
                          = S_lookup ceqb l k).
    { intros k. unfold S_lookup. rewrite (am_get_index C ceqb ceqb_spec m (fst k) W), F. reflexivity. }
    unfold M_loc_to_iloc_slice, S_lookup_slice, loc_slice, opt_key_pos.
    destruct a as [ka|], b as [kb|]; rewrite ?Q; reflexivity.
  Qed.

  (* ---------------------------------------------------------------- auto-integer index *)
  Lemma of_Z_inj a b : of_Z a = of_Z b -> a = b.
  Proof. intros H. pose proof (to_of a) as Ha. rewrite H, to_of in Ha. congruence. Qed.

  Lemma index_of_auto n z : index_of ceqb (of_Z z) (map of_Z (iota n)) =
    if (0 <=? z) && (z <? Z.of_nat n) then Some z else None.
  Proof.
    induction n as [|n IH].
    - cbn. destruct (0 <=? z) eqn:A; cbn; [|reflexivity]. destruct (z <? 0) eqn:B; [lia|reflexivity].
    - rewrite iota_S, map_app. cbn [map].
      destruct ((0 <=? z) && (z <? Z.of_nat n)) eqn:R.
      + rewrite (index_of_app_l C ceqb ceqb_spec).
        * rewrite IH. replace ((0 <=? z) && (z <? Z.of_nat (S n))) with true by lia. reflexivity.
        * apply in_map_iff. exists z. split; [reflexivity|]. unfold iota. apply in_map_iff.
          exists (Z.to_nat z). split; [lia|]. apply in_seq. lia.
      + rewrite (index_of_app_r C ceqb ceqb_spec).
        * unfold zlen. rewrite map_length, iota_length. cbn [index_of].
          destruct (ceqb (of_Z z) (of_Z (Z.of_nat n))) eqn:E.
          -- apply ceqb_spec, of_Z_inj in E. subst z. cbn [option_map].
             replace ((0 <=? Z.of_nat n) && (Z.of_nat n <? Z.of_nat (S n))) with true by lia.
             f_equal. lia.
          -- cbn [option_map]. destruct ((0 <=? z) && (z <? Z.of_nat (S n))) eqn:R2; [|reflexivity].
             exfalso. assert (z = Z.of_nat n) by lia. subst z.
             rewrite (ceqb_refl C ceqb ceqb_spec) in E. discriminate.
        * intros Hin. apply in_map_iff in Hin. destruct Hin as (w & Hw & Hin). apply of_Z_inj in Hw. subst w.
          unfold iota in Hin. apply in_map_iff in Hin. destruct Hin as (j & Hj & Hin). apply in_seq in Hin. lia.
  Qed.

  (* where the map-less paths agree with the specification: everywhere except for a key that EQUALS a
     held position but is not integer-typed (1.0 on [0,1,2]): finding C02-auto-float-key.  (Negative
     integers, out-of-range bools and None are refused since fix 041ca90: the proof below uses
     gen_auto_lookup_validates = true, re-read from the source on every run.) *)
  Definition auto_key_ok (n : nat) (k : key C) : bool :=
    match to_Z (fst k) with
    | Some z => int_typed k || negb ((0 <=? z) && (z <? Z.of_nat n))
    | None => true
    end.

  Lemma index_of_not_int n c : to_Z c = None -> index_of ceqb c (map of_Z (iota n)) = None.
  Proof.
    intros H. apply (index_of_None C ceqb ceqb_spec). intros Hin. apply in_map_iff in Hin.
    destruct Hin as (z & Hz & _). subst c. rewrite to_of in H. discriminate.
  Qed.

  Lemma positions_getitem_is_valid n k : positions_getitem to_Z n k = positions_getitem_valid to_Z n k.
  Proof. reflexivity. Qed.

  Lemma auto_lookup_refines n k : auto_key_ok n k = true ->
    M_loc_to_iloc ceqb to_Z (M_index_auto of_Z n) k = S_lookup ceqb (map of_Z (iota n)) k.
  Proof.
    unfold auto_key_ok, M_loc_to_iloc, S_lookup, M_index_auto. cbn [ix_map ix_labels].
    rewrite positions_getitem_is_valid. unfold positions_getitem_valid, key_int.
    unfold zlen. rewrite map_length, iota_length.
    destruct k as [c t]. cbn [fst].
    destruct (to_Z c) as [z|] eqn:Ez.
    - apply of_to in Ez as Hc. subst c. rewrite index_of_auto.
      destruct (int_typed (of_Z z, t)); cbn [orb]; intros G; cbv iota.
      + rewrite ?to_of. destruct ((0 <=? z) && (z <? Z.of_nat n)); reflexivity.
      + apply negb_true_iff in G. rewrite G. reflexivity.
    - intros _. rewrite (index_of_not_int n c Ez). destruct (int_typed (c, t)); cbv iota; rewrite ?Ez; reflexivity.
  Qed.

  Lemma auto_contains_refines n k : auto_key_ok n k = true ->
    M_contains ceqb to_Z (M_index_auto of_Z n) k = S_contains ceqb (map of_Z (iota n)) k.
  Proof.
    unfold auto_key_ok, M_contains, S_contains, M_index_auto, key_int. cbn [ix_map ix_labels].
    unfold zlen. rewrite map_length, iota_length, (index_of_memb C ceqb ceqb_spec).
    destruct k as [c t]. cbn [fst].
    destruct (to_Z c) as [z|] eqn:Ez.
    - apply of_to in Ez as Hc. subst c. rewrite index_of_auto.
      destruct (int_typed (of_Z z, t)); cbn [orb]; intros G; cbv iota.
      + rewrite ?to_of. destruct ((0 <=? z) && (z <? Z.of_nat n)); reflexivity.
      + apply negb_true_iff in G. rewrite G. reflexivity.
    - intros _. rewrite (index_of_not_int n c Ez). destruct (int_typed (c, t)); cbv iota; rewrite ?Ez; reflexivity.
  Qed.

  Theorem M_auto_refines n probes : forallb (auto_key_ok n) probes = true ->
    M_auto ceqb of_Z to_Z n probes = S_auto ceqb of_Z n probes.
  Proof.
    intros G. unfold M_auto, S_auto, M_observe, S_observe. cbn [ix_labels M_index_auto]. f_equal.
    - apply map_ext_in. intros k Hk. apply auto_lookup_refines.
      rewrite forallb_forall in G. apply G. exact Hk.
    - apply map_ext_in. intros k Hk. apply auto_contains_refines.
      rewrite forallb_forall in G. apply G. exact Hk.
  Qed.

  Lemma auto_labels_NoDup n : NoDup (map of_Z (iota n)).
  Proof.
    apply FinFun.Injective_map_NoDup.
    - intros a b. apply of_Z_inj.
    - unfold iota. apply FinFun.Injective_map_NoDup; [intros a b; lia | apply seq_NoDup].
  Qed.

  (* the auto-integer index is a bijection for integer-typed labels: position i <-> label i *)
  Theorem M_auto_bijection n :
    NoDup (ix_labels (M_index_auto of_Z n)) /\
    (forall i, (i < n)%nat -> nth_error (ix_labels (M_index_auto of_Z n)) i = Some (of_Z (Z.of_nat i))) /\
    (forall i, (i < n)%nat -> M_loc_to_iloc ceqb to_Z (M_index_auto of_Z n) (of_Z (Z.of_nat i), KInt) = Ok (Z.of_nat i)) /\
    (forall z, M_contains ceqb to_Z (M_index_auto of_Z n) (of_Z z, KInt) = true <-> 0 <= z < Z.of_nat n).
  Proof.
    split; [apply auto_labels_NoDup|]. split; [|split].
    - intros i H. cbn [ix_labels M_index_auto]. rewrite nth_error_map, (iota_nth n i H). reflexivity.
    - intros i H. unfold M_loc_to_iloc, positions_getitem, positions_getitem_valid, positions_getitem_raw, key_int, int_typed.
      cbn [ix_map ix_labels M_index_auto fst snd].
      rewrite to_of. unfold zlen. rewrite map_length, iota_length.
      replace ((- Z.of_nat n <=? Z.of_nat i) && (Z.of_nat i <? Z.of_nat n)) with true by lia.
      replace ((0 <=? Z.of_nat i) && (Z.of_nat i <? Z.of_nat n)) with true by lia.
      destruct Gen_c02.gen_auto_lookup_validates; reflexivity.
    - intros z. unfold M_contains, key_int, int_typed. cbn [ix_map ix_labels M_index_auto fst snd].
      rewrite to_of. unfold zlen. rewrite map_length, iota_length. lia.
  Qed.

End Main.
