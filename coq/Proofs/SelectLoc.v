(* C04 -- label keys: the implementation's translation to positional keys (LocMap / the auto-index fast
   path / Boolean-Series reindexing) selects exactly the positions of the labels the key names. *)
Require Import SF.Prelude SF.PySlice SF.Dtype SF.Blocks SF.Select
  Proofs.SliceFacts Proofs.BlocksSelect Proofs.SelectFacts.

Section Loc.
Context {L : Type}.
Variable leqb : L -> L -> bool.
Hypothesis leqb_spec : forall x y, leqb x y = true <-> x = y.

Notation find_pos := (find_pos leqb).
Notation S_loc := (S_loc leqb).
Notation M_loc_map := (M_loc_map leqb).
Notation assoc_bool := (assoc_bool leqb).

(* ---------- the dictionary ---------- *)
Lemma find_pos_Some x labels : forall i p, find_pos x labels i = Some p ->
  i <= p < i + Z.of_nat (length labels) /\ nth_z labels (p - i) = Some x.
Proof.
  induction labels as [|y r IH]; intros i p; cbn [Select.find_pos]; [discriminate|].
  destruct (leqb x y) eqn:E.
  - intros H. injection H as <-. apply leqb_spec in E. subst y. cbn [length]. split; [lia|].
    rewrite Z.sub_diag. reflexivity.
  - intros H. apply IH in H as [Hr Hn]. cbn [length]. split; [lia|].
    unfold nth_z in *. replace (p - i <? 0) with false by lia. replace (p - (i + 1) <? 0) with false in Hn by lia.
    replace (Z.to_nat (p - i)) with (S (Z.to_nat (p - (i + 1)))) by lia. exact Hn.
Qed.

Lemma find_pos_None x labels : forall i, find_pos x labels i = None <-> ~ In x labels.
Proof.
  induction labels as [|y r IH]; intros i; cbn [Select.find_pos].
  - split; [intros _ []|reflexivity].
  - destruct (leqb x y) eqn:E.
    + apply leqb_spec in E. subst. split; [discriminate|]. intros H. exfalso. apply H. left. reflexivity.
    + rewrite IH. split.
      * intros H [Hy|Hr]; [|exact (H Hr)]. subst y.
        assert (leqb x x = true) by (apply leqb_spec; reflexivity). congruence.
      * intros H Hr. apply H. right. exact Hr.
Qed.

(* with unique labels, the dictionary inverts position -> label *)
Lemma find_pos_nth labels : NoDup labels -> forall j x i, nth_z labels j = Some x -> find_pos x labels i = Some (i + j).
Proof.
  induction 1 as [|y r Hnin _ IH]; intros j x i Hn.
  - unfold nth_z in Hn. destruct (j <? 0); [discriminate|]. destruct (Z.to_nat j); discriminate.
  - pose proof (nth_z_Some _ _ _ Hn) as Hj. cbn [Select.find_pos].
    destruct (Z.eq_dec j 0) as [->|Hj0].
    + cbn in Hn. injection Hn as ->.
      assert (E : leqb x x = true) by (apply leqb_spec; reflexivity). rewrite E. f_equal. lia.
    + assert (Hn' : nth_z r (j - 1) = Some x).
      { unfold nth_z in *. replace (j <? 0) with false in Hn by lia. replace (j - 1 <? 0) with false by lia.
        replace (Z.to_nat j) with (S (Z.to_nat (j - 1))) in Hn by lia. exact Hn. }
      destruct (leqb x y) eqn:E.
      * apply leqb_spec in E. subst y. exfalso. apply Hnin.
        unfold nth_z in Hn'. destruct (j - 1 <? 0); [discriminate|]. eapply nth_error_In; eassumption.
      * rewrite (IH (j - 1) x (i + 1) Hn'). f_equal. lia.
Qed.

(* ---------- masks ---------- *)
Lemma mask_positions_map_spec {B} (f : B -> bool) (l : list B) : forall i p,
  In p (mask_positions (map f l) i) <-> exists v, nth_z l (p - i) = Some v /\ f v = true /\ i <= p.
Proof.
  induction l as [|x r IH]; intros i p; cbn [map mask_positions].
  - split; [intros []|]. intros (v & H & _). unfold nth_z in H. destruct (p - i <? 0); [discriminate|].
    destruct (Z.to_nat (p - i)); discriminate.
  - assert (Hshift : forall v, i + 1 <= p -> (nth_z r (p - (i + 1)) = Some v <-> nth_z (x :: r) (p - i) = Some v)).
    { intros v Hp. unfold nth_z. replace (p - (i + 1) <? 0) with false by lia. replace (p - i <? 0) with false by lia.
      replace (Z.to_nat (p - i)) with (S (Z.to_nat (p - (i + 1)))) by lia. reflexivity. }
    destruct (f x) eqn:Ex.
    + cbn [In]. rewrite IH. split.
      * intros [<-|(v & Hn & Hv & Hp)].
        -- exists x. rewrite Z.sub_diag. repeat split; [assumption|lia].
        -- exists v. split; [apply Hshift; [lia|assumption]|]. split; [assumption|lia].
      * intros (v & Hn & Hv & Hp). destruct (Z.eq_dec p i) as [->|Hne]; [left; reflexivity|right].
        exists v. split; [apply Hshift; [lia|assumption]|]. split; [assumption|lia].
    + rewrite IH. split.
      * intros (v & Hn & Hv & Hp). exists v. split; [apply Hshift; [lia|assumption]|]. split; [assumption|lia].
      * intros (v & Hn & Hv & Hp). destruct (Z.eq_dec p i) as [->|Hne].
        -- rewrite Z.sub_diag in Hn. cbn in Hn. injection Hn as <-. congruence.
        -- exists v. split; [apply Hshift; [lia|assumption]|]. split; [assumption|lia].
Qed.

Lemma mask_positions_norm m n : Z.of_nat (length m) = n ->
  opt_all (map (fun i => norm_index i n) (mask_positions m 0)) = Some (mask_positions m 0).
Proof.
  intros Hn. apply opt_all_Some. rewrite <- map_map with (f := fun i => norm_index i n) (g := fun x => x) at 1.
  rewrite map_id. apply map_ext_in. intros p Hp. apply mask_positions_spec in Hp.
  unfold norm_index. replace ((0 <=? p) && (p <? n)) with true by lia. reflexivity.
Qed.

(* ---------- slices: the stop label is inclusive, walking up (+1) and walking down (-1, None below 0) ---------- *)
Lemma inclusive_slice_positions (pa pb st : option Z) n : 0 <= n ->
  (forall a, pa = Some a -> 0 <= a < n) -> (forall b, pb = Some b -> 0 <= b < n) ->
  (match positions (mk_slice pa (match pb with Some p => incl_stop p st 0 | None => None end) st) n with
   | Some ps => Ok ps | None => Err "ValueError" end) = inclusive_range pa pb st n.
Proof.
  intros Hn Ha Hb. unfold positions, slice_indices, inclusive_range. cbn [s_step s_start s_stop].
  set (step := match st with Some v => v | None => 1 end).
  destruct (step =? 0) eqn:E0; [reflexivity|].
  destruct (step >? 0) eqn:Epos.
  - assert (Hup : step_up st = true) by (unfold step_up; subst step; destruct st; [exact Epos|reflexivity]).
    assert (Hs : adj_bound pa n step true = match pa with Some a => a | None => 0 end).
    { unfold adj_bound. destruct pa as [a|]; [|replace (step <? 0) with false by lia; reflexivity].
      specialize (Ha a eq_refl). replace (a <? 0) with false by lia. replace (a >=? n) with false by lia. reflexivity. }
    assert (He : range_len (adj_bound pa n step true) (adj_bound (match pb with Some p => incl_stop p st 0 | None => None end) n step false) step
                 = range_len (match pa with Some a => a | None => 0 end) (match pb with Some b => b | None => n - 1 end + 1) step).
    { rewrite Hs. f_equal. unfold incl_stop. rewrite Hup. unfold adj_bound.
      destruct pb as [b|]; [|replace (step <? 0) with false by lia; lia].
      specialize (Hb b eq_refl). replace (b + 1 + 0 <? 0) with false by lia. replace (step <? 0) with false by lia.
      destruct (b + 1 + 0 >=? n) eqn:?; lia. }
    rewrite He, Hs. reflexivity.
  - assert (Hneg : step < 0) by lia.
    assert (Hup : step_up st = false) by (unfold step_up; subst step; destruct st; [exact Epos|discriminate]).
    assert (Hs : adj_bound pa n step true = match pa with Some a => a | None => n - 1 end).
    { unfold adj_bound. destruct pa as [a|]; [|replace (step <? 0) with true by lia; reflexivity].
      specialize (Ha a eq_refl). replace (a <? 0) with false by lia. replace (a >=? n) with false by lia. reflexivity. }
    assert (He : adj_bound (match pb with Some p => incl_stop p st 0 | None => None end) n step false
                 = match pb with Some b => b | None => 0 end - 1).
    { unfold incl_stop. rewrite Hup. destruct pb as [b|]; [|unfold adj_bound; replace (step <? 0) with true by lia; lia].
      specialize (Hb b eq_refl). destruct (b - 1 + 0 <? 0) eqn:E1; unfold adj_bound.
      - replace (step <? 0) with true by lia. lia.
      - replace (b - 1 + 0 <? 0) with false by lia. replace (b - 1 + 0 >=? n) with false by lia. lia. }
    rewrite Hs, He. reflexivity.
Qed.

(* ---------- LocMap (an index with a dictionary) ---------- *)
Lemma find_opt_range o labels p : find_opt leqb o labels = Ok (Some p) -> 0 <= p < Z.of_nat (length labels).
Proof.
  unfold find_opt. destruct o as [x|]; [|discriminate].
  destruct (find_pos x labels 0) as [q|] eqn:E; [|discriminate]. intros H. injection H as <-.
  apply find_pos_Some in E. lia.
Qed.

Lemma find_all_range xs labels ps :
  opt_all (map (fun x => find_pos x labels 0) xs) = Some ps ->
  forall p, In p ps -> 0 <= p < Z.of_nat (length labels).
Proof.
  intros E p Hp. apply opt_all_Some in E.
  assert (H : In (Some p) (map (fun x => find_pos x labels 0) xs)) by (rewrite E; apply in_map; exact Hp).
  apply in_map_iff in H as (x & Ex & _). apply find_pos_Some in Ex. lia.
Qed.

Lemma norm_in_range ps n : (forall p, In p ps -> 0 <= p < n) ->
  opt_all (map (fun i => norm_index i n) ps) = Some ps.
Proof.
  intros H. apply opt_all_Some. rewrite <- (map_id ps) at 2. rewrite map_map. apply map_ext_in.
  intros p Hp. specialize (H p Hp). unfold norm_index. replace ((0 <=? p) && (p <? n)) with true by lia. reflexivity.
Qed.

Lemma range_all n : 0 <= n -> range_list 0 1 (Z.to_nat (range_len 0 (n - 1 + 1) 1)) = map Z.of_nat (seq 0 (Z.to_nat n)).
Proof.
  intros Hn. rewrite range_list_0_1. f_equal. f_equal. unfold range_len. cbn [Z.ltb Z.compare].
  destruct (0 <? n - 1 + 1) eqn:E; [rewrite Z.div_1_r; lia|lia].
Qed.

(* THE TRANSLATION IS RIGHT: the positional key LocMap produces denotes exactly the positions of the labels *)
Theorem loc_map_refines (labels : list L) (k : lkey L) :
  (ck <- M_loc_map labels k;; ckey_sel ck (Z.of_nat (length labels))) = S_loc labels k.
Proof.
  set (n := Z.of_nat (length labels)). assert (Hn : 0 <= n) by (unfold n; lia).
  unfold Select.M_loc_map, Select.S_loc. fold n.
  destruct k as [x|xs|a b st|m|ps|k']; cbn [unpack_key].
  - (* one label *)
    destruct (find_pos x labels 0) as [p|] eqn:E; [|reflexivity]. cbn [res_bind ckey_sel].
    apply find_pos_Some in E. unfold norm_index. fold n in E.
    replace ((0 <=? p) && (p <? n)) with true by lia. reflexivity.
  - destruct (opt_all _) as [ps|] eqn:E; [|reflexivity]. cbn [res_bind ckey_sel key_positions].
    rewrite (norm_in_range ps n); [reflexivity|]. exact (find_all_range _ _ _ E).
  - (* slice *)
    assert (Hgen : (ck <- match find_opt leqb a labels with
                         | Err _ => Err "KeyError"
                         | Ok pa => match find_opt leqb b labels with
                                    | Err _ => Err "KeyError"
                                    | Ok pb => Ok (CSlice (mk_slice pa (match pb with Some p => incl_stop p st 0 | None => None end) st))
                                    end
                         end;; ckey_sel ck n)
                   = (pa <- find_opt leqb a labels;; pb <- find_opt leqb b labels;;
                      ps <- inclusive_range pa pb st n;; Ok (SMany ps))).
    { destruct (find_opt leqb a labels) as [pa|e] eqn:Ea.
      2: { unfold find_opt in Ea. destruct a as [x|]; [|discriminate]. destruct (find_pos x labels 0); [discriminate|].
           injection Ea as <-. reflexivity. }
      destruct (find_opt leqb b labels) as [pb|e] eqn:Eb.
      2: { unfold find_opt in Eb. destruct b as [x|]; [|discriminate]. destruct (find_pos x labels 0); [discriminate|].
           injection Eb as <-. reflexivity. }
      cbn [res_bind ckey_sel key_positions].
      rewrite <- (inclusive_slice_positions pa pb st n Hn).
      - destruct (positions _ n); reflexivity.
      - intros p ->. exact (find_opt_range _ _ _ Ea).
      - intros p ->. exact (find_opt_range _ _ _ Eb). }
    destruct a as [x|], b as [y|], st as [s|]; try exact Hgen.
    (* the null slice: the whole axis *)
    cbn [res_bind ckey_sel key_positions find_opt]. unfold inclusive_range. cbn [Z.eqb Z.gtb Z.compare].
    rewrite range_all by exact Hn. reflexivity.
  - (* Boolean array *)
    unfold ckey_sel. cbn [key_positions]. fold n.
    destruct (Z.of_nat (length m) =? n) eqn:E; [|reflexivity]. cbn [res_bind key_positions].
    rewrite mask_positions_norm by lia. reflexivity.
  - (* Boolean Series: reindexed onto the labels, absent labels False *)
    rewrite map_length. fold n. rewrite Z.eqb_refl. cbn [res_bind ckey_sel key_positions].
    rewrite mask_positions_norm by (rewrite map_length; reflexivity). reflexivity.
  - reflexivity.
Qed.

(* ---------- what the specification of label keys says ---------- *)
(* an absent label is a lookup error -- never some other label's data *)
Theorem absent_label_raises (labels : list L) (x : L) : ~ In x labels ->
  S_loc labels (LLabel x) = Err "KeyError" /\
  M_loc_map labels (LLabel x) = Err "KeyError" /\
  (forall xs, In x xs -> S_loc labels (LList xs) = Err "KeyError" /\ M_loc_map labels (LList xs) = Err "KeyError") /\
  (forall b st, S_loc labels (LSlice (Some x) b st) = Err "KeyError" /\ M_loc_map labels (LSlice (Some x) b st) = Err "KeyError").
Proof.
  intros Hx. pose proof (proj2 (find_pos_None x labels 0) Hx) as E.
  unfold Select.S_loc, Select.M_loc_map. cbn [unpack_key]. rewrite E.
  split; [reflexivity|]. split; [reflexivity|]. split.
  - intros xs Hin.
    assert (Hnone : opt_all (map (fun x0 => find_pos x0 labels 0) xs) = None).
    { destruct (opt_all _) as [ps|] eqn:Eo; [|reflexivity]. apply opt_all_Some in Eo.
      assert (H : In (find_pos x labels 0) (map (fun x0 => find_pos x0 labels 0) xs))
        by (apply in_map_iff; exists x; split; [reflexivity|exact Hin]).
      rewrite Eo, E in H. apply in_map_iff in H as (? & ? & _). discriminate. }
    rewrite Hnone. split; reflexivity.
  - intros b st. cbn [find_opt res_bind]. rewrite E. split; reflexivity.
Qed.

(* a label slice selects the positions from its start label through its stop label INCLUSIVE *)
Theorem label_slice_inclusive (labels : list L) (a b : L) (st : option Z) pa pb ps :
  find_pos a labels 0 = Some pa -> find_pos b labels 0 = Some pb ->
  (match st with Some s => 0 < s | None => True end) ->
  S_loc labels (LSlice (Some a) (Some b) st) = Ok (SMany ps) ->
  let s := match st with Some s => s | None => 1 end in
  (forall p, In p ps <-> pa <= p <= pb /\ (p - pa) mod s = 0) /\
  (pa <= pb -> (pb - pa) mod s = 0 -> In pb ps).
Proof.
  intros Ea Eb Hst. unfold Select.S_loc. cbn [find_opt res_bind]. rewrite Ea, Eb. cbn [res_bind].
  unfold inclusive_range. set (s := match st with Some s => s | None => 1 end).
  assert (Hs : 0 < s) by (subst s; destruct st; lia).
  replace (s =? 0) with false by lia. replace (s >? 0) with true by lia. cbn [res_bind].
  intros H. injection H as <-.
  assert (Hmem : forall p, In p (range_list pa s (Z.to_nat (range_len pa (pb + 1) s))) <-> pa <= p <= pb /\ (p - pa) mod s = 0).
  { intros p. rewrite range_list_In. unfold range_len. replace (s <? 0) with false by lia.
    destruct (pa <? pb + 1) eqn:Hlt.
    - split.
      + intros (i & Hi & ->). split; [|rewrite Z.add_simpl_l, Z.mod_mul; lia].
        assert (Z.of_nat i <= (pb + 1 - pa - 1) / s) by lia.
        assert (Z.of_nat i * s <= (pb + 1 - pa - 1) / s * s) by nia.
        pose proof (Z.mul_div_le (pb + 1 - pa - 1) s Hs). nia.
      + intros (Hr & Hm). exists (Z.to_nat ((p - pa) / s)).
        assert (Hq : p - pa = s * ((p - pa) / s)) by (apply Z_div_exact_full_2; lia).
        assert (0 <= (p - pa) / s) by (apply Z.div_pos; lia).
        split; [|rewrite Z2Nat.id by lia; lia].
        assert ((p - pa) / s <= (pb + 1 - pa - 1) / s) by (apply Z.div_le_mono; lia). lia.
    - split; [intros (i & Hi & _); cbn in Hi; lia|intros (Hr & _); lia]. }
  split; [exact Hmem|]. intros Hle Hm. apply Hmem. split; [lia|exact Hm].
Qed.

(* a Boolean Series key is aligned BY LABEL: position i is selected iff the Series holds True at label i *)
Theorem bool_series_aligned (labels : list L) (ps : list (L * bool)) :
  exists qs, S_loc labels (LBoolSeries ps) = Ok (SMany qs) /\
    (forall i, In i qs <-> exists l, nth_z labels i = Some l /\ assoc_bool l ps = true) /\
    increasing qs.
Proof.
  eexists. split; [reflexivity|]. split.
  - intros i. rewrite mask_positions_map_spec. rewrite Z.sub_0_r. split.
    + intros (l & Hn & Hv & _). exists l. split; assumption.
    + intros (l & Hn & Hv). exists l. split; [assumption|]. split; [assumption|].
      apply nth_z_Some in Hn. lia.
  - generalize (map (fun l => assoc_bool l ps) labels) as m. generalize 0 as i.
    intros i m. revert i. induction m as [|[|] m IH]; intros i; cbn [mask_positions]; [constructor| |apply IH].
    constructor; [apply IH|]. apply Forall_forall. intros x Hx. apply mask_positions_spec in Hx. lia.
Qed.

(* assoc_bool is the Series lookup: the value at the first occurrence of the label, False when absent *)
Lemma assoc_bool_absent l ps : ~ In l (map fst ps) -> assoc_bool l ps = false.
Proof.
  induction ps as [|[y v] r IH]; [reflexivity|]. cbn [Select.assoc_bool map fst In]. intros H.
  destruct (leqb l y) eqn:E; [apply leqb_spec in E; subst; exfalso; apply H; left; reflexivity|].
  apply IH. intros Hr. apply H. right. exact Hr.
Qed.

(* ---------- the auto-integer index: labels ARE positions, and the fast path does not validate ---------- *)
Variable as_z : L -> option Z.
Variable of_z : Z -> L.
Hypothesis as_of : forall z, as_z (of_z z) = Some z.
Hypothesis of_as : forall x z, as_z x = Some z -> x = of_z z.

Definition auto_labels (n : nat) : list L := map (fun i => of_z (Z.of_nat i)) (seq 0 n).

Lemma auto_labels_length n : length (auto_labels n) = n.
Proof. unfold auto_labels. now rewrite map_length, seq_length. Qed.

Lemma of_z_inj a b : of_z a = of_z b -> a = b.
Proof. intros H. apply (f_equal as_z) in H. rewrite !as_of in H. congruence. Qed.

Lemma auto_labels_NoDup n : NoDup (auto_labels n).
Proof.
  unfold auto_labels. apply FinFun.Injective_map_NoDup; [|apply seq_NoDup].
  intros a b H. apply of_z_inj in H. lia.
Qed.

Lemma auto_nth n z : 0 <= z < Z.of_nat n -> nth_z (auto_labels n) z = Some (of_z z).
Proof.
  intros H. unfold nth_z, auto_labels. replace (z <? 0) with false by lia.
  rewrite nth_error_map. rewrite (nth_error_nth' _ 0%nat) by (rewrite seq_length; lia).
  rewrite seq_nth by lia. cbn. f_equal. f_equal. lia.
Qed.

Lemma auto_find n x z : as_z x = Some z -> 0 <= z < Z.of_nat n -> find_pos x (auto_labels n) 0 = Some z.
Proof.
  intros Hx Hz. apply of_as in Hx. subst x.
  rewrite (find_pos_nth (auto_labels n) (auto_labels_NoDup n) z (of_z z) 0 (auto_nth n z Hz)). f_equal.
Qed.

(* the fast path validates: an integer is a label iff it lies in 0..n-1 *)
Lemma auto_not_in n x : (forall z, as_z x = Some z -> ~ (0 <= z < Z.of_nat n)) -> ~ In x (auto_labels n).
Proof.
  intros H Hin. unfold auto_labels in Hin. apply in_map_iff in Hin as (i & <- & Hi). apply in_seq in Hi.
  apply (H (Z.of_nat i) (as_of _)). lia.
Qed.

Lemma auto_label_find n x : auto_label as_z (Z.of_nat n) x = find_pos x (auto_labels n) 0.
Proof.
  unfold auto_label. destruct (as_z x) as [z|] eqn:Ez.
  - destruct ((0 <=? z) && (z <? Z.of_nat n)) eqn:Er.
    + symmetry. apply auto_find; [exact Ez|lia].
    + symmetry. apply find_pos_None. apply auto_not_in. intros z' Hz'. rewrite Ez in Hz'. injection Hz' as <-. lia.
  - symmetry. apply find_pos_None. apply auto_not_in. intros z' Hz'. congruence.
Qed.

(* the one thing the model does not share with the specification: a slice end that is not a number *)
Definition end_is_int (o : option L) : Prop :=
  match o with Some x => as_z x <> None | None => True end.

Definition auto_slice_ints (k : lkey L) : Prop :=
  match k with
  | LSlice a b _ => end_is_int a /\ end_is_int b
  | _ => True
  end.

Lemma auto_end_find n o : end_is_int o ->
  auto_end as_z (Z.of_nat n) o = find_opt leqb o (auto_labels n).
Proof.
  destruct o as [x|]; [|reflexivity]. unfold end_is_int. intros Hx. unfold auto_end, find_opt.
  pose proof (auto_label_find n x) as H. unfold auto_label in H.
  destruct (as_z x) as [z|]; [|congruence].
  destruct ((0 <=? z) && (z <? Z.of_nat n)); rewrite <- H; reflexivity.
Qed.

Theorem loc_auto_refines (n : nat) (k : lkey L) : auto_slice_ints k ->
  (ck <- M_loc_auto leqb as_z (auto_labels n) k;; ckey_sel ck (Z.of_nat n)) = S_loc (auto_labels n) k.
Proof.
  intros Hdom. unfold Select.M_loc_auto, Select.S_loc. rewrite auto_labels_length.
  assert (Hn : 0 <= Z.of_nat n) by lia.
  destruct k as [x|xs|a b st|m|ps|k']; cbn [unpack_key].
  - rewrite auto_label_find. destruct (find_pos x (auto_labels n) 0) as [p|] eqn:E; [|reflexivity].
    cbn [res_bind ckey_sel]. apply find_pos_Some in E. rewrite auto_labels_length in E.
    unfold norm_index. replace ((0 <=? p) && (p <? Z.of_nat n)) with true by lia. reflexivity.
  - rewrite (map_ext _ _ (auto_label_find n)).
    destruct (opt_all _) as [zs|] eqn:E; [|reflexivity]. cbn [res_bind ckey_sel key_positions].
    rewrite (norm_in_range zs (Z.of_nat n)); [reflexivity|].
    intros p Hp. pose proof (find_all_range _ _ _ E p Hp) as H. rewrite auto_labels_length in H. exact H.
  - destruct Hdom as [Ha Hb]. rewrite (auto_end_find n a Ha), (auto_end_find n b Hb).
    destruct (find_opt leqb a (auto_labels n)) as [za|e] eqn:Ea; cbn [res_bind]; [|reflexivity].
    destruct (find_opt leqb b (auto_labels n)) as [zb|e] eqn:Eb; cbn [res_bind]; [|reflexivity].
    assert (Hra : forall p, za = Some p -> 0 <= p < Z.of_nat n).
    { intros p ->. pose proof (find_opt_range _ _ _ Ea) as H. rewrite auto_labels_length in H. exact H. }
    assert (Hrb : forall p, zb = Some p -> 0 <= p < Z.of_nat n).
    { intros p ->. pose proof (find_opt_range _ _ _ Eb) as H. rewrite auto_labels_length in H. exact H. }
    assert (Hgen : ckey_sel (CSlice (incl_typed (mk_slice za zb st) 0)) (Z.of_nat n) =
                   (ps <- inclusive_range za zb st (Z.of_nat n);; Ok (SMany ps))).
    { cbn [ckey_sel key_positions]. unfold incl_typed. cbn [s_start s_stop s_step].
      replace (match za with Some a0 => Some (a0 + 0) | None => None end) with za by (destruct za; [f_equal; lia|reflexivity]).
      rewrite <- (inclusive_slice_positions za zb st (Z.of_nat n) Hn Hra Hrb).
      destruct (positions _ _); reflexivity. }
    destruct za as [pa|], zb as [pb|], st as [s|]; try exact Hgen.
    cbn [res_bind ckey_sel key_positions]. unfold inclusive_range. cbn [Z.eqb Z.gtb Z.compare].
    rewrite range_all by exact Hn. reflexivity.
  - reflexivity.
  - cbn [res_bind ckey_sel key_positions]. rewrite !map_length, auto_labels_length, Z.eqb_refl. reflexivity.
  - reflexivity.
Qed.

End Loc.
