(* C11 -- facts about the kernel util.resolve_dtype as REGENERATED from /repo (Gen/Gen_util.v)
   that the concatenation theorems rest on.  A change of the source that invalidates them breaks
   this file before any case is run. *)
Require Import SF.Prelude SF.Dtype SF.Value SF.PyDyn SF.Concat SF.ConcatVal Gen.Gen_util.

(* anything resolved with object is object: concat_resolved may stop folding once it reaches object *)
Lemma resolve_val_obj : forall d, resolve_val d DObj = DObj.
Proof.
  intro d. unfold resolve_val.
  destruct d as [|s b|b|b|n|n|u|u|]; try destruct s; vm_compute; reflexivity.
Qed.

(* structural equality of observed values decides equality (own copy: labels are compared with it) *)
Lemma c11_val_eqb_true : forall a b, val_eqb a b = true -> a = b.
Proof.
  fix IH 1. intros [z|b|s|n d|b| | | |u z|u z|s|l] [z'|b'|s'|n' d'|b'| | | |u' z'|u' z'|s'|l'];
    cbn; intros H; try discriminate; try reflexivity.
  - apply Z.eqb_eq in H. congruence.
  - apply Bool.eqb_prop in H. congruence.
  - apply String.eqb_eq in H. congruence.
  - apply andb_true_iff in H as [H1 H2]. apply Z.eqb_eq in H1, H2. congruence.
  - apply Bool.eqb_prop in H. congruence.
  - apply andb_true_iff in H as [H1 H2]. assert (u = u') by (destruct u, u'; cbv in H1; congruence). apply Z.eqb_eq in H2. congruence.
  - apply andb_true_iff in H as [H1 H2]. assert (u = u') by (destruct u, u'; cbv in H1; congruence). apply Z.eqb_eq in H2. congruence.
  - apply String.eqb_eq in H. congruence.
  - f_equal. revert l' H. induction l as [|x xs IHl]; intros [|y ys] H; try discriminate; [reflexivity|].
    apply andb_true_iff in H as [H1 H2]. apply IH in H1. apply IHl in H2. congruence.
Qed.

Lemma c11_val_eqb_spec a b : val_eqb a b = true <-> a = b.
Proof. split; [apply c11_val_eqb_true | intros ->; apply val_eqb_refl]. Qed.

(* the two-level label of the items forms determines its key and its inner label *)
Lemma pair_val_inj k1 l1 k2 l2 : pair_val k1 l1 = pair_val k2 l2 -> k1 = k2 /\ l1 = l2.
Proof. unfold pair_val. intro H. injection H as -> ->. split; reflexivity. Qed.

(* dtype_kind_to_na as regenerated: every dtype gets one of the three missing markers, and it is missing *)
Lemma na_of_val_isna d : isna (snd (na_of_val d)) = true.
Proof. destruct d as [|s b|b|b|n|n|u|u|]; try destruct s; vm_compute; reflexivity. Qed.
