(* C11 -- non-trivial instances of the hypotheses of the property theorems (they are satisfiable,
   and the three vstack strategies are all reachable). *)
Require Import SF.Prelude SF.Dtype SF.Value SF.Blocks SF.PyDyn SF.Concat SF.ConcatVal Gen.Gen_util.
Require Import Proofs.ConcatVstack Proofs.ConcatReindex.
Local Open Scope string_scope.

Definition ex_i (a b : Z) := [VInt a; VInt b].
Definition ex_f (a b : Z) := [VFlt a 1; VFlt b 1].
(* columns int,int,float in three layouts: 1|1|1, 2|1 (consolidated), 1s|1d|1 *)
Definition t_111 : tb val := [mkb (DInt true 8) true [ex_i 1 2]; mkb (DInt true 8) true [ex_i 3 4]; mkb (DFlt 8) true [ex_f 5 6]].
Definition t_21 : tb val := [mkb (DInt true 8) false [ex_i 7 8; ex_i 9 10]; mkb (DFlt 8) true [ex_f 11 12]].
Definition t_3f : tb val := [mkb (DFlt 8) false [ex_f 1 2; ex_f 3 4; ex_f 5 6]].
Definition t_12 : tb val := [mkb (DInt true 8) true [ex_i 1 2]; mkb (DFlt 8) false [ex_f 3 4; ex_f 5 6]].

Example ex_strategy_block : flag_of (@M_block_compatible val) [t_111; t_111] = true.
Proof. reflexivity. Qed.
Example ex_strategy_reblock :
  flag_of (@M_block_compatible val) [t_111; t_21] = false /\ flag_of (@M_reblock_compatible val) [t_111; t_21] = true.
Proof. split; reflexivity. Qed.
Example ex_strategy_column :
  flag_of (@M_block_compatible val) [t_21; t_12] = false /\ flag_of (@M_reblock_compatible val) [t_21; t_12] = false.
Proof. split; reflexivity. Qed.
Example ex_wf : Forall (@wf_widths val) [t_111; t_21; t_3f; t_12].
Proof. repeat constructor. Qed.

(* reblock-compatible although the dtypes differ (only run lengths are compared): int|int|float over one
   float block of three gives float64 columns, the ints stored as floats *)
Example ex_reblock_dtype_mix :
  flatten (M_vstack cast_val resolve_val [t_3f; t_3f]) =
  [(DFlt 8, (ex_f 1 2 ++ ex_f 1 2)%list); (DFlt 8, (ex_f 3 4 ++ ex_f 3 4)%list); (DFlt 8, (ex_f 5 6 ++ ex_f 5 6)%list)].
Proof. vm_compute. reflexivity. Qed.

Definition ex_a : vframe := mkf [VStr "x"; VStr "y"] [VStr "p"; VStr "q"; VStr "r"] t_111.
Definition ex_b : vframe := mkf [VStr "z"; VStr "w"] [VStr "q"; VStr "s"] [mkb (DFlt 8) false [ex_f 1 2; ex_f 3 4]].

Lemma ex_nodup_strs : NoDup [VStr "p"; VStr "q"; VStr "r"] /\ NoDup [VStr "q"; VStr "s"].
Proof.
  split; repeat (constructor; [cbn; intuition discriminate|]); constructor.
Qed.

Example ex_wf_frames : Forall (@wf_frame val val) [ex_a; ex_b].
Proof.
  constructor; [|constructor; [|constructor]]; unfold wf_frame; cbn [f_columns f_blocks ex_a ex_b mkf];
    (split; [reflexivity|split; [apply ex_nodup_strs|]]);
    repeat constructor; cbn; try lia; try discriminate; try reflexivity.
Qed.

(* a union with reindexing of both inputs succeeds: the hypotheses of C11_concat_axis0_refines hold *)
Example ex_concat0_ok :
  exists r, MV_concat false true ixn ixn (DFlt 8) VNaN [ex_a; ex_b] = Ok r /\
            f_index r = [VStr "x"; VStr "y"; VStr "z"; VStr "w"] /\
            f_columns r = [VStr "p"; VStr "q"; VStr "r"; VStr "s"].
Proof. eexists. vm_compute. repeat split. Qed.
