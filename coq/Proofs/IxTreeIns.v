(* C02 -- IndexHierarchy.from_labels, part 1: the dict-tree walk.  The tree built from an accepted
   label sequence lists exactly the labels, in order; a label is refused exactly when it re-enters a
   prefix group that is not the one of the label before it. *)
Require Import SF.Prelude SF.PySlice SF.IndexBij SF.IxTree Proofs.IndexBijFacts.

Lemma lastopt_cons {A} (y : A) l : l <> [] -> lastopt (y :: l) = lastopt l.
Proof. destruct l; [congruence | reflexivity]. Qed.

Lemma lastopt_snoc {A} (l : list A) x : lastopt (l ++ [x]) = Some x.
Proof.
  induction l as [|y l IH]; [reflexivity|]. cbn [app].
  rewrite lastopt_cons by (destruct l; discriminate). exact IH.
Qed.

Lemma lastopt_app {A} (a b : list A) : b <> [] -> lastopt (a ++ b) = lastopt b.
Proof.
  intros Hb. induction a as [|y a IH]; [reflexivity|]. cbn [app].
  rewrite lastopt_cons by (destruct a, b; try discriminate; congruence). exact IH.
Qed.

Lemma lastopt_split {A} (l : list A) x : lastopt l = Some x -> exists l0, l = l0 ++ [x].
Proof.
  induction l as [|y l IH]; [discriminate|]. cbn [lastopt]. destruct l as [|z l'].
  - intros H. injection H as ->. exists []. reflexivity.
  - intros H. destruct (IH H) as [l0 E]. exists (y :: l0). rewrite E. reflexivity.
Qed.

Lemma lastopt_None {A} (l : list A) : lastopt l = None -> l = [].
Proof.
  induction l as [|y l IH]; [reflexivity|]. cbn [lastopt]. destruct l; [discriminate|].
  intros H. apply IH in H. discriminate.
Qed.

Lemma lastopt_map {A B} (f : A -> B) (l : list A) : lastopt (map f l) = option_map f (lastopt l).
Proof.
  induction l as [|y l IH]; [reflexivity|]. cbn [map lastopt]. destruct l; [reflexivity|]. exact IH.
Qed.

Section Ins.
  Set Default Proof Using "All".
  Variable C : Type.
  Variable ceqb : C -> C -> bool.
  Hypothesis ceqb_spec : forall x y, ceqb x y = true <-> x = y.

  Notation tree := (tree C).
  Notation label := (label C).

  (* the labels a dict tree lists, in iteration order *)
  Fixpoint paths (t : tree) : list label :=
    match t with
    | TLeaf l => map (fun x => [x]) l
    | TNode ch => flat_map (fun p => map (cons (fst p)) (paths (snd p))) ch
    end.

  (* well-formed tree of uniform depth d: distinct keys in every dict, no empty sub-tree *)
  Fixpoint twf (d : nat) (t : tree) : Prop :=
    match d with
    | O => False
    | S d' => match t with
              | TLeaf _ => d' = O
              | TNode ch => d' <> O /\ NoDup (map fst ch) /\
                            Forall (fun p => twf d' (snd p) /\ paths (snd p) <> []) ch
              end
    end.

  (* observed_last agrees with the rightmost path of the tree (wherever the tree has one) *)
  Fixpoint rm_inv (d : nat) (t : tree) (last : list (option C)) : Prop :=
    match d with
    | O => True
    | S d' => match t with
              | TLeaf _ => True
              | TNode ch => match lastopt ch with
                            | None => True
                            | Some p => hd None last = Some (fst p) /\ rm_inv d' (snd p) (tl last)
                            end
              end
    end.

  (* the tree-order condition for appending lab after the labels P *)
  Definition okc (lab : label) (P : list label) : Prop :=
    forall p, (1 <= p < length lab)%nat ->
      (exists e, In e P /\ firstn p e = firstn p lab) ->
      exists q, lastopt P = Some q /\ firstn p q = firstn p lab.

  Lemma find_child_None v ch : find_child ceqb v ch = None <-> ~ In v (map fst ch).
  Proof.
    induction ch as [|[k t] ch IH]; cbn; [tauto|].
    destruct (ceqb v k) eqn:E.
    - apply ceqb_spec in E. subst. split; [discriminate|]. intros H. exfalso. apply H. auto.
    - rewrite IH. split; [|tauto]. intros H [->|H']; [|tauto].
      rewrite (ceqb_refl C ceqb ceqb_spec) in E. discriminate.
  Qed.

  Lemma find_child_last ch0 k sub : ~ In k (map fst ch0) ->
    find_child ceqb k (ch0 ++ [(k, sub)]) = Some sub.
  Proof.
    induction ch0 as [|[k' t] ch0 IH]; cbn; intros H.
    - rewrite (ceqb_refl C ceqb ceqb_spec). reflexivity.
    - destruct (ceqb k k') eqn:E; [apply ceqb_spec in E; subst; exfalso; apply H; auto|].
      apply IH. tauto.
  Qed.

  Lemma set_child_last ch0 k sub sub' : ~ In k (map fst ch0) ->
    set_child ceqb k sub' (ch0 ++ [(k, sub)]) = ch0 ++ [(k, sub')].
  Proof.
    induction ch0 as [|[k' t] ch0 IH]; cbn; intros H.
    - rewrite (ceqb_refl C ceqb ceqb_spec). reflexivity.
    - destruct (ceqb k k') eqn:E; [apply ceqb_spec in E; subst; exfalso; apply H; auto|].
      rewrite IH by tauto. reflexivity.
  Qed.

  Lemma paths_node_app a b : paths (TNode (a ++ b)) = paths (TNode a) ++ paths (TNode b).
  Proof. cbn. apply flat_map_app. Qed.

  Lemma paths_node_single k sub : paths (TNode [(k, sub)]) = map (cons k) (paths sub).
  Proof. cbn. rewrite app_nil_r. reflexivity. Qed.

  Lemma in_paths_node e ch : In e (paths (TNode ch)) <->
    exists k sub e', In (k, sub) ch /\ In e' (paths sub) /\ e = k :: e'.
  Proof.
    cbn. rewrite in_flat_map. split.
    - intros ([k sub] & Hin & He). cbn in He. apply in_map_iff in He. destruct He as (e' & <- & He').
      exists k, sub, e'. auto.
    - intros (k & sub & e' & Hin & He' & ->). exists (k, sub). split; [exact Hin|]. cbn.
      apply in_map_iff. exists e'. auto.
  Qed.

  Lemma firstn_S_cons {A} p (x : A) l : firstn (S p) (x :: l) = x :: firstn p l.
  Proof. reflexivity. Qed.

  (* ---- one label ---- *)
  Lemma ins_spec : forall (lab : label) (t : tree) (last : list (option C)),
    lab <> [] -> twf (length lab) t -> rm_inv (length lab) t last ->
    match ins ceqb lab last t with
    | Ok t' => twf (length lab) t' /\ paths t' = paths t ++ [lab] /\
               rm_inv (length lab) t' (map Some (removelast lab)) /\ okc lab (paths t)
    | Err e => e = "ErrorInitIndex"%string /\ ~ okc lab (paths t)
    end.
  Proof.
    induction lab as [|v rest IH]; intros t last Hne W R; [congruence|].
    destruct rest as [|r rs].
    - (* innermost component *)
      cbn [length] in W. cbn [twf] in W. destruct t as [l|ch]; [|destruct W as [W _]; congruence].
      cbn [ins]. split; [cbn; reflexivity|]. split; [cbn; rewrite map_app; reflexivity|].
      split; [cbn; exact I|]. intros p Hp. cbn in Hp. lia.
    - (* an inner component *)
      set (rest := r :: rs) in *. assert (Hrest : rest <> []) by (unfold rest; discriminate).
      change (length (v :: rest)) with (S (length rest)) in *.
      assert (Hlen : length rest <> O) by (unfold rest; cbn; lia).
      cbn [twf] in W. destruct t as [l|ch]; [congruence|]. destruct W as (_ & ND & FA).
      cbn [rm_inv] in R.
      assert (Eins : ins ceqb (v :: rest) last (TNode ch) =
                match find_child ceqb v ch with
                | None => match ins ceqb rest (tl last) (fresh rest) with
                          | Ok sub => Ok (TNode (ch ++ [(v, sub)]))
                          | Err e => Err e
                          end
                | Some sub => if last_is ceqb v (hd None last) then
                                match ins ceqb rest (tl last) sub with
                                | Ok sub' => Ok (TNode (set_child ceqb v sub' ch))
                                | Err e => Err e
                                end
                              else Err "ErrorInitIndex"
                end) by reflexivity.
      rewrite Eins. clear Eins.
      assert (Hrl : removelast (v :: rest) = v :: removelast rest) by reflexivity.
      destruct (find_child ceqb v ch) as [sub|] eqn:Ef.
      + (* v is already a key of this dict *)
        assert (Hch : ch <> []) by (destruct ch; [discriminate | discriminate]).
        destruct (lastopt ch) as [[k subl]|] eqn:El; [|apply lastopt_None in El; congruence].
        destruct (lastopt_split _ _ El) as [ch0 Ech]. subst ch.
        destruct R as [Rh Rt]. cbn [fst snd] in Rh, Rt.
        rewrite map_app in ND. cbn [map fst] in ND.
        assert (Hk0 : ~ In k (map fst ch0)).
        { intros Hin. apply NoDup_remove_2 in ND. apply ND. rewrite app_nil_r. exact Hin. }
        apply Forall_app in FA. destruct FA as [FA0 FAl]. inversion FAl as [|? ? [Wl Nl] _]; subst. cbn [snd] in Wl, Nl.
        rewrite Rh. cbn [last_is].
        destruct (ceqb v k) eqn:Evk.
        * (* re-entering the dict of the previous label *)
          apply ceqb_spec in Evk. subst v.
          rewrite (find_child_last ch0 k subl Hk0) in Ef. injection Ef as <-.
          specialize (IH subl (tl last) Hrest Wl Rt).
          assert (Plast : lastopt (paths (TNode (ch0 ++ [(k, subl)]))) = option_map (cons k) (lastopt (paths subl))).
          { rewrite paths_node_app, paths_node_single, lastopt_app, lastopt_map; [reflexivity|].
            destruct (paths subl); [congruence | discriminate]. }
          destruct (ins ceqb rest (tl last) subl) as [sub'|e] eqn:Ei.
          -- destruct IH as (W' & P' & R' & OK').
             rewrite (set_child_last ch0 k subl sub' Hk0).
             split.
             { cbn [twf]. split; [exact Hlen|]. split; [rewrite map_app; exact ND|].
               apply Forall_app. split; [exact FA0|]. constructor; [|constructor]. cbn [snd].
               split; [exact W'|]. rewrite P'. destruct (paths subl); discriminate. }
             split.
             { rewrite !paths_node_app, !paths_node_single, P', map_app, app_assoc. reflexivity. }
             split.
             { cbn [rm_inv]. rewrite lastopt_snoc. cbn [fst snd]. rewrite Hrl. cbn [map hd tl]. auto. }
             intros p Hp (e & He & Hpe).
             rewrite Plast.
             destruct (lastopt (paths subl)) as [q'|] eqn:Eq; [|apply lastopt_None in Eq; congruence].
             exists (k :: q'). split; [reflexivity|].
             destruct p as [|p']; [lia|]. rewrite !firstn_S_cons. f_equal.
             destruct p' as [|p'']; [reflexivity|].
             (* deeper prefix: by the condition inside the sub-tree *)
             apply in_paths_node in He. destruct He as (k1 & sub1 & e' & Hin1 & He' & ->).
             rewrite !firstn_S_cons in Hpe. injection Hpe as Hk1 Hpe. subst k1.
             assert (sub1 = subl).
             { apply in_app_or in Hin1. destruct Hin1 as [Hin1|[Hin1|[]]]; [|congruence].
               exfalso. apply Hk0. apply in_map_iff. exists (k, sub1). auto. }
             subst sub1.
             destruct (OK' (S p'')) as (q2 & Hq2 & Hf2).
             { cbn [length] in Hp. lia. }
             { exists e'. auto. }
             rewrite Eq in Hq2. injection Hq2 as <-. exact Hf2.
          -- destruct IH as [-> NOK]. split; [reflexivity|]. intros OK. apply NOK.
             intros p' Hp' (e' & He' & Hpe').
             destruct (OK (S p')) as (q & Hq & Hfq).
             { cbn [length]. lia. }
             { exists (k :: e'). split; [|rewrite !firstn_S_cons; f_equal; exact Hpe'].
               apply in_paths_node. exists k, subl, e'. split; [apply in_or_app; right; left; reflexivity | auto]. }
             rewrite Plast in Hq. destruct (lastopt (paths subl)) as [q'|]; [|discriminate].
             injection Hq as <-. exists q'. split; [reflexivity|].
             rewrite !firstn_S_cons in Hfq. injection Hfq as Hfq. exact Hfq.
        * (* the key belongs to an earlier group: refused *)
          split; [reflexivity|]. intros OK.
          assert (Hin : In v (map fst (ch0 ++ [(k, subl)]))).
          { apply Decidable.not_not; [|intro N; apply find_child_None in N; congruence].
            destruct (memb ceqb v (map fst (ch0 ++ [(k, subl)]))) eqn:M;
              [left; apply (memb_In C ceqb ceqb_spec); exact M | right; apply (memb_false C ceqb ceqb_spec); exact M]. }
          apply in_map_iff in Hin. destruct Hin as ([k1 sub1] & Hk1 & Hin1). cbn [fst] in Hk1. subst k1.
          assert (Hne1 : paths sub1 <> []).
          { assert (FA : Forall (fun p => twf (length rest) (snd p) /\ paths (snd p) <> []) (ch0 ++ [(k, subl)])).
            { apply Forall_app. split; [exact FA0|]. constructor; [auto | constructor]. }
            rewrite Forall_forall in FA. apply (FA (v, sub1) Hin1). }
          destruct (paths sub1) as [|e' P1] eqn:Ep; [congruence|].
          destruct (OK 1%nat) as (q & Hq & Hfq).
          { cbn [length]. lia. }
          { exists (v :: e'). split; [|reflexivity]. apply in_paths_node. exists v, sub1, e'.
            rewrite Ep. split; [exact Hin1|]. split; [left; reflexivity | reflexivity]. }
          assert (Plast : lastopt (paths (TNode (ch0 ++ [(k, subl)]))) = option_map (cons k) (lastopt (paths subl))).
          { rewrite paths_node_app, paths_node_single, lastopt_app, lastopt_map; [reflexivity|].
            destruct (paths subl); [congruence | discriminate]. }
          rewrite Plast in Hq. destruct (lastopt (paths subl)) as [q'|]; [|discriminate].
          injection Hq as <-. cbn in Hfq. injection Hfq as Hfq. subst k.
          rewrite (ceqb_refl C ceqb ceqb_spec) in Evk. discriminate.
      + (* a new key: a fresh container is created and the rest of the label walked into it *)
        apply find_child_None in Ef.
        assert (Wf : twf (length rest) (fresh rest)).
        { unfold rest. destruct rs as [|r2 rs2]; cbn; [reflexivity|]. split; [discriminate|]. split; constructor. }
        assert (Rf : rm_inv (length rest) (fresh rest) (tl last)).
        { unfold rest. destruct rs as [|r2 rs2]; cbn; exact I. }
        assert (Pf : paths (fresh rest) = []) by (unfold rest; destruct rs; reflexivity).
        specialize (IH (fresh rest) (tl last) Hrest Wf Rf). rewrite Pf in IH.
        destruct (ins ceqb rest (tl last) (fresh rest)) as [sub|e].
        * destruct IH as (W' & P' & R' & _). cbn [app] in P'.
          split.
          { cbn [twf]. split; [exact Hlen|]. split.
            - rewrite map_app. cbn [map fst].
              apply (Permutation_NoDup (Permutation_cons_append (map fst ch) v)). constructor; assumption.
            - apply Forall_app. split; [exact FA|]. constructor; [|constructor]. cbn [snd].
              split; [exact W'|]. rewrite P'. discriminate. }
          split.
          { rewrite paths_node_app, paths_node_single, P'. reflexivity. }
          split.
          { cbn [rm_inv]. rewrite lastopt_snoc. cbn [fst snd]. rewrite Hrl. cbn [map hd tl]. auto. }
          intros p Hp (e & He & Hpe). exfalso.
          apply in_paths_node in He. destruct He as (k1 & sub1 & e' & Hin1 & _ & ->).
          destruct p as [|p']; [lia|]. rewrite !firstn_S_cons in Hpe. injection Hpe as Hk1 _. subst k1.
          apply Ef. apply in_map_iff. exists (v, sub1). auto.
        * exfalso. destruct IH as [_ NOK]. apply NOK. intros p _ (e' & [] & _).
  Qed.

End Ins.
