(* C14 -- dropna: the keep mask of TypeBlocks.dropna_to_keep_locations equals the specification, except for the
   single-1-D-block frame on axis 1 with the decision reshaped = false (the code before /repo 35bd018; witness below). *)
Require Import SF.Prelude SF.Value SF.Missing SF.MissingCheck.

Lemma transpose_map {X Y} (f : X -> Y) n : forall lines : list (list X),
  transpose n (map (map f) lines) = map (map f) (transpose n lines).
Proof.
  induction n as [|n IH]; intros lines; [reflexivity|].
  cbn [transpose map]. f_equal.
  - rewrite map_map, concat_map, map_map. f_equal. apply map_ext. intros ln. destruct ln; reflexivity.
  - rewrite <- IH. f_equal. rewrite !map_map. apply map_ext. intros ln. destruct ln; reflexivity.
Qed.

Lemma transpose_single {X} (col : list X) : transpose (length col) [col] = map (fun x => [x]) col.
Proof.
  induction col as [|x t IH]; [reflexivity|]. cbn [length transpose map concat firstn tl app]. rewrite IH. reflexivity.
Qed.

Lemma existsb_id_map {X} (f : X -> bool) l : existsb (fun b => b) (map f l) = existsb f l.
Proof. induction l as [|a t IH]; cbn; congruence. Qed.
Lemma forallb_id_map {X} (f : X -> bool) l : forallb (fun b => b) (map f l) = forallb f l.
Proof. induction l as [|a t IH]; cbn; congruence. Qed.

Section Drop.
Context {A : Type}.

Theorem dropna_keep_refines (reshaped axis1 use_any : bool) (nrows : nat) (single1d : bool) (cols : list (list (option A))) :
  (single1d = true -> reshaped = true \/ (axis1 = false /\ exists col, cols = [col] /\ length col = nrows)) ->
  M_dropna_keep reshaped axis1 use_any nrows single1d (map (map is_missing) cols) = S_keep axis1 use_any nrows cols.
Proof.
  intros H. unfold M_dropna_keep, S_keep, line_drop.
  destruct (single1d && negb reshaped) eqn:E.
  - apply andb_true_iff in E as [-> E]. apply negb_true_iff in E. subst reshaped.
    destruct (H eq_refl) as [H1 | (-> & col & -> & <-)]; [discriminate|]. cbn [map]. rewrite transpose_single, !map_map.
    apply map_ext. intros c. destruct use_any; cbn; rewrite ?orb_false_r, ?andb_true_r; reflexivity.
  - replace (if axis1 then map (map is_missing) cols else transpose nrows (map (map is_missing) cols))
      with (map (map is_missing) (if axis1 then cols else transpose nrows cols))
      by (destruct axis1; [reflexivity | symmetry; apply transpose_map]).
    rewrite map_map. apply map_ext. intros ln. destruct use_any; rewrite ?existsb_id_map, ?forallb_id_map; reflexivity.
Qed.

End Drop.

(* with the old decision the guard is necessary: one column [1; NaN] as a single 1-D block, axis 1 *)
Example old_dropna_decision_needs_guard :
  M_dropna_keep false true true 2 true (map (map is_missing) [[Some 1; None]]) <> S_keep true true 2 [[Some 1; @None Z]].
Proof. vm_compute. discriminate. Qed.
