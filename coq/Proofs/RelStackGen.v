(* C20 -- pivot_unstack against the text REGENERATED from frame.py: the source no longer takes the dtype of a
   new column from the last group visited (Gen/Gen_c20.v gen_unstack_dtype_from_last_group = false, repaired by
   /repo 8198989), so the implementation model equals the label-keyed specification for EVERY fill value,
   whatever NumPy would do when casting it into a source dtype.  Reverting the repair regenerates the flag as
   `true` and the `discriminate` below no longer closes: the obligation breaks before any case is run. *)
Require Import SF.Prelude SF.RelStack Gen.Gen_c20 Proofs.RelStackRefine.

Theorem unstack_refines_regenerated : forall (G T C A : Type) (geqb : G -> G -> bool) (teqb : T -> T -> bool) (ceqb : C -> C -> bool),
  (forall a b, geqb a b = true <-> a = b) -> (forall a b, teqb a b = true <-> a = b) -> (forall a b, ceqb a b = true <-> a = b) ->
  forall (fill : A) castfill (f : sframe A (G * T) C),
  NoDup (sf_rows f) -> NoDup (sf_cols f) ->
  M_unstack geqb teqb gen_unstack_dtype_from_last_group fill castfill f = Ok (S_unstack geqb teqb ceqb fill f).
Proof.
  intros G T C A geqb teqb ceqb Hg Ht Hc fill castfill f NDr NDc.
  apply (unstack_refines geqb teqb ceqb Hg Ht Hc); [assumption|assumption|].
  intros H. vm_compute in H. discriminate H.
Qed.

(* regression (the former witness of the finding): int column v over the index (p,x) (q,x) (q,y), fill 0.5, with the
   cast oracle answering 0 for "0.5 into int64": the hole under the first group now holds the fill value itself *)
Example unstack_fill_regression :
  let f : sframe Z (Z * Z) Z := mk_sframe [(1, 7); (2, 7); (2, 8)] [5] [[10]; [20]; [30]] in
  M_unstack Z.eqb Z.eqb gen_unstack_dtype_from_last_group (-1) [Ok 0] f = Ok (S_unstack Z.eqb Z.eqb Z.eqb (-1) f) /\
  sf_cells (S_unstack Z.eqb Z.eqb Z.eqb (-1) f) = [[10; -1]; [20; 30]].
Proof. split; reflexivity. Qed.
