(* C17 -- the specification S keeps its invariant over EVERY history: the cache is duplicate free,
   inside the labels, and never longer than max_persist; labels stay duplicate free through every derivation. *)
Require Import SF.Prelude SF.PySlice SF.BusSpec Proofs.SliceFacts Proofs.BusSpecFacts Proofs.BusResolve.

Lemma insert_by_perm {A} (le : A -> A -> bool) x l : Permutation (insert_by le x l) (x :: l).
Proof.
  induction l as [|y r IH]; cbn; [reflexivity|].
  destruct (le x y); [reflexivity|].
  rewrite IH. apply perm_swap.
Qed.

Lemma isort_perm {A} (le : A -> A -> bool) l : Permutation (isort le l) l.
Proof.
  induction l as [|x r IH]; cbn; [reflexivity|].
  rewrite insert_by_perm. constructor. exact IH.
Qed.

Lemma filter_map_length {A} (f : A -> bool) (l : list A) :
  length (filter (fun x : bool => x) (map f l)) = length (filter f l).
Proof. induction l as [|x r IH]; cbn; [reflexivity|]. destruct (f x); cbn; rewrite IH; reflexivity. Qed.

Section Inv.
Variable L : Type.
Variable leqb : L -> L -> bool.
Hypothesis leqb_spec : forall x y, leqb x y = true <-> x = y.

Notation mem := (mem L leqb).
Notation la_touch := (la_touch L leqb).
Notation s_touch := (s_touch L leqb).
Notation s_access_all := (s_access_all L leqb).
Notation s_derive := (s_derive L leqb).
Notation s_flags := (s_flags L leqb).
Notation sbus := (sbus L).
Notation labels_at := (labels_at L).
Notation resolve := (resolve L leqb).
Notation cache_ok := (cache_ok L).

Lemma labels_at_In labels ps l :
  In l (labels_at labels ps) <-> exists p, In p ps /\ nth_error labels p = Some l.
Proof.
  unfold BusSpec.labels_at. rewrite in_flat_map. split.
  - intros (p & Hp & Hl). exists p. split; [exact Hp|].
    destruct (nth_error labels p) as [x|]; [|contradiction]. destruct Hl as [<-|[]]. reflexivity.
  - intros (p & Hp & E). exists p. split; [exact Hp|]. rewrite E. left. reflexivity.
Qed.

Lemma labels_at_cons labels p r :
  labels_at labels (p :: r) = match nth_error labels p with Some l => [l] | None => [] end ++ labels_at labels r.
Proof. reflexivity. Qed.

Lemma labels_at_NoDup labels ps : NoDup labels -> NoDup ps -> NoDup (labels_at labels ps).
Proof.
  intros Nl Np. induction Np as [|p r Hp Np IH]; [constructor|].
  rewrite labels_at_cons. destruct (nth_error labels p) as [l|] eqn:E; [|exact IH].
  cbn. constructor; [|exact IH].
  intro H. apply labels_at_In in H as (q & Hq & Eq).
  assert (p = q); [|subst; contradiction].
  apply (proj1 (NoDup_nth_error labels) Nl); [apply nth_error_Some; congruence | congruence].
Qed.

Lemma labels_at_incl labels ps : incl (labels_at labels ps) labels.
Proof. intros l H. apply labels_at_In in H as (p & _ & E). eapply nth_error_In, E. Qed.

Definition sbus_ok (b : sbus) : Prop :=
  NoDup (sb_labels L b) /\ cache_ok (sb_mp L b) (sb_cache L b) /\ incl (sb_cache L b) (sb_labels L b).

Lemma s_touch_In mp l c x : In x (s_touch mp l c) -> x = l \/ In x c.
Proof.
  unfold BusSpec.s_touch, BusSpec.s_trim. intro H.
  assert (In x (la_touch l c)) as H'.
  { destruct mp as [k|]; [|exact H]. destruct (_ >? k); [|exact H].
    destruct (la_touch l c); cbn in *; auto. }
  unfold BusSpec.la_touch in H'. apply in_app_iff in H' as [H'|[<-|[]]]; [|auto].
  apply (la_remove_In L leqb leqb_spec) in H'. tauto.
Qed.

Lemma s_access_all_incl coh mp ls labels : forall c,
  incl ls labels -> incl c labels -> incl (snd (s_access_all coh mp c ls)) labels.
Proof.
  induction ls as [|l r IH]; intros c Hl Hc; cbn; [exact Hc|].
  destruct (mem l c || coh); [|exact Hc].
  apply IH; [intros x Hx; apply Hl; right; exact Hx|].
  intros x Hx. apply s_touch_In in Hx as [->|Hx]; [apply Hl; left; reflexivity | apply Hc, Hx].
Qed.

Lemma s_with_cache_ok b ls coh :
  sbus_ok b -> incl ls (sb_labels L b) ->
  sbus_ok (s_with_cache L b (snd (s_access_all coh (sb_mp L b) (sb_cache L b) ls))).
Proof.
  intros (Nl & Ck & Inc) Hl. unfold sbus_ok; cbn. split; [exact Nl|]. split.
  - apply (s_access_all_ok L leqb leqb_spec), Ck.
  - apply s_access_all_incl; assumption.
Qed.

Lemma filter_mem_length c ls : NoDup ls -> (length (filter (fun l => mem l c) ls) <= length c)%nat.
Proof.
  intro N. apply NoDup_incl_length; [apply NoDup_filter, N|].
  intros x H. apply filter_In in H as [_ H]. apply (mem_In L leqb leqb_spec) in H. exact H.
Qed.

Lemma s_derive_ok b ls : sbus_ok b -> NoDup ls -> sbus_ok (s_derive b ls).
Proof.
  intros (Nl & (Nc & Bd) & Inc) N. unfold sbus_ok, BusSpec.s_derive; cbn.
  split; [exact N|]. split.
  - split; [apply NoDup_filter, N|].
    destruct (sb_mp L b) as [k|]; [|exact I]. destruct Bd as [K Bd]. split; [exact K|].
    pose proof (filter_mem_length (sb_cache L b) ls N). lia.
  - intros x H. apply filter_In in H. tauto.
Qed.

Lemma s_derive_mp b ls : sb_mp L (s_derive b ls) = sb_mp L b.
Proof. reflexivity. Qed.

Lemma complement_ok n ps : positions_ok n (complement n ps).
Proof.
  unfold complement, positions_ok. split; [apply NoDup_filter, seq_NoDup|].
  apply Forall_forall. intros p H. apply filter_In in H as [H _]. apply in_seq in H. lia.
Qed.

Lemma has_dup_false ls : has_dup L leqb ls = false -> NoDup ls.
Proof.
  induction ls as [|x r IH]; cbn; intro H; [constructor|].
  apply orb_false_iff in H as [H1 H2]. constructor; [|apply IH, H2].
  apply (mem_false L leqb leqb_spec), H1.
Qed.

Variable F : Type.
Variable lleb : L -> L -> bool.
Variable fkey : F -> Z.
Notation s_step := (s_step L F leqb lleb fkey).
Notation s_exec := (s_exec L F leqb lleb fkey).

Lemma sort_labels_NoDup asc ls : NoDup ls -> NoDup (sort_labels L lleb asc ls).
Proof.
  intro N. unfold sort_labels.
  assert (Permutation (isort lleb ls) ls) as P by apply isort_perm.
  destruct asc.
  - eapply Permutation_NoDup; [symmetry; exact P | exact N].
  - eapply Permutation_NoDup; [|exact N]. rewrite <- Permutation_rev. symmetry. exact P.
Qed.

Lemma sort_by_key_perm {A} asc (kv : list (A * Z)) : Permutation (sort_by_key asc kv) (map fst kv).
Proof.
  unfold sort_by_key. apply Permutation_map.
  destruct asc; [apply isort_perm|]. rewrite <- Permutation_rev. apply isort_perm.
Qed.

Lemma s_bus_result_ok b d into : sbus_ok b -> sbus_ok d -> sbus_ok (snd (s_bus_result L F leqb b d into)).
Proof. intros Hb Hd. unfold s_bus_result; cbn. destruct into; assumption. Qed.

Lemma s_bus_result_mp b d into : sb_mp L d = sb_mp L b -> sb_mp L (snd (s_bus_result L F leqb b d into)) = sb_mp L b.
Proof. intro H. unfold s_bus_result; cbn. destruct into; auto. Qed.

Lemma s_select_ok st b k into : sbus_ok b ->
  sbus_ok (snd (s_select L F leqb st b k into)) /\ sb_mp L (snd (s_select L F leqb st b k into)) = sb_mp L b.
Proof.
  intro Hb. unfold s_select.
  destruct (resolve (sb_labels L b) k) as [[single ps]|e] eqn:R; [|cbn; auto].
  apply (resolve_ok L leqb leqb_spec) in R as [Np Fp].
  set (ls := labels_at (sb_labels L b) ps).
  assert (incl ls (sb_labels L b)) as Il by apply labels_at_incl.
  assert (NoDup ls) as Nls by (apply labels_at_NoDup; [apply Hb | exact Np]).
  pose proof (s_with_cache_ok b ls (s_coherent L F st) Hb Il) as Hb'.
  destruct (s_access_all (s_coherent L F st) (sb_mp L b) (sb_cache L b) ls) as [ok c] eqn:A. cbn [snd] in Hb'.
  destruct ok; cbn [negb]; [|cbn; auto].
  destruct single; [cbn; auto|].
  split; [apply s_bus_result_ok; [exact Hb' | apply s_derive_ok; assumption] | rewrite s_bus_result_mp; reflexivity].
Qed.

Lemma s_all_ok st b : sbus_ok b ->
  sbus_ok (snd (s_all L F leqb st b)) /\ sb_mp L (snd (s_all L F leqb st b)) = sb_mp L b.
Proof.
  intro Hb. unfold s_all.
  pose proof (s_with_cache_ok b (sb_labels L b) (s_coherent L F st) Hb (incl_refl _)) as Hb'.
  destruct (s_access_all _ _ _ _) as [ok c]. cbn in *. auto.
Qed.

Lemma s_step_ok st b o : sbus_ok b ->
  sbus_ok (snd (s_step st b o)) /\ sb_mp L (snd (s_step st b o)) = sb_mp L b.
Proof.
  intro Hb. destruct o as [k into| | | | |l| | |k into|ls into|asc into|asc into|f]; cbn [BusSpec.s_step].
  - pose proof (s_select_ok st b k into Hb). destruct (s_select L F leqb st b k into); cbn in *; auto.
  - pose proof (s_all_ok st b Hb). destruct (s_all L F leqb st b); cbn in *; auto.
  - pose proof (s_all_ok st b Hb). destruct (s_all L F leqb st b); cbn in *; auto.
  - cbn; auto.
  - cbn; auto.
  - destruct (mem l (sb_labels L b)); [|cbn; auto].
    pose proof (s_select_ok st b (KLabel L l) false Hb). destruct (s_select L F leqb st b _ false); cbn in *; auto.
  - pose proof (s_all_ok st b Hb). destruct (s_all L F leqb st b); cbn in *; auto.
  - pose proof (s_all_ok st b Hb). destruct (s_all L F leqb st b); cbn in *; auto.
  - destruct (resolve (sb_labels L b) k) as [[single ps]|e] eqn:R; [|cbn; auto].
    set (ls := labels_at _ _).
    assert (sbus_ok (s_derive b ls)) as Hd.
    { apply s_derive_ok; [exact Hb|]. apply labels_at_NoDup; [apply Hb | apply complement_ok]. }
    pose proof (s_bus_result_ok b _ into Hb Hd). pose proof (s_bus_result_mp b (s_derive b ls) into eq_refl).
    destruct (s_bus_result L F leqb b (s_derive b ls) into); cbn in *; auto.
  - destruct (has_dup L leqb ls) eqn:D; [cbn; auto|].
    destruct (forallb _ ls); cbn [negb]; [|cbn; auto].
    assert (sbus_ok (s_derive b ls)) as Hd by (apply s_derive_ok; [exact Hb | apply has_dup_false, D]).
    pose proof (s_bus_result_ok b _ into Hb Hd). pose proof (s_bus_result_mp b (s_derive b ls) into eq_refl).
    destruct (s_bus_result L F leqb b (s_derive b ls) into); cbn in *; auto.
  - set (ls := sort_labels _ _ _ _).
    assert (sbus_ok (s_derive b ls)) as Hd by (apply s_derive_ok; [exact Hb | apply sort_labels_NoDup, Hb]).
    pose proof (s_bus_result_ok b _ into Hb Hd). pose proof (s_bus_result_mp b (s_derive b ls) into eq_refl).
    destruct (s_bus_result L F leqb b (s_derive b ls) into); cbn in *; auto.
  - pose proof (s_all_ok st b Hb) as [Hb' Mp]. destruct (s_all L F leqb st b) as [ok b'] eqn:A. cbn [snd] in *.
    destruct ok; cbn [negb]; [|cbn; auto].
    set (ls := sort_by_key _ _).
    assert (NoDup ls) as Nls.
    { eapply Permutation_NoDup; [symmetry; apply sort_by_key_perm|].
      replace (map fst (map (fun l => (l, match eager L F leqb st l with Some f => fkey f | None => 0 end)) (sb_labels L b))) with (sb_labels L b); [apply Hb|].
      induction (sb_labels L b) as [|x r IHr]; cbn; [reflexivity | f_equal; exact IHr]. }
    assert (sbus_ok (s_derive b' ls)) as Hd by (apply s_derive_ok; assumption).
    pose proof (s_bus_result_ok b' _ into Hb' Hd). pose proof (s_bus_result_mp b' (s_derive b' ls) into eq_refl).
    destruct (s_bus_result L F leqb b' (s_derive b' ls) into); cbn in *. split; [auto | congruence].
  - cbn; auto.
Qed.

Theorem s_exec_ok ops : forall st b, sbus_ok b ->
  sbus_ok (snd (s_exec st b ops)) /\ sb_mp L (snd (s_exec st b ops)) = sb_mp L b.
Proof.
  induction ops as [|o r IH]; intros st b Hb; cbn; [auto|].
  pose proof (s_step_ok st b o Hb) as [H1 H2].
  destruct (s_step st b o) as [[x st'] b']. cbn [snd] in *.
  destruct (IH st' b' H1) as [H3 H4]. split; [exact H3 | congruence].
Qed.

(* the loaded flags a caller can see never count more than max_persist *)
Lemma flags_count b : sbus_ok b -> forall k, sb_mp L b = Some k -> count_true (s_flags b) <= k.
Proof.
  intros (Nl & (Nc & Bd) & Inc) k E. rewrite E in Bd. destruct Bd as [K Bd].
  unfold count_true, BusSpec.s_flags.
  rewrite filter_map_length.
  pose proof (filter_mem_length (sb_cache L b) (sb_labels L b) Nl). lia.
Qed.

Lemma s_open_ok (st : store L F) mp : NoDup (map fst (st_content L F st)) ->
  (forall k, mp = Some k -> 1 <= k) -> sbus_ok (s_open L F st mp).
Proof.
  intros N K. unfold sbus_ok, s_open; cbn. split; [exact N|]. split; [|intros x []].
  split; [constructor|]. destruct mp as [k|]; [|exact I]. split; [apply K; reflexivity | cbn; specialize (K k eq_refl); lia].
Qed.

(* BOUND over every history, for a Bus opened on any store with max_persist = k >= 1 *)
Theorem s_bound st k ops : NoDup (map fst (st_content L F st)) -> 1 <= k ->
  count_true (s_flags (snd (s_exec st (s_open L F st (Some k)) ops))) <= k.
Proof.
  intros N K.
  assert (sbus_ok (s_open L F st (Some k))) as H0 by (apply s_open_ok; [exact N | intros k' E; injection E as <-; exact K]).
  destruct (s_exec_ok ops st _ H0) as [H1 H2]. apply flags_count; [exact H1 | exact H2].
Qed.

End Inv.
