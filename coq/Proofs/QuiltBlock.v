(* C19 -- the widest guard: Quilt selection is right exactly for keys that visit the members one after
   the other with ascending positions inside each member (e.g. [3;4;0;1] over members of 2+3 lines). *)
Require Import SF.Prelude SF.PySlice SF.Value SF.Quilt Proofs.QuiltSeg Proofs.QuiltRefine.

Local Open Scope nat_scope.

(* ------------------------------------------------------------------ strictly ascending lists *)
Lemma asc_nat_sorted l : asc_nat l = true <-> StronglySorted lt l.
Proof.
  induction l as [|x r IH]; [split; [constructor | reflexivity]|]. split; intros H.
  - constructor; [apply IH; eapply asc_nat_tail; eauto|]. apply Forall_forall. intros p Hp. eapply asc_nat_head_lt; eauto.
  - inversion H as [|? ? Hs Hf]; subst. destruct r as [|y r]; [reflexivity|]. rewrite asc_nat_cons. apply andb_true_iff. split.
    + apply Nat.ltb_lt. rewrite Forall_forall in Hf. apply Hf. left. reflexivity.
    + apply IH. exact Hs.
Qed.

Lemma sorted_filter (f : nat -> bool) l : StronglySorted lt l -> StronglySorted lt (filter f l).
Proof.
  induction 1 as [|x r Hs IH Hf]; [constructor|]. cbn [filter]. destruct (f x); [|exact IH].
  constructor; [exact IH|]. apply Forall_forall. intros p Hp. apply filter_In in Hp as [Hp _].
  rewrite Forall_forall in Hf. apply Hf. exact Hp.
Qed.

Lemma sorted_ext : forall l1 l2, StronglySorted lt l1 -> StronglySorted lt l2 ->
  (forall x, In x l1 <-> In x l2) -> l1 = l2.
Proof.
  induction l1 as [|x r IH]; intros l2 H1 H2 Hm.
  - destruct l2 as [|y r2]; [reflexivity|]. exfalso. apply (proj2 (Hm y)). left. reflexivity.
  - destruct l2 as [|y r2]; [exfalso; apply (proj1 (Hm x)); left; reflexivity|].
    inversion H1 as [|? ? Hs1 Hf1]; inversion H2 as [|? ? Hs2 Hf2]; subst.
    rewrite Forall_forall in Hf1, Hf2.
    assert (x = y).
    { destruct (proj1 (Hm x) (or_introl eq_refl)) as [E|Hx]; [congruence|].
      destruct (proj2 (Hm y) (or_introl eq_refl)) as [E|Hy]; [congruence|].
      specialize (Hf1 _ Hy). specialize (Hf2 _ Hx). lia. }
    subst y. f_equal. apply IH; [exact Hs1 | exact Hs2 |]. intros z. split; intros Hz.
    + destruct (proj1 (Hm z) (or_intror Hz)) as [E|Hz']; [|exact Hz']. subst z. specialize (Hf1 _ Hz). lia.
    + destruct (proj2 (Hm z) (or_intror Hz)) as [E|Hz']; [|exact Hz']. subst z. specialize (Hf2 _ Hz). lia.
Qed.

Lemma find_all_ge {Y} (f : Y -> bool) : forall (l : list Y) k q, In q (find_all f l k) -> k <= q.
Proof.
  induction l as [|z l IHl]; intros k q Hq; [destruct Hq|]. cbn [find_all] in Hq. destruct (f z).
  - destruct Hq as [<-|Hq]; [lia|]. specialize (IHl _ _ Hq). lia.
  - specialize (IHl _ _ Hq). lia.
Qed.

Lemma find_all_sorted {Y} (f : Y -> bool) l i : StronglySorted lt (find_all f l i).
Proof.
  revert i; induction l as [|x r IH]; intros i; [constructor|]. cbn [find_all]. destruct (f x); [|apply IH].
  constructor; [apply IH|]. apply Forall_forall. intros p Hp. apply find_all_ge in Hp. lia.
Qed.

Lemma find_all_In {Y} (f : Y -> bool) : forall (l : list Y) k q,
  In q (find_all f l k) <-> exists y, nth_error l (q - k) = Some y /\ f y = true /\ k <= q.
Proof.
  induction l as [|z l IHl]; intros k q.
  - split; [intros [] | intros [y [H _]]; destruct (q - k); discriminate].
  - cbn [find_all]. split.
    + intros H. destruct (f z) eqn:Ez.
      * destruct H as [<-|H].
        -- exists z. rewrite Nat.sub_diag. repeat split; [exact Ez | lia].
        -- apply IHl in H as [y [Hn [Hf Hk]]]. exists y. replace (q - k) with (S (q - S k)) by lia. repeat split; [exact Hn | exact Hf | lia].
      * apply IHl in H as [y [Hn [Hf Hk]]]. exists y. replace (q - k) with (S (q - S k)) by lia. repeat split; [exact Hn | exact Hf | lia].
    + intros [y [Hn [Hf Hk]]]. destruct (Nat.eq_dec q k) as [->|Hne].
      * rewrite Nat.sub_diag in Hn. cbn in Hn. injection Hn as <-. rewrite Hf. left. reflexivity.
      * assert (In q (find_all f l (S k))).
        { apply IHl. exists y. replace (q - k) with (S (q - S k)) in Hn by lia. cbn in Hn. repeat split; [exact Hn | exact Hf | lia]. }
        destruct (f z); [right|]; exact H.
Qed.

(* a mask over the positions 0..n-1 selects the positions the predicate keeps, in order *)
Lemma mask_select_filter {Y} (xs : list Y) : forall (g : nat -> bool),
  mask_select xs (map g (seq 0 (length xs))) = take_nat xs (filter g (seq 0 (length xs))).
Proof.
  induction xs as [|x xs IH]; intros g; [reflexivity|].
  cbn [length seq map filter mask_select]. rewrite <- seq_shift, map_map.
  rewrite (IH (fun i => g (S i))).
  assert (E : take_nat (x :: xs) (filter g (map S (seq 0 (length xs)))) = take_nat xs (filter (fun i => g (S i)) (seq 0 (length xs)))).
  { generalize (seq 0 (length xs)) as l. induction l as [|i l IHl]; [reflexivity|]. cbn [map filter].
    destruct (g (S i)); [|exact IHl]. rewrite !take_nat_cons. cbn [nth_error]. f_equal. exact IHl. }
  destruct (g 0).
  - rewrite take_nat_cons. cbn [nth_error app]. f_equal. symmetry. exact E.
  - symmetry. exact E.
Qed.

Section Block.
  Variables (B X : Type) (beqb : B -> B -> bool).
  Hypothesis beqb_spec : forall x y, beqb x y = true <-> x = y.
  Notation sbus := (sbus B X).

  Let Hrefl := beqb_refl B beqb beqb_spec.
  Let Hneq := beqb_neq B beqb beqb_spec.

  (* K1: the part of member b under any mask = the masked positions of b, in ascending order *)
  Lemma component_filter : forall (q : sbus) (g : nat -> bool) b off,
    NoDup (map fst q) ->
    map (pair b) (componentP B X beqb q g b off) =
    take_nat (axis_map q) (filter (fun i => g (off + i)) (find_all (beqb b) (owners q) 0)).
  Proof.
    induction q as [|[b1 xs] q IH]; intros g b off Hnd; [reflexivity|].
    inversion Hnd as [|? ? Hnot Hnd']; subst. cbn [map fst] in Hnot.
    rewrite owners_cons, find_all_app, map_length, axis_map_cons. cbn [plus].
    destruct (beqb b b1) eqn:E.
    - apply beqb_spec in E. subst b1.
      rewrite (componentP_head B X beqb beqb_spec) by exact Hnot.
      rewrite find_all_every by (intros y Hy; apply in_map_iff in Hy as [_ [<- _]]; apply Hrefl).
      rewrite find_all_none, app_nil_r, map_length.
      2:{ intros y Hy. apply Hneq. intros <-. apply Hnot. apply owners_in_labels. exact Hy. }
      rewrite take_nat_left.
      2:{ intros p Hp. apply filter_In in Hp as [Hp _]. apply in_seq in Hp. rewrite map_length. lia. }
      rewrite take_nat_map. f_equal. rewrite (seq_off off), map_map. apply mask_select_filter.
    - assert (Hb : b <> b1) by (intros ->; rewrite Hrefl in E; discriminate).
      rewrite (componentP_tail B X beqb beqb_spec) by exact Hb.
      rewrite find_all_none, app_nil_l.
      2:{ intros y Hy. apply in_map_iff in Hy as [_ [<- _]]. apply Hneq. exact Hb. }
      rewrite (find_all_shift (beqb b) (owners q) (length xs)).
      rewrite IH by exact Hnd'.
      rewrite take_nat_right.
      2:{ intros p Hp. apply filter_In in Hp as [Hp _]. apply in_map_iff in Hp as [j [<- _]]. rewrite map_length. lia. }
      rewrite map_length. f_equal.
      generalize (find_all (beqb b) (owners q) 0) as l. induction l as [|i l IHl]; [reflexivity|].
      cbn [map filter]. replace (off + length xs + i) with (off + (length xs + i)) by lia.
      destruct (g (off + (length xs + i))); cbn [map]; [f_equal; [lia|]|]; exact IHl.
  Qed.

  (* ---- runs ---- *)
  Lemma runs_concat own ps : (forall p, In p ps -> p < length own) -> concat (map snd (runs beqb own ps)) = ps.
  Proof.
    induction ps as [|p r IH]; intros Hr; [reflexivity|]. cbn [runs].
    destruct (nth_error own p) as [b|] eqn:E.
    2:{ apply nth_error_None in E. specialize (Hr p (or_introl eq_refl)). lia. }
    specialize (IH (fun q Hq => Hr q (or_intror Hq))).
    destruct (runs beqb own r) as [|[b' run] rest]; [cbn in *; rewrite <- IH; reflexivity|].
    destruct (beqb b b'); cbn [map snd concat app] in *; rewrite <- IH; reflexivity.
  Qed.

  Lemma runs_keys own ps : (forall p, In p ps -> p < length own) ->
    dup_filter beqb (take_nat own ps) = map fst (runs beqb own ps).
  Proof.
    induction ps as [|p r IH]; intros Hr; [reflexivity|]. cbn [runs]. rewrite take_nat_cons.
    destruct (nth_error own p) as [b|] eqn:E.
    2:{ apply nth_error_None in E. specialize (Hr p (or_introl eq_refl)). lia. }
    specialize (IH (fun q Hq => Hr q (or_intror Hq))). cbn [app dup_filter].
    destruct (take_nat own r) as [|v l] eqn:Et.
    - cbn [dup_filter] in IH. destruct (runs beqb own r) as [|[b' run] rest]; [reflexivity | discriminate].
    - cbn [dup_filter] in IH. destruct (runs beqb own r) as [|[b' run] rest]; [discriminate|].
      cbn [map fst] in IH. injection IH as Ev IH. subst v. cbn [dup_filter_from].
      destruct (beqb b b') eqn:Eb.
      + apply beqb_spec in Eb. subst b'. rewrite Hrefl. cbn [map fst]. f_equal. exact IH.
      + rewrite (Hneq b' b) by (intros ->; rewrite Hrefl in Eb; discriminate). cbn [map fst]. f_equal. f_equal. exact IH.
  Qed.

  Lemma runs_owner own ps : forall b run, In (b, run) (runs beqb own ps) ->
    run <> [] /\ (forall p, In p run -> nth_error own p = Some b /\ In p ps).
  Proof.
    induction ps as [|p r IH]; intros b run Hin; [destruct Hin|]. cbn [runs] in Hin.
    destruct (nth_error own p) as [bp|] eqn:E.
    2:{ destruct (IH _ _ Hin) as [Hn Hp]. split; [exact Hn|]. intros q Hq. destruct (Hp q Hq). split; [assumption | right; assumption]. }
    destruct (runs beqb own r) as [|[b' run'] rest] eqn:Er.
    - destruct Hin as [Hin|[]]. injection Hin as <- <-. split; [discriminate|]. intros q [<-|[]]. split; [exact E | left; reflexivity].
    - assert (Hrest : forall b0 run0, In (b0, run0) ((b', run') :: rest) ->
                run0 <> [] /\ (forall q, In q run0 -> nth_error own q = Some b0 /\ In q (p :: r))).
      { intros b0 run0 H0. destruct (IH _ _ H0) as [Hn Hp]. split; [exact Hn|]. intros q Hq. destruct (Hp q Hq). split; [assumption | right; assumption]. }
      destruct (beqb bp b') eqn:Eb.
      + apply beqb_spec in Eb. subst b'. destruct Hin as [Hin|Hin].
        * injection Hin as <- <-. split; [discriminate|]. intros q [<-|Hq]; [split; [exact E | left; reflexivity]|].
          apply (Hrest bp run' (or_introl eq_refl)). exact Hq.
        * apply Hrest. right. exact Hin.
      + destruct Hin as [Hin|Hin].
        * injection Hin as <- <-. split; [discriminate|]. intros q [<-|[]]. split; [exact E | left; reflexivity].
        * apply Hrest. exact Hin.
  Qed.

  Lemma in_runs_of_ps own ps p : (forall p, In p ps -> p < length own) -> In p ps ->
    exists b run, In (b, run) (runs beqb own ps) /\ In p run.
  Proof.
    intros Hr Hp. rewrite <- (runs_concat own ps Hr) in Hp. apply in_concat in Hp as [run [Hrun Hp]].
    apply in_map_iff in Hrun as [[b run'] [E Hin]]. cbn in E. subst run'. exists b, run. split; assumption.
  Qed.

  (* ---- the block-ascending refinement ---- *)
  Theorem seg_take_block : forall (q : sbus) ps,
    NoDup (map fst q) -> block_asc beqb q ps = true ->
    exists parts, M_parts beqb q ps = Ok parts /\
                  flatten_parts parts = take_nat (axis_map q) ps /\
                  S_take q ps = Ok (take_nat (axis_map q) ps) /\
                  (ps <> [] -> parts <> []).
  Proof.
    intros q ps Hnd Hb. unfold block_asc in Hb.
    apply andb_true_iff in Hb as [Hb Hasc]. apply andb_true_iff in Hb as [Hb Hkeys]. apply andb_true_iff in Hb as [Hr Hnp].
    pose proof (proj1 (in_range_spec _ _) Hr) as Hr'.
    assert (Hro : forall p, In p ps -> p < length (owners q)) by (intros p Hp; rewrite <- axis_map_length; apply Hr'; exact Hp).
    unfold M_parts, S_take. rewrite Hr, Hnp. cbn [negb].
    rewrite (runs_keys (owners q) ps Hro), Hkeys. cbn [negb].
    eexists. split; [reflexivity|]. split; [|split; [reflexivity|]].
    - unfold flatten_parts. rewrite flat_map_concat_map, map_map, <- flat_map_concat_map. cbn [fst snd].
      rewrite <- (runs_concat (owners q) ps Hro) at 2.
      assert (Hall : forall brun, In brun (runs beqb (owners q) ps) ->
                map (pair (fst brun)) (component beqb q (mask_of (length (axis_map q)) ps) (fst brun)) = take_nat (axis_map q) (snd brun)).
      { intros [b run] Hin. cbn [fst snd].
        rewrite (component_as_P B X beqb beqb_spec), (component_filter q (fun i => memb i ps) b 0 Hnd). f_equal. cbn [plus].
        destruct (runs_owner (owners q) ps b run Hin) as [_ Hown].
        apply sorted_ext.
        - apply sorted_filter. apply find_all_sorted.
        - apply asc_nat_sorted. rewrite forallb_forall in Hasc. apply Hasc. apply in_map_iff. exists (b, run). split; [reflexivity | exact Hin].
        - intros x. rewrite filter_In, find_all_In, memb_In. rewrite Nat.sub_0_r. split.
          + intros [[y [Hn [Hy _]]] Hx]. apply beqb_spec in Hy. subst y.
            destruct (in_runs_of_ps (owners q) ps x Hro Hx) as (b' & run' & Hin' & Hx').
            destruct (runs_owner (owners q) ps b' run' Hin') as [_ Hown'].
            destruct (Hown' x Hx') as [Hn' _]. assert (b' = b) by congruence. subst b'.
            (* same label: same run, as the run labels are distinct *)
            assert (run' = run).
            { apply (NoDup_nodupb B beqb beqb_spec) in Hkeys.
              clear - Hkeys Hin Hin'. induction (runs beqb (owners q) ps) as [|[b0 r0] l IHl]; [destruct Hin|].
              cbn [map fst] in Hkeys. inversion Hkeys as [|? ? Hn Hk]; subst.
              destruct Hin as [Hin|Hin], Hin' as [Hin'|Hin'].
              - congruence.
              - injection Hin as -> _. exfalso. apply Hn. apply in_map_iff. exists (b, run'). split; [reflexivity | exact Hin'].
              - injection Hin' as -> _. exfalso. apply Hn. apply in_map_iff. exists (b, run). split; [reflexivity | exact Hin].
              - apply IHl; assumption. }
            subst run'. exact Hx'.
          + intros Hx. destruct (Hown x Hx) as [Hn Hps]. split; [|exact Hps].
            exists b. repeat split; [exact Hn | apply Hrefl | lia]. }
      clear - Hall. induction (runs beqb (owners q) ps) as [|brun l IHl]; [reflexivity|].
      cbn [map flat_map concat]. rewrite take_nat_app, (Hall brun (or_introl eq_refl)). f_equal.
      apply IHl. intros br Hbr. apply Hall. right. exact Hbr.
    - intros Hne Hmap. apply map_eq_nil in Hmap. apply map_eq_nil in Hmap.
      apply (f_equal (fun l => concat (map snd l))) in Hmap. rewrite (runs_concat (owners q) ps Hro) in Hmap. cbn in Hmap. congruence.
  Qed.
End Block.

(* ------------------------------------------------------------------ Frame level *)
Section BlockFrames.
  Variable A : Type.
  Notation quilt := (quilt A).

  Theorem quilt_extract_block_faithful : forall (q : quilt) sel opp,
    NoDup (map fst (q_bus A q)) -> dom_extract_block q sel = true ->
    res_map strip_name (M_extract_full q sel opp) = S_extract q sel opp.
  Proof.
    intros q sel opp Hnd Hdom. unfold M_extract_full.
    unfold dom_extract_block in Hdom. apply andb_true_iff in Hdom as [Hok Hdom]. rewrite Hok.
    assert (Hnd' : NoDup (map fst (seg_of q))).
    { unfold seg_of. rewrite map_map. cbn [fst]. exact Hnd. }
    unfold M_extract, M_extract_gen, S_extract. set (sq := seg_of q) in *.
    destruct (key_is_all sel && key_is_all opp) eqn:Eall.
    - apply andb_true_iff in Eall as [Es _]. destruct sel; try discriminate. cbn [key_positions res_bind].
      unfold S_take. rewrite in_range_seq. cbn [negb]. rewrite (asc_nat_nodup _ (asc_nat_seq 0 _)). cbn [negb res_bind].
      rewrite take_nat_seq_all. destruct (opp_positions A q opp) as [ops|e]; cbn [res_bind res_map]; [|reflexivity].
      apply strip_assemble.
    - destruct (key_positions sel (length (axis_map sq))) as [ps|e]; cbn [res_bind res_map]; [|reflexivity].
      apply andb_true_iff in Hdom as [Hblk Hne].
      assert (Hne' : ps <> []) by (destruct ps; [discriminate | congruence]).
      destruct (seg_take_block val (item A) val_eqb val_eqb_iff sq ps Hnd' Hblk) as (parts & EM & Efl & ES & Hp).
      rewrite EM, ES. cbn [res_bind]. specialize (Hp Hne').
      destruct parts as [|[b xs] rest]; [congruence|].
      destruct (opp_positions A q opp) as [ops|e]; cbn [res_bind res_map]; [|reflexivity].
      rewrite Efl. apply strip_assemble.
  Qed.
End BlockFrames.

(* the guards are satisfiable and properly nested: a key visiting member 2 then member 1 is inside the block
   guard but outside the ascending one; a key running backwards inside a member is outside both *)
Definition q_example : quilt Z :=
  mk_quilt [ (VStr "f1", mk_mframe [VStr "x"; VStr "y"] [[1%Z]; [2%Z]] (VStr "f1"));
             (VStr "f2", mk_mframe [VStr "z"; VStr "w"; VStr "v"] [[3%Z]; [4%Z]; [5%Z]] (VStr "f2")) ] [VStr "a"] true.

Example guards_nested :
  dom_extract q_example (KSlice (mk_slice (Some 1%Z) (Some 4%Z) None)) = true /\
  dom_extract_block q_example (KSlice (mk_slice (Some 1%Z) (Some 4%Z) None)) = true /\
  dom_extract q_example (KList [3; 4; 0; 1]%Z) = false /\
  dom_extract_block q_example (KList [3; 4; 0; 1]%Z) = true /\
  dom_extract_block q_example (KList [1; 0]%Z) = false /\
  dom_extract_block q_example (KList [0; 3; 1]%Z) = false.
Proof. repeat split; vm_compute; reflexivity. Qed.
