(* C17 -- key resolution: the positions a key denotes are distinct and inside the index. *)
Require Import SF.Prelude SF.PySlice SF.BusSpec Proofs.SliceFacts Proofs.BusSpecFacts.
From Coq Require Import FinFun.

Lemma range_list_NoDup a st c : st <> 0 -> NoDup (range_list a st c).
Proof.
  intro H. unfold range_list. apply Injective_map_NoDup; [|apply seq_NoDup].
  intros i j E. nia.
Qed.

Lemma map_NoDup_in {A B} (f : A -> B) (l : list A) :
  (forall x y, In x l -> In y l -> f x = f y -> x = y) -> NoDup l -> NoDup (map f l).
Proof.
  intros Inj N. induction N as [|x r Hx N IH]; cbn; constructor.
  - intro H. apply in_map_iff in H as (y & E & Iy).
    assert (y = x) by (apply Inj; cbn; auto). subst. contradiction.
  - apply IH. intros a b Ia Ib. apply Inj; cbn; auto.
Qed.

Lemma positions_NoDup s len ps : positions s len = Some ps -> NoDup ps.
Proof.
  unfold positions, slice_indices.
  destruct (_ =? 0) eqn:Hz; [discriminate|].
  intro E. injection E as <-. apply range_list_NoDup. lia.
Qed.

Lemma has_dup_nat_false ps : has_dup_nat ps = false -> NoDup ps.
Proof.
  induction ps as [|x r IH]; cbn; intro H; [constructor|].
  apply orb_false_iff in H as [H1 H2]. constructor; [|apply IH, H2].
  intro I. assert (existsb (Nat.eqb x) r = true); [|congruence].
  apply existsb_exists. exists x. split; [exact I | apply Nat.eqb_refl].
Qed.

Lemma mask_positions_spec m : forall i p,
  In p (mask_positions m i) -> (i <= p < i + length m)%nat.
Proof.
  induction m as [|b r IH]; cbn; intros i p H; [contradiction|].
  destruct b; [destruct H as [<-|H]|]; try lia; apply IH in H; lia.
Qed.

Lemma mask_positions_NoDup m : forall i, NoDup (mask_positions m i).
Proof.
  induction m as [|b r IH]; cbn; intro i; [constructor|].
  destruct b; [|apply IH]. constructor; [|apply IH].
  intro H. apply mask_positions_spec in H. lia.
Qed.

Section Resolve.
Variable L : Type.
Variable leqb : L -> L -> bool.
Hypothesis leqb_spec : forall x y, leqb x y = true <-> x = y.

Notation find_idx := (find_idx L leqb).
Notation find_all := (find_all L leqb).
Notation resolve := (resolve L leqb).

Lemma find_idx_Some l ls i : find_idx l ls = Some i -> nth_error ls i = Some l.
Proof.
  revert i. induction ls as [|x r IH]; cbn; intros i H; [discriminate|].
  destruct (leqb x l) eqn:E.
  - injection H as <-. apply leqb_spec in E. subst. reflexivity.
  - destruct (find_idx l r) as [j|]; [|discriminate]. injection H as <-. cbn. apply IH. reflexivity.
Qed.

Lemma find_idx_lt l ls i : find_idx l ls = Some i -> (i < length ls)%nat.
Proof. intro H. apply find_idx_Some in H. apply nth_error_Some. congruence. Qed.

Lemma find_idx_None l ls : find_idx l ls = None <-> ~ In l ls.
Proof.
  induction ls as [|x r IH]; cbn; [tauto|].
  destruct (leqb x l) eqn:E.
  - apply leqb_spec in E. subst. split; [discriminate | tauto].
  - assert (x <> l) as NE by (intro; subst; rewrite (proj2 (leqb_spec l l) eq_refl) in E; discriminate).
    destruct (find_idx l r) as [j|] eqn:Fj; cbn.
    + split; [discriminate|]. intro H. assert (~ In l r) as H' by tauto. apply IH in H'. discriminate.
    + split; [|reflexivity]. intros _ [H|H]; [contradiction|]. apply IH in H; [exact H | reflexivity].
Qed.

Lemma find_idx_In l ls : In l ls -> exists i, find_idx l ls = Some i.
Proof.
  intro H. destruct (find_idx l ls) as [i|] eqn:E; [eauto|].
  apply find_idx_None in E. contradiction.
Qed.

Lemma find_idx_nth ls : NoDup ls -> forall i l, nth_error ls i = Some l -> find_idx l ls = Some i.
Proof.
  induction 1 as [|x r Hx N IH]; intros i l H; [destruct i; discriminate|].
  destruct i as [|i]; cbn in *.
  - injection H as ->. assert (leqb l l = true) as -> by (apply leqb_spec; reflexivity). reflexivity.
  - destruct (leqb x l) eqn:E.
    + apply leqb_spec in E. subst. apply nth_error_In in H. contradiction.
    + rewrite (IH i l H). reflexivity.
Qed.

Lemma find_all_lt ls labels ps : find_all ls labels = Some ps -> Forall (fun p => (p < length labels)%nat) ps.
Proof.
  revert ps. induction ls as [|l r IH]; cbn; intros ps H.
  - injection H as <-. constructor.
  - destruct (find_idx l labels) as [p|] eqn:E; [|discriminate].
    destruct (find_all r labels) as [qs|]; [|discriminate]. injection H as <-.
    constructor; [eapply find_idx_lt, E | apply IH; reflexivity].
Qed.

Lemma norm_all_lt js n ps : 0 <= n -> norm_all js n = Some ps -> Forall (fun p => (p < Z.to_nat n)%nat) ps.
Proof.
  intro Hn. revert ps. induction js as [|j r IH]; cbn; intros ps H.
  - injection H as <-. constructor.
  - destruct (norm_index j n) as [p|] eqn:E; [|discriminate].
    destruct (norm_all r n) as [qs|]; [|discriminate]. injection H as <-.
    constructor; [|apply IH; reflexivity].
    unfold norm_index in E.
    destruct ((0 <=? j) && (j <? n)) eqn:C1; [injection E as <-; lia|].
    destruct ((j <? 0) && (0 <=? j + n)) eqn:C2; [injection E as <-; lia | discriminate].
Qed.

Definition positions_ok (n : nat) (ps : list nat) : Prop :=
  NoDup ps /\ Forall (fun p => (p < n)%nat) ps.

Theorem resolve_ok labels k single ps :
  resolve labels k = Ok (single, ps) -> positions_ok (length labels) ps.
Proof.
  unfold BusSpec.resolve, positions_ok. destruct k as [i|js|s|m|l|ls|a b].
  - destruct (norm_index i _) as [p|] eqn:E; [|discriminate]. intro H. injection H as _ <-.
    split; [repeat constructor; cbn; tauto|]. constructor; [|constructor].
    unfold norm_index in E.
    destruct ((0 <=? i) && (i <? _)) eqn:C1; [injection E as <-; lia|].
    destruct ((i <? 0) && (0 <=? i + _)) eqn:C2; [injection E as <-; lia | discriminate].
  - destruct (norm_all js _) as [qs|] eqn:E; [|discriminate].
    destruct (has_dup_nat qs) eqn:D; [discriminate|]. intro H. injection H as _ <-.
    split; [apply has_dup_nat_false, D|].
    apply norm_all_lt in E; [|lia]. rewrite Nat2Z.id in E. exact E.
  - destruct (positions s _) as [qs|] eqn:E; [|discriminate]. intro H. injection H as _ <-.
    assert (R : forall x, In x qs -> 0 <= x < Z.of_nat (length labels))
      by (intros x; apply (positions_in_range s _ qs x); [lia | exact E]).
    split.
    + apply map_NoDup_in; [|eapply positions_NoDup, E].
      intros x y Hx Hy Exy. apply R in Hx, Hy. lia.
    + apply Forall_forall. intros p Hp. apply in_map_iff in Hp as (x & <- & Hx). apply R in Hx. lia.
  - destruct (Nat.eqb (length m) (length labels)) eqn:E; [|discriminate]. intro H. injection H as _ <-.
    apply Nat.eqb_eq in E. split; [apply mask_positions_NoDup|].
    apply Forall_forall. intros p Hp. apply mask_positions_spec in Hp. lia.
  - destruct (find_idx l labels) as [p|] eqn:E; [|discriminate]. intro H. injection H as _ <-.
    split; [repeat constructor; cbn; tauto|]. constructor; [eapply find_idx_lt, E | constructor].
  - destruct (find_all ls labels) as [qs|] eqn:E; [|discriminate].
    destruct (has_dup_nat qs) eqn:D; [discriminate|]. intro H. injection H as _ <-.
    split; [apply has_dup_nat_false, D | eapply find_all_lt, E].
  - destruct (match a with None => Some O | Some l => find_idx l labels end) as [lo|] eqn:Ea; [|discriminate].
    destruct (match b with None => Some (length labels) | Some l => option_map S (find_idx l labels) end) as [hi|] eqn:Eb;
      [|discriminate].
    intro H. injection H as _ <-. split; [apply seq_NoDup|].
    apply Forall_forall. intros p Hp. apply in_seq in Hp.
    assert (hi <= length labels)%nat; [|lia].
    destruct b as [l|]; [|injection Eb as <-; lia].
    destruct (find_idx l labels) as [q|] eqn:Eq; [|discriminate]. injection Eb as <-.
    apply find_idx_lt in Eq. lia.
Qed.

End Resolve.
