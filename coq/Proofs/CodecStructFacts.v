(* C16 -- structural round trips: pairs (both axes), rows/records, and pickle. *)
Require Import SF.Prelude SF.Value SF.Codec SF.CodecStruct Proofs.CodecTable Proofs.CodecRoundtrip.

Lemma map_fst_combine_eq {A B} (a : list A) (b : list B) : length a = length b -> map fst (combine a b) = a.
Proof.
  revert b; induction a as [|x a IH]; intros [|y b] H; cbn in *; try reflexivity; try discriminate.
  f_equal. apply IH. lia.
Qed.

Lemma map_snd_combine_eq {A B} (a : list A) (b : list B) : length a = length b -> map snd (combine a b) = b.
Proof.
  revert b; induction a as [|x a IH]; intros [|y b] H; cbn in *; try reflexivity; try discriminate.
  f_equal. apply IH. lia.
Qed.

Lemma map_on_snd_combine {A B C} (h : B -> C) (a : list A) (b : list B) :
  length a = length b -> map (fun kv => h (snd kv)) (combine a b) = map h b.
Proof. intro H. rewrite <- (map_map snd h), map_snd_combine_eq by exact H. reflexivity. Qed.

Lemma kind_eqb_eq : forall a b, kind_eqb a b = true -> a = b.
Proof. intros [] []; cbn; intro H; try reflexivity; discriminate. Qed.

Section Struct.
  Variable f : tframe.
  Hypothesis Hdom : struct_dom f = true.

  Lemma struct_facts :
    (1 <= nrows f)%nat /\ (1 <= length (tf_cols f))%nat /\ length (tf_columns f) = length (tf_cols f) /\
    (forall col, In col (tf_cols f) -> length (snd col) = nrows f) /\
    (forall col, In col (tf_cols f) -> (kind_of_values (snd col), snd col) = col).
  Proof.
    pose proof Hdom as H. unfold struct_dom in H.
    apply andb_true_iff in H as [H H5]. apply andb_true_iff in H as [H H4]. apply andb_true_iff in H as [H H3].
    apply andb_true_iff in H as [H1 H2].
    apply Nat.leb_le in H1, H2. apply Nat.eqb_eq in H3. rewrite forallb_forall in H4, H5.
    repeat split; try assumption.
    - intros col Hc. apply Nat.eqb_eq. apply H4. exact Hc.
    - intros [k vs] Hc. cbn [fst snd]. f_equal. symmetry. apply kind_eqb_eq. apply (H5 _ Hc).
  Qed.

  Let X := map snd (tf_cols f).

  Lemma X_rect : forallb (fun r => Nat.eqb (length r) (nrows f)) X = true.
  Proof.
    destruct struct_facts as (_ & _ & _ & Hlen & _). rewrite forallb_forall. intros r Hr.
    unfold X in Hr. apply in_map_iff in Hr as [col [<- Hc]]. apply Nat.eqb_eq. apply Hlen. exact Hc.
  Qed.

  Lemma rekind : map (fun vs => (kind_of_values vs, vs)) X = tf_cols f.
  Proof.
    destruct struct_facts as (_ & _ & _ & _ & Hk). unfold X. rewrite map_map. apply map_id_in. exact Hk.
  Qed.

  (* to_pairs(0) then from_items *)
  Theorem pairs0_section : M_from_pairs0 (M_to_pairs0 f) = f.
  Proof.
    destruct struct_facts as (Hnr & Hnc & Hcl & Hlen & Hk).
    unfold M_from_pairs0, M_to_pairs0.
    set (g := fun col : kind * list val => combine (tf_index f) (snd col)).
    assert (HL : length (tf_columns f) = length (map g (tf_cols f))) by (rewrite map_length; exact Hcl).
    rewrite (map_fst_combine_eq _ _ HL).
    assert (E2 : map (fun kv : list val * list (list val * val) => (kind_of_values (map snd (snd kv)), map snd (snd kv)))
                     (combine (tf_columns f) (map g (tf_cols f)))
                 = map (fun pairs : list (list val * val) => (kind_of_values (map snd pairs), map snd pairs)) (map g (tf_cols f)))
      by exact (map_on_snd_combine (fun pairs : list (list val * val) => (kind_of_values (map snd pairs), map snd pairs)) _ _ HL).
    rewrite E2, map_map.
    assert (E3 : map (fun col => (kind_of_values (map snd (g col)), map snd (g col))) (tf_cols f) = tf_cols f).
    { apply map_id_in. intros col Hc. unfold g. rewrite map_snd_combine_eq by (symmetry; apply Hlen; exact Hc).
      apply Hk. exact Hc. }
    rewrite E3.
    assert (E1 : map fst (snd (hd ([], []) (combine (tf_columns f) (map g (tf_cols f))))) = tf_index f).
    { destruct (tf_cols f) as [|col0 rest] eqn:Ec; [cbn in Hnc; lia|].
      destruct (tf_columns f) as [|c0 crest]; [cbn in Hcl; discriminate|].
      cbn [map combine hd snd]. unfold g. apply map_fst_combine_eq. symmetry. apply Hlen. left. reflexivity. }
    rewrite E1. apply tframe_eta.
  Qed.

  (* the row-wise exports below: no int-with-float row coercion *)
  Hypothesis Hmix : numeric_mix f = false.

  Lemma M_rows_plain : M_rows f = rows_of VNone (nrows f) (map snd (tf_cols f)).
  Proof. unfold M_rows, M_rows_gen. rewrite Hmix. reflexivity. Qed.

  Lemma rows_length : length (M_rows f) = nrows f.
  Proof. rewrite M_rows_plain. unfold rows_of. rewrite map_length, seq_length. reflexivity. Qed.

  Lemma row_length : forall r, In r (M_rows f) -> length r = length (tf_columns f).
  Proof.
    intros r Hr. rewrite M_rows_plain in Hr. unfold rows_of in Hr. apply in_map_iff in Hr as [i [<- _]].
    rewrite !map_length. destruct struct_facts as (_ & _ & Hcl & _). symmetry. exact Hcl.
  Qed.

  Lemma columns_of_rows_rows : columns_of_rows (length (tf_columns f)) (M_rows f) = tf_cols f.
  Proof.
    destruct struct_facts as (_ & _ & Hcl & _).
    unfold columns_of_rows. rewrite M_rows_plain. change (rows_of VNone (nrows f) (map snd (tf_cols f))) with (cols_of VNone (nrows f) X).
    replace (length (tf_columns f)) with (length X) by (unfold X; rewrite map_length; symmetry; exact Hcl).
    rewrite (transpose_involutive VNone (nrows f) X X_rect). apply rekind.
  Qed.

  (* rows then from_records *)
  Theorem records_section : M_from_records (tf_index f) (tf_columns f) (M_rows f) = f.
  Proof. unfold M_from_records. rewrite columns_of_rows_rows. apply tframe_eta. Qed.

  (* to_pairs(1) then from_records_items *)
  Theorem pairs1_section : M_from_pairs1 (M_to_pairs1 f) = f.
  Proof.
    destruct struct_facts as (Hnr & Hnc & Hcl & Hlen & Hk).
    unfold M_from_pairs1, M_to_pairs1, M_to_pairs1_gen. fold (M_rows f). cbv zeta.
    set (g := combine (tf_columns f)).
    assert (HL : length (tf_index f) = length (map g (M_rows f))) by (rewrite map_length, rows_length; reflexivity).
    rewrite (map_fst_combine_eq _ _ HL).
    rewrite (map_on_snd_combine (map snd) _ _ HL). rewrite map_map.
    assert (E2 : map (fun r => map snd (g r)) (M_rows f) = M_rows f).
    { apply map_id_in. intros r Hr. unfold g. apply map_snd_combine_eq. symmetry. apply row_length. exact Hr. }
    rewrite E2.
    assert (E1 : map fst (snd (hd ([], []) (combine (tf_index f) (map g (M_rows f))))) = tf_columns f).
    { pose proof rows_length as RL. pose proof row_length as RW.
      destruct (M_rows f) as [|r0 rest]; [cbn in RL; unfold nrows in *; lia|].
      destruct (tf_index f) as [|i0 irest] eqn:Ei; [unfold nrows in Hnr; rewrite Ei in Hnr; cbn in Hnr; lia|].
      cbn [map combine hd snd]. unfold g. apply map_fst_combine_eq. symmetry. apply RW. left. reflexivity. }
    rewrite E1, columns_of_rows_rows. apply tframe_eta.
  Qed.
End Struct.

Theorem pairs0_roundtrip : forall f, struct_dom f = true -> M_from_pairs0 (M_to_pairs0 f) = f.
Proof. exact pairs0_section. Qed.
Theorem pairs1_roundtrip : forall f, struct_dom f = true -> numeric_mix f = false ->
  M_from_pairs1 (M_to_pairs1 f) = f.
Proof. exact pairs1_section. Qed.
Theorem records_roundtrip : forall f, struct_dom f = true -> numeric_mix f = false ->
  M_from_records (tf_index f) (tf_columns f) (M_rows f) = f.
Proof. exact records_section. Qed.

(* pickle: content and names come back; blocks, label arrays and positions arrays are read-only again *)
Theorem pickle_roundtrip : forall f,
  pframe_content (M_unpickle f) = pframe_content f /\ all_readonly (M_unpickle f) = true.
Proof.
  intro f. split.
  - unfold pframe_content, M_unpickle. cbn. rewrite map_map. cbn. reflexivity.
  - unfold all_readonly, data_readonly, M_unpickle. cbn. rewrite forallb_map. cbn.
    assert (E : forallb (fun _ : parray => true) (pf_blocks f) = true) by (induction (pf_blocks f); cbn; auto).
    rewrite E. reflexivity.
Qed.
