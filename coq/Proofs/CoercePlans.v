(* The n-ary dtype decision loops equal the left fold of resolve; the fold keeps every value; elements; the flag
   loop of prepare_iter_for_array; soundness of the implementation model. *)
Require Import SF.Prelude SF.Dtype SF.Coerce Proofs.CoerceHolds.
From Coq Require Import Btauto.
Local Open Scope string_scope.
Local Open Scope Z_scope.

Lemma tunit_eqb_eq u1 u2 : tunit_eqb u1 u2 = true -> u1 = u2.
Proof. destruct u1, u2; vm_compute; congruence. Qed.

Lemma dtype_eqb_eq d1 d2 : dtype_eqb d1 d2 = true -> d1 = d2.
Proof.
  destruct d1, d2; cbn [dtype_eqb]; try discriminate; intros H; try reflexivity;
    try (apply Z.eqb_eq in H; congruence);
    try (apply tunit_eqb_eq in H; congruence).
  apply andb_true_iff in H as [H1 H2]. apply Bool.eqb_prop in H1. apply Z.eqb_eq in H2. congruence.
Qed.

Lemma dtype_eqb_refl d : dtype_eqb d d = true.
Proof.
  destruct d; cbn; rewrite ?Z.eqb_refl, ?Bool.eqb_reflx; try reflexivity; try (destruct u; reflexivity).
Qed.

Lemma resolve_obj_l d : resolve DObj d = DObj.
Proof. destruct d; reflexivity. Qed.

Lemma resolve_obj_r d : resolve d DObj = DObj.
Proof. destruct d; reflexivity. Qed.

Lemma resolve_all_obj ds : resolve_all DObj ds = DObj.
Proof. induction ds as [|d ds IH]; [reflexivity|]. unfold resolve_all in *. cbn. rewrite resolve_obj_l. exact IH. Qed.

(* util.resolve_dtype_iter: the early return at object does not change the result *)
Lemma resolve_iter_loop_spec ds : forall acc, resolve_iter_loop acc ds = resolve_all acc ds.
Proof.
  induction ds as [|d ds IH]; intros acc; [reflexivity|].
  cbn [resolve_iter_loop]. unfold resolve_all. cbn [fold_left]. fold (resolve_all (resolve acc d) ds).
  destruct (dtype_eqb (resolve acc d) DObj) eqn:E.
  - apply dtype_eqb_eq in E. rewrite E. symmetry. apply resolve_all_obj.
  - apply IH.
Qed.

(* ------------------------------------------------------------------ resolve is commutative *)
Lemma np_rt_comm d1 d2 : np_result_type d1 d2 = np_result_type d2 d1.
Proof.
  destruct d1 as [|s1 b1|b1|b1|n1|n1|u1|u1|], d2 as [|s2 b2|b2|b2|n2|n2|u2|u2|]; try reflexivity; unfold np_result_type.
  - destruct s1, s2; cbn [Bool.eqb]; cbv zeta; rewrite ?(Z.max_comm b2 b1); try reflexivity.
  - rewrite (Z.max_comm b2 b1); reflexivity.
  - rewrite (Z.max_comm b2 b1); reflexivity.
  - rewrite (Z.max_comm n2 n1); reflexivity.
  - rewrite (Z.max_comm n2 n1); reflexivity.
  - destruct u1, u2; reflexivity.
  - destruct u1, u2; reflexivity.
Qed.

Lemma dtype_eqb_sym d1 d2 : dtype_eqb d1 d2 = dtype_eqb d2 d1.
Proof.
  destruct (dtype_eqb d1 d2) eqn:E.
  - apply dtype_eqb_eq in E. subst. symmetry. apply dtype_eqb_refl.
  - destruct (dtype_eqb d2 d1) eqn:E'; [|reflexivity].
    apply dtype_eqb_eq in E'. subst. rewrite dtype_eqb_refl in E. discriminate.
Qed.

Theorem resolve_comm d1 d2 : resolve d1 d2 = resolve d2 d1.
Proof.
  unfold resolve. rewrite (dtype_eqb_sym d2 d1).
  destruct (dtype_eqb d1 d2) eqn:E; [apply dtype_eqb_eq in E; exact E|].
  destruct d1, d2; try reflexivity; rewrite np_rt_comm; reflexivity.
Qed.

Lemma lossy_pair_comm d1 d2 : lossy_pair d1 d2 = lossy_pair d2 d1.
Proof.
  unfold lossy_pair.
  rewrite (String.eqb_sym (dtype_kind d1) (dtype_kind d2)).
  btauto.
Qed.

(* util.concat_resolved: `if dt_resolve != object: dt_resolve = resolve_dtype(array.dtype, dt_resolve)` is the same fold *)
Lemma concat_loop_spec ds : forall acc, concat_loop acc ds = resolve_all acc ds.
Proof.
  induction ds as [|d ds IH]; intros acc; [reflexivity|].
  cbn [concat_loop]. unfold resolve_all. cbn [fold_left]. fold (resolve_all (resolve acc d) ds).
  destruct (dtype_eqb acc DObj) eqn:E.
  - apply dtype_eqb_eq in E. subst acc. rewrite resolve_obj_l. apply IH.
  - rewrite (resolve_comm d acc). apply IH.
Qed.

(* ------------------------------------------------------------------ resolve stays inside the well-formed dtypes *)
Lemma num_wf_table :
  forallb (fun d1 => forallb (fun d2 => wf_dtype (resolve d1 d2)) num_dtypes) num_dtypes = true.
Proof. vm_compute. reflexivity. Qed.

Lemma resolve_wf d1 d2 : wf_dtype d1 = true -> wf_dtype d2 = true -> wf_dtype (resolve d1 d2) = true.
Proof.
  intros W1 W2.
  destruct d1 as [|s1 b1|b1|b1|n1|n1|u1|u1|], d2 as [|s2 b2|b2|b2|n2|n2|u2|u2|];
    first
      [ solve [ change (wf_dtype DObj = true); reflexivity ]
      | solve [ match goal with |- wf_dtype (resolve ?a ?b) = true =>
                  pose proof num_wf_table as T; rewrite forallb_forall in T;
                  specialize (T a (wf_num_in a eq_refl W1)); rewrite forallb_forall in T;
                  exact (T b (wf_num_in b eq_refl W2)) end ]
      | idtac ].
  - rewrite resolve_str. cbn [wf_dtype] in *. lia.
  - change (resolve (DStr n1) (DBytes n2)) with (DStr (Z.max n1 n2)). cbn [wf_dtype] in *. lia.
  - change (resolve (DBytes n1) (DStr n2)) with (DStr (Z.max n2 n1)). cbn [wf_dtype] in *. lia.
  - rewrite resolve_bytes. cbn [wf_dtype] in *. lia.
  - rewrite resolve_dt. reflexivity.
  - destruct (resolve_td u1 u2) as [E|(E & _)]; rewrite E; reflexivity.
Qed.

(* ------------------------------------------------------------------ the fold keeps every value *)
Theorem resolve_all_holds ds : forall acc v,
  wf_dtype acc = true -> Forall (fun d => wf_dtype d = true) ds ->
  fold_ok acc ds = true -> fold_fits acc ds v = true ->
  holds acc v = true \/ Exists (fun d => holds d v = true) ds ->
  holds (resolve_all acc ds) v = true.
Proof.
  induction ds as [|d ds IH]; intros acc v Wa Wd Hok Hfit Hh.
  - destruct Hh as [Hh|Hh]; [exact Hh|inversion Hh].
  - unfold resolve_all. cbn [fold_left]. fold (resolve_all (resolve acc d) ds).
    inversion Wd as [|? ? Wd1 Wd2]; subst.
    cbn [fold_ok] in Hok. apply andb_true_iff in Hok as [Hl Hok]. apply negb_true_iff in Hl.
    cbn [fold_fits] in Hfit. apply andb_true_iff in Hfit as [Ht Hfit].
    apply IH; auto using resolve_wf.
    destruct Hh as [Hh|Hh].
    + left. apply resolve_holds; auto.
    + inversion Hh as [? ? H1|? ? H1]; subst.
      * left. apply resolve_holds; auto.
      * right. exact H1.
Qed.

(* ------------------------------------------------------------------ util.dtype_from_element *)
Lemma pow_8_8_1 : 2 ^ (8 * 8 - 1) = 9223372036854775808. Proof. reflexivity. Qed.

Theorem elem_dtype_holds e : wf_elem e = true ->
  holds (elem_dtype e) (elem_val e) = true /\ wf_dtype (elem_dtype e) = true.
Proof.
  destruct e as [v|d v]; cbn [wf_elem elem_dtype elem_val].
  - destruct v as [|x|z|f|re im|x|x|ux z|ux z|t|l]; intros H; try (split; reflexivity).
    + destruct (int_in true 8 z) eqn:E1; [split; [exact E1|reflexivity]|].
      destruct (int_in false 8 z) eqn:E2; [split; [exact E2|reflexivity]|]. split; reflexivity.
    + split; [exact H|reflexivity].
    + split; [exact H|reflexivity].
    + split; [|cbn; lia]. cbn [holds]. lia.
    + split; [|cbn; lia]. cbn [holds]. lia.
  - intros H. apply andb_true_iff in H as [H _]. apply andb_true_iff in H as [H W]. apply andb_true_iff in H as [H _].
    split; assumption.
Qed.

(* ------------------------------------------------------------------ one element meets a column (full_for_fill, assignment, fillna) *)
Theorem fill_no_loss d e :
  wf_dtype d = true -> wf_elem e = true -> lossy_pair d (elem_dtype e) = false ->
  let dr := resolve d (elem_dtype e) in
  (forall v, holds d v = true -> time_fits dr v = true -> to_object_ok d v = true -> survives dr (FromArr d v) = true) /\
  (time_fits dr (elem_val e) = true -> survives dr (FromElem e) = true).
Proof.
  intros Wd We L dr. destruct (elem_dtype_holds e We) as [He Wde]. split.
  - intros v Hv Ht Ho. cbn [survives]. unfold holds_arr.
    assert (Hr : holds dr v = true) by (apply resolve_holds; auto).
    destruct dr; auto.
  - intros Ht. cbn [survives]. unfold holds_elem.
    assert (Hr : holds dr (elem_val e) = true) by (apply resolve_holds; auto).
    destruct dr; auto.
Qed.

(* ------------------------------------------------------------------ the implementation model is sound for S *)
Lemma all2_cell_check_same dr cells : forall obs,
  (forall s, In s cells -> survives dr s = true) ->
  all2 (cell_check dr) cells obs = true -> all2 same (map src_val cells) obs = true.
Proof.
  induction cells as [|s cells IH]; intros [|o obs] Hs H; cbn in *; try discriminate; auto.
  apply andb_true_iff in H as [H1 H2]. apply andb_true_iff; split.
  - unfold cell_check in H1. rewrite (Hs s (or_introl eq_refl)) in H1. apply andb_true_iff in H1 as [H1 _]. exact H1.
  - apply IH; auto.
Qed.

Theorem model_sound p cells od obs dr :
  plan_dtype p = Ok dr -> (forall s, In s cells -> survives dr s = true) ->
  M_check p cells od obs = true -> S_cells cells obs = true /\ od = dr.
Proof.
  intros Hp Hs H. unfold M_check in H. rewrite Hp in H. apply andb_true_iff in H as [Hd Hc].
  split; [apply all2_cell_check_same with (dr := dr); assumption|].
  symmetry. apply dtype_eqb_eq. exact Hd.
Qed.

(* ------------------------------------------------------------------ the flag loop of util.prepare_iter_for_array *)
Local Close Scope string_scope.
Definition flags_of (es : list elem) : iflags :=
  let t := existsb is_tuple_e es in let s := existsb is_str_e es in let o := existsb is_other_e es in
  let i := existsb is_inexact_e es in let b := existsb is_big_e es in
  mk_iflags (t || (s && o) || (b && i)) t s o i b.

Lemma is_inexact_other e : is_inexact_e e = true -> is_other_e e = true.
Proof. destruct e as [v|d v]; [destruct v|]; cbn; congruence. Qed.
Lemma is_big_other e : is_big_e e = true -> is_other_e e = true.
Proof. destruct e as [v|d v]; [destruct v|]; cbn; congruence. Qed.

(* running the loop over es from the flags of a prefix gives the flags of prefix ++ es, or has stopped at object with
   the object condition of the whole list true *)
Lemma iter_flags_from pre es :
  let st := fold_left iter_step es (flags_of pre) in
  if f_obj (flags_of pre) then st = flags_of pre
  else (f_obj st = f_obj (flags_of (pre ++ es))) /\ (f_obj st = false -> st = flags_of (pre ++ es)).
Proof.
  revert pre. induction es as [|e es IH]; intros pre; cbn [fold_left].
  - rewrite app_nil_r. destruct (f_obj (flags_of pre)); auto.
  - destruct (f_obj (flags_of pre)) eqn:Ho.
    + assert (Hs : iter_step (flags_of pre) e = flags_of pre) by (unfold iter_step; rewrite Ho; reflexivity).
      rewrite Hs. specialize (IH pre). cbv zeta in IH. rewrite Ho in IH. exact IH.
    + assert (Hs : iter_step (flags_of pre) e = flags_of (pre ++ [e])).
      { unfold iter_step. rewrite Ho. unfold flags_of. rewrite !existsb_app. cbn [existsb f_tuple f_str f_non_str f_inexact f_big].
        rewrite !orb_false_r.
        unfold is_other_e, is_tuple_e, is_str_e, is_inexact_e, is_big_e.
        destruct e as [v|d v]; cbn [elem_val]; destruct v; cbn; rewrite ?andb_false_r, ?andb_true_r, ?orb_false_r; reflexivity. }
      rewrite Hs. specialize (IH (pre ++ [e])). cbv zeta in IH. rewrite <- app_assoc in IH. cbn [app] in IH.
      destruct (f_obj (flags_of (pre ++ [e]))) eqn:Ho2.
      * rewrite IH. rewrite Ho2. split; [|discriminate].
        (* monotone: object on a prefix stays object *)
        unfold flags_of in Ho2 |- *. cbn [f_obj] in Ho2 |- *.
        replace (pre ++ e :: es) with ((pre ++ [e]) ++ es) by (rewrite <- app_assoc; reflexivity).
        rewrite !(existsb_app _ (pre ++ [e]) es).
        repeat match goal with |- context [existsb ?f (pre ++ [e])] => destruct (existsb f (pre ++ [e])) end;
          cbn in Ho2 |- *; try discriminate; rewrite ?orb_true_r; reflexivity.
      * exact IH.
Qed.

Theorem iter_flags_spec es : f_obj (iter_flags es) = iter_object_spec es.
Proof.
  pose proof (iter_flags_from [] es) as H. cbv zeta in H. cbn [app] in H.
  change (flags_of []) with iflags0 in H. cbn [f_obj iflags0] in H.
  destruct H as [H _]. unfold iter_flags. rewrite H. reflexivity.
Qed.

(* when the loop says object nothing is lost: every element is kept as the object it is *)
Theorem iter_object_no_loss es cells :
  iter_object_spec es = true ->
  exists dr, plan_dtype (PIter es) = Ok dr /\ forall e, In (FromElem e) cells -> survives dr (FromElem e) = true.
Proof.
  intros H. exists DObj. split.
  - cbn [plan_dtype]. rewrite iter_flags_spec, H. reflexivity.
  - intros e _. reflexivity.
Qed.
