(* C06 -- TypeBlocks._ufunc_binary_operator between two TypeBlocks does not depend on the block layouts:
   the block_compatible path, the reblock path and the column-wise path all equal the operator applied
   column by column to the flattened operands. *)
Require Import SF.Prelude SF.Dtype SF.LabelAlign SF.FrameAlign.

Lemma nat_list_eqb_spec (a b : list nat) : nat_list_eqb a b = true <-> a = b.
Proof. apply list_eqb_eq. intros x y. apply Nat.eqb_eq. Qed.

Lemma map2_app (X Y : Type) (g : X -> X -> Y) (x1 x2 y1 y2 : list X) :
  length x1 = length y1 ->
  map2 X Y g (x1 ++ x2) (y1 ++ y2) = map2 X Y g x1 y1 ++ map2 X Y g x2 y2.
Proof.
  revert y1. induction x1 as [|x r IH]; intros [|y s] H; try discriminate; [reflexivity|].
  cbn. f_equal. apply IH. injection H as H. exact H.
Qed.

Section Facts.
Variable V R : Type.
Variable f : V -> V -> R.

Notation blk := (blk V).
Notation bwidth := (bwidth V).
Notation columns_of := (columns_of V).
Notation op_cols := (op_cols V R f).
Notation op_blocks := (op_blocks V R f).
Notation reblock_go := (reblock_go V).
Notation sig_go := (sig_go V).

Lemma columns_of_app (a b : list blk) : columns_of (a ++ b) = columns_of a ++ columns_of b.
Proof. unfold FrameAlign.columns_of. apply flat_map_app. Qed.

Lemma columns_of_length (t : list blk) :
  length (columns_of t) = fold_right (fun b n => (bwidth b + n)%nat) 0%nat t.
Proof.
  induction t as [|b r IH]; [reflexivity|].
  change (columns_of (b :: r)) with (k_cols V b ++ columns_of r). rewrite app_length, IH. reflexivity.
Qed.

(* equal block widths pairwise: block by block = column by column *)
Lemma op_blocks_cols (a b : list blk) :
  map bwidth a = map bwidth b -> op_blocks a b = op_cols (columns_of a) (columns_of b).
Proof.
  revert b. induction a as [|x xt IH]; intros [|y yt] H; try discriminate; [reflexivity|].
  cbn in H. injection H as Hw Ht. cbn [FrameAlign.op_blocks].
  change (columns_of (x :: xt)) with (k_cols V x ++ columns_of xt).
  change (columns_of (y :: yt)) with (k_cols V y ++ columns_of yt).
  rewrite (IH yt Ht). unfold FrameAlign.op_cols. rewrite map2_app by exact Hw. reflexivity.
Qed.

(* consolidation keeps the columns ... *)
Lemma reblock_go_columns cur grp t :
  columns_of (reblock_go cur grp t) = columns_of grp ++ columns_of t.
Proof.
  revert cur grp. induction t as [|b r IH]; intros cur grp; cbn [FrameAlign.reblock_go].
  - destruct grp as [|g [|g2 gr]]; cbn; rewrite ?app_nil_r; reflexivity.
  - destruct (dtype_eqb (k_dtype V b) cur).
    + rewrite IH, columns_of_app. rewrite <- app_assoc. f_equal.
      unfold FrameAlign.columns_of. cbn [flat_map]. rewrite app_nil_r. reflexivity.
    + change (columns_of (?e :: ?l)) with (k_cols V e ++ columns_of l).
      rewrite IH.
      change (columns_of (b :: r)) with (k_cols V b ++ columns_of r).
      destruct grp as [|g [|g2 gr]]; cbn; rewrite ?app_nil_r; reflexivity.
Qed.

Lemma reblock_columns t : columns_of (FrameAlign.reblock V t) = columns_of t.
Proof.
  destruct t as [|b r]; [reflexivity|]. unfold FrameAlign.reblock. rewrite reblock_go_columns.
  cbn. rewrite app_nil_r. reflexivity.
Qed.

(* ... and its block widths are the reblock signature *)
Lemma reblock_go_widths cur grp t :
  map bwidth (reblock_go cur grp t) = sig_go cur (length (columns_of grp)) t.
Proof.
  revert cur grp. induction t as [|b r IH]; intros cur grp; cbn [FrameAlign.reblock_go FrameAlign.sig_go].
  - destruct grp as [|g [|g2 gr]]; cbn; rewrite ?app_nil_r; reflexivity.
  - destruct (dtype_eqb (k_dtype V b) cur).
    + rewrite IH, columns_of_app, app_length. cbn. rewrite app_nil_r. reflexivity.
    + cbn [map]. rewrite IH. cbn. rewrite app_nil_r. f_equal.
      destruct grp as [|g [|g2 gr]]; cbn; rewrite ?app_nil_r; reflexivity.
Qed.

Lemma reblock_widths t : map bwidth (FrameAlign.reblock V t) = FrameAlign.reblock_sig V t.
Proof.
  destruct t as [|b r]; [reflexivity|]. unfold FrameAlign.reblock, FrameAlign.reblock_sig.
  rewrite reblock_go_widths. cbn. rewrite app_nil_r. reflexivity.
Qed.

(* MAIN: every path of the operator between two TypeBlocks is the column-wise application *)
Theorem tb_binop_layout_independent (a b : list blk) :
  length (columns_of a) = length (columns_of b) ->
  M_tb_binop_g V R f a b = Ok (S_tb_binop V R f a b).
Proof.
  intros Hlen. unfold M_tb_binop_g, S_tb_binop.
  destruct (block_compatible V a b) eqn:Ebc.
  - apply nat_list_eqb_spec in Ebc. rewrite (op_blocks_cols a b Ebc). reflexivity.
  - unfold total_bwidth. rewrite Hlen, Nat.eqb_refl.
    destruct (reblock_compatible V a b) eqn:Erc; [|reflexivity].
    unfold reblock_compatible in Erc. apply andb_true_iff in Erc as [_ Es]. apply nat_list_eqb_spec in Es.
    rewrite op_blocks_cols by (rewrite !reblock_widths; exact Es).
    rewrite !reblock_columns. reflexivity.
Qed.

(* ---- 1-D / scalar operand: the block walk equals the column-wise application on the flattened columns ---- *)
Lemma flat_map_cols (Y : Type) (g : list V -> Y) (t : list blk) :
  flat_map (fun b => map g (k_cols V b)) t = map g (columns_of t).
Proof.
  induction t as [|b r IH]; [reflexivity|].
  change (columns_of (b :: r)) with (k_cols V b ++ columns_of r).
  cbn [flat_map]. rewrite map_app, IH. reflexivity.
Qed.

Lemma combine_app_firstn (X Y : Type) (l1 l2 : list X) (o : list Y) :
  combine (l1 ++ l2) o = combine l1 (firstn (length l1) o) ++ combine l2 (skipn (length l1) o).
Proof.
  revert o. induction l1 as [|x r IH]; intros o; [reflexivity|].
  destruct o as [|y s]; cbn; [destruct l2; reflexivity|]. f_equal. apply IH.
Qed.

Lemma rowwise_blocks_flat (t : list blk) (other : list V) :
  rowwise_blocks V R f t other =
  map (fun p => col_with V R f (fst p) (snd p)) (combine (columns_of t) other).
Proof.
  revert other. induction t as [|b r IH]; intros other; [reflexivity|].
  change (columns_of (b :: r)) with (k_cols V b ++ columns_of r).
  cbn [FrameAlign.rowwise_blocks]. rewrite IH. unfold FrameAlign.bwidth.
  rewrite combine_app_firstn, map_app. reflexivity.
Qed.

Lemma combine_repeat (X Y : Type) (l : list X) (o : Y) :
  combine l (repeat o (length l)) = map (fun c => (c, o)) l.
Proof. induction l; cbn; congruence. Qed.

Theorem tb_rowwise_layout_independent (t : list blk) (other : list V) :
  M_tb_rowwise_g V R f t other = S_tb_rowwise V R f t other.
Proof.
  unfold M_tb_rowwise_g, S_tb_rowwise.
  destruct other as [|o [|o2 r]]; try apply rowwise_blocks_flat.
  rewrite flat_map_cols. unfold total_bwidth. rewrite combine_repeat, map_map. reflexivity.
Qed.

Theorem tb_colwise_layout_independent (t : list blk) (other : list V) :
  M_tb_colwise_g V R f t other = S_tb_colwise V R f t other.
Proof.
  unfold M_tb_colwise_g, S_tb_colwise.
  destruct other as [|o [|o2 r]]; apply flat_map_cols.
Qed.

End Facts.
