(* The Frame / Series decision of the implementation model (SF.Select.extract_decision, used by M_extract)
   IS the if/elif chain of Frame._extract, regenerated from /repo into Gen/Gen_c04.v on every run. *)
Require Import SF.Prelude SF.PySlice SF.Dtype SF.Blocks SF.Select Gen.Gen_c04.

Lemma decision_is_source r c nm0 nm1 : extract_decision r c nm0 nm1 = extract_decision_src r c nm0 nm1.
Proof.
  unfold extract_decision, extract_decision_src.
  destruct (r =? 0), (c =? 0), (r =? 1), (c =? 1), nm0, nm1; reflexivity.
Qed.

(* the index of a derived container is built without loc_is_iloc: label selection on it goes through its
   own dictionary (the model decision SF.Select.derived_kind = KMap for every non-null key) *)
Lemma derived_index_has_dictionary :
  derived_index_passes_loc_is_iloc_src = false /\
  forall (is_frame : bool) (k : ckey) (src : axkind), is_all k = false -> derived_kind is_frame k src = KMap.
Proof.
  split; [reflexivity|].
  intros is_frame k src H. unfold derived_kind. rewrite H, Bool.andb_false_r. reflexivity.
Qed.

(* single_row: the model's decision, per class of row key, IS the if/elif chain of TypeBlocks._slice_blocks
   (type_blocks.py:1998-2015) regenerated into Gen/Gen_c04.v; and SF.Select.single_row is that decision applied to the key *)
Lemma single_row_is_source kind rows range_n count len :
  single_row_dec kind rows range_n count len = single_row_src kind rows range_n count len.
Proof.
  destruct kind; unfold single_row_dec, single_row_src; cbn [rkkind_eqb andb]; try reflexivity.
  destruct (len =? 1); reflexivity.
Qed.

Lemma single_row_uses_decision rk n :
  single_row rk n =
  match rk with
  | CAll => Ok (single_row_dec RNull n 0 0 0)
  | CInt _ => Ok (single_row_dec RInt n 0 0 0)
  | CSlice s => match slice_indices s n with
                | None => Err "ValueError"
                | Some (a, b, st) => Ok (single_row_dec RSlice n (range_len a b st) 0 0)
                end
  | CMask m => Ok (single_row_dec RMask n 0 (count_true m) 0)
  | CList l => Ok (single_row_dec RIter n 0 0 (Z.of_nat (length l)))
  end.
Proof.
  destruct rk as [|i|s|l|m]; cbn [single_row single_row_dec]; try reflexivity;
    destruct (slice_indices s n) as [[[a b] st]|]; reflexivity.
Qed.

Lemma single_row_decision :
  (forall kind rows range_n count len, single_row_dec kind rows range_n count len = single_row_src kind rows range_n count len) /\
  (forall rk n, single_row rk n =
     match rk with
     | CAll => Ok (single_row_dec RNull n 0 0 0)
     | CInt _ => Ok (single_row_dec RInt n 0 0 0)
     | CSlice s => match slice_indices s n with
                   | None => Err "ValueError"
                   | Some (a, b, st) => Ok (single_row_dec RSlice n (range_len a b st) 0 0)
                   end
     | CMask m => Ok (single_row_dec RMask n 0 (count_true m) 0)
     | CList l => Ok (single_row_dec RIter n 0 0 (Z.of_nat (length l)))
     end).
Proof. split; [exact single_row_is_source|exact single_row_uses_decision]. Qed.
