(* The Frame / Series decision of the implementation model (SF.Select.extract_decision, used by M_extract)
   IS the if/elif chain of Frame._extract, regenerated from /repo into Gen/Gen_c04.v on every run. *)
Require Import SF.Prelude SF.PySlice SF.Dtype SF.Blocks SF.Select Gen.Gen_c04.

Lemma decision_is_source r c nm0 nm1 : extract_decision r c nm0 nm1 = extract_decision_src r c nm0 nm1.
Proof.
  unfold extract_decision, extract_decision_src.
  destruct (r =? 0), (c =? 0), (r =? 1), (c =? 1), nm0, nm1; reflexivity.
Qed.

(* the index of a derived container is built without loc_is_iloc: label selection on it goes through its
   own dictionary (the model decision SF.Select.derived_kind = KMap for every non-null key) *)
Lemma derived_index_has_dictionary :
  derived_index_passes_loc_is_iloc_src = false /\
  forall (is_frame : bool) (k : ckey) (src : axkind), is_all k = false -> derived_kind is_frame k src = KMap.
Proof.
  split; [reflexivity|].
  intros is_frame k src H. unfold derived_kind. rewrite H, Bool.andb_false_r. reflexivity.
Qed.
