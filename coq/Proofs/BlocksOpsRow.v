(* C03, part 2: row dtype over blocks = over columns; values; transpose; roll (split of a block at the
   start column); frame coherence and agreement of the read routes. *)
Require Import SF.Prelude SF.PySlice SF.Dtype SF.Blocks SF.BlocksOps Proofs.SliceFacts Proofs.BlocksSelect Proofs.BlocksOps.

Section RowProofs.
Context {A : Type}.
Notation block := (block A).
Notation tb := (tb A).
Notation column := (dtype * list A)%type.

(* =============================== row dtype =============================== *)
Section Resolve.
Variable resolve : dtype -> dtype -> dtype.
Variable cast : dtype -> dtype -> A -> A.
(* facts about util.resolve_dtype, proved for its typed form in Proofs/BlocksOpsResolve.v;
   P = the dtype is a real one (positive item sizes) *)
Variable P : dtype -> Prop.
Hypothesis resolve_idem : forall d, resolve d d = d.
Hypothesis resolve_obj : forall d, resolve DObj d = DObj.
Hypothesis resolve_closed : forall r d, P r -> P d -> P (resolve r d).
Hypothesis resolve_absorb : forall r d, P r -> P d -> resolve (resolve r d) d = resolve r d.

Definition dtypes_ok (t : tb) : Prop := Forall (fun b => P (b_dtype b)) t.

Lemma go_obj l : resolve_iter_go resolve DObj l = DObj.
Proof. destruct l as [|d r]; [reflexivity|]. cbn. rewrite resolve_obj. reflexivity. Qed.

Lemma go_repeat d : P d -> forall k acc rest, P acc ->
  resolve_iter_go resolve acc (repeat d (S k) ++ rest) = resolve_iter_go resolve acc (d :: rest).
Proof.
  intros Pd. induction k as [|k IH]; intros acc rest Pa; [reflexivity|].
  change (repeat d (S (S k)) ++ rest) with (d :: (repeat d (S k) ++ rest)).
  cbn [resolve_iter_go]. destruct (dtype_eqb (resolve acc d) DObj) eqn:E; [reflexivity|].
  rewrite IH by (apply resolve_closed; assumption). cbn [resolve_iter_go].
  rewrite resolve_absorb by assumption. rewrite E. reflexivity.
Qed.

Lemma go_repeat_same d : forall k rest,
  resolve_iter_go resolve d (repeat d k ++ rest) = resolve_iter_go resolve d rest.
Proof.
  induction k as [|k IH]; intros rest; [reflexivity|].
  cbn [repeat app resolve_iter_go]. rewrite resolve_idem.
  destruct (dtype_eqb d DObj) eqn:E; [|apply IH].
  apply dtype_eqb_eq in E. subst d. symmetry. apply go_obj.
Qed.

Lemma go_blocks (t : tb) : wf_tb t -> dtypes_ok t -> forall acc, P acc ->
  resolve_iter_go resolve acc (tb_dtypes t) = resolve_iter_go resolve acc (map b_dtype t).
Proof.
  induction 1 as [|b t [Hw _] _ IH]; intros Hok acc Pa; [reflexivity|].
  inversion Hok as [|? ? Pb Hok']; subst.
  cbn [tb_dtypes map]. destruct (length (b_cols b)) as [|k]; [lia|].
  rewrite go_repeat by assumption. cbn [resolve_iter_go].
  destruct (dtype_eqb (resolve acc (b_dtype b)) DObj); [reflexivity|].
  apply IH; [assumption|]. apply resolve_closed; assumption.
Qed.

(* resolve_dtype_iter over the block dtypes (what TypeBlocks.__init__ computes) is resolve_dtype_iter over the
   column dtypes: the row dtype does not depend on the layout *)
Theorem row_dtype_refines (t : tb) : wf_tb t -> dtypes_ok t ->
  M_row_dtype resolve t = S_row_dtype resolve (flatten t).
Proof.
  intros Hwf Hok. unfold M_row_dtype, S_row_dtype. rewrite <- tb_dtypes_spec.
  destruct Hwf as [|b t [Hw _] Ht]; [reflexivity|]. inversion Hok as [|? ? Pb Hok']; subst.
  cbn [tb_dtypes map]. destruct (length (b_cols b)) as [|k]; [lia|].
  cbn [repeat app resolve_iter]. f_equal. rewrite go_repeat_same. symmetry. apply go_blocks; assumption.
Qed.

(* =============================== values =============================== *)
Definition cast_column (rd : dtype) (c : column) : list A :=
  if dtype_eqb (fst c) rd then snd c else map (cast (fst c) rd) (snd c).

Lemma cast_cols_columns (b : block) rd :
  cast_cols cast (b_dtype b) rd (b_cols b) = map (cast_column rd) (block_columns b).
Proof.
  unfold cast_cols, block_columns, cast_column. rewrite map_map. cbn [fst snd].
  destruct (dtype_eqb (b_dtype b) rd); [now rewrite map_id|reflexivity].
Qed.

Lemma flat_map_cast (t : tb) rd :
  flat_map (fun b => cast_cols cast (b_dtype b) rd (b_cols b)) t = map (cast_column rd) (flatten t).
Proof.
  induction t as [|b t IH]; [reflexivity|]. cbn [flat_map]. rewrite flatten_cons, map_app, IH, cast_cols_columns. reflexivity.
Qed.

Lemma row_dtype_single (b : block) : wf_block b -> M_row_dtype resolve [b] = Some (b_dtype b).
Proof. reflexivity. Qed.

Theorem values_refines (t : tb) : wf_tb t -> dtypes_ok t ->
  M_values resolve cast t = S_values resolve cast (flatten t).
Proof.
  intros Hwf Hok. unfold S_values. rewrite <- (row_dtype_refines t Hwf Hok).
  destruct t as [|b [|b2 r]]; [reflexivity| |].
  - cbn [M_values M_row_dtype map resolve_iter resolve_iter_go]. f_equal. f_equal.
    change (map (fun c => if dtype_eqb (fst c) (b_dtype b) then snd c else map (cast (fst c) (b_dtype b)) (snd c)) (flatten [b]))
      with (map (cast_column (b_dtype b)) (flatten [b])).
    rewrite <- flat_map_cast. cbn [flat_map]. rewrite app_nil_r. unfold cast_cols. now rewrite dtype_eqb_refl.
  - unfold M_values. destruct (M_row_dtype resolve (b :: b2 :: r)) as [rd|]; [|reflexivity].
    f_equal. f_equal. apply flat_map_cast.
Qed.

(* =============================== transpose =============================== *)
Theorem transpose_refines (t : tb) (nrows : nat) : wf_tb t -> dtypes_ok t -> t <> [] ->
  res_map (@flatten A) (M_transpose resolve cast t nrows) = S_transpose resolve cast (flatten t) nrows.
Proof.
  intros Hwf Hok Hne. unfold S_transpose, S_values. rewrite <- (row_dtype_refines t Hwf Hok).
  destruct t as [|b r]; [congruence|]. unfold M_transpose.
  destruct (M_row_dtype resolve (b :: r)) as [rd|] eqn:Er; [|discriminate].
  rewrite flat_map_cast.
  destruct nrows as [|k]; [reflexivity|]. cbn [res_map]. rewrite flatten_cons. cbn [flatten flat_map].
  rewrite app_nil_r. reflexivity.
Qed.

End Resolve.

(* rows_of really transposes a rectangular column-major matrix *)
Lemma heads_nth (cols : list (list A)) : forall j x c', Forall (fun c => c <> []) cols ->
  nth_error cols j = Some (x :: c') -> nth_error (heads cols) j = Some x.
Proof.
  induction cols as [|c cols IH]; intros j x c' Hne H; [destruct j; discriminate|].
  inversion Hne as [|? ? Hc Hr]; subst. unfold heads. cbn [flat_map]. fold (heads cols).
  destruct j as [|j]; cbn in H.
  - injection H as ->. reflexivity.
  - destruct c as [|y c0]; [congruence|]. cbn. eapply IH; eassumption.
Qed.

Theorem rows_of_transposes (n : nat) : forall (cols : list (list A)) i j c x,
  Forall (fun c => length c = n) cols ->
  nth_error cols j = Some c -> nth_error c i = Some x ->
  exists row, nth_error (rows_of n cols) i = Some row /\ nth_error row j = Some x.
Proof.
  induction n as [|n IH]; intros cols i j c x Hrect Hc Hx.
  - exfalso. rewrite Forall_forall in Hrect. apply nth_error_In in Hc. apply Hrect in Hc.
    destruct c; [destruct i; discriminate|discriminate].
  - destruct i as [|i]; cbn [rows_of nth_error].
    + exists (heads cols). split; [reflexivity|]. destruct c as [|y c']; [discriminate|]. cbn in Hx. injection Hx as ->.
      eapply heads_nth; [|eassumption]. eapply Forall_impl; [|exact Hrect]. intros a Ha E. subst a. discriminate.
    + apply (IH (map (@tl A) cols) i j (tl c) x).
      * rewrite Forall_forall in *. intros a Ha. apply in_map_iff in Ha as (a0 & <- & Ha0).
        apply Hrect in Ha0. destruct a0; [discriminate|]. cbn in *. lia.
      * rewrite nth_error_map, Hc. reflexivity.
      * destruct c; [discriminate|]. exact Hx.
Qed.

(* =============================== roll =============================== *)
(* the directory entry at position p locates the block and the column inside it *)
Lemma index_from_locate (t : tb) : forall k p bi j, nth_z (index_from k t) p = Some (bi, j) ->
  exists pre b post, t = pre ++ b :: post /\ bi = k + Z.of_nat (length pre) /\ 0 <= j < width b /\
                     p = Z.of_nat (length (flatten pre)) + j.
Proof.
  induction t as [|b r IH]; intros k p bi j H; cbn in H.
  - unfold nth_z in H. destruct (p <? 0); [discriminate|]. destruct (Z.to_nat p); discriminate.
  - pose proof (nth_z_Some _ _ _ H) as Hp. rewrite app_length, map_length, seq_length in Hp.
    destruct (p <? Z.of_nat (length (b_cols b))) eqn:Hlt.
    + rewrite nth_z_app_l in H by (rewrite map_length, seq_length; lia).
      assert (Ep : p = Z.of_nat (Z.to_nat p)) by lia.
      set (pn := Z.to_nat p) in *. clearbody pn. subst p.
      rewrite nth_z_nat, nth_error_map in H.
      destruct (nth_error (seq 0 (length (b_cols b))) pn) as [q|] eqn:Hq; [|discriminate].
      cbn in H. injection H as <- <-.
      assert (Hq' : q = pn).
      { apply nth_error_nth with (d := 0%nat) in Hq. rewrite seq_nth in Hq by lia. lia. }
      subst q. exists [], b, r. cbn. unfold width. repeat split; lia.
    + rewrite nth_z_app_r in H by (rewrite map_length, seq_length; lia).
      rewrite map_length, seq_length in H. apply IH in H.
      destruct H as (pre & b' & post & -> & -> & Hj & Ep).
      exists (b :: pre), b', post. cbn [app length]. rewrite flatten_cons, app_length, block_columns_length.
      repeat split; try lia.
Qed.

Lemma flatten_rowmap (rowf : list A -> list A) (t : tb) :
  flatten (map (block_rowmap rowf) t) = map (fun c => (fst c, rowf (snd c))) (flatten t).
Proof.
  induction t as [|b t IH]; [reflexivity|]. cbn [map]. rewrite !flatten_cons, map_app, IH. f_equal.
  unfold block_columns, block_rowmap. cbn [b_dtype b_cols]. rewrite !map_map. reflexivity.
Qed.

Lemma firstn_app_exact {B} (l1 l2 : list B) : firstn (length l1) (l1 ++ l2) = l1.
Proof. rewrite firstn_app, Nat.sub_diag, firstn_all. cbn. apply app_nil_r. Qed.

Lemma skipn_app_exact {B} (l1 l2 : list B) : skipn (length l1) (l1 ++ l2) = l2.
Proof. rewrite skipn_app, Nat.sub_diag, skipn_all. reflexivity. Qed.

Lemma nth_z_app_mid {B} (l1 : list B) x l2 : nth_z (l1 ++ x :: l2) (Z.of_nat (length l1)) = Some x.
Proof. rewrite nth_z_nat, nth_error_app2 by lia. rewrite Nat.sub_diag. reflexivity. Qed.

Theorem roll_refines (t : tb) (nrows ncols row_shift col_shift : Z) (rowf : list A -> list A) :
  wf_tb t -> 0 < nrows -> 0 < ncols -> ncols = Z.of_nat (length (flatten t)) ->
  res_map (@flatten A) (M_roll t nrows ncols row_shift col_shift rowf)
  = Ok (S_roll (flatten t) nrows ncols row_shift col_shift rowf).
Proof.
  intros Hwf Hr Hc Hn. unfold M_roll, S_roll.
  replace (ncols =? 0) with false by lia. replace (nrows =? 0) with false by lia. cbn [orb].
  set (s := col_shift mod ncols). assert (Hs : 0 <= s < ncols) by (apply Z.mod_pos_bound; lia).
  set (rm := row_shift mod nrows).
  replace (- rm =? 0) with (rm =? 0) by lia.
  set (p := (ncols - s) mod ncols).
  assert (Hp : 0 <= p < ncols) by (apply Z.mod_pos_bound; lia).
  assert (Hps : p = if s =? 0 then 0 else ncols - s).
  { unfold p. destruct (s =? 0) eqn:E0.
    - replace s with 0 by lia. rewrite Z.sub_0_r. apply Z_mod_same_full.
    - apply Z.mod_small. lia. }
  destruct ((- s =? 0) && (rm =? 0)) eqn:Eid.
  - (* nothing moves *)
    apply andb_true_iff in Eid as [E1 E2]. rewrite E2. cbn [res_map]. f_equal.
    assert (p = 0) by (rewrite Hps; replace (s =? 0) with true by lia; reflexivity).
    replace (Z.to_nat p) with 0%nat by lia. cbn [skipn firstn]. now rewrite app_nil_r.
  - assert (Hlen : Z.of_nat (length (tb_index t)) = ncols) by (unfold tb_index; rewrite index_from_length; lia).
    assert (Hnth : py_nth (tb_index t) (- s) = nth_z (tb_index t) p).
    { unfold py_nth. rewrite Hlen. unfold norm_index. rewrite Hps. destruct (s =? 0) eqn:E0.
      - replace (- s) with 0 by lia. replace ((0 <=? 0) && (0 <? ncols)) with true by lia. reflexivity.
      - replace ((0 <=? - s) && (- s <? ncols)) with false by lia.
        replace ((- s <? 0) && (0 <=? - s + ncols)) with true by lia. f_equal. lia. }
    rewrite Hnth.
    destruct (nth_z (tb_index t) p) as [[bi col]|] eqn:Ep.
    2:{ exfalso. unfold nth_z in Ep. replace (p <? 0) with false in Ep by lia. apply nth_error_None in Ep. lia. }
    destruct (index_from_locate t 0 p bi col Ep) as (pre & b & post & Et & Ebi & Hcol & Epp).
    subst t. cbn [Z.add] in Ebi. subst bi.
    rewrite nth_z_app_mid.
    rewrite Nat2Z.id. rewrite firstn_app_exact.
    replace (Z.to_nat (Z.of_nat (length pre) + 1)) with (length (pre ++ [b])) by (rewrite app_length; cbn; lia).
    assert (Hsk : skipn (length (pre ++ [b])) (pre ++ b :: post) = post).
    { replace (pre ++ b :: post) with ((pre ++ [b]) ++ post) by (rewrite <- app_assoc; reflexivity). apply skipn_app_exact. }
    rewrite Hsk.
    (* the flattened rotation *)
    assert (Hrot : flatten (if col =? 0 then (b :: post) ++ pre
                            else (block_cols_from b col :: post) ++ pre ++ [block_cols_to b col])
                   = skipn (Z.to_nat p) (flatten (pre ++ b :: post)) ++ firstn (Z.to_nat p) (flatten (pre ++ b :: post))).
    { rewrite (flatten_app pre (b :: post)), flatten_cons.
      replace (Z.to_nat p) with (length (flatten pre) + Z.to_nat col)%nat by lia.
      rewrite skipn_app, firstn_app.
      replace (length (flatten pre) + Z.to_nat col - length (flatten pre))%nat with (Z.to_nat col) by lia.
      rewrite (skipn_all2 (flatten pre)) by lia. rewrite (firstn_all2 (flatten pre)) by lia.
      cbn [app].
      rewrite skipn_app, firstn_app.
      assert (Hcl : (Z.to_nat col <= length (block_columns b))%nat) by (rewrite block_columns_length; unfold width in Hcol; lia).
      replace (Z.to_nat col - length (block_columns b))%nat with 0%nat by lia. cbn [skipn firstn]. rewrite app_nil_r.
      destruct (col =? 0) eqn:Ec0.
      - replace (Z.to_nat col) with 0%nat by lia. cbn [skipn firstn]. rewrite app_nil_r.
        cbn [app]. rewrite flatten_cons, flatten_app. now rewrite app_assoc.
      - cbn [app]. rewrite flatten_cons, flatten_app, flatten_app. cbn [flatten flat_map]. rewrite app_nil_r.
        unfold block_cols_from, block_cols_to, block_columns. cbn [b_dtype b_cols].
        rewrite skipn_map, firstn_map. rewrite <- !app_assoc. reflexivity. }
    destruct (rm =? 0); cbn [res_map]; f_equal.
    + exact Hrot.
    + rewrite flatten_rowmap. f_equal. exact Hrot.
Qed.

Corollary roll_layout_independent (t1 t2 : tb) nrows ncols rs cs rowf : wf_tb t1 -> wf_tb t2 ->
  flatten t1 = flatten t2 -> 0 < nrows -> 0 < ncols -> ncols = Z.of_nat (length (flatten t1)) ->
  res_map (@flatten A) (M_roll t1 nrows ncols rs cs rowf) = res_map (@flatten A) (M_roll t2 nrows ncols rs cs rowf).
Proof.
  intros H1 H2 E Hr Hc Hn. rewrite (roll_refines t1) by assumption.
  rewrite (roll_refines t2) by (try assumption; congruence). now rewrite E.
Qed.

(* rolling by the column count, or by 0, is the identity on the view; rolling is a rotation: a permutation *)
Lemma S_roll_permutation (cols : list column) nrows ncols cs rowf :
  Permutation (S_roll cols nrows ncols 0 cs rowf) cols.
Proof.
  unfold S_roll. rewrite Zmod_0_l. cbn [Z.eqb]. rewrite Permutation_app_comm, firstn_skipn. reflexivity.
Qed.

(* =============================== frame coherence =============================== *)
Section FrameProofs.
Context {L : Type}.
Notation frame := (frame A L).

(* a constructed Frame has exactly one row per index label and one data column per column label *)
Theorem frame_coherent (index columns : list L) (t : tb) (rows : Z) (f : frame) :
  wf_tb t -> rows_ok t rows -> mk_frame_checked index columns t rows = Ok f ->
  frame_shape f = (Z.of_nat (length (f_index f)), Z.of_nat (length (f_columns f))) /\
  length (flatten (f_blocks f)) = length (f_columns f) /\
  Forall (fun c => length (snd c) = length (f_index f)) (flatten (f_blocks f)).
Proof.
  intros Hwf Hrows. unfold mk_frame_checked.
  destruct (rows =? Z.of_nat (length index)) eqn:E1; cbn [negb]; [|discriminate].
  destruct (tb_column_count t =? Z.of_nat (length columns)) eqn:E2; cbn [negb]; [|discriminate].
  intros H. injection H as <-. unfold frame_shape. cbn [f_index f_columns f_blocks f_rows].
  rewrite tb_column_count_spec in E2. repeat split.
  - rewrite tb_column_count_spec. f_equal; lia.
  - lia.
  - unfold rows_ok in Hrows. rewrite Forall_forall in *. intros c Hc. unfold flatten in Hc.
    apply in_flat_map in Hc as (b & Hb & Hc). unfold block_columns in Hc. apply in_map_iff in Hc as (c0 & <- & Hc0).
    specialize (Hrows b Hb). rewrite Forall_forall in Hrows. specialize (Hrows c0 Hc0). cbn [snd]. lia.
Qed.

Theorem frame_rejects (index columns : list L) (t : tb) (rows : Z) :
  (rows <> Z.of_nat (length index) \/ Z.of_nat (length (flatten t)) <> Z.of_nat (length columns)) ->
  mk_frame_checked index columns t rows = Err "ErrorInitFrame"%string.
Proof.
  intros H. unfold mk_frame_checked. rewrite tb_column_count_spec.
  destruct (rows =? Z.of_nat (length index)) eqn:E1; cbn [negb]; [|reflexivity].
  destruct (Z.of_nat (length (flatten t)) =? Z.of_nat (length columns)) eqn:E2; cbn [negb]; [|reflexivity].
  exfalso. destruct H; lia.
Qed.

Theorem to_pairs_refines (f : frame) : wf_tb (f_blocks f) ->
  frame_to_pairs f = Some (map (fun lc => (fst lc, fst (snd lc), combine (f_index f) (snd (snd lc))))
                               (combine (f_columns f) (flatten (f_blocks f)))).
Proof. intros Hwf. unfold frame_to_pairs. rewrite axis_values0_refines by assumption. reflexivity. Qed.

End FrameProofs.

(* every read route of cell (i, j) returns the same cell: iloc / element iteration (own dtype), column
   iteration and to_pairs (own dtype), values (that cell converted to the row dtype) *)
Theorem readers_agree (resolve : dtype -> dtype -> dtype) (cast : dtype -> dtype -> A -> A) (P : dtype -> Prop)
  (t : tb) (i j : Z) d x :
  (forall d, resolve d d = d) -> (forall d, resolve DObj d = DObj) ->
  (forall r d, P r -> P d -> P (resolve r d)) -> (forall r d, P r -> P d -> resolve (resolve r d) d = resolve r d) ->
  wf_tb t -> dtypes_ok P t -> 0 <= i -> 0 <= j -> M_element t i j = Ok (d, x) ->
  exists c, nth_z (flatten t) j = Some (d, c) /\ nth_z c i = Some x /\
            M_column t j = Ok (d, c) /\
            (exists cols, M_axis_values0 t false = Some cols /\ nth_z cols j = Some (d, c)) /\
            (exists rd vcols vc, M_values resolve cast t = Some (rd, vcols) /\ M_row_dtype resolve t = Some rd /\
                                 nth_z vcols j = Some vc /\
                                 nth_z vc i = Some (if dtype_eqb d rd then x else cast d rd x)).
Proof.
  intros H1 H3 H4 H2 Hwf Hok Hi Hj H.
  rewrite (element_refines t i j Hwf) in H. unfold S_element in H.
  assert (Hpy : forall {B} (l : list B) k, 0 <= k -> py_nth l k = nth_z l k).
  { intros B l k Hk. unfold py_nth, norm_index.
    destruct ((0 <=? k) && (k <? Z.of_nat (length l))) eqn:E; [reflexivity|].
    replace ((k <? 0) && (0 <=? k + Z.of_nat (length l))) with false by lia.
    unfold nth_z. replace (k <? 0) with false by lia. symmetry. apply nth_error_None. lia. }
  rewrite (Hpy _ (flatten t) j Hj) in H.
  destruct (nth_z (flatten t) j) as [[d0 c]|] eqn:Ec; [|discriminate].
  rewrite (Hpy _ c i Hi) in H. destruct (nth_z c i) as [x0|] eqn:Ex; [|discriminate].
  injection H as -> ->. exists c. split; [reflexivity|]. split; [exact Ex|]. split.
  - rewrite (column_refines t j Hwf). unfold S_column. rewrite (Hpy _ (flatten t) j Hj), Ec. reflexivity.
  - split.
    + exists (flatten t). split; [apply (axis_values0_refines t false Hwf)|exact Ec].
    + pose proof (values_refines resolve cast P H1 H3 H4 H2 t Hwf Hok) as HV.
      pose proof (row_dtype_refines resolve cast P H1 H3 H4 H2 t Hwf Hok) as HR.
      rewrite HV. unfold S_values. rewrite <- HR.
      destruct (M_row_dtype resolve t) as [rd|] eqn:Er.
      * eexists rd, _, _. split; [reflexivity|]. split; [reflexivity|]. split.
        -- rewrite nth_z_map, Ec. reflexivity.
        -- cbn [fst snd]. destruct (dtype_eqb d rd); [exact Ex|]. rewrite nth_z_map, Ex. reflexivity.
      * exfalso. unfold M_row_dtype in Er. destruct t as [|b r]; [|discriminate].
        unfold nth_z in Ec. destruct (j <? 0); [discriminate|]. destruct (Z.to_nat j); discriminate.
Qed.

End RowProofs.
