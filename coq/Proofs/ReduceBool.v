(* C15 -- an all-bool frame: prod / min / max stored into a bool `out` lose nothing. *)
Require Import SF.Prelude SF.Value SF.Dtype SF.Reduce Gen.Gen_c15_table Proofs.ReduceFold Proofs.ReduceRefine.
From Coq Require Import QArith.
Local Open Scope Z_scope.

Definition is01 (q : Q) : Prop := q = (0 # 1) \/ q = (1 # 1).

Lemma kind_join_kb : forall a b, kind_join a b = KB -> a = KB /\ b = KB.
Proof. intros [] []; cbn; intros H; try discriminate; split; reflexivity. Qed.

Lemma fold_kind_join_kb : forall t k, fold_left kind_join t k = KB -> k = KB /\ Forall (fun x => x = KB) t.
Proof.
  induction t as [|x t IH]; intros k H; [split; [exact H|constructor]|].
  cbn in H. apply IH in H as [H1 H2]. apply kind_join_kb in H1 as [-> ->].
  split; [reflexivity|]. constructor; [reflexivity|exact H2].
Qed.

Lemma row_kind_kb : forall ks, ks <> [] -> row_kind ks = KB -> Forall (fun x => x = KB) ks.
Proof.
  intros [|k t] Hne H; [congruence|]. cbn in H. apply fold_kind_join_kb in H as [-> H]. constructor; [reflexivity|exact H].
Qed.

(* every column of an all-bool well-formed frame holds the cells 0 and 1 only *)
Lemma bool_frame_cells : forall r bs, wf_frame r bs = true -> bs <> [] -> row_kind (frame_kinds bs) = KB ->
  Forall (fun c => Forall (fun x => exists q, x = Some q /\ is01 q) c) (frame_cells bs).
Proof.
  intros r bs Hwf Hne Hk.
  assert (Hkinds : Forall (fun x => x = KB) (frame_kinds bs)).
  { apply row_kind_kb; [|exact Hk]. destruct bs as [|b bs]; [congruence|].
    unfold wf_frame in Hwf. cbn [forallb] in Hwf. apply andb_true_iff in Hwf as [Hb _].
    unfold wf_blk in Hb. apply andb_true_iff in Hb as [_ Hb].
    unfold frame_kinds. cbn [flat_map]. destruct (blk_cols (snd b)); [discriminate|]. discriminate. }
  unfold wf_frame in Hwf. rewrite forallb_forall in Hwf.
  apply Forall_forall. intros c Hc. unfold frame_cells, flatten in Hc.
  apply in_flat_map in Hc as [cb [Hcb Hc]]. apply in_map_iff in Hcb as [vb [<- Hvb]].
  specialize (Hwf vb Hvb). unfold wf_blk in Hwf. apply andb_true_iff in Hwf as [Hcols Hnn].
  rewrite forallb_forall in Hcols.
  unfold vblk_cells in Hc. rewrite blk_cols_map in Hc. apply in_map_iff in Hc as [c0 [<- Hc0]].
  specialize (Hcols c0 Hc0). apply andb_true_iff in Hcols as [_ Hty].
  assert (Hd : kind_of (fst vb) = KB).
  { rewrite Forall_forall in Hkinds. apply Hkinds. unfold frame_kinds. apply in_flat_map.
    exists vb. split; [exact Hvb|]. apply in_map_iff. exists c0. split; [reflexivity|exact Hc0]. }
  destruct (fst vb); try discriminate Hd.
  rewrite forallb_forall in Hty. apply Forall_forall. intros x Hx.
  apply in_map_iff in Hx as [v [<- Hv]]. specialize (Hty v Hv).
  destruct v; try discriminate Hty. destruct b; [exists (1 # 1)|exists (0 # 1)]; split; try reflexivity;
    [right|left]; reflexivity.
Qed.

Lemma present_all01 : forall c, Forall (fun x : cell => exists q, x = Some q /\ is01 q) c ->
  has_missing c = false /\ Forall is01 (present c).
Proof.
  induction c as [|x c IH]; intros H; [split; [reflexivity|constructor]|].
  inversion H as [|? ? [q [-> Hq]] Hc]; subst. destruct (IH Hc) as [Hm Hp].
  split; [exact Hm|]. rewrite present_cons_some. constructor; assumption.
Qed.

Lemma fold_closed (op : Q -> Q -> Q) :
  (forall a b, is01 a -> is01 b -> is01 (op a b)) ->
  forall l a, is01 a -> Forall is01 l -> is01 (fold_left op l a).
Proof.
  intros Hop. induction l as [|x l IH]; intros a Ha Hl; [exact Ha|].
  inversion Hl; subst. cbn. apply IH; [apply Hop; assumption|assumption].
Qed.

Lemma qminl_01 : forall a b, is01 a -> is01 b -> is01 (qminl a b).
Proof. intros a b Ha Hb. unfold qminl. destruct (Qle_bool a b); assumption. Qed.
Lemma qmaxl_01 : forall a b, is01 a -> is01 b -> is01 (qmaxl a b).
Proof. intros a b Ha Hb. unfold qmaxl. destruct (Qle_bool b a); assumption. Qed.
Lemma qmult_01 : forall a b, is01 a -> is01 b -> is01 (a * b)%Q.
Proof. intros a b [-> | ->] [-> | ->]; vm_compute; tauto. Qed.

Lemma store_bool_01 : forall q, is01 q -> store_bool (Ok (ONum q)) = Ok (ONum q).
Proof. intros q [-> | ->]; reflexivity. Qed.

(* prod / min / max of a column of 0/1 cells survive the store into a bool array *)
Lemma store_bool_bool_column : forall f skipna ddof c,
  (f = Fprod \/ f = Fmin \/ f = Fmax) ->
  Forall (fun x : cell => exists q, x = Some q /\ is01 q) c ->
  store_bool (S_line f skipna ddof c) = S_line f skipna ddof c.
Proof.
  intros f skipna ddof c Hf Hc. destruct (present_all01 c Hc) as [Hm Hp].
  unfold S_line. rewrite Hm. cbn [andb].
  destruct Hf as [-> | [-> | ->]]; cbn [S_present].
  - apply store_bool_01. unfold qprod. apply fold_closed; [exact qmult_01|right; reflexivity|exact Hp].
  - destruct c as [|x c']; [reflexivity|].
    inversion Hc as [|? ? [q [-> Hq]] Hc']; subst. rewrite present_cons_some in *. cbn [is_nil].
    inversion Hp; subst. apply store_bool_01. apply fold_closed; [exact qminl_01|assumption|assumption].
  - destruct c as [|x c']; [reflexivity|].
    inversion Hc as [|? ? [q [-> Hq]] Hc']; subst. rewrite present_cons_some in *. cbn [is_nil].
    inversion Hp; subst. apply store_bool_01. apply fold_closed; [exact qmaxl_01|assumption|assumption].
Qed.
