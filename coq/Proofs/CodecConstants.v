(* C16 -- facts about the constants regenerated from the source on every run (Gen/Gen_c16.v), and a concrete
   member of the domain of the round-trip theorem. *)
Require Import SF.Prelude SF.Value Gen.Gen_c16 SF.Codec.

(* the StoreFilter constants regenerated from store_filter.py: every marker decodes to itself *)
Lemma store_filter_markers :
  forallb (fun v => val_eqb (decode_str filter_default (st (render_val filter_default v))) v)
          [VNaN; VNone; VInf false; VInf true] = true.
Proof. vm_compute. reflexivity. Qed.

(* non-vacuity of the domain: a Frame with a two-level index, two-level columns, an int, a float, a bool, a str
   (holding the delimiter, a quote and spaces) and an object column with None / NaN is in the domain *)
Definition example_cfg : cfg :=
  mk_cfg ","%char true true filter_default 2 2 [tx "__index0__"; tx "__index1__"].
Definition example_frame : tframe :=
  mk_tframe [[VStr "x"; VInt 1]; [VStr "x"; VInt (-2)]]
            [[VStr "A"; VInt 1]; [VStr "A"; VInt 2]; [VStr "B"; VInt 1]; [VStr "B"; VInt 2]; [VStr "C"; VInt 3]]
            [(KInt, [VInt 9223372036854775807; VInt (-9223372036854775808)]);
             (KFlt, [VFlt (-3) 2; VNaN]);
             (KBool, [VBool true; VBool false]);
             (KStr, [VStr "a,b ""q"" c"; VStr " 1"]);
             (KObj, [VNone; VStr "a b"])].
Example example_in_domain : dom example_cfg example_frame = true.
Proof. vm_compute. reflexivity. Qed.
