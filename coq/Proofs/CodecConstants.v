(* C16 -- facts about the constants regenerated from the source on every run (Gen/Gen_c16.v), and a concrete
   member of the domain of the round-trip theorem. *)
Require Import SF.Prelude SF.Value Gen.Gen_c16 SF.Codec.

(* the StoreFilter constants regenerated from store_filter.py: every marker decodes to itself *)
Lemma store_filter_markers :
  forallb (fun v => val_eqb (decode_str filter_default (st (render_val filter_default v))) v)
          [VNaN; VNone; VInf false; VInf true] = true.
Proof. vm_compute. reflexivity. Qed.

(* non-vacuity of the domain: a Frame with a two-level index, two-level columns, an int, a float, a bool, a str
   (holding the delimiter, a quote and spaces) and an object column with None / NaN is in the domain *)
Definition example_cfg : cfg :=
  mk_cfg ","%char true true filter_default 2 2 [tx "__index0__"; tx "__index1__"].
Definition example_frame : tframe :=
  mk_tframe [[VStr "x"; VInt 1]; [VStr "x"; VInt (-2)]]
            [[VStr "A"; VInt 1]; [VStr "A"; VInt 2]; [VStr "B"; VInt 1]; [VStr "B"; VInt 2]; [VStr "C"; VInt 3]]
            [(KInt, [VInt 9223372036854775807; VInt (-9223372036854775808)]);
             (KFlt, [VFlt (-3) 2; VNaN]);
             (KBool, [VBool true; VBool false]);
             (KStr, [VStr "a,b ""q"" c"; VStr " 1"]);
             (KObj, [VNone; VStr "a b"])].
Example example_in_domain : dom example_cfg example_frame = true.
Proof. vm_compute. reflexivity. Qed.

(* for ANY well-formed StoreFilter (the default one, or one with other markers) every missing-value marker is
   decoded from its own text, and is therefore a good cell of an object column *)
Theorem markers_decode : forall flt v, filter_wf flt = true -> is_marker v = true ->
  decode_str flt (st (render_val flt v)) = v /\ cell_ok flt KObj v = true /\ is_sentinel flt (st (render_val flt v)) = true.
Proof.
  intros flt v H Hv. unfold filter_wf, marker_text in H.
  apply andb_true_iff in H as [H H4]. apply andb_true_iff in H as [H H3]. apply andb_true_iff in H as [H1 H2].
  apply andb_true_iff in H2 as [A2 B2]. apply negb_true_iff in A2.
  apply andb_true_iff in H3 as [H3 C3]. apply andb_true_iff in H3 as [A3 B3]. apply negb_true_iff in A3, B3.
  apply andb_true_iff in H4 as [H4 D4]. apply andb_true_iff in H4 as [H4 C4]. apply andb_true_iff in H4 as [A4 B4].
  apply negb_true_iff in A4, B4, C4.
  assert (E : decode_str flt (st (render_val flt v)) = v /\ is_sentinel flt (st (render_val flt v)) = true).
  { destruct v as [| | | |[|]| | | | | | |]; try discriminate Hv; unfold decode_str, is_sentinel.
    - rewrite A4, B4, C4, D4. split; reflexivity.
    - rewrite A3, B3, C3. split; reflexivity.
    - rewrite H1. split; reflexivity.
    - rewrite A2, B2. split; reflexivity. }
  destruct E as [E1 E2]. split; [exact E1|]. split; [|exact E2].
  unfold cell_ok. rewrite E1, val_eqb_refl.
  destruct v as [| | | |[|]| | | | | | |]; try discriminate Hv; reflexivity.
Qed.

(* the defaults of StoreFilter as they are in the source now are well formed *)
Lemma default_filter_wf : filter_wf filter_default = true.
Proof. vm_compute. reflexivity. Qed.
