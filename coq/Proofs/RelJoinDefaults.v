(* C20 -- facts about the REGENERATED keyword defaults and join-type dispatch of the public join entry
   points (coq/Gen/Gen_c20.v is rewritten from static_frame/core/frame.py on every run): a join called
   without composite_index goes down the composite path, i.e. the one proved equal to the relational
   definition; each entry point hands its own join type to Frame._join. *)
Require Import SF.Prelude SF.RelJoin Gen.Gen_c20 Proofs.RelJoinRefine.
Local Open Scope string_scope.

Lemma gen_composite_all_true : forall name b, In (name, b) gen_join_composite_default -> b = true.
Proof.
  intros name b H. assert (F : forallb snd gen_join_composite_default = true) by reflexivity.
  rewrite forallb_forall in F. exact (F _ H).
Qed.

Theorem join_default_refines : forall (L K A : Type) (leqb : L -> L -> bool) (keqb : K -> K -> bool),
  (forall a b, leqb a b = true <-> a = b) ->
  forall name b, In (name, b) gen_join_composite_default ->
  forall jt cifv (fill : A) lt rt lcols rcols (Lt Rt : list (trow L K A)),
  NoDup (map lab Lt) -> NoDup (map lab Rt) ->
  Forall (fun l => length (cells l) = length lcols) Lt ->
  Forall (fun r => length (cells r) = length rcols) Rt ->
  ~ In cifv (map lab Lt) -> ~ In cifv (map lab Rt) ->
  nodupb String.eqb (out_names lt rt lcols rcols) = true ->
  M_join leqb keqb jt b cifv fill lt rt lcols rcols Lt Rt
  = Ok (S_frame keqb jt cifv fill lt rt lcols rcols Lt Rt).
Proof.
  intros L K A leqb keqb Hs name b Hb. rewrite (gen_composite_all_true name b Hb).
  apply join_composite_refines. exact Hs.
Qed.

Theorem join_entry_points : 
  map fst gen_join_composite_default = ["_join"; "join_inner"; "join_left"; "join_right"; "join_outer"] /\
  gen_join_dispatch = [("join_inner", "INNER"); ("join_left", "LEFT"); ("join_right", "RIGHT"); ("join_outer", "OUTER")] /\
  forallb (fun p => snd p) gen_join_cifv_default_is_none = true /\
  forallb (fun p => String.eqb (fst (snd p)) "{}" && String.eqb (snd (snd p)) "{}") gen_join_templates_default = true.
Proof. repeat split. Qed.
