(* C14 -- the refinement theorems instantiated at the decisions READ FROM THE SOURCE on every run (Gen/Gen_c14.v).
   With the repaired code both decisions are `true` and no guard is needed; if a repair is reverted the extractor emits
   `false`, `reflexivity` below fails and the property theorems that depend on it are no longer discharged. *)
Require Import SF.Prelude SF.Value SF.Missing SF.MissingCheck Gen.Gen_c14
  Proofs.MissingSpec Proofs.MissingKernel Proofs.MissingAxis1 Proofs.MissingRows Proofs.MissingDrop.

Lemma code_counts_from_first : bwd_count_from_first = true.
Proof. reflexivity. Qed.

Lemma code_reshapes_1d : dropna_1d_reshaped = true.
Proof. reflexivity. Qed.

Lemma frame_bwd_dom_repaired {A} (cf : bool) limit nrows (blocks : list (block A)) :
  cf = true -> frame_bwd_dom cf limit nrows blocks = true.
Proof.
  intros H. unfold frame_bwd_dom. apply forallb_forall. intros i _. apply bwd_dom_repaired. exact H.
Qed.

Theorem dir_axis1_backward_code {A} limit nrows (blocks : list (block A)) :
  0 <= limit -> frame_wf nrows blocks = true ->
  M_dir_axis1 bwd_count_from_first false limit nrows blocks = map (S_bfill limit) (frame_rows nrows blocks).
Proof.
  intros Hl Hwf. apply dir_axis1_backward; [assumption|assumption|].
  apply frame_bwd_dom_repaired. exact code_counts_from_first.
Qed.

Theorem dir_row_backward_code {A} limit (bs : list (rblock A)) :
  0 <= limit -> row_ok bs = true -> M_dir_row bwd_count_from_first false limit bs = S_bfill limit (row_cells bs).
Proof.
  intros Hl Hok. apply dir_row_backward; [assumption|assumption|]. apply bwd_dom_repaired. exact code_counts_from_first.
Qed.

Theorem dropna_keep_code {A} (axis1 use_any : bool) (nrows : nat) (single1d : bool) (cols : list (list (option A))) :
  M_dropna_keep dropna_1d_reshaped axis1 use_any nrows single1d (map (map is_missing) cols) = S_keep axis1 use_any nrows cols.
Proof. apply dropna_keep_refines. intros _. left. exact code_reshapes_1d. Qed.
