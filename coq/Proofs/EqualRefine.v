(* C10 -- refinement: the implementation models of Index/Series/TypeBlocks/Frame.equals compute the
   specification, for every block layout, under the explicit guards of SF/Equal.v. *)
Require Import SF.Prelude SF.Dtype SF.Value SF.Equal Proofs.EqualSpec Proofs.EqualLists.

(* ------------------------------------------------------------------ cells *)
Lemma co_id_not_nat k o v : is_nat v = false -> co k o v = v.
Proof. destruct k, o, v; cbn; intro H; try reflexivity; discriminate. Qed.

Lemma co_id_kinds k o v : is_kdt k && is_kobj o = false -> co k o v = v.
Proof. destruct k, o; cbn; intro H; try discriminate; destruct v; reflexivity. Qed.

Lemma has_nat_in l u : has_nat l = false -> In u l -> is_nat u = false.
Proof.
  unfold has_nat. induction l as [|x xs IH]; cbn; intros H Hin; [contradiction|].
  apply orb_false_iff in H as [H1 H2]. destruct Hin as [->|Hin]; [exact H1 | apply IH; assumption].
Qed.

Lemma co_col_id k o l : is_kdt k && is_kobj o && has_nat l = false -> forall u, In u l -> co k o u = u.
Proof.
  intros H u Hu. destruct (is_kdt k && is_kobj o) eqn:E.
  - cbn in H. apply co_id_not_nat. eapply has_nat_in; eauto.
  - apply co_id_kinds. exact E.
Qed.

Definition eqcol (x y : okind * list val) : list bool := map2 (np_eq (fst x) (fst y)) (snd x) (snd y).

Lemma col_inert_eq x y : col_inert x y = true -> eqcol x y = map2 py_eq (snd x) (snd y).
Proof.
  unfold col_inert, eqcol. intro H. apply andb_true_iff in H as [H1 H2].
  apply negb_true_iff in H1. apply negb_true_iff in H2.
  apply map2_ext_in. intros u v Hu Hv. unfold np_eq.
  rewrite (co_col_id _ _ _ H1 u Hu), (co_col_id _ _ _ H2 v Hv). reflexivity.
Qed.

(* the mask the code builds, as a function of the two cells *)
Definition gmask' (lo ro inc : bool) (x y : val) : bool :=
  (if lo then isna_cell inc y else isna_cell inc x) && (if ro then isna_cell inc y else isna_cell inc x).

Lemma gmask_eq c x y : gmask c x y = gmask' (m_left_other c) (m_right_other c) (m_include_none c) x y.
Proof. reflexivity. Qed.

Lemma both_1d (lo ro inc : bool) (a b : list val) : length a = length b ->
  map2 andb (if lo then map (isna_cell inc) b else map (isna_cell inc) a)
            (if ro then map (isna_cell inc) b else map (isna_cell inc) a) = map2 (gmask' lo ro inc) a b.
Proof.
  intro H. destruct lo, ro; unfold gmask'.
  - rewrite map2_map_l, map2_map_r. apply (map2_same_r (fun x y => isna_cell inc x && isna_cell inc y)). exact H.
  - rewrite map2_map_l, map2_map_r. apply (map2_swap (fun y x => isna_cell inc y && isna_cell inc x)).
  - rewrite map2_map_l, map2_map_r. reflexivity.
  - rewrite map2_map_l, map2_map_r. apply (map2_same_l (fun x y => isna_cell inc x && isna_cell inc y)). exact H.
Qed.

Lemma both_2d (lo ro inc : bool) (A B : list (list val)) : length A = length B ->
  (forall n, length (nth n A []) = length (nth n B [])) ->
  map2 (map2 andb) (if lo then map (map (isna_cell inc)) B else map (map (isna_cell inc)) A)
                   (if ro then map (map (isna_cell inc)) B else map (map (isna_cell inc)) A)
  = map2 (map2 (gmask' lo ro inc)) A B.
Proof.
  revert B. induction A as [|a A IH]; intros [|b B] H Hn; cbn in *; try discriminate.
  - destruct lo, ro; reflexivity.
  - specialize (IH B (f_equal pred H) (fun n => Hn (S n))). pose proof (both_1d lo ro inc a b (Hn O)) as H1.
    destruct lo, ro; cbn in *; rewrite H1, IH; reflexivity.
Qed.

Lemma list_eqb_mask {A} (f g P : A -> A -> bool) a b :
  all_true (map2 P a b) = true -> (forall x y, P x y = true -> f x y = g x y) -> list_eqb f a b = list_eqb g a b.
Proof.
  intros H Hp. revert b H. induction a as [|x xs IH]; intros [|y ys] H; cbn in *; try reflexivity.
  apply andb_true_iff in H as [H1 H2]. rewrite (Hp x y H1), (IH ys H2). reflexivity.
Qed.

Lemma list_eqb2_mask {A} (f g P : A -> A -> bool) (a b : list (list A)) :
  forallb all_true (map2 (map2 P) a b) = true -> (forall x y, P x y = true -> f x y = g x y) ->
  list_eqb (list_eqb f) a b = list_eqb (list_eqb g) a b.
Proof.
  intros H Hp. revert b H. induction a as [|x xs IH]; intros [|y ys] H; cbn in *; try reflexivity.
  apply andb_true_iff in H as [H1 H2]. rewrite (list_eqb_mask f g P x y H1 Hp), (IH ys H2). reflexivity.
Qed.

Lemma mask_cell c sk x y :
  (sk = false \/ Bool.eqb (gmask c x y) (nanlike x && nanlike y) = true) ->
  py_eq x y || (sk && gmask c x y) = cell_eq sk x y.
Proof.
  unfold cell_eq. intros [->|H].
  - reflexivity.
  - apply Bool.eqb_prop in H. rewrite H. destruct sk, (nanlike x), (nanlike y); reflexivity.
Qed.

(* ------------------------------------------------------------------ one array (Index, Series) *)
Lemma M_array_equals_spec c sk da db a b :
  length a = length b ->
  mask_dom c sk [a] [b] = true ->
  col_inert (okind_of da, a) (okind_of db, b) = true ->
  M_array_equals c sk da db a b = list_eqb (cell_eq sk) a b.
Proof.
  intros Hlen Hm Hi. unfold M_array_equals.
  pose proof (col_inert_eq _ _ Hi) as He. unfold eqcol in He. cbn in He. rewrite He.
  rewrite (both_1d (m_left_other c) (m_right_other c) (m_include_none c) a b Hlen).
  unfold mask_dom in Hm. destruct sk; cbn in Hm.
  - rewrite map2_map2, all_true_map2 by exact Hlen.
    rewrite andb_true_r in Hm.
    apply (list_eqb_mask _ _ _ a b Hm). intros x y Hxy.
    rewrite <- (mask_cell c true x y (or_intror Hxy)). reflexivity.
  - rewrite all_true_map2 by exact Hlen. apply list_eqb_ext_in. intros x y _ _.
    unfold cell_eq. rewrite orb_false_r. reflexivity.
Qed.

Lemma S_index_equals_unfold o a b :
  S_index_equals o a b =
  (ei_oid a =? ei_oid b) ||
  (list_eqb (cell_eq (o_skipna o)) (ei_labels a) (ei_labels b) &&
   opt_req (o_name o) (py_eq (ei_name a) (ei_name b)) &&
   opt_req (o_dtype o) (dtype_eqb (ei_dtype a) (ei_dtype b)) &&
   opt_req (o_class o) (ei_cls a =? ei_cls b)).
Proof. reflexivity. Qed.

Theorem index_refines cs o a b :
  index_dom (c_index cs) o a b = true ->
  M_index_equals cs o a b = S_index_equals o a b.
Proof.
  intro Hd. unfold index_dom in Hd. apply andb_true_iff in Hd as [Hm Hi].
  rewrite S_index_equals_unfold. unfold M_index_equals, name_ne, opt_req.
  destruct (ei_oid a =? ei_oid b); [reflexivity|]. cbn [orb].
  destruct (Z.of_nat (length (ei_labels a)) =? Z.of_nat (length (ei_labels b))) eqn:El.
  - apply Z.eqb_eq in El. apply Nat2Z.inj in El.
    rewrite (M_array_equals_spec _ _ _ _ _ _ El Hm Hi).
    destruct (o_class o), (ei_cls a =? ei_cls b), (o_name o), (py_eq (ei_name a) (ei_name b)),
      (o_dtype o), (dtype_eqb (ei_dtype a) (ei_dtype b)); cbn; rewrite ?andb_true_r, ?andb_false_r; reflexivity.
  - assert (list_eqb (cell_eq (o_skipna o)) (ei_labels a) (ei_labels b) = false) as ->.
    { apply list_eqb_false_length. intro H. rewrite H, Z.eqb_refl in El. discriminate. }
    destruct (o_class o), (ei_cls a =? ei_cls b); reflexivity.
Qed.

Lemma index_refines_nested cs o a b :
  index_dom (c_index cs) o a b && implb (ei_oid a =? ei_oid b) (S_index_content o a b) = true ->
  M_index_equals cs o a b = S_index_content o a b.
Proof.
  intro H. apply andb_true_iff in H as [Hd Hi]. rewrite (index_refines cs o a b Hd). unfold S_index_equals.
  destruct (ei_oid a =? ei_oid b); cbn in *; [symmetry; exact Hi | reflexivity].
Qed.

Theorem series_refines cs o a b ia ib :
  es_index a = AFlat ia -> es_index b = AFlat ib ->
  series_dom cs o a b = true ->
  M_series_equals cs o a b = Ok (S_series_equals o a b).
Proof.
  intros Ha Hb Hd. unfold series_dom in Hd. rewrite Ha, Hb in Hd. cbn [axis_dom] in Hd.
  apply andb_true_iff in Hd as [Hd Hx]. apply andb_true_iff in Hd as [Hm Hi].
  unfold M_series_equals, S_series_equals, S_series_content, name_ne, opt_req.
  destruct (es_oid a =? es_oid b); [reflexivity|]. cbn [orb].
  rewrite Ha, Hb. cbn [M_axis_equals S_axis_content].
  rewrite (index_refines_nested cs o ia ib Hx).
  destruct (Z.of_nat (length (es_values a)) =? Z.of_nat (length (es_values b))) eqn:El.
  - apply Z.eqb_eq in El. apply Nat2Z.inj in El.
    rewrite (M_array_equals_spec _ _ _ _ _ _ El Hm Hi).
    destruct (o_class o), (es_cls a =? es_cls b), (o_name o), (py_eq (es_name a) (es_name b)),
      (o_dtype o), (dtype_eqb (es_dtype a) (es_dtype b)),
      (list_eqb (cell_eq (o_skipna o)) (es_values a) (es_values b)), (S_index_content o ia ib); reflexivity.
  - assert (list_eqb (cell_eq (o_skipna o)) (es_values a) (es_values b) = false) as ->.
    { apply list_eqb_false_length. intro H. rewrite H, Z.eqb_refl in El. discriminate. }
    destruct (o_class o), (es_cls a =? es_cls b); reflexivity.
Qed.
