(* C08 -- list-level facts about the update specifications (SF/UpdateSpec.v): positional walks split over
   concatenation, depend only on WHICH positions are addressed, and have the expected pointwise reading. *)
Require Import SF.Prelude SF.PySlice SF.Dtype SF.Blocks SF.UpdateSpec Proofs.SliceFacts.

Lemma memz_In i ps : memz i ps = true <-> In i ps.
Proof.
  unfold memz. rewrite existsb_exists. split.
  - intros (x & Hx & E). apply Z.eqb_eq in E. subst. assumption.
  - intros H. exists i. split; [assumption|apply Z.eqb_refl].
Qed.

Lemma memz_false i ps : memz i ps = false <-> ~ In i ps.
Proof.
  rewrite <- memz_In. destruct (memz i ps); split; intros H.
  - discriminate.
  - exfalso. apply H. reflexivity.
  - intros E. discriminate.
  - reflexivity.
Qed.

Lemma memz_ext i ps qs : (In i ps <-> In i qs) -> memz i ps = memz i qs.
Proof.
  intros H. destruct (memz i ps) eqn:E1, (memz i qs) eqn:E2; try reflexivity.
  - apply memz_In in E1. apply H in E1. apply memz_In in E1. congruence.
  - apply memz_In in E2. apply H in E2. apply memz_In in E2. congruence.
Qed.

Lemma memz_app i ps qs : memz i (ps ++ qs) = memz i ps || memz i qs.
Proof. unfold memz. apply existsb_app. Qed.

Lemma memz_shift i off ps : memz (off + i) ps = memz i (map (fun p => p - off) ps).
Proof.
  unfold memz. induction ps as [|p ps IH]; [reflexivity|]. cbn. rewrite IH. f_equal. lia.
Qed.

Section Lists.
Context {X : Type}.

Lemma upd_from_app (f : Z -> X -> list X) l1 : forall i l2,
  upd_from f i (l1 ++ l2) = upd_from f i l1 ++ upd_from f (i + Z.of_nat (length l1)) l2.
Proof.
  induction l1 as [|x l1 IH]; intros i l2; cbn [app upd_from length].
  - replace (i + Z.of_nat 0) with i by lia. reflexivity.
  - rewrite IH, <- app_assoc. replace (i + 1 + Z.of_nat (length l1)) with (i + Z.of_nat (S (length l1))) by lia.
    reflexivity.
Qed.

(* the walk looks at f only on the positions it visits *)
Lemma upd_from_ext (f g : Z -> X -> list X) l : forall i,
  (forall j x, i <= j < i + Z.of_nat (length l) -> f j x = g j x) ->
  upd_from f i l = upd_from g i l.
Proof.
  induction l as [|x l IH]; intros i H; cbn [upd_from]; [reflexivity|].
  rewrite H by (cbn [length]; lia). f_equal. apply IH. intros j y Hj. apply H. cbn [length]. lia.
Qed.

Lemma upd_from_shift (f : Z -> X -> list X) l : forall i off,
  upd_from f (off + i) l = upd_from (fun j => f (off + j)) i l.
Proof.
  induction l as [|x l IH]; intros i off; cbn [upd_from]; [reflexivity|].
  f_equal. rewrite <- IH. f_equal. lia.
Qed.

Lemma upd_from_keep l : forall i, upd_from (fun _ (x : X) => [x]) i l = l.
Proof. induction l as [|x l IH]; intros i; cbn; [reflexivity|]. now rewrite IH. Qed.

Lemma upd_from_none l : forall i, upd_from (fun _ (_ : X) => []) i l = [].
Proof. induction l as [|x l IH]; intros i; cbn; [reflexivity|]. apply IH. Qed.

Lemma upd_from_map (g : Z -> X -> X) l : forall i,
  upd_from (fun j x => [g j x]) i l = map (fun p => g (fst p) (snd p)) (combine (map (fun k => i + Z.of_nat k) (seq 0 (length l))) l).
Proof.
  induction l as [|x l IH]; intros i; cbn [upd_from length seq map combine]; [reflexivity|].
  cbn [app fst snd]. f_equal; [f_equal; lia|].
  rewrite IH. f_equal. f_equal. rewrite <- seq_shift, map_map. apply map_ext. intros k. lia.
Qed.

Lemma upd_from_single_length (g : Z -> X -> X) l i : length (upd_from (fun j x => [g j x]) i l) = length l.
Proof. revert i. induction l as [|x l IH]; intros i; cbn; [reflexivity|]. now rewrite IH. Qed.

(* ---- the specification depends only on the SET of addressed positions ---- *)
Lemma S_drop_at_ext (l : list X) ps qs : (forall i, In i ps <-> In i qs) -> S_drop_at l ps = S_drop_at l qs.
Proof.
  intros H. unfold S_drop_at. apply upd_from_ext. intros j x _. now rewrite (memz_ext j ps qs (H j)).
Qed.

Lemma S_drop_at_nil (l : list X) : S_drop_at l [] = l.
Proof. unfold S_drop_at. cbn. apply upd_from_keep. Qed.

Lemma S_set_at_ext (g : Z -> X -> X) (l : list X) ps qs :
  (forall i, In i ps <-> In i qs) -> S_set_at g l ps = S_set_at g l qs.
Proof.
  intros H. unfold S_set_at. apply upd_from_ext. intros j x _. now rewrite (memz_ext j ps qs (H j)).
Qed.

(* ---- pointwise reading of S_set_at: same length, addressed positions hold g, the others are untouched ---- *)
Lemma S_set_at_length g (l : list X) ps : length (S_set_at g l ps) = length l.
Proof. unfold S_set_at. apply upd_from_single_length. Qed.

Lemma upd_from_single_nth (h : Z -> X -> X) l : forall i k,
  nth_error (upd_from (fun j x => [h j x]) i l) k =
  match nth_error l k with Some x => Some (h (i + Z.of_nat k) x) | None => None end.
Proof.
  induction l as [|x l IH]; intros i k; cbn [upd_from].
  - destruct k; reflexivity.
  - destruct k as [|k]; cbn [app nth_error].
    + f_equal. f_equal. lia.
    + rewrite IH. destruct (nth_error l k); [|reflexivity]. f_equal. f_equal. lia.
Qed.

Theorem S_set_at_nth g (l : list X) ps (k : nat) :
  nth_error (S_set_at g l ps) k =
  match nth_error l k with
  | Some x => Some (if memz (Z.of_nat k) ps then g (Z.of_nat k) x else x)
  | None => None
  end.
Proof. unfold S_set_at. rewrite upd_from_single_nth. reflexivity. Qed.

(* ---- pointwise reading of S_drop_at: the survivor at position k moves left by the number of addressed
   positions before it; nothing else happens ---- *)
Fixpoint count_in (ps : list Z) (i : Z) (k : nat) : nat :=
  match k with
  | O => O
  | S k' => ((if memz i ps then 1 else 0) + count_in ps (i + 1) k')%nat
  end.

Lemma count_in_le ps k : forall i, (count_in ps i k <= k)%nat.
Proof. induction k as [|k IH]; intros i; cbn; [lia|]. specialize (IH (i + 1)). destruct (memz i ps); lia. Qed.

Lemma upd_drop_nth (l : list X) ps : forall i k x,
  nth_error l k = Some x -> memz (i + Z.of_nat k) ps = false ->
  nth_error (upd_from (fun j y => if memz j ps then [] else [y]) i l) (k - count_in ps i k) = Some x.
Proof.
  induction l as [|x0 l IH]; intros i k x Hk Hm; [destruct k; discriminate|].
  destruct k as [|k]; cbn [upd_from count_in].
  - cbn in Hk. injection Hk as ->. replace (i + Z.of_nat 0) with i in Hm by lia. rewrite Hm. reflexivity.
  - cbn [nth_error] in Hk. pose proof (count_in_le ps k (i + 1)) as Hle.
    specialize (IH (i + 1) k x Hk). replace (i + 1 + Z.of_nat k) with (i + Z.of_nat (S k)) in IH by lia.
    specialize (IH Hm). destruct (memz i ps).
    + cbn [app]. replace (S k - (1 + count_in ps (i + 1) k))%nat with (k - count_in ps (i + 1) k)%nat by lia. exact IH.
    + cbn [app]. replace (S k - (0 + count_in ps (i + 1) k))%nat with (S (k - count_in ps (i + 1) k)) by lia. exact IH.
Qed.

Lemma upd_drop_length (l : list X) ps : forall i,
  length (upd_from (fun j y => if memz j ps then [] else [y]) i l) = (length l - count_in ps i (length l))%nat.
Proof.
  induction l as [|x0 l IH]; intros i; cbn [upd_from length count_in]; [reflexivity|].
  rewrite app_length, IH. pose proof (count_in_le ps (length l) (i + 1)). destruct (memz i ps); cbn [length]; lia.
Qed.

Definition dropped_before (ps : list Z) (k : nat) : nat := count_in ps 0 k.

Theorem S_drop_at_nth (l : list X) ps k x :
  nth_error l k = Some x -> memz (Z.of_nat k) ps = false ->
  nth_error (S_drop_at l ps) (k - dropped_before ps k) = Some x.
Proof. intros H1 H2. unfold S_drop_at, dropped_before. apply upd_drop_nth; assumption. Qed.

Theorem S_drop_at_length (l : list X) ps :
  length (S_drop_at l ps) = (length l - dropped_before ps (length l))%nat.
Proof. unfold S_drop_at, dropped_before. apply upd_drop_length. Qed.

(* insertion *)
Theorem S_insert_at_length (l : list X) k ins : 0 <= k <= Z.of_nat (length l) ->
  length (S_insert_at l k ins) = (length l + length ins)%nat.
Proof.
  intros H. unfold S_insert_at. rewrite !app_length, firstn_length, skipn_length. lia.
Qed.

End Lists.

Theorem S_drop_at_exact {X} (l : list X) (ps : list Z) (k : nat) (x : X) :
  (nth_error l k = Some x -> memz (Z.of_nat k) ps = false ->
   nth_error (S_drop_at l ps) (k - dropped_before ps k) = Some x) /\
  length (S_drop_at l ps) = (length l - dropped_before ps (length l))%nat.
Proof. split; [apply S_drop_at_nth|apply S_drop_at_length]. Qed.

Lemma upd_from_ext_in {X} (f g : Z -> X -> list X) l : forall i,
  (forall j x, In x l -> i <= j < i + Z.of_nat (length l) -> f j x = g j x) ->
  upd_from f i l = upd_from g i l.
Proof.
  induction l as [|x l IH]; intros i H; cbn [upd_from]; [reflexivity|].
  rewrite H; [|left; reflexivity|cbn [length]; lia]. f_equal. apply IH.
  intros j y Hy Hj. apply H; [right; assumption|cbn [length]; lia].
Qed.

Lemma upd_from_map_const {X} (g : X -> X) l : forall i, upd_from (fun _ x => [g x]) i l = map g l.
Proof. induction l as [|x l IH]; intros i; cbn; [reflexivity|]. now rewrite IH. Qed.
