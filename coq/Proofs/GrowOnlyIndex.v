(* C09 -- IndexGO: laws of the specification and refinement of the implementation model. *)
Require Import SF.Prelude SF.Dtype SF.GrowOnly.

Section IndexProofs.
Variable L : Type.
Variable leq : L -> L -> bool.
Variable as_pos : L -> option Z.
Hypothesis leq_refl : forall a, leq a a = true.
Hypothesis leq_sym : forall a b, leq a b = leq b a.
(* two int-like labels are equal exactly when they denote the same integer *)
Hypothesis pos_eq : forall a b x y, as_pos a = Some x -> as_pos b = Some y -> leq a b = (x =? y).

Notation mem := (mem L leq).
Notation nodupb := (nodupb L leq).
Notation fresh_all := (fresh_all L leq).
Notation index_of := (index_of L leq).
Notation S_append := (S_append L leq).
Notation S_extend := (S_extend L leq).
Notation S_istep := (S_istep L leq).
Notation S_irun := (S_irun L leq).
Notation S_igiven := (S_igiven L leq).
Notation M_contains := (M_contains L leq as_pos).
Notation M_contains_state := (M_contains_state L as_pos).
Notation M_append := (M_append L leq as_pos).
Notation M_extend := (M_extend L leq as_pos).
Notation M_istep := (M_istep L leq as_pos).
Notation M_irun := (M_irun L leq as_pos).
Notation M_lookup := (M_lookup L leq as_pos).
Notation M_iobserve := (M_iobserve L leq as_pos).
Notation S_iobserve := (S_iobserve L).
Notation ext_safe := (ext_safe L leq as_pos).
Notation M_extend_check := (M_extend_check L leq as_pos).
Notation M_extend_loop := (M_extend_loop L leq as_pos).
Notation dom_iop := (dom_iop L leq as_pos).
Notation dom_irun := (dom_irun L leq as_pos).
Notation M_len := (M_len L).

(* ------------------------------------------------------------------ list facts *)
Local Arguments GrowOnly.mem : simpl never.
Lemma mem_nil : forall v, mem v [] = false.
Proof. reflexivity. Qed.
Lemma mem_cons : forall v x xs, mem v (x :: xs) = leq v x || mem v xs.
Proof. reflexivity. Qed.
Lemma mem_app : forall v a b, mem v (a ++ b) = mem v a || mem v b.
Proof. intros. unfold GrowOnly.mem. apply existsb_app. Qed.

Lemma mem_snoc : forall v l w, mem v (l ++ [w]) = mem v l || leq v w.
Proof. intros. rewrite mem_app, mem_cons, mem_nil. now rewrite orb_false_r. Qed.

Lemma nodupb_app : forall a b,
  nodupb (a ++ b) = nodupb a && nodupb b && forallb (fun x => negb (mem x b)) a.
Proof.
  induction a as [|x xs IH]; intros b; cbn.
  - now rewrite andb_true_r.
  - rewrite IH, mem_app, negb_orb.
    destruct (mem x xs), (mem x b), (GrowOnly.nodupb L leq xs), (GrowOnly.nodupb L leq b); cbn; try reflexivity.
Qed.

Lemma forallb_notmem_single : forall l v,
  forallb (fun x => negb (mem x [v])) l = negb (mem v l).
Proof.
  induction l as [|x xs IH]; intros v; cbn; [reflexivity|].
  rewrite IH, !mem_cons, !mem_nil, orb_false_r, (leq_sym v x). now rewrite negb_orb.
Qed.

Lemma nodupb_snoc : forall l v, nodupb (l ++ [v]) = nodupb l && negb (mem v l).
Proof.
  intros. rewrite nodupb_app, forallb_notmem_single. cbn. now rewrite andb_true_r.
Qed.

Lemma forallb_notmem_cons_mem : forall l v r,
  mem v l = true -> forallb (fun x => negb (mem x (v :: r))) l = false.
Proof.
  induction l as [|x xs IH]; intros v r H; [discriminate|].
  rewrite mem_cons in H. cbn [forallb]. rewrite mem_cons.
  apply orb_true_iff in H as [H|H].
  - rewrite (leq_sym x v), H. reflexivity.
  - rewrite (IH _ r H). apply andb_false_r.
Qed.

(* the "every label new" test of the specification is exactly: the result has no duplicates *)
Lemma fresh_all_nodup : forall vs l, nodupb l = true -> fresh_all l vs = nodupb (l ++ vs).
Proof.
  induction vs as [|v r IH]; intros l Hl; cbn.
  - now rewrite app_nil_r, Hl.
  - destruct (mem v l) eqn:Hm; cbn.
    + rewrite nodupb_app, (forallb_notmem_cons_mem _ _ r Hm). now rewrite andb_false_r.
    + rewrite IH.
      * now rewrite <- app_assoc.
      * now rewrite nodupb_snoc, Hl, Hm.
Qed.

(* ------------------------------------------------------------------ laws of the specification *)
Lemma S_istep_given : forall l op l1 o,
  S_istep l op = (l1, o) ->
  l1 = l ++ match op, o with IAppend v, Ok _ => [v] | IExtend vs, Ok _ => vs | _, _ => [] end.
Proof.
  intros l [v|vs|] l1 o; cbn; unfold GrowOnly.S_append, GrowOnly.S_extend.
  - destruct (mem v l); intros E; inversion E; subst; now rewrite ?app_nil_r.
  - destruct (fresh_all l vs); intros E; inversion E; subst; now rewrite ?app_nil_r.
  - intros E; inversion E; subst; now rewrite app_nil_r.
Qed.

(* append-only + order given: after ANY history the labels are the old labels followed by exactly the
   labels of the accepted calls, in the order given *)
Theorem S_irun_append_only : forall ops l,
  fst (S_irun l ops) = l ++ S_igiven l ops.
Proof.
  induction ops as [|op r IH]; intros l; cbn.
  - now rewrite app_nil_r.
  - destruct (GrowOnly.S_istep L leq l op) as [l1 o] eqn:E.
    specialize (IH l1). destruct (GrowOnly.S_irun L leq l1 r) as [l2 os] eqn:E2. cbn in *.
    rewrite IH. apply S_istep_given in E. rewrite E at 1. rewrite <- app_assoc. reflexivity.
Qed.

(* all or nothing, and rejection of duplicates, for every single call *)
Lemma S_istep_all_or_nothing : forall l op l1 e, S_istep l op = (l1, Err e) -> l1 = l.
Proof.
  intros l [v|vs|] l1 e; cbn; unfold GrowOnly.S_append, GrowOnly.S_extend.
  - destruct (mem v l); intros E; inversion E; reflexivity.
  - destruct (fresh_all l vs); intros E; inversion E; reflexivity.
  - intros E; inversion E.
Qed.

Lemma S_istep_nodup : forall l op, nodupb l = true -> nodupb (fst (S_istep l op)) = true.
Proof.
  intros l [v|vs|] Hl; cbn; unfold GrowOnly.S_append, GrowOnly.S_extend; auto.
  - destruct (mem v l) eqn:Hm; cbn; auto. now rewrite nodupb_snoc, Hl, Hm.
  - destruct (fresh_all l vs) eqn:Hf; cbn; auto. now rewrite <- fresh_all_nodup.
Qed.

Theorem S_irun_nodup : forall ops l, nodupb l = true -> nodupb (fst (S_irun l ops)) = true.
Proof.
  induction ops as [|op r IH]; intros l Hl; cbn; auto.
  pose proof (S_istep_nodup l op Hl) as H1.
  destruct (GrowOnly.S_istep L leq l op) as [l1 o]. cbn in H1.
  specialize (IH l1 H1). destruct (GrowOnly.S_irun L leq l1 r). exact IH.
Qed.

Lemma S_append_rejects : forall l v, mem v l = true -> S_append l v = (l, Err "KeyError"%string).
Proof. intros l v H. unfold GrowOnly.S_append. now rewrite H. Qed.

Lemma S_extend_rejects : forall l vs, nodupb l = true -> nodupb (l ++ vs) = false ->
  S_extend l vs = (l, Err "KeyError"%string).
Proof. intros l vs Hl H. unfold GrowOnly.S_extend. now rewrite fresh_all_nodup, H. Qed.

(* ------------------------------------------------------------------ the implementation model *)
(* well-formed IndexGO state: count, uniqueness, map or auto positions, cache *)
Definition igo_wf (s : igo L) : Prop :=
  g_cnt s = Z.of_nat (length (g_lm s)) /\
  nodupb (g_lm s) = true /\
  match g_map s with
  | Some keys => keys = g_lm s
  | None => map as_pos (g_lm s) = map Some (zrange (g_cnt s))
  end /\
  (g_recache s = false -> g_arr s = g_lm s /\ g_npos s = g_cnt s).

Lemma zrange_from_snoc : forall n k, zrange_from k (S n) = zrange_from k n ++ [k + Z.of_nat n].
Proof.
  induction n as [|n IH]; intros k.
  - cbn. now rewrite Z.add_0_r.
  - change (zrange_from k (S (S n))) with (k :: zrange_from (k + 1) (S n)).
    rewrite IH. cbn [zrange_from app]. f_equal. f_equal. f_equal. lia.
Qed.

Lemma zrange_snoc : forall n, 0 <= n -> zrange (n + 1) = zrange n ++ [n].
Proof.
  intros n Hn. unfold zrange. replace (Z.to_nat (n + 1)) with (S (Z.to_nat n)) by lia.
  rewrite zrange_from_snoc. f_equal. f_equal. lia.
Qed.

Lemma zrange_from_length : forall n k, length (zrange_from k n) = n.
Proof. induction n; intros; cbn; auto. Qed.

Lemma zrange_from_In : forall n k z, In z (zrange_from k n) <-> k <= z < k + Z.of_nat n.
Proof.
  induction n as [|n IH]; intros k z; cbn [zrange_from In].
  - lia.
  - rewrite IH. lia.
Qed.

(* on an auto index an int-like label is a member exactly when it is a position *)
Lemma mem_auto : forall (lm : list L) k n v z,
  map as_pos lm = map Some (zrange_from k n) -> as_pos v = Some z ->
  mem v lm = (k <=? z) && (z <? k + Z.of_nat n).
Proof.
  induction lm as [|x xs IH]; intros k n v z Hm Hv; destruct n as [|n]; cbn in Hm; try discriminate.
  - rewrite mem_nil. lia.
  - injection Hm as Hx Hxs. rewrite mem_cons.
    rewrite (IH _ _ _ _ Hxs Hv), (pos_eq _ _ _ _ Hv Hx). lia.
Qed.

Lemma wf_len_refresh : forall s, igo_wf s -> M_len s = g_cnt s.
Proof.
  intros s (Hc & _ & _ & Hr). unfold GrowOnly.M_len, M_refresh.
  destruct (g_recache s) eqn:E; cbn.
  - now rewrite Hc.
  - destruct (Hr eq_refl) as [Ha _]. now rewrite Ha, Hc.
Qed.

Lemma wf_refresh : forall s, igo_wf s -> igo_wf (M_refresh s).
Proof.
  intros s (Hc & Hn & Hm & Hr). unfold M_refresh. destruct (g_recache s) eqn:E.
  - unfold igo_wf; cbn. intuition auto.
  - unfold igo_wf. intuition auto.
Qed.

Lemma refresh_lm : forall s : igo L, g_lm (M_refresh s) = g_lm s.
Proof. intros s. unfold M_refresh. now destruct (g_recache s). Qed.
Lemma refresh_map : forall s : igo L, g_map (M_refresh s) = g_map s.
Proof. intros s. unfold M_refresh. now destruct (g_recache s). Qed.
Lemma refresh_cnt : forall s : igo L, g_cnt (M_refresh s) = g_cnt s.
Proof. intros s. unfold M_refresh. now destruct (g_recache s). Qed.

Lemma contains_state_wf : forall s v, igo_wf s -> igo_wf (M_contains_state s v).
Proof.
  intros s v H. unfold GrowOnly.M_contains_state.
  destruct (g_map s); auto. destruct (as_pos v); auto. destruct (0 <=? z); auto using wf_refresh.
Qed.
Lemma contains_state_lm : forall s v, g_lm (M_contains_state s v) = g_lm s.
Proof.
  intros. unfold GrowOnly.M_contains_state.
  destruct (g_map s); auto. destruct (as_pos v); auto. destruct (0 <=? z); auto using refresh_lm.
Qed.
Lemma contains_state_map : forall s v, g_map (M_contains_state s v) = g_map s.
Proof.
  intros. unfold GrowOnly.M_contains_state.
  destruct (g_map s) eqn:E; auto. destruct (as_pos v); auto. destruct (0 <=? z); auto.
  now rewrite refresh_map.
Qed.
Lemma contains_state_cnt : forall s v, g_cnt (M_contains_state s v) = g_cnt s.
Proof.
  intros. unfold GrowOnly.M_contains_state.
  destruct (g_map s); auto. destruct (as_pos v); auto. destruct (0 <=? z); auto using refresh_cnt.
Qed.

(* membership as the implementation computes it: exact with a map and for int-like labels on a
   loc_is_iloc index; for other labels on a loc_is_iloc index it answers False (the fast path) *)
Lemma contains_correct : forall s v, igo_wf s ->
  (g_map s <> None \/ as_pos v <> None) -> M_contains s v = mem v (g_lm s).
Proof.
  intros s v Hwf Hd. pose proof (wf_len_refresh s Hwf) as Hlen.
  destruct Hwf as (Hc & Hn & Hm & Hr).
  unfold GrowOnly.M_contains in *. destruct (g_map s) as [keys|].
  - now subst keys.
  - destruct (as_pos v) as [z|] eqn:Hv.
    + rewrite Hlen. unfold zrange in Hm. rewrite (mem_auto _ _ _ _ _ Hm Hv). lia.
    + destruct Hd as [Hd|Hd]; congruence.
Qed.

Lemma contains_auto_nonint : forall s v, g_map s = None -> as_pos v = None -> M_contains s v = false.
Proof. intros s v Hm Hv. unfold GrowOnly.M_contains. now rewrite Hm, Hv. Qed.

(* one append: same outcome and same labels as the specification, and still well formed -- for EVERY label *)
Definition step_refines (r : igo L * outcome) (r' : list L * outcome) : Prop :=
  igo_wf (fst r) /\ g_lm (fst r) = fst r' /\ is_ok (snd r) = is_ok (snd r').

Lemma wf_cnt_nonneg : forall s, igo_wf s -> 0 <= g_cnt s.
Proof. intros s (Hc & _). lia. Qed.

Lemma M_append_refines : forall s v, igo_wf s ->
  step_refines (M_append s v) (S_append (g_lm s) v).
Proof.
  intros s v Hwf. unfold GrowOnly.M_append, GrowOnly.S_append.
  pose proof (contains_state_wf s v Hwf) as Hwf1.
  pose proof (contains_state_lm s v) as Hlm1.
  pose proof (contains_state_cnt s v) as Hcnt1.
  pose proof (contains_state_map s v) as Hmap1.
  assert (Hkey : M_contains s v = mem v (g_lm s) \/
                 (M_contains s v = false /\ g_map s = None /\ as_pos v = None)).
  { destruct (g_map s) as [keys|] eqn:Em.
    - left. apply contains_correct; auto. left. congruence.
    - destruct (as_pos v) as [z|] eqn:Ev.
      + left. apply contains_correct; auto. right. congruence.
      + right. split; [now apply contains_auto_nonint|]. auto. }
  set (s1 := GrowOnly.M_contains_state L as_pos s v) in *.
  pose proof (wf_cnt_nonneg _ Hwf1) as Hnn. assert (Hwf1' := Hwf1).
  destruct Hwf1 as (Hc & Hn & Hmap & Hr).
  assert (Hlen : g_cnt s1 + 1 = Z.of_nat (length (g_lm s1 ++ [v]))) by (rewrite app_length; cbn; lia).
  destruct Hkey as [Hkey|(Hkey & Em & Ev)].
  - rewrite Hkey. destruct (mem v (g_lm s)) eqn:Hm.
    + split; [exact Hwf1' | split; [exact Hlm1 | reflexivity]].
    + assert (Hnd : nodupb (g_lm s1 ++ [v]) = true) by (rewrite nodupb_snoc, Hn, Hlm1, Hm; reflexivity).
      destruct (g_map s1) as [keys|] eqn:Emap.
      * subst keys. unfold step_refines, igo_wf; cbn. rewrite Hlm1 in *. intuition (auto; discriminate).
      * destruct (as_pos v) as [z|] eqn:Hv.
        -- destruct (z =? g_cnt s1) eqn:Hz.
           ++ unfold step_refines, igo_wf; cbn. rewrite <- Hlm1. repeat split; auto; try discriminate.
              rewrite map_app, Hmap, (zrange_snoc _ Hnn), map_app. cbn. rewrite Hv. repeat f_equal. lia.
           ++ rewrite Hnd. unfold step_refines, igo_wf; cbn. rewrite <- Hlm1. repeat split; auto; discriminate.
        -- rewrite Hnd. unfold step_refines, igo_wf; cbn. rewrite <- Hlm1. repeat split; auto; discriminate.
  - (* loc_is_iloc index, label that is not an int: __contains__ says False, the AutoMap decides *)
    rewrite Hkey. rewrite Hmap1, Em in *. rewrite Ev.
    rewrite nodupb_snoc, Hn, Hlm1. cbn [andb].
    destruct (mem v (g_lm s)) eqn:Hm; cbn [negb].
    + split; [exact Hwf1' | split; [exact Hlm1 | reflexivity]].
    + unfold step_refines, igo_wf; cbn. rewrite <- Hlm1.
      assert (Hnd : nodupb (g_lm s1 ++ [v]) = true) by (rewrite nodupb_snoc, Hn, Hlm1, Hm; reflexivity).
      repeat split; auto; discriminate.
Qed.

Lemma M_append_ok_iff : forall s v, igo_wf s ->
  is_ok (snd (M_append s v)) = negb (mem v (g_lm s)).
Proof.
  intros s v Hwf. destruct (M_append_refines s v Hwf) as (_ & _ & H). rewrite H.
  unfold GrowOnly.S_append. now destruct (mem v (g_lm s)).
Qed.

(* the append loop of extend on labels that are all new: all are appended *)
Lemma M_extend_loop_all : forall vs s, igo_wf s -> fresh_all (g_lm s) vs = true ->
  igo_wf (fst (M_extend_loop s vs)) /\ g_lm (fst (M_extend_loop s vs)) = g_lm s ++ vs /\
  is_ok (snd (M_extend_loop s vs)) = true.
Proof.
  induction vs as [|v r IH]; intros s Hwf Hf; cbn in *.
  - rewrite app_nil_r. auto.
  - apply andb_true_iff in Hf as [Hv Hf]. apply negb_true_iff in Hv.
    pose proof (M_append_refines s v Hwf) as (Hw1 & Hl1 & Ho1).
    pose proof (M_append_ok_iff s v Hwf) as Hok. rewrite Hv in Hok. cbn in Hok.
    unfold GrowOnly.S_append in Hl1. rewrite Hv in Hl1. cbn in Hl1.
    destruct (GrowOnly.M_append L leq as_pos s v) as [s1 o] eqn:E. cbn in *.
    destruct o as [u|e]; [|discriminate].
    rewrite <- Hl1 in Hf. destruct (IH s1 Hw1 Hf) as (Hw2 & Hl2 & Ho2).
    refine (conj Hw2 (conj _ Ho2)). rewrite Hl2, Hl1, <- app_assoc. reflexivity.
Qed.

(* the validation pass of extend: inside the guard it decides exactly "every label is new", and it
   changes nothing but the array cache *)
Lemma ext_safe_contains : forall s v, igo_wf s ->
  (match g_map s with Some _ => true | None => is_some (as_pos v) || negb (mem v (g_lm s)) end) = true ->
  M_contains s v = mem v (g_lm s).
Proof.
  intros s v Hwf H. destruct (g_map s) as [keys|] eqn:Em.
  - apply contains_correct; auto. left. congruence.
  - destruct (as_pos v) as [z|] eqn:Ev.
    + apply contains_correct; auto. right. congruence.
    + cbn in H. apply negb_true_iff in H. rewrite H. now apply contains_auto_nonint.
Qed.

Lemma M_extend_check_spec : forall vs s obs, igo_wf s -> ext_safe s vs = true ->
  let r := M_extend_check s vs obs in
  igo_wf (fst r) /\ g_lm (fst r) = g_lm s /\ g_map (fst r) = g_map s /\
  snd r = fresh_all (g_lm s ++ obs) vs.
Proof.
  induction vs as [|v r IH]; intros s obs Hwf Hs; cbn.
  - auto.
  - pose proof (contains_state_wf s v Hwf) as Hw1.
    pose proof (contains_state_lm s v) as Hl1. pose proof (contains_state_map s v) as Hm1.
    assert (Hc : M_contains s v = mem v (g_lm s)).
    { apply ext_safe_contains; auto. unfold GrowOnly.ext_safe in Hs. destruct (g_map s); auto.
      cbn in Hs. now apply andb_true_iff in Hs as [Hs _]. }
    assert (Hs1 : ext_safe (M_contains_state s v) r = true).
    { unfold GrowOnly.ext_safe in *. rewrite Hm1, Hl1. destruct (g_map s); auto.
      cbn in Hs. now apply andb_true_iff in Hs as [_ Hs]. }
    rewrite Hc, mem_app.
    destruct (mem v (g_lm s) || mem v obs) eqn:E; cbn.
    + auto.
    + destruct (IH (M_contains_state s v) (obs ++ [v]) Hw1 Hs1) as (Hw & Hl & Hm & Hb).
      rewrite Hl1 in *. rewrite app_assoc in Hb. refine (conj Hw (conj Hl (conj _ Hb))). congruence.
Qed.

Lemma M_extend_refines : forall vs s, igo_wf s -> ext_safe s vs = true ->
  step_refines (M_extend s vs) (S_extend (g_lm s) vs).
Proof.
  intros vs s Hwf Hs. unfold GrowOnly.M_extend, GrowOnly.S_extend.
  pose proof (M_extend_check_spec vs s [] Hwf Hs) as (Hw & Hl & Hm & Hb). cbn zeta in *.
  rewrite app_nil_r in Hb.
  destruct (GrowOnly.M_extend_check L leq as_pos s vs []) as [s1 ok]. cbn in *. subst ok.
  destruct (fresh_all (g_lm s) vs) eqn:Hf.
  - rewrite <- Hl in Hf. destruct (M_extend_loop_all vs s1 Hw Hf) as (Hw2 & Hl2 & Ho2).
    unfold step_refines; cbn. rewrite Hl in Hl2. auto.
  - unfold step_refines; cbn. auto.
Qed.

Lemma M_istep_refines : forall s op, igo_wf s -> dom_iop s op = true ->
  step_refines (M_istep s op) (S_istep (g_lm s) op).
Proof.
  intros s [v|vs|] Hwf Hd; cbn in *.
  - now apply M_append_refines.
  - now apply M_extend_refines.
  - unfold step_refines; cbn. split; [now apply wf_refresh|]. split; auto using refresh_lm.
Qed.

(* REFINEMENT over every history inside the guard: the labels held by the implementation model are
   the labels of the specification, call by call the same calls are accepted, and the state stays
   well formed (count, uniqueness, map / auto positions, cache) *)
Theorem igo_refines : forall ops s, igo_wf s -> dom_irun s ops = true ->
  igo_wf (fst (M_irun s ops)) /\
  g_lm (fst (M_irun s ops)) = fst (S_irun (g_lm s) ops) /\
  map is_ok (snd (M_irun s ops)) = map is_ok (snd (S_irun (g_lm s) ops)).
Proof.
  induction ops as [|op r IH]; intros s Hwf Hd; cbn in *; auto.
  apply andb_true_iff in Hd as [Hd1 Hd2].
  pose proof (M_istep_refines s op Hwf Hd1) as (Hw1 & Hl1 & Ho1).
  destruct (GrowOnly.M_istep L leq as_pos s op) as [s1 o] eqn:E1.
  destruct (GrowOnly.S_istep L leq (g_lm s) op) as [l1 o'] eqn:E2. cbn in *.
  destruct (IH s1 Hw1 Hd2) as (Hw2 & Hl2 & Ho2). subst l1.
  destruct (GrowOnly.M_irun L leq as_pos s1 r) as [s2 os].
  destruct (GrowOnly.S_irun L leq (g_lm s1) r) as [l2 os']. cbn in *.
  refine (conj Hw2 (conj Hl2 _)). now rewrite Ho1, Ho2.
Qed.

(* what a reader sees of a well-formed index is what the specification says: the labels, as many
   positions as labels, and every label found at its own position *)
Lemma index_of_skip : forall pre v rest k, mem v pre = false ->
  index_of v (pre ++ rest) k = index_of v rest (k + Z.of_nat (length pre)).
Proof.
  induction pre as [|x xs IH]; intros v rest k H.
  - cbn. now rewrite Z.add_0_r.
  - rewrite mem_cons in H. apply orb_false_iff in H as [H1 H2].
    cbn [app GrowOnly.index_of]. rewrite H1, (IH _ _ _ H2). f_equal. cbn [length]. lia.
Qed.

Lemma nodup_app_notmem : forall pre x r, nodupb (pre ++ x :: r) = true -> mem x pre = false.
Proof.
  intros pre x r H. rewrite nodupb_app in H. apply andb_true_iff in H as [_ H].
  destruct (mem x pre) eqn:E; auto. now rewrite (forallb_notmem_cons_mem _ _ r E) in H.
Qed.

Lemma index_of_nodup : forall (l pre : list L), nodupb (pre ++ l) = true ->
  map (fun v => index_of v (pre ++ l) 0) l = map Some (zrange_from (Z.of_nat (length pre)) (length l)).
Proof.
  induction l as [|x r IH]; intros pre H; [reflexivity|].
  cbn [map length zrange_from]. f_equal.
  - rewrite (index_of_skip _ _ _ _ (nodup_app_notmem _ _ _ H)). cbn. now rewrite leq_refl.
  - replace (pre ++ x :: r) with ((pre ++ [x]) ++ r) in * by (now rewrite <- app_assoc).
    rewrite (IH _ H). rewrite app_length. cbn. do 2 f_equal. lia.
Qed.

Lemma lookup_auto : forall (lm : list L) k n N,
  map as_pos lm = map Some (zrange_from k n) -> 0 <= k -> k + Z.of_nat n <= N ->
  map (fun v => match as_pos v with
                | Some z => if (0 <=? z) && (z <? N) then Some z else None
                | None => None
                end) lm = map Some (zrange_from k n).
Proof.
  induction lm as [|x xs IH]; intros k n N Hm Hk HN; destruct n as [|n]; cbn in Hm; try discriminate; [reflexivity|].
  injection Hm as Hx Hxs. cbn [map zrange_from]. rewrite Hx. f_equal.
  - replace ((0 <=? k) && (k <? N)) with true by lia. reflexivity.
  - apply IH; auto; lia.
Qed.

Theorem igo_observe : forall s, igo_wf s -> M_iobserve s = S_iobserve (g_lm s).
Proof.
  intros s Hwf. pose proof (wf_refresh s Hwf) as Hwf'.
  unfold GrowOnly.M_iobserve, GrowOnly.S_iobserve.
  set (s' := M_refresh s) in *.
  assert (Hre : g_recache s' = false) by (unfold s', M_refresh; destruct (g_recache s) eqn:E; auto).
  assert (Hlm : g_lm s' = g_lm s) by apply refresh_lm.
  destruct Hwf' as (Hc & Hn & Hm & Hr). destruct (Hr Hre) as [Ha Hp].
  rewrite Ha, Hp, Hc, Hlm. f_equal.
  destruct (g_map s') as [keys|] eqn:E.
  - subst keys. rewrite (map_ext (M_lookup s') (fun v => index_of v (g_lm s') 0)).
    + rewrite <- Hlm. pose proof (index_of_nodup (g_lm s') [] Hn) as H. cbn in H. rewrite H.
      unfold zrange. now rewrite Nat2Z.id.
    + intros v. unfold GrowOnly.M_lookup. now rewrite E.
  - rewrite (map_ext (M_lookup s') (fun v => match as_pos v with
                | Some z => if (0 <=? z) && (z <? Z.of_nat (length (g_lm s'))) then Some z else None
                | None => None end)).
    + rewrite Hc in Hm. unfold zrange in *. rewrite Nat2Z.id in *. rewrite <- Hlm.
      apply lookup_auto; auto; lia.
    + intros v. unfold GrowOnly.M_lookup. now rewrite E, Ha.
Qed.

(* consequences for the implementation model, for every history inside the guard *)
Corollary igo_M_append_only : forall ops s, igo_wf s -> dom_irun s ops = true ->
  g_lm (fst (M_irun s ops)) = g_lm s ++ S_igiven (g_lm s) ops /\
  nodupb (g_lm (fst (M_irun s ops))) = true /\
  M_iobserve (fst (M_irun s ops)) = S_iobserve (g_lm s ++ S_igiven (g_lm s) ops).
Proof.
  intros ops s Hwf Hd. destruct (igo_refines ops s Hwf Hd) as (Hw & Hl & _).
  rewrite S_irun_append_only in Hl. split; [exact Hl|]. split.
  - destruct Hw as (_ & Hn & _). exact Hn.
  - rewrite (igo_observe _ Hw), Hl. reflexivity.
Qed.

(* OUTSIDE any guard: the list of labels of the implementation model never loses or reorders a label *)
Lemma M_append_prefix : forall s v, exists t, g_lm (fst (M_append s v)) = g_lm s ++ t.
Proof.
  intros s v. unfold GrowOnly.M_append.
  pose proof (contains_state_lm s v) as Hl.
  destruct (M_contains s v); [exists []; cbn; now rewrite app_nil_r, Hl|].
  destruct (g_map (M_contains_state s v)); [exists [v]; cbn; now rewrite Hl|].
  destruct (match as_pos v with Some z => z =? g_cnt (M_contains_state s v) | None => false end);
    [exists [v]; cbn; now rewrite Hl|].
  destruct (nodupb (g_lm (M_contains_state s v) ++ [v])); [exists [v]; cbn; now rewrite Hl|].
  exists []. cbn. now rewrite app_nil_r, Hl.
Qed.

Lemma M_extend_check_lm : forall vs s obs, g_lm (fst (M_extend_check s vs obs)) = g_lm s.
Proof.
  induction vs as [|v r IH]; intros s obs; cbn; auto.
  destruct (M_contains s v || mem v obs); cbn; [apply contains_state_lm|].
  rewrite IH. apply contains_state_lm.
Qed.

Lemma M_extend_loop_prefix : forall vs s, exists t, g_lm (fst (M_extend_loop s vs)) = g_lm s ++ t.
Proof.
  induction vs as [|v r IH]; intros s; cbn.
  - exists []. now rewrite app_nil_r.
  - destruct (M_append_prefix s v) as [t1 H1].
    destruct (GrowOnly.M_append L leq as_pos s v) as [s1 o]. cbn in H1. destruct o.
    + destruct (IH s1) as [t2 H2]. exists (t1 ++ t2). now rewrite H2, H1, app_assoc.
    + exists t1. exact H1.
Qed.

Lemma M_extend_prefix : forall vs s, exists t, g_lm (fst (M_extend s vs)) = g_lm s ++ t.
Proof.
  intros vs s. unfold GrowOnly.M_extend. pose proof (M_extend_check_lm vs s []) as Hl.
  destruct (GrowOnly.M_extend_check L leq as_pos s vs []) as [s1 ok]. cbn in Hl. destruct ok.
  - destruct (M_extend_loop_prefix vs s1) as [t H]. exists t. now rewrite H, Hl.
  - exists []. cbn. now rewrite app_nil_r.
Qed.

Theorem M_irun_prefix : forall ops s, exists t, g_lm (fst (M_irun s ops)) = g_lm s ++ t.
Proof.
  induction ops as [|op r IH]; intros s; cbn.
  - exists []. now rewrite app_nil_r.
  - assert (H1 : exists t, g_lm (fst (M_istep s op)) = g_lm s ++ t).
    { destruct op; cbn; [apply M_append_prefix | apply M_extend_prefix | exists []; now rewrite refresh_lm, app_nil_r]. }
    destruct H1 as [t1 H1].
    destruct (GrowOnly.M_istep L leq as_pos s op) as [s1 o]. cbn in H1.
    destruct (IH s1) as [t2 H2]. destruct (GrowOnly.M_irun L leq as_pos s1 r) as [s2 os]. cbn in *.
    exists (t1 ++ t2). now rewrite H2, H1, app_assoc.
Qed.

(* OUTSIDE any guard: a rejected append changes nothing but the array cache (labels list, map, count
   are exactly as before) -- with a map AND on a loc_is_iloc index (after fix feb832d) *)
Theorem M_append_atomic : forall s v e,
  snd (M_append s v) = Err e ->
  let s' := fst (M_append s v) in
  g_lm s' = g_lm s /\ g_map s' = g_map s /\ g_cnt s' = g_cnt s.
Proof.
  intros s v e. unfold GrowOnly.M_append.
  pose proof (contains_state_lm s v) as Hl. pose proof (contains_state_map s v) as Hm.
  pose proof (contains_state_cnt s v) as Hc.
  destruct (M_contains s v); cbn; [intros _; repeat split; congruence|].
  destruct (g_map (M_contains_state s v)) eqn:Eg; cbn; [discriminate|].
  destruct (match as_pos v with Some z => z =? g_cnt (M_contains_state s v) | None => false end); cbn; [discriminate|].
  destruct (nodupb (g_lm (M_contains_state s v) ++ [v])); cbn; [discriminate|]. intros _; repeat split; congruence.
Qed.

(* ---- indices with a map (every index built from explicit labels): NO guard at all *)
Lemma M_append_keeps_map : forall s v, g_map s <> None -> g_map (fst (M_append s v)) <> None.
Proof.
  intros s v H. unfold GrowOnly.M_append. pose proof (contains_state_map s v) as Hm.
  destruct (M_contains s v); cbn; [congruence|].
  destruct (g_map (M_contains_state s v)) eqn:E; cbn; [discriminate | congruence].
Qed.

Lemma M_extend_loop_keeps_map : forall vs s, g_map s <> None -> g_map (fst (M_extend_loop s vs)) <> None.
Proof.
  induction vs as [|v r IH]; intros s H; cbn; auto.
  pose proof (M_append_keeps_map s v H) as H1.
  destruct (GrowOnly.M_append L leq as_pos s v) as [s1 o]. cbn in H1. destruct o; auto.
Qed.

Lemma M_extend_check_map : forall vs s obs, g_map (fst (M_extend_check s vs obs)) = g_map s.
Proof.
  induction vs as [|v r IH]; intros s obs; cbn; auto.
  destruct (M_contains s v || mem v obs); cbn; [apply contains_state_map|].
  rewrite IH. apply contains_state_map.
Qed.

Lemma M_istep_keeps_map : forall s op, g_map s <> None -> g_map (fst (M_istep s op)) <> None.
Proof.
  intros s [v|vs|] H; cbn.
  - now apply M_append_keeps_map.
  - unfold GrowOnly.M_extend. pose proof (M_extend_check_map vs s []) as Hm.
    destruct (GrowOnly.M_extend_check L leq as_pos s vs []) as [s1 ok]. cbn in Hm. destruct ok; cbn.
    + apply M_extend_loop_keeps_map. congruence.
    + congruence.
  - now rewrite refresh_map.
Qed.

Lemma dom_irun_with_map : forall ops s, g_map s <> None -> dom_irun s ops = true.
Proof.
  induction ops as [|op r IH]; intros s H; cbn; auto.
  apply andb_true_iff. split.
  - destruct op; cbn; auto. unfold GrowOnly.ext_safe. destruct (g_map s); congruence.
  - apply IH. now apply M_istep_keeps_map.
Qed.

(* REFINEMENT WITHOUT ANY GUARD for an index that has a map: every history of append / extend / reads,
   valid or not, meets the specification -- in particular every rejected call is all-or-nothing *)
Theorem igo_refines_with_map : forall ops s, igo_wf s -> g_map s <> None ->
  igo_wf (fst (M_irun s ops)) /\
  g_lm (fst (M_irun s ops)) = fst (S_irun (g_lm s) ops) /\
  map is_ok (snd (M_irun s ops)) = map is_ok (snd (S_irun (g_lm s) ops)).
Proof. intros ops s Hwf Hm. apply igo_refines; auto. now apply dom_irun_with_map. Qed.

(* extend is all-or-nothing, unconditionally on an index with a map *)
Theorem M_extend_atomic_with_map : forall s vs, igo_wf s -> g_map s <> None ->
  is_ok (snd (M_extend s vs)) = false -> g_lm (fst (M_extend s vs)) = g_lm s.
Proof.
  intros s vs Hwf Hm Hf.
  assert (Hs : ext_safe s vs = true) by (unfold GrowOnly.ext_safe; destruct (g_map s); congruence).
  destruct (M_extend_refines vs s Hwf Hs) as (_ & Hl & Ho). rewrite Hl. rewrite Hf in Ho.
  unfold GrowOnly.S_extend in *. destruct (fresh_all (g_lm s) vs); [discriminate | reflexivity].
Qed.

End IndexProofs.
