(* C09 -- IndexGO: laws of the specification and refinement of the implementation model. *)
Require Import SF.Prelude SF.Dtype SF.GrowOnly.

Section IndexProofs.
Variable L : Type.
Variable leq : L -> L -> bool.
Variable as_pos : L -> option Z.
Hypothesis leq_sym : forall a b, leq a b = leq b a.

Notation mem := (mem L leq).
Notation nodupb := (nodupb L leq).
Notation fresh_all := (fresh_all L leq).
Notation S_istep := (S_istep L leq).
Notation S_irun := (S_irun L leq).
Notation S_igiven := (S_igiven L leq).

Lemma S_istep_given : forall l op l1 o,
  S_istep l op = (l1, o) ->
  l1 = l ++ match op, o with IAppend v, Ok _ => [v] | IExtend vs, Ok _ => vs | _, _ => [] end.
Proof.
  intros l [v|vs|] l1 o; cbn; unfold S_append, S_extend.
  - destruct (mem v l); intros E; inversion E; subst; now rewrite ?app_nil_r.
  - destruct (fresh_all l vs); intros E; inversion E; subst; now rewrite ?app_nil_r.
  - intros E; inversion E; subst; now rewrite app_nil_r.
Qed.

(* append-only + order given: after ANY history the labels are the old labels followed by exactly the
   labels of the accepted calls, in the order given *)
Theorem S_irun_append_only : forall ops l,
  fst (S_irun l ops) = l ++ S_igiven l ops.
Proof.
  induction ops as [|op r IH]; intros l; cbn.
  - now rewrite app_nil_r.
  - destruct (S_istep l op) as [l1 o] eqn:E.
    specialize (IH l1). destruct (S_irun l1 r) as [l2 os] eqn:E2. cbn in *.
    rewrite IH. apply S_istep_given in E. rewrite E at 1. rewrite <- app_assoc. reflexivity.
Qed.

End IndexProofs.
