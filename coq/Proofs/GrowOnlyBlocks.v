(* C09 -- TypeBlocks.append / extend: the four members grown together stay coherent, the flat view
   only gains the new columns at the end, and every column stays readable through the directory. *)
Require Import SF.Prelude SF.Dtype SF.GrowOnly Proofs.GrowOnlyIndex.

Section BlocksProofs.
Variable V : Type.

Notation blk := (blk V).
Notation tb := (tb V).
Notation M_tb_append := (M_tb_append V).
Notation M_tb_append_all := (M_tb_append_all V).
Notation M_tb_extend := (M_tb_extend V).
Notation tb_dir_from := (tb_dir_from V).
Notation M_tb_column := (M_tb_column V).

(* ------------------------------------------------------------------ znth *)
Lemma znth_neg : forall A (l : list A) i, i < 0 -> znth l i = None.
Proof. intros. unfold znth. destruct (i <? 0) eqn:E; [reflexivity|lia]. Qed.

Lemma znth_nonneg : forall A (l : list A) i, 0 <= i -> znth l i = nth_error l (Z.to_nat i).
Proof. intros. unfold znth. destruct (i <? 0) eqn:E; [lia|reflexivity]. Qed.

Lemma znth_app : forall A (a b : list A) i, 0 <= i ->
  znth (a ++ b) i = if i <? zlen a then znth a i else znth b (i - zlen a).
Proof.
  intros A a b i Hi. unfold zlen. destruct (i <? Z.of_nat (length a)) eqn:E.
  - rewrite !znth_nonneg by lia. apply nth_error_app1. lia.
  - rewrite !znth_nonneg by lia. rewrite nth_error_app2 by lia. f_equal. lia.
Qed.

Lemma znth_map : forall A B (f : A -> B) l i, znth (map f l) i = option_map f (znth l i).
Proof. intros. unfold znth. destruct (i <? 0); [reflexivity|]. apply nth_error_map. Qed.

Lemma znth_zrange_from : forall n k i, 0 <= i < Z.of_nat n -> znth (zrange_from k n) i = Some (k + i).
Proof.
  induction n as [|n IH]; intros k i Hi; [lia|].
  rewrite znth_nonneg by lia. destruct (Z.to_nat i) as [|m] eqn:E.
  - cbn. f_equal. lia.
  - cbn. specialize (IH (k + 1) (i - 1)). rewrite znth_nonneg in IH by lia.
    replace (Z.to_nat (i - 1)) with m in IH by lia. rewrite IH by lia. f_equal. lia.
Qed.

Lemma znth_beyond : forall A (l : list A) i, zlen l <= i -> znth l i = None.
Proof.
  intros A l i H. unfold zlen in H. rewrite znth_nonneg by lia. apply nth_error_None. lia.
Qed.

Lemma zrange_length : forall n, 0 <= n -> zlen (zrange n) = n.
Proof. intros. unfold zlen, zrange. rewrite zrange_from_length. lia. Qed.

(* ------------------------------------------------------------------ well-formedness *)
Definition blk_ok (b : blk) : Prop :=
  (b_2d b = false -> length (b_cols b) = 1%nat) /\
  Forall (fun c => zlen c = b_rows b) (b_cols b).

Definition tb_wf (t : tb) : Prop :=
  Forall (fun b => blk_ok b /\ b_rows b = t_rows t) (t_blocks t) /\
  t_index t = tb_dir_from 0 (t_blocks t) /\
  t_dtypes t = map fst (tb_flat t) /\
  t_ncols t = zlen (tb_flat t).

Lemma blk_ok_width : forall b, blk_ok b -> blk_width b = zlen (b_cols b).
Proof.
  intros b [H _]. unfold blk_width, zlen. destruct (b_2d b); [reflexivity|]. now rewrite H.
Qed.

Lemma blk_flat_length : forall b : blk, length (blk_flat b) = length (b_cols b).
Proof. intros. unfold blk_flat. apply map_length. Qed.

Lemma dir_app : forall bs k b,
  tb_dir_from k (bs ++ [b]) =
  tb_dir_from k bs ++ map (fun i => (k + zlen bs, i)) (zrange (blk_width b)).
Proof.
  induction bs as [|x xs IH]; intros k b; cbn [app GrowOnly.tb_dir_from].
  - rewrite app_nil_r. unfold zlen. cbn. now rewrite Z.add_0_r.
  - rewrite IH, <- app_assoc. do 2 f_equal. apply map_ext. intros i. f_equal.
    unfold zlen. cbn [length]. lia.
Qed.

Lemma flat_app : forall (bs : list blk) b,
  flat_map blk_flat (bs ++ [b]) = flat_map blk_flat bs ++ blk_flat b.
Proof. intros. rewrite flat_map_app. cbn. now rewrite app_nil_r. Qed.

Lemma map_fst_blk_flat : forall b : blk, map fst (blk_flat b) = repeat (b_dt b) (length (b_cols b)).
Proof.
  intros b. unfold blk_flat. rewrite map_map. cbn. induction (b_cols b); cbn; congruence.
Qed.

(* TypeBlocks.append: accepted exactly when the heights agree; then the flat view gains the block's
   columns at the end, nothing before them changes, and the grown members stay coherent *)
Theorem tb_append_ok : forall t b t',
  tb_wf t -> blk_ok b -> M_tb_append t b = Ok t' ->
  tb_wf t' /\ tb_flat t' = tb_flat t ++ blk_flat b /\ t_rows t' = t_rows t /\ b_rows b = t_rows t.
Proof.
  intros t b t' (Hb & Hi & Hd & Hn) Hok. unfold GrowOnly.M_tb_append.
  destruct (b_rows b =? t_rows t) eqn:Er; cbn [negb]; [|discriminate].
  apply Z.eqb_eq in Er. pose proof (blk_ok_width b Hok) as Hw.
  destruct (b_2d b && (blk_width b =? 0)) eqn:Ez.
  - intros E. injection E as <-. apply andb_true_iff in Ez as [_ Ez]. apply Z.eqb_eq in Ez.
    rewrite Hw in Ez. unfold zlen in Ez.
    assert (Hc : b_cols b = []) by (destruct (b_cols b); [reflexivity | cbn in Ez; lia]).
    unfold blk_flat. rewrite Hc. cbn. rewrite app_nil_r.
    repeat split; auto.
  - intros E. injection E as <-. unfold tb_wf, tb_flat; cbn.
    rewrite flat_app. repeat split; auto.
    + apply Forall_app. split; [exact Hb|]. constructor; auto.
    + rewrite dir_app, Hi. cbn. reflexivity.
    + rewrite map_app, Hd, map_fst_blk_flat, Hw. unfold zlen. now rewrite Nat2Z.id.
    + rewrite Hn, Hw. unfold zlen, tb_flat. rewrite app_length, blk_flat_length. lia.
Qed.

Theorem tb_append_err : forall t b e, M_tb_append t b = Err e ->
  b_rows b <> t_rows t /\ e = "RuntimeError"%string.
Proof.
  intros t b e. unfold GrowOnly.M_tb_append.
  destruct (b_rows b =? t_rows t) eqn:Er; cbn [negb].
  - destruct (b_2d b && (blk_width b =? 0)); discriminate.
  - intros E. injection E as <-. split; [lia | reflexivity].
Qed.

(* extend: a list of blocks all of the right height is appended whole *)
Lemma tb_append_all_ok : forall bs t,
  tb_wf t -> Forall (fun b => blk_ok b /\ b_rows b = t_rows t) bs ->
  exists t', M_tb_append_all t bs = (t', Ok tt) /\ tb_wf t' /\
             tb_flat t' = tb_flat t ++ flat_map blk_flat bs /\ t_rows t' = t_rows t.
Proof.
  induction bs as [|b r IH]; intros t Hwf Hbs; cbn.
  - exists t. rewrite app_nil_r. refine (conj eq_refl (conj Hwf (conj eq_refl eq_refl))).
  - inversion Hbs as [|? ? [Hok Hr] Hrest]; subst.
    destruct (M_tb_append t b) as [t1|e] eqn:E.
    + destruct (tb_append_ok t b t1 Hwf Hok E) as (Hw1 & Hf1 & Hr1 & _).
      destruct (IH t1 Hw1) as (t' & E' & Hw' & Hf' & Hr').
      { rewrite Hr1. exact Hrest. }
      exists t'. rewrite E'. refine (conj eq_refl (conj Hw' (conj _ _))).
      * cbn [flat_map]. rewrite Hf', Hf1, <- app_assoc. reflexivity.
      * congruence.
    + apply tb_append_err in E as [E _]. contradiction.
Qed.

(* ------------------------------------------------------------------ reading through the directory *)
Lemma dir_read : forall (bs pre : list blk) j, 0 <= j ->
  Forall blk_ok bs ->
  match znth (tb_dir_from (zlen pre) bs) j with
  | None => znth (flat_map blk_flat bs) j = None
  | Some (bi, ci) =>
      match znth (pre ++ bs) bi with
      | Some b => match znth (b_cols b) ci with Some c => Some (b_dt b, c) | None => None end
      | None => None
      end = znth (flat_map blk_flat bs) j
  end.
Proof.
  induction bs as [|b r IH]; intros pre j Hj Hok.
  - cbn. unfold znth. destruct (j <? 0); [reflexivity|]. now destruct (Z.to_nat j).
  - inversion Hok as [|? ? Hb Hr]; subst.
    pose proof (blk_ok_width b Hb) as Hw.
    assert (Hwn : 0 <= blk_width b) by (rewrite Hw; unfold zlen; lia).
    cbn [GrowOnly.tb_dir_from flat_map].
    rewrite !znth_app by lia.
    assert (Hl1 : zlen (map (fun i => (zlen pre, i)) (zrange (blk_width b))) = blk_width b).
    { unfold zlen. rewrite map_length. fold (zlen (zrange (blk_width b))). now apply zrange_length. }
    assert (Hl2 : zlen (blk_flat b) = blk_width b).
    { unfold zlen. rewrite blk_flat_length. symmetry. exact Hw. }
    rewrite Hl1, Hl2.
    destruct (j <? blk_width b) eqn:Ej.
    + rewrite znth_map. unfold zrange. rewrite znth_zrange_from by lia. cbn [option_map].
      rewrite znth_app by (unfold zlen; lia).
      replace (zlen pre <? zlen pre) with false by lia.
      replace (zlen pre - zlen pre) with 0 by lia. cbn [znth Z.ltb Z.compare Z.to_nat nth_error].
      rewrite Z.add_0_l. unfold blk_flat. rewrite znth_map. now destruct (znth (b_cols b) j).
    + specialize (IH (pre ++ [b]) (j - blk_width b)).
      replace (zlen (pre ++ [b])) with (zlen pre + 1) in IH by (unfold zlen; rewrite app_length; cbn; lia).
      rewrite <- app_assoc in IH. cbn [app] in IH. apply IH; [lia | exact Hr].
Qed.

(* labels and data in step: column j read through _index/_blocks IS the j-th column of the flat view *)
Theorem tb_column_correct : forall t j, tb_wf t -> M_tb_column t j = znth (tb_flat t) j.
Proof.
  intros t j (Hb & Hi & _ & _). unfold GrowOnly.M_tb_column, tb_flat.
  destruct (Z.ltb_spec j 0) as [Hneg|Hj].
  - now rewrite !znth_neg.
  - pose proof (dir_read (t_blocks t) [] j Hj) as H. cbn [app] in H. rewrite Hi.
    assert (Hok : Forall blk_ok (t_blocks t)).
    { eapply Forall_impl; [|exact Hb]. cbn. tauto. }
    specialize (H Hok). change (zlen (@nil blk)) with 0 in H.
    destruct (znth (tb_dir_from 0 (t_blocks t)) j) as [[bi ci]|]; auto.
Qed.

End BlocksProofs.
