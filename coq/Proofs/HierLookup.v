(* Membership and label -> position lookup through the tree (offsets accumulated along the path) equal
   membership and first position in the tuple sequence. *)
Require Import SF.Prelude SF.Hier Proofs.HierBfs Proofs.HierViews Proofs.HierHloc.

Section Lookup.
  Variable A : Type.
  Variable eqb : A -> A -> bool.
  Hypothesis eqb_spec : forall x y, eqb x y = true <-> x = y.
  Notation level := (level A).
  Notation idx := (index_of A eqb).
  Notation ridx := (row_index A eqb).

  Lemma ridx_app : forall r a b,
    ridx r (a ++ b) = match ridx r a with Some i => Some i | None => option_map (Nat.add (length a)) (ridx r b) end.
  Proof.
    induction a as [|y a IH]; intro b.
    - cbn. destruct (ridx r b); reflexivity.
    - cbn [app row_index length]. destruct (row_eqb A eqb r y); [reflexivity|]. rewrite IH.
      destruct (ridx r a); [reflexivity|]. destruct (ridx r b); reflexivity.
  Qed.

  Lemma ridx_map_cons : forall k key' l rows,
    ridx (k :: key') (map (cons l) rows) = if eqb k l then ridx key' rows else None.
  Proof.
    induction rows as [|r rows IH]; [destruct (eqb k l); reflexivity|].
    cbn [map row_index]. unfold row_eqb at 1. cbn [list_eqb]. fold (row_eqb A eqb key' r).
    destruct (eqb k l) eqn:E; cbn [andb].
    - destruct (row_eqb A eqb key' r); [reflexivity|]. rewrite IH. try rewrite E. reflexivity.
    - rewrite IH. try rewrite E. reflexivity.
  Qed.

  Lemma ridx_nil_map_cons : forall l rows, ridx [] (map (cons l) rows) = None.
  Proof. induction rows as [|r rows IH]; [reflexivity|]. cbn [map row_index]. unfold row_eqb. cbn [list_eqb]. rewrite IH. reflexivity. Qed.

  Lemma ridx_nil_fz : forall (ks : list level) ls, ridx [] (fz A ks ls) = None.
  Proof.
    induction ks as [|k ks IH]; intro ls; [destruct ls; reflexivity|]. destruct ls as [|l ls]; [reflexivity|].
    cbn [fz]. rewrite ridx_app, ridx_nil_map_cons, IH. reflexivity.
  Qed.

  Lemma idx_cons_none : forall k l ls, idx k (l :: ls) = None -> eqb k l = false /\ idx k ls = None.
  Proof.
    intros k l ls H. cbn [index_of] in H. destruct (eqb k l); [discriminate|].
    destruct (idx k ls); [discriminate|]. auto.
  Qed.

  Lemma ridx_fz_absent : forall (ks : list level) ls k key', idx k ls = None -> ridx (k :: key') (fz A ks ls) = None.
  Proof.
    induction ks as [|c ks IH]; intros ls k key' H; [destruct ls; reflexivity|].
    destruct ls as [|l ls]; [reflexivity|]. destruct (idx_cons_none _ _ _ H) as [E H'].
    cbn [fz]. rewrite ridx_app, ridx_map_cons, E, (IH ls k key' H'). reflexivity.
  Qed.

  Lemma ridx_singletons : forall ls k, ridx [k] (map (fun l => [l]) ls) = idx k ls.
  Proof.
    induction ls as [|l ls IH]; intro k; [reflexivity|]. cbn [map row_index index_of].
    unfold row_eqb. cbn [list_eqb]. rewrite andb_true_r. destruct (eqb k l); [reflexivity|]. rewrite IH. reflexivity.
  Qed.

  Lemma ridx_singletons_other : forall ls key, length key <> 1%nat -> ridx key (map (fun l => [l]) ls) = None.
  Proof.
    induction ls as [|l ls IH]; intros key H; [reflexivity|]. cbn [map row_index].
    rewrite (IH key H). unfold row_eqb.
    destruct key as [|k [|k2 key]]; cbn [list_eqb]; try reflexivity; [cbn in H; lia|].
    rewrite andb_false_r. reflexivity.
  Qed.

  Definition found (pos : Z) (o : option nat) : res Z :=
    match o with Some j => Ok (pos + Z.of_nat j) | None => Err "KeyError" end.

  Lemma kids_lookup : forall (ks : list level) (ls : list A) h k key' pos c0,
    length ls = length ks -> NoDup ls -> offsets_from c0 ks = true ->
    Forall (fun c => uniform h c = true) ks ->
    Forall (fun c => forall key p, M_leaf_loc A eqb key c p = found p (ridx key (flatten c))) ks ->
    match idx k ls with
    | None => Err "KeyError"
    | Some i => match nth_error ks i with
                | Some c => M_leaf_loc A eqb key' c (pos + lv_off c)
                | None => Err "IndexError"
                end
    end = found (pos + c0) (ridx (k :: key') (fz A ks ls)).
  Proof.
    induction ks as [|c ks IH]; intros ls h k key' pos c0 Hlen Hnd Ho Hu HI.
    - destruct ls; [reflexivity|discriminate].
    - destruct ls as [|l ls]; [discriminate|]. apply NoDup_cons_iff in Hnd as [Hnin Hnd'].
      apply Forall_cons_iff in Hu as [Huc Hu']. apply Forall_cons_iff in HI as [HIc HI'].
      cbn [offsets_from] in Ho. apply andb_true_iff in Ho as [Ho1 Ho2]. apply Z.eqb_eq in Ho1.
      cbn [fz index_of]. rewrite ridx_app, ridx_map_cons. destruct (eqb k l) eqn:E.
      + apply eqb_spec in E. subst l. cbn [nth_error]. rewrite HIc, Ho1.
        destruct (ridx key' (flatten c)) as [j|]; [reflexivity|].
        assert (N : idx k ls = None).
        { destruct (idx k ls) as [i|] eqn:Ei; [|reflexivity]. exfalso. apply Hnin.
          destruct (idx_some A eqb eqb_spec _ _ _ Ei) as [Hn _]. eapply nth_error_In, Hn. }
        rewrite (ridx_fz_absent ks ls k key' N). reflexivity.
      + specialize (IH ls h k key' pos (c0 + lv_len c) ltac:(cbn in Hlen; lia) Hnd' Ho2 Hu' HI').
        destruct (idx k ls) as [i|] eqn:Ei; cbn [option_map nth_error].
        * rewrite IH. destruct (ridx (k :: key') (fz A ks ls)) as [j|]; cbn [option_map found]; [|reflexivity].
          f_equal. rewrite map_length, (lv_len_flatten _ _ _ Huc). unfold zlen. lia.
        * destruct (ridx (k :: key') (fz A ks ls)) as [j|]; [discriminate IH|reflexivity].
  Qed.

  Theorem leaf_loc_exact : forall (t : level) h,
    uniform h t = true -> offsets_ok t = true -> labels_ok A eqb t = true ->
    forall key pos, M_leaf_loc A eqb key t pos = found pos (ridx key (flatten t)).
  Proof.
    induction t as [o ls|o ls ks IH] using level_ind'; intros h Hu Ho Hl key pos.
    - cbn [flatten]. destruct key as [|k [|k2 key]].
      + rewrite ridx_singletons_other by (cbn; lia). reflexivity.
      + rewrite ridx_singletons. cbn [M_leaf_loc]. destruct (idx k ls); reflexivity.
      + rewrite ridx_singletons_other by (cbn; lia). cbn [M_leaf_loc]. destruct (idx k ls); reflexivity.
    - apply uniform_node in Hu as (h' & -> & Hlen & Hne & Hk).
      cbn [offsets_ok] in Ho. apply andb_true_iff in Ho as [Ho1 Ho2].
      cbn [labels_ok] in Hl. apply andb_true_iff in Hl as [Hl1 Hl2].
      rewrite flatten_node. destruct key as [|k key'].
      + rewrite ridx_nil_fz. reflexivity.
      + cbn [M_leaf_loc].
        rewrite (kids_lookup ks ls h' k key' pos 0 Hlen (nodupb_NoDup A eqb eqb_spec _ Hl1) Ho1 Hk).
        * replace (pos + 0) with pos by lia. reflexivity.
        * rewrite Forall_forall in *. rewrite forallb_forall in Ho2, Hl2.
          intros c Hc key p. apply (IH c Hc h' (Hk c Hc) (Ho2 c Hc) (Hl2 c Hc)).
  Qed.

  (* membership = the leaf lookup succeeds, for keys of every length *)
  Lemma contains_lookup : forall (t : level) h, uniform h t = true ->
    forall key pos,
    M_contains A eqb key t = match M_leaf_loc A eqb key t pos with Ok _ => true | Err _ => false end.
  Proof.
    induction t as [o ls|o ls ks IH] using level_ind'; intros h Hu key pos.
    - destruct key as [|k key']; [reflexivity|].
      cbn [M_contains M_leaf_loc lv_labels]. destruct (idx k ls); [|reflexivity]. destruct key'; reflexivity.
    - apply uniform_node in Hu as (h' & -> & Hl & Hne & Hk). destruct key as [|k key']; [reflexivity|].
      cbn [M_contains M_leaf_loc lv_labels]. destruct (idx k ls) as [i|]; [|reflexivity].
      destruct (nth_error ks i) as [c|] eqn:E; [|reflexivity].
      assert (Hin : In c ks) by (eapply nth_error_In; eauto).
      rewrite Forall_forall in IH, Hk. apply (IH c Hin h' (Hk c Hin)).
  Qed.

  Theorem contains_exact : forall (t : level) h,
    uniform h t = true -> offsets_ok t = true -> labels_ok A eqb t = true ->
    forall key, M_contains A eqb key t = S_contains A eqb (flatten t) key.
  Proof.
    intros t h Hu Ho Hl key. rewrite (contains_lookup t h Hu key 0).
    rewrite (leaf_loc_exact t h Hu Ho Hl key 0). unfold S_contains, found.
    destruct (ridx key (flatten t)); reflexivity.
  Qed.

  Theorem lookup_exact : forall (t : level) h,
    uniform h t = true -> offsets_ok t = true -> labels_ok A eqb t = true ->
    forall key, M_leaf_loc A eqb key t 0 = S_lookup A eqb (flatten t) key.
  Proof.
    intros t h Hu Ho Hl key. rewrite (leaf_loc_exact t h Hu Ho Hl key 0). unfold S_lookup, found.
    destruct (ridx key (flatten t)); reflexivity.
  Qed.
End Lookup.
