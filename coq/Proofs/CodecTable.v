(* C16 -- tables: rows <-> columns (transposition by position), generic list facts. *)
Require Import SF.Prelude SF.Value SF.Codec.

Lemma map_nth_seq {A} : forall (d : A) (l : list A), map (fun i => nth i l d) (seq 0 (length l)) = l.
Proof.
  intros d l; induction l as [|x l IH]; [reflexivity|].
  cbn [length seq map nth]. f_equal.
  rewrite <- seq_shift, map_map. cbn [nth]. exact IH.
Qed.

Lemma seq_add_map : forall n len, seq n len = map (Nat.add n) (seq 0 len).
Proof.
  induction n as [|n IH]; intro len.
  - cbn [Nat.add]. symmetry. rewrite <- (map_id (seq 0 len)) at 2. apply map_ext. reflexivity.
  - rewrite <- seq_shift, IH, map_map. reflexivity.
Qed.

Section Table.
  Context {A : Type}.

  Lemma rows_of_is_cols_of : forall (d : A) n X, rows_of d n X = cols_of d n X.
  Proof. reflexivity. Qed.

  (* transposing twice gives the table back when every row has the same length m *)
  Lemma transpose_involutive : forall (d : A) (m : nat) (X : list (list A)),
    forallb (fun r => Nat.eqb (length r) m) X = true ->
    cols_of d (length X) (cols_of d m X) = X.
  Proof.
    intros d m X H. unfold cols_of.
    etransitivity; [|apply (map_nth_seq [] X)].
    apply map_ext_in. intros j Hj. apply in_seq in Hj.
    rewrite map_map.
    assert (Hlen : length (nth j X []) = m).
    { rewrite forallb_forall in H. apply Nat.eqb_eq. apply H. apply nth_In. lia. }
    etransitivity; [|apply (map_nth_seq d (nth j X []))].
    rewrite Hlen. apply map_ext. intro i.
    rewrite (nth_indep (map (fun r : list A => nth i r d) X) d ((fun r : list A => nth i r d) []))
      by (rewrite map_length; lia).
    apply (map_nth (fun r : list A => nth i r d)).
  Qed.

  Lemma cols_of_length : forall (d : A) n X, length (cols_of d n X) = n.
  Proof. intros. unfold cols_of. rewrite map_length, seq_length. reflexivity. Qed.

  Lemma cols_of_row_length : forall (d : A) n X c, In c (cols_of d n X) -> length c = length X.
  Proof.
    intros d n X c H. unfold cols_of in H. apply in_map_iff in H as [j [<- _]].
    apply map_length.
  Qed.

  (* a table whose rows are concatenations: the columns are the columns of the left part, then of the right part *)
  Lemma cols_of_app : forall (d : A) {I : Type} (L R : I -> list A) (is : list I) n1 n2,
    (forall i, In i is -> length (L i) = n1) ->
    cols_of d (n1 + n2) (map (fun i => L i ++ R i) is) =
    cols_of d n1 (map L is) ++ cols_of d n2 (map R is).
  Proof.
    intros d I L R is n1 n2 HL. unfold cols_of.
    rewrite seq_app, map_app. cbn [Nat.add]. f_equal.
    - apply map_ext_in. intros j Hj. apply in_seq in Hj. rewrite !map_map.
      apply map_ext_in. intros i Hi. apply app_nth1. rewrite (HL i Hi). lia.
    - rewrite (seq_add_map n1 n2), map_map. apply map_ext_in. intros j _. rewrite !map_map.
      apply map_ext_in. intros i Hi.
      rewrite <- (HL i Hi). apply app_nth2_plus.
  Qed.
End Table.

(* mapping a function over all cells commutes with transposition *)
Lemma cols_of_map {A B} (g : A -> B) (d : A) n (X : list (list A)) :
  cols_of (g d) n (map (map g) X) = map (map g) (cols_of d n X).
Proof.
  unfold cols_of. rewrite map_map. apply map_ext. intro j. rewrite !map_map.
  apply map_ext. intro r. apply map_nth.
Qed.

Lemma filter_all {A} (p : A -> bool) (l : list A) : forallb p l = true -> filter p l = l.
Proof.
  induction l as [|x l IH]; cbn; intro H; [reflexivity|].
  apply andb_true_iff in H as [Hx Hl]. rewrite Hx, (IH Hl). reflexivity.
Qed.

Lemma res_list_map_ok {A B} (f : A -> res B) (g : A -> B) (l : list A) :
  (forall x, In x l -> f x = Ok (g x)) -> res_list (map f l) = Ok (map g l).
Proof.
  induction l as [|x l IH]; intro H; [reflexivity|].
  cbn [map res_list]. rewrite (H x (or_introl eq_refl)), IH; [reflexivity|].
  intros y Hy. apply H. right. exact Hy.
Qed.

Lemma forallb_map {A B} (p : B -> bool) (f : A -> B) (l : list A) :
  forallb p (map f l) = forallb (fun x => p (f x)) l.
Proof. induction l as [|x l IH]; cbn; [reflexivity|]. rewrite IH. reflexivity. Qed.

Lemma map_id_in {A} (f : A -> A) (l : list A) : (forall x, In x l -> f x = x) -> map f l = l.
Proof.
  induction l as [|x l IH]; intro H; [reflexivity|]. cbn. rewrite (H x (or_introl eq_refl)), IH; [reflexivity|].
  intros y Hy. apply H. right. exact Hy.
Qed.

