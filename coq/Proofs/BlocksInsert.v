(* C08 -- REFINEMENT: Frame._insert (insert_before / insert_after) builds, for EVERY block layout of the receiver
   and of the inserted container, the columns before the position, the inserted columns, the columns from the position on. *)
Require Import SF.Prelude SF.PySlice SF.Dtype SF.Blocks SF.UpdateSpec SF.BlocksUpdate.
Require Import Proofs.SliceFacts Proofs.BlocksSelect Proofs.UpdateLists Proofs.BlocksWalk Proofs.BlocksDrop.

Section Insert.
Context {A : Type}.
Notation tb := (tb A).

Lemma S_select_slice (cols : list (dtype * list A)) s out :
  slice_list cols s = Some out -> S_select_columns cols (CSlice s) = Ok out.
Proof.
  unfold slice_list, S_select_columns. cbn [key_positions].
  destruct (positions s (Z.of_nat (length cols))) as [ps|]; [|discriminate]. intros ->. reflexivity.
Qed.

Theorem insert_blocks_refines (t ins : tb) (key : Z) : wf_tb t ->
  0 <= key <= Z.of_nat (length (flatten t)) ->
  res_map flatten (M_insert_blocks t key ins) = Ok (S_insert_at (flatten t) key (flatten ins)).
Proof.
  intros Hwf Hkey. unfold M_insert_blocks.
  pose proof (select_columns_refines t (CSlice (mk_slice (Some 0) (Some key) None)) Hwf I) as E1.
  pose proof (select_columns_refines t (CSlice (mk_slice (Some key) None None)) Hwf I) as E2.
  rewrite (S_select_slice _ _ _ (slice_list_range (flatten t) 0 key ltac:(lia) ltac:(lia))) in E1.
  rewrite (S_select_slice _ _ _ (slice_list_from (flatten t) key ltac:(lia))) in E2.
  destruct (M_select_columns t (CSlice (mk_slice (Some 0) (Some key) None))) as [a|e]; [|discriminate].
  destruct (M_select_columns t (CSlice (mk_slice (Some key) None None))) as [b|e]; [|discriminate].
  cbn [res_map] in *. injection E1 as E1. injection E2 as E2.
  rewrite from_blocks_flatten, !flat_map_app. unfold flatten in *. rewrite E1, E2.
  unfold S_insert_at. rewrite Z.sub_0_r. cbn [Z.to_nat skipn]. reflexivity.
Qed.

End Insert.
