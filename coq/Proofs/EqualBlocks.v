(* C10 -- TypeBlocks.equals: the three operand paths, the mask and the block walk compute the
   cell-wise specification for every pair of block layouts (under tb_dom). *)
Require Import SF.Prelude SF.Dtype SF.Value SF.Equal Proofs.EqualSpec Proofs.EqualLists Proofs.EqualRefine.

(* ------------------------------------------------------------------ the block walk *)
Lemma fill_go_flat sk mask start eqs :
  fill_go sk mask start eqs =
  forallb all_true (if sk then map2 (map2 orb) (concat eqs) (skipn start mask) else concat eqs).
Proof.
  revert start. induction eqs as [|blk r IH]; intro start; cbn [fill_go concat].
  - destruct sk; reflexivity.
  - rewrite IH. destruct sk.
    + rewrite map2_app_l, forallb_app, skipn_add. reflexivity.
    + rewrite forallb_app. reflexivity.
Qed.

(* ------------------------------------------------------------------ operands as columns *)
Definition ocols (x : list oblock) : list (okind * list val) :=
  flat_map (fun ob => map (pair (fst ob)) (snd ob)) x.

Lemma eq_block_cols (x y : oblock) :
  eq_block x y = map2 eqcol (map (pair (fst x)) (snd x)) (map (pair (fst y)) (snd y)).
Proof. unfold eq_block. rewrite map2_map_l, map2_map_r. reflexivity. Qed.

Lemma concat_eq_blocks xa xb :
  map (fun ob : oblock => length (snd ob)) xa = map (fun ob : oblock => length (snd ob)) xb ->
  concat (map2 eq_block xa xb) = map2 eqcol (ocols xa) (ocols xb).
Proof.
  revert xb. induction xa as [|x xs IH]; intros [|y ys] H; cbn in *; try discriminate; [reflexivity|].
  injection H as H1 H2. unfold ocols in *. cbn.
  rewrite map2_app by (rewrite !map_length; exact H1).
  rewrite <- eq_block_cols. f_equal. apply IH. exact H2.
Qed.

Lemma ocols_as_oblock bs : ocols (map as_oblock bs) = map kcol (blocks_cols bs).
Proof.
  unfold ocols, blocks_cols. induction bs as [|b r IH]; cbn; [reflexivity|].
  rewrite map_app, IH. f_equal. unfold blk_cols. rewrite map_map. reflexivity.
Qed.

Lemma widths_nat (a b : list block) :
  map blk_width a = map blk_width b ->
  map (fun ob : oblock => length (snd ob)) (map as_oblock a) = map (fun ob : oblock => length (snd ob)) (map as_oblock b).
Proof.
  revert b. induction a as [|x xs IH]; intros [|y ys] H; cbn in *; try discriminate; [reflexivity|].
  injection H as H1 H2. unfold blk_width in H1. apply Nat2Z.inj in H1. rewrite H1. f_equal. apply IH. exact H2.
Qed.

(* ------------------------------------------------------------------ reblock *)
Lemma blk_cols_app d c1 c2 : blk_cols (d, c1 ++ c2) = blk_cols (d, c1) ++ blk_cols (d, c2).
Proof. unfold blk_cols. cbn. apply map_app. Qed.

Lemma consol_cols bs : forall gb, blocks_cols (consol_go (Some gb) bs) = blk_cols gb ++ blocks_cols bs.
Proof.
  induction bs as [|b r IH]; intro gb; cbn.
  - unfold blocks_cols. cbn. reflexivity.
  - destruct (dtype_eqb (fst b) (fst gb)) eqn:E.
    + rewrite IH. apply dtype_eqb_eq in E. rewrite blk_cols_app.
      unfold blocks_cols. cbn. rewrite <- app_assoc. f_equal. f_equal.
      destruct b as [d c], gb as [d' c']. cbn in *. subst. reflexivity.
    + unfold blocks_cols in *. cbn. rewrite IH. reflexivity.
Qed.

Lemma reblock_cols bs : blocks_cols (reblock bs) = blocks_cols bs.
Proof.
  unfold reblock. destruct bs as [|b r]; cbn; [reflexivity|]. rewrite consol_cols. reflexivity.
Qed.

Definition pos_widths (bs : list block) : bool := forallb (fun b => 0 <? blk_width b) bs.

Lemma blk_width_app d c1 c2 : blk_width (d, c1 ++ c2) = blk_width (d, c1) + blk_width (d, c2).
Proof. unfold blk_width. cbn. rewrite app_length, Nat2Z.inj_add. reflexivity. Qed.

Lemma consol_widths bs : forall gb, 0 < blk_width gb -> pos_widths bs = true ->
  map blk_width (consol_go (Some gb) bs) = map snd (sig_go (Some (fst gb)) (blk_width gb) bs).
Proof.
  induction bs as [|b r IH]; intros gb Hg Hp; cbn.
  - replace (0 <? blk_width gb) with true by lia. reflexivity.
  - cbn in Hp. apply andb_true_iff in Hp as [Hb Hr].
    destruct (dtype_eqb (fst b) (fst gb)) eqn:E.
    + rewrite IH; [| |exact Hr].
      * cbn [fst]. destruct gb as [d c], b as [d' c']. rewrite blk_width_app. reflexivity.
      * destruct gb as [d c], b as [d' c']. rewrite blk_width_app. unfold blk_width in *. cbn in *. lia.
    + cbn. f_equal. apply IH; [lia | exact Hr].
Qed.

Lemma reblock_widths bs : pos_widths bs = true ->
  map blk_width (reblock bs) = map snd (reblock_sig bs).
Proof.
  unfold reblock, reblock_sig. destruct bs as [|b r]; cbn; intro Hp; [reflexivity|].
  apply andb_true_iff in Hp as [Hb Hr]. rewrite consol_widths; [reflexivity | lia | exact Hr].
Qed.

(* ------------------------------------------------------------------ column by column *)
Lemma split_one d (cols : list (list val)) :
  flat_map blk_cols (map (fun col => (d, [col])) cols) = blk_cols (d, cols).
Proof. unfold blk_cols. induction cols as [|c cs IH]; cbn in *; [reflexivity|]. rewrite IH. reflexivity. Qed.

Lemma split_cols_cols bs : blocks_cols (split_cols bs) = blocks_cols bs.
Proof.
  unfold blocks_cols, split_cols. induction bs as [|b r IH]; [reflexivity|].
  cbn [flat_map]. rewrite flat_map_app. f_equal; [|exact IH]. rewrite split_one. destruct b; reflexivity.
Qed.

Lemma split_cols_widths bs :
  map (fun ob : oblock => length (snd ob)) (map as_oblock (split_cols bs)) = map (fun _ => 1%nat) (blocks_cols bs).
Proof.
  unfold blocks_cols, split_cols. induction bs as [|b r IH]; [reflexivity|].
  cbn [flat_map]. rewrite !map_app. f_equal; [|exact IH]. unfold blk_cols. rewrite !map_map. reflexivity.
Qed.

Lemma const_map_len {A B C} (c : C) (a : list A) (b : list B) : length a = length b -> map (fun _ => c) a = map (fun _ => c) b.
Proof.
  revert b. induction a as [|x xs IH]; intros [|y ys] H; cbn in *; try discriminate; [reflexivity|].
  f_equal. apply IH. congruence.
Qed.

(* ------------------------------------------------------------------ the == of two TypeBlocks, as columns *)
Definition rect (rows : Z) (v : list (list val)) : Prop := forall col, In col v -> Z.of_nat (length col) = rows.

Lemma rect_nth rows va vb : rect rows va -> rect rows vb -> length va = length vb ->
  forall n, length (nth n va []) = length (nth n vb []).
Proof.
  intros Ha Hb Hl n. destruct (Nat.lt_ge_cases n (length va)) as [Hn|Hn].
  - apply Nat2Z.inj. rewrite (Ha (nth n va [])) by (apply nth_In; exact Hn).
    rewrite (Hb (nth n vb [])) by (apply nth_In; lia). reflexivity.
  - rewrite !nth_overflow by lia. reflexivity.
Qed.

Lemma tb_wf_rect t : tb_wf t = true -> rect (tb_rows t) (tb_vals t).
Proof.
  unfold tb_wf. intro H. apply andb_true_iff in H as [_ H]. intros col Hc.
  rewrite forallb_forall in H. apply Z.eqb_eq. apply H. exact Hc.
Qed.

Lemma eqcols_inert (A B : list (okind * list val)) :
  all_true (map2 col_inert A B) = true ->
  map2 eqcol A B = map2 (map2 py_eq) (map snd A) (map snd B).
Proof.
  revert B. induction A as [|x xs IH]; intros [|y ys] H; cbn in *; try reflexivity.
  apply andb_true_iff in H as [H1 H2]. rewrite (col_inert_eq x y H1), (IH ys H2). reflexivity.
Qed.

Lemma map_snd_kcol cs : map snd (map kcol cs) = map snd cs.
Proof. rewrite map_map. reflexivity. Qed.

Lemma tb_vals_len t : length (tb_vals t) = length (tb_cols t).
Proof. unfold tb_vals. apply map_length. Qed.

(* the flattened result of `self == other` is the cell-wise Python == of the two tables *)
Lemma eq_flat a b :
  tb_wf a = true -> tb_wf b = true -> length (tb_cols a) = length (tb_cols b) -> nat_dom a b = true ->
  let (xa, xb) := operands (tb_blocks a) (tb_blocks b) in
  concat (map2 eq_block xa xb) = map2 (map2 py_eq) (tb_vals a) (tb_vals b).
Proof.
  intros Wa Wb Hn Hd. unfold nat_dom in Hd. unfold tb_cols in Hd. unfold operands.
  assert (Pa : pos_widths (tb_blocks a) = true) by (unfold tb_wf in Wa; apply andb_true_iff in Wa; tauto).
  assert (Pb : pos_widths (tb_blocks b) = true) by (unfold tb_wf in Wb; apply andb_true_iff in Wb; tauto).
  unfold tb_path in *.
  destruct (list_Z_eqb (map blk_width (tb_blocks a)) (map blk_width (tb_blocks b))) eqn:E1.
  - (* block compatible *)
    apply list_Z_eqb_eq in E1.
    rewrite concat_eq_blocks by (apply widths_nat; exact E1).
    rewrite !ocols_as_oblock. rewrite (eqcols_inert _ _ Hd), !map_snd_kcol. reflexivity.
  - destruct (list_Z_eqb (map snd (reblock_sig (tb_blocks a))) (map snd (reblock_sig (tb_blocks b)))) eqn:E2.
    + (* reblocked *)
      apply list_Z_eqb_eq in E2. rewrite <- !reblock_widths in E2 by assumption.
      rewrite concat_eq_blocks by (apply widths_nat; exact E2).
      rewrite !ocols_as_oblock, !reblock_cols. rewrite (eqcols_inert _ _ Hd), !map_snd_kcol. reflexivity.
    + (* column by column *)
      rewrite concat_eq_blocks by (rewrite !split_cols_widths; apply const_map_len; exact Hn).
      rewrite !ocols_as_oblock, !split_cols_cols. rewrite (eqcols_inert _ _ Hd), !map_snd_kcol. reflexivity.
Qed.

(* ------------------------------------------------------------------ the mask, as columns *)
Lemma na_cols_vals c bs : na_cols c bs = map (map (isna_cell (m_include_none c))) (map snd (blocks_cols bs)).
Proof. unfold na_cols. rewrite map_map. reflexivity. Qed.

Lemma mask_flat c a b :
  length (tb_vals a) = length (tb_vals b) ->
  (forall n, length (nth n (tb_vals a) []) = length (nth n (tb_vals b) [])) ->
  map2 (map2 andb) (if m_left_other c then na_cols c (tb_blocks b) else na_cols c (tb_blocks a))
                   (if m_right_other c then na_cols c (tb_blocks b) else na_cols c (tb_blocks a))
  = map2 (map2 (gmask c)) (tb_vals a) (tb_vals b).
Proof.
  intros Hl Hn. rewrite !na_cols_vals. fold (tb_cols a) (tb_cols b). fold (tb_vals a) (tb_vals b).
  rewrite (both_2d (m_left_other c) (m_right_other c) (m_include_none c) _ _ Hl Hn). reflexivity.
Qed.

Lemma map2_map2_2d {A B C D E} (h : C -> D -> E) (f : A -> B -> C) (g : A -> B -> D) (a : list (list A)) (b : list (list B)) :
  map2 (map2 h) (map2 (map2 f) a b) (map2 (map2 g) a b) = map2 (map2 (fun x y => h (f x y) (g x y))) a b.
Proof.
  rewrite map2_map2. apply map2_ext_in. intros x y _ _. apply map2_map2.
Qed.

(* ------------------------------------------------------------------ TypeBlocks.equals = specification *)
Theorem tb_refines c o a b :
  tb_dom c o a b = true -> M_tb_equals c o a b = Ok (S_tb_equals o a b).
Proof.
  intro Hd. unfold tb_dom in Hd.
  apply andb_true_iff in Hd as [Hd Hnat]. apply andb_true_iff in Hd as [Hd Hmask].
  apply andb_true_iff in Hd as [Hd Hpos]. apply andb_true_iff in Hd as [Wa Wb].
  unfold M_tb_equals, S_tb_equals, S_tb_content, S_cols_content, tb_ncols, tb_dtypes, opt_req.
  destruct (tb_oid a =? tb_oid b); [reflexivity|]. cbn [orb].
  destruct (tb_rows a =? tb_rows b) eqn:Er; cbn [andb negb]; [|reflexivity].
  destruct (Z.of_nat (length (tb_cols a)) =? Z.of_nat (length (tb_cols b))) eqn:Ec; cbn [andb negb]; [|reflexivity].
  apply Z.eqb_eq in Er. apply Z.eqb_eq in Ec. apply Nat2Z.inj in Ec.
  destruct (o_dtype o && negb (list_eqb dtype_eqb (map fst (tb_cols a)) (map fst (tb_cols b)))) eqn:Edt.
  { apply andb_true_iff in Edt as [E1 E2]. apply negb_true_iff in E2. rewrite E1, E2. cbn. rewrite andb_false_r. reflexivity. }
  destruct (m_zero_ok c && (Z.of_nat (length (tb_cols a)) =? 0)) eqn:Ez.
  { apply andb_true_iff in Ez as [_ Ez]. apply Z.eqb_eq in Ez.
    destruct (tb_cols a) as [|ca ra]; [|cbn in Ez; lia]. destruct (tb_cols b) as [|cb rb]; [|cbn in Ec; discriminate].
    cbn. destruct (o_dtype o); reflexivity. }
  assert (Hpos' : 0 <? Z.of_nat (length (tb_cols a)) = true).
  { unfold tb_ncols in Hpos. destruct (m_zero_ok c); cbn in *; [lia | exact Hpos]. }
  clear Hpos. rename Hpos' into Hpos.
  assert (Hvl : length (tb_vals a) = length (tb_vals b)) by (rewrite !tb_vals_len; exact Ec).
  assert (Hrect : forall n, length (nth n (tb_vals a) []) = length (nth n (tb_vals b) [])).
  { apply (rect_nth (tb_rows a)); [apply tb_wf_rect; exact Wa | rewrite Er; apply tb_wf_rect; exact Wb | exact Hvl]. }
  pose proof (eq_flat a b Wa Wb Ec Hnat) as Hf.
  destruct (operands (tb_blocks a) (tb_blocks b)) as [xa xb]. cbv zeta.
  destruct (map2 eq_block xa xb) as [|e es] eqn:Eq.
  { exfalso. cbn in Hf. apply (f_equal (@length _)) in Hf. rewrite map2_length in Hf by exact Hvl.
    cbn in Hf. rewrite <- tb_vals_len, <- Hf in Hpos. cbn in Hpos. discriminate. }
  rewrite fill_go_flat, Hf. cbn [skipn]. rewrite (mask_flat c a b Hvl Hrect).
  assert (Hcells : forallb all_true
            (if o_skipna o
             then map2 (map2 orb) (map2 (map2 py_eq) (tb_vals a) (tb_vals b)) (map2 (map2 (gmask c)) (tb_vals a) (tb_vals b))
             else map2 (map2 py_eq) (tb_vals a) (tb_vals b))
          = list_eqb (col_eq (o_skipna o)) (tb_cols a) (tb_cols b)).
  { unfold col_eq. rewrite <- (list_eqb_map (list_eqb (cell_eq (o_skipna o))) snd). fold (tb_vals a) (tb_vals b).
    unfold mask_dom in Hmask. destruct (o_skipna o); cbn in Hmask.
    - rewrite map2_map2_2d, forallb_all_true_map2 by assumption.
      apply (list_eqb2_mask _ _ _ _ _ Hmask). intros x y Hxy.
      rewrite <- (mask_cell c true x y (or_intror Hxy)). reflexivity.
    - rewrite forallb_all_true_map2 by assumption.
      apply list_eqb_ext_in. intros ca cb _ _. apply list_eqb_ext_in. intros x y _ _.
      unfold cell_eq. rewrite orb_false_r. reflexivity. }
  rewrite Hcells. cbn [andb].
  destruct (o_dtype o), (list_eqb dtype_eqb (map fst (tb_cols a)) (map fst (tb_cols b))); cbn in *;
    rewrite ?andb_true_r; try reflexivity; discriminate.
Qed.

(* with the mask the property asks for, the mask guard is void *)
Lemma mask_dom_correct sk a b : mask_dom mcfg_correct sk a b = true.
Proof.
  unfold mask_dom. destruct sk; [|reflexivity]. cbn [negb orb].
  revert b. induction a as [|x xs IH]; intros [|y ys]; cbn; try reflexivity.
  rewrite IH, andb_true_r. revert y. induction x as [|u us IHx]; intros [|v vs]; cbn; try reflexivity.
  rewrite IHx, andb_true_r. unfold gmask, isna_cell. cbn. rewrite !orb_false_r. apply Bool.eqb_reflx.
Qed.

(* equals does not depend on the block layout of either operand *)
Theorem tb_layout_independent c o a b a' b' :
  tb_dom c o a b = true -> tb_dom c o a' b' = true ->
  tb_cols a = tb_cols a' -> tb_cols b = tb_cols b' -> tb_rows a = tb_rows a' -> tb_rows b = tb_rows b' ->
  (tb_oid a =? tb_oid b) = (tb_oid a' =? tb_oid b') ->
  M_tb_equals c o a b = M_tb_equals c o a' b'.
Proof.
  intros H1 H2 Ca Cb Ra Rb Ho. rewrite (tb_refines _ _ _ _ H1), (tb_refines _ _ _ _ H2).
  unfold S_tb_equals, S_tb_content. rewrite Ca, Cb, Ra, Rb, Ho. reflexivity.
Qed.

(* ------------------------------------------------------------------ Frame.equals *)
Theorem frame_refines cs o a b :
  frame_dom cs o a b = true -> M_frame_equals cs o a b = Ok (S_frame_equals o a b).
Proof.
  intro Hd. unfold frame_dom in Hd.
  apply andb_true_iff in Hd as [Hd Hc]. apply andb_true_iff in Hd as [Hd Hi]. apply andb_true_iff in Hd as [Ht Hs].
  unfold M_frame_equals, S_frame_equals, S_frame_content, name_ne, opt_req.
  destruct (ef_oid a =? ef_oid b); [reflexivity|]. cbn [orb].
  rewrite (tb_refines _ _ _ _ Ht). cbn [res_bind].
  destruct (ef_index a) as [ia|ha], (ef_index b) as [ib|hb]; cbn [axis_dom] in Hi; try discriminate.
  destruct (ef_columns a) as [ca|hca], (ef_columns b) as [cb|hcb]; cbn [axis_dom] in Hc; try discriminate.
  cbn [M_axis_equals S_axis_content res_bind].
  rewrite (index_refines_nested cs o ia ib Hi), (index_refines_nested cs o ca cb Hc).
  unfold S_tb_equals. unfold S_tb_content, S_cols_content, tb_ncols in *.
  destruct (tb_oid (ef_blocks a) =? tb_oid (ef_blocks b)), (o_class o), (ef_cls a =? ef_cls b),
    (tb_rows (ef_blocks a) =? tb_rows (ef_blocks b)),
    (Z.of_nat (length (tb_cols (ef_blocks a))) =? Z.of_nat (length (tb_cols (ef_blocks b)))),
    (o_name o), (py_eq (ef_name a) (ef_name b)),
    (list_eqb (col_eq (o_skipna o)) (tb_cols (ef_blocks a)) (tb_cols (ef_blocks b))),
    (opt_req (o_dtype o) (list_eqb dtype_eqb (map fst (tb_cols (ef_blocks a))) (map fst (tb_cols (ef_blocks b))))),
    (S_index_content o ia ib), (S_index_content o ca cb); cbn in *; try reflexivity; try discriminate.
Qed.

(* ------------------------------------------------------------------ Bus.equals *)
Lemma frames_refine cs o fa fb :
  length fa = length fb -> all_true (map2 (frame_dom cs o) fa fb) = true ->
  M_frames_equal cs o fa fb = Ok (list_eqb (S_frame_equals o) fa fb).
Proof.
  revert fb. induction fa as [|x xs IH]; intros [|y ys] Hl Hd; cbn in *; try discriminate; [reflexivity|].
  apply andb_true_iff in Hd as [H1 H2]. rewrite (frame_refines cs o x y H1). cbn [res_bind].
  destruct (S_frame_equals o x y); cbn; [apply IH; [congruence | exact H2] | reflexivity].
Qed.

Theorem bus_refines cs o a b :
  bus_dom cs o a b = true -> M_bus_equals cs o a b = Ok (S_bus_equals o a b).
Proof.
  intro Hd. unfold bus_dom in Hd. apply andb_true_iff in Hd as [Hi Hf].
  unfold M_bus_equals, S_bus_equals, name_ne, opt_req.
  destruct (eb_oid a =? eb_oid b); [reflexivity|]. cbn [orb].
  destruct (eb_index a) as [ia|ha], (eb_index b) as [ib|hb]; cbn [axis_dom] in Hi; try discriminate.
  cbn [M_axis_equals S_axis_content res_bind]. rewrite (index_refines_nested cs o ia ib Hi).
  destruct (Z.of_nat (length (eb_frames a)) =? Z.of_nat (length (eb_frames b))) eqn:El.
  - apply Z.eqb_eq in El. apply Nat2Z.inj in El. rewrite (frames_refine cs o _ _ El Hf).
    destruct (o_class o), (eb_cls a =? eb_cls b), (o_name o), (py_eq (eb_name a) (eb_name b)),
      (S_index_content o ia ib), (list_eqb (S_frame_equals o) (eb_frames a) (eb_frames b)); reflexivity.
  - assert (list_eqb (S_frame_equals o) (eb_frames a) (eb_frames b) = false) as ->.
    { apply list_eqb_false_length. intro H. rewrite H, Z.eqb_refl in El. discriminate. }
    destruct (o_class o), (eb_cls a =? eb_cls b), (o_name o), (py_eq (eb_name a) (eb_name b)),
      (S_index_content o ia ib); reflexivity.
Qed.

(* ------------------------------------------------------------------ the guards are satisfiable (non-trivial instances) *)
(* NaN on both sides, a 1-D + 2-D layout against one 2-D block (reblock path), skipna, the mask of the current code *)
Example tb_dom_example :
  let a := mk_etb 1 2 [(DFlt 8, [[VNaN; VFlt 1 1]]); (DFlt 8, [[VFlt 3 2; VNaN]; [VInt 0; VInt 1]])] in
  let b := mk_etb 2 2 [(DFlt 8, [[VNaN; VFlt 1 1]; [VFlt 3 2; VNaN]; [VInt 0; VInt 1]])] in
  tb_dom (mk_mcfg false false false false) (mk_eopts false false false true) a b = true /\
  M_tb_equals (mk_mcfg false false false false) (mk_eopts false false false true) a b = Ok true.
Proof. split; reflexivity. Qed.

(* the column-by-column path (layouts neither block- nor reblock-compatible) *)
Example tb_dom_example_columns :
  let a := mk_etb 1 1 [(DDt UD, [[VDt UD 18262]]); (DInt true 8, [[VInt 1]]); (DFlt 8, [[VFlt 3 2]])] in
  let b := mk_etb 2 1 [(DDt UD, [[VDt UD 18262]]); (DFlt 8, [[VInt 1]; [VFlt 3 2]])] in
  tb_path (tb_blocks a) (tb_blocks b) = PColumns /\
  tb_dom (mk_mcfg false false false false) (mk_eopts false false false false) a b = true.
Proof. split; reflexivity. Qed.

(* with the correct mask the implementation model itself is symmetric *)
Lemma tb_impl_sym o a b :
  tb_wf a && tb_wf b && nat_dom a b = true -> tb_wf b && tb_wf a && nat_dom b a = true ->
  M_tb_equals mcfg_correct o a b = M_tb_equals mcfg_correct o b a.
Proof.
  intros H1 H2.
  assert (D : forall x y, tb_wf x && tb_wf y && nat_dom x y = true -> tb_dom mcfg_correct o x y = true).
  { intros x y H. unfold tb_dom. apply andb_prop in H as [Hw Hn]. rewrite Hw, Hn, mask_dom_correct. reflexivity. }
  rewrite (tb_refines _ _ _ _ (D _ _ H1)), (tb_refines _ _ _ _ (D _ _ H2)).
  unfold S_tb_equals. rewrite (Z.eqb_sym (tb_oid a)), (S_tb_content_sym o a b). reflexivity.
Qed.

(* the guards of the source's own configuration do not mention layouts: the answer depends on the columns only *)
Lemma tb_layout_independent_correct o a b a' b' :
  tb_wf a && tb_wf b && tb_wf a' && tb_wf b' = true -> nat_dom a b = true ->
  tb_cols a = tb_cols a' -> tb_cols b = tb_cols b' -> tb_rows a = tb_rows a' -> tb_rows b = tb_rows b' ->
  (tb_oid a =? tb_oid b) = (tb_oid a' =? tb_oid b') ->
  M_tb_equals mcfg_correct o a b = M_tb_equals mcfg_correct o a' b'.
Proof.
  intros W Hn Ca Cb Ra Rb Ho.
  apply andb_prop in W as [W Wb']. apply andb_prop in W as [W Wa']. apply andb_prop in W as [Wa Wb].
  assert (Hn' : nat_dom a' b' = true) by (unfold nat_dom in *; rewrite <- Ca, <- Cb; exact Hn).
  apply tb_layout_independent; try assumption; unfold tb_dom;
    rewrite ?Wa, ?Wb, ?Wa', ?Wb', ?Hn, ?Hn', mask_dom_correct; reflexivity.
Qed.
