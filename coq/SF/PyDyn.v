(* Dynamic Python value universe for kernels regenerated from /repo by tools/sfv/py2v.py.
   Every operation is total; a Python exception is the value PErr <class name>, which every
   operation propagates.  The translator maps Python syntax 1:1 onto these operations. *)
Require Import SF.Prelude SF.PySlice SF.Dtype.

Inductive pv :=
| PNone
| PInt (z : Z)
| PBool (b : bool)
| PStr (s : string)
| PSlice (a b c : pv)
| PSeq (l : list pv)            (* tuple or list *)
| PDtype (d : dtype)
| PConst (name : string)     (* opaque named constant: nan, NaT, td0 *)
| PErr (e : string).

Definition is_err (v : pv) : bool := match v with PErr _ => true | _ => false end.

(* bool(v): None for a propagated exception *)
Definition truth (v : pv) : option bool :=
  match v with
  | PNone => Some false
  | PInt z => Some (negb (z =? 0))
  | PBool b => Some b
  | PStr s => Some (negb (String.eqb s ""))
  | PSlice _ _ _ => Some true
  | PSeq l => Some (match l with [] => false | _ => true end)
  | PDtype _ => Some true
  | PConst _ => Some true
  | PErr _ => None
  end.

(* `if c: a else: b` with exception propagation from the test *)
Definition py_if (c a b : pv) : pv :=
  match truth c with Some true => a | Some false => b | None => c end.

(* numeric view: bool is an int *)
Definition as_int (v : pv) : option Z :=
  match v with PInt z => Some z | PBool b => Some (if b then 1 else 0) | _ => None end.

Definition first_err (a b : pv) (k : pv) : pv :=
  match a, b with PErr e, _ => PErr e | _, PErr e => PErr e | _, _ => k end.

Definition arith (f : Z -> Z -> pv) (a b : pv) : pv :=
  first_err a b
    (match as_int a, as_int b with
     | Some x, Some y => f x y
     | _, _ => PErr "TypeError"
     end).

Definition py_add := arith (fun x y => PInt (x + y)).
Definition py_sub := arith (fun x y => PInt (x - y)).
Definition py_mul := arith (fun x y => PInt (x * y)).
Definition py_floordiv := arith (fun x y => if y =? 0 then PErr "ZeroDivisionError" else PInt (x / y)).
Definition py_mod := arith (fun x y => if y =? 0 then PErr "ZeroDivisionError" else PInt (x mod y)).
(* division once the divisor is known to be non-zero (the translator hoists the zero test) *)
Definition py_floordiv_nz := arith (fun x y => PInt (x / y)).
Definition py_mod_nz := arith (fun x y => PInt (x mod y)).
Definition py_min := arith (fun x y => PInt (Z.min x y)).
Definition py_max := arith (fun x y => PInt (Z.max x y)).
Definition py_lt := arith (fun x y => PBool (x <? y)).
Definition py_le := arith (fun x y => PBool (x <=? y)).
Definition py_gt := arith (fun x y => PBool (x >? y)).
Definition py_ge := arith (fun x y => PBool (x >=? y)).

Definition py_abs (a : pv) : pv :=
  match a with PErr e => PErr e | _ =>
    match as_int a with Some x => PInt (Z.abs x) | None => PErr "TypeError" end end.
Definition py_neg (a : pv) : pv :=
  match a with PErr e => PErr e | _ =>
    match as_int a with Some x => PInt (- x) | None => PErr "TypeError" end end.

Definition py_not (a : pv) : pv :=
  match truth a with Some b => PBool (negb b) | None => a end.

Definition py_is_none (a : pv) : pv :=
  match a with PErr e => PErr e | PNone => PBool true | _ => PBool false end.
Definition py_is_not_none (a : pv) : pv := py_not (py_is_none a).

(* == : total structural equality with int/bool identification *)
Fixpoint pv_eqb (a b : pv) : bool :=
  match a, b with
  | PNone, PNone => true
  | (PInt _ | PBool _), (PInt _ | PBool _) =>
      match as_int a, as_int b with Some x, Some y => x =? y | _, _ => false end
  | PStr s, PStr t => String.eqb s t
  | PSlice a1 b1 c1, PSlice a2 b2 c2 => pv_eqb a1 a2 && pv_eqb b1 b2 && pv_eqb c1 c2
  | PSeq l1, PSeq l2 =>
      (fix go (x y : list pv) : bool :=
         match x, y with
         | [], [] => true
         | u :: us, v :: vs => pv_eqb u v && go us vs
         | _, _ => false
         end) l1 l2
  | PDtype d1, PDtype d2 => dtype_eqb d1 d2
  | PConst c1, PConst c2 => String.eqb c1 c2
  | PErr e1, PErr e2 => String.eqb e1 e2
  | _, _ => false
  end.

Definition is_const (v : pv) : bool := match v with PConst _ => true | _ => false end.
(* == on opaque constants (nan, NaT) is outside the model *)
Definition py_eq (a b : pv) : pv :=
  first_err a b (if is_const a || is_const b then PErr "unmodelled" else PBool (pv_eqb a b)).
Definition py_ne (a b : pv) : pv :=
  first_err a b (if is_const a || is_const b then PErr "unmodelled" else PBool (negb (pv_eqb a b))).

(* x in (constant tuple) *)
Definition py_in (a : pv) (t : pv) : pv :=
  first_err a t
    (match t with
     | PSeq l => PBool (existsb (pv_eqb a) l)
     | PStr s =>   (* `kind in 'M'` : substring test; only single-character needles are modelled *)
         match a with
         | PStr x => if (String.length x =? 1)%nat
                     then PBool (match index 0 x s with Some _ => true | None => false end)
                     else PErr "unmodelled"
         | _ => PErr "TypeError"
         end
     | _ => PErr "TypeError"
     end).

(* attribute loads *)
Definition py_attr (name : string) (v : pv) : pv :=
  match v with
  | PErr e => PErr e
  | PSlice a b c =>
      if String.eqb name "start" then a else if String.eqb name "stop" then b
      else if String.eqb name "step" then c else PErr "AttributeError"
  | PDtype d =>
      if String.eqb name "kind" then PStr (dtype_kind d) else PErr "AttributeError"
  | _ => PErr "AttributeError"
  end.

Definition py_slice (a b c : pv) : pv :=
  match a, b, c with
  | PErr e, _, _ | _, PErr e, _ | _, _, PErr e => PErr e
  | _, _, _ => PSlice a b c
  end.

Definition py_len (v : pv) : pv :=
  match v with
  | PErr e => PErr e
  | PSeq l => PInt (Z.of_nat (length l))
  | PStr s => PInt (Z.of_nat (String.length s))
  | _ => PErr "TypeError"
  end.

(* seq[i] with Python negative indexing *)
Definition py_index (v i : pv) : pv :=
  first_err v i
    (match v, as_int i with
     | PSeq l, Some k => match py_nth l k with Some x => x | None => PErr "IndexError" end
     | _, _ => PErr "TypeError"
     end).

(* a, b, c = v : element i of a sequence of exactly n elements *)
Definition py_unpack (n : Z) (v : pv) (i : Z) : pv :=
  match v with
  | PErr e => PErr e
  | PSeq l => if Nat.eqb (length l) (Z.to_nat n)
              then match nth_error l (Z.to_nat i) with Some x => x | None => PErr "ValueError" end
              else PErr "ValueError"
  | _ => PErr "TypeError"
  end.

(* slice.indices(size) *)
Definition py_slice_indices (k size : pv) : pv :=
  first_err k size
    (match k, as_int size with
     | PSlice a b c, Some n =>
         match (match a with PNone => Some None | PInt z => Some (Some z) | _ => None end),
               (match b with PNone => Some None | PInt z => Some (Some z) | _ => None end),
               (match c with PNone => Some None | PInt z => Some (Some z) | _ => None end) with
         | Some x, Some y, Some z =>
             if n <? 0 then PErr "ValueError" else
             match slice_indices (mk_slice x y z) n with
             | Some (s0, s1, s2) => PSeq [PInt s0; PInt s1; PInt s2]
             | None => PErr "ValueError"
             end
         | _, _, _ => PErr "TypeError"
         end
     | _, _ => PErr "TypeError"
     end).

(* `dt.type is np.bool_` *)
Definition py_dtype_is_bool (v : pv) : pv :=
  match v with
  | PErr e => PErr e
  | PDtype DBool => PBool true
  | PDtype _ => PBool false
  | _ => PErr "AttributeError"
  end.

Definition py_isinstance_dtype (v : pv) : pv :=
  match v with PErr e => PErr e | PDtype _ => PBool true | _ => PBool false end.
(* np.dtype(x) for a non-dtype specifier: outside the model *)
Definition py_np_dtype (v : pv) : pv :=
  match v with PErr e => PErr e | PDtype d => PDtype d | _ => PErr "unmodelled" end.

(* np.result_type on two dtypes through the oracle model *)
Definition py_result_type (a b : pv) : pv :=
  first_err a b
    (match a, b with
     | PDtype d1, PDtype d2 =>
         match np_result_type d1 d2 with Ok d => PDtype d | Err e => PErr e end
     | _, _ => PErr "TypeError"
     end).

(* try: v  except <cls>: h *)
Definition py_try (v : pv) (cls : string) (h : pv) : pv :=
  match v with
  | PErr e => if String.eqb e cls then h else v
  | _ => v
  end.

(* typed embeddings used by the theorems *)
Definition of_oz (o : option Z) : pv := match o with None => PNone | Some z => PInt z end.
Definition of_slice (s : slice) : pv := PSlice (of_oz (s_start s)) (of_oz (s_stop s)) (of_oz (s_step s)).
Definition to_oz (v : pv) : option (option Z) :=
  match v with PNone => Some None | PInt z => Some (Some z) | PBool b => Some (Some (if b then 1 else 0)) | _ => None end.
Definition to_slice (v : pv) : option slice :=
  match v with
  | PSlice a b c =>
      match to_oz a, to_oz b, to_oz c with
      | Some x, Some y, Some z => Some (mk_slice x y z)
      | _, _, _ => None
      end
  | _ => None
  end.
Definition of_zlist (l : list Z) : pv := PSeq (map PInt l).
