(* C04 -- datetime-typed indices (IndexDate, IndexYearMonth, IndexYear): keys of the label's own unit are
   labels; keys of a COARSER unit (a 'YYYY-MM' / 'YYYY' string, a month or year datetime64) denote a
   period and select every label inside it.  Specification only (index_datetime.py:107-122,
   util.py:1154-1186, index.py:131-175 are compared with it through the public interface).

   ORACLE: np.datetime64 unit conversion D -> M -> Y (swept against NumPy by the check). *)
Require Import SF.Prelude SF.PySlice SF.Dtype SF.Value SF.Blocks SF.Select.

(* days since 1970-01-01 -> months since 1970-01 (proleptic Gregorian, civil-from-days) *)
Definition months_of_days (d : Z) : Z :=
  let z := d + 719468 in
  let era := z / 146097 in
  let doe := z - era * 146097 in
  let yoe := (doe - doe / 1460 + doe / 36524 - doe / 146096) / 365 in
  let y := yoe + era * 400 in
  let doy := doe - (365 * yoe + yoe / 4 - yoe / 100) in
  let mp := (5 * doy + 2) / 153 in
  let m := if mp <? 10 then mp + 3 else mp - 9 in
  let y' := if m <=? 2 then y + 1 else y in
  (y' - 1970) * 12 + (m - 1).

Definition conv_unit (from to : tunit) (z : Z) : option Z :=
  match from, to with
  | UD, UD | UM, UM | UY, UY => Some z
  | UD, UM => Some (months_of_days z)
  | UD, UY => Some (months_of_days z / 12)
  | UM, UY => Some (z / 12)
  | _, _ => None
  end.

Definition in_period (u : tunit) (c : Z) (v : val) : bool :=
  match v with
  | VDt lu z => match conv_unit lu u z with Some x => x =? c | None => false end
  | _ => false
  end.

(* one end of a slice: a label of the index's own unit, or a period *)
Inductive dend := EL (v : val) | EP (u : tunit) (c : Z).

Inductive dkey :=
| DKey (k : lkey val)                         (* keys of the label's own unit: ordinary label keys *)
| DPeriod (u : tunit) (c : Z)                 (* one period: every label inside it *)
| DPeriods (u : tunit) (cs : list Z)          (* several periods (array / list of coarser keys) *)
| DSlice (a b : option dend) (st : option Z). (* from the first label of a through the last label of b *)

Definition first_in (u : tunit) (c : Z) (labels : list val) : option val := find (in_period u c) labels.
Definition last_in (u : tunit) (c : Z) (labels : list val) : option val := find (in_period u c) (rev labels).

(* Some None: no end; Some (Some l): that label; None: an empty period (LocEmpty) *)
Definition end_label (first : bool) (labels : list val) (e : option dend) : option (option val) :=
  match e with
  | None => Some None
  | Some (EL v) => Some (Some v)
  | Some (EP u c) => match (if first then first_in u c labels else last_in u c labels) with
                     | Some l => Some (Some l)
                     | None => None
                     end
  end.

Definition S_loc_dt (labels : list val) (k : dkey) : res sel :=
  match k with
  | DKey k' => S_loc val_eqb labels k'
  | DPeriod u c => Ok (SMany (mask_positions (map (in_period u c) labels) 0))
  | DPeriods u cs =>   (* in KEY order: the labels of the first period, then those of the second, ... *)
      Ok (SMany (concat (map (fun c => mask_positions (map (in_period u c) labels) 0) cs)))
  | DSlice a b st =>
      match end_label true labels a, end_label false labels b with
      | Some la, Some lb => S_loc val_eqb labels (LSlice la lb st)
      | _, _ => Ok (SMany [])
      end
  end.

Definition Ssd (s : sseries val val) (k : dkey) : res (xres val val) :=
  rs <- S_loc_dt (ss_index s) k;; S_series_sel val_eqb s rs.

(* a Series whose datetime labels sit at one LEVEL of a hierarchical index (HLoc[..., key]): plabels = that level's label per
   row; a per-level selection keeps the order of the hierarchy: the rows whose level label lies inside one of the periods *)
Definition Ssd_by (s : sseries val val) (plabels : list val) (u : tunit) (cs : list Z) : res (xres val val) :=
  S_series_sel val_eqb s (SMany (mask_positions (map (fun l => existsb (fun c => in_period u c l) cs) plabels) 0)).

(* Frame with a datetime axis: the other axis takes an ordinary label key *)
Definition Sxd (rdt : list dtype -> dtype) (f : mframe val val) (rows_dt : bool) (dk : dkey) (ok : lkey val) : res (xres val val) :=
  let sf_ := abs_frame f in
  cs <- (if rows_dt then S_loc val_eqb (sf_columns sf_) ok else S_loc_dt (sf_columns sf_) dk);;
  rs <- (if rows_dt then S_loc_dt (sf_index sf_) dk else S_loc val_eqb (sf_index sf_) ok);;
  S_extract_sel val_eqb rdt sf_ rs cs.
