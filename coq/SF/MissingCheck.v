(* C14 -- MODEL side of the glue (the specification side is SF/MissingSpecCheck.v, which this file re-exports) used by the generated correspondence cases (tools/sfv/props/c14.py): each chk_* is a bool saying
   "model / specification applied to the observed input == observed output".  No proofs here. *)
Require Import SF.Prelude SF.Value SF.Dtype SF.PyDyn Gen.Gen_util Gen.Gen_c14 SF.Missing.
Require Export SF.MissingSpecCheck.
Require Import SF.MissingFill.

(* ---- util.isna_array, per element, driven by the REGENERATED kind constants of util.py ---- *)
Definition kind_in (k : string) (c : pv) : bool :=
  match c with PSeq l => existsb (pv_eqb (PStr k)) l | _ => false end.

Definition M_isna_elem (kind : string) (v : val) : bool :=
  if kind_in kind DTYPE_INEXACT_KINDS then (match v with VNaN => true | _ => false end)       (* np.isnan *)
  else if kind_in kind DTYPE_NAT_KINDS then (match v with VNaT => true | _ => false end)       (* np.isnat *)
  else if negb (String.eqb kind "O"%string) then false
  else negb (py_val_eq v v) || (match v with VNone => true | _ => false end).                  (* a != a | a == None *)

(* what an array of that kind can hold (as far as missing markers are concerned) *)
Definition kind_holds (kind : string) (v : val) : bool :=
  if String.eqb kind "O"%string then true
  else if String.eqb kind "f"%string || String.eqb kind "c"%string then (match v with VNone | VNaT => false | _ => true end)
  else if String.eqb kind "M"%string || String.eqb kind "m"%string then (match v with VNone | VNaN => false | _ => true end)
  else negb (isna v).

(* ---- kernels ---- *)
Definition chk_bt (sel : list bool) (out : list Z) : bool := zlist_eqb (M_binary_transition sel) out.

Definition triple_eqb (a b : Z * Z * Z) : bool :=
  (fst (fst a) =? fst (fst b)) && (snd (fst a) =? snd (fst b)) && (snd a =? snd b).
Definition chk_sft (ts vs : list Z) (n : Z) (fwd : bool) (limit : Z) (sel : list bool) (out : list (Z * Z * Z)) : bool :=
  list_eqb triple_eqb (M_slices_from_targets ts vs n fwd limit (znth false sel)) out.

(* ---- one line (Series, or one column / row) ---- *)
Definition chk_isna_M (kind : string) (inp : list val) (out : list bool) : bool := blist_eqb (map (M_isna_elem kind) inp) out.
Definition chk_dir1d_M fwd limit (inp out : list val) : bool := cells_match (M_dir1d fwd limit (cells_of inp)) out.
Definition chk_sided1d_M leading (v : val) (inp out : list val) : bool := cells_match (M_sided1d leading v (cells_of inp)) out.
(* ---- frames: cols = the columns (values down the rows) ---- *)
Definition chk_dir_axis1_M fwd limit (nrows : nat) (layout : list (nat * bool)) (cols out : list (list val)) : bool :=
  lines_match (M_dir_axis1 bwd_count_from_first fwd limit nrows (blocks_of_columns nrows layout (map cells_of cols))) (transpose nrows out).
Definition chk_dir_axis0_M fwd limit (cols out : list (list val)) : bool :=
  lines_match (map (fun c => M_dir1d fwd limit (cells_of c)) cols) out.
Definition chk_sided_axis1_M leading (v : val) (nrows : nat) (layout : list (nat * bool)) (cols out : list (list val)) : bool :=
  lines_match (M_sided_axis1 leading v nrows (blocks_of_columns nrows layout (map cells_of cols))) (transpose nrows out).
Definition chk_sided_axis0_M leading (v : val) (cols out : list (list val)) : bool :=
  lines_match (map (fun c => M_sided1d leading v (cells_of c)) cols) out.
Definition chk_isna_frame_M (kinds : list string) (cols : list (list val)) (out : list (list bool)) : bool :=
  list_eqb blist_eqb (map (fun p => map (M_isna_elem (fst p)) (snd p)) (combine kinds cols)) out &&
  Nat.eqb (length kinds) (length cols).
(* M: TypeBlocks.dropna_to_keep_locations: the isna blocks are consolidated into ONE Boolean array; it is 2-D unless the frame
   is a single 1-D block (single1d), in which case the pinned code (reshaped = false, read from the source: Gen/Gen_c14.v)
   uses the per-row vector itself whatever the axis; otherwise the
   condition (all / any) is applied along the other axis; then logical_not *)
Definition M_dropna_keep (reshaped : bool) (axis1 use_any : bool) (nrows : nat) (single1d : bool) (isna_cols : list (list bool)) : list bool :=
  if single1d && negb reshaped then map negb (match isna_cols with c :: _ => c | [] => [] end)
  else map (fun ln => negb (if use_any then existsb (fun b => b) ln else forallb (fun b => b) ln))
           (if axis1 then isna_cols else transpose nrows isna_cols).

Definition chk_dropna_keep_M (axis1 use_any : bool) (nrows : nat) (single1d : bool) (cols : list (list val)) (out : list bool) : bool :=
  blist_eqb (M_dropna_keep dropna_1d_reshaped axis1 use_any nrows single1d (map (map isna) cols)) out.
(* Series.fillna(Series): the label-restricted fill; fillv = util.dtype_to_fill_value(other.dtype) as observed *)
Definition chk_fillna_labels_M (fillv : val) (labels inp : list val) (olabels ovals : list val) (out : list val) : bool :=
  cells_match (M_fillna_series py_val_eq (cell_of fillv) labels (cells_of inp) (combine olabels (cells_of ovals))) out.
