(* C16 -- the structural exports of one Frame (to_pairs, rows for from_records / from_dict_records, items) and
   pickle: executable models, no proofs.
   static-frame anchors: Frame.to_pairs frame.py:6280-6299; from_items 906-990 (one array per pair, dtype from
   the values: iterable_to_array_1d); from_records / from_records_items / from_dict_records 606-905 (rows are
   transposed into columns, one array per column, dtype from the values); __setstate__ type_blocks.py:286-297,
   index.py:479-485. *)
Require Import SF.Prelude SF.Value SF.Codec.

(* dtype kind NumPy / iterable_to_array_1d gives a homogeneous Python sequence of the modelled scalars *)
Definition is_flt (v : val) : bool := match v with VFlt _ _ | VNaN | VInf _ => true | _ => false end.
Definition kind_of_values (vs : list val) : kind :=
  if forallb (fun v => match v with VBool _ => true | _ => false end) vs then KBool
  else if forallb (fun v => match v with VInt _ => true | _ => false end) vs then KInt
  else if forallb is_flt vs then KFlt
  else if forallb (fun v => match v with VStr _ => true | _ => false end) vs then KStr
  else KObj.

Notation label := (list val) (only parsing).

(* ---- to_pairs(0): ((column label, ((index label, value), ...)), ...) ---- *)
Definition M_to_pairs0 (f : tframe) : list (label * list (label * val)) :=
  combine (tf_columns f) (map (fun col => combine (tf_index f) (snd col)) (tf_cols f)).

(* Frame.from_items(((k, [v for _, v in col]) for k, col in pairs), index=[i for i, _ in pairs[0][1]]) *)
Definition M_from_pairs0 (p : list (label * list (label * val))) : tframe :=
  mk_tframe (map fst (snd (hd ([], []) p))) (map fst p)
            (map (fun kv => let vs := map snd (snd kv) in (kind_of_values vs, vs)) p).

(* ---- rows: TypeBlocks.axis_values(1) yields every row as ONE array of the resolved row dtype.  With int and
   float columns only (no bool / str / object column) that dtype is float64: the ints of the row are floats.
   (exact for |z| <= 2^53; beyond, NumPy rounds -- not modelled, the harness makes no claim there) ---- *)
Definition numeric_mix (f : tframe) : bool :=
  forallb (fun col => match fst col with KInt | KFlt => true | _ => false end) (tf_cols f) &&
  existsb (fun col => kind_eqb (fst col) KInt) (tf_cols f) &&
  existsb (fun col => kind_eqb (fst col) KFlt) (tf_cols f).
Definition coerce_row_val (v : val) : val := match v with VInt z => VFlt z 1 | _ => v end.

(* [coerced]: the rows are exported as float64 arrays.  A Frame built in one step resolves its row dtype from all
   blocks (numeric_mix); a FrameGO grown block by block (TypeBlocks.append, type_blocks.py:3222-3227) keeps the
   dtype of the first block while every later block has exactly that dtype and switches to object otherwise --
   so a grown Frame with columns of different dtypes exports its rows uncoerced. *)
Definition M_rows_gen (coerced : bool) (f : tframe) : list (list val) :=
  let rows := rows_of VNone (nrows f) (map snd (tf_cols f)) in
  if coerced then map (map coerce_row_val) rows else rows.
Definition M_rows (f : tframe) : list (list val) := M_rows_gen (numeric_mix f) f.

(* ---- to_pairs(1): ((index label, ((column label, value), ...)), ...) ---- *)
Definition M_to_pairs1_gen (coerced : bool) (f : tframe) : list (label * list (label * val)) :=
  combine (tf_index f) (map (combine (tf_columns f)) (M_rows_gen coerced f)).
Definition M_to_pairs1 (f : tframe) : list (label * list (label * val)) := M_to_pairs1_gen (numeric_mix f) f.

(* rows -> one array per column (from_records and friends) *)
Definition columns_of_rows (nc : nat) (rows : list (list val)) : list (kind * list val) :=
  map (fun vs => (kind_of_values vs, vs)) (cols_of VNone nc rows).

(* Frame.from_records_items(((i, [v for _, v in row]) for i, row in pairs), columns=[c for c, _ in pairs[0][1]]) *)
Definition M_from_pairs1 (p : list (label * list (label * val))) : tframe :=
  let columns := map fst (snd (hd ([], []) p)) in
  mk_tframe (map fst p) columns (columns_of_rows (length columns) (map (fun kv => map snd (snd kv)) p)).

(* Frame.from_records(rows, index=f.index, columns=f.columns) *)
Definition M_from_records (index columns : list label) (rows : list (list val)) : tframe :=
  mk_tframe index columns (columns_of_rows (length columns) rows).

(* domain of the structural round trips: rectangular, at least one row and one column, and every column's
   dtype kind is the one its values determine (an object column of only strings, say, is not) *)
Definition struct_dom (f : tframe) : bool :=
  Nat.leb 1 (nrows f) && Nat.leb 1 (length (tf_cols f)) &&
  Nat.eqb (length (tf_columns f)) (length (tf_cols f)) &&
  forallb (fun col => Nat.eqb (length (snd col)) (nrows f)) (tf_cols f) &&
  forallb (fun col => kind_eqb (fst col) (kind_of_values (snd col))) (tf_cols f).

(* ---- pickle: the state of every array-holding component is (content, writeable flag) ---- *)
Record parray := mk_parray { pa_values : list val; pa_writeable : bool }.
Record pframe := mk_pframe {
  pf_blocks : list parray;         (* TypeBlocks._blocks *)
  pf_index_labels : parray;        (* Index._labels *)
  pf_index_positions : parray;     (* Index._positions *)
  pf_columns_labels : parray;
  pf_columns_positions : parray;
  pf_names : list val              (* frame, index, columns names *)
}.
(* oracle: pickle.loads(pickle.dumps(x)) rebuilds every ndarray with the same content, writeable *)
Definition pickle_array (a : parray) : parray := mk_parray (pa_values a) true.
Definition set_readonly (a : parray) : parray := mk_parray (pa_values a) false.
(* static-frame: TypeBlocks.__setstate__ freezes the blocks, Index.__setstate__ freezes _labels and _positions *)
Definition M_unpickle (f : pframe) : pframe :=
  mk_pframe (map (fun b => set_readonly (pickle_array b)) (pf_blocks f))
            (set_readonly (pickle_array (pf_index_labels f))) (set_readonly (pickle_array (pf_index_positions f)))
            (set_readonly (pickle_array (pf_columns_labels f))) (set_readonly (pickle_array (pf_columns_positions f)))
            (pf_names f).
Definition pframe_content (f : pframe) : list (list val) * list val :=
  (map pa_values (pf_blocks f) ++ [pa_values (pf_index_labels f); pa_values (pf_index_positions f);
                                   pa_values (pf_columns_labels f); pa_values (pf_columns_positions f)], pf_names f).
Definition data_readonly (f : pframe) : bool :=
  forallb (fun b => negb (pa_writeable b)) (pf_blocks f) &&
  negb (pa_writeable (pf_index_labels f)) && negb (pa_writeable (pf_columns_labels f)).
Definition all_readonly (f : pframe) : bool :=
  data_readonly f && negb (pa_writeable (pf_index_positions f)) && negb (pa_writeable (pf_columns_positions f)).

(* comparison helpers for the correspondence cases *)
Definition pairs_eqb : list (label * list (label * val)) -> list (label * list (label * val)) -> bool :=
  list_eqb (pair_eqb (list_eqb val_eqb) (list_eqb (pair_eqb (list_eqb val_eqb) val_eqb))).
Definition rows_eqb : list (list val) -> list (list val) -> bool := list_eqb (list_eqb val_eqb).
(* writeable flags after unpickling a Frame with n blocks and flat indexes: blocks, index labels, index positions,
   columns labels, columns positions *)
Definition unpickle_flags (nblocks : nat) : list bool :=
  let ro := mk_parray [] false in
  let g := M_unpickle (mk_pframe (repeat ro nblocks) ro ro ro ro []) in
  map pa_writeable (pf_blocks g) ++ [pa_writeable (pf_index_labels g); pa_writeable (pf_index_positions g);
                                     pa_writeable (pf_columns_labels g); pa_writeable (pf_columns_positions g)].
