(* C09 -- the vocabulary of the generated sharing tables (Gen/Gen_c09.v). *)
Require Import SF.Prelude.

(* the three frame classes *)
Inductive fcls := KFrame | KFrameGO | KFrameHE.

(* what a constructor helper does with an index it is given *)
Inductive idx_action :=
| ASame          (* return the very object *)
| AImmutable     (* value._IMMUTABLE_CONSTRUCTOR(value): a new static index *)
| ACopy          (* value.copy() / value.__class__(value): a new index of the same class *)
| AMutable.      (* value._MUTABLE_CONSTRUCTOR(value): a new grow-only index *)
