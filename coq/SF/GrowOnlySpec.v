(* C09 -- the grow-only models instantiated at the observed value type `val`, and the functions
   that compare a recorded history of the implementation with the model M and the specification S.
   (Executable definitions only.) *)
Require Import SF.Prelude SF.Dtype SF.Value SF.PyDyn SF.GrowOnly Gen.Gen_util.

(* Python equality of labels *)
Definition lab_eq : val -> val -> bool := py_val_eq.

(* isinstance(label, INT_TYPES): int and bool (a subclass of int) *)
Definition val_as_pos (v : val) : option Z :=
  match v with
  | VInt z => Some z
  | VBool b => Some (if b then 1 else 0)
  | _ => None
  end.

(* a cell stored into an array of dtype d: ints and bools become floats in a float array *)
Definition cast_val (d : dtype) (v : val) : val :=
  match d, v with
  | DFlt _, VInt z => VFlt z 1
  | DFlt _, VBool b => VFlt (if b then 1 else 0) 1
  | _, _ => v
  end.

(* util.resolve_dtype as REGENERATED from /repo (Gen/Gen_util.v) *)
Definition v_resolve (a b : dtype) : dtype :=
  match resolve_dtype (PDtype a) (PDtype b) with
  | PDtype d => d
  | _ => DObj
  end.

Notation vigo := (igo val).
Notation vfgo := (fgo val val).
Notation vsfr := (sfr val val).
Notation viop := (iop val).
Notation vgop := (gop val val).
Notation vblk := (blk val).

Definition vM_istep := M_istep val lab_eq val_as_pos.
Definition vS_istep := S_istep val lab_eq.
Definition vM_step := M_step val val lab_eq val_as_pos cast_val v_resolve.
Definition vS_step := S_step val val lab_eq cast_val v_resolve.

Definition outcome_eqb (a b : outcome) : bool :=
  match a, b with
  | Ok _, Ok _ => true
  | Err x, Err y => String.eqb x y
  | _, _ => false
  end.
Definition okness_eqb (a b : outcome) : bool := Bool.eqb (is_ok a) (is_ok b).

Definition labs_eqb := list_eqb lab_eq.
Definition locs_eqb := list_eqb (option_eqb Z.eqb).
Definition col_eqb' (a b : dtype * list val) : bool := dtype_eqb (fst a) (fst b) && list_eqb val_eqb (snd a) (snd b).
Definition cols_eqb := list_eqb col_eqb'.

(* ---------------------------------------------------------------- IndexGO histories *)
(* one recorded step: the call, its outcome, and (when the harness looked) what was seen after it *)
Definition istep_rec := (viop * outcome * option (iobs val))%type.

Definition iobs_eqb (a b : iobs val) : bool :=
  labs_eqb (io_labels a) (io_labels b) && (io_npos a =? io_npos b) && locs_eqb (io_locs a) (io_locs b).

Fixpoint check_igo_M_from (s : vigo) (h : list istep_rec) : bool :=
  match h with
  | [] => true
  | (op, out, seen) :: r =>
      let '(s1, o) := vM_istep s op in
      outcome_eqb o out &&
      match seen with
      | None => check_igo_M_from s1 r
      | Some ob => iobs_eqb (M_iobserve val lab_eq val_as_pos s1) ob &&
                   check_igo_M_from (M_refresh s1) r
      end
  end.

Definition igo_init (auto : bool) (labels : list val) : res vigo :=
  if auto then Ok (M_inew_auto val labels) else M_inew val lab_eq labels.

Definition check_igo_M (auto : bool) (labels : list val) (h : list istep_rec) : bool :=
  match igo_init auto labels with
  | Ok s => check_igo_M_from s h
  | Err _ => false
  end.

Fixpoint check_igo_S (l : list val) (h : list istep_rec) : bool :=
  match h with
  | [] => true
  | (op, out, seen) :: r =>
      let '(l1, o) := vS_istep l op in
      okness_eqb o out &&
      match seen with
      | None => true
      | Some ob => iobs_eqb (S_iobserve val l1) ob
      end && check_igo_S l1 r
  end.

(* ---------------------------------------------------------------- FrameGO histories *)
Record fseen := mk_fseen {
  fs_labels : list val;
  fs_npos : Z;
  fs_cols : list (dtype * list val);
  fs_shape : Z * Z;
  fs_layout : list (Z * bool);        (* (width, is 2-D) of every block, for M only *)
  fs_readable : list bool;            (* reading by label i gives data column i, for S only *)
  fs_dtypes : list dtype;             (* TypeBlocks._dtypes (kernel level) *)
  fs_rowdt : option dtype;            (* TypeBlocks._row_dtype (kernel level), for M only *)
  fs_dtypes_public : bool;            (* frame.dtypes is readable and lists exactly those dtypes, for S only *)
  fs_rows : list (list val);          (* frame.values, row by row, for S only *)
  fs_rows_consistent : bool           (* iter_array(axis=1) and transpose().values agree with frame.values *)
}.

(* a cell read through a row (frame.values resolves one dtype for the row: 1 may come back as 1.0) *)
Definition cell_eq (a b : val) : bool := val_eqb a b || py_val_eq a b.

Definition rows_of (nrows : Z) (cols : list (dtype * list val)) : list (list val) :=
  map (fun i => map (fun c => nth (Z.to_nat i) (snd c) VNone) cols) (zrange nrows).

Definition fstep_rec := (vgop * outcome * option fseen)%type.

Definition layout_of (t : tb val) : list (Z * bool) :=
  map (fun b => (blk_width b, b_2d b)) (t_blocks t).

Definition layout_eqb := list_eqb (fun a b : Z * bool => (fst a =? fst b) && Bool.eqb (snd a) (snd b)).

Definition fobs_M_eqb (f : vfgo) (ob : fseen) : bool :=
  let m := M_fobserve val val lab_eq val_as_pos f in
  labs_eqb (fo_labels m) (fs_labels ob) && (fo_npos m =? fs_npos ob) &&
  cols_eqb (fo_cols m) (fs_cols ob) &&
  (fst (fo_shape m) =? fst (fs_shape ob)) && (snd (fo_shape m) =? snd (fs_shape ob)) &&
  layout_eqb (layout_of (f_tb f)) (fs_layout ob) &&
  list_eqb dtype_eqb (t_dtypes (f_tb f)) (fs_dtypes ob) &&
  option_eqb dtype_eqb (t_rowdt (f_tb f)) (fs_rowdt ob).

Fixpoint check_fgo_M_from (f : vfgo) (h : list fstep_rec) : bool :=
  match h with
  | [] => true
  | (op, out, seen) :: r =>
      let '(f1, o) := vM_step f op in
      outcome_eqb o out &&
      match seen with
      | None => check_fgo_M_from f1 r
      | Some ob => fobs_M_eqb f1 ob &&
                   check_fgo_M_from (mk_fgo (f_rows f1) (M_refresh (f_cols f1)) (f_tb f1)) r
      end
  end.

Definition fgo_init (auto : bool) (rows labels : list val) (blocks : list vblk) : res vfgo :=
  match igo_init auto labels with
  | Ok c => Ok (mk_fgo rows c (tb_of_blocks val v_resolve (zlen rows) blocks))
  | Err e => Err e
  end.

Definition check_fgo_M (auto : bool) (rows labels : list val) (blocks : list vblk) (h : list fstep_rec) : bool :=
  match fgo_init auto rows labels blocks with
  | Ok f => fgo_wfb val val lab_eq val_as_pos f && check_fgo_M_from f h
  | Err _ => false
  end.

Definition fobs_S_eqb (f : vsfr) (ob : fseen) : bool :=
  let m := S_fobserve val val f in
  labs_eqb (fo_labels m) (fs_labels ob) && (fo_npos m =? fs_npos ob) &&
  cols_eqb (fo_cols m) (fs_cols ob) &&
  (fst (fo_shape m) =? fst (fs_shape ob)) && (snd (fo_shape m) =? snd (fs_shape ob)) &&
  list_eqb Bool.eqb (fo_readable m) (fs_readable ob) &&
  list_eqb dtype_eqb (map fst (fo_cols m)) (fs_dtypes ob) && fs_dtypes_public ob &&
  list_eqb (list_eqb cell_eq) (rows_of (fst (fo_shape m)) (fo_cols m)) (fs_rows ob) && fs_rows_consistent ob.

Fixpoint check_fgo_S_from (f : vsfr) (h : list fstep_rec) : bool :=
  match h with
  | [] => true
  | (op, out, seen) :: r =>
      let '(f1, o) := vS_step f op in
      okness_eqb o out &&
      match seen with
      | None => true
      | Some ob => fobs_S_eqb f1 ob
      end && check_fgo_S_from f1 r
  end.

Definition check_fgo_S (rows labels : list val) (blocks : list vblk) (h : list fstep_rec) : bool :=
  check_fgo_S_from (mk_sfr rows labels (flat_map blk_flat blocks)) h.

(* ---------------------------------------------------------------- IndexHierarchyGO histories *)
Require Import SF.GrowOnlyHier.

Notation vhgo := (hgo val).
Notation vhop := (hop val).

Record hseen := mk_hseen {
  hs_labels : list (list val);     (* list(ih): iteration over the tree *)
  hs_len : Z;                      (* len(ih) *)
  hs_coherent : option bool        (* when the harness also read values / positions / loc_to_iloc /
                                      membership: do they all agree with the iteration? *)
}.

Definition hstep_rec := (vhop * outcome * hseen)%type.

Definition tuples_eqb := list_eqb (list_eqb lab_eq).

Fixpoint check_hgo_M_from (h : vhgo) (hist : list hstep_rec) : bool :=
  match hist with
  | [] => true
  | (op, out, seen) :: r =>
      let '(h1, o) := M_hstep val lab_eq h op in
      outcome_eqb o out &&
      tuples_eqb (flatten val (h_tree h1)) (hs_labels seen) &&
      (lvl_len val (h_tree h1) =? hs_len seen) &&
      check_hgo_M_from h1 r
  end.

Definition check_hgo_M (t : lvl val) (depth : Z) (hist : list hstep_rec) : bool :=
  check_hgo_M_from (mk_hgo t depth) hist.

Fixpoint check_hgo_S (depth : Z) (before : list (list val)) (hist : list hstep_rec) : bool :=
  match hist with
  | [] => true
  | (op, out, seen) :: r =>
      S_hstep_ok val lab_eq depth before op out (hs_labels seen) &&
      (if S_hstep_must_reject val lab_eq depth before op then negb (is_ok out) else true) &&
      (hs_len seen =? zlen (hs_labels seen)) &&
      match hs_coherent seen with Some false => false | _ => true end &&
      check_hgo_S depth (hs_labels seen) r
  end.

(* ---------------------------------------------------------------- worlds of frames: what the specification needs
   (kept free of the regenerated tables, so that it still evaluates when they cannot be regenerated) *)
Require Import SF.GrowOnlyShare.

Definition fcls_eqb (a b : fcls) : bool :=
  match a, b with KFrame, KFrame | KFrameGO, KFrameGO | KFrameHE, KFrameHE => true | _, _ => false end.

(* what is seen of one frame: class, column labels, columns *)
Definition fview := (fcls * list val * list (dtype * list val))%type.
Definition fview_eqb (a b : fview) : bool :=
  fcls_eqb (fst (fst a)) (fst (fst b)) && labs_eqb (snd (fst a)) (snd (fst b)) && cols_eqb (snd a) (snd b).
Definition fview_content_eqb (a b : fview) : bool :=
  labs_eqb (snd (fst a)) (snd (fst b)) && cols_eqb (snd a) (snd b).

Record wseen := mk_wseen {
  ws_frames : list fview;
  ws_same_columns : list (Z * Z);    (* pairs i<j of live frames whose _columns is the same object *)
  ws_same_blocks : list (Z * Z)      (* pairs i<j whose _blocks is the same object *)
}.
(* a step of a world as the specification sees it: a growth call on frame i, or a conversion of frame i *)
Inductive swop := SGrow (i : nat) | SConv (i : nat).
Definition swstep_rec := (swop * outcome * wseen)%type.

(* specification: a growth call on frame i changes no other frame and only appends to frame i;
   a conversion changes nothing that existed and adds a frame with the source's labels and columns *)
Fixpoint views_same_except (i : nat) (a b : list fview) (j : nat) : bool :=
  match a, b with
  | [], [] => true
  | x :: ar, y :: br => (if Nat.eqb i j then true else fview_eqb x y) && views_same_except i ar br (S j)
  | _, _ => false
  end.

Definition is_prefix_view (old new : fview) : bool :=
  fcls_eqb (fst (fst old)) (fst (fst new)) &&
  labs_eqb (snd (fst old)) (firstn (length (snd (fst old))) (snd (fst new))) &&
  cols_eqb (snd old) (firstn (length (snd old)) (snd new)).

Fixpoint check_world_S (prev : list fview) (hist : list swstep_rec) : bool :=
  match hist with
  | [] => true
  | (op, out, seen) :: r =>
      let cur := ws_frames seen in
      match op with
      | SGrow i =>
          views_same_except i prev cur 0 &&
          match nth_error prev i, nth_error cur i with
          | Some a, Some b => if is_ok out then is_prefix_view a b else fview_eqb a b
          | _, _ => false
          end
      | SConv i =>
          if is_ok out then
            list_eqb fview_eqb (firstn (length prev) cur) prev &&
            match nth_error prev i, skipn (length prev) cur with
            | Some a, [b] => fview_content_eqb a b
            | _, _ => false
            end
          else list_eqb fview_eqb cur prev
      end && check_world_S cur r
  end.

(* ---------------------------------------------------------------- TypeBlocks grown directly (kernel level) *)
Inductive tbop :=
| TAppend (b : vblk)                          (* tb.append(array) *)
| TExtendTB (rows : Z) (bs : list vblk)       (* tb.extend(TypeBlocks of that height) *)
| TExtendList (bs : list vblk).               (* tb.extend(iterable of arrays) *)

Record tbseen := mk_tbseen {
  tbs_cols : list (dtype * list val);
  tbs_shape : Z * Z;
  tbs_dtypes : list dtype;
  tbs_rowdt : option dtype;
  tbs_layout : list (Z * bool)
}.

Definition tbstep_rec := (tbop * outcome * tbseen)%type.

Definition M_tbstep (t : tb val) (op : tbop) : tb val * outcome :=
  match op with
  | TAppend b => match M_tb_append val t b with Ok t' => (t', Ok tt) | Err e => (t, Err e) end
  | TExtendTB rows bs => M_tb_extend val t rows bs
  | TExtendList bs => M_tb_append_all val t bs
  end.

Definition tb_seen_eqb (t : tb val) (ob : tbseen) : bool :=
  cols_eqb (flat_map (fun j => match M_tb_column val t j with Some x => [x] | None => [] end) (zrange (t_ncols t))) (tbs_cols ob) &&
  (t_rows t =? fst (tbs_shape ob)) && (t_ncols t =? snd (tbs_shape ob)) &&
  list_eqb dtype_eqb (t_dtypes t) (tbs_dtypes ob) &&
  option_eqb dtype_eqb (t_rowdt t) (tbs_rowdt ob) &&
  layout_eqb (layout_of t) (tbs_layout ob).

Fixpoint check_tb_M_from (t : tb val) (hist : list tbstep_rec) : bool :=
  match hist with
  | [] => true
  | (op, out, seen) :: r =>
      let '(t1, o) := M_tbstep t op in
      outcome_eqb o out && tb_seen_eqb t1 seen && check_tb_M_from t1 r
  end.

Definition check_tb_M (rows : Z) (blocks : list vblk) (hist : list tbstep_rec) : bool :=
  check_tb_M_from (tb_of_blocks val v_resolve rows blocks) hist.

(* specification of one TypeBlocks.append: accepted exactly when the heights agree, and then the columns
   seen before stay and the block's columns follow; refused -> nothing changes *)
Fixpoint check_tb_S (rows : Z) (before : list (dtype * list val)) (hist : list tbstep_rec) : bool :=
  match hist with
  | [] => true
  | (op, out, seen) :: r =>
      match op with
      | TAppend b =>
          if b_rows b =? rows
          then is_ok out && cols_eqb (tbs_cols seen) (before ++ blk_flat b)
          else negb (is_ok out) && cols_eqb (tbs_cols seen) before
      | _ =>   (* extend: whatever was accepted, the columns seen before are an unchanged prefix *)
          cols_eqb (firstn (length before) (tbs_cols seen)) before
      end &&
      (fst (tbs_shape seen) =? rows) && (snd (tbs_shape seen) =? zlen (tbs_cols seen)) &&
      list_eqb dtype_eqb (tbs_dtypes seen) (map fst (tbs_cols seen)) &&
      check_tb_S rows (tbs_cols seen) r
  end.

(* ---------------------------------------------------------------- IndexHierarchyGO: CHAINS of growth calls with no read in
   between (only the outcome of every call is recorded), observed once at the end *)
Definition hchain_rec := (vhop * outcome)%type.

Fixpoint check_hgo_M_chain_from (h : vhgo) (ops : list hchain_rec) (final : hseen) : bool :=
  match ops with
  | [] => tuples_eqb (flatten val (h_tree h)) (hs_labels final) && (lvl_len val (h_tree h) =? hs_len final)
  | (op, out) :: r =>
      let '(h1, o) := M_hstep val lab_eq h op in
      outcome_eqb o out && check_hgo_M_chain_from h1 r final
  end.

Definition check_hgo_M_chain (t : lvl val) (depth : Z) (ops : list hchain_rec) (final : hseen) : bool :=
  check_hgo_M_chain_from (mk_hgo t depth) ops final.

(* specification: every accepted call contributed exactly its labels, in order, all new and of the right depth;
   every refused call contributed nothing; duplicates / wrong depth must have been refused; at the end all
   readers agree *)
Fixpoint check_hgo_S_chain (depth : Z) (acc : list (list val)) (ops : list hchain_rec) (final : hseen) : bool :=
  match ops with
  | [] => tuples_eqb (hs_labels final) acc && (hs_len final =? zlen acc) &&
          match hs_coherent final with Some true => true | _ => false end
  | (op, out) :: r =>
      if is_ok out
      then negb (S_hstep_must_reject val lab_eq depth acc op) && check_hgo_S_chain depth (acc ++ hop_given val op) r final
      else check_hgo_S_chain depth acc r final
  end.
