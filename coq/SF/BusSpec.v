(* C17 -- specification side of the Bus / multi-table store model (no proofs here).

   S_* : the simplest executable statement of what the property demands of a store-backed Bus:
         an EAGER association list (what the store holds under each label) plus an abstract
         LRU cache (a list of labels, least recently used first).  No arrays, no counters,
         no snapshot, no reader.  The implementation model M_* is in SF/Bus.v.

   Everything is parametric in the label type L and the frame type F (the correspondence
   instantiates both at Z: labels f0..f9 by rank, frames by the rank of their canonical
   literal among the frames written). *)
Require Import SF.Prelude SF.PySlice.

Section BusSpec.
Variables L F : Type.
Variable leqb : L -> L -> bool.     (* label equality *)
Variable lleb : L -> L -> bool.     (* label order (sort_index) *)
Variable feqb : F -> F -> bool.     (* frame equality (canonical literal) *)
Variable fkey : F -> Z.             (* the key function handed to sort_values *)

(* ---------- small list utilities (ordered dict of labels, association lists) ---------- *)
Fixpoint mem (l : L) (c : list L) : bool :=
  match c with [] => false | x :: r => leqb x l || mem l r end.

Definition la_remove (l : L) (c : list L) : list L := filter (fun x => negb (leqb x l)) c.
(* d[l] = d.pop(l, None): l becomes the newest key of the ordered dict *)
Definition la_touch (l : L) (c : list L) : list L := la_remove l c ++ [l].

Fixpoint assoc {B} (l : L) (kv : list (L * B)) : option B :=
  match kv with
  | [] => None
  | (k, v) :: r => if leqb k l then Some v else assoc l r
  end.

Fixpoint find_idx (l : L) (ls : list L) : option nat :=
  match ls with
  | [] => None
  | x :: r => if leqb x l then Some O else option_map S (find_idx l r)
  end.

Fixpoint has_dup (ls : list L) : bool :=
  match ls with [] => false | x :: r => mem x r || has_dup r end.

Fixpoint has_dup_nat (ps : list nat) : bool :=
  match ps with [] => false | x :: r => existsb (Nat.eqb x) r || has_dup_nat r end.

Definition labels_at (labels : list L) (ps : list nat) : list L :=
  flat_map (fun p => match nth_error labels p with Some l => [l] | None => [] end) ps.

Definition count_true (bs : list bool) : Z := Z.of_nat (length (filter (fun b => b) bs)).
Definition all_true (bs : list bool) : bool := forallb (fun b => b) bs.

Definition is_some {A} (o : option A) : bool := match o with Some _ => true | None => false end.

Fixpoint insert_by {A} (le : A -> A -> bool) (x : A) (l : list A) : list A :=
  match l with
  | [] => [x]
  | y :: r => if le x y then x :: y :: r else y :: insert_by le x r
  end.
Definition isort {A} (le : A -> A -> bool) (l : list A) : list A := fold_right (insert_by le) [] l.

(* ---------- the store ---------- *)
(* content: label -> (frame read with the label's own configuration, frame read with the DEFAULT
   configuration); the two differ only when a per-label StoreConfig map is in use.
   recorded = Store._last_modified (None = nan); file = mtime of the file now (None = no file).
   The harness only ever puts the original bytes back together with the recorded mtime, so the
   content is constant whenever the store is coherent. *)
Record store := mk_store {
  st_content : list (L * (F * F));
  st_recorded : option Z;
  st_file : option Z
}.

Definition eager (st : store) (l : L) : option F := option_map fst (assoc l (st_content st)).

(* what the property demands: the file is there and still has the mtime seen when the store was opened *)
Definition s_coherent (st : store) : bool :=
  match st_file st, st_recorded st with
  | Some m, Some r => m =? r
  | _, _ => false
  end.

(* ---------- keys and their resolution to positions (Index._loc_to_iloc / NumPy indexing) ---------- *)
Inductive key :=
| KInt (i : Z)                      (* bus.iloc[i] *)
| KList (js : list Z)               (* bus.iloc[[...]] *)
| KSlice (s : slice)                (* bus.iloc[a:b:c] *)
| KMask (m : list bool)             (* Boolean array, loc or iloc *)
| KLabel (l : L)                    (* bus[l], bus.loc[l] *)
| KLabels (ls : list L)             (* bus.loc[[...]] *)
| KLabelSlice (a b : option L).     (* bus.loc[a:b], stop inclusive *)

Fixpoint norm_all (js : list Z) (n : Z) : option (list nat) :=
  match js with
  | [] => Some []
  | j :: r => match norm_index j n, norm_all r n with
              | Some p, Some ps => Some (Z.to_nat p :: ps)
              | _, _ => None
              end
  end.

Fixpoint find_all (ls labels : list L) : option (list nat) :=
  match ls with
  | [] => Some []
  | l :: r => match find_idx l labels, find_all r labels with
              | Some p, Some ps => Some (p :: ps)
              | _, _ => None
              end
  end.

Fixpoint mask_positions (m : list bool) (i : nat) : list nat :=
  match m with
  | [] => []
  | b :: r => if b then i :: mask_positions r (S i) else mask_positions r (S i)
  end.

(* (single element?, positions in key order) *)
Definition resolve (labels : list L) (k : key) : res (bool * list nat) :=
  let n := Z.of_nat (length labels) in
  match k with
  | KInt i => match norm_index i n with
              | Some p => Ok (true, [Z.to_nat p])
              | None => Err "IndexError"
              end
  | KList js => match norm_all js n with
                | None => Err "IndexError"
                | Some ps => if has_dup_nat ps then Err "ErrorInitIndex" else Ok (false, ps)
                end
  | KSlice s => match positions s n with
                | None => Err "ValueError"
                | Some ps => Ok (false, map Z.to_nat ps)
                end
  | KMask m => if Nat.eqb (length m) (length labels) then Ok (false, mask_positions m O)
               else Err "IndexError"
  | KLabel l => match find_idx l labels with
                | Some p => Ok (true, [p])
                | None => Err "KeyError"
                end
  | KLabels ls => match find_all ls labels with
                  | None => Err "KeyError"
                  | Some ps => if has_dup_nat ps then Err "ErrorInitIndex" else Ok (false, ps)
                  end
  | KLabelSlice a b =>
      match (match a with None => Some O | Some l => find_idx l labels end),
            (match b with None => Some (length labels) | Some l => option_map S (find_idx l labels) end) with
      | Some lo, Some hi => Ok (false, seq lo (hi - lo))
      | _, _ => Err "KeyError"
      end
  end.

(* ---------- operations of a history and what each one lets the caller observe ---------- *)
Inductive op :=
| OSel (k : key) (into : bool)            (* bus.loc[k] / bus.iloc[k]; a Bus result replaces the current Bus when into *)
| OItems                                  (* list(bus.items()) *)
| OValues                                 (* tuple(bus.values) *)
| OKeys                                   (* list(bus.keys()) / iteration *)
| OStatus                                 (* bus.status['loaded'] *)
| OGet (l : L)                            (* bus.get(l) *)
| OIterElem                               (* tuple(bus.iter_element()) *)
| OIterItems                              (* tuple(bus.iter_element_items()) *)
| ODrop (k : key) (into : bool)           (* bus.drop.loc[k] / bus.drop.iloc[k] *)
| OReindex (ls : list L) (into : bool)    (* bus.reindex(ls) with ls a duplicate-free sub-list of the labels *)
| OSortIndex (asc : bool) (into : bool)   (* bus.sort_index(ascending=asc) *)
| OSortValues (asc : bool) (into : bool)  (* bus.sort_values(key=fkey per frame, ascending=asc) *)
| OFile (f : option Z).                   (* the backing file: removed (None) or present with mtime t *)

Inductive obs :=
| ObSlot (f : option F)                        (* one element: a Frame, or the FrameDeferred placeholder (None) *)
| ObBus (labels : list L) (loaded : list bool) (* a derived Bus: its labels and its loaded flags *)
| ObItems (kv : list (L * option F))
| ObSlots (vs : list (option F))
| ObLabels (ls : list L)
| ObFlags (bs : list bool)
| ObUnit
| ObErr (e : string).

Definition slot_eqb := option_eqb feqb.
Definition labels_eqb := list_eqb leqb.
Definition obs_eqb (a b : obs) : bool :=
  match a, b with
  | ObSlot x, ObSlot y => slot_eqb x y
  | ObBus l1 f1, ObBus l2 f2 => labels_eqb l1 l2 && list_eqb Bool.eqb f1 f2
  | ObItems x, ObItems y => list_eqb (pair_eqb leqb slot_eqb) x y
  | ObSlots x, ObSlots y => list_eqb slot_eqb x y
  | ObLabels x, ObLabels y => labels_eqb x y
  | ObFlags x, ObFlags y => list_eqb Bool.eqb x y
  | ObUnit, ObUnit => true
  | ObErr x, ObErr y => String.eqb x y
  | _, _ => false
  end.

(* ---------- S: eager map + abstract LRU cache ---------- *)
Record sbus := mk_sbus {
  sb_labels : list L;
  sb_cache : list L;          (* labels whose Frame is held, least recently used first *)
  sb_mp : option Z            (* max_persist *)
}.

Definition s_trim (mp : option Z) (c : list L) : list L :=
  match mp with
  | Some k => if Z.of_nat (length c) >? k then tl c else c
  | None => c
  end.

(* one use of label l: it becomes the most recent; the least recent goes if the bound is exceeded *)
Definition s_touch (mp : option Z) (l : L) (c : list L) : list L := s_trim mp (la_touch l c).

(* the distinct labels of a sequence of uses, ordered by their LAST use (least recently used first) *)
Fixpoint dedup_last (w : list L) : list L :=
  match w with
  | [] => []
  | x :: r => if mem x r then dedup_last r else x :: dedup_last r
  end.

(* uses in key order; a label not held needs a read, which a stale file refuses: (ok?, cache) *)
Fixpoint s_access_all (coh : bool) (mp : option Z) (c : list L) (ls : list L) : bool * list L :=
  match ls with
  | [] => (true, c)
  | l :: r => if mem l c || coh then s_access_all coh mp (s_touch mp l c) r else (false, c)
  end.

Definition s_flags (b : sbus) : list bool := map (fun l => mem l (sb_cache b)) (sb_labels b).

Definition s_derive (b : sbus) (ls : list L) : sbus :=
  mk_sbus ls (filter (fun l => mem l (sb_cache b)) ls) (sb_mp b).

Definition s_with_cache (b : sbus) (c : list L) : sbus := mk_sbus (sb_labels b) c (sb_mp b).

Definition s_open (st : store) (mp : option Z) : sbus := mk_sbus (map fst (st_content st)) [] mp.

Definition s_bus_result (b d : sbus) (into : bool) : obs * sbus :=
  (ObBus (sb_labels d) (s_flags d), if into then d else b).

Definition s_select (st : store) (b : sbus) (k : key) (into : bool) : obs * sbus :=
  match resolve (sb_labels b) k with
  | Err e => (ObErr e, b)
  | Ok (single, ps) =>
      let ls := labels_at (sb_labels b) ps in
      let '(ok, c) := s_access_all (s_coherent st) (sb_mp b) (sb_cache b) ls in
      let b' := s_with_cache b c in
      if negb ok then (ObErr "StoreFileMutation", b')
      else if single then (ObSlot (match ls with l :: _ => eager st l | [] => None end), b')
      else s_bus_result b' (s_derive b' ls) into
  end.

(* every label, in index order *)
Definition s_all (st : store) (b : sbus) : bool * sbus :=
  let '(ok, c) := s_access_all (s_coherent st) (sb_mp b) (sb_cache b) (sb_labels b) in
  (ok, s_with_cache b c).

Definition complement (n : nat) (ps : list nat) : list nat :=
  filter (fun i => negb (existsb (Nat.eqb i) ps)) (seq O n).

Definition sort_labels (asc : bool) (ls : list L) : list L :=
  let s := isort lleb ls in if asc then s else rev s.

Definition sort_by_key {A} (asc : bool) (kv : list (A * Z)) : list A :=
  let s := isort (fun a b => snd a <=? snd b) kv in map fst (if asc then s else rev s).

Definition s_step (st : store) (b : sbus) (o : op) : obs * store * sbus :=
  match o with
  | OSel k into => let '(r, b') := s_select st b k into in (r, st, b')
  | OItems =>
      let '(ok, b') := s_all st b in
      (if ok then ObItems (map (fun l => (l, eager st l)) (sb_labels b)) else ObErr "StoreFileMutation", st, b')
  | OValues =>
      let '(ok, b') := s_all st b in
      (if ok then ObSlots (map (eager st) (sb_labels b)) else ObErr "StoreFileMutation", st, b')
  | OKeys => (ObLabels (sb_labels b), st, b)
  | OStatus => (ObFlags (s_flags b), st, b)
  | OGet l =>
      (* the property: every access returns the Frame an eager load would return *)
      if mem l (sb_labels b) then let '(r, b') := s_select st b (KLabel l) false in (r, st, b')
      else (ObUnit, st, b)
  | OIterElem =>
      let '(ok, b') := s_all st b in
      (if ok then ObSlots (map (eager st) (sb_labels b)) else ObErr "StoreFileMutation", st, b')
  | OIterItems =>
      let '(ok, b') := s_all st b in
      (if ok then ObItems (map (fun l => (l, eager st l)) (sb_labels b)) else ObErr "StoreFileMutation", st, b')
  | ODrop k into =>
      match resolve (sb_labels b) k with
      | Err e => (ObErr e, st, b)
      | Ok (_, ps) =>
          let ls := labels_at (sb_labels b) (complement (length (sb_labels b)) ps) in
          let '(r, b') := s_bus_result b (s_derive b ls) into in (r, st, b')
      end
  | OReindex ls into =>
      if has_dup ls then (ObErr "ErrorInitIndex", st, b)
      else if negb (forallb (fun l => mem l (sb_labels b)) ls) then (ObErr "Unsupported", st, b)
      else let '(r, b') := s_bus_result b (s_derive b ls) into in (r, st, b')
  | OSortIndex asc into =>
      let '(r, b') := s_bus_result b (s_derive b (sort_labels asc (sb_labels b))) into in (r, st, b')
  | OSortValues asc into =>
      let '(ok, b') := s_all st b in
      if negb ok then (ObErr "StoreFileMutation", st, b')
      else
        let kv := map (fun l => (l, match eager st l with Some f => fkey f | None => 0 end)) (sb_labels b) in
        let '(r, b'') := s_bus_result b' (s_derive b' (sort_by_key asc kv)) into in (r, st, b'')
  | OFile f => (ObUnit, mk_store (st_content st) (st_recorded st) f, b)
  end.

(* a history: after every operation the caller sees the operation's result and the loaded flags of the current Bus *)
Fixpoint s_run (st : store) (b : sbus) (ops : list op) : list (obs * list bool) :=
  match ops with
  | [] => []
  | o :: r => let '(x, st', b') := s_step st b o in (x, s_flags b') :: s_run st' b' r
  end.

(* the Bus (and store) a history ends with *)
Fixpoint s_exec (st : store) (b : sbus) (ops : list op) : store * sbus :=
  match ops with
  | [] => (st, b)
  | o :: r => let '(_, st', b') := s_step st b o in s_exec st' b' r
  end.

Definition trace_eqb (a b : list (obs * list bool)) : bool :=
  list_eqb (pair_eqb obs_eqb (list_eqb Bool.eqb)) a b.

End BusSpec.
