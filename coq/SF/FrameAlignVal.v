(* C06 -- Frame-level binary operators at observed values: Frame.reindex (frame.py:3001-3067) over
   M_resize_blocks, TypeBlocks._ufunc_binary_operator (type_blocks.py:2302-2372: block_compatible /
   reblock / .values paths, 1-D operand along either axis, scalar), Frame._ufunc_binary_operator
   (frame.py:4080-4176), and the Boolean checks of the Frame-level correspondence cases.  No proofs. *)
Require Import SF.Prelude SF.Dtype SF.Value SF.PyDyn Gen.Gen_util SF.SetAlg SF.SetAlgVal SF.LabelAlign
  SF.LabelAlignVal SF.FrameAlign.

Definition vblk := blk val.
Definition vcol := col val.
Definition mkb := mk_blk val.

(* fill value NaN *)
Definition vresize := M_resize_blocks val VNaN cast_nan resolve_nan (DFlt 8).
Definition vflatten := flatten val.

Definition idx_equal (a b : list val) : bool := (Z.of_nat (length a) =? Z.of_nat (length b)) && vlist_eqb a b.

(* Frame.reindex -> blocks; the object path of intersect1d/2d from the dtypes of the two label arrays *)
Definition M_frame_reindex (hi hc : bool) (di dc ddi ddc : dtype) (index columns : list val) (t : list vblk)
  (new_index new_columns : option (list val)) : res (list vblk) :=
  M_frame_reindex_g val val val_eqb val_leb val_sortable VNaN cast_nan resolve_nan (DFlt 8)
    (if hi then objpath_2d di ddi else objpath_1d di ddi)
    (if hc then objpath_2d dc ddc else objpath_1d dc ddc)
    index columns t new_index new_columns.

(* ---- TypeBlocks._ufunc_binary_operator (generic model M_tb_binop_g in SF/FrameAlign.v) ---- *)
Definition width (b : vblk) : nat := bwidth val b.
Definition total_width (t : list vblk) : nat := total_bwidth val t.

Definition opt_cols := list (list (option val)).

Definition op_cols (f : val -> val -> option val) (a b : list (list val)) : opt_cols :=
  FrameAlign.op_cols val (option val) f a b.

Fixpoint collect_cols (l : opt_cols) : res (list (list val)) :=
  match l with
  | [] => Ok []
  | c :: t => match collect c, collect_cols t with
              | Ok x, Ok r => Ok (x :: r)
              | Err e, _ | _, Err e => Err e
              end
  end.

(* TypeBlocks.from_blocks(<no blocks>) without a shape_reference (type_blocks.py:2361-2372) *)
Definition no_columns (r : res (list (list val))) : res (list (list val)) :=
  match r with Ok [] => Err "ErrorInitTypeBlocks" | _ => r end.

Definition M_tb_binop_tb (f : val -> val -> option val) (a b : list vblk) : res (list (list val)) :=
  no_columns (match M_tb_binop_g val (option val) f a b with
              | Ok cols => collect_cols cols
              | Err e => Err e
              end).

(* 1-D operand applied to every row (axis 0): column j pairs with other[j]; applied to every column (axis 1):
   the generic block-walking models of SF/FrameAlign.v *)
Definition M_tb_binop_rowwise (f : val -> val -> option val) (a : list vblk) (other : list val) : res (list (list val)) :=
  no_columns (collect_cols (M_tb_rowwise_g val (option val) f a other)).
Definition M_tb_binop_colwise (f : val -> val -> option val) (a : list vblk) (other : list val) : res (list (list val)) :=
  no_columns (collect_cols (M_tb_colwise_g val (option val) f a other)).

(* ---- observed Frame: index labels, column labels, columns (values down the rows) ---- *)
Definition fobs := res (list val * list val * list (list val)).

Definition cols_eqb := list_eqb vlist_eqb.

(* compare as a (row label, column label) -> value map when an axis order is not fixed by the model *)
Definition cells (index columns : list val) (cols : list (list val)) : list (val * val) :=
  flat_map (fun cc => map (fun rv => (VTup [fst cc; fst rv], snd rv)) (combine index (snd cc))) (combine columns cols).
Definition cells_sorted index columns cols :=
  isort (val * val) (fun p q => val_leb (fst p) (fst q)) (cells index columns cols).

Definition frame_eqb (ord_i ord_c : bool) (index columns : list val) (cols : list (list val))
  (oi oc : list val) (ocols : list (list val)) : bool :=
  (Z.of_nat (length oc) =? Z.of_nat (length ocols)) &&
  forallb (fun c => Z.of_nat (length c) =? Z.of_nat (length oi)) ocols &&
  (if ord_i then vlist_eqb index oi else vlist_eqb (vsort index) (vsort oi)) &&
  (if ord_c then vlist_eqb columns oc else vlist_eqb (vsort columns) (vsort oc)) &&
  (if ord_i && ord_c then cols_eqb cols ocols
   else pair_list_eqb (cells_sorted index columns cols) (cells_sorted oi oc ocols)).

Definition cmp_obs (ord_i ord_c : bool) (index columns : list val) (r : res (list (list val))) (obs : fobs) : bool :=
  match r, obs with
  | Ok cols, Ok (oi, oc, ocols) => frame_eqb ord_i ord_c index columns cols oi oc ocols
  | Err e, Err e' => String.eqb e e'
  | _, _ => false
  end.

Definition union_of (hier : bool) (da db : dtype) (a b : list val) : bool * list val :=
  M_index_set val val_eqb val_leb val_sortable OpUnion OperandIndex (dtype_eqb da db)
    (if hier then objpath_2d da db else objpath_1d da db) a b.

(* dtype of the union index: the left operand's when it is returned as is, else the resolved dtype *)
Definition union_dtype (da db : dtype) (a b : list val) : dtype :=
  if idx_equal a b then da
  else match resolve_dtype (PDtype da) (PDtype db) with PDtype q => q | _ => DObj end.

(* ---- Frame op Frame (frame.py:4090-4125) ---- *)
Record fin := mk_fin {
  fi_index : list val; fi_columns : list val; fi_blocks : list vblk;
  fi_di : dtype; fi_dc : dtype; fi_hi : bool; fi_hc : bool
}.

Definition MFF (o : binop) (swap : bool) (a b : fin) (obs : fobs) : bool :=
  let f := np_op_sw o swap in
  let uc := union_of (fi_hc a) (fi_dc a) (fi_dc b) (fi_columns a) (fi_columns b) in
  let ui := union_of (fi_hi a) (fi_di a) (fi_di b) (fi_index a) (fi_index b) in
  let dui := union_dtype (fi_di a) (fi_di b) (fi_index a) (fi_index b) in
  let duc := union_dtype (fi_dc a) (fi_dc b) (fi_columns a) (fi_columns b) in
  let ra := M_frame_reindex (fi_hi a) (fi_hc a) (fi_di a) (fi_dc a) dui duc (fi_index a) (fi_columns a) (fi_blocks a)
              (Some (snd ui)) (Some (snd uc)) in
  let rb := M_frame_reindex (fi_hi b) (fi_hc b) (fi_di b) (fi_dc b) dui duc (fi_index b) (fi_columns b) (fi_blocks b)
              (Some (snd ui)) (Some (snd uc)) in
  let r := match ra, rb with
           | Ok ta, Ok tb => M_tb_binop_tb f ta tb
           | Err e, _ | _, Err e => Err e
           end in
  cmp_obs (fst ui || idx_equal (fi_index a) (fi_index b)) (fst uc || idx_equal (fi_columns a) (fi_columns b))
          (snd ui) (snd uc) r obs.

(* ---- Frame op Series, axis 0 (labels of the Series against the columns) and axis 1 (against the index) ---- *)
Definition MFS (o : binop) (swap : bool) (axis1 : bool) (a : fin) (dis dvs : dtype) (his : bool)
  (is_ vs : list val) (obs : fobs) : bool :=
  let f := np_op_sw o swap in
  let fax := if axis1 then fi_index a else fi_columns a in
  let dax := if axis1 then fi_di a else fi_dc a in
  let hax := if axis1 then fi_hi a else fi_hc a in
  let u := union_of hax dax dis fax is_ in
  let du := union_dtype dax dis fax is_ in
  let ra := if axis1
            then M_frame_reindex (fi_hi a) (fi_hc a) (fi_di a) (fi_dc a) du (fi_dc a) (fi_index a) (fi_columns a) (fi_blocks a) (Some (snd u)) None
            else M_frame_reindex (fi_hi a) (fi_hc a) (fi_di a) (fi_dc a) (fi_di a) du (fi_index a) (fi_columns a) (fi_blocks a) None (Some (snd u)) in
  let other := M_series_reindex val val val_eqb val_leb val_sortable true
                 (if his then objpath_2d dis du else objpath_1d dis du) is_ vs (snd u) VNaN (cast_nan dvs) in
  let r := match ra, other with
           | Ok ta, Some ov => if axis1 then M_tb_binop_colwise f ta ov else M_tb_binop_rowwise f ta ov
           | Err e, _ => Err e
           | _, None => Err "KeyError"
           end in
  if axis1
  then cmp_obs (fst u || idx_equal fax is_) true (snd u) (fi_columns a) r obs
  else cmp_obs true (fst u || idx_equal fax is_) (fi_index a) (snd u) r obs.

(* Frame op scalar / unlabelled 1-D array (axis 0) *)
Definition MFA (o : binop) (swap : bool) (a : fin) (other : list val) (obs : fobs) : bool :=
  let n := length other in
  if negb (Nat.eqb n 1) && negb (Nat.eqb n (total_width (fi_blocks a)))
  then match obs with Err e => String.eqb e "NotImplementedError" | Ok _ => false end
  else cmp_obs true true (fi_index a) (fi_columns a) (M_tb_binop_rowwise (np_op_sw o swap) (fi_blocks a) other) obs.

(* Frame.reindex called directly *)
Definition MFR (a : fin) (ddi ddc : dtype) (new_index new_columns : option (list val)) (obs : fobs) : bool :=
  let r := M_frame_reindex (fi_hi a) (fi_hc a) (fi_di a) (fi_dc a) ddi ddc (fi_index a) (fi_columns a) (fi_blocks a)
             new_index new_columns in
  cmp_obs true true (match new_index with Some i => i | None => fi_index a end)
          (match new_columns with Some c => c | None => fi_columns a end)
          (res_map (fun t => map snd (vflatten t)) r) obs.

(* ---- specification checks (columns only: no block structure) ---- *)
Definition fcols (a : fin) : list (list val) := map snd (vflatten (fi_blocks a)).

(* value at (row label, column label) of a frame given by its columns *)
Definition fget (index columns : list val) (cols : list (list val)) (r c : val) : option val :=
  match get val (list val) val_eqb columns cols c with
  | Some cl => vget index cl r
  | None => None
  end.

Definition fcell_ok (full : bool) (x y : option val) (o : binop) (swap : bool) (v : val) : bool :=
  match x, y with
  | Some p, Some q => match np_op_sw o swap p q with Some w => py_val_eq v w | None => false end
  | _, _ => if full then isna v else true
  end.

Definition obs_cells_ok (oi oc : list val) (ocols : list (list val)) (ok : val -> val -> val -> bool) : bool :=
  forallb (fun cc => forallb (fun rv => ok (fst rv) (fst cc) (snd rv)) (combine oi (snd cc))) (combine oc ocols).

Definition shape_ok (oi oc : list val) (ocols : list (list val)) : bool :=
  (Z.of_nat (length oc) =? Z.of_nat (length ocols)) &&
  forallb (fun c => Z.of_nat (length c) =? Z.of_nat (length oi)) ocols.

(* Frame op Frame: union on both axes; op(a,b) where both have the cell; missing marker elsewhere;
   equal indices keep order and the class NumPy gives op(a, b) column by column *)
Definition SFF_gen (full : bool) (o : binop) (swap : bool) (a b : fin) (obs : fobs) : bool :=
  match obs with
  | Err _ => false
  | Ok (oi, oc, ocols) =>
      shape_ok oi oc ocols &&
      nodupb oi && same_set oi (S_set val val_eqb OpUnion (fi_index a) (fi_index b)) &&
      nodupb oc && same_set oc (S_set val val_eqb OpUnion (fi_columns a) (fi_columns b)) &&
      (if vlist_eqb (fi_index a) (fi_index b) then vlist_eqb oi (fi_index a) else true) &&
      (if vlist_eqb (fi_columns a) (fi_columns b) then vlist_eqb oc (fi_columns a) else true) &&
      obs_cells_ok oi oc ocols (fun r c v =>
        fcell_ok full (fget (fi_index a) (fi_columns a) (fcols a) r c)
                      (fget (fi_index b) (fi_columns b) (fcols b) r c) o swap v) &&
      (if vlist_eqb (fi_index a) (fi_index b) && vlist_eqb (fi_columns a) (fi_columns b)
       then match collect_cols (op_cols (np_op_sw o swap) (fcols a) (fcols b)) with
            | Ok cs => cols_eqb ocols cs
            | Err _ => false
            end
       else true)
  end.
Definition SFF := SFF_gen true.
Definition SFFm := SFF_gen false.

(* Frame op Series along an axis *)
Definition SFS_gen (full : bool) (o : binop) (swap axis1 : bool) (a : fin) (is_ vs : list val) (obs : fobs) : bool :=
  match obs with
  | Err _ => false
  | Ok (oi, oc, ocols) =>
      let fax := if axis1 then fi_index a else fi_columns a in
      let oax := if axis1 then oi else oc in
      let oother := if axis1 then oc else oi in
      shape_ok oi oc ocols &&
      nodupb oax && same_set oax (S_set val val_eqb OpUnion fax is_) &&
      vlist_eqb oother (if axis1 then fi_columns a else fi_index a) &&
      (if vlist_eqb fax is_ then vlist_eqb oax fax else true) &&
      obs_cells_ok oi oc ocols (fun r c v =>
        fcell_ok full (fget (fi_index a) (fi_columns a) (fcols a) r c)
                      (vget is_ vs (if axis1 then r else c)) o swap v)
  end.
Definition SFS := SFS_gen true.
Definition SFSm := SFS_gen false.

(* Frame.reindex: per destination cell the source's value (numerically) or the missing marker *)
Definition SFR (a : fin) (new_index new_columns : option (list val)) (obs : fobs) : bool :=
  match obs with
  | Err _ => false
  | Ok (oi, oc, ocols) =>
      shape_ok oi oc ocols &&
      vlist_eqb oi (match new_index with Some i => i | None => fi_index a end) &&
      vlist_eqb oc (match new_columns with Some c => c | None => fi_columns a end) &&
      obs_cells_ok oi oc ocols (fun r c v =>
        match fget (fi_index a) (fi_columns a) (fcols a) r c with
        | Some x => py_val_eq v x
        | None => isna v
        end)
  end.
