(* C06 -- label alignment instantiated at observed values: the ORACLE model of NumPy's element-wise
   binary operators on the value classes the generators produce (exact integers and dyadic rationals,
   Booleans, NaN), the dtype coercion a NaN fill forces, and the Boolean checks of the Series-level
   correspondence cases.  No proofs. *)
Require Import SF.Prelude SF.Dtype SF.Value SF.PyDyn Gen.Gen_util SF.SetAlg SF.SetAlgVal SF.LabelAlign.

Inductive binop :=
| BAdd | BSub | BMul | BFloordiv | BMod | BTruediv
| BEq | BNe | BLt | BLe | BGt | BGe
| BAnd | BOr | BXor.

Definition is_arith (o : binop) : bool :=
  match o with BAdd | BSub | BMul | BFloordiv | BMod | BTruediv => true | _ => false end.
Definition is_cmp (o : binop) : bool :=
  match o with BEq | BNe | BLt | BLe | BGt | BGe => true | _ => false end.

(* ---- exact arithmetic on num/den (den > 0) ---- *)
Definition mk_flt (n d : Z) : val :=
  let g := Z.gcd n d in
  if g =? 0 then VFlt 0 1 else VFlt (n / g) (d / g).

Definition is_floaty (v : val) : bool :=
  match v with VFlt _ _ | VNaN | VInf _ => true | _ => false end.

(* numeric view excluding Booleans (NumPy's bool arithmetic is not modelled) *)
Definition arith_view (v : val) : option (Z * Z) :=
  match v with VInt z => Some (z, 1) | VFlt n d => Some (n, d) | _ => None end.

Definition np_arith (o : binop) (x y : val) : option val :=
  match x, y with
  | VNaN, (VInt _ | VFlt _ _ | VNaN) | (VInt _ | VFlt _ _), VNaN => Some VNaN
  | _, _ =>
    match arith_view x, arith_view y with
    | Some (n1, d1), Some (n2, d2) =>
        let flt := is_floaty x || is_floaty y in
        let out (n d : Z) := if flt then Some (mk_flt n d)
                             else if d =? 1 then Some (VInt n) else None in
        match o with
        | BAdd => out (n1 * d2 + n2 * d1) (d1 * d2)
        | BSub => out (n1 * d2 - n2 * d1) (d1 * d2)
        | BMul => out (n1 * n2) (d1 * d2)
        | BTruediv =>
            if n2 =? 0 then None
            else if n2 <? 0 then Some (mk_flt (- (n1 * d2)) (- (n2 * d1))) else Some (mk_flt (n1 * d2) (n2 * d1))
        | BFloordiv =>
            if n2 =? 0 then None else out ((n1 * d2) / (n2 * d1)) 1
        | BMod =>
            if n2 =? 0 then None
            else let q := (n1 * d2) / (n2 * d1) in out (n1 * d2 - q * n2 * d1) (d1 * d2)
        | _ => None
        end
    | _, _ => None
    end
  end.

Definition np_cmp (o : binop) (x y : val) : option val :=
  match x, y with
  | VNaN, _ | _, VNaN => Some (VBool (match o with BNe => true | _ => false end))
  | _, _ =>
    match num_view x, num_view y with
    | Some (n1, d1), Some (n2, d2) =>
        let a := n1 * d2 in let b := n2 * d1 in
        Some (VBool (match o with
                     | BEq => a =? b | BNe => negb (a =? b)
                     | BLt => a <? b | BLe => a <=? b | BGt => b <? a | BGe => b <=? a
                     | _ => false end))
    | _, _ => None
    end
  end.

Definition np_logic (o : binop) (x y : val) : option val :=
  match x, y with
  | VBool a, VBool b =>
      Some (VBool (match o with BAnd => a && b | BOr => a || b | BXor => xorb a b | _ => false end))
  | VInt a, VInt b =>
      Some (VInt (match o with BAnd => Z.land a b | BOr => Z.lor a b | BXor => Z.lxor a b | _ => 0 end))
  | _, _ => None      (* float / NaN operands: TypeError *)
  end.

(* ORACLE: one cell of a NumPy binary operator; None = the ufunc raises TypeError (or the pairing is
   outside the model: zero divisors, Boolean arithmetic) *)
Definition np_op (o : binop) (x y : val) : option val :=
  if is_arith o then np_arith o x y else if is_cmp o then np_cmp o x y else np_logic o x y.

(* reflected forms: rsub(rhs, lhs) = lhs - rhs *)
Definition np_op_sw (o : binop) (swap : bool) (x y : val) : option val :=
  if swap then np_op o y x else np_op o x y.

(* util.full_for_fill(dtype, n, nan): the array dtype is resolve_dtype(dtype, float64) -- through the
   REGENERATED resolve_dtype -- and the kept cells are converted to it *)
Definition resolve_nan (d : dtype) : dtype :=
  match resolve_dtype (PDtype d) (PDtype (DFlt 8)) with PDtype r => r | _ => DObj end.

Definition cast_to (d : dtype) (v : val) : val :=
  match d, v with
  | DFlt _, VInt z => VFlt z 1
  | DFlt _, VBool b => VFlt (if b then 1 else 0) 1
  | DInt _ _, VBool b => VInt (if b then 1 else 0)
  | _, _ => v
  end.

(* (the resolved dtype is computed once per array, not once per cell) *)
Definition cast_nan (d : dtype) : val -> val := let r := resolve_nan d in fun v => cast_to r v.

Fixpoint collect (l : list (option val)) : res (list val) :=
  match l with
  | [] => Ok []
  | None :: _ => Err "TypeError"
  | Some v :: t => match collect t with Ok r => Ok (v :: r) | Err e => Err e end
  end.

(* observed Series: labels and values *)
Definition sobs := res (list val * list val).

Definition pairs_sorted (ls vs : list val) : list (val * val) :=
  isort (val * val) (fun p q => val_leb (fst p) (fst q)) (combine ls vs).

Definition pair_list_eqb := list_eqb (pair_eqb val_eqb val_eqb).

(* labels + values against a model result; as a label -> value map when the model does not fix the order *)
Definition lv_eqb (ordered : bool) (ls vs ols ovs : list val) : bool :=
  (Z.of_nat (length ols) =? Z.of_nat (length ovs)) &&
  if ordered then vlist_eqb ls ols && vlist_eqb vs ovs
  else pair_list_eqb (pairs_sorted ls vs) (pairs_sorted ols ovs).

(* Series op Series: the implementation model against the observation *)
Definition MS (o : binop) (swap hier : bool) (dia dib dva dvb : dtype) (ia va ib vb : list val) (obs : sobs) : bool :=
  let sd := dtype_eqb dia dib in
  let objpath := if hier then objpath_2d dia dib else objpath_1d dia dib in
  let eq_idx := (Z.of_nat (length ia) =? Z.of_nat (length ib)) && vlist_eqb ia ib in
  let ordered := eq_idx || fst (M_index_set val val_eqb val_leb val_sortable OpUnion OperandIndex sd objpath ia ib) in
  match M_series_binop val val val_eqb val_leb val_sortable (option val) (np_op_sw o swap)
          sd objpath VNaN (cast_nan dva) (cast_nan dvb) ia va ib vb with
  | None => false
  | Some (idx, rs) =>
      match collect rs, obs with
      | Ok vs, Ok (ols, ovs) => lv_eqb ordered idx vs ols ovs
      | Err e, Err e' => String.eqb e e'
      | _, _ => false
      end
  end.

(* ---- specification check ----
   labels: the union, each once; where both operands hold the label the value equals op(a, b) (numeric
   equality: the dtype may have changed to accommodate the missing marker); elsewhere the missing marker;
   operands with equal indices keep their order and the values keep the class NumPy gives op(a, b). *)
Definition vget := get val val val_eqb.

Definition cell_ok (full : bool) (o : binop) (swap : bool) (ia va ib vb : list val) (l v : val) : bool :=
  match vget ia va l, vget ib vb l with
  | Some x, Some y => match np_op_sw o swap x y with Some w => py_val_eq v w | None => false end
  | _, _ => if full then isna v else true
  end.

Definition SS_gen (full : bool) (o : binop) (swap : bool) (ia va ib vb : list val) (obs : sobs) : bool :=
  match obs with
  | Err _ => false
  | Ok (ols, ovs) =>
      (Z.of_nat (length ols) =? Z.of_nat (length ovs)) &&
      nodupb ols && same_set ols (S_set val val_eqb OpUnion ia ib) &&
      forallb (fun p => cell_ok full o swap ia va ib vb (fst p) (snd p)) (combine ols ovs) &&
      (if vlist_eqb ia ib
       then vlist_eqb ols ia &&
            match collect (map2 val (option val) (np_op_sw o swap) va vb) with
            | Ok vs => vlist_eqb ovs vs
            | Err _ => false
            end
       else true)
  end.

(* the property as stated *)
Definition SS := SS_gen true.
(* the same without the demand on unmatched labels (used next to the known finding D12, so that a wrong
   pairing at matched labels is still reported for comparison operators) *)
Definition SSm := SS_gen false.

(* kernel: IndexCorrespondence.from_correspondence observed as (has_common, is_subset, size, iloc_src, iloc_dst);
   (dst, src) position pairs are compared as a set when not a subset (the order of the common labels may
   be a hash order) *)
Definition pairs_nat_sorted (dst src : list nat) : list (Z * Z) :=
  isort (Z * Z) (fun p q => fst p <=? fst q) (combine (map Z.of_nat dst) (map Z.of_nat src)).

Definition MIC (hier : bool) (dsrc ddst : dtype) (src dst : list val)
  (ohc osub : bool) (osize : Z) (osrc odst : list Z) : bool :=
  match M_from_correspondence val val_eqb val_leb val_sortable
          (if hier then objpath_2d dsrc ddst else objpath_1d dsrc ddst) src dst with
  | None => false
  | Some c =>
      Bool.eqb (ic_has_common c) ohc && Bool.eqb (ic_is_subset c) osub && (Z.of_nat (ic_size c) =? osize) &&
      list_eqb (pair_eqb Z.eqb Z.eqb) (pairs_nat_sorted (ic_dst c) (ic_src c))
               (isort (Z * Z) (fun p q => fst p <=? fst q) (combine odst osrc))
  end.

(* the specification of a correspondence: exactly the destination positions whose label the source has,
   each paired with the position of that label in the source *)
Definition SIC (src dst : list val) (ohc osub : bool) (osize : Z) (osrc odst : list Z) : bool :=
  let want := flat_map (fun p => match index_of val val_eqb (snd p) src with
                                 | Some s => [(fst p, Z.of_nat s)]
                                 | None => []
                                 end)
                       (combine (map Z.of_nat (seq 0 (length dst))) dst) in
  (osize =? Z.of_nat (length dst)) &&
  Bool.eqb ohc (negb (Z.of_nat (length want) =? 0)) &&
  Bool.eqb osub ((Z.of_nat (length want) =? Z.of_nat (length dst)) && negb (Z.of_nat (length dst) =? 0)) &&
  list_eqb (pair_eqb Z.eqb Z.eqb) want (isort (Z * Z) (fun p q => fst p <=? fst q) (combine odst osrc)).

(* Series op scalar / unlabelled array of the same length: labels unchanged, positional pairing *)
Definition MSA (o : binop) (swap : bool) (ia va other : list val) (obs : sobs) : bool :=
  if negb (Z.of_nat (length va) =? Z.of_nat (length other))
  then match obs with Err e => String.eqb e "ValueError" | Ok _ => false end   (* NumPy cannot broadcast *)
  else
  match collect (map2 val (option val) (np_op_sw o swap) va other), obs with
  | Ok vs, Ok (ols, ovs) => vlist_eqb ia ols && vlist_eqb vs ovs
  | Err e, Err e' => String.eqb e e'
  | _, _ => false
  end.
