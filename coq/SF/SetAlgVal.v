(* C06 -- the set-algebra models instantiated at the observed label type [val], and the Boolean
   checks the correspondence cases evaluate.  No proofs. *)
Require Import SF.Prelude SF.Dtype SF.Value SF.PyDyn Gen.Gen_util Gen.Gen_c06 SF.SetAlg.

(* ---- order on labels: NumPy sort / Python sorted on homogeneous label sets ----
   numbers by value, strings by code point, tuples lexicographically, dates by count; across classes an
   arbitrary fixed rank (only used to canonicalise label SETS whose order the implementation does not fix) *)
Definition val_rank (v : val) : Z :=
  match v with
  | VInt _ | VBool _ | VFlt _ _ => 0
  | VInf _ => 1 | VNaN => 2 | VNone => 3 | VNaT => 4
  | VStr _ => 5 | VBytes _ => 6 | VDt _ _ => 7 | VTd _ _ => 8 | VTup _ => 9
  end.

Fixpoint val_cmp (a b : val) {struct a} : comparison :=
  match num_view a, num_view b with
  | Some (n1, d1), Some (n2, d2) => (n1 * d2 ?= n2 * d1)
  | Some _, None => Lt
  | None, Some _ => Gt
  | None, None =>
      match a, b with
      | VStr x, VStr y => String.compare x y
      | VBytes x, VBytes y => String.compare x y
      | VDt _ x, VDt _ y => (x ?= y)
      | VTd _ x, VTd _ y => (x ?= y)
      | VInf x, VInf y => if Bool.eqb x y then Eq else if x then Lt else Gt
      | VTup l1, VTup l2 =>
          (fix go (x y : list val) : comparison :=
             match x, y with
             | [], [] => Eq
             | [], _ :: _ => Lt
             | _ :: _, [] => Gt
             | u :: us, v :: vs => match val_cmp u v with Eq => go us vs | c => c end
             end) l1 l2
      | _, _ => (val_rank a ?= val_rank b)
      end
  end.

Definition val_leb (a b : val) : bool :=
  match val_cmp a b with Gt => false | _ => true end.

(* label classes Python can order among themselves *)
Definition val_class (v : val) : Z :=
  match v with
  | VInt _ | VBool _ | VFlt _ _ => 0
  | VStr _ => 1
  | VDt _ _ => 2
  | _ => 3     (* None, NaN, tuples ...: not ordered by this model *)
  end.

Definition all_class (c : Z) (l : list val) : bool :=
  forallb (fun v => val_class v =? c) l.

Definition tup_classes (v : val) : option (list Z) :=
  match v with VTup l => Some (map val_class l) | _ => None end.

(* sorted() certainly succeeds: all numbers, all strings, all dates, or tuples whose components have,
   position by position, one orderable class.  Otherwise the model does not predict the order. *)
Definition val_sortable (l : list val) : bool :=
  match l with
  | [] => true
  | v :: _ =>
      match tup_classes v with
      | Some cs => forallb (fun c => c <? 3) cs &&
                   forallb (fun w => option_eqb (list_eqb Z.eqb) (tup_classes w) (Some cs)) l
      | None => let c := val_class v in (c <? 3) && all_class c l
      end
  end.

Definition vmem := mem val val_eqb.
Definition vsort := isort val val_leb.

Definition is_str_dtype (d : dtype) : bool :=
  match d with DStr _ | DBytes _ => true | _ => false end.

(* dtype = resolve_dtype(array.dtype, other.dtype) through the REGENERATED util.resolve_dtype *)
Definition resolves_to_object (da db : dtype) : bool :=
  match resolve_dtype (PDtype da) (PDtype db) with PDtype DObj => true | _ => false end.

(* util._ufunc_set_1d: set_compare or dtype.kind == 'O' *)
Definition objpath_1d (da db : dtype) : bool :=
  xorb (is_str_dtype da) (is_str_dtype db) || resolves_to_object da db.
(* util._ufunc_set_2d: dtype.kind == 'O' *)
Definition objpath_2d (da db : dtype) : bool := resolves_to_object da db.

(* observed result against a model result whose order may be unspecified *)
(* labels are compared by Python equality (5 == 5.0: a union with an empty float64 operand comes back as
   float64 labels, which denote the same labels) *)
Definition plist_eqb := list_eqb py_val_eq.
Definition pmem (x : val) (l : list val) : bool := existsb (py_val_eq x) l.

Definition set_res_eqb (r : bool * list val) (obs : list val) : bool :=
  if fst r then plist_eqb (snd r) obs else plist_eqb (vsort (snd r)) (vsort obs).

(* util.union1d / intersect1d / setdiff1d called directly *)
Definition MU1 (op : setop) (au : bool) (da db : dtype) (a b obs : list val) : bool :=
  set_res_eqb (M_ufunc_set val val_eqb val_leb val_sortable op au (objpath_1d da db) a b) obs.
Definition MU2 (op : setop) (au : bool) (da db : dtype) (a b obs : list val) : bool :=
  set_res_eqb (M_ufunc_set val val_eqb val_leb val_sortable op au (objpath_2d da db) a b) obs.

(* Index.union / intersection / difference *)
Definition MI1 (op : setop) (k : operand_kind) (da db : dtype) (a b obs : list val) : bool :=
  set_res_eqb (M_index_set val val_eqb val_leb val_sortable op k (dtype_eqb da db) (objpath_1d da db) a b) obs.

(* IndexHierarchy.union / ...: labels are tuples; both_sized and depth mismatch raises ErrorInitIndex.
   IndexHierarchy.equals(compare_dtype=True) compares the per-depth dtypes: [same_dtypes]. *)
Definition MI2 (op : setop) (k : operand_kind) (same_dtypes : bool) (da db : dtype) (depth_a depth_b : Z)
  (a b : list val) (obs : res (list val)) : bool :=
  let both_sized := negb (is_nil val a) && negb (is_nil val b) in
  if both_sized && negb (depth_a =? depth_b) then res_eqb vlist_eqb (Err "ErrorInitIndex") obs
  else match obs with
       | Ok o => set_res_eqb (M_index_set val val_eqb val_leb val_sortable op k same_dtypes (objpath_2d da db) a b) o
       | Err _ => false
       end.

(* util.ufunc_set_iter *)
Definition MIter (union au : bool) (da : dtype) (arrays : list (list val)) (obs : list val) : bool :=
  match arrays with
  | [] => false
  | x :: t => plist_eqb (vsort (M_set_iter val val_eqb val_leb val_sortable union au (objpath_1d da da) x t)) (vsort obs)
  end.

(* ---- specification check: exactly the labels set algebra prescribes, each once; identical operands
   keep their order (the difference of identical operands is empty) ---- *)
Fixpoint nodupb (l : list val) : bool :=
  match l with [] => true | x :: t => negb (pmem x t) && nodupb t end.

Definition same_set (a b : list val) : bool :=
  forallb (fun x => pmem x b) a && forallb (fun x => pmem x a) b.

(* [both_indices]: the other operand is an index too (the property speaks of operations OF INDICES; an
   ndarray / list / set operand with the same labels is not "an identical operand") *)
Definition SI (op : setop) (both_indices : bool) (a b obs : list val) : bool :=
  nodupb obs && same_set obs (S_set val val_eqb op a b) &&
  (if both_indices && vlist_eqb a b then plist_eqb obs (match op with OpDiff => [] | _ => a end) else true).

Definition SIter (union : bool) (arrays : list (list val)) (obs : list val) : bool :=
  match arrays with
  | [] => false
  | x :: t =>
      nodupb obs &&
      same_set obs (fold_left (fun acc y => S_set val val_eqb (if union then OpUnion else OpInter) acc y) t
                              (dedup val val_eqb x))
  end.

(* ---- Index.equals(skipna=True) (index.py:1217-1258), the equal-operands shortcut of every alignment path:
   same length and, position by position, equal labels or `isna_both`; the two operands of the mask
   `isna_array(<x>.values, include_none=False) & isna_array(<y>.values, include_none=False)` are REGENERATED
   from the source (Gen/Gen_c06.v) ---- *)
Definition isna_label (v : val) : bool := match v with VNaN | VNaT => true | _ => false end.

Definition mask_side_is_other (k : nat) : bool :=
  String.eqb (nth k src_index_equals_mask_operands ""%string) "other"%string.

Definition M_index_equals (a b : list val) : bool :=
  (Z.of_nat (length a) =? Z.of_nat (length b)) &&
  forallb (fun p => py_val_eq (fst p) (snd p) ||
                    (isna_label (if mask_side_is_other 0 then snd p else fst p) &&
                     isna_label (if mask_side_is_other 1 then snd p else fst p)))
          (combine a b).

(* specification: the same labels in the same order, a missing label matching a missing label *)
Definition S_index_equals (a b : list val) : bool :=
  (Z.of_nat (length a) =? Z.of_nat (length b)) &&
  forallb (fun p => py_val_eq (fst p) (snd p) || (isna_label (fst p) && isna_label (snd p))) (combine a b).

Definition MEQ (a b : list val) (obs : bool) : bool := Bool.eqb (M_index_equals a b) obs.
Definition SEQ (a b : list val) (obs : bool) : bool := Bool.eqb (S_index_equals a b) obs.
