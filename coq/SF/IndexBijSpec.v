(* C02 -- flat indices: the SPECIFICATION side (no dependency on anything regenerated from the source,
   so that S can still be evaluated when the model M or its generated constants are broken).
   S_*: an index over the label sequence l IS the list l; lookup = first position, membership = list
   membership, construction accepted iff the labels are pairwise distinct; a grow-only index accepts
   exactly the new labels (extend: all or nothing). *)
Require Import SF.Prelude SF.PySlice.

Definition iota (n : nat) : list Z := map Z.of_nat (seq 0 n).
Definition zlen {A} (l : list A) : Z := Z.of_nat (length l).

(* Python class of a presented key, as far as the map-less fast paths can tell keys apart:
   int / numpy integer; bool; None; anything else (str, float, tuple, date ...) *)
Inductive kclass := KInt | KBool | KNone | KOther.

Section Spec.
  Variable C : Type.
  Variable ceqb : C -> C -> bool.
  Variable of_Z : Z -> C.            (* the label that is the integer z *)

  Definition key := (C * kclass)%type.

  Definition int_typed (k : key) : bool := match snd k with KInt | KBool => true | _ => false end.

  Fixpoint memb (x : C) (l : list C) : bool :=
    match l with [] => false | y :: ys => ceqb x y || memb x ys end.

  Fixpoint nodupb (l : list C) : bool :=
    match l with [] => true | x :: xs => negb (memb x xs) && nodupb xs end.

  Fixpoint index_of (x : C) (l : list C) : option Z :=
    match l with
    | [] => None
    | y :: ys => if ceqb x y then Some 0 else option_map Z.succ (index_of x ys)
    end.

  Definition S_lookup (l : list C) (k : key) : res Z :=
    match index_of (fst k) l with Some i => Ok i | None => Err "KeyError" end.

  Definition S_contains (l : list C) (k : key) : bool := memb (fst k) l.

  Record obs := mk_obs {
    o_values : list C;          (* index.values *)
    o_iter : list C;            (* list(index) *)
    o_rev : list C;             (* list(reversed(index)) *)
    o_len : Z;                  (* len(index) *)
    o_pos : list Z;             (* index.positions *)
    o_at : list C;              (* [index.iloc[i] for i in range(len)] *)
    o_lookup : list (res Z);    (* index.loc_to_iloc(k) for each probe *)
    o_contains : list bool      (* k in index for each probe *)
  }.

  Definition S_observe (l : list C) (probes : list key) : obs :=
    mk_obs l l (rev l) (zlen l) (iota (length l)) l
           (map (S_lookup l) probes) (map (S_contains l) probes).

  Definition S_index (l : list C) (probes : list key) : res obs :=
    if nodupb l then Ok (S_observe l probes) else Err "ErrorInitIndex".

  Definition S_auto (n : nat) (probes : list key) : obs := S_observe (map of_Z (iota n)) probes.

  Fixpoint res_list {A} (l : list (res A)) : res (list A) :=
    match l with
    | [] => Ok []
    | Ok a :: t => match res_list t with Ok r => Ok (a :: r) | Err e => Err e end
    | Err e :: _ => Err e
    end.

  Definition S_lookup_list (l : list C) (ks : list key) : res (list Z) :=
    res_list (map (S_lookup l) ks).

  Definition opt_key_pos (f : key -> res Z) (k : option key) : res (option Z) :=
    match k with
    | None => Ok None
    | Some k => match f k with Ok i => Ok (Some i) | Err e => Err e end
    end.

  Definition stop_pos (step : option Z) (p : option Z) : option Z :=
    match p with
    | None => None
    | Some i =>
        let up := match step with None => true | Some s => 0 <? s end in
        if up then Some (i + 1) else if i - 1 <? 0 then None else Some (i - 1)
    end.

  Definition loc_slice (f : key -> res Z) (start stop : option key) (step : option Z) : res slice :=
    match opt_key_pos f start with
    | Err e => Err e
    | Ok a => match opt_key_pos f stop with
              | Err e => Err e
              | Ok b => Ok (mk_slice a (stop_pos step b) step)
              end
    end.

  Definition S_lookup_slice (l : list C) := loc_slice (S_lookup l).

  Definition S_select (l : list C) (ps : list Z) : option (list C) := take_positions l ps.

  Fixpoint drop_at (l : list C) (ps : list Z) (i : Z) : list C :=
    match l with
    | [] => []
    | x :: xs => if existsb (Z.eqb i) ps then drop_at xs ps (i + 1) else x :: drop_at xs ps (i + 1)
    end.

  Definition S_drop (l : list C) (ps : list Z) : list C := drop_at l ps 0.

  Definition S_roll (l : list C) (shift : Z) : list C :=
    match l with
    | [] => []
    | _ => let n := zlen l in
           let k := Z.to_nat ((n - shift mod n) mod n) in
           skipn k l ++ firstn k l
    end.

  Inductive op := OpAppend (k : key) | OpExtend (ks : list key) | OpTouch.

  Definition S_go_append (l : list C) (k : key) : list C * bool :=
    if memb (fst k) l then (l, false) else (l ++ [fst k], true).

  Fixpoint S_ext_validate (l seen : list C) (ks : list key) : bool :=
    match ks with
    | [] => true
    | k :: ks' => if memb (fst k) l || memb (fst k) seen then false
                  else S_ext_validate l (fst k :: seen) ks'
    end.

  Definition S_go_extend (l : list C) (ks : list key) : list C * bool :=
    if S_ext_validate l [] ks then (l ++ map fst ks, true) else (l, false).

  Definition S_go_step (l : list C) (o : op) : list C * bool :=
    match o with
    | OpAppend k => S_go_append l k
    | OpExtend ks => S_go_extend l ks
    | OpTouch => (l, true)
    end.

  Fixpoint S_go_run (l : list C) (ops : list op) : list C * list bool :=
    match ops with
    | [] => (l, [])
    | o :: ops' => let '(l1, r) := S_go_step l o in
                   let '(l2, rs) := S_go_run l1 ops' in (l2, r :: rs)
    end.

  Definition is_ok {A} (r : res A) : bool := match r with Ok _ => true | Err _ => false end.
End Spec.

Arguments mk_obs {C}. Arguments o_values {C}. Arguments o_iter {C}. Arguments o_rev {C}.
Arguments o_len {C}. Arguments o_pos {C}. Arguments o_at {C}. Arguments o_lookup {C}.
Arguments o_contains {C}.
Arguments OpAppend {C}. Arguments OpExtend {C}. Arguments OpTouch {C}.
Arguments memb {C}. Arguments nodupb {C}. Arguments index_of {C}. Arguments S_lookup {C}.
Arguments S_contains {C}. Arguments S_observe {C}. Arguments S_index {C}. Arguments S_auto {C}.
Arguments int_typed {C}. Arguments S_lookup_list {C}. Arguments loc_slice {C}. Arguments S_lookup_slice {C}.
Arguments S_select {C}. Arguments S_drop {C}. Arguments S_roll {C}. Arguments drop_at {C}.
Arguments S_ext_validate {C}. Arguments S_go_append {C}. Arguments S_go_extend {C}.
Arguments S_go_step {C}. Arguments S_go_run {C}. Arguments res_list {A}.
