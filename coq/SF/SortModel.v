(* C12 -- sorting of Series / Frame / Index: order on observed values, NumPy oracle models,
   the specification S_* and the implementation model M_* of static-frame's own logic.
   No proofs here (see Proofs/SortStable.v, SortLex.v, SortRefine.v).

   Code modelled (static-frame 0.8.8, /repo/static_frame/core):
     container_util.py:1038-1076  sort_index_for_order        -> M_sifo
     frame.py:4579-4632           Frame.sort_index/sort_columns -> M_frame_sort_index / M_frame_sort_columns
     frame.py:4635-4746           Frame.sort_values            -> M_fsv_order, M_frame_sort_values
     series.py:1665-1735          Series.sort_index/sort_values -> M_series_sort_index / M_series_sort_values
     index.py:1231-1245           Index.sort                    -> M_index_sort
     index_hierarchy.py:1317-1342 IndexHierarchy.sort           -> M_index_sort (depth >= 2)
     index_hierarchy.py:436-462   _from_type_blocks tree-form rejection -> tree_ok
   The loop directions / descending handling are NOT hard-wired: they come from `sort_params`, which
   Gen/Gen_c12.v instantiates from the source text on every run (SF/SortCode.v). *)
Require Import SF.Prelude SF.Dtype SF.Value SF.PyDyn SF.SortCore.

(* ------------------------------------------------------------------ order on values *)
(* NumPy's sort order for the key kinds of the property: numbers (bool < int/float compared by
   value, -inf/+inf, NaN last), strings by code point; NaT after every datetime. Values of
   different kinds are ordered by kind rank so that val_leb is a total preorder on all of `val`
   (mixed str/number keys raise in NumPy and are outside the property's quantifier). *)
Definition val_rank (v : val) : Z :=
  match v with
  | VInf true => 0
  | VInt _ | VBool _ | VFlt _ _ => 1
  | VInf false => 2
  | VNaN => 3
  | VStr _ => 4
  | VBytes _ => 5
  | VDt _ _ => 6
  | VTd _ _ => 7
  | VNaT => 8
  | VNone => 9
  | VTup _ => 10
  end.

(* numerator / positive denominator *)
Definition val_num (v : val) : Z * Z :=
  match v with
  | VInt z => (z, 1)
  | VBool b => ((if b then 1 else 0), 1)
  | VFlt n d => (n, Z.max 1 d)
  | VDt _ z => (z, 1)
  | VTd _ z => (z, 1)
  | _ => (0, 1)
  end.

Fixpoint str_codes (s : string) : list Z :=
  match s with
  | EmptyString => []
  | String c t => Z.of_N (N_of_ascii c) :: str_codes t
  end.

Definition val_str (v : val) : list Z :=
  match v with VStr s => str_codes s | VBytes s => str_codes s | _ => [] end.

Fixpoint list_leb (a b : list Z) : bool :=
  match a, b with
  | [], _ => true
  | _ :: _, [] => false
  | x :: a', y :: b' => (x <? y) || ((x =? y) && list_leb a' b')
  end.

Definition rank_leb (x y : val) : bool := val_rank x <=? val_rank y.
Definition num_leb (x y : val) : bool :=
  fst (val_num x) * snd (val_num y) <=? fst (val_num y) * snd (val_num x).
Definition str_leb (x y : val) : bool := list_leb (val_str x) (val_str y).

Definition val_leb : val -> val -> bool := lexs [rank_leb; num_leb; str_leb].

(* position i before position j when the key at i is <= the key at j *)
Definition key_leb (keyvec : list val) (i j : nat) : bool :=
  val_leb (nth i keyvec VNone) (nth j keyvec VNone).

(* ------------------------------------------------------------------ S: the specification *)
(* keys: the key vectors, PRIMARY FIRST (first key column / outermost index depth first).
   Ascending: the stable sort of the positions 0..n-1 under the lexicographic key order.
   Descending: "exactly the reverse of that arrangement". *)
Definition S_order (keys : list (list val)) (n : nat) (asc : bool) : list nat :=
  let o := S_sort (lexs (map key_leb keys)) (seq 0 n) in
  if asc then o else rev o.

Definition take {X} (d : X) (order : list nat) (l : list X) : list X :=
  map (fun i => nth i l d) order.

Definition reorder_rows (order : list nat) (f : oframe) : oframe :=
  mk_oframe (take VNone order (of_index f)) (of_columns f)
            (map (fun c => (fst c, take VNone order (snd c))) (of_cols f)) (of_name f).

Definition reorder_cols (order : list nat) (f : oframe) : oframe :=
  mk_oframe (of_index f) (take VNone order (of_columns f))
            (take (DObj, []) order (of_cols f)) (of_name f).

Definition reorder_series (order : list nat) (s : oseries) : oseries :=
  mk_oseries (take VNone order (os_index s)) (take VNone order (os_values s)) (os_dtype s) (os_name s).

(* the (label, row values) association at position i, and all of them in order *)
Definition frame_row (f : oframe) (i : nat) : val * list val :=
  (nth i (of_index f) VNone, map (fun c => nth i (snd c) VNone) (of_cols f)).
Definition frame_rows (f : oframe) : list (val * list val) :=
  map (frame_row f) (seq 0 (length (of_index f))).
Definition frame_col (f : oframe) (j : nat) : val * (dtype * list val) :=
  (nth j (of_columns f) VNone, nth j (of_cols f) (DObj, [])).
Definition frame_cols (f : oframe) : list (val * (dtype * list val)) :=
  map (frame_col f) (seq 0 (length (of_columns f))).
Definition series_item (s : oseries) (i : nat) : val * val :=
  (nth i (os_index s) VNone, nth i (os_values s) VNone).
Definition series_items (s : oseries) : list (val * val) :=
  map (series_item s) (seq 0 (length (os_index s))).

(* key vectors of an index: the labels themselves (depth 1) or one vector per depth, outermost first *)
Definition tup_items (v : val) : list val := match v with VTup l => l | x => [x] end.
Definition depth_vec (labels : list val) (d : nat) : list val :=
  map (fun l => nth d (tup_items l) VNone) labels.
Definition index_keys (depth : nat) (labels : list val) : list (list val) :=
  if (depth <=? 1)%nat then [labels] else map (depth_vec labels) (seq 0 depth).

Definition col_vals (f : oframe) (j : nat) : list val := snd (nth j (of_cols f) (DObj, [])).
Definition row_vals (f : oframe) (i : nat) : list val := map (fun c => nth i (snd c) VNone) (of_cols f).

Definition S_frame_sort (axis : Z) (f : oframe) (keys : list (list val)) (asc : bool) : oframe :=
  if axis =? 1 then reorder_rows (S_order keys (length (of_index f)) asc) f
  else reorder_cols (S_order keys (length (of_columns f)) asc) f.

Definition S_series_sort (s : oseries) (keys : list (list val)) (asc : bool) : oseries :=
  reorder_series (S_order keys (length (os_index s)) asc) s.

Definition S_index_sort (labels : list val) (keys : list (list val)) (asc : bool) : list val :=
  take VNone (S_order keys (length labels) asc) labels.

(* ------------------------------------------------------------------ NumPy oracle models *)
Definition np_argsort (v : list val) : list nat :=
  M_msort (key_leb v) (seq 0 (length v)).

(* keys consumed first to last, each pass a stable argsort of the running arrangement:
   the LAST key of the sequence is the primary one *)
Definition np_lexsort (keys : list (list val)) : list nat :=
  fold_left (fun perm k => M_msort (key_leb k) perm) keys (seq 0 (length (hd [] keys))).

(* ------------------------------------------------------------------ M: static-frame's logic *)
(* "container for sort" as the code classifies what it sorts by (the key function's result, or
   the index / selected values themselves).  vecs = the key vectors in the container's own order
   (columns of a 2-D array / Frame for a row sort, rows for a column sort, depths of an
   IndexHierarchy); veclen = the container's extent along the sorted axis. *)
Inductive cfs :=
| CArr1 (v : list val)
| CArr2 (veclen : nat) (vecs : list (list val))
| CSeries (v : list val)
| CFrame (veclen : nat) (vecs : list (list val))
| CIndex (v : list val)
| CIH (veclen : nat) (vecs : list (list val)).

Definition cfs_keys (c : cfs) : list (list val) :=
  match c with
  | CArr1 v | CSeries v | CIndex v => [v]
  | CArr2 _ vs | CFrame _ vs | CIH _ vs => vs
  end.

Definition cfs_len (c : cfs) : nat :=
  match c with
  | CArr1 v | CSeries v | CIndex v => length v
  | CArr2 n _ | CFrame n _ | CIH n _ => n
  end.

Definition finish (desc_rev asc : bool) (o : list nat) : list nat :=
  if asc then o else if desc_rev then rev o else o.

(* container_util.py:1038-1076.  n = len(index); c = key(index) or the index itself.
   Err "Order2D": for a 2-D array with ONE column the code computes np.argsort of the 2-D array,
   i.e. a 2-D "order" (the callers then fail with TypeError when indexing with it). *)
Definition M_sifo (p : sort_params) (n : nat) (c : cfs) (checked : bool) (asc : bool) : res (list nat) :=
  if checked && (p_sifo_len_check p && negb (cfs_len c =? n)%nat) then Err "RuntimeError" else
  let depth := match c with
               | CArr1 _ | CIndex _ | CSeries _ => 1
               | CArr2 _ vs | CIH _ vs | CFrame _ vs => Z.of_nat (length vs)
               end in
  if depth >? p_sifo_thr p then
    match c with
    | CArr2 _ vs => Ok (finish (p_sifo_desc p) asc (np_lexsort (dir_apply (p_sifo_arr p) vs)))
    | CIH _ vs => Ok (finish (p_sifo_desc p) asc (np_lexsort (dir_apply (p_sifo_idx p) vs)))
    | _ => Err "AttributeError"
    end
  else
    match c with
    | CArr1 v | CIndex v => Ok (finish (p_sifo_desc p) asc (np_argsort v))
    | CArr2 _ _ => Err "Order2D"
    | _ => Err "AttributeError"
    end.

Definition index_cfs (depth : nat) (labels : list val) : cfs :=
  if (depth <=? 1)%nat then CIndex labels
  else CIH (length labels) (map (depth_vec labels) (seq 0 depth)).

Definition M_sifo_top (p : sort_params) (depth : nat) (labels : list val) (keyres : option cfs) (asc : bool)
  : res (list nat) :=
  match keyres with
  | Some c => M_sifo p (length labels) c true asc
  | None => M_sifo p (length labels) (index_cfs depth labels) false asc
  end.

(* index_hierarchy.py:436-462 -- a label sequence is accepted only in tree form: a prefix that was
   seen before may only continue the immediately preceding row *)
Fixpoint tree_scan (depth : nat) (seen : list (list val)) (rows : list (list val)) : bool :=
  match rows with
  | [] => true
  | r :: rest =>
      let prev := hd [] seen in
      let bad := existsb (fun d =>
                   existsb (fun s => list_eqb py_val_eq (firstn (S d) s) (firstn (S d) r)) seen
                   && negb (py_val_eq (nth d r VNone) (nth d prev VNone)))
                 (seq 0 (depth - 1)) in
      if bad then false else tree_scan depth (r :: seen) rest
  end.
Definition tree_ok (depth : nat) (labels : list val) : bool :=
  tree_scan depth [] (map tup_items labels).

(* index[order] : positions out of range raise; a hierarchical result must be in tree form *)
Definition reorder_index (depth : nat) (labels : list val) (order : list nat) : res (list val) :=
  if existsb (fun i => (length labels <=? i)%nat) order then Err "IndexError" else
  let l' := take VNone order labels in
  if (2 <=? depth)%nat && negb (tree_ok depth l') then Err "ErrorInitIndex" else Ok l'.

Definition order2d_to_typeerror {X} (r : res X) : res X :=
  match r with Err "Order2D" => Err "TypeError" | x => x end.

(* a Frame / Series as observed plus the depth of its index objects *)
Record sframe := mk_sframe { sf_obs : oframe; sf_idepth : nat; sf_cdepth : nat }.
Record sseries := mk_sseries { ss_obs : oseries; ss_idepth : nat }.

Definition M_apply_rows (f : sframe) (order : list nat) : res oframe :=
  idx <- reorder_index (sf_idepth f) (of_index (sf_obs f)) order ;;
  Ok (mk_oframe idx (of_columns (sf_obs f))
        (map (fun c => (fst c, take VNone order (snd c))) (of_cols (sf_obs f))) (of_name (sf_obs f))).

Definition M_apply_cols (f : sframe) (order : list nat) : res oframe :=
  cols <- reorder_index (sf_cdepth f) (of_columns (sf_obs f)) order ;;
  Ok (mk_oframe (of_index (sf_obs f)) cols (take (DObj, []) order (of_cols (sf_obs f))) (of_name (sf_obs f))).

(* frame.py:4579-4604 *)
Definition M_frame_sort_index (p : sort_params) (f : sframe) (keyres : option cfs) (asc : bool) : res oframe :=
  order <- order2d_to_typeerror (M_sifo_top p (sf_idepth f) (of_index (sf_obs f)) keyres asc) ;;
  M_apply_rows f order.

(* frame.py:4606-4632 *)
Definition M_frame_sort_columns (p : sort_params) (f : sframe) (keyres : option cfs) (asc : bool) : res oframe :=
  order <- order2d_to_typeerror (M_sifo_top p (sf_cdepth f) (of_columns (sf_obs f)) keyres asc) ;;
  M_apply_cols f order.

(* frame.py:4653-4724: from the container for sort to the order.  n = extent of the sorted axis;
   `checked` = a key function was given (only then is the length validated) *)
Definition M_fsv_order (dir_arr dir_frame : range_dir) (desc_rev len_check : bool)
           (n : nat) (c : cfs) (checked : bool) (asc : bool) : res (list nat) :=
  if checked && (len_check && negb (cfs_len c =? n)%nat) then Err "RuntimeError" else
  match c with
  | CArr1 v => Ok (finish desc_rev asc (np_argsort v))
  | CArr2 _ [v] => Ok (finish desc_rev asc (np_argsort v))
  | CArr2 _ vs => Ok (finish desc_rev asc (np_lexsort (dir_apply dir_arr vs)))
  | CSeries v => Ok (finish desc_rev asc (np_argsort v))
  | CFrame _ [v] => Ok (finish desc_rev asc (np_argsort v))
  | CFrame _ vs => Ok (finish desc_rev asc (np_lexsort (dir_apply dir_frame vs)))
  | _ => Err "RuntimeError"
  end.

(* what is sorted by when no key function is given: sel = the integer positions the label(s) denote
   on the other axis, `single` = a single label was passed (not a list) *)
Definition fsv_default_cfs (axis : Z) (f : oframe) (sel : list nat) (single : bool) : cfs :=
  if axis =? 1 then CFrame (length (of_index f)) (map (col_vals f) sel)       (* TypeBlocks._extract(column_key) *)
  else if single then CArr1 (row_vals f (hd O sel))                             (* _extract_array(row_key=int) *)
  else CArr2 (length (of_columns f)) (map (row_vals f) sel).                    (* _extract_array(row_key=list) *)

(* frame.py:4635-4746 *)
Definition M_frame_sort_values (p : sort_params) (axis : Z) (f : sframe) (sel : list nat) (single : bool)
           (keyres : option cfs) (asc : bool) : res oframe :=
  let o := sf_obs f in
  let '(c, checked) := match keyres with
                       | Some c => (c, true)
                       | None => (fsv_default_cfs axis o sel single, false)
                       end in
  if axis =? 1 then
    order <- M_fsv_order (p_fsv1_arr p) (p_fsv1_frame p) (p_fsv_desc p) (p_fsv1_len_check p) (length (of_index o)) c checked asc ;;
    M_apply_rows f order
  else if axis =? 0 then
    (* frame.py:4664: without a key function the key row is read with TypeBlocks._extract_array(row_key=...),
       which leaks StopIteration from a Frame that has NO columns (type_blocks.py: next() over zero blocks) *)
    if negb checked && (length (of_cols o) =? 0)%nat then Err "StopIteration" else
    order <- M_fsv_order (p_fsv0_arr p) (p_fsv0_frame p) (p_fsv_desc p) (p_fsv0_len_check p) (length (of_columns o)) c checked asc ;;
    M_apply_cols f order
  else Err "AxisInvalid".

Definition M_apply_series (s : sseries) (order : list nat) : res oseries :=
  idx <- reorder_index (ss_idepth s) (os_index (ss_obs s)) order ;;
  Ok (mk_oseries idx (take VNone order (os_values (ss_obs s))) (os_dtype (ss_obs s)) (os_name (ss_obs s))).

(* series.py:1665-1694 *)
Definition M_series_sort_index (p : sort_params) (s : sseries) (keyres : option cfs) (asc : bool) : res oseries :=
  order <- order2d_to_typeerror (M_sifo_top p (ss_idepth s) (os_index (ss_obs s)) keyres asc) ;;
  M_apply_series s order.

(* series.py:1696-1737 -- the key function's result must have the Series' length (RuntimeError otherwise;
   the check is present iff p_ssv_len_check, which the generated file reads off the source) *)
Definition M_series_sort_values (p : sort_params) (s : sseries) (keyres : option cfs) (asc : bool) : res oseries :=
  match keyres with
  | Some c =>
      let v := hd [] (cfs_keys c) in
      if p_ssv_len_check p && negb (length v =? length (os_values (ss_obs s)))%nat then Err "RuntimeError"
      else M_apply_series s (finish (p_ssv_desc p) asc (np_argsort v))
  | None => M_apply_series s (finish (p_ssv_desc p) asc (np_argsort (os_values (ss_obs s))))
  end.

(* index.py:1231-1245, index_hierarchy.py:1317-1342: labels and name *)
Definition M_index_sort (p : sort_params) (depth : nat) (labels : list val) (keyres : option cfs) (asc : bool)
  : res (list val) :=
  order <- order2d_to_typeerror (M_sifo_top p depth labels keyres asc) ;;
  reorder_index depth labels order.

(* ------------------------------------------------------------------ grow-only IndexHierarchy: label cache *)
(* index_hierarchy.py: `_levels` always holds the current labels; `_blocks` is a cached table of them, valid
   iff not `_recache` (IndexHierarchyGO.append/extend :1674-1687 grow `_levels`, keep the old table and set
   `_recache`; _update_array_cache :692-694 rebuilds the table; values_at_depth :950-968 reads the table after
   a conditional refresh).  sort_index_for_order takes its lexsort keys from values_at_depth. *)
Record ih_state := mk_ih_state {
  ih_labels : list val;              (* what _levels holds: the current labels *)
  ih_table : option (list val);      (* rows of the cached _blocks, None before the first materialisation *)
  ih_recache : bool
}.

Inductive ih_op := IhAppend (l : val) | IhExtend (ls : list val) | IhRead (d : nat).

Definition ih_refresh (c : refresh_cond) (st : ih_state) : ih_state :=
  let go := match c with
            | RefreshOnRecache => ih_recache st
            | RefreshOnMissingTable => match ih_table st with None => true | Some _ => false end
            | RefreshNever => false
            end in
  if go then mk_ih_state (ih_labels st) (Some (ih_labels st)) false else st.

Definition ih_values_at_depth (cp : cache_params) (st : ih_state) (d : nat) : ih_state * list val :=
  let st' := ih_refresh (cp_vad_refresh cp) st in
  (st', depth_vec (match ih_table st' with Some t => t | None => [] end) d).

Definition ih_step (cp : cache_params) (st : ih_state) (op : ih_op) : ih_state :=
  match op with
  | IhAppend l => mk_ih_state (ih_labels st ++ [l]) (ih_table st) (cp_append_sets_recache cp || ih_recache st)
  | IhExtend ls => mk_ih_state (ih_labels st ++ ls) (ih_table st) (cp_extend_sets_recache cp || ih_recache st)
  | IhRead d => fst (ih_values_at_depth cp st d)
  end.

Definition ih_run (cp : cache_params) (ops : list ih_op) (st : ih_state) : ih_state :=
  fold_left (ih_step cp) ops st.

Definition ih_op_labels (op : ih_op) : list val :=
  match op with IhAppend l => [l] | IhExtend ls => ls | IhRead _ => [] end.

(* the lexsort key vectors sort_index_for_order obtains from a hierarchical index in state st *)
Definition ih_key_vectors (cp : cache_params) (st : ih_state) (depth : nat) : list (list val) :=
  map (fun d => snd (ih_values_at_depth cp st d)) (seq 0 depth).

(* ------------------------------------------------------------------ guards of the refinement *)
Definition vecs_len_ok (n : nat) (c : cfs) : bool :=
  (cfs_len c =? n)%nat && forallb (fun v => (length v =? n)%nat) (cfs_keys c).

(* what sort_index_for_order handles correctly: 1-D array / Index, or >= 2 vectors *)
Definition sifo_dom (n : nat) (c : cfs) : bool :=
  vecs_len_ok n c &&
  match c with
  | CArr1 _ | CIndex _ => true
  | CArr2 _ vs | CIH _ vs => (2 <=? length vs)%nat
  | _ => false
  end.

Definition fsv_dom (n : nat) (c : cfs) : bool :=
  vecs_len_ok n c &&
  match c with
  | CArr1 _ | CSeries _ => true
  | CArr2 _ vs | CFrame _ vs => (1 <=? length vs)%nat
  | _ => false
  end.

Definition res_is_err {X} (r : res X) : bool := match r with Err _ => true | Ok _ => false end.

(* NumPy sort kinds that are stable ('mergesort' is an alias of 'stable') *)
Definition kind_is_stable (k : pv) : bool :=
  match k with
  | PStr s => String.eqb s "mergesort" || String.eqb s "stable"
  | _ => false
  end.

(* a hierarchical result must be representable (tree form); flat indices always are *)
Definition hier_ok (depth : nat) (labels : list val) (order : list nat) : bool :=
  negb (2 <=? depth)%nat || tree_ok depth (take VNone order labels).

Definition fsv_n (axis : Z) (o : oframe) : nat :=
  if axis =? 1 then length (of_index o) else length (of_columns o).
Definition fsv_cfs (axis : Z) (o : oframe) (sel : list nat) (single : bool) (keyres : option cfs) : cfs :=
  match keyres with Some c => c | None => fsv_default_cfs axis o sel single end.
(* the one input class where the code fails before sorting: axis 0, no key function, a Frame without columns *)
Definition fsv_zero_ok (axis : Z) (o : oframe) (keyres : option cfs) : bool :=
  negb ((axis =? 0) && match keyres with None => true | Some _ => false end && (length (of_cols o) =? 0)%nat).
Definition fsv_hier_ok (axis : Z) (f : sframe) (order : list nat) : bool :=
  if axis =? 1 then hier_ok (sf_idepth f) (of_index (sf_obs f)) order
  else hier_ok (sf_cdepth f) (of_columns (sf_obs f)) order.

(* equality tests used by the generated cases *)
Definition order_eqb (a : res (list nat)) (b : res (list Z)) : bool :=
  res_eqb (list_eqb Z.eqb) (res_map (map Z.of_nat) a) b.
Definition oframe_res_eqb := res_eqb oframe_eqb.
Definition oseries_res_eqb := res_eqb oseries_eqb.
Definition labels_res_eqb := res_eqb vlist_eqb.
