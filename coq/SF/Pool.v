(* C18 -- worker pools: executable models (no proofs here).

   ORACLE (not static-frame; assumed contract of concurrent.futures.Executor.map, validated by
   the harness on every run, never an Axiom):
     * the argument iterable is consumed EAGERLY, completely, at the call of map();
     * a ThreadPoolExecutor submits one future per argument (chunksize is ignored);
       a ProcessPoolExecutor cuts the arguments into consecutive chunks of `chunksize`
       (_get_chunks) and submits one future per chunk (_process_chunk: the items of a chunk
       are evaluated left to right, the first exception aborts the chunk);
     * at most max_workers futures run at a time, futures are started in submission order,
       they may COMPLETE in any order (the schedule `pi`);
     * the result iterator delivers the results future by future in SUBMISSION order and
       re-raises the exception of the first future (in submission order) that failed.
   `exec_map` below is an executable small-step machine for exactly that contract, with the
   completion order an explicit input; nothing in it assumes that the order does not matter --
   that is what Proofs/PoolExec.v proves.

   STATIC-FRAME (the code under verification):
     M_apply_pool        node_iter.py:93-127 + 340-370   keys recorded by side effect while the
                         arguments are generated, zip(keys, map(...)), VALUES / ITEMS argument shape
     M_batch_pool        batch.py:407-420, 471-487, 517-533 (apply, apply_items, _apply_attr)
     M_batch_pool_except batch.py:422-447, 489-561        submit per item, skip listed exceptions
     ctor_series / ctor_labels / ctor_elements   node_iter.py:437-476, frame.py:1376-1420 (the apply constructors)
     (zipped stores and StoreConfigMap: SF/PoolStore.v)
   and the specifications S_* : the plain sequential loops of the same files. *)
Require Import SF.Prelude.

(* ------------------------------------------------------------------ sequential evaluation *)
Section SeqMap.
  Context {A B : Type}.
  Variable f : A -> res B.

  (* [f(x) for x in xs]: left to right, the first exception ends the evaluation *)
  Fixpoint seq_map (xs : list A) : res (list B) :=
    match xs with
    | [] => Ok []
    | x :: t =>
        match f x with
        | Err e => Err e
        | Ok y => match seq_map t with Ok ys => Ok (y :: ys) | Err e => Err e end
        end
    end.
End SeqMap.

(* ------------------------------------------------------------------ the executor oracle *)
Inductive pool_kind := Threads | Procs.

Section Executor.
  Context {A B : Type}.
  Variable f : A -> res B.

  Definition task : Type := (nat * list A)%type.         (* future id (submission rank), its chunk *)
  Definition outcome : Type := (nat * res (list B))%type. (* future id, result list or exception *)

  (* concurrent.futures.process._get_chunks: islice(it, chunksize) until empty *)
  Fixpoint get_chunks (fuel c : nat) (xs : list A) : list (list A) :=
    match fuel with
    | O => []
    | S fu => match xs with
              | [] => []
              | _ => firstn c xs :: get_chunks fu c (skipn c xs)
              end
    end.

  Fixpoint number {X} (n : nat) (l : list X) : list (nat * X) :=
    match l with [] => [] | x :: t => (n, x) :: number (S n) t end.

  Definition submit (kind : pool_kind) (c : nat) (xs : list A) : list task :=
    match kind with
    | Threads => number 0 (map (fun x => [x]) xs)
    | Procs => number 0 (get_chunks (length xs) c xs)
    end.

  Record pstate := mk_pstate {
    ps_queue : list task;        (* submitted, not started (FIFO) *)
    ps_running : list task;      (* started, at most max_workers, in start order *)
    ps_done : list outcome       (* completed, in COMPLETION order *)
  }.

  Definition refill (k : nat) (q r : list task) : list task * list task :=
    let room := (k - length r)%nat in (skipn room q, r ++ firstn room q).

  Fixpoint pick {X} (i : nat) (l : list X) {struct l} : option (X * list X) :=
    match l with
    | [] => None
    | x :: t => match i with
                | O => Some (x, t)
                | S j => match pick j t with Some (y, r) => Some (y, x :: r) | None => None end
                end
    end.

  Definition run_task (t : task) : outcome := (fst t, seq_map f (snd t)).

  (* one scheduling decision per step: idle workers take the head of the queue, then the running
     future selected by the schedule completes *)
  Fixpoint run (fuel k : nat) (pi : list nat) (st : pstate) : pstate :=
    match fuel with
    | O => st
    | S fu =>
        let '(q, r) := refill k (ps_queue st) (ps_running st) in
        match pick (Nat.modulo (hd O pi) (length r)) r with
        | None => mk_pstate q r (ps_done st)
        | Some (t, r') => run fu k (tl pi) (mk_pstate q r' (ps_done st ++ [run_task t]))
        end
    end.

  Fixpoint lookup {X} (i : nat) (l : list (nat * X)) : option X :=
    match l with
    | [] => None
    | (j, x) :: t => if Nat.eqb i j then Some x else lookup i t
    end.

  (* the result iterator: futures in submission order, first exception re-raised *)
  Fixpoint collect (ids : list nat) (done : list outcome) : res (list B) :=
    match ids with
    | [] => Ok []
    | i :: t =>
        match lookup i done with
        | None => Err "FutureNeverCompleted"
        | Some (Err e) => Err e
        | Some (Ok ys) => match collect t done with Ok zs => Ok (ys ++ zs) | Err e => Err e end
        end
    end.

  (* Executor.map(f, xs, chunksize=c) on a pool of k workers under completion schedule pi.
     max_workers <= 0 and (process pools) chunksize < 1 raise ValueError. *)
  Definition exec_map (kind : pool_kind) (k c : Z) (pi : list nat) (xs : list A) : res (list B) :=
    if k <=? 0 then Err "ValueError"
    else if (match kind with Procs => c <? 1 | Threads => false end) then Err "ValueError"
    else
      let tasks := submit kind (Z.to_nat c) xs in
      let st := run (length tasks) (Z.to_nat k) pi (mk_pstate tasks [] []) in
      collect (map fst tasks) (ps_done st).

  (* Executor.submit per argument + future.result() in submission order (Batch._apply_pool_except):
     every future is waited for, its own outcome is delivered *)
  Definition exec_submit_all (k : Z) (pi : list nat) (xs : list A) : res (list (res B)) :=
    if k <=? 0 then Err "ValueError"
    else
      let tasks := submit Threads 1 xs in
      let st := run (length tasks) (Z.to_nat k) pi (mk_pstate tasks [] []) in
      seq_map (fun i => match lookup i (ps_done st) with
                        | None => Err "FutureNeverCompleted"
                        | Some (Err e) => Ok (Err e)
                        | Some (Ok [y]) => Ok (Ok y)
                        | Some (Ok _) => Err "BadChunk"
                        end) (map fst tasks).
End Executor.

(* ------------------------------------------------------------------ IterNodeDelegate.apply / apply_pool *)
Section ApplyPool.
  Context {K V A B : Type}.
  Variable mk_arg : K -> V -> A.   (* VALUES: fun _ v => v ;  ITEMS: pair *)
  Variable f : A -> res B.

  (* S: apply_iter_items (node_iter.py:290-302) -- the sequential form *)
  Fixpoint S_apply (items : list (K * V)) : res (list (K * B)) :=
    match items with
    | [] => Ok []
    | (k, v) :: t =>
        match f (mk_arg k v) with
        | Err e => Err e
        | Ok y => match S_apply t with Ok r => Ok ((k, y) :: r) | Err e => Err e end
        end
    end.

  (* arg_gen (node_iter.py:112-121): one pass over _func_items(); every step appends the key to
     func_keys (side effect) and yields the argument *)
  Definition arg_gen_step (st : list K * list A) (kv : K * V) : list K * list A :=
    (fst st ++ [fst kv], snd st ++ [mk_arg (fst kv) (snd kv)]).
  Definition arg_gen (items : list (K * V)) : list K * list A :=
    fold_left arg_gen_step items ([], []).

  (* node_iter.py:123-126: zip(func_keys, executor.map(func, arg_gen(), chunksize)).
     `eager` is the oracle assumption: map() has consumed arg_gen() (hence filled func_keys) before
     zip asks func_keys for its first element.  With a lazy map() the list is still empty at that
     moment and zip ends immediately. *)
  Definition M_apply_pool_gen (eager : bool) (kind : pool_kind) (k c : Z) (pi : list nat)
             (items : list (K * V)) : res (list (K * B)) :=
    let '(keys, args) := arg_gen items in
    if eager then res_map (combine keys) (exec_map f kind k c pi args)
    else (if k <=? 0 then Err "ValueError" else Ok []).

  Definition M_apply_pool := M_apply_pool_gen true.
End ApplyPool.

(* ------------------------------------------------------------------ apply constructors (node_iter.py:437-476) *)
Section Ctor.
  Context {K B : Type}.
  (* SERIES_ITEMS / SERIES_ITEMS_FLAT: Series.from_items -> labels and values in delivery order.
     INDEX_LABELS: the keys are dropped, the values kept in order. *)
  Definition ctor_series (pairs : list (K * B)) : list K * list B := (map fst pairs, map snd pairs).
  Definition ctor_labels (pairs : list (K * B)) : list B := map snd pairs.
End Ctor.

(* FRAME_ELEMENTS: Frame.from_element_items(items, index=, columns=, axis=) (frame.py:1376-1420).  The stream is
   cut into records wherever the OUTER key (row label for axis 0, column label for axis 1) changes; the values of a
   record fill one row (column) left to right -- the inner keys are never looked at -- and the records are stacked
   under the container's own index/columns.  Only the well-shaped case is modelled as success: a stream whose records
   do not have the container's shape is reported as Err "ShapeMismatch" (not claimed faithful: ragged records). *)
Section CtorElements.
  Context {K B : Type}.
  Variable keqb : K -> K -> bool.
  Variable outer_of : K * K -> K.     (* axis 0: fst (row label); axis 1: snd (column label) *)

  Fixpoint records_from (cur : K) (acc : list B) (items : list ((K * K) * B)) : list (list B) :=
    match items with
    | [] => [rev acc]
    | (key, v) :: t =>
        if keqb (outer_of key) cur then records_from cur (v :: acc) t
        else rev acc :: records_from (outer_of key) [v] t
    end.

  Definition records (items : list ((K * K) * B)) : res (list (list B)) :=
    match items with
    | [] => Err "RuntimeError"                       (* next() on an empty stream inside the generator *)
    | (key, v) :: t => Ok (records_from (outer_of key) [v] t)
    end.

  (* the element items of the resulting Frame, outer label by outer label *)
  Definition relabel (mk_key : K -> K -> K * K) (outer inner : list K) (recs : list (list B)) : list ((K * K) * B) :=
    flat_map (fun orec => map (fun ib => (mk_key (fst orec) (fst ib), snd ib)) (combine inner (snd orec)))
             (combine outer recs).

  Definition ctor_elements (mk_key : K -> K -> K * K) (outer inner : list K) (items : list ((K * K) * B))
    : res (list ((K * K) * B)) :=
    match records items with
    | Err e => Err e
    | Ok recs =>
        if Nat.eqb (length recs) (length outer) && forallb (fun r => Nat.eqb (length r) (length inner)) recs
        then Ok (relabel mk_key outer inner recs)
        else Err "ShapeMismatch"
    end.
End CtorElements.

(* ------------------------------------------------------------------ Batch (batch.py:407-561) *)
Section BatchPool.
  Context {L F R : Type}.
  Variable mk_arg : L -> F -> (L * F).      (* the bundle carries the frame (and the label for *_items) *)
  Variable f : (L * F) -> res R.            (* call_func / call_func_items / call_attr on the bundle *)
  Variable listed : string -> bool.         (* isinstance(exc, exception) *)

  (* sequential forms (max_workers is None) *)
  Definition S_batch_apply (items : list (L * F)) : res (list (L * R)) :=
    S_apply (fun l x => (l, x)) f items.

  Fixpoint S_batch_apply_except (items : list (L * F)) : res (list (L * R)) :=
    match items with
    | [] => Ok []
    | (l, x) :: t =>
        match f (l, x) with
        | Err e => if listed e then S_batch_apply_except t else Err e
        | Ok y => match S_batch_apply_except t with Ok r => Ok ((l, y) :: r) | Err e => Err e end
        end
    end.

  (* _apply_pool: labels list filled while arg_gen runs, zip(labels, executor.map(caller, arg_iter, chunksize)) *)
  Definition M_batch_pool (kind : pool_kind) (k c : Z) (pi : list nat) (items : list (L * F)) :=
    M_apply_pool (fun l x => (l, x)) f kind k c pi items.

  (* _apply_pool_except: chunksize must be `accepted` (generated from the source: 1); one submit per bundle;
     per future try/except-continue *)
  Fixpoint except_filter (lr : list (L * res R)) : res (list (L * R)) :=
    match lr with
    | [] => Ok []
    | (l, Ok y) :: t => match except_filter t with Ok r => Ok ((l, y) :: r) | Err e => Err e end
    | (l, Err e) :: t => if listed e then except_filter t else Err e
    end.

  Definition M_batch_pool_except (accepted : Z) (k c : Z) (pi : list nat) (items : list (L * F)) : res (list (L * R)) :=
    if negb (c =? accepted) then Err "NotImplementedError"
    else
      let '(labels, args) := arg_gen (fun l x => (l, x)) items in
      match exec_submit_all f k pi args with
      | Err e => Err e
      | Ok rs => except_filter (combine labels rs)
      end.
End BatchPool.

