(* C08 -- SPECIFICATIONS of the functional update interfaces, on plain lists of columns / cells.
   No blocks in sight: a frame is its flattened column list, a key is the list of positions it
   denotes (SF.Blocks.key_positions).  Models only, no proofs (Proofs/UpdateSpec.v, Proofs/BlocksUpdate.v). *)
Require Import SF.Prelude SF.PySlice SF.Dtype SF.Blocks.

Definition memz (i : Z) (ps : list Z) : bool := existsb (Z.eqb i) ps.

(* rank of position i in a key: index of its first occurrence *)
Fixpoint rankz (i : Z) (ps : list Z) : option Z :=
  match ps with
  | [] => None
  | p :: r => if i =? p then Some 0 else match rankz i r with Some k => Some (k + 1) | None => None end
  end.

Section Lists.
Context {X : Type}.

(* walk a list handing every element its position; each element is replaced by a list *)
Fixpoint upd_from (f : Z -> X -> list X) (i : Z) (l : list X) : list X :=
  match l with
  | [] => []
  | x :: r => f i x ++ upd_from f (i + 1) r
  end.

(* drop: the original without exactly the addressed positions, order kept *)
Definition S_drop_at (l : list X) (ps : list Z) : list X :=
  upd_from (fun i x => if memz i ps then [] else [x]) 0 l.

(* point update: exactly the addressed positions changed by g (which may look at the position) *)
Definition S_set_at (g : Z -> X -> X) (l : list X) (ps : list Z) : list X :=
  upd_from (fun i x => [if memz i ps then g i x else x]) 0 l.

(* insert: everything before position k, the inserted items, everything from position k *)
Definition S_insert_at (l : list X) (k : Z) (ins : list X) : list X :=
  firstn (Z.to_nat k) l ++ ins ++ skipn (Z.to_nat k) l.

End Lists.

Section Columns.
Context {A : Type}.
Notation column := (dtype * list A)%type.

(* which positions a key addresses; None = "no key given" *)
Definition drop_positions (k : option ckey) (n : Z) : res (list Z) :=
  match k with None => Ok [] | Some k => key_positions k n end.

(* ---- drop ---- *)
Definition S_drop_columns (cols : list column) (k : option ckey) : res (list column) :=
  match drop_positions k (Z.of_nat (length cols)) with
  | Err e => Err e
  | Ok ps => Ok (S_drop_at cols ps)
  end.

(* ---- mask: same number of columns, Boolean, column `on` where addressed and `off` elsewhere
   (`on` is the row pattern of the row key, `off` is all-False) ---- *)
Definition S_mask_columns (cols : list column) (k : ckey) (on off : list A) : res (list column) :=
  match key_positions k (Z.of_nat (length cols)) with
  | Err e => Err e
  | Ok ps => Ok (S_set_at (fun _ _ => (DBool, on)) (map (fun _ => (DBool, off)) cols) ps)
  end.

(* ---- assign, column part: walking the columns in position order, every addressed column is replaced and the
   addressed columns receive the value columns IN ORDER (value column v, v+1, ... when the value is sliceable
   along the columns; always value column 0 otherwise); everything else is passed through untouched.
   `newdt` maps the old dtype to the dtype after assignment, `cells v old` writes value column v into the old
   cells (the row part, NumPy's) ---- *)
Fixpoint S_assign_from (ps : list Z) (step : Z) (new : Z -> column -> column) (v i : Z) (cols : list column)
  : list column :=
  match cols with
  | [] => []
  | c :: r => if memz i ps then new v c :: S_assign_from ps step new (v + step) (i + 1) r
              else c :: S_assign_from ps step new v (i + 1) r
  end.

Definition S_assign_columns (cols : list column) (ps : list Z) (sliceable : bool)
    (newdt : dtype -> dtype) (cells : Z -> list A -> list A) : list column :=
  S_assign_from ps (if sliceable then 1 else 0) (fun v c => (newdt (fst c), cells v (snd c))) 0 0 cols.

(* ---- astype on a column selection: only the addressed dtypes change (cells converted by `conv`) ---- *)
Definition S_astype_columns (cols : list column) (k : ckey) (d : dtype) (conv : dtype -> list A -> list A)
  : res (list column) :=
  match key_positions k (Z.of_nat (length cols)) with
  | Err e => Err e
  | Ok ps => Ok (S_set_at (fun _ c => (d, conv (fst c) (snd c))) cols ps)
  end.

End Columns.
