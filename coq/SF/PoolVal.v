(* C18 -- instantiation of the pool models at `val` for the correspondence cases (no proofs).
   The harness applies, through real pools, the function
       f(arg) = raise CLS            if digest(canon(arg)) is in the fail table
              = 3 * digest(canon(arg)) + 1   otherwise
   where canon(arg) is the argument flattened to nested tuples (tools/sfv/props/c18.py:canon) and
   digest is the polynomial hash below (c18.py:digest is its Python twin). *)
Require Import SF.Prelude SF.Value SF.Pool SF.PoolStore Gen.Gen_c18.

Definition DMOD : Z := 65521.

Definition str_digest (s : string) : Z :=
  fold_left (fun acc ch => (acc * 31 + Z.of_nat (nat_of_ascii ch)) mod DMOD) (list_ascii_of_string s) 11.

Fixpoint digest (v : val) : Z :=
  match v with
  | VInt z => z mod DMOD
  | VBool b => if b then 1 else 0
  | VStr s => str_digest s
  | VFlt n d => (n * 7 + d) mod DMOD
  | VNone => 3
  | VTup l =>
      (fix go (l : list val) (acc : Z) : Z :=
         match l with
         | [] => acc
         | x :: t => go t ((acc * 131 + digest x + 7) mod DMOD)
         end) l 17
  | _ => 5
  end.

Fixpoint assoc_z {X} (d : Z) (l : list (Z * X)) : option X :=
  match l with
  | [] => None
  | (k, x) :: t => if k =? d then Some x else assoc_z d t
  end.

(* The correspondence cases carry every task VALUE already digested (an integer computed by c18.py:digest on the
   canonical form of the value the sequential iterator delivered); keys stay structured.  The digest of the pair
   (key, value) is a function of the two digests, so the ITEMS argument is computed here. *)
Definition pair_digest (dk dv : Z) : Z := (((17 * 131 + dk + 7) mod DMOD) * 131 + dv + 7) mod DMOD.

(* argument shape, read from the source (Gen_c18.c18_pool_shape / c18_seq_shape): VALUES -> the value; ITEMS -> the (key, value)
   pair.  M uses what the pooled arg_gen() yields, S what the sequential apply_iter_items passes. *)
Definition shape_digest (sh : c18_shape) (dk dv : Z) : Z :=
  match sh with
  | ShV => dv
  | ShK => dk
  | ShKV => pair_digest dk dv
  | ShVK => pair_digest dv dk
  end.
Definition mk_arg_d (items_form : bool) (k : val) (dv : Z) : Z := shape_digest (c18_pool_shape items_form) (digest k) dv.
Definition mk_arg_s (items_form : bool) (k : val) (dv : Z) : Z := shape_digest (c18_seq_shape items_form) (digest k) dv.

Definition pool_f (fails : list (Z * string)) (a : Z) : res val :=
  match assoc_z a fails with
  | Some cls => Err cls
  | None => Ok (VInt (3 * a + 1))
  end.

Definition pairs_eqb : list (val * val) -> list (val * val) -> bool := list_eqb (pair_eqb val_eqb val_eqb).

(* M is compared exactly (labels, order, values, exception class) *)
Definition obs_eqb {X} (eqb : X -> X -> bool) (a b : res X) : bool := res_eqb eqb a b.
(* S: the property fixes labels/order/pairing of a successful run and demands *an* error otherwise *)
Definition spec_eqb {X} (eqb : X -> X -> bool) (a b : res X) : bool :=
  match a, b with
  | Ok x, Ok y => eqb x y
  | Err _, Err _ => true
  | _, _ => false
  end.

(* ---- IterNodeDelegate.apply_pool, Series / Frame-element constructors: observed = the (label, value)
   pairs of the returned container in its own order *)
Definition c18_apply_M (items_form : bool) (fails : list (Z * string)) (kind : pool_kind) (k c : Z)
           (pi : list nat) (items : list (val * Z)) (obs : res (list (val * val))) : bool :=
  obs_eqb pairs_eqb (M_apply_pool (mk_arg_d items_form) (pool_f fails) kind k c pi items) obs.

Definition c18_apply_S (items_form : bool) (fails : list (Z * string))
           (items : list (val * Z)) (obs : res (list (val * val))) : bool :=
  spec_eqb pairs_eqb (S_apply (mk_arg_s items_form) (pool_f fails) items) obs.

(* ---- INDEX_LABELS constructor: an array of the values, keys dropped *)
Definition c18_labels_M (items_form : bool) fails kind k c pi (items : list (val * Z)) (obs : res (list val)) : bool :=
  obs_eqb vlist_eqb (res_map ctor_labels (M_apply_pool (mk_arg_d items_form) (pool_f fails) kind k c pi items)) obs.
Definition c18_labels_S (items_form : bool) fails (items : list (val * Z)) (obs : res (list val)) : bool :=
  spec_eqb vlist_eqb (res_map ctor_labels (S_apply (mk_arg_s items_form) (pool_f fails) items)) obs.

(* ---- the oracle alone: Executor.map(f, xs, chunksize) on a real pool under an enforced schedule *)
Definition c18_exec_M fails kind k c pi (xs : list Z) (obs : res (list val)) : bool :=
  obs_eqb vlist_eqb (exec_map (pool_f fails) kind k c pi xs) obs.

(* ---- Batch: bundle = (label, frame); apply -> f(frame), apply_items -> f((label, frame)) *)
Definition batch_f (items_form : bool) (fails : list (Z * string)) (b : val * Z) : res val :=
  pool_f fails (if items_form then pair_digest (digest (fst b)) (snd b) else snd b).   (* batch.py: call_func / call_func_items *)
Definition listed_cls (cls : string) (e : string) : bool := String.eqb cls e.

Definition c18_batch_M (items_form : bool) fails kind k c pi (items : list (val * Z)) obs : bool :=
  obs_eqb pairs_eqb (M_batch_pool (batch_f items_form fails) kind k c pi items) obs.
Definition c18_batch_S (items_form : bool) fails (items : list (val * Z)) obs : bool :=
  spec_eqb pairs_eqb (S_batch_apply (batch_f items_form fails) items) obs.

Definition c18_batch_except_M (items_form : bool) fails (cls : string) k c pi (items : list (val * Z)) obs : bool :=
  obs_eqb pairs_eqb (M_batch_pool_except (batch_f items_form fails) (listed_cls cls) c18_except_chunksize k c pi items) obs.
Definition c18_batch_except_S (items_form : bool) fails (cls : string) (items : list (val * Z)) obs : bool :=
  spec_eqb pairs_eqb (S_batch_apply_except (batch_f items_form fails) (listed_cls cls) items) obs.

(* ---- zipped stores: frames are identified by an integer (their cell [0,0]); member bytes by the same
   integer; a frame / member in the fail table makes its task raise *)
Definition st_to_bytes (fails : list (Z * string)) (p : val * val) : res val :=
  match snd p with
  | VInt i => match assoc_z i fails with Some cls => Err cls | None => Ok (VInt i) end
  | _ => Err "TypeError"
  end.
(* _build_frame(src, name=label): the frame read back carries the requested label as its name *)
Definition st_of_bytes (fails : list (Z * string)) (p : val * val) : res val :=
  match snd p with
  | VInt i => match assoc_z i fails with Some cls => Err cls | None => Ok (VTup [fst p; VInt i]) end
  | _ => Err "TypeError"
  end.

Definition c18_write_M fails (workers : option Z) (c : Z) pi (items : list (val * val)) obs : bool :=
  obs_eqb pairs_eqb (M_zip_write (st_to_bytes fails) workers c pi items) obs.
Definition c18_write_S fails (items : list (val * val)) obs : bool :=
  spec_eqb pairs_eqb (S_zip_write (st_to_bytes fails) items) obs.
Definition c18_read_M fails (workers : option Z) (c : Z) pi (z : list (val * val)) (labels : list val) obs : bool :=
  obs_eqb vlist_eqb (M_zip_read_many val_eqb (st_of_bytes fails) workers c pi z labels) obs.
Definition c18_read_S fails (z : list (val * val)) (labels : list val) obs : bool :=
  spec_eqb vlist_eqb (S_zip_read_many val_eqb (st_of_bytes fails) z labels) obs.

(* ---- StoreConfigMap(map, default=...): accepted? and the worker settings answered per queried label *)
Definition settings := (option Z * Z * option Z * Z)%type.
Definition settings_eqb (a b : settings) : bool :=
  match a, b with
  | (r1, rc1, w1, wc1), (r2, rc2, w2, wc2) => oz_eqb r1 r2 && (rc1 =? rc2) && oz_eqb w1 w2 && (wc1 =? wc2)
  end.
Definition settings_of (c : wcfg) : settings :=
  (w_read_max_workers c, w_read_chunksize c, w_write_max_workers c, w_write_chunksize c).
Definition c18_config_M (default : wcfg) (m : list (Z * wcfg)) (queries : list Z) (obs : res (list settings)) : bool :=
  obs_eqb (list_eqb settings_eqb)
    (res_map (fun cm => map (fun l => settings_of (cm_get Z.eqb cm l)) queries) (config_map_init default m)) obs.

(* ---- Frame.iter_tuple with the default constructor: the arguments are instances of a namedtuple class
   created on the fly (util.get_tuple_constructor), which pickle cannot serialise: on a process pool every
   task fails with PicklingError before it runs (finding C18-namedtuple-pickle); thread pools do not pickle *)
Definition pool_f_nt (kind : pool_kind) (fails : list (Z * string)) (a : Z) : res val :=
  match kind with Procs => Err "PicklingError" | Threads => pool_f fails a end.
Definition c18_apply_nt_M (items_form : bool) (fails : list (Z * string)) (kind : pool_kind) (k c : Z)
           (pi : list nat) (items : list (val * Z)) (obs : res (list (val * val))) : bool :=
  obs_eqb pairs_eqb (M_apply_pool (mk_arg_d items_form) (pool_f_nt kind fails) kind k c pi items) obs.

(* S for StoreConfigMap: a map with a per-label config whose worker settings differ from the default's must
   not be accepted; an accepted map answers every label with the default's worker settings.  (Rejecting is
   always allowed by this property.) *)
Definition c18_config_S (default : wcfg) (m : list (Z * wcfg)) (obs : res (list settings)) : bool :=
  match obs with
  | Err _ => true
  | Ok sets =>
      negb (existsb (fun p => negb (settings_eqb (settings_of (snd p)) (settings_of default))) m)
      && forallb (settings_eqb (settings_of default)) sets
  end.

(* ---- FRAME_ELEMENTS: keys are (row label, column label) pairs; the returned Frame is rebuilt from the delivered
   stream by run segmentation on the outer key (SF/Pool.v: ctor_elements), observed through iter_element_items(axis) *)
Definition mk_arg_e (items_form : bool) (k : val * val) (dv : Z) : Z :=
  shape_digest (c18_pool_shape items_form) (digest (VTup [fst k; snd k])) dv.
Definition mk_arg_es (items_form : bool) (k : val * val) (dv : Z) : Z :=
  shape_digest (c18_seq_shape items_form) (digest (VTup [fst k; snd k])) dv.
Definition ekey_eqb := pair_eqb val_eqb val_eqb.
Definition epairs_eqb : list ((val * val) * val) -> list ((val * val) * val) -> bool := list_eqb (pair_eqb ekey_eqb val_eqb).
Definition outer_of_axis (axis1 : bool) (k : val * val) : val := if axis1 then snd k else fst k.
Definition mk_key_axis (axis1 : bool) (o i : val) : val * val := if axis1 then (i, o) else (o, i).

Definition c18_elements_M (axis1 items_form : bool) (fails : list (Z * string)) (kind : pool_kind) (k c : Z)
           (pi : list nat) (outer inner : list val) (items : list ((val * val) * Z)) (obs : res (list ((val * val) * val))) : bool :=
  obs_eqb epairs_eqb
    (match M_apply_pool (mk_arg_e items_form) (pool_f fails) kind k c pi items with
     | Err e => Err e
     | Ok stream => ctor_elements val_eqb (outer_of_axis axis1) (mk_key_axis axis1) outer inner stream
     end) obs.
Definition c18_elements_S (items_form : bool) (fails : list (Z * string))
           (items : list ((val * val) * Z)) (obs : res (list ((val * val) * val))) : bool :=
  spec_eqb epairs_eqb (S_apply (mk_arg_es items_form) (pool_f fails) items) obs.
