(* C07: reading the dynamic values returned by the regenerated fill-value kernels as elements. No proofs. *)
Require Import SF.Prelude SF.PySlice SF.Dtype SF.PyDyn SF.Coerce.
Local Open Scope string_scope.
Local Open Scope Z_scope.

Definition decode_elem (v : pv) : option elem :=
  match v with
  | PNone => Some (EPy XNone)
  | PInt z => Some (EPy (XInt z))
  | PBool b => Some (EPy (XBool b))
  | PStr s => Some (EPy (XStr s))
  | PConst c =>
      if String.eqb c "nan" then Some (EPy (XFlt FNaN))
      else if String.eqb c "NaT" then Some (ENp (DDt UGen) (XNaT false))       (* util.NAT = np.datetime64('nat') *)
      else if String.eqb c "td0" then Some (ENp (DTd UGen) (XTd UGen 0))        (* util.EMPTY_TIMEDELTA = np.timedelta64(0) *)
      else None
  | _ => None
  end.
