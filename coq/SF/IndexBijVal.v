(* C02 -- the flat index MODELS at SF.Value.val: comparison functions the correspondence cases call
   for M (the specification side is SF.IndexBijSpecVal).  MODELS ONLY. *)
Require Import SF.Prelude SF.Value SF.PySlice SF.IndexBij.
Require Export SF.IndexBijSpecVal.

(* ---- entry points used by tools/sfv/props/c02.py (labels / probes are raw observed values) ---- *)
Definition vM_index (labels probes : list val) : res vobs :=
  M_index val_eqb vto_Z (map canon labels) (map vkey probes).

Definition chk_M_index labels probes (observed : res vobs) : bool :=
  robs_eqb (vM_index labels probes) (robs_canon observed).

(* Index(labels, dtype=d): raw = labels as given, cast = np.array(labels, dtype=d) *)
Definition chk_M_index_dtype raw cast probes (observed : res vobs) : bool :=
  robs_eqb (M_index_dtype val_eqb vto_Z (map canon raw) (map canon cast) (map vkey probes)) (robs_canon observed).

Definition chk_M_auto (n : Z) probes (observed : vobs) : bool :=
  obs_eqb (M_auto val_eqb VInt vto_Z (Z.to_nat n) (map vkey probes)) (obs_canon observed).

(* list / slice keys *)
Definition chk_M_list labels (ks : list val) (observed : res (list Z)) : bool :=
  match M_index_init val_eqb (map canon labels) with
  | Ok ix => res_eqb (list_eqb Z.eqb) (M_loc_to_iloc_list val_eqb vto_Z ix (map vkey ks)) observed
  | Err _ => false
  end.

Definition chk_M_slice labels (a b : option val) (st : option Z) (observed : res slice) : bool :=
  match M_index_init val_eqb (map canon labels) with
  | Ok (mk_index _ (Some m)) =>
      res_eqb slice_eqb (M_loc_to_iloc_slice val_eqb m (option_map vkey a) (option_map vkey b) st) observed
  | _ => false
  end.

Definition go_start (init : list val + Z) : res (go val) :=
  match init with
  | inl l => M_go_init val_eqb (map canon l)
  | inr n => Ok (M_go_auto VInt (Z.to_nat n))
  end.

(* observed: per-op outcome (Ok tt / Err class) and the final observation *)
Definition chk_M_go init (ops : list vop) probes (outs : list (res unit)) (observed : vobs) : bool :=
  match go_start init with
  | Err _ => false
  | Ok g => let '(g', rs) := M_go_run val_eqb vto_Z g (map vop_op ops) in
            list_eqb res_unit_eqb rs outs &&
            obs_eqb (M_go_observe val_eqb vto_Z g' (map vkey probes)) (obs_canon observed)
  end.
Definition chk_M_derived (expect : res (list val)) probes (observed : res vobs) : bool :=
  match expect with
  | Err e => match observed with Err e' => String.eqb e e' | Ok _ => false end
  | Ok l => chk_M_index l probes observed
  end.

(* oracle sweep: the real AutoMap against am_build / am_get *)
Definition chk_automap (labels : list val) (observed : res (list (val * Z))) : bool :=
  match am_build val_eqb (map canon labels), observed with
  | Ok m, Ok kvs => forallb (fun kv => option_eqb Z.eqb (am_get val_eqb m (canon (fst kv))) (Some (snd kv))) kvs &&
                    Nat.eqb (length m) (length kvs)
  | Err e, Err e' => String.eqb e e'
  | _, _ => false
  end.
