(* C02 -- instantiation of the flat index models at SF.Value.val, and the comparison functions the
   correspondence cases call.  MODELS ONLY.

   canon: the canonical representative of a label under Python equality/hash
   (True == 1 == 1.0, (1, 2) == (1.0, 2.0)); NaN labels are outside C02.  Floats arrive as exact
   num/den in lowest terms (float.as_integer_ratio), so an integral float has den = 1. *)
Require Import SF.Prelude SF.Value SF.PySlice SF.IndexBij.

Fixpoint canon (v : val) : val :=
  match v with
  | VBool b => VInt (if b then 1 else 0)
  | VFlt n d => if d =? 1 then VInt n else VFlt n d
  | VTup l => VTup (map canon l)
  | _ => v
  end.

(* Python class is an integer type: int, bool, numpy integer *)
Definition int_typed (v : val) : bool :=
  match v with VInt _ | VBool _ => true | _ => false end.

Definition vto_Z (v : val) : option Z := match v with VInt z => Some z | _ => None end.

Definition vkey (v : val) : key val := (canon v, int_typed v).

Notation vobs := (obs val).

Definition res_unit_eqb (a b : res unit) : bool :=
  match a, b with Ok _, Ok _ => true | Err x, Err y => String.eqb x y | _, _ => false end.

Definition obs_eqb (a b : vobs) : bool :=
  vlist_eqb (o_values a) (o_values b) && vlist_eqb (o_iter a) (o_iter b) &&
  vlist_eqb (o_rev a) (o_rev b) && (o_len a =? o_len b) &&
  list_eqb Z.eqb (o_pos a) (o_pos b) && vlist_eqb (o_at a) (o_at b) &&
  list_eqb (res_eqb Z.eqb) (o_lookup a) (o_lookup b) &&
  list_eqb Bool.eqb (o_contains a) (o_contains b).

(* an observation as printed by the harness (raw values) -> canonical *)
Definition obs_canon (o : vobs) : vobs :=
  mk_obs (map canon (o_values o)) (map canon (o_iter o)) (map canon (o_rev o)) (o_len o) (o_pos o)
         (map canon (o_at o)) (o_lookup o) (o_contains o).

Definition robs_eqb (a b : res vobs) : bool := res_eqb obs_eqb a b.
Definition robs_canon (r : res vobs) : res vobs := res_map obs_canon r.

(* ---- entry points used by tools/sfv/props/c02.py (labels / probes are raw observed values) ---- *)
Definition vM_index (labels probes : list val) : res vobs :=
  M_index val_eqb vto_Z (map canon labels) (map vkey probes).
Definition vS_index (labels probes : list val) : res vobs :=
  S_index val_eqb (map canon labels) (map vkey probes).

Definition chk_M_index labels probes (observed : res vobs) : bool :=
  robs_eqb (vM_index labels probes) (robs_canon observed).
Definition chk_S_index labels probes (observed : res vobs) : bool :=
  robs_eqb (vS_index labels probes) (robs_canon observed).

Definition chk_M_auto (n : Z) probes (observed : vobs) : bool :=
  obs_eqb (M_auto val_eqb VInt vto_Z (Z.to_nat n) (map vkey probes)) (obs_canon observed).
Definition chk_S_auto (n : Z) probes (observed : vobs) : bool :=
  obs_eqb (S_auto val_eqb VInt (Z.to_nat n) (map vkey probes)) (obs_canon observed).

(* list / slice keys *)
Definition chk_M_list labels (ks : list val) (observed : res (list Z)) : bool :=
  match M_index_init val_eqb (map canon labels) with
  | Ok ix => res_eqb (list_eqb Z.eqb) (M_loc_to_iloc_list val_eqb vto_Z ix (map vkey ks)) observed
  | Err _ => false
  end.
Definition chk_S_list labels (ks : list val) (observed : res (list Z)) : bool :=
  res_eqb (list_eqb Z.eqb) (S_lookup_list val_eqb (map canon labels) (map vkey ks)) observed.

Definition chk_M_slice labels (a b : option val) (st : option Z) (observed : res slice) : bool :=
  match M_index_init val_eqb (map canon labels) with
  | Ok (mk_index _ (Some m)) =>
      res_eqb slice_eqb (M_loc_to_iloc_slice val_eqb m (option_map vkey a) (option_map vkey b) st) observed
  | _ => false
  end.
Definition chk_S_slice labels (a b : option val) (st : option Z) (observed : res slice) : bool :=
  res_eqb slice_eqb (S_lookup_slice val_eqb (map canon labels) (option_map vkey a) (option_map vkey b) st) observed.

(* grow-only histories.  init: inl labels (IndexGO(labels)) or inr n (auto-integer IndexGO) *)
Inductive vop := VAppend (v : val) | VExtend (vs : list val) | VTouch.
Definition vop_op (o : vop) : op val :=
  match o with
  | VAppend v => OpAppend (vkey v)
  | VExtend vs => OpExtend (map vkey vs)
  | VTouch => OpTouch
  end.

Definition go_start (init : list val + Z) : res (go val) :=
  match init with
  | inl l => M_go_init val_eqb (map canon l)
  | inr n => Ok (M_go_auto VInt (Z.to_nat n))
  end.

Definition start_labels (init : list val + Z) : list val :=
  match init with
  | inl l => map canon l
  | inr n => map VInt (iota (Z.to_nat n))
  end.

(* observed: per-op outcome (Ok tt / Err class) and the final observation *)
Definition chk_M_go init (ops : list vop) probes (outs : list (res unit)) (observed : vobs) : bool :=
  match go_start init with
  | Err _ => false
  | Ok g => let '(g', rs) := M_go_run val_eqb vto_Z g (map vop_op ops) in
            list_eqb res_unit_eqb rs outs &&
            obs_eqb (M_go_observe val_eqb vto_Z g' (map vkey probes)) (obs_canon observed)
  end.

Definition chk_S_go init (ops : list vop) probes (outs : list (res unit)) (observed : vobs) : bool :=
  let '(l', rs) := S_go_run val_eqb (start_labels init) (map vop_op ops) in
  list_eqb Bool.eqb rs (map is_ok outs) &&
  obs_eqb (S_observe val_eqb l' (map vkey probes)) (obs_canon observed).

(* derived indices: the implementation's derived index observed in full against the specification's
   label computation *)
Definition chk_S_derived (expect : option (list val)) probes (observed : res vobs) : bool :=
  match expect with
  | None => match observed with Err _ => true | Ok _ => false end
  | Some l => chk_S_index l probes observed
  end.

Definition vS_select (labels : list val) (ps : list Z) : option (list val) :=
  S_select (map canon labels) ps.
Definition vS_drop (labels : list val) (ps : list Z) : option (list val) :=
  Some (S_drop (map canon labels) ps).
Definition vS_roll (labels : list val) (shift : Z) : option (list val) :=
  Some (S_roll (map canon labels) shift).
