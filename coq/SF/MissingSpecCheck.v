(* C14 -- SPECIFICATION side of the glue used by the generated correspondence cases (tools/sfv/props/c14.py): each chk_*_S is a
   bool saying "specification applied to the observed input == observed output".  This file must NOT depend on Gen/Gen_c14.v
   (directly or transitively), so that S can still be evaluated when the source no longer has the shape the extractor parses. *)
Require Import SF.Prelude SF.Value SF.Dtype SF.Missing.

Definition blist_eqb := list_eqb Bool.eqb.
Definition zlist_eqb := list_eqb Z.eqb.
Definition sdir {A} (fwd : bool) (limit : Z) (l : list (option A)) := if fwd then S_ffill limit l else S_bfill limit l.
Definition ssided {A} (leading : bool) (v : A) (l : list (option A)) := if leading then S_leading v l else S_trailing v l.

Definition chk_isna_S (inp : list val) (out : list bool) : bool := blist_eqb (S_isna (cells_of inp)) out.
Definition chk_notna_S (inp : list val) (out : list bool) : bool := blist_eqb (S_notna (cells_of inp)) out.
Definition chk_count_S (inp : list val) (out : Z) : bool := S_count (cells_of inp) =? out.

Definition chk_dir1d_S fwd limit (inp out : list val) : bool :=
  cells_match (sdir fwd limit (cells_of inp)) out && present_kept inp out.
Definition chk_sided1d_S leading (v : val) (inp out : list val) : bool :=
  cells_match (ssided leading v (cells_of inp)) out && present_kept inp out.
Definition chk_fillna_S (v : val) (inp out : list val) : bool :=
  cells_match (S_fillna v (cells_of inp)) out && present_kept inp out.

Definition pairs_match (m : list (val * option val)) (olabels : list val) (ovalues : list val) : bool :=
  vlist_eqb (map fst m) olabels && cells_match (map snd m) ovalues.
Definition chk_dropna_S (labels inp olabels ovalues : list val) : bool :=
  pairs_match (S_dropna labels (cells_of inp)) olabels ovalues &&
  (* the survivors are unaltered *)
  vlist_eqb (map (fun p => match snd p with Some v => v | None => VNone end) (S_dropna labels (cells_of inp))) ovalues.

Definition chk_fillna_labels_S (labels inp : list val) (olabels ovals : list val) (out : list val) : bool :=
  cells_match (S_fillna_labels labels (cells_of inp) (combine olabels (cells_of ovals))) out && present_kept inp out.

Definition chk_dir_axis1_S fwd limit (nrows : nat) (cols out : list (list val)) : bool :=
  lines_match (map (sdir fwd limit) (transpose nrows (map cells_of cols))) (transpose nrows out) && present_kept_lines cols out.
Definition chk_dir_axis0_S fwd limit (cols out : list (list val)) : bool :=
  lines_match (map (fun c => sdir fwd limit (cells_of c)) cols) out && present_kept_lines cols out.

Definition chk_sided_axis1_S leading (v : val) (nrows : nat) (cols out : list (list val)) : bool :=
  lines_match (map (ssided leading v) (transpose nrows (map cells_of cols))) (transpose nrows out) && present_kept_lines cols out.
Definition chk_sided_axis0_S leading (v : val) (cols out : list (list val)) : bool :=
  lines_match (map (fun c => ssided leading v (cells_of c)) cols) out && present_kept_lines cols out.

Definition chk_fillna_frame_S (v : val) (cols out : list (list val)) : bool :=
  lines_match (map (fun c => S_fillna v (cells_of c)) cols) out && present_kept_lines cols out.

Definition chk_isna_frame_S (cols : list (list val)) (out : list (list bool)) : bool :=
  list_eqb blist_eqb (map (fun c => S_isna (cells_of c)) cols) out.
Definition chk_notna_frame_S (cols : list (list val)) (out : list (list bool)) : bool :=
  list_eqb blist_eqb (map (fun c => S_notna (cells_of c)) cols) out.
Definition chk_count_frame_S (axis1 : bool) (nrows : nat) (cols : list (list val)) (out : list Z) : bool :=
  zlist_eqb (map (fun c => S_count c) (if axis1 then transpose nrows (map cells_of cols) else map cells_of cols)) out.

(* Frame.dropna: axis 0 drops rows, axis 1 drops columns.  `lines` of the observed result are given the same way
   (rows for axis 0, columns for axis 1) *)
Definition chk_dropna_frame_S (axis1 use_any : bool) (nrows : nat) (index columns : list val) (cols : list (list val))
    (olabels : list val) (olines : list (list val)) : bool :=
  let lines := if axis1 then cols else transpose nrows cols in
  let labels := if axis1 then columns else index in
  let kept := S_dropna_lines use_any labels (map cells_of lines) in
  vlist_eqb (map fst kept) olabels && lines_match (map snd kept) olines.

(* S: which lines survive *)
Definition S_keep {A} (axis1 use_any : bool) (nrows : nat) (cols : list (list (option A))) : list bool :=
  map (fun ln => negb (line_drop use_any ln)) (if axis1 then cols else transpose nrows cols).

Definition chk_dropna_keep_S (axis1 use_any : bool) (nrows : nat) (cols : list (list val)) (out : list bool) : bool :=
  blist_eqb (S_keep axis1 use_any nrows (map cells_of cols)) out.

Definition chk_fillna_frame_labels_S (index columns : list val) (cols : list (list val))
    (oindex ocolumns : list val) (ocols : list (list val)) (out : list (list val)) : bool :=
  lines_match (S_fillna_frame index columns (map cells_of cols) oindex ocolumns (map cells_of ocols)) out &&
  present_kept_lines cols out.
