(* C04 -- the selection models instantiated at observed values (SF.Value.val) for the correspondence
   cases, and the comparison of a model result with what the implementation returned. No proofs. *)
Require Import SF.Prelude SF.PySlice SF.Dtype SF.Value SF.Blocks SF.Select SF.PyDyn Gen.Gen_util.

(* util.resolve_dtype_iter through the regenerated util.resolve_dtype *)
Definition resolve2 (a b : dtype) : dtype :=
  match resolve_dtype (PDtype a) (PDtype b) with PDtype d => d | _ => DObj end.
Definition rdt_val (ds : list dtype) : dtype :=
  match ds with [] => DFlt 8 | d :: r => fold_left resolve2 r d end.

Definition as_z_val (v : val) : option Z := match v with VInt z => Some z | _ => None end.

Definition vframe := mframe val val.
Definition vres := res (xres val val).

Definition Mx (f : vframe) (rk ck : ckey) : vres := M_extract val_eqb rdt_val f rk ck.
Definition Sx (f : vframe) (rk ck : ckey) : vres := S_extract val_eqb rdt_val (abs_frame f) rk ck.
Definition Mxl (kr kc : axkind) (f : vframe) (rk ck : lkey val) : vres :=
  M_extract_loc val_eqb rdt_val as_z_val kr kc f rk ck.
Definition Sxl (f : vframe) (rk ck : lkey val) : vres := S_extract_loc val_eqb rdt_val (abs_frame f) rk ck.

Definition vseries := sseries val val.
Definition Ssi (s : vseries) (k : ckey) : vres := S_series_iloc val_eqb s k.
Definition Ssl (s : vseries) (k : lkey val) : vres := S_series_loc val_eqb s k.
Definition Msl (kind : axkind) (s : vseries) (k : lkey val) : vres := M_series_loc val_eqb as_z_val kind s k.

(* ---- comparison ----
   mode 0: everything exact.
   mode 1 (a row taken across columns of different dtypes): values up to Python == (1 == 1.0), because
          NumPy coerces them into the resolved row dtype (C07 owns whether that is lossy);
          `dt` says whether the dtype of the Series is compared (the model M: yes; the spec S: no). *)
Definition vals_eqb (loose : bool) : list val -> list val -> bool :=
  list_eqb (if loose then py_val_eq else val_eqb).

Definition xres_eqb (loose dt : bool) (a b : xres val val) : bool :=
  match a, b with
  | XElem x, XElem y => val_eqb x y
  | XSeries i1 v1 d1 n1, XSeries i2 v2 d2 n2 =>
      vlist_eqb i1 i2 && vals_eqb loose v1 v2 && (negb dt || dtype_eqb d1 d2) && val_eqb n1 n2
  | XFrame i1 c1 d1 n1, XFrame i2 c2 d2 n2 =>
      vlist_eqb i1 i2 && vlist_eqb c1 c2 && list_eqb col_eqb d1 d2 && val_eqb n1 n2
  | _, _ => false
  end.

(* M must reproduce the exception class; S only demands a lookup error for a lookup error *)
Definition is_lookup (e : string) : bool := String.eqb e "KeyError" || String.eqb e "IndexError".

Definition eq_M (mode : Z) (m o : vres) : bool :=
  match m, o with
  | Ok a, Ok b => xres_eqb (mode =? 1) true a b
  | Err e1, Err e2 => String.eqb e1 e2
  | _, _ => false
  end.

Definition eq_S (mode : Z) (s o : vres) : bool :=
  match s, o with
  | Ok a, Ok b => xres_eqb (mode =? 1) (mode =? 0) a b
  | Err e1, Err e2 => String.eqb e1 e2 || (is_lookup e1 && is_lookup e2)
  | _, _ => false
  end.

(* ---- bloc: the set of (row label, column label) -> value pairs ---- *)
Definition cell_eqb (a b : (val * val) * val) : bool :=
  val_eqb (fst (fst a)) (fst (fst b)) && val_eqb (snd (fst a)) (snd (fst b)) && py_val_eq (snd a) (snd b).
(* values of several columns are coerced into one resolved dtype: compared up to Python == *)

Fixpoint remove_first {B} (eqb : B -> B -> bool) (x : B) (l : list B) : option (list B) :=
  match l with
  | [] => None
  | y :: r => if eqb x y then Some r
              else match remove_first eqb x r with Some r' => Some (y :: r') | None => None end
  end.

Fixpoint perm_eqb {B} (eqb : B -> B -> bool) (a b : list B) : bool :=
  match a with
  | [] => match b with [] => true | _ => false end
  | x :: r => match remove_first eqb x b with Some b' => perm_eqb eqb r b' | None => false end
  end.

Definition Mb (f : vframe) (key : list (list bool)) := M_bloc f key.
Definition Sb (f : vframe) (key : list (list bool)) := S_bloc (abs_frame f) key.

(* ---- select, then select by label on the result (api:select-then-loc) ----
   S: the derived container is what the specification says the first selection returns; .loc on it is label
   lookup in ITS labels.  M (second step): the observed derived container with the translation chosen by the
   model decision derived_kind. *)
Definition Sx2 (f : vframe) (rk ck : ckey) (rkey ckey_ : lkey val) : vres :=
  match Sx f rk ck with
  | Ok (XFrame i c d n) => S_extract_loc val_eqb rdt_val (mk_sframe i c d n) rkey ckey_
  | Ok (XSeries i v d n) => S_series_loc val_eqb (mk_sseries i v d n) rkey
  | Ok (XElem _) => Err "element"
  | Err e => Err e
  end.

Definition Ss2 (s : vseries) (k : ckey) (key : lkey val) : vres :=
  match Ssi s k with
  | Ok (XSeries i v d n) => S_series_loc val_eqb (mk_sseries i v d n) key
  | Ok _ => Err "element"
  | Err e => Err e
  end.

Definition Mxl2 (kr kc : axkind) (rk ck : ckey) (derived : vframe) (rkey ckey_ : lkey val) : vres :=
  Mxl (derived_kind true rk kr) (derived_kind true ck kc) derived rkey ckey_.
Definition Msl2 (derived : vseries) (key : lkey val) : vres := Msl KMap derived key.

(* ---- select, grow the source or the result, select again on the other (api:select-then-grow) ----
   S: the second selection applied to what the specification says the first selection of the SNAPSHOT
   (the receiver before anything grew) returns *)
Definition Sxx (f : vframe) (rk1 ck1 rk2 ck2 : ckey) : vres :=
  match Sx f rk1 ck1 with
  | Ok (XFrame i c d n) => S_extract val_eqb rdt_val (mk_sframe i c d n) rk2 ck2
  | Ok _ => Err "not a frame"
  | Err e => Err e
  end.

(* ---- Index.loc_to_iloc / IndexHierarchy.loc_to_iloc (public label -> position translation) ---- *)
Definition sel_eqb (a b : sel) : bool :=
  match a, b with
  | SOne x, SOne y => x =? y
  | SMany p, SMany q => list_eqb Z.eqb p q
  | _, _ => false
  end.
Definition eq_sel_M (m o : res sel) : bool :=
  match m, o with Ok a, Ok b => sel_eqb a b | Err e1, Err e2 => String.eqb e1 e2 | _, _ => false end.
Definition eq_sel_S (s o : res sel) : bool :=
  match s, o with
  | Ok a, Ok b => sel_eqb a b
  | Err e1, Err e2 => String.eqb e1 e2 || (is_lookup e1 && is_lookup e2)
  | _, _ => false
  end.
Definition Ml2i (kind : axkind) (labels : list val) (k : lkey val) : res sel :=
  ck <- M_loc val_eqb as_z_val kind labels k;; ckey_sel ck (Z.of_nat (length labels)).
Definition Sl2i (labels : list val) (k : lkey val) : res sel := S_loc val_eqb labels k.
