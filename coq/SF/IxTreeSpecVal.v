(* C02 -- hierarchical index SPECIFICATION at SF.Value.val + the comparison entry points for S
   (independent of the model and of anything regenerated). *)
Require Import SF.Prelude SF.Value SF.PySlice SF.IndexBijSpec SF.IndexBijSpecVal SF.IxTreeSpec.

Notation vhobs := (hobs val).
Definition vlab := list val.
Definition lab_canon (l : vlab) : vlab := map canon l.
Definition vlabs_eqb (a b : list vlab) : bool := list_eqb vlist_eqb a b.

Definition hobs_eqb (a b : vhobs) : bool :=
  vlabs_eqb (h_values a) (h_values b) && vlabs_eqb (h_iter a) (h_iter b) && vlabs_eqb (h_rev a) (h_rev b) &&
  (h_len a =? h_len b) && list_eqb Z.eqb (h_pos a) (h_pos b) && vlabs_eqb (h_at a) (h_at b) &&
  list_eqb (res_eqb Z.eqb) (h_lookup a) (h_lookup b) && list_eqb Bool.eqb (h_contains a) (h_contains b).

Definition hobs_canon (o : vhobs) : vhobs :=
  mk_hobs (map lab_canon (h_values o)) (map lab_canon (h_iter o)) (map lab_canon (h_rev o)) (h_len o) (h_pos o)
          (map lab_canon (h_at o)) (h_lookup o) (h_contains o).

Definition rhobs_eqb (a b : res vhobs) : bool := res_eqb hobs_eqb a b.

Definition chk_S_hier (labs probes : list vlab) (observed : res vhobs) : bool :=
  rhobs_eqb (S_from_labels val_eqb (map lab_canon labs) (map lab_canon probes)) (res_map hobs_canon observed).

(* a derived hierarchical index (selection, roll, level_add ...): the expected label table is given;
   the property demands it is either rejected (not tree-ordered / not unique) or an exact bijection *)
Definition chk_S_hier_derived (expect : res (list vlab)) (probes : list vlab) (observed : res vhobs) : bool :=
  match expect with
  | Err e => match observed with Err e' => String.eqb e e' | Ok _ => false end
  | Ok l => chk_S_hier l probes observed
  end.

(* IndexHierarchyGO.append histories: outcome flags and the final observation against the specification *)
Definition chk_S_hier_go (init ops : list vlab) (outs : list bool) (probes : list vlab) (observed : vhobs) : bool :=
  let '(l, r) := S_hgo_run val_eqb (map lab_canon init) (map lab_canon ops) in
  list_eqb Bool.eqb r outs && hobs_eqb (S_h_observe val_eqb l (map lab_canon probes)) (hobs_canon observed).

(* a derived hierarchical index whose label SET is fixed by the operation but not its order (rehierarch,
   reorder_for_hierarchy, set operations): it must be an exact bijection for its own table *)
Definition lsubsetb (a b : list vlab) : bool := forallb (fun x => lmemb val_eqb x b) a.
Definition chk_S_hier_set (expect probes : list vlab) (observed : res vhobs) : bool :=
  match observed with
  | Err _ => false
  | Ok o => chk_S_hier (h_values o) probes observed &&
            lsubsetb (map lab_canon (h_values o)) (map lab_canon expect) && lsubsetb (map lab_canon expect) (map lab_canon (h_values o))
  end.

(* a zero-length hierarchical index (from_names, empty 2-D array): every view is empty *)
Definition chk_S_hier_empty (probes : list vlab) (observed : res vhobs) : bool :=
  match observed with
  | Err _ => false
  | Ok o => hobs_eqb (S_h_observe val_eqb [] (map lab_canon probes)) (hobs_canon o)
  end.
