(* C13 -- window iteration: the SPECIFICATION (no dependency on generated files, so that it can
   still be evaluated when the regeneration or the model breaks).  No proofs.

   S_windows  anchor number i = 0, 1, 2, ... has left edge start_shift + i*step, size
              size + i*size_increment, right edge left + size - 1, label position
              right + label_shift; it is yielded iff the label position exists and (window_sized)
              the window lies completely inside the container; anchors are enumerated while the
              left edge has not passed the last admissible position and the size is not negative.

   The container is a list of rows (label, payload) along the window axis. *)
Require Import SF.Prelude SF.PySlice.

Section WindowSpec.
  Context {L A : Type}.
  Definition wrow := (L * A)%type.

  Record wparams := mk_wparams {
    wp_size : Z; wp_step : Z; wp_sized : bool; wp_label_shift : Z; wp_start_shift : Z; wp_incr : Z }.

  (* container[a:b] for a, b >= 0 *)
  Definition window_of (rows : list wrow) (a b : Z) : list wrow :=
    firstn (Z.to_nat (b - a)) (skipn (Z.to_nat a) rows).

  Definition zlen {X} (l : list X) : Z := Z.of_nat (length l).

  (* ------------------------------------------------------------------ specification *)
  Definition a_left (p : wparams) (i : Z) : Z := wp_start_shift p + i * wp_step p.
  Definition a_size (p : wparams) (i : Z) : Z := wp_size p + i * wp_incr p.
  Definition a_right (p : wparams) (i : Z) : Z := a_left p i + a_size p i - 1.
  Definition a_label (p : wparams) (i : Z) : Z := a_right p i + wp_label_shift p.

  (* number of admissible anchors is bounded by this (reached only when step = 0) *)
  Definition a_count_max (n : Z) (p : wparams) : Z :=
    if wp_start_shift p >=? 0 then n else n - wp_start_shift p.

  (* the rows of anchor i that exist: positions max(0,left) .. right *)
  Definition a_window (rows : list wrow) (p : wparams) (i : Z) : list wrow :=
    window_of rows (Z.max 0 (a_left p i)) (Z.max 0 (a_right p i + 1)).

  Definition a_item (rows : list wrow) (p : wparams) (i : Z) : list (L * list wrow) :=
    match (if a_label p i <? 0 then None else nth_z rows (a_label p i)) with
    | None => []
    | Some lr =>
        if wp_sized p && negb (zlen (a_window rows p i) =? a_size p i) then []
        else [(fst lr, a_window rows p i)]
    end.

  (* anchor i is enumerated: the first always; later ones while the left edge is admissible and
     the size has not become negative *)
  Definition a_enumerated (n : Z) (p : wparams) (i : Z) : bool :=
    (i =? 0) || ((a_left p i <=? a_count_max n p - 1) && (a_size p i >=? 0)).

  Fixpoint zseq (a : Z) (k : nat) : list Z :=
    match k with O => [] | S k' => a :: zseq (a + 1) k' end.

  Definition S_windows (rows : list wrow) (p : wparams) : res (list (L * list wrow)) :=
    if (wp_size p <=? 0) || (wp_step p <? 0) then Err "RuntimeError"
    else
      let n := zlen rows in
      Ok (flat_map (fun i => if a_enumerated n p i then a_item rows p i else [])
                   (zseq 0 (Z.to_nat (a_count_max n p + 1)))).
End WindowSpec.

Arguments wparams : clear implicits.
Arguments mk_wparams : clear implicits.
