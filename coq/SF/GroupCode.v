(* C13 -- what the regenerated file Gen/Gen_c13.v says about the grouping code, compared with the
   constants the hand-written model M_A / choose_path is built on.  No proofs. *)
Require Import SF.Prelude SF.Group Gen.Gen_c13.
Local Open Scope string_scope.

(* NumPy sort kinds that are stable *)
Definition stable_kinds : list string := ["mergesort"; "stable"].

(* M_A uses roll1 (np.roll(v, 1)) and tl (the [1:]); the sort must be a stable kind *)
Definition code_shape_ok : bool :=
  existsb (String.eqb group_sort_kind) stable_kinds && Z.eqb transitions_drop 1 && Z.eqb transitions_roll 1.

(* every keyword parameter of Frame/Series._axis_window is forwarded (k=k) to _axis_window_items, and every one of
   _axis_window_items to container_util.axis_window_items: (sorted parameter names, sorted forwarded names) *)
Definition window_forwarding_ok : bool :=
  forallb (fun pf : list string * list string => list_eqb String.eqb (fst pf) (snd pf))
          [fwd_frame_axis_window; fwd_frame_axis_window_items; fwd_series_axis_window; fwd_series_axis_window_items].

(* what M_frame_group assumes about TypeBlocks.group (type_blocks.py:794-803): np.unique gets axis= iff the key
   array is 2-D (a list/slice/mask key), and then the grouping axis -- whatever the number of selected rows/columns *)
Definition model_unique_axis (axis : Z) (two_d : bool) : option Z := if two_d then Some axis else None.

Definition path_is_sort (p : gpath) : bool := match p with PathSort => true | PathUnique => false end.
