(* C14 -- missing-value operations.  Models only (no proofs).
   A cell is `option A`: None = missing (NaN / None / NaT), Some x = a present value.
   S_* : specifications (what the property demands), the simplest recursions on one list.
   M_* : implementation models: the algorithms static-frame really runs
         (util.binary_transition, util.slices_from_targets, Series._fillna_directional/_fillna_sided,
          TypeBlocks._fillna_directional_axis_0/1, _fillna_sided_axis_0/1, dropna_to_keep_locations, fillna).
   Convention of the library: limit = 0 means "no limit". *)
Require Import SF.Prelude SF.Value.

Definition is_missing {A} (c : option A) : bool :=
  match c with None => true | Some _ => false end.

(* ------------------------------------------------------------------ specifications *)

Definition within (limit run : Z) : bool := (limit =? 0) || (run <? limit).

(* forward fill: carry (last present value, number of missing cells seen since) *)
Fixpoint S_ffill_go {A} (limit : Z) (last : option A) (run : Z) (l : list (option A)) : list (option A) :=
  match l with
  | [] => []
  | Some x :: t => Some x :: S_ffill_go limit (Some x) 0 t
  | None :: t =>
      (match last with
       | Some v => if within limit run then Some v else None
       | None => None
       end) :: S_ffill_go limit last (run + 1) t
  end.

Definition S_ffill {A} (limit : Z) (l : list (option A)) : list (option A) := S_ffill_go limit None 0 l.
Definition S_bfill {A} (limit : Z) (l : list (option A)) : list (option A) := rev (S_ffill limit (rev l)).

(* the carry after a list of cells *)
Fixpoint S_carry {A} (last : option A) (run : Z) (l : list (option A)) : option A * Z :=
  match l with
  | [] => (last, run)
  | Some x :: t => S_carry (Some x) 0 t
  | None :: t => S_carry last (run + 1) t
  end.

Fixpoint S_leading {A} (v : A) (l : list (option A)) : list (option A) :=
  match l with
  | None :: t => Some v :: S_leading v t
  | _ => l
  end.
Definition S_trailing {A} (v : A) (l : list (option A)) : list (option A) := rev (S_leading v (rev l)).

Definition S_fillna {A} (v : A) (l : list (option A)) : list (option A) :=
  map (fun c => match c with None => Some v | Some _ => c end) l.

Definition S_isna {A} (l : list (option A)) : list bool := map is_missing l.
Definition S_notna {A} (l : list (option A)) : list bool := map (fun c => negb (is_missing c)) l.
Definition S_count {A} (l : list (option A)) : Z := Z.of_nat (length (filter (fun c => negb (is_missing c)) l)).

(* Series.dropna: the (label, value) pairs whose value is present, in order *)
Definition S_dropna {L A} (labels : list L) (l : list (option A)) : list (L * option A) :=
  filter (fun p => negb (is_missing (snd p))) (combine labels l).

(* Frame.dropna: a line (row for axis 0, column for axis 1) is dropped when all / any of its cells are missing *)
Definition line_drop {A} (use_any : bool) (line : list (option A)) : bool :=
  if use_any then existsb is_missing line else forallb is_missing line.
Definition S_dropna_lines {L A} (use_any : bool) (labels : list L) (lines : list (list (option A))) : list (L * list (option A)) :=
  filter (fun p => negb (line_drop use_any (snd p))) (combine labels lines).

(* fillna from a label-aligned container: a missing cell whose label the container covers takes the container's
   cell (which may itself be missing); every other cell is untouched *)
Fixpoint lookup {A} (k : val) (kv : list (val * A)) : option A :=
  match kv with
  | [] => None
  | (k', v) :: t => if py_val_eq k k' then Some v else lookup k t
  end.

Definition S_fillna_labels {A} (labels : list val) (l : list (option A)) (other : list (val * option A)) : list (option A) :=
  map (fun p => match snd p with
                | Some _ => snd p
                | None => match lookup (fst p) other with Some c => c | None => None end
                end) (combine labels l).

(* Frame.fillna(Frame): cell (r, c) of column c *)
Definition S_fillna_frame {A} (index : list val) (columns : list val) (cols : list (list (option A)))
    (oindex : list val) (ocolumns : list val) (ocols : list (list (option A))) : list (list (option A)) :=
  map (fun p => match lookup (fst p) (combine ocolumns ocols) with
                | None => snd p
                | Some ocol => S_fillna_labels index (snd p) (combine oindex ocol)
                end) (combine columns cols).

(* transpose a list of equal-length lines; `n` = length of each line *)
Fixpoint transpose {A} (n : nat) (lines : list (list A)) : list (list A) :=
  match n with
  | O => []
  | S n' => concat (map (firstn 1) lines) :: transpose n' (map (@tl A) lines)
  end.

(* ------------------------------------------------------------------ kernels of the implementation *)

Definition znth {A} (d : A) (l : list A) (i : Z) : A :=
  if i <? 0 then d else nth (Z.to_nat i) l d.

Definition zlen {A} (l : list A) : Z := Z.of_nat (length l).

(* util.binary_transition (1-D): positions of False cells that have a True neighbour; `prev` = the cell before *)
Fixpoint bt_go (prev : bool) (off : Z) (sel : list bool) : list Z :=
  match sel with
  | [] => []
  | b :: t =>
      let nxt := match t with b' :: _ => b' | [] => false end in
      (if negb b && (prev || nxt) then [off] else []) ++ bt_go b (off + 1) t
  end.
Definition M_binary_transition (sel : list bool) : list Z := bt_go false 0 sel.

(* array[start:stop] = v for 0 <= start, stop *)
Fixpoint assign_go {A} (off start stop : Z) (v : A) (l : list A) : list A :=
  match l with
  | [] => []
  | c :: t => (if (start <=? off) && (off <? stop) then v else c) :: assign_go (off + 1) start stop v t
  end.
Definition assign_slice {A} (start stop : Z) (v : A) (l : list A) : list A := assign_go 0 start stop v l.

(* len of range( slice(start, stop).indices(n) ) for 0 <= start, stop *)
Definition range_len (start stop n : Z) : Z := Z.max 0 (Z.min stop n - Z.min start n).

(* one iteration of the loop of util.slices_from_targets *)
Definition sft_emit {V} (fwd : bool) (n limit : Z) (cond : Z -> bool) (start stop : Z) (v : V) : list (Z * Z * V) :=
  if start =? stop then []
  else if fwd && (n <=? start) then []
  else if cond start then
    (if 0 <? limit then
       let shift := range_len start stop n - limit in
       if 0 <? shift then (if fwd then [(start, stop - shift, v)] else [(start + shift, stop, v)])
       else [(start, stop, v)]
     else [(start, stop, v)])
  else [].

(* forward: zip_longest(target_index, target_index[1:], fillvalue=length) -> slice(start+1, stop) *)
Fixpoint sft_fwd {V} (n limit : Z) (cond : Z -> bool) (ts : list Z) (vs : list V) : list (Z * Z * V) :=
  match ts, vs with
  | t :: ts', v :: vs' =>
      sft_emit true n limit cond (t + 1) (match ts' with t' :: _ => t' | [] => n end) v
      ++ sft_fwd n limit cond ts' vs'
  | _, _ => []
  end.

(* backward: zip(chain((None,), target_index[:-1]), target_index) -> slice(prev+1 or 0, t) *)
Fixpoint sft_bwd {V} (n limit : Z) (cond : Z -> bool) (start : Z) (ts : list Z) (vs : list V) : list (Z * Z * V) :=
  match ts, vs with
  | t :: ts', v :: vs' => sft_emit false n limit cond start t v ++ sft_bwd n limit cond (t + 1) ts' vs'
  | _, _ => []
  end.

Definition M_slices_from_targets {V} (ts : list Z) (vs : list V) (n : Z) (fwd : bool) (limit : Z) (cond : Z -> bool)
    : list (Z * Z * V) :=
  if fwd then sft_fwd n limit cond ts vs else sft_bwd n limit cond 0 ts vs.

Definition apply_slices {A} (sl : list (Z * Z * A)) (l : list A) : list A :=
  fold_left (fun acc s => assign_slice (fst (fst s)) (snd (fst s)) (snd s) acc) sl l.

(* Series._fillna_directional; one column of TypeBlocks._fillna_directional_axis_0 *)
Definition M_dir1d {A} (fwd : bool) (limit : Z) (l : list (option A)) : list (option A) :=
  let sel := map is_missing l in
  if negb (existsb (fun b => b) sel) then l
  else
    let T := M_binary_transition sel in
    let V := map (znth None l) T in
    apply_slices (M_slices_from_targets T V (zlen l) fwd limit (znth false sel)) l.

(* np.nonzero of a Boolean vector *)
Fixpoint nonzero_go (off : Z) (l : list bool) : list Z :=
  match l with
  | [] => []
  | b :: t => (if b then [off] else []) ++ nonzero_go (off + 1) t
  end.
Definition nonzero (l : list bool) : list Z := nonzero_go 0 l.

(* the leading / trailing missing run of one line, as both sided and directional code locate it *)
Definition sided_slice (leading : bool) (sel : list bool) : Z * Z :=
  let targets := nonzero (map negb sel) in
  match targets with
  | [] => (0, zlen sel)
  | t0 :: _ => if leading then (0, t0) else (last targets 0 + 1, zlen sel)
  end.

(* Series._fillna_sided; one column of TypeBlocks._fillna_sided_axis_0 *)
Definition M_sided1d {A} (leading : bool) (v : A) (l : list (option A)) : list (option A) :=
  let sel := map is_missing l in
  if negb (existsb (fun b => b) sel) then l
  else if negb (if leading then hd false sel else last sel false) then l
  else let '(a, b) := sided_slice leading sel in assign_slice a b (Some v) l.

(* ------------------------------------------------------------------ axis 1: one row across the block list *)

(* what one row sees of a block: its own cell(s) and whether ANY row of the block has a missing cell
   (the code takes a whole-block fast path when none has) *)
Inductive rblock (A : Type) :=
| RB1 (anyna : bool) (c : option A)
| RB2 (anyna : bool) (cs : list (option A)).
Arguments RB1 {A} anyna c.
Arguments RB2 {A} anyna cs.

Definition rb_cells {A} (b : rblock A) : list (option A) :=
  match b with RB1 _ c => [c] | RB2 _ cs => cs end.

(* bridging_values[i], bridging_count[i], bridging_isna[i]; None = bridging_values is None (first block) *)
Record bridge (A : Type) := mk_bridge { bv : option A; bc : Z; bna : bool }.
Arguments mk_bridge {A} bv bc bna.
Arguments bv {A} b.
Arguments bc {A} b.
Arguments bna {A} b.

Definition lim_reached (limit count : Z) : bool := negb (limit =? 0) && (limit <=? count).

Definition last_opt {X} (l : list X) : option X :=
  match l with [] => None | x :: t => Some (last t x) end.
Definition hd_opt {X} (l : list X) : option X :=
  match l with [] => None | x :: _ => Some x end.

(* TypeBlocks._fillna_directional_axis_1, 1-D block, row i *)
Definition M_dir_block1 {A} (limit : Z) (st : option (bridge A)) (anyna : bool) (c : option A)
    : list (option A) * option (bridge A) :=
  if negb anyna then ([c], Some (mk_bridge c 0 (is_missing c)))
  else match st with
       | None => ([c], Some (mk_bridge c 0 (is_missing c)))
       | Some s =>
           let sel := is_missing c in
           let isnotna := negb (bna s) in
           let sel_sided := if lim_reached limit (bc s) then false else sel && isnotna in
           let assigned := if sel_sided then bv s else c in
           let inc := sel && isnotna in
           ([assigned], Some (mk_bridge assigned (if inc then bc s + 1 else 0) (is_missing assigned)))
       end.

(* TypeBlocks._fillna_directional_axis_1, 2-D block, row i.
   cf ("count from first"): which yielded slice gives the bridging count that leaves the block when walking BACKWARD --
   false: the last yielded slice (the code as pinned: finding C14-bfill-axis1-bridge-count), true: the first one (the
   repaired code).  The value used by the correspondence cases is extracted from the source on every run (Gen/Gen_c14.v). *)
Definition M_dir_block2 {A} (cf : bool) (fwd : bool) (limit : Z) (st : option (bridge A)) (anyna : bool) (cs : list (option A))
    : list (option A) * option (bridge A) :=
  let src := if fwd then last cs None else hd None cs in
  if negb anyna then (cs, Some (mk_bridge src 0 (is_missing src)))
  else
    let sel := map is_missing cs in
    let length := zlen cs in
    let reset0 := negb (if fwd then last sel false else hd false sel) in
    let '(assigned, bc1) :=
      match st with
      | None => (cs, 0)
      | Some s =>
          let isna_entry := (if fwd then hd false sel else last sel false) && negb (bna s) in
          if isna_entry then
            let '(a, b) := sided_slice fwd sel in
            let sided_len := range_len a b length in
            if lim_reached limit (bc s) then (cs, bc s + sided_len)
            else
              let '(a', b') :=
                if lim_reached limit (bc s + sided_len) then
                  let shift := bc s + sided_len - limit in
                  if fwd then (a, b - shift) else (a + shift, b)
                else (a, b) in
              (assign_slice a' b' (bv s) cs, bc s + sided_len)
          else (cs, bc s)
      end in
    let T := M_binary_transition sel in
    let '(assigned2, bc2) :=
      match T with
      | [] => (assigned, bc1)
      | _ :: _ =>
          let V := map (znth None cs) T in
          let sl := M_slices_from_targets T V length fwd limit (znth false sel) in
          (apply_slices sl assigned,
           match (if fwd || negb cf then last_opt sl else hd_opt sl) with
           | Some s3 => range_len (fst (fst s3)) (snd (fst s3)) length
           | None => bc1
           end)
      end in
    let bv' := if fwd then last assigned2 None else hd None assigned2 in
    let bna' := is_missing bv' in
    let reset := reset0 || bna' in
    (assigned2, Some (mk_bridge bv' (if reset then 0 else bc2) bna')).

Definition M_dir_block {A} (cf fwd : bool) (limit : Z) (st : option (bridge A)) (b : rblock A) :=
  match b with
  | RB1 anyna c => M_dir_block1 limit st anyna c
  | RB2 anyna cs => M_dir_block2 cf fwd limit st anyna cs
  end.

Fixpoint M_dir_row_go {A} (cf fwd : bool) (limit : Z) (st : option (bridge A)) (bs : list (rblock A)) : list (list (option A)) :=
  match bs with
  | [] => []
  | b :: t => let '(o, st') := M_dir_block cf fwd limit st b in o :: M_dir_row_go cf fwd limit st' t
  end.

(* forward walks the blocks left to right; backward walks reversed(blocks) and the caller re-reverses the result *)
Definition M_dir_row {A} (cf fwd : bool) (limit : Z) (bs : list (rblock A)) : list (option A) :=
  if fwd then concat (M_dir_row_go cf true limit None bs)
  else concat (rev (M_dir_row_go cf false limit None (rev bs))).

(* TypeBlocks._fillna_sided_axis_1, row i; state = isna_exit_previous[i] (None before the first block = all True) *)
Definition M_sided_block {A} (leading : bool) (v : A) (prev : bool) (b : rblock A) : list (option A) * bool :=
  match b with
  | RB1 _ c =>
      let entry := is_missing c && prev in
      ([if entry then Some v else c], entry)
  | RB2 _ cs =>
      let sel := map is_missing cs in
      let entry := (if leading then hd false sel else last sel false) && prev in
      let out := if entry then let '(a, b) := sided_slice leading sel in assign_slice a b (Some v) cs else cs in
      (out, forallb (fun x => x) sel && prev)
  end.

Fixpoint M_sided_row_go {A} (leading : bool) (v : A) (prev : bool) (bs : list (rblock A)) : list (list (option A)) :=
  match bs with
  | [] => []
  | b :: t => let '(o, p') := M_sided_block leading v prev b in o :: M_sided_row_go leading v p' t
  end.

Definition M_sided_row {A} (leading : bool) (v : A) (bs : list (rblock A)) : list (option A) :=
  if leading then concat (M_sided_row_go true v true bs)
  else concat (rev (M_sided_row_go false v true (rev bs))).

(* ------------------------------------------------------------------ frames as block lists *)

(* a block holds its cells row-major: B1 one cell per row; B2 one list of `width` cells per row *)
Inductive block (A : Type) :=
| B1 (col : list (option A))
| B2 (rows : list (list (option A))).
Arguments B1 {A} col.
Arguments B2 {A} rows.

Definition block_anyna {A} (b : block A) : bool :=
  match b with
  | B1 col => existsb is_missing col
  | B2 rows => existsb (existsb is_missing) rows
  end.

Definition rblock_at {A} (i : nat) (b : block A) : rblock A :=
  match b with
  | B1 col => RB1 (block_anyna b) (nth i col None)
  | B2 rows => RB2 (block_anyna b) (nth i rows [])
  end.

Definition frame_row {A} (blocks : list (block A)) (i : nat) : list (option A) :=
  concat (map (fun b => rb_cells (rblock_at i b)) blocks).

Definition frame_rows {A} (nrows : nat) (blocks : list (block A)) : list (list (option A)) :=
  map (frame_row blocks) (seq 0 nrows).

Definition M_dir_axis1 {A} (cf fwd : bool) (limit : Z) (nrows : nat) (blocks : list (block A)) : list (list (option A)) :=
  map (fun i => M_dir_row cf fwd limit (map (rblock_at i) blocks)) (seq 0 nrows).

Definition M_sided_axis1 {A} (leading : bool) (v : A) (nrows : nat) (blocks : list (block A)) : list (list (option A)) :=
  map (fun i => M_sided_row leading v (map (rblock_at i) blocks)) (seq 0 nrows).

(* well-formed: every block has nrows rows, 2-D blocks have width >= 1 *)
Definition block_wf {A} (nrows : nat) (b : block A) : bool :=
  match b with
  | B1 col => Nat.eqb (length col) nrows
  | B2 rows => Nat.eqb (length rows) nrows && forallb (fun r => negb (Nat.eqb (length r) 0)) rows
  end.
Definition frame_wf {A} (nrows : nat) (blocks : list (block A)) : bool := forallb (block_wf nrows) blocks.

(* the defect of the backward walk when cf = false (the code before /repo 690a4f3; witness: Proofs/MissingRows.v old_decision_needs_guard): the bridging count leaving a 2-D block is taken from the LAST
   yielded slice, but backward the block is left through its FIRST column.  The refinement holds for a row when, in
   every 2-D block, either no limit applies, or the first cell is present, or first and last yielded slice are equally long. *)
Definition bwd_block_dom {A} (cf : bool) (limit : Z) (b : rblock A) : bool :=
  match b with
  | RB1 _ _ => true
  | RB2 _ cs =>
      cf || (limit =? 0) ||
      let sel := map is_missing cs in
      negb (hd false sel) ||
      let T := M_binary_transition sel in
      let sl := M_slices_from_targets T (map (znth None cs) T) (zlen cs) false limit (znth false sel) in
      match sl with
      | [] => true
      | s0 :: _ =>
          let sN := last sl s0 in
          range_len (fst (fst s0)) (snd (fst s0)) (zlen cs) =? range_len (fst (fst sN)) (snd (fst sN)) (zlen cs)
      end
  end.
Definition bwd_dom {A} (cf : bool) (limit : Z) (bs : list (rblock A)) : bool := forallb (bwd_block_dom cf limit) bs.

(* ------------------------------------------------------------------ instantiation at observed values *)

Definition cell_of (v : val) : option val := if isna v then None else Some v.
Definition cells_of (l : list val) : list (option val) := map cell_of l.

(* an observed cell agrees with a model cell: missing <-> missing (any marker); present values equal as Python values *)
Definition cell_match (m : option val) (o : val) : bool :=
  match m with
  | None => isna o
  | Some v => negb (isna o) && py_val_eq v o
  end.
Fixpoint cells_match (m : list (option val)) (o : list val) : bool :=
  match m, o with
  | [], [] => true
  | a :: m', b :: o' => cell_match a b && cells_match m' o'
  | _, _ => false
  end.
Fixpoint lines_match (m : list (list (option val))) (o : list (list val)) : bool :=
  match m, o with
  | [], [] => true
  | a :: m', b :: o' => cells_match a b && lines_match m' o'
  | _, _ => false
  end.

(* no present cell of the input was altered: same class, same value (structural) *)
Fixpoint present_kept (i o : list val) : bool :=
  match i, o with
  | [], [] => true
  | a :: i', b :: o' => (isna a || val_eqb a b) && present_kept i' o'
  | _, _ => false
  end.
Fixpoint present_kept_lines (i o : list (list val)) : bool :=
  match i, o with
  | [], [] => true
  | a :: i', b :: o' => present_kept a b && present_kept_lines i' o'
  | _, _ => false
  end.

(* build the block list of a frame from its columns (each a list of cells down the rows) and a layout [(width, is2d)] *)
Fixpoint blocks_of_columns {A} (nrows : nat) (layout : list (nat * bool)) (cols : list (list (option A))) : list (block A) :=
  match layout with
  | [] => []
  | (w, is2d) :: rest =>
      let mine := firstn w cols in
      (if is2d then B2 (transpose nrows mine)
       else B1 (match mine with c :: _ => c | [] => [] end))
      :: blocks_of_columns nrows rest (skipn w cols)
  end.

(* ------------------------------------------------------------------ guards used by the refinement theorems *)
(* a row's view of a block is consistent: 2-D blocks have width >= 1, and "no row of the block has a missing cell"
   implies this row has none *)
Definition rb_ok {A} (b : rblock A) : bool :=
  match b with
  | RB1 anyna c => anyna || negb (is_missing c)
  | RB2 anyna cs => negb (Nat.eqb (length cs) 0) && (anyna || negb (existsb is_missing cs))
  end.
Definition row_ok {A} (bs : list (rblock A)) : bool := forallb rb_ok bs.
Definition row_cells {A} (bs : list (rblock A)) : list (option A) := concat (map rb_cells bs).
Definition frame_bwd_dom {A} (cf : bool) (limit : Z) (nrows : nat) (blocks : list (block A)) : bool :=
  forallb (fun i => bwd_dom cf limit (map (rblock_at i) blocks)) (seq 0 nrows).
