(* C02 -- hierarchical index construction from labels: MODELS ONLY.

   M_*: IndexHierarchy.from_labels (index_hierarchy.py:221-301): every label (a tuple of `depth`
        components) is walked into a tree of insertion-ordered dicts whose innermost values are lists;
        an inner component that is already a key of the dict reached may only be re-entered when it
        equals `observed_last[d]` (ONE list shared by all dicts of depth d), else ErrorInitIndex.
        Then IndexLevel.from_tree / from_level_data (index_level.py:60-124) turns the tree into
        levels: every innermost list becomes an Index (duplicates -> ErrorInitIndexNonUnique), every
        dict an Index over its keys plus one target level per key, each with the offset of its first
        leaf RELATIVE to its parent.  IndexLevel.leaf_loc_to_iloc (index_level.py:449-478) adds the
        offsets along the path of a key.
   S_*: the hierarchical index over the label sequence ls IS the list ls; accepted iff all labels have
        the same depth >= 2, are pairwise distinct and are "tree ordered": labels sharing a proper
        prefix are contiguous. *)
Require Import SF.Prelude SF.PySlice SF.IndexBij Gen.Gen_c02.
Require Export SF.IxTreeSpec.

Section Tree.
  Variable C : Type.
  Variable ceqb : C -> C -> bool.

  Notation label := (label C).
  Notation hobs := (hobs C).
  Notation depth_ok := (@depth_ok C).

  (* ------------------------------------------------------------------ the dict tree *)
  Inductive tree :=
  | TLeaf (l : list C)                 (* innermost: a Python list of leaf components *)
  | TNode (ch : list (C * tree)).      (* a dict: insertion-ordered keys -> sub-tree *)

  Fixpoint find_child (v : C) (ch : list (C * tree)) : option tree :=
    match ch with
    | [] => None
    | (k, t) :: ch' => if ceqb v k then Some t else find_child v ch'
    end.

  Fixpoint set_child (v : C) (t : tree) (ch : list (C * tree)) : list (C * tree) :=
    match ch with
    | [] => []
    | (k, t0) :: ch' => if ceqb v k then (k, t) :: ch' else (k, t0) :: set_child v t ch'
    end.

  (* the empty container created for a new key whose remaining components are `rest` *)
  Definition fresh (rest : label) : tree :=
    match rest with [_] => TLeaf [] | _ => TNode [] end.

  Definition last_is (v : C) (o : option C) : bool :=
    match o with Some w => ceqb v w | None => false end.

  (* walk one label into the tree.  `last` = observed_last (None = the initial token) *)
  Fixpoint ins (lab : label) (last : list (option C)) (t : tree) : res tree :=
    match lab with
    | [] => Err "Depth"
    | v :: rest =>
        match rest with
        | [] => match t with
                | TLeaf l => Ok (TLeaf (l ++ [v]))          (* current.append(v) *)
                | TNode _ => Err "Depth"
                end
        | _ :: _ =>
            match t with
            | TLeaf _ => Err "Depth"
            | TNode ch =>
                match find_child v ch with
                | None =>                                    (* current[v] = dict() / list() *)
                    match ins rest (tl last) (fresh rest) with
                    | Ok sub => Ok (TNode (ch ++ [(v, sub)]))
                    | Err e => Err e
                    end
                | Some sub =>                                (* v in current *)
                    if last_is v (hd None last) then
                      match ins rest (tl last) sub with
                      | Ok sub' => Ok (TNode (set_child v sub' ch))
                      | Err e => Err e
                      end
                    else Err "ErrorInitIndex"
                end
            end
        end
    end.

  (* the loop over labels: length check first, then the walk; observed_last follows the label *)
  Fixpoint ins_all (depth : nat) (labs : list label) (last : list (option C)) (t : tree) : res tree :=
    match labs with
    | [] => Ok t
    | lab :: labs' =>
        if depth_ok depth lab then
          match ins lab last t with
          | Ok t' => ins_all depth labs' (map Some (removelast lab)) t'
          | Err e => Err e
          end
        else Err "ErrorInitIndex"
    end.

  (* ------------------------------------------------------------------ levels *)
  Inductive level :=
  | LLeaf (offset : Z) (labels : list C)
  | LNode (offset : Z) (labels : list C) (targets : list level).

  Definition lv_offset (lv : level) : Z :=
    match lv with LLeaf o _ => o | LNode o _ _ => o end.

  Fixpoint lv_len (lv : level) : Z :=
    match lv with
    | LLeaf _ ls => zlen ls
    | LNode _ _ tg => fold_right (fun t acc => lv_len t + acc) 0 tg
    end.

  (* IndexLevel.from_level_data: the loop over the items of a dict, offset_local accumulating the
     lengths of the levels already built *)
  Definition build_list (f : tree -> Z -> res level) : list (C * tree) -> Z -> res (list level) :=
    fix go (ch : list (C * tree)) (off : Z) : res (list level) :=
      match ch with
      | [] => Ok []
      | p :: ch' =>
          match f (snd p) off with
          | Err e => Err e
          | Ok lv => match go ch' (off + lv_len lv) with
                     | Ok r => Ok (lv :: r)
                     | Err e => Err e
                     end
          end
      end.

  Fixpoint build (t : tree) (offset : Z) : res level :=
    match t with
    | TLeaf l => if nodupb ceqb l then Ok (LLeaf offset l) else Err "ErrorInitIndex"
    | TNode ch =>
        match build_list build ch 0 with
        | Ok tg => Ok (LNode offset (map fst ch) tg)
        | Err e => Err e
        end
    end.

  (* from_labels on a non-empty label sequence *)
  Definition M_from_labels (labs : list label) : res level :=
    match labs with
    | [] => Err "ErrorInitIndex"      (* IndexLevel of a zero-length Index without depth_reference *)
    | first :: _ =>
        let depth := length first in
        if (depth <? 2)%nat then Err "ErrorInitIndex"
        else match ins_all depth labs (repeat None depth) (TNode []) with
             | Ok t => build t 0
             | Err e => Err e
             end
    end.

  (* iteration order of the levels = the table of labels *)
  Definition flatten_list (f : level -> list label) : list level -> list C -> list label :=
    fix go (tg : list level) (ls : list C) {struct tg} : list label :=
      match tg, ls with
      | t :: tg', k :: ls' => map (cons k) (f t) ++ go tg' ls'
      | _, _ => []
      end.

  Fixpoint flatten (lv : level) : list label :=
    match lv with
    | LLeaf _ ls => map (fun x => [x]) ls
    | LNode _ ls tg => flatten_list flatten tg ls
    end.

  (* IndexLevel.leaf_loc_to_iloc: descend by the components of the key, adding the offset of every
     target entered; the last component is looked up in the leaf Index *)
  Fixpoint leaf_loc (key : label) (lv : level) (pos : Z) {struct key} : res Z :=
    match key with
    | [] => Err "KeyError"
    | k :: rest =>
        match lv with
        | LLeaf _ ls =>
            match index_of ceqb k ls with
            | None => Err "KeyError"
            | Some i => match rest with [] => Ok (pos + i) | _ => Err "KeyError" end
            end
        | LNode _ ls tg =>
            match index_of ceqb k ls with
            | None => Err "KeyError"
            | Some i =>
                match nth_error tg (Z.to_nat i) with
                | Some t => leaf_loc rest t (pos + lv_offset t)
                | None => Err "KeyError"
                end
            end
        end
    end.

  Definition M_leaf_loc_to_iloc (lv : level) (key : label) : res Z := leaf_loc key lv 0.

  (* IndexLevel.__contains__ (index_level.py:426-447): walks the components; at a leaf level it answers
     True when the component is a leaf label and -- since fix 248eb88, re-read from the source as
     gen_hier_contains_checks_exhausted -- the key ends there *)
  Fixpoint lv_contains (key : label) (lv : level) {struct key} : bool :=
    match key with
    | [] => false
    | k :: rest =>
        match lv with
        | LLeaf _ ls => memb ceqb k ls &&
                        (if gen_hier_contains_checks_exhausted then match rest with [] => true | _ => false end else true)
        | LNode _ ls tg =>
            match index_of ceqb k ls with
            | None => false
            | Some i => match nth_error tg (Z.to_nat i) with
                        | Some t => lv_contains rest t
                        | None => false
                        end
            end
        end
    end.
  Definition M_h_contains (lv : level) (key : label) : bool := lv_contains key lv.

  Definition M_h_observe (lv : level) (probes : list label) : hobs :=
    let labs := flatten lv in
    mk_hobs labs labs (rev labs) (lv_len lv) (iota (Z.to_nat (lv_len lv))) labs
            (map (M_leaf_loc_to_iloc lv) probes) (map (M_h_contains lv) probes).

  Definition M_from_labels_obs (labs : list label) (probes : list label) : res hobs :=
    match M_from_labels labs with
    | Ok lv => Ok (M_h_observe lv probes)
    | Err e => Err e
    end.
  (* IndexHierarchy.level_drop(1) (index_hierarchy.py:1624-1640): the labels of the second depth of all
     outermost groups are concatenated into one new root Index (duplicates -> ErrorInitIndex) and the
     grand-children become its targets AS THEY ARE -- their offsets stay relative to their old parents *)
  Definition lv_labels (lv : level) : list C := match lv with LLeaf _ l => l | LNode _ l _ => l end.
  Definition lv_targets (lv : level) : list level := match lv with LLeaf _ _ => [] | LNode _ _ tg => tg end.

  Definition M_level_drop1 (lv : level) : res level :=
    match lv with
    | LLeaf _ _ => Err "NotImplementedError"
    | LNode _ _ tg =>
        let labels := flat_map lv_labels tg in
        if nodupb ceqb labels then
          Ok (match flat_map lv_targets tg with
              | [] => LLeaf 0 labels
              | gts => LNode 0 labels gts
              end)
        else Err "ErrorInitIndex"
    end.

  Definition M_level_drop1_obs (labs : list label) (probes : list label) : res hobs :=
    match M_from_labels labs with
    | Err e => Err e
    | Ok lv => match M_level_drop1 lv with
               | Ok lv' => Ok (M_h_observe lv' probes)
               | Err e => Err e
               end
    end.

End Tree.

Arguments TLeaf {C}. Arguments TNode {C}. Arguments LLeaf {C}. Arguments LNode {C}.
    
   
Arguments find_child {C}. Arguments set_child {C}. Arguments fresh {C}. Arguments last_is {C}. Arguments ins {C}.
Arguments ins_all {C}.  Arguments lv_offset {C}. Arguments lv_len {C}. Arguments build {C}. Arguments build_list {C}. Arguments flatten_list {C}.
Arguments M_from_labels {C}. Arguments flatten {C}. Arguments leaf_loc {C}. Arguments M_leaf_loc_to_iloc {C}.
Arguments M_h_contains {C}. Arguments lv_contains {C}.    
     
    
Arguments M_h_observe {C}. Arguments lv_labels {C}. Arguments lv_targets {C}. Arguments M_level_drop1 {C}. Arguments M_level_drop1_obs {C}. Arguments M_from_labels_obs {C}.
