(* C17 -- implementation model M of static_frame.Bus over a multi-table store (no proofs here).

   M follows static_frame/core/bus.py statement by statement, bugs included:
     m_init            Bus.__init__                      bus.py:297-341 (loaded flags, LRU dict seeded in index order,
                                                         `max_persist < loaded.sum()` -> ErrorInitBus)
     reader_batches    Bus._store_reader                 bus.py:529-555 (three cases of max_persist; the max_persist==1
                                                         branch looks the configuration up with `config[labels]`, a generator
                                                         key, hence ALWAYS the default configuration: CfgDefault)
     m_update          Bus._update_series_cache_iloc     bus.py:558-629 (not-loaded test through the cached _loaded_all, LRU
                                                         refresh branch, snapshot `targets` taken before the loop, reader
                                                         consumed with next(), re-instating a just-evicted target without a
                                                         read, eviction of the first key of the dict, in-place mutation of
                                                         _loaded/_last_accessed surviving an exception while `array` is lost)
     m_extract         Bus._extract_iloc/_extract_loc    bus.py:634-671
     m_items/m_values  Bus.items / Bus.values            bus.py:709-738
     m_step            get (bus.py:924-935), iter_element(_items) (696-704), drop (686-691), reindex (432-453),
                       sort_index (1028-1051), sort_values (1054-1085), status (811-832), keys (897-913)
   The coherence decision of the store is NOT hand-written: Gen.Gen_c17.mtime_coherent / mtime_update are
   regenerated from store.py:444-458 on every run, and reads_checked says whether every read entry point of the
   zip/sqlite stores still carries the store_coherent_non_write decorator. *)
Require Import SF.Prelude SF.PySlice SF.BusSpec Gen.Gen_c17.

Section BusModel.
Variables L F : Type.
Variable leqb : L -> L -> bool.
Variable lleb : L -> L -> bool.
Variable feqb : F -> F -> bool.
Variable fkey : F -> Z.

Notation store := (store L F).
Notation key := (key L).
Notation op := (op L).
Notation obs := (obs L F).
Notation mem := (mem L leqb).
Notation la_touch := (la_touch L leqb).
Notation assoc := (assoc L leqb).
Notation find_idx := (find_idx L leqb).
Notation labels_at := (labels_at L).
Notation resolve := (resolve L leqb).

(* Store._mtime_coherent as the code decides it now (regenerated) *)
Definition m_coherent (st : store) : bool :=
  if reads_checked then
    mtime_coherent (is_some (st_file L F st)) (st_file L F st) (st_recorded L F st)
  else true.

Inductive cfgmode := CfgLabel | CfgDefault.

(* one read of the store: the frame decoded with the label's own configuration or with the default one *)
Definition store_read (st : store) (mode : cfgmode) (l : L) : res F :=
  match assoc l (st_content L F st) with
  | Some (f, fd) => Ok (match mode with CfgLabel => f | CfgDefault => fd end)
  | None => Err "KeyError"
  end.

(* ---------- Bus._store_reader: how the deferred labels are grouped into read_many calls ---------- *)
Fixpoint chunk_aux (k : nat) (cur : list L) (ls : list L) : list (list L) :=
  match ls with
  | [] => match cur with [] => [] | _ => [cur] end             (* `if coll:` less than max_persist remaining *)
  | l :: r => let cur' := cur ++ [l] in
              if Nat.eqb (length cur') k then cur' :: chunk_aux k [] r   (* len(coll) == max_persist: read, clear *)
              else chunk_aux k cur' r
  end.

Definition reader_batches (mp : option Z) (ls : list L) : list (list L) :=
  match mp with
  | None => [ls]                                               (* one read_many over all labels *)
  | Some k => if k >? 1 then chunk_aux (Z.to_nat k) [] ls
              else map (fun l => [l]) ls                       (* store.read per label *)
  end.

Definition reader_mode (mp : option Z) : cfgmode :=
  match mp with
  | None => CfgLabel
  | Some k => if k >? 1 then CfgLabel
              else if reader_cfg_by_label then CfgLabel        (* config[label] *)
              else CfgDefault                                  (* bus.py:555 as found: config[labels], a generator key *)
  end.

(* ---------- the Bus ---------- *)
Record mbus := mk_mbus {
  mb_labels : list L;                (* _series.index *)
  mb_slots : list (option F);        (* _series.values: Frame or FrameDeferred (None) *)
  mb_loaded : list bool;             (* _loaded *)
  mb_loaded_all : bool;              (* _loaded_all (cached) *)
  mb_la : list L;                    (* _last_accessed: keys of the ordered dict, oldest first *)
  mb_mp : option Z                   (* _max_persist *)
}.

Fixpoint set_nth {A} (n : nat) (x : A) (l : list A) : list A :=
  match l, n with
  | [], _ => []
  | _ :: r, O => x :: r
  | y :: r, S n' => y :: set_nth n' x r
  end.

Fixpoint loaded_labels (labels : list L) (slots : list (option F)) : list L :=
  match labels, slots with
  | l :: lr, s :: sr => if is_some s then l :: loaded_labels lr sr else loaded_labels lr sr
  | _, _ => []
  end.

(* Bus.__init__ *)
Definition m_init (labels : list L) (slots : list (option F)) (mp : option Z) : res mbus :=
  let loaded := map is_some slots in
  let la := match mp with Some _ => loaded_labels labels slots | None => [] end in
  if (match mp with Some k => k <? count_true loaded | None => false end) then Err "ErrorInitBus"
  else Ok (mk_mbus labels slots loaded (all_true loaded) la mp).

(* Bus._from_store: every slot deferred *)
Definition m_open (st : store) (mp : option Z) : res mbus :=
  let labels := map fst (st_content L F st) in
  m_init labels (map (fun _ => None) labels) mp.

(* ---------- Bus._update_series_cache_iloc ---------- *)
Record loopst := mk_loopst {
  ls_array : list (option F);        (* local copy `array` *)
  ls_loaded : list bool;             (* self._loaded, mutated in place *)
  ls_la : list L;                    (* self._last_accessed, mutated in place *)
  ls_count : Z;                      (* loaded_count *)
  ls_pending : list (L * cfgmode)    (* what next(store_reader) will read, in order *)
}.

(* body of `for label, frame in targets_items:`; None = completed, Some e = exception e raised *)
Definition loop_body (st : store) (labels : list L) (mp : option Z) (s : loopst) (t : L * option F)
  : option string * loopst :=
  let '(label, snap) := t in
  match find_idx label labels with
  | None => (Some "KeyError"%string, s)
  | Some idx =>
      (* if max_persist_active: self._last_accessed[label] = self._last_accessed.pop(label, None) *)
      let la1 := match mp with Some _ => la_touch label (ls_la s) | None => ls_la s end in
      let s1 := mk_loopst (ls_array s) (ls_loaded s) la1 (ls_count s) (ls_pending s) in
      (* if frame is FrameDeferred: frame = next(store_reader) *)
      let got : res (F * list (L * cfgmode)) :=
        match snap with
        | Some f => Ok (f, ls_pending s)
        | None =>
            match ls_pending s with
            | [] => Err "StopIteration"
            | (l', mode) :: rest =>
                if m_coherent st then res_map (fun f => (f, rest)) (store_read st mode l')
                else Err "StoreFileMutation"
            end
        end in
      (* the dict at the moment next(store_reader) may raise: already updated (bus.py:602 as found) or not yet *)
      let s_raise := if lru_update_after_read then s else s1 in
      match got with
      | Err e => (Some e, s_raise)
      | Ok (frame, pending) =>
          (* if not self._loaded[idx]: array[idx] = frame; self._loaded[idx] = True; loaded_count += 1 *)
          let fresh := negb (nth idx (ls_loaded s) false) in
          let array2 := if fresh then set_nth idx (Some frame) (ls_array s) else ls_array s in
          let loaded2 := if fresh then set_nth idx true (ls_loaded s) else ls_loaded s in
          let count2 := if fresh then ls_count s + 1 else ls_count s in
          (* if max_persist_active and loaded_count > self._max_persist: evict next(iter(self._last_accessed)) *)
          match mp with
          | Some k =>
              if count2 >? k then
                match la1 with
                | [] => (Some "StopIteration"%string, mk_loopst array2 loaded2 la1 count2 pending)
                | lr :: la3 =>
                    match find_idx lr labels with
                    | None => (Some "KeyError"%string, mk_loopst array2 loaded2 la3 count2 pending)
                    | Some ir =>
                        (None, mk_loopst (set_nth ir None array2) (set_nth ir false loaded2) la3 (count2 - 1) pending)
                    end
                end
              else (None, mk_loopst array2 loaded2 la1 count2 pending)
          | None => (None, mk_loopst array2 loaded2 la1 count2 pending)
          end
      end
  end.

Fixpoint run_loop (st : store) (labels : list L) (mp : option Z) (s : loopst) (ts : list (L * option F))
  : option string * loopst :=
  match ts with
  | [] => (None, s)
  | t :: r => match loop_body st labels mp s t with
              | (Some e, s') => (Some e, s')
              | (None, s') => run_loop st labels mp s' r
              end
  end.

Definition targets_at (labels : list L) (slots : list (option F)) (ps : list nat) : list (L * option F) :=
  flat_map (fun p => match nth_error labels p, nth_error slots p with
                     | Some l, Some s => [(l, s)]
                     | _, _ => []
                     end) ps.

Definition deferred_of (ts : list (L * option F)) : list L :=
  flat_map (fun t => match snd t with None => [fst t] | Some _ => [] end) ts.

(* returns (exception?, bus afterwards, the read_many/read calls that reached the store) *)
Definition m_update (st : store) (b : mbus) (single : bool) (ps : list nat)
  : option string * mbus * list (list L) :=
  let mp := mb_mp b in
  let mp_active := is_some mp in
  (* load = False if self._loaded_all else not self._loaded[key].all() *)
  let load := if mb_loaded_all b then false
              else negb (forallb (fun p => nth p (mb_loaded b) false) ps) in
  if negb load && negb mp_active then (None, b, [])
  else if negb load then
    (* must update LRU position *)
    let la := fold_left (fun la l => la_touch l la) (labels_at (mb_labels b) ps) (mb_la b) in
    (None, mk_mbus (mb_labels b) (mb_slots b) (mb_loaded b) (mb_loaded_all b) la mp, [])
  else
    let targets := targets_at (mb_labels b) (mb_slots b) ps in     (* self._series.iloc[key]: a snapshot *)
    let deferred := deferred_of targets in
    let pending := if single then map (fun l => (l, CfgLabel)) (labels_at (mb_labels b) ps)
                   else map (fun l => (l, reader_mode mp)) deferred in
    let batches := if single then map (fun l => [l]) (labels_at (mb_labels b) ps)
                   else match deferred with [] => [] | _ => reader_batches mp deferred end in
    let s0 := mk_loopst (mb_slots b) (mb_loaded b) (mb_la b) (count_true (mb_loaded b)) pending in
    match run_loop st (mb_labels b) mp s0 targets with
    | (Some e, s') =>
        (* `array` is lost; _loaded and _last_accessed were mutated in place *)
        (Some e, mk_mbus (mb_labels b) (mb_slots b) (ls_loaded s') (mb_loaded_all b) (ls_la s') mp, [])
    | (None, s') =>
        (None, mk_mbus (mb_labels b) (ls_array s') (ls_loaded s') (all_true (ls_loaded s')) (ls_la s') mp, batches)
    end.

Definition slots_at (slots : list (option F)) (ps : list nat) : list (option F) :=
  flat_map (fun p => match nth_error slots p with Some s => [s] | None => [] end) ps.

Definition m_flags (b : mbus) : list bool := mb_loaded b.

(* the result of an operation that returns a Bus: _derive re-runs __init__ *)
Definition m_bus_result (b : mbus) (labels : list L) (slots : list (option F)) (into : bool) : obs * mbus :=
  match m_init labels slots (mb_mp b) with
  | Err e => (ObErr L F e, b)
  | Ok d => (ObBus L F (mb_labels d) (m_flags d), if into then d else b)
  end.

(* _extract_iloc / _extract_loc after key resolution *)
Definition m_extract (st : store) (b : mbus) (single : bool) (ps : list nat) (into : bool)
  : obs * mbus * list (list L) :=
  match m_update st b single ps with
  | (Some e, b', log) => (ObErr L F e, b', log)
  | (None, b', log) =>
      if single then
        (ObSlot L F (match slots_at (mb_slots b') ps with s :: _ => s | [] => None end), b', log)
      else
        let '(r, b'') := m_bus_result b' (labels_at (mb_labels b') ps) (slots_at (mb_slots b') ps) into in
        (r, b'', log)
  end.

Definition m_select (st : store) (b : mbus) (k : key) (into : bool) : obs * mbus * list (list L) :=
  match resolve (mb_labels b) k with
  | Err e => (ObErr L F e, b, [])
  | Ok (single, ps) => m_extract st b single ps into
  end.

(* for i, label in enumerate(index): self._extract_iloc(i) -- stops at the first exception *)
Fixpoint m_each (st : store) (b : mbus) (ps : list nat) (acc : list (option F)) (log : list (list L))
  : option string * list (option F) * mbus * list (list L) :=
  match ps with
  | [] => (None, acc, b, log)
  | p :: r =>
      match m_update st b true [p] with
      | (Some e, b', lg) => (Some e, acc, b', log ++ lg)
      | (None, b', lg) =>
          m_each st b' r (acc ++ slots_at (mb_slots b') [p]) (log ++ lg)
      end
  end.

(* the array Bus.values / Bus.items() deliver *)
Definition m_values (st : store) (b : mbus) : option string * list (option F) * mbus * list (list L) :=
  let all := seq O (length (mb_labels b)) in
  match mb_mp b with
  | None =>
      if mb_loaded_all b then (None, mb_slots b, b, [])
      else match m_update st b false all with           (* key = NULL_SLICE *)
           | (Some e, b', lg) => (Some e, [], b', lg)
           | (None, b', lg) => (None, mb_slots b', b', lg)
           end
  | Some _ => m_each st b all [] []
  end.

Definition m_sort_labels (asc : bool) (b : mbus) : list (L * option F) :=
  let s := isort (fun x y => lleb (fst x) (fst y)) (combine (mb_labels b) (mb_slots b)) in
  if asc then s else rev s.

Definition m_step (st : store) (b : mbus) (o : op) : obs * store * mbus * list (list L) :=
  match o with
  | OSel _ k into => let '(r, b', lg) := m_select st b k into in (r, st, b', lg)
  | OItems _ =>
      match m_values st b with
      | (Some e, _, b', lg) => (ObErr L F e, st, b', lg)
      | (None, vs, b', lg) => (ObItems L F (combine (mb_labels b) vs), st, b', lg)
      end
  | OValues _ =>
      match m_values st b with
      | (Some e, _, b', lg) => (ObErr L F e, st, b', lg)
      | (None, vs, b', lg) => (ObSlots L F vs, st, b', lg)
      end
  | OKeys _ => (ObLabels L F (mb_labels b), st, b, [])
  | OStatus _ => (ObFlags L F (mb_loaded b), st, b, [])
  | OGet _ l =>
      match find_idx l (mb_labels b) with
      | None => (ObUnit L F, st, b, [])
      | Some i =>
          if get_loads then                                       (* return self._extract_loc(key) *)
            let '(r, b', lg) := m_select st b (KLabel L l) false in (r, st, b', lg)
          else                                                    (* bus.py:935 as found: self._series.__getitem__(key) *)
            (ObSlot L F (match nth_error (mb_slots b) i with Some s => s | None => None end), st, b, [])
      end
  | OIterElem _ =>
      if iter_element_loads then                                  (* yield from self.values *)
        match m_values st b with
        | (Some e, _, b', lg) => (ObErr L F e, st, b', lg)
        | (None, vs, b', lg) => (ObSlots L F vs, st, b', lg)
        end
      else (ObSlots L F (mb_slots b), st, b, [])                  (* bus.py:704 as found: yield from self._series.values *)
  | OIterItems _ =>
      if iter_element_items_loads then                            (* yield from self.items() *)
        match m_values st b with
        | (Some e, _, b', lg) => (ObErr L F e, st, b', lg)
        | (None, vs, b', lg) => (ObItems L F (combine (mb_labels b) vs), st, b', lg)
        end
      else (ObItems L F (combine (mb_labels b) (mb_slots b)), st, b, [])
  | ODrop _ k into =>
      match resolve (mb_labels b) k with
      | Err e => (ObErr L F e, st, b, [])
      | Ok (_, ps) =>
          let keep := complement (length (mb_labels b)) ps in
          let '(r, b') := m_bus_result b (labels_at (mb_labels b) keep) (slots_at (mb_slots b) keep) into in
          (r, st, b', [])
      end
  | OReindex _ ls into =>
      if has_dup L leqb ls then (ObErr L F "ErrorInitIndex", st, b, [])
      else match find_all L leqb ls (mb_labels b) with
           | None => (ObErr L F "Unsupported", st, b, [])
           | Some ps =>
               let '(r, b') := m_bus_result b ls (slots_at (mb_slots b) ps) into in (r, st, b', [])
           end
  | OSortIndex _ asc into =>
      let s := m_sort_labels asc b in
      let '(r, b') := m_bus_result b (map fst s) (map snd s) into in (r, st, b', [])
  | OSortValues _ asc into =>
      (* values = self.values; Series(values, index).sort_values(key); self._derive(series) *)
      match m_values st b with
      | (Some e, _, b', lg) => (ObErr L F e, st, b', lg)
      | (None, vs, b', lg) =>
          let lv := combine (mb_labels b) vs in
          let kv := map (fun x => (x, match snd x with Some f => fkey f | None => 0 end)) lv in
          let s := sort_by_key asc kv in
          if sort_values_from_own_series then
            (* series = self._series.reindex(sorted index): the slots the Bus holds NOW, in sorted order *)
            match find_all L leqb (map fst s) (mb_labels b') with
            | None => (ObErr L F "KeyError", st, b', lg)
            | Some ps => let '(r, b'') := m_bus_result b' (map fst s) (slots_at (mb_slots b') ps) into in (r, st, b'', lg)
            end
          else
            (* bus.py:1073-1085 as found: the Series of all Frames, loaded, goes to _derive *)
            let '(r, b'') := m_bus_result b' (map fst s) (map snd s) into in (r, st, b'', lg)
      end
  | OFile _ f => (ObUnit L F, mk_store L F (st_content L F st) (st_recorded L F st) f, b, [])
  end.

(* public observations only: result of each operation and status['loaded'] afterwards *)
Fixpoint m_run (st : store) (b : mbus) (ops : list op) : list (obs * list bool) :=
  match ops with
  | [] => []
  | o :: r => let '(x, st', b', _) := m_step st b o in (x, m_flags b') :: m_run st' b' r
  end.

(* with the private state as well: list(_last_accessed) and the read calls that reached the store *)
Fixpoint m_run_k (st : store) (b : mbus) (ops : list op) : list (obs * list bool * list L * list (list L)) :=
  match ops with
  | [] => []
  | o :: r => let '(x, st', b', lg) := m_step st b o in (x, m_flags b', mb_la b', lg) :: m_run_k st' b' r
  end.

Definition ktrace_eqb (a b : list (obs * list bool * list L * list (list L))) : bool :=
  list_eqb (fun x y =>
    obs_eqb L F leqb feqb (fst (fst (fst x))) (fst (fst (fst y))) &&
    list_eqb Bool.eqb (snd (fst (fst x))) (snd (fst (fst y))) &&
    list_eqb leqb (snd (fst x)) (snd (fst y)) &&
    list_eqb (list_eqb leqb) (snd x) (snd y)) a b.

End BusModel.
