(* C02 -- hierarchical construction MODEL at SF.Value.val: the comparison entry point for M
   (the specification side is SF.IxTreeSpecVal).  MODELS ONLY. *)
Require Import SF.Prelude SF.Value SF.PySlice SF.IndexBij SF.IndexBijVal SF.IxTree.
Require Export SF.IxTreeSpecVal.

Definition chk_M_hier (labs probes : list vlab) (observed : res vhobs) : bool :=
  rhobs_eqb (M_from_labels_obs val_eqb (map lab_canon labs) (map lab_canon probes)) (res_map hobs_canon observed).

(* ih.level_drop(1) of a depth >= 3 index built from `labs` *)
Definition chk_M_level_drop1 (labs probes : list vlab) (observed : res vhobs) : bool :=
  rhobs_eqb (M_level_drop1_obs val_eqb (map lab_canon labs) (map lab_canon probes)) (res_map hobs_canon observed).
